#!/bin/sh
# Offline setup: copy go.sum next to the harness go.mod and warm the Go build cache
# by compiling every check package against /repo's working tree (build tag verif).
set -e
cd "$(dirname "$0")/harness"
unset GOTOOLCHAIN GOSUMDB
export GOFLAGS=-mod=mod GOPROXY=off
cp /repo/go.sum go.sum
go test -count=1 -tags verif -run '^$' ./... >/dev/null
if [ -d c05 ]; then go test -count=1 -race -tags verif -run '^$' ./c05 >/dev/null; fi
echo setup ok
