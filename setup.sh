#!/bin/sh
# Offline setup: copy go.sum next to the harness go.mod and warm the Go build cache
# by compiling the check packages named in MANIFEST.json against /repo's working tree (build tag verif).
set -e
cd "$(dirname "$0")"
ids=$(python3 -c "import json;print(' '.join('./'+c['property_id'].lower() for c in json.load(open('MANIFEST.json'))['checks']))")
cd harness
unset GOTOOLCHAIN GOSUMDB
export GOFLAGS=-mod=mod GOPROXY=off
cp /repo/go.sum go.sum
go test -count=1 -tags verif -run '^$' $ids >/dev/null
case " $ids " in *" ./c05 "*) go test -count=1 -race -tags verif -run '^$' ./c05 >/dev/null;; esac
echo setup ok
