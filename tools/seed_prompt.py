#!/usr/bin/env python3
"""Prints the prompt for a seeded-breakage sub-agent for property <ID> (only the property text is given)."""
import json, sys
pid = sys.argv[1]
rnd = sys.argv[2] if len(sys.argv) > 2 else ""
p = [json.loads(l) for l in open('/verif/properties.jsonl') if json.loads(l)['id'] == pid][0]
wt = "/tmp/seed/%s%s" % (pid, rnd)
out = "/tmp/seed/%s%s.out" % (pid, rnd)
avoid = ""
if rnd:
    import glob, os
    prev = []
    for d in sorted(glob.glob('/verif/seeded/%s[a-z]' % pid)):
        try: prev.append("- " + json.load(open(os.path.join(d, 'meta.json')))['summary'][:300])
        except Exception: pass
    if prev:
        avoid = "\n\nEarlier developers already tried the following changes; yours must use DIFFERENT mechanisms and code locations, and exercise a different part of the property's statement:\n" + "\n".join(prev)
hint = ""
if rnd == "r6":
    hint = ("\n\nFor this round: many earlier changes were found by automated checks that generate programs, values and operation histories and compare against models. "
            "Look for changes such checks are least likely to reach: behaviour that depends on a SPECIFIC CONSTANT or SIZE threshold inside the implementation (buffer sizes, small-value fast paths, table growth points, recursion or nesting limits, 8/16/32/64-bit boundaries); "
            "on the ORDER in which two features are combined; on a value being used in two roles at once (the same object as receiver and argument, as key and value, as iterable and target); "
            "or on host-side Go API use that a script cannot express. Prefer bugs that return a plausible but wrong result or leave wrong state. "
            "Make bug a and bug b differ from each other in kind, and from every earlier change listed at the end.")
elif rnd == "r5":
    hint = ("\n\nFor this round, look especially at: failure and clean-up paths (what state is left behind when an operation fails half-way, and what a LATER operation then sees); "
            "the less common value types in scope of the property (bytes, range, tuple, struct, module, bound methods, string iterables such as elems()/codepoints(), floats such as -0.0/inf/nan, None); "
            "scenarios with several modules or several executions on one thread (load, a module using values of an earlier module, thread re-use); "
            "and code shared by two features where a change that is right for one is wrong for the other. Prefer bugs that return a plausible but wrong result or leave wrong state over bugs that crash. "
            "Make bug a and bug b differ from each other in kind, and from every earlier change listed at the end.")
elif rnd in ("r4",):
    hint = ("\n\nFor this round, look especially at parts of the property's statement and of the anchored code that the earlier changes (listed at the end) did NOT touch: "
            "rarely used entry points of the Go API (host-side use: Thread options, Program methods, iterator protocols, Freeze, Unpack helpers), non-default dialect options, "
            "interactions between two features that each work alone, state carried from one operation to a later one, and boundary values of internal encodings. "
            "Make bug a and bug b differ from each other in kind (for example one wrong-result bug and one state/sequence bug).")
print(f"""You are helping to evaluate a verification effort for the Go project google/starlark-go (a Starlark interpreter). Your job: act as a developer who introduces a subtle, realistic BUG that breaks ONE stated semantic property of the project, while the code still compiles and the project's existing test suite still passes. You will produce TWO different such bugs (call them a and b), each in a different mechanism/location.

Work ONLY inside your own scratch git worktree {wt} (a checkout of the project; create nothing elsewhere except your output directory {out}). Do NOT read or list anything under /verif or /root/.vp, and do not touch /repo. No network. Every shell call must first run: export GOFLAGS=-mod=mod GOPROXY=off   (and must NOT set GOTOOLCHAIN or GOSUMDB).

The property (id {pid}): {p['title']}
Statement: {p['statement']}
Quantified over: {p['quantifier']['text']}
Why the existing tests cannot settle it: {p['why_tests_cant']}
Code anchors: files {', '.join(p['anchors']['files'])}; mechanisms: {'; '.join(m['name'] + ' (' + m['where'] + ')' for m in p['anchors']['mechanism'])}

Requirements for each of the two bugs:
1. It is a small source change (typically 1-10 lines) to non-test Go files of the project that a plausible refactoring, optimisation or off-by-one slip could produce. No build tags, no dead code, no special-casing of a magic constant that only your demo uses, no changes to tests or testdata.
2. With the change the project still builds (`go build ./...`) and the existing test suite still passes: run `go test ./... 2>&1 | tail -20` in the worktree and confirm every package is ok.
3. The change really breaks the property above, and needs something SPECIFIC to manifest - a particular interleaving, a fault at a particular point, a multi-step sequence of operations, an unusual input or boundary value, a rarely combined pair of constructs, or two cooperating sites that each look fine alone - not something that ordinary use or any trivial program would expose at once.
4. A demonstration: a small Go test file (put it in the worktree, e.g. starlark/seed_demo_test.go, package of your choice) or a small Go program/Starlark script plus the command to run it, which FAILS (or prints the wrong result) with your change and PASSES without it. Verify both directions yourself (use `git stash` or `git diff > patch; git checkout .; ...; git apply patch`).

Deliverables, for bug a and bug b, written to {out}/a/ and {out}/b/:
- patch.diff  : `git diff` of the source change ONLY (not the demo), applicable with `git apply` to the worktree's base commit;
- the demo file(s), plus a file demo_cmd.txt with the exact command that runs the demo from the worktree root (e.g. `go test ./starlark -run TestSeedDemo`), and where the demo file must be placed;
- meta.json : {{"property": "{pid}", "summary": "...what the change does...", "needs": "...what specific condition makes it manifest...", "why_tests_pass": "...", "files": [...]}}.
Leave the worktree clean (git checkout . ; remove untracked demo files) when you finish. Do not use `git stash` (the stash is shared between worktrees): use `git diff > file`, `git checkout .`, `git apply file`. Reply with a short summary of both bugs and the commands you ran to verify requirements 2-4.""" + hint + avoid)
