#!/bin/bash
# Usage: tools/sweep.sh <tier> <seed> [IDs...]   - runs the checks one after another, prints rc and wall time per check.
# Meant for `vp run -- tools/sweep.sh thorough 1`; evidence written by it is not committed.
tier=$1; seed=$2; shift 2
ids="$@"; [ -z "$ids" ] && ids="C01 C02 C03 C04 C05 C06 C07 C08 C09 C10 C11 C12 C13 C14 C15 C16 C17 C18 C19 C20"
cd "$(dirname "$0")/.."
./setup.sh >/dev/null 2>&1 || { echo "setup failed"; exit 2; }
for id in $ids; do
  s=$(date +%s)
  VERIF_SEED=$seed ./check $id --tier $tier > sweep_$id.log 2>&1; rc=$?
  e=$(date +%s)
  echo "$id tier=$tier seed=$seed rc=$rc wall=$((e-s))s kf=$(grep -c KNOWN-FINDING sweep_$id.log) $(grep -m2 VIOLATION sweep_$id.log | tr '\n' ' ')"
  [ $rc -ne 0 ] && tail -30 sweep_$id.log
done
