#!/bin/bash
# Usage: tools/mutant.sh <patch-file> <ID> [<ID>...]   (env TIER=quick|thorough, KEEP=1)
# Applies a patch to a scratch worktree of /repo (never to /repo itself), runs the named checks'
# search tests against it from a scratch copy of the harness, prints whether each check turned red,
# and removes the scratch directories.
set -u
patch=$(realpath "$1"); shift
tag=$$
wt=/tmp/mut-wt-$tag
hc=/tmp/mut-h-$tag
unset GOTOOLCHAIN GOSUMDB
export GOFLAGS=-mod=mod GOPROXY=off
cleanup() { git -C /repo worktree remove --force "$wt" >/dev/null 2>&1; rm -rf "$hc" "$wt"; }
trap cleanup EXIT
git -C /repo worktree add --detach "$wt" HEAD >/dev/null 2>&1 || { echo "worktree failed"; exit 2; }
if ! git -C "$wt" apply "$patch"; then echo "PATCH DOES NOT APPLY"; exit 2; fi
(cd "$wt" && go build ./... ) || { echo "MUTANT DOES NOT BUILD"; exit 2; }
if [ "${SUITE:-0}" = 1 ]; then
  (cd "$wt" && go test -count=1 ./... 2>&1 | grep -v "no test files" | tail -15)
fi
mkdir -p "$hc/root"
cp -r "${HARNESS_SRC:-/verif/harness}" "$hc/harness"
cp -r /verif/known_findings.json "$hc/root/" 2>/dev/null
cp -r /verif/known_findings.d "$hc/root/" 2>/dev/null
cp -r /verif/replays "$hc/root/" 2>/dev/null
(cd "$hc/harness" && go mod edit -replace go.starlark.net="$wt")
for id in "$@"; do
  pkg=$(echo "$id" | tr A-Z a-z)
  race=""; [ "$id" = C05 ] && race="-race"
  out=$(cd "$hc/harness" && VERIF_ROOT="$hc/root" VERIF_TIER="${TIER:-quick}" VERIF_SEED="${VERIF_SEED:-1}" VERIF_SHRINKTIME=5s \
        timeout 3600 go test $race -tags verif -count=1 -timeout 3500s -run '^TestProp' ./"$pkg" 2>&1)
  if [ "$id" = C10 ] && ! echo "$out" | grep -q "^VIOLATION"; then
    # the driver's second leg: the fallback Int representation (address space limited as in the repo's TestIntFallback)
    out=$(cd "$hc/harness" && go test -c -tags verif -o "$hc/c10.test" ./c10 2>&1 && cd c10 && (ulimit -v 4000000; VERIF_INTREP=fallback VERIF_ROOT="$hc/root" VERIF_TIER="${TIER:-quick}" VERIF_SEED="${VERIF_SEED:-1}" VERIF_SHRINKTIME=5s \
          timeout 3600 "$hc/c10.test" -test.run '^TestProp' -test.timeout 3500s 2>&1))
  fi
  if echo "$out" | grep -q "^VIOLATION"; then
    echo "$id: CAUGHT"; echo "$out" | grep -A1 "^VIOLATION" | head -4 | cut -c1-400
  else
    echo "$id: MISSED"; echo "$out" | tail -5 | cut -c1-300
  fi
done
