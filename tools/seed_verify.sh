#!/bin/bash
# Usage: tools/seed_verify.sh <ID> <a|b> [extra check IDs...]
# Confirms a seeded change delivered in /tmp/seed/<ID>.out/<a|b>/ : it applies, builds, passes the existing suite,
# its demonstration fails with the change and passes without it; then runs our check(s) against it via tools/mutant.sh.
# Writes /verif/seeded/<ID><a|b>/{patch.diff,demo files,meta.json,verify.log}.
set -u
id=$1; v=$2; shift 2
# SEEDROUND=r2|r3|r4|r5 reads /tmp/seed/<ID><round>.out/<a|b> and stores the result as <ID>c/d, e/f, g/h, i/j
dv=$v
case "${SEEDROUND:-}" in
  r2) case $v in a) dv=c;; b) dv=d;; esac;;
  r3) case $v in a) dv=e;; b) dv=f;; esac;;
  r4) case $v in a) dv=g;; b) dv=h;; esac;;
  r5) case $v in a) dv=i;; b) dv=j;; esac;;
  r6) case $v in a) dv=k;; b) dv=l;; esac;;
esac
src=/tmp/seed/$id${SEEDROUND:-}.out/$v
dst=/verif/seeded/$id$dv
wt=/tmp/seedv-$id$dv
unset GOTOOLCHAIN GOSUMDB; export GOFLAGS=-mod=mod GOPROXY=off
[ -f "$src/patch.diff" ] || { echo "no patch at $src"; exit 2; }
mkdir -p "$dst"; log="$dst/verify.log"; : > "$log"
oldnote=$(python3 -c "import json,sys;print(json.load(open('$dst/meta.json')).get('note',''))" 2>/dev/null)
git -C /repo worktree remove --force "$wt" >/dev/null 2>&1; rm -rf "$wt"
git -C /repo worktree add --detach "$wt" HEAD >/dev/null 2>&1
cleanup() { git -C /repo worktree remove --force "$wt" >/dev/null 2>&1; rm -rf "$wt"; }
trap cleanup EXIT
cd "$wt"
democmd=$(grep -E '(go test|go run|go build)' "$src/demo_cmd.txt" | grep -v '^#' | head -1 | sed 's/^[^a-zA-Z.]*//; s/`//g')
# place demo files: every file in src except patch/meta/demo_cmd goes where meta says, default: path given after "place:" in demo_cmd.txt, else starlark/
place=$(grep -oE '[a-zA-Z0-9_/.-]+_test\.go|[a-zA-Z0-9_/.-]+\.star|[a-zA-Z0-9_/.-]+/main\.go' "$src/demo_cmd.txt" | head -5)
for f in "$src"/*; do
  b=$(basename "$f")
  case "$b" in patch.diff|meta.json|demo_cmd.txt|verify.log) continue;; esac
  target=""
  for p in $place; do [ "$(basename "$p")" = "$b" ] && target="$p"; done
  [ -z "$target" ] && target="starlark/$b"
  case "$target" in */*) ;; *) target="starlark/$target";; esac
  mkdir -p "$(dirname "$target")"; cp "$f" "$target"
  echo "demo file $b -> $target" >> "$log"
done
echo "demo command: $democmd" >> "$log"
echo "== demo WITHOUT the change" >> "$log"
( eval "$democmd" ) >> "$log" 2>&1; rc_without=$?
git apply "$src/patch.diff" 2>>"$log" || { echo "RESULT $id$dv: patch does not apply" | tee -a "$log"; exit 1; }
go build ./... >> "$log" 2>&1 || { echo "RESULT $id$dv: does not build" | tee -a "$log"; exit 1; }
echo "== demo WITH the change" >> "$log"
( eval "$democmd" ) >> "$log" 2>&1; rc_with=$?
echo "== existing suite WITH the change (demo files removed)" >> "$log"
for f in $(git ls-files --others --exclude-standard); do rm -f "$f"; done
go test -count=1 ./... 2>&1 | grep -v "no test files" | tail -25 >> "$log"; suite=${PIPESTATUS[0]}
cd /verif
echo "== our checks" >> "$log"
res=$(tools/mutant.sh "$src/patch.diff" "$id" "$@" 2>&1); echo "$res" | cut -c1-600 >> "$log"
caught=$(echo "$res" | grep -E "^C[0-9]+: (CAUGHT|MISSED)" | tr '\n' ' ')
cp "$src/patch.diff" "$dst/"; for f in "$src"/*; do b=$(basename "$f"); case "$b" in patch.diff|verify.log) ;; *) cp "$f" "$dst/";; esac; done
python3 - "$dst" "$id" "$v" "$rc_without" "$rc_with" "$suite" "$caught" "$democmd" "$oldnote" <<'PY'
import json,sys,os
dst,id,v,rcw,rcwith,suite,caught,cmd,oldnote=sys.argv[1:]
p=os.path.join(dst,'meta.json')
try: m=json.load(open(p))
except Exception: m={}
if oldnote: m["note"]=oldnote
m.update({"property":id,"variant":v,"demo_cmd":cmd,
 "confirmed":{"demo_exit_without_change":int(rcw),"demo_exit_with_change":int(rcwith),"existing_suite_exit_with_change":int(suite)},
 "our_checks":caught.strip(),
 "ran":["git apply patch.diff in a scratch worktree of /repo HEAD","go build ./...","demo command with and without the change","go test -count=1 ./... with the change","tools/mutant.sh patch.diff "+id]})
json.dump(m,open(p,'w'),indent=1)
PY
echo "RESULT $id$dv: demo without=$rc_without with=$rc_with suite=$suite | $caught" | tee -a "$log"
