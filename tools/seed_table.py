#!/usr/bin/env python3
"""Prints a markdown table of the confirmed seeded changes in /verif/seeded/."""
import json, glob, os
rows = []
for d in sorted(glob.glob(os.path.join(os.path.dirname(os.path.dirname(os.path.abspath(__file__))), "seeded", "*"))):
    try:
        m = json.load(open(os.path.join(d, "meta.json")))
    except Exception:
        continue
    c = m.get("confirmed", {})
    ok = c.get("demo_exit_without_change") == 0 and c.get("demo_exit_with_change") not in (0, None) and c.get("existing_suite_exit_with_change") == 0
    rows.append((os.path.basename(d), (m.get("summary") or "")[:170].replace("|", "/").replace("\n", " "), (m.get("needs") or "")[:150].replace("|", "/").replace("\n", " "),
                 "yes" if ok else "NO", m.get("our_checks", ""), m.get("note", "")))
print("| id | change | needs | confirmed | our checks | note |")
print("|----|--------|-------|-----------|------------|------|")
for r in rows:
    print("| " + " | ".join(r) + " |")

# with --update, rewrite the table between the markers in DESIGN.md
import sys
if "--update" in sys.argv:
    root = os.path.dirname(os.path.dirname(os.path.abspath(__file__)))
    dp = os.path.join(root, "DESIGN.md")
    d = open(dp).read()
    b, e = "<!-- seeded-table:begin -->", "<!-- seeded-table:end -->"
    table = "| id | change | needs | confirmed | our checks | note |\n|----|--------|-------|-----------|------------|------|\n" + "".join("| " + " | ".join(r) + " |\n" for r in rows)
    d = d[:d.index(b) + len(b)] + "\n" + table + d[d.index(e):]
    open(dp, "w").write(d)
