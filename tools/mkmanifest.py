#!/usr/bin/env python3
"""Regenerates /verif/MANIFEST.json from the table below (kept in one place so it stays valid)."""
import json, os, subprocess
ROOT = os.path.dirname(os.path.dirname(os.path.abspath(__file__)))

CHECKS = {
 "C12": dict(
  technique="model-based property testing: exhaustive enumeration of short operation histories plus rapid-generated long histories against an ordered association-list reference model, with an internal-invariant hook",
  category="exploration",
  text="Every operation history of length <=6 (quick) / <=7 (thorough) over a 5-key universe with a 3-way full-hash collision is enumerated exhaustively through the Go API and built-in methods, and hundreds of random histories of up to 10^4 operations over adversarial hash distributions (all-equal, equal low bits, few chains, colliding ints, short/long strings; up to 40000 live keys) are run; after every step length, lookups, iteration order and the hashtable's structural invariants are compared with an ordered association list. Exploration, not proof: absence of violations is shown only for the generated histories.",
  design_ref="DESIGN.md section 4, C12",
  note="Trusts the reference model (ordered association list, ~100 lines) and the build-tagged read-only hook starlark/verif_hooks.go; keys beyond the listed hash distributions are not explored."),
 "C01": dict(
  technique="differential property testing: grammar-generated programs run through the production pipeline and through an independent tree-walking reference interpreter; effect traces, globals and failure positions compared",
  category="exploration",
  text="Thousands (quick) to hundreds of thousands (thorough) of scope-aware generated programs per run, over the core language and the four dialect options, are executed both by ExecFileOptions and by a reference interpreter written from the spec (own scoping, closures as environment frames, own argument binder, no bytecode); the host-visible effect sequence with argument reprs, the final globals including aliasing, success/failure and the full Starlark call stack with positions must agree. Exploration: agreement is shown for the generated programs only.",
  design_ref="DESIGN.md section 4, C01; section 3.1-3.2",
  note="Trusts the reference interpreter (harness/ref, ~900 lines) and the generator; the value layer (operators, built-ins) is shared with the implementation on purpose. Error texts are not compared."),
 "C03": dict(
  technique="metamorphic property testing: the transcript of a generated program must be identical across repeated, polluted, concurrent and cross-process executions",
  category="exploration",
  text="Generated programs with a determinism-sensitive section (large dicts/sets with long string keys, deletions and re-insertions, dir(), str of structs/modules/functions, json, hash(), kwargs, failing runs with backtraces, injected clock) are executed on a fresh thread, on a reused thread after unrelated programs, on 4 concurrent goroutines and in 2 child processes with their own hash seeds (recycled every 60 cases); effects, globals in iteration order, attribute listings, error, backtrace and step count must be byte-identical. Exploration: hash seeds and schedules are sampled.",
  design_ref="DESIGN.md section 4, C03",
  note="Trusts only string comparison of transcripts; the set of predeclared Go types is the harness's; seeds and interleavings are sampled, not enumerated."),
 "C16": dict(
  technique="property testing with a constructive oracle: programs are assembled by a writer that records the coordinates of every call and failing token, so the expected call stack is known by construction",
  category="exploration",
  text="Call chains of depth 1-8 through defs, lambdas, comprehensions, default-argument expressions, sorted/min/max callbacks, out-of-order conditional expressions and a loaded module, ending in one of 18 failing operation kinds, are laid out with line gaps up to 10^5, columns up to 10^4, permuted definition order and padding instructions; EvalError.CallStack must equal the expected frames exactly (name, file, line, column; built-in frames by name) and Backtrace() must list them outermost first. The (link kind x failure kind) catalogue is also enumerated exhaustively at a fixed layout.",
  design_ref="DESIGN.md section 4, C16; appendix A",
  note="Trusts the position conventions of appendix A (taken from the setPos call sites) and the coordinate-tracking writer (~40 lines); slice failures excluded."),
 "C17": dict(
  technique="differential and round-trip property testing: SourceProgram vs CompiledProgram(Write(SourceProgram)) on generated programs, plus byte-level idempotence of Write",
  category="exploration",
  text="Generated programs (C01's generator plus big-int/float/bytes/odd-string constants, docstrings, keyword-only parameters, closures, loads, recursion on/off, and padded layouts that saturate the position tables) are compiled, written, read back and re-written; both programs are initialised in fresh environments and must agree on effects, globals, error text, call stack positions, backtrace, step count, function metadata (docs, parameters with positions and defaults, free variables), loads and filename, and the second Write must reproduce the first byte for byte.",
  design_ref="DESIGN.md section 4, C17",
  note="Differential within one implementation: defects shared by both paths are C01's; only bytes produced by Write are decoded."),
 "C18": dict(
  technique="property testing against a reference implementation and an inverse law: encoding/json plus a strict RFC 8259 parser as oracle, grammar-generated documents, single-splice corruptions and exhaustive tiny documents",
  category="exploration",
  text="(encode) generated values to depth 6 (ints to 2^200, floats, arbitrary Unicode incl. controls/DEL/U+2028/astral, aliased siblings, structs) must encode to valid JSON denoting the same data (ints exact, floats bit-identical, strings and sorted keys exact) and decode(encode(x)) == x; every ASCII byte and 19 special runes are covered exhaustively in 4 contexts. (decode) grammar-generated documents must decode to what encoding/json (UseNumber) yields. (reject) one-splice corruptions, ~260 classic invalid documents in 8 contexts and every document of length <= 4 (thorough <= 5) over a 19-byte alphabet: invalid => decode fails and decode(doc, default) returns the default; valid => it does not.",
  design_ref="DESIGN.md section 4, C18",
  note="Trusts encoding/json and the harness's strict parser (cross-checked against each other on every case); lone surrogates, invalid UTF-8 input and numbers beyond float64 are counted exclusions; nesting beyond depth 200 is C02's."),
 "C19": dict(
  technique="model-based property testing: exhaustive operand-kind x operator table against exact math/big nanosecond arithmetic, plus algebraic laws and round trips on generated instants/durations/zones",
  category="exploration",
  text="Every ordered pair of operand kinds {time, duration, int, float, string, None} x 19 operators over value pools (39 instants in 3 zones, 16 durations, boundary ints/floats; full product) and rapid values over 12 zones incl. DST days is evaluated through the VM and compared with a table of the documented operations computed exactly: undocumented ordered pairs must be rejected, never computed as the reversed operation. Laws: (t+d)-d, (t2-t1)+t1, zone-independent ==/order/hash/dict/set behaviour, trichotomy, sorted; round trips unix/unix_nano/from_timestamp, components/time(...), parse_duration(str(d)).",
  design_ref="DESIGN.md section 4, C19",
  note="Trusts the operation table written from the package documentation and Go's time zone database (time/tzdata linked in); results overflowing int64 nanoseconds are excluded and counted; d/d is accepted within relative error 2^-50."),
 "C04": dict(
  technique="property testing with an invariant over generated object graphs: every reachable mutable node x every discovered mutator must error and leave a canonical snapshot unchanged",
  category="exploration",
  text="Generated modules build shared, nested and cyclic graphs (lists, dicts, sets, tuples, structs, records, dict keys holding functions, mutable defaults, closures incl. captured top-level comprehension variables, bound methods, a host-supplied list), keep some values out of the globals, may fail midway and define mutators of their own. After ExecFileOptions returns, an independent traversal (elements, keys, fields, ParamDefault, FreeVar, Receiver) visits every reachable mutable node and applies ~30 mutators per type plus every advertised method and the module's own mutators: each applicable one must fail and nothing may change; unreachable values must stay mutable; predeclared and Universe must be untouched.",
  design_ref="DESIGN.md section 4, C04",
  note="Trusts the harness traversal and canonical dump; a mutator is required to fail only when it would change an unfrozen value of that shape; host-defined types other than the harness record are not explored."),
 "C05": dict(
  technique="concurrent scenario generation under the Go race detector in a child process, plus a metamorphic check (concurrent transcript == solo transcript)",
  category="exploration",
  text="Each scenario freezes a generated object graph and compiles one shared Program, then 2-6 goroutines with their own Threads run generated scripts of reads, iterations, comparisons, hashing, printing, json encoding, closure calls, re-freezing stores, rejected mutations, Program.Init and Backtrace() behind a start barrier, inside a -race child with halt_on_error; any race report is a violation, and every thread's transcript must equal that of the same script run alone.",
  design_ref="DESIGN.md section 4, C05",
  note="The race detector sees executed access pairs only; schedules are sampled; a cyclic struct whose printing overflows the stack (a catalogued C02 finding) is excluded and counted."),
 "C06": dict(
  technique="fault enumeration: exhaustive product of collection x iterating construct x mutator x exit path (incl. host panic and step-limit cancellation at every step) with post-condition invariants",
  category="fault_enumeration",
  text="For list, dict and set: every iterating construct (for, comprehensions, nested clauses and loops, sorted/min/max callbacks, sequence assignment in all arities, for-unpacking, *args, every universe built-in and list/dict/set/str/bytes method with the collection in each argument position, Go push iterators) x every mutator (methods, index/aug assignment, +=, |=, Go API) x exit path {exhaustion, break, continue, return, error at iteration k, nested error, host panic, cancellation at every step index}: an in-iteration mutation must fail and change nothing; right after the loop and after the outermost call returns the collection must accept a no-op mutation, the iterator-count hook must read 0, CallStackDepth must be restored and the thread must run a fresh program. Quick runs a seeded 1/8 slice plus all cut points for one mutator per construct; thorough runs the full product.",
  design_ref="DESIGN.md section 4, C06",
  note="Trusts the build-tagged VerifIterCount hook for early detection (the API probe is the primary oracle); mutators are chosen to change an unlocked collection."),
 "C07": dict(
  technique="fault enumeration over cut points with a prefix model: baseline effect stamps predict exactly which effects happen under every step limit; cancellation injected at every host call and asynchronously",
  category="fault_enumeration",
  text="For generated terminating programs a baseline gives S and a step stamp per host effect; for every limit N (quick: boundaries, every stamp and neighbours, random points; thorough: every N in [1,S+1] for S<=3000) the run must fail iff N<=S with the 'too many steps' cancellation, report ExecutionSteps()<=N and perform exactly the effects stamped <N; S is identical across runs and threads. Eight non-terminating shapes must be cancelled for a grid of limits; unbounded recursion without a limit must fail without killing the process (child). Cancel at the k-th host call (one or two reasons, same or other goroutine): no later effect, first reason named, sticky until Uncancel. Asynchronous Cancel of tick loops: at most one further host call.",
  design_ref="DESIGN.md section 4, C07",
  note="Trusts the step accounting convention (effect of the built-in called at step k carries stamp k); async cancellation is sampled in time."),
 "C09": dict(
  technique="property testing with planted violations against an independent rule table, crossed exhaustively with all 64 option vectors; exhaustive enumeration of recursion cycles",
  category="exploration",
  text="A base program legal under every option vector gets one construct from a ~65-entry catalogue planted at a random admissible slot (top level, bodies, loops, branches, nested defs, lambda defaults/bodies, comprehension clauses); under each of the 2^6 FileOptions vectors the rule table says whether it violates: then it must be rejected statically on the plant's line with no code run, otherwise it must not be rejected. The catalogue x slots of a fixed rich base is enumerated exhaustively. Recursion: all cycles over <=3 (thorough <=4) functions x all edge-kind vectors {plain, lambda, twin closures, sorted/min/max, comprehension} x back-edge targets: with recursion off the re-entering call fails and the function is not entered again, with recursion on the cycle proceeds.",
  design_ref="DESIGN.md section 4, C09",
  note="Trusts the rule table written from doc/spec.md; only the first error's position is asserted."),
 "C02": dict(
  technique="generated-input robustness testing in a crash-isolated child process: token soups, token-level mutations of the repository's test corpus and of generated programs, structural bombs, hostile built-in calls and cyclic-graph programs, with a 'returns normally within budget' oracle",
  category="exploration",
  text="Every case runs in a child (own address-space limit) under recover() with a step budget from {100, 1000, 100000}: (source) token soups, mutated testdata chunks and generated programs, 64 KiB nesting bombs, random bytes, under a drawn FileOptions vector; (call) every universe built-in, every method of sample values, struct/json/math/time members (catalogue discovered at run time) x 0-4 positional and 0-2 keyword arguments from a 65-value hostile pool, on mutable/frozen/being-iterated receivers, via starlark.Call and via f(*a, **k); every callee x every pool value for arity <= 1 exhaustively (thorough); (graph) generated modules with cycles through lists, dicts, tuples, structs, closures and bound methods followed by str/repr/==/</hash/json.encode/sorted/in/format. A recovered panic, a death by stack overflow/nil dereference/fatal error, or steps beyond the budget is a violation.",
  design_ref="DESIGN.md section 4, C02; section 2 (crash isolation)",
  note="Out-of-memory deaths and per-case timeouts (built-ins do not count steps) are outside the claim and only counted; two catalogued findings are excluded by narrow predicates (makeslice panic on untrusted lengths; unbounded recursion printing a struct that is part of a cycle)."),
 "C08": dict(
  technique="exhaustive enumeration against an independent reference binder (validated against CPython at development time), plus a model of UnpackArgs written from its documentation",
  category="exploration",
  text="All 280 signatures in the stated bounds (as def and as lambda) x calls with 0-4 positionals, named subsets, *seq of length 0-3 and **dict of 0-2 entries incl. duplicates, through compiled call shapes (CALL/CALL_VAR/CALL_KW/CALL_VAR_KW) and through starlark.Call: when the reference binder binds, every parameter must hold exactly the predicted object; when it rejects, the call must fail. Thorough enumerates the full product (1.1e8 cases); quick a seeded half of the bindable calls and 1/40 of the rest. UnpackArgs/UnpackPositionalArgs: every marker sequence over {n, n?, n??} for 0-4 parameters x 12 target types x right/wrong/None arguments; a target whose argument fails its type check must keep its sentinel.",
  design_ref="DESIGN.md section 4, C08",
  note="Trusts the reference binder (agreed with CPython 3.11 on 23.7M (signature, call) pairs at development time; python3 is not used at run time)."),
 "C10": dict(
  technique="property testing against math/big: exhaustive boundary grids plus rapid values for every numeric operator and built-in, run under both Int representations",
  category="exploration",
  text="Arithmetic, bitwise, shift, comparison, conversion (int(text, base) for all bases and prefix forms, str/repr/%d/%x/%o, float<->int) and int/float mixed operations, range (len, index, in, slices, equality), enumerate, repetition and math.floor/ceil/round are evaluated from rendered source (decimal/hex/octal/binary spellings) and through the Go API over pools dense around 0, +-2^31, 2^32, 2^53, 2^63, 2^64, 2^511/512 and random magnitudes to 2^1024, exhaustively over the boundary grid for the core operators; results must equal exact math/big arithmetic or fail where the spec allows. An extra process repeats the run with the address-space-starved fallback Int representation and verifies by three detectors that it is active.",
  design_ref="DESIGN.md section 4, C10",
  note="int_generic.go (32-bit/non-POSIX) cannot be executed in this sandbox; NaN ordering and math.round beyond 2^53 are not asserted."),
 "C11": dict(
  technique="algebraic-law property testing: exhaustive pairs and triples over a cross-representation value pool plus rapid twins/near-misses, checked against a reference equivalence/order model",
  category="exploration",
  text="Over a 276-value pool (413 thorough) of bools, ints/floats of equal magnitude across representations, strings around the 12-byte hashing switch, bytes, tuples/lists nested to the comparison limit, ranges, structs, functions, built-ins and time values, all pairs and triples are checked for reflexivity, symmetry, transitivity, != as negation, hash/dict/set coherence of equal values (Go API and Starlark source), hash stability (repeat, GC, freeze), trichotomy and derived operators on ordered types, and agreement with the model; sorted must be a stable ordered permutation with and without key/reverse, min/max must return an extreme input element.",
  design_ref="DESIGN.md section 4, C11",
  note="Beyond the comparison depth limit only consistent failure is demanded, and only for the ordered types the property lists; host-defined Comparable types are not generated."),
 "C13": dict(
  technique="property testing against naive reference implementations written from the specification: exhaustive small receivers x index/slice triples and method arguments, plus rapid receivers; references validated against CPython at development time",
  category="exploration",
  text="Indexing and slicing of strings, bytes, lists, tuples and ranges over every (start, stop, step) in [-n-3, n+3] plus None, +-2^31, +-2^62 on all receivers of length <= 5 (thorough <= 8) over a 3-letter alphabet; find/index/count/startswith/endswith with sub-ranges, split/rsplit/splitlines/partition/strip/replace/join/removeprefix, case methods and predicates, format and % interpolation, list methods, reversed/zip/enumerate/sorted/any/all/min/max, +, *, in: results are compared structurally with explicit-loop references, or failure vs success.",
  design_ref="DESIGN.md section 4, C13; appendix C",
  note="ASCII text only (plus a fixed UTF-8 sample); where doc/spec.md is silent the check is silent; two catalogued findings are excluded by narrow predicates (strip with an empty cutset; makeslice panic on a huge maxsplit)."),
 "C15": dict(
  technique="round-trip property testing: Eval(repr(v)) == v and unquote(Quote(s)) == s over generated and exhaustively enumerated values; termination of printing on cyclic graphs in a child process",
  category="exploration",
  text="Every Unicode scalar value (quick: planes 3-13 sampled) alone and in context, every byte string of length <= 2, ~5000 boundary floats and ints, rapid strings over all code-point classes, floats from random bit patterns, ints of any size and containers to depth 6 with shared substructure: repr must be valid source evaluating to an equal value of the same type (floats bit-identical), str(s) == s, Quote/unquote inverse and idempotent; str/repr/%s/%r of cyclic list/dict/tuple graphs must terminate (64 MB stack cap, child process).",
  design_ref="DESIGN.md section 4, C15",
  note="Invalid UTF-8 in text strings is outside the property and discarded; structs are outside its domain (their cyclic printing is a C02 finding)."),
 "C14": dict(
  technique="round-trip property testing (render a generated syntax tree under a random layout, parse, compare trees, literal values and positions), token round trip, and differential testing against an independent reference lexer/parser on one-token near misses; native fuzzing in the thorough tier",
  category="exploration",
  text="Trees to depth 6 over every expression and statement form, rendered under drawn layouts (spaces/tabs, comments, blank lines, continuations, line breaks in brackets, trailing commas, ';', one-line suites, indentation widths, LF/CRLF, minimal or redundant parentheses from a precedence table written from the spec) and literal spellings (all int bases and sizes, float forms, every string/bytes escape, raw and triple-quoted): Parse must return exactly the tree, with exact literal values and each node's start position; the returned tree re-rendered minimally must have the input's tokens. All 21x21 operator pairs in both nestings, unary x binary, conditional/lambda/tuple in every position are enumerated exhaustively under 4 layouts. Near misses (delete/duplicate/swap/replace one token incl. NEWLINE/INDENT), comparison chains and 419 listed texts are classified by an independent three-valued reference parser: reject => Parse or resolve.File rejects with a position inside the text; accept => same tree and positions.",
  design_ref="DESIGN.md section 4, C14",
  note="Rejection of ungrammatical text rests on the hand-written reference parser (answers 'unsure' where spec and implementation are known to diverge or the spec is silent: tabs in indentation, escapes above 127, '00', 'a[1,]'); depth > 6 and REPL scanning are not covered."),
 "C20": dict(
  technique="model-based property testing: exhaustive kind x position x value grid plus a rapid state machine over construct/assign/alias/copy/view/freeze/mutate/marshal histories against a typed reference model with explicit sharing",
  category="exploration",
  text="Descriptors are built in the harness (proto3 with every scalar kind as singular, repeated, map key and map value, enum, nested/repeated/map messages, a recursive type; proto2 with defaults, required, groups, closed enum and extensions). Grid (exhaustive, 25530 cases): 17 kinds x 19 positions x ~69 values incl. min-1/min/max/max+1, wrong types, None, NaN, bytes for string, invalid UTF-8, enums by number/name/value/foreign: every step must return or error (a Go panic is a violation), accepted values read back exactly with the kind's Starlark type and range, a failing step changes nothing. State machine: up to 4 messages and 8 views under construct, copy M(m), assign, alias, view, element/key writes, freeze, round trips: after every step every handle equals the model, binary and text round trips reproduce it, and every frozen handle's printed form is unchanged.",
  design_ref="DESIGN.md section 4, C20",
  note="Trusts the reference model (aliasing on message assignment, shallow copy, copy on list/map assignment, as the package documents); three catalogued findings are excluded by narrow predicates (two ways a frozen message changes through a copy or alias; extensions lost on unmarshal); oneof and cyclic messages are not covered."),
}

# What later rounds added to each check (appended to the level text; DESIGN.md sections 10.6-10.7 have the history).
ADDED = {
 "C01": "Added since: the global-reassign dialect and globally binding loads (reference: static point-of-use resolution), bare expression statements, every 3- and 4-operand '+' chain over eight operand shapes (exhaustive), and host-side calls of the module's functions after it has finished, compared between the two interpreters; non-boolean conditions, unary operators, repeated assignment targets. One generator configuration carries big-integer, float and bytes constants, including constants of one program that share digits or bytes.",
 "C02": "Added since: operators, comprehensions, unpacking and augmented assignment as callees over the same hostile pool (every pair of a 25-value core pool in the quick tier, of the whole 76-value pool in the thorough tier; for the ~300 built-ins and methods a seeded 1/300 resp. 1/6 of the pairs), well-formed programs with one construct repeated n times for n next to 2^7, 2^8, 2^14, 2^16, the 64 KiB bombs enumerated, one pool name used twice denoting one object, and a hang rule: a call on small operands that does not return within the limit and again within 60 s is a violation.",
 "C03": "Added since: a set of frozen Go values shared by every execution of a case (pure operators on them, iteration, every kind of rejected mutation with its error text, a final dump), failures whose message carries a spelling suggestion, one compiled Program initialised concurrently by several threads, and lookups of every key that iteration yields.",
 "C04": "Added since: values derived from every frozen node inside a second module, functions of the first module called from the second, values born in the second module from a frozen operand and a fresh part (its globals get the full mutator catalogue too), bound methods whose receiver is reachable through the bound method only, keyword-only default shapes; the first module's snapshot compared around the second module's execution. A list obtained through load and bound to no global stays mutable during and after the module; a host built-in freezes a closure while its defining function runs, the captured variable is rebound and a sibling closure over it becomes a global.",
 "C05": "Added since: never-populated tables, values derived from slices of shared tuples/lists, two-level closure factories whose products are called and stored, push iterators saved while the module executes and ranged after the freeze, and poke(): a descent into keys, elements, bound methods and results of shared functions attempting a mutation at every node.",
 "C06": "Added since: operators over two collections, the collection as an element of a built-in's operand, f(*x, **operand) forms, the generic push-iterator fallbacks (plain Iterable / IterableMapping, starlark.Elements(dict)). Loops nested 1-8 deep in one function with every kind of exit; 1 to 131072 simultaneously live iterators through the Go API.",
 "C07": "Added since: a step limit competing with a host cancellation, limits set in the middle of a run and the OnMaxSteps hook, cancellation cycles after Uncancel, a built-in called by the host that cancels the thread, and the callback sub-check: the host cancels from inside a method of a host value or the Load hook (34 triggers x 5 placements, exhaustive) and nothing after the triggering operation may take effect. Cancellation with an empty reason.",
 "C08": "Added since: half of the functions and wrappers run from their serialized form; UnpackArgs specs with 60-129 parameters; every kind of * and ** operand (exhaustive). Every sized Go integer target at the boundaries of its range through three entry points (exhaustive); a keyword given twice in wide signatures.",
 "C09": "Added since: else/elif plants, recursion entered by starlark.Call on an idle thread, point-of-use plants under GlobalReassign, */** operands at the 255-argument limits, and the legacy package-level dialect flags (file parsed, flags flipped, decoy parsed, then resolved). REPL sessions whose globals are named like universals; recursion through a second Init of the same compiled program.",
 "C10": "Added since: texts of several zeros with automatic base detection.",
 "C11": "Added since: computed twins - an integer produced by 19 operation recipes on big operands must equal, hash, order and key like its literal (exhaustive over 46 targets); sorted() on tuples as well as lists.",
 "C12": "Added since: whole-set subset comparisons (s <= s, issubset of all elements twice, all but one) and a generator of bucket lists dozens of buckets deep in neighbouring table slots; dict values None / False / empty string. The collection as the argument of an update that is refused (receiver frozen, being iterated, or the collection itself) must stay usable.",
 "C13": "Added since: truth pools with bytes and ranges for any/all; a list computed from a list (slice, +, *, list(), sorted, reversed) is written to and the operand must not change; no pure operation may change its list or tuple operand.",
 "C14": "Added since: escapes that name a surrogate code point (all 2048 x \\u/\\U x text/bytes, exhaustive) are rejected inside the literal or keep exactly that code point.",
 "C15": "Added since: str(s) == s for ill-formed strings; an integer next to strings and bytes that spell it in five bases (exhaustive over boundary integers).",
 "C16": "Added since: unary operators on non-literal operands, failing '+' chains with folded literal runs, free-variable/cell failures, host values that re-enter Starlark from index/attribute/operator instructions, line gaps past 2^15 and 2^16 in the quick tier, and invariance of the whole stack (including the otherwise unasserted callee frame of an argument-binding failure) on a thread that ran other code before. Index assignments whose store fails after the read and the operator succeeded; non-ASCII text to the left of reported positions.",
 "C17": "Added since: unrelated programs decoded between reading a program back and using it; Write repeated on both programs after they have executed and formatted a backtrace; host-side calls of the functions of both programs. Lines wider than 2^16 and 2^17 columns.",
 "C18": "Added since: wide documents (10^4 and more sibling objects/arrays/scalars at nesting depth 1-4); the too-deep exclusion measures nesting, not bracket count.",
 "C19": "Added since: duration / int must be the quotient to within one nanosecond (integer arithmetic), not within a relative tolerance; duration / duration must be the correctly rounded quotient when both nanosecond counts are below 2^53.",
 "C20": "Added since: writes through proto.set_field (extension and ordinary) after freezing; elements picked out of an iteration over a repeated message field, kept across a freeze and written afterwards; map values taken out of dict(map field). Sub-message chains 1-40 deep round-trip through both encodings; a nested enum with the simple name of the field's enum.",
}

PENDING_REASON = "check not built yet in this session (work in progress; DESIGN.md section 4 describes the planned generated-input check)"

def main():
    props = [json.loads(l)["id"] for l in open(os.path.join(ROOT, "properties.jsonl"))]
    hooks = subprocess.run(["git", "-C", "/repo", "log", "--format=%H", "--grep=^verif hooks"], capture_output=True, text=True).stdout.split()
    m = dict(
        version=1,
        setup_cmd="./setup.sh",
        hooks=dict(
            guard="verif",
            enable="go build tag: every check builds its test binary with `go test -c -tags verif` against /repo's working tree (replace go.starlark.net => /repo)",
            baseline_off_cmd="cd /repo && go test -mod=mod -json -vet=off -count=1 -timeout 25m ./...",
            source_commits=hooks,
            add_only=True),
        engines=[dict(name="rapid+enumeration harness", path="harness/", serves_properties=sorted(CHECKS),
                      kind_free_text="Go test binaries per property (pgregory.net/rapid v1.3.0 generators and exhaustive enumerations) driven by ./check; oracles are reference models / inverses / differential partners written in harness/")],
        checks=[], not_applicable=[],
        notes="Driver: ./check <ID> [--tier quick|thorough] [--replay FILE]; VERIF_SEED selects the rapid seeds. known_findings.json lists fixed and known defects; replays/<ID>/ holds saved minimal cases that the quick tier re-runs first.")
    for pid in props:
        c = CHECKS.get(pid)
        if not c:
            m["not_applicable"].append(dict(property_id=pid, reason=PENDING_REASON))
            continue
        m["checks"].append(dict(
            property_id=pid,
            quick_cmd="./check %s" % pid,
            thorough_cmd="./check %s --tier thorough" % pid,
            evidence_file="evidence/%s.json" % pid,
            replay_cmd_template="./check %s --replay {path}" % pid,
            engine="rapid+enumeration harness",
            level_claimed=dict(category=c["category"], text=c["text"] + (" " + ADDED[pid] if pid in ADDED else ""), design_ref=c["design_ref"]),
            level_note=c["note"],
            technique=c["technique"]))
    with open(os.path.join(ROOT, "MANIFEST.json"), "w") as f:
        json.dump(m, f, indent=1)
        f.write("\n")

main()
