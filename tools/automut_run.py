#!/usr/bin/env python3
"""Mutation sieve: applies sampled single-site mutations of /repo source files in scratch worktrees
(never in /repo), drops mutants that do not build or that the existing test suite kills, and runs the
quick search tests of the property checks mapped to the mutated file.  Survivors (no check turned red)
are what a reviewer reads: each is either an equivalent mutant or a gap in a check.

  tools/automut_run.py --out DIR [--workers 5] [--sample 600] [--seed 1] [--files f1,f2] [--funcs regex]

Results: DIR/results.jsonl (one line per mutant: status nobuild|suite|caught|survived, by, detail).
Scratch directories live under /tmp/am-* and are removed at exit.
"""
import argparse, json, os, random, re, shutil, subprocess, sys, threading, time

VERIF = os.path.dirname(os.path.dirname(os.path.abspath(__file__)))
MAP = {
    "starlark/hashtable.go": ["C12", "C11", "C03", "C06", "C04"],
    "starlark/interp.go": ["C01", "C06", "C07", "C08", "C16", "C09", "C04", "C03", "C05"],
    "starlark/eval.go": ["C01", "C08", "C13", "C10", "C07", "C06", "C16", "C17", "C11", "C04", "C03", "C02"],
    "starlark/value.go": ["C11", "C13", "C15", "C10", "C12", "C06", "C04", "C03"],
    "starlark/library.go": ["C13", "C10", "C11", "C12", "C15", "C06", "C03", "C04", "C02"],
    "starlark/int.go": ["C10", "C11", "C15"],
    "starlark/int_posix64.go": ["C10", "C11"],
    "starlark/unpack.go": ["C08", "C13", "C02"],
    "starlark/iter.go": ["C06", "C05", "C12"],
    "internal/compile/compile.go": ["C01", "C16", "C17", "C09", "C08", "C06", "C07"],
    "internal/compile/serial.go": ["C17"],
    "resolve/resolve.go": ["C09", "C01", "C14", "C08", "C17"],
    "syntax/scan.go": ["C14", "C15", "C09", "C01", "C16"],
    "syntax/parse.go": ["C14", "C09", "C01", "C08"],
    "syntax/quote.go": ["C14", "C15", "C13"],
    "lib/json/json.go": ["C18", "C03", "C02"],
    "lib/time/time.go": ["C19", "C11", "C02"],
    "lib/proto/proto.go": ["C20"],
    "starlarkstruct/struct.go": ["C04", "C11", "C03", "C18", "C02"],
    "lib/math/math.go": ["C10", "C02"],
}


def env():
    e = dict(os.environ)
    e["GOFLAGS"] = "-mod=mod"
    e["GOPROXY"] = "off"
    e.pop("GOTOOLCHAIN", None)
    e.pop("GOSUMDB", None)
    return e


def sh(cmd, cwd, timeout, extra=None):
    e = env()
    if extra:
        e.update(extra)
    try:
        p = subprocess.run(cmd, cwd=cwd, env=e, stdout=subprocess.PIPE, stderr=subprocess.STDOUT, text=True,
                           errors="replace", timeout=timeout)
        return p.returncode, p.stdout
    except subprocess.TimeoutExpired as ex:
        out = ex.stdout or ""
        if isinstance(out, bytes):
            out = out.decode("utf-8", "replace")
        return -9, out + "\nTIMEOUT"


def main():
    ap = argparse.ArgumentParser()
    ap.add_argument("--out", required=True)
    ap.add_argument("--workers", type=int, default=5)
    ap.add_argument("--sample", type=int, default=600)
    ap.add_argument("--seed", type=int, default=1)
    ap.add_argument("--files", default="")
    ap.add_argument("--funcs", default="")
    ap.add_argument("--checks", default="", help="override mapped checks (comma separated)")
    a = ap.parse_args()
    os.makedirs(a.out, exist_ok=True)
    files = [f for f in a.files.split(",") if f] or list(MAP)
    rc, _ = sh(["go", "build", "-o", "/tmp/am-automut", "."], os.path.join(VERIF, "tools", "automut"), 300)
    if rc != 0:
        print("cannot build automut")
        sys.exit(2)
    rc, out = sh(["/tmp/am-automut", "/repo"] + files, VERIF, 120)
    muts = [json.loads(l) for l in out.splitlines() if l.startswith("{")]
    if a.funcs:
        rx = re.compile(a.funcs)
        muts = [m for m in muts if rx.search(m["func"])]
    # skip mutants already decided in an earlier run with the same output directory
    done = set()
    respath = os.path.join(a.out, "results.jsonl")
    if os.path.exists(respath):
        for l in open(respath):
            try:
                r = json.loads(l)
                done.add((r["file"], r["off"], r["new"]))
            except ValueError:
                pass
    rnd = random.Random(a.seed)
    rnd.shuffle(muts)
    muts = [m for m in muts if (m["file"], m["off"], m["new"]) not in done][: a.sample]
    print("mutants to run: %d" % len(muts), flush=True)
    lock = threading.Lock()
    idx = [0]
    resf = open(respath, "a")

    def worker(wi):
        wt = "/tmp/am-wt-%d" % wi
        hc = "/tmp/am-h-%d" % wi
        subprocess.run(["git", "-C", "/repo", "worktree", "remove", "--force", wt], capture_output=True)
        shutil.rmtree(wt, ignore_errors=True)
        shutil.rmtree(hc, ignore_errors=True)
        subprocess.run(["git", "-C", "/repo", "worktree", "add", "--detach", wt, "HEAD"], capture_output=True)
        os.makedirs(hc + "/root")
        shutil.copytree(os.path.join(VERIF, "harness"), hc + "/harness")
        shutil.copy("/repo/go.sum", hc + "/harness/go.sum")
        for n in ("known_findings.json", "known_findings.d", "replays"):
            p = os.path.join(VERIF, n)
            if os.path.isdir(p):
                shutil.copytree(p, hc + "/root/" + n)
            elif os.path.exists(p):
                shutil.copy(p, hc + "/root/" + n)
        sh(["go", "mod", "edit", "-replace", "go.starlark.net=" + wt], hc + "/harness", 60)
        try:
            while True:
                with lock:
                    if idx[0] >= len(muts):
                        return
                    m = muts[idx[0]]
                    idx[0] += 1
                t0 = time.time()
                path = os.path.join(wt, m["file"])
                src = open(path, "rb").read()
                open(path, "wb").write(src[: m["off"]] + m["new"].encode() + src[m["end"]:])
                res = dict(m)
                try:
                    rc, out = sh(["go", "build", "./..."], wt, 300)
                    if rc != 0:
                        res["status"] = "nobuild"
                    else:
                        rc, out = sh(["go", "test", "-count=1", "-vet=off", "-timeout", "600s", "./..."], wt, 700)
                        if rc != 0:
                            res["status"] = "suite"
                            fl = [l for l in out.splitlines() if l.startswith("--- FAIL") or l.startswith("FAIL") or "panic:" in l]
                            res["detail"] = " | ".join(fl[:3])[:300]
                        else:
                            res["status"] = "survived"
                            res["ran"] = []
                            checks = [c for c in a.checks.split(",") if c] or MAP[m["file"]]
                            for cid in checks:
                                cmd = ["go", "test", "-tags", "verif", "-count=1", "-run", "^TestProp", "-timeout", "2400s"]
                                if cid == "C05":
                                    cmd.append("-race")
                                cmd.append("./" + cid.lower())
                                rc, out = sh(cmd, hc + "/harness", 2500,
                                             dict(VERIF_ROOT=hc + "/root", VERIF_TIER="quick", VERIF_SEED="1", VERIF_SHRINKTIME="2s"))
                                v = [l for l in out.splitlines() if l.startswith("VIOLATION")]
                                if v:
                                    res["status"] = "caught"
                                    res["by"] = cid
                                    lines = out.splitlines()
                                    i = lines.index(v[0])
                                    res["detail"] = " ".join(lines[i + 1:i + 2])[:400]
                                    break
                                if rc != 0:
                                    res.setdefault("abnormal", []).append(cid + ": " + " | ".join(out.splitlines()[-4:])[:300])
                                res["ran"].append(cid)
                            shutil.rmtree(hc + "/root/replays", ignore_errors=True)
                            if os.path.isdir(os.path.join(VERIF, "replays")):
                                shutil.copytree(os.path.join(VERIF, "replays"), hc + "/root/replays")
                finally:
                    open(path, "wb").write(src)
                res["wall"] = round(time.time() - t0, 1)
                with lock:
                    resf.write(json.dumps(res) + "\n")
                    resf.flush()
                    print("%s:%d %s %r->%r %s %s" % (m["file"], m["line"], m["kind"], m["old"][:30], m["new"][:30], res["status"], res.get("by", "")), flush=True)
        finally:
            subprocess.run(["git", "-C", "/repo", "worktree", "remove", "--force", wt], capture_output=True)
            shutil.rmtree(wt, ignore_errors=True)
            shutil.rmtree(hc, ignore_errors=True)

    ts = [threading.Thread(target=worker, args=(i,)) for i in range(a.workers)]
    for t in ts:
        t.start()
    for t in ts:
        t.join()
    print("done")


if __name__ == "__main__":
    main()
