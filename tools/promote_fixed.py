#!/usr/bin/env python3
"""tools/promote_fixed.py <ID> <finding-id>=<commit> ...  — move entries from known_findings.d/<ID>.json into
known_findings.json as status 'fixed' (renaming replays/<ID>/known-*.json to fixed-*.json)."""
import json, os, sys
ROOT = os.path.dirname(os.path.dirname(os.path.abspath(__file__)))
pid = sys.argv[1]
commits = dict(a.split("=") for a in sys.argv[2:])
dpath = os.path.join(ROOT, "known_findings.d", pid + ".json")
src = json.load(open(dpath))
main = json.load(open(os.path.join(ROOT, "known_findings.json")))
rest = []
for f in src["findings"]:
    if f["id"] not in commits:
        rest.append(f)
        continue
    old = f["replay"]
    new = old.replace("/known-", "/fixed-")
    if os.path.exists(os.path.join(ROOT, old)):
        os.rename(os.path.join(ROOT, old), os.path.join(ROOT, new))
    sha = commits[f["id"]]
    main["findings"].append(dict(property=pid, id=f["id"], status="fixed", commit=sha,
                                 what="fixed: property=%s %s %s" % (pid, sha, f["what"]), replay=new))
if rest:
    json.dump({"findings": rest}, open(dpath, "w"), indent=1)
else:
    os.remove(dpath)
json.dump(main, open(os.path.join(ROOT, "known_findings.json"), "w"), indent=1)
print("promoted", list(commits))
