#!/usr/bin/env python3
"""Delta-debugging of a saved C20 history (development aid, not a registered check).

  cd harness && go test -c -tags verif -o /tmp/c20.test ./c20/
  tools/ddmin_c20.py replays/C20/new-XXXX.json /tmp/min.json

Keeps removing operations while the replay still fails with an unclassified violation ("finding=- ").
"""
import json,subprocess,os,sys
SRC, DST = sys.argv[1], sys.argv[2]
d=json.load(open(SRC))
ops=d['case']['ops']
def fails(sub):
    dd=json.loads(json.dumps(d)); dd['case']['ops']=sub
    json.dump(dd,open('/tmp/c20try.json','w'))
    env=dict(os.environ,VERIF_REPLAY='/tmp/c20try.json',VERIF_ROOT='/verif')
    out=subprocess.run(['/tmp/c20.test','-test.run','^TestReplay$'],capture_output=True,text=True,env=env,cwd='/verif/harness/c20').stdout
    return 'finding=- ' in out
assert fails(ops), "does not reproduce"
n=2
cur=ops
while len(cur)>=2:
    chunk=max(1,len(cur)//n)
    reduced=False
    for i in range(0,len(cur),chunk):
        cand=cur[:i]+cur[i+chunk:]
        if cand and fails(cand):
            cur=cand; n=max(n-1,2); reduced=True; break
    if not reduced:
        if chunk==1: break
        n=min(len(cur),n*2)
print(len(cur))
for o in cur: print({k:v for k,v in o.items() if v not in (None,0,False,'')})
json.dump(dict(d,case=dict(d['case'],ops=cur)),open(DST,'w'))
