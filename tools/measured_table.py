#!/usr/bin/env python3
"""Rewrites the table between <!-- measured:begin/end --> in DESIGN.md from evidence files.

  tools/measured_table.py --record-thorough DIR   merge DIR/C*.json (thorough evidence) into tools/thorough_measured.json
  tools/measured_table.py --update                quick figures from evidence/*.json, thorough from tools/thorough_measured.json
"""
import json, glob, os, re, sys
ROOT = os.path.dirname(os.path.dirname(os.path.abspath(__file__)))
STORE = os.path.join(ROOT, "tools", "thorough_measured.json")

def row(e):
    c = e["coverage"]
    nf = sum(int(x.get("execs", 0)) for x in c.get("native_fuzz", []) if isinstance(x, dict))
    return {"evaluations": c["evaluations"], "nontrivial": c["distinct_nontrivial"], "wall_s": e["wall_s"],
            "shards": c.get("shards"), "native_fuzz_execs": nf, "violations": e["violations"],
            "known_excluded": sum(c.get("known_excluded", {}).values())}

if sys.argv[1:2] == ["--record-thorough"]:
    store = json.load(open(STORE)) if os.path.exists(STORE) else {}
    for f in sorted(glob.glob(os.path.join(sys.argv[2], "C*.json"))):
        e = json.load(open(f))
        if e.get("tier") == "thorough":
            store[e["property_id"]] = row(e)
    json.dump(store, open(STORE, "w"), indent=1, sort_keys=True)
    sys.exit(0)

store = json.load(open(STORE)) if os.path.exists(STORE) else {}
lines = ["| id | quick: evaluations / distinct non-trivial / wall | thorough: evaluations / distinct non-trivial / wall (shards) |",
         "|----|---|---|"]
for i in range(1, 21):
    pid = "C%02d" % i
    q = "-"
    f = os.path.join(ROOT, "evidence", pid + ".json")
    if os.path.exists(f):
        e = json.load(open(f))
        if e.get("tier") == "quick":
            r = row(e)
            q = "%d / %d / %.0f s" % (r["evaluations"], r["nontrivial"], r["wall_s"])
    t = "-"
    if pid in store:
        r = store[pid]
        t = "%d / %d / %.0f s (%s)" % (r["evaluations"], r["nontrivial"], r["wall_s"], r["shards"])
        if r.get("native_fuzz_execs"):
            t += " + %d native-fuzz executions" % r["native_fuzz_execs"]
    lines.append("| %s | %s | %s |" % (pid, q, t))
p = os.path.join(ROOT, "DESIGN.md")
s = open(p).read()
s2 = re.sub(r"(<!-- measured:begin -->\n).*?(<!-- measured:end -->)", lambda m: m.group(1) + "\n".join(lines) + "\n" + m.group(2), s, flags=re.S)
if "--update" in sys.argv:
    open(p, "w").write(s2)
else:
    print("\n".join(lines))
