module automut

go 1.23
