// automut lists single-site source mutations of Go files as JSON lines.
// Usage: go run ./tools/automut <repo-root> <relative file>...
// Each line: {"file","func","line","off","end","old","new","kind"}; apply by replacing bytes [off,end) with new.
package main

import (
	"encoding/json"
	"fmt"
	"go/ast"
	"go/parser"
	"go/token"
	"os"
	"path/filepath"
	"strconv"
)

type Mut struct {
	File string `json:"file"`
	Func string `json:"func"`
	Line int    `json:"line"`
	Off  int    `json:"off"`
	End  int    `json:"end"`
	Old  string `json:"old"`
	New  string `json:"new"`
	Kind string `json:"kind"`
}

var swaps = map[token.Token][]string{
	token.LSS: {"<="}, token.LEQ: {"<"}, token.GTR: {">="}, token.GEQ: {">"},
	token.EQL: {"!="}, token.NEQ: {"=="}, token.LAND: {"||"}, token.LOR: {"&&"},
	token.ADD: {"-"}, token.SUB: {"+"}, token.SHL: {">>"}, token.SHR: {"<<"},
	token.AND: {"|"}, token.OR: {"&"}, token.MUL: {"/"}, token.QUO: {"*"}, token.REM: {"/"},
}

func main() {
	root := os.Args[1]
	enc := json.NewEncoder(os.Stdout)
	for _, rel := range os.Args[2:] {
		path := filepath.Join(root, rel)
		src, err := os.ReadFile(path)
		if err != nil {
			fmt.Fprintln(os.Stderr, err)
			os.Exit(2)
		}
		fset := token.NewFileSet()
		f, err := parser.ParseFile(fset, path, src, 0)
		if err != nil {
			fmt.Fprintln(os.Stderr, err)
			os.Exit(2)
		}
		off := func(p token.Pos) int { return fset.Position(p).Offset }
		emit := func(fn string, pos, end token.Pos, repl, kind string) {
			o, e := off(pos), off(end)
			enc.Encode(Mut{rel, fn, fset.Position(pos).Line, o, e, string(src[o:e]), repl, kind})
		}
		for _, d := range f.Decls {
			fd, ok := d.(*ast.FuncDecl)
			if !ok || fd.Body == nil {
				continue
			}
			name := fd.Name.Name
			if fd.Recv != nil && len(fd.Recv.List) > 0 {
				t := fd.Recv.List[0].Type
				if st, ok := t.(*ast.StarExpr); ok {
					t = st.X
				}
				if id, ok := t.(*ast.Ident); ok {
					name = id.Name + "." + name
				}
			}
			ast.Inspect(fd.Body, func(n ast.Node) bool {
				switch n := n.(type) {
				case *ast.BinaryExpr:
					for _, r := range swaps[n.Op] {
						emit(name, n.OpPos, n.OpPos+token.Pos(len(n.Op.String())), r, "binop")
					}
					// integer literal operand +1
					for _, x := range []ast.Expr{n.X, n.Y} {
						if bl, ok := x.(*ast.BasicLit); ok && bl.Kind == token.INT {
							if v, err := strconv.ParseInt(bl.Value, 0, 64); err == nil && v < 1<<40 {
								emit(name, bl.Pos(), bl.End(), strconv.FormatInt(v+1, 10), "lit+1")
							}
						}
					}
				case *ast.IfStmt:
					emit(name, n.Cond.Pos(), n.Cond.End(), "!("+string(src[off(n.Cond.Pos()):off(n.Cond.End())])+")", "negate-if")
				case *ast.ForStmt:
					if n.Cond != nil {
						// handled by binop swaps
					}
				case *ast.BlockStmt:
					for _, s := range n.List {
						del := false
						switch s := s.(type) {
						case *ast.ExprStmt, *ast.DeferStmt, *ast.IncDecStmt:
							del = true
						case *ast.AssignStmt:
							del = s.Tok != token.DEFINE
						case *ast.BranchStmt:
							del = s.Tok == token.BREAK || s.Tok == token.CONTINUE
						}
						if del {
							emit(name, s.Pos(), s.End(), "{}", "delete-stmt")
						}
					}
				case *ast.CaseClause:
					for _, s := range n.Body {
						del := false
						switch s := s.(type) {
						case *ast.ExprStmt, *ast.DeferStmt, *ast.IncDecStmt:
							del = true
						case *ast.AssignStmt:
							del = s.Tok != token.DEFINE
						case *ast.BranchStmt:
							del = s.Tok == token.BREAK || s.Tok == token.CONTINUE
						}
						if del {
							emit(name, s.Pos(), s.End(), "{}", "delete-stmt")
						}
					}
				case *ast.IncDecStmt:
					if n.Tok == token.INC {
						emit(name, n.TokPos, n.TokPos+2, "--", "incdec")
					} else {
						emit(name, n.TokPos, n.TokPos+2, "++", "incdec")
					}
				}
				return true
			})
		}
	}
}
