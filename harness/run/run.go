// Package run executes generated programs through the production pipeline
// and through the reference interpreter, and compares the outcomes.
package run

import (
	"errors"
	"fmt"
	"runtime"
	"strings"
	"sync"
	"sync/atomic"
	"time"

	"go.starlark.net/starlark"
	"go.starlark.net/syntax"
	"verif/harness/gen"
	"verif/harness/host"
	"verif/harness/ref"
)

// Outcome is what a host can observe of one execution.
type Outcome struct {
	Trace   []string
	Globals string // canonical dump
	Failed  bool
	ErrMsg  string
	Frames  []ref.Frame // Starlark frames, outermost first (built-in frames removed)
	// reference-only details
	InCallee  string
	InSlice   bool
	SliceSpan [2]syntax.Position
	Static    bool // static (parse/resolve) error
	Budget    bool // ran out of steps/fuel: not comparable
	Steps     uint64
	Raw       starlark.StringDict
	Err       error
	// Post: after a successful execution the host calls the module's functions directly (empty call stack).
	Post []*PostCall
}

// PostCall is one host-side call of a global function after the module has finished.
type PostCall struct {
	Name   string
	Args   string
	Result string // canonical rendering of the value returned
	Out    *Outcome
}

const maxPostCalls = 6

// postCalls calls up to maxPostCalls global functions (in name order) with small ints for the parameters that need a
// value; sig tells how many positional arguments and which keyword-only names a function requires.
func postCalls(o *Outcome, thread *starlark.Thread, g starlark.StringDict, tr *host.Trace, sig func(v starlark.Value) (int, []string, bool),
	fill func(out *Outcome, err error)) {
	if o.Failed || o.Budget {
		return
	}
	n := 0
	for _, name := range g.Keys() {
		npos, kw, ok := sig(g[name])
		if !ok {
			continue
		}
		if n++; n > maxPostCalls {
			break
		}
		var args starlark.Tuple
		for i := 0; i < npos; i++ {
			args = append(args, starlark.MakeInt(i+1))
		}
		var kwargs []starlark.Tuple
		for i, k := range kw {
			kwargs = append(kwargs, starlark.Tuple{starlark.String(k), starlark.MakeInt(10 + i)})
		}
		before := len(tr.Events)
		v, err := starlark.Call(thread, g[name], args, kwargs)
		pc := &PostCall{Name: name, Args: fmt.Sprintf("%v %v", args, kwargs), Out: &Outcome{Trace: append([]string(nil), tr.Events[before:]...), Err: err}}
		if err == nil {
			pc.Result = host.CanonValue(v)
		}
		fill(pc.Out, err)
		o.Post = append(o.Post, pc)
		if pc.Out.Budget {
			break
		}
	}
}

const MaxSteps = 400000

// A memory watchdog: a generated program can grow a value geometrically within its step budget. When the heap of the test
// process passes the limit, the execution in progress is ended the way an exhausted step budget ends it (the case is
// discarded as not comparable, never judged).
const heapLimit = 6 << 30

var (
	guardOnce sync.Once
	curThread atomic.Pointer[starlark.Thread]
	curInterp atomic.Pointer[ref.Interp]
)

func startGuard() {
	guardOnce.Do(func() {
		go func() {
			for {
				time.Sleep(100 * time.Millisecond)
				var ms runtime.MemStats
				runtime.ReadMemStats(&ms)
				if ms.HeapAlloc > heapLimit {
					if th := curThread.Load(); th != nil {
						th.Cancel("too many steps (memory guard)")
					}
					if in := curInterp.Load(); in != nil {
						in.Abort.Store(true)
					}
				}
			}
		}()
	})
}

// Impl runs p through ExecFileOptions.
func Impl(p gen.Program) *Outcome {
	return ImplWith(p, func(thread *starlark.Thread, pre starlark.StringDict) (starlark.StringDict, error) {
		return starlark.ExecFileOptions(p.Opts.FileOptions(), thread, "prog.star", p.Src, pre)
	})
}

// ImplWith runs the main module by the given function (e.g. Program.Init) in
// a fresh environment; loaded modules are executed from source.
func ImplWith(p gen.Program, exec func(thread *starlark.Thread, pre starlark.StringDict) (starlark.StringDict, error)) *Outcome {
	tr := &host.Trace{Limit: 5000}
	pre, thread := host.Env(tr, "impl")
	thread.SetMaxExecutionSteps(MaxSteps)
	cache := map[string]*loadEntry{}
	thread.Load = func(th *starlark.Thread, module string) (starlark.StringDict, error) {
		return implLoad(p, tr, cache, module)
	}
	startGuard()
	curThread.Store(thread)
	defer curThread.Store(nil)
	g, err := exec(thread, pre)
	o := &Outcome{Trace: append([]string(nil), tr.Events...), Globals: host.Canon(g), Raw: g, Steps: thread.ExecutionSteps(), Err: err}
	fillImplError(o, err)
	postCalls(o, thread, g, tr, func(v starlark.Value) (int, []string, bool) {
		f, ok := v.(*starlark.Function)
		if !ok {
			return 0, nil, false
		}
		npos := 0
		var kw []string
		nparams := f.NumParams()
		if f.HasKwargs() {
			nparams--
		}
		if f.HasVarargs() {
			nparams--
		}
		for i := 0; i < nparams; i++ {
			name, _ := f.Param(i)
			if f.ParamDefault(i) != nil {
				continue
			}
			if i >= nparams-f.NumKwonlyParams() {
				kw = append(kw, name)
			} else {
				npos++
			}
		}
		return npos, kw, true
	}, fillImplError)
	return o
}

// Predeclared returns the names predeclared by host.Env.
func Predeclared() func(string) bool {
	pre, _ := host.Env(&host.Trace{}, "names")
	return pre.Has
}

func fillImplError(o *Outcome, err error) {
	if err == nil {
		return
	}
	o.Failed = true
	o.ErrMsg = err.Error()
	var ee *starlark.EvalError
	if errors.As(err, &ee) {
		if strings.Contains(ee.Msg, "Starlark computation cancelled: too many steps") {
			o.Budget = true
		}
		for _, fr := range ee.CallStack {
			if fr.Pos.Filename() == "<builtin>" {
				continue
			}
			o.Frames = append(o.Frames, ref.Frame{Name: fr.Name, Pos: fr.Pos})
		}
		return
	}
	o.Static = true
}

type loadEntry struct {
	g   starlark.StringDict
	err error
}

func implLoad(p gen.Program, tr *host.Trace, cache map[string]*loadEntry, module string) (starlark.StringDict, error) {
	if e, ok := cache[module]; ok {
		if e == nil {
			return nil, fmt.Errorf("cycle in load graph")
		}
		return e.g, e.err
	}
	src, ok := p.Modules[module]
	if !ok {
		return nil, fmt.Errorf("no such module %s", module)
	}
	cache[module] = nil
	pre, th := host.Env(tr, "load:"+module)
	th.SetMaxExecutionSteps(MaxSteps)
	th.Load = func(th *starlark.Thread, m string) (starlark.StringDict, error) {
		return implLoad(p, tr, cache, m)
	}
	g, err := starlark.ExecFileOptions(p.Opts.FileOptions(), th, module, src, pre)
	cache[module] = &loadEntry{g, err}
	return g, err
}

// Ref runs p through the reference interpreter.
func Ref(p gen.Program) *Outcome {
	tr := &host.Trace{Limit: 5000}
	pre, thread := host.Env(tr, "ref")
	in := &ref.Interp{Thread: thread, Fuel: 3000000}
	cache := map[string]*loadEntry{}
	thread.Load = func(th *starlark.Thread, module string) (starlark.StringDict, error) {
		return refLoad(in, p, tr, cache, module)
	}
	startGuard()
	curInterp.Store(in)
	defer curInterp.Store(nil)
	g, err := in.ExecFile(p.Opts.FileOptions(), "prog.star", p.Src, pre)
	o := &Outcome{Trace: append([]string(nil), tr.Events...), Globals: host.Canon(g), Raw: g, Err: err}
	fillRef := func(o *Outcome, err error) {
		if in.Fuel <= 1 {
			o.Budget = true
		}
		if err != nil {
			o.Failed = true
			o.ErrMsg = err.Error()
			var re *ref.Error
			if errors.As(err, &re) {
				o.Frames = re.Stack
				o.InCallee = re.InCallee
				o.InSlice = re.InSlice
				o.SliceSpan = re.SliceSpan
			} else if errors.Is(err, ref.ErrFuel) {
				o.Budget = true
			} else {
				o.Static = true
			}
		}
	}
	fillRef(o, err)
	postCalls(o, thread, g, tr, func(v starlark.Value) (int, []string, bool) {
		f, ok := v.(*ref.Function)
		if !ok {
			return 0, nil, false
		}
		npos, kw := f.Required()
		return npos, kw, true
	}, fillRef)
	return o
}

// refLoad executes a loaded module on the same reference interpreter (one
// logical thread of execution, so call stacks and the recursion check see
// every active function), with a fresh predeclared environment.
func refLoad(in *ref.Interp, p gen.Program, tr *host.Trace, cache map[string]*loadEntry, module string) (starlark.StringDict, error) {
	if e, ok := cache[module]; ok {
		if e == nil {
			return nil, fmt.Errorf("cycle in load graph")
		}
		return e.g, e.err
	}
	src, ok := p.Modules[module]
	if !ok {
		return nil, fmt.Errorf("no such module %s", module)
	}
	cache[module] = nil
	pre, _ := host.Env(tr, "load:"+module)
	g, err := in.ExecFile(p.Opts.FileOptions(), module, src, pre)
	cache[module] = &loadEntry{g, err}
	return g, err
}

func posStr(p syntax.Position) string { return fmt.Sprintf("%d:%d", p.Line, p.Col) }

func framesStr(fs []ref.Frame) string {
	var parts []string
	for _, f := range fs {
		parts = append(parts, fmt.Sprintf("%s@%s:%s", f.Name, f.Pos.Filename(), posStr(f.Pos)))
	}
	return strings.Join(parts, " > ")
}

func within(p syntax.Position, span [2]syntax.Position) bool {
	after := p.Line > span[0].Line || (p.Line == span[0].Line && p.Col >= span[0].Col)
	before := p.Line < span[1].Line || (p.Line == span[1].Line && p.Col <= span[1].Col)
	return after && before
}

// Compare reports the first observable difference between the production
// run a and the reference run b ("" if none).
func Compare(a, b *Outcome) string {
	n := min(len(a.Trace), len(b.Trace))
	for i := 0; i < n; i++ {
		if a.Trace[i] != b.Trace[i] {
			return fmt.Sprintf("effect #%d differs: implementation %q, reference %q", i, a.Trace[i], b.Trace[i])
		}
	}
	if len(a.Trace) != len(b.Trace) {
		extra := a.Trace
		who := "implementation"
		if len(b.Trace) > n {
			extra, who = b.Trace, "reference"
		}
		return fmt.Sprintf("%s performs %d more effect(s), first %q (implementation error: %q, reference error: %q)",
			who, len(extra)-n, extra[n], a.ErrMsg, b.ErrMsg)
	}
	if a.Failed != b.Failed {
		return fmt.Sprintf("outcome differs: implementation failed=%v (%s), reference failed=%v (%s)", a.Failed, a.ErrMsg, b.Failed, b.ErrMsg)
	}
	if a.Globals != b.Globals {
		return fmt.Sprintf("final globals differ:\nimplementation:\n%s\nreference:\n%s", a.Globals, b.Globals)
	}
	if d := compareFailure(a, b); d != "" {
		return d
	}
	// host-side calls after the module finished
	// (either side stops after a call that ran out of its step budget; the budgets are not comparable)
	for i := 0; i < len(a.Post) || i < len(b.Post); i++ {
		if i >= len(a.Post) || i >= len(b.Post) {
			return fmt.Sprintf("host-side calls: %d on the implementation, %d on the reference", len(a.Post), len(b.Post))
		}
		pa, pb := a.Post[i], b.Post[i]
		what := fmt.Sprintf("host-side call %s%s after the module finished: ", pa.Name, pa.Args)
		if pa.Name != pb.Name || pa.Args != pb.Args {
			return what + fmt.Sprintf("the reference sees %s%s (parameter metadata differs)", pb.Name, pb.Args)
		}
		if pa.Out.Budget || pb.Out.Budget {
			break
		}
		pa.Out.Globals, pb.Out.Globals = "", ""
		if d := Compare(pa.Out, pb.Out); d != "" {
			return what + d
		}
		if pa.Result != pb.Result {
			return what + fmt.Sprintf("returns %s, reference %s", pa.Result, pb.Result)
		}
	}
	return ""
}

func compareFailure(a, b *Outcome) string {
	if a.Failed {
		fa, fb := a.Frames, b.Frames
		if b.InCallee != "" {
			// the implementation reports one more innermost frame: the callee, at an unspecified position
			if len(fa) != len(fb)+1 || fa[len(fa)-1].Name != b.InCallee {
				return fmt.Sprintf("call stack differs (failure while entering %s): implementation [%s], reference [%s] (%s | %s)",
					b.InCallee, framesStr(fa), framesStr(fb), a.ErrMsg, b.ErrMsg)
			}
			fa = fa[:len(fa)-1]
		}
		if len(fa) != len(fb) {
			return fmt.Sprintf("call stack depth differs: implementation [%s], reference [%s] (%s | %s)", framesStr(fa), framesStr(fb), a.ErrMsg, b.ErrMsg)
		}
		for i := range fa {
			last := i == len(fa)-1
			if fa[i].Name != fb[i].Name {
				return fmt.Sprintf("frame %d name differs: implementation [%s], reference [%s]", i, framesStr(fa), framesStr(fb))
			}
			if last && b.InSlice {
				if !within(fa[i].Pos, b.SliceSpan) {
					return fmt.Sprintf("failing slice position %s outside the slice expression %s-%s", posStr(fa[i].Pos), posStr(b.SliceSpan[0]), posStr(b.SliceSpan[1]))
				}
				continue
			}
			if fa[i].Pos.Line != fb[i].Pos.Line || fa[i].Pos.Col != fb[i].Pos.Col || fa[i].Pos.Filename() != fb[i].Pos.Filename() {
				return fmt.Sprintf("failure at a different operation: frame %d implementation [%s], reference [%s] (%s | %s)",
					i, framesStr(fa), framesStr(fb), a.ErrMsg, b.ErrMsg)
			}
		}
	}
	return ""
}
