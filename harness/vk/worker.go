package vk

import (
	"bufio"
	"bytes"
	"encoding/json"
	"fmt"
	"io"
	"os"
	"os/exec"
	"strings"
	"sync"
	"syscall"
	"time"
)

// Crash-isolated child processes. The test binary re-executes itself with
// -test.run=^TestWorker$ and VERIF_WORKER=<kind>; parent and child exchange one
// JSON document per line. A child has its own hash seed, its own address-space
// limit, and may die (fatal stack overflow) without taking the parent down.

// Worker is the parent's handle on one child.
type Worker struct {
	kind   string
	cmd    *exec.Cmd
	in     io.WriteCloser
	out    *bufio.Reader
	stderr *tailBuffer
	mu     sync.Mutex
	served int
	Env    []string // extra environment for the child
	// MemLimitBytes, if > 0, is applied as RLIMIT_AS through prlimit(1)-less means: the child applies it to itself.
	MemLimitBytes uint64
}

type tailBuffer struct {
	mu  sync.Mutex
	buf []byte
}

func (b *tailBuffer) Write(p []byte) (int, error) {
	b.mu.Lock()
	b.buf = append(b.buf, p...)
	if len(b.buf) > 32768 {
		// keep head and tail: the head of a Go crash report names the cause
		head := append([]byte(nil), b.buf[:12288]...)
		tail := b.buf[len(b.buf)-8192:]
		b.buf = append(append(head, []byte("\n...[snip]...\n")...), tail...)
	}
	b.mu.Unlock()
	return len(p), nil
}
func (b *tailBuffer) String() string { b.mu.Lock(); defer b.mu.Unlock(); return string(b.buf) }

// NewWorker describes a worker of the given kind; it is started lazily.
func NewWorker(kind string) *Worker { return &Worker{kind: kind} }

func (w *Worker) start() error {
	cmd := exec.Command(os.Args[0], "-test.run=^TestWorker$", "-test.timeout=0")
	cmd.Env = append(os.Environ(), "VERIF_WORKER="+w.kind, "VERIF_STATS_OUT=")
	if w.MemLimitBytes > 0 {
		cmd.Env = append(cmd.Env, fmt.Sprintf("VERIF_WORKER_AS=%d", w.MemLimitBytes))
	}
	cmd.Env = append(cmd.Env, w.Env...)
	in, err := cmd.StdinPipe()
	if err != nil {
		return err
	}
	out, err := cmd.StdoutPipe()
	if err != nil {
		return err
	}
	w.stderr = &tailBuffer{}
	cmd.Stderr = w.stderr
	if err := cmd.Start(); err != nil {
		return err
	}
	w.cmd, w.in, w.out, w.served = cmd, in, bufio.NewReaderSize(out, 1<<20), 0
	return nil
}

// Death describes how a child ended instead of answering.
type Death struct {
	Kind   string // "stack-overflow", "panic", "fatal", "oom", "killed", "timeout", "exit"
	Detail string
}

func (d *Death) Error() string { return "worker died: " + d.Kind + ": " + d.Detail }

func classifyDeath(stderr string, err error, timedOut bool) *Death {
	detail := stderr
	if len(detail) > 12000 {
		detail = detail[:12000]
	}
	switch {
	case timedOut:
		return &Death{"timeout", detail}
	case strings.Contains(stderr, "stack overflow") || strings.Contains(stderr, "goroutine stack exceeds"):
		return &Death{"stack-overflow", detail}
	case strings.Contains(stderr, "out of memory") && (strings.Contains(stderr, "runtime.newstack") || strings.Contains(stderr, "runtime.stackalloc") || strings.Contains(stderr, "runtime.copystack")) && inUse(stderr) < 4<<30:
		// the allocation that failed was a goroutine stack being grown while little memory was in use:
		// runaway recursion under the address-space limit, not memory exhaustion by the program's data
		return &Death{"stack-overflow", detail}
	case strings.Contains(stderr, "out of memory") || strings.Contains(stderr, "cannot allocate memory"):
		return &Death{"oom", detail}
	case strings.Contains(stderr, "panic:"):
		return &Death{"panic", detail}
	case strings.Contains(stderr, "fatal error:"):
		return &Death{"fatal", detail}
	}
	if ee, ok := err.(*exec.ExitError); ok {
		if ws, ok := ee.Sys().(syscall.WaitStatus); ok && ws.Signaled() {
			return &Death{"killed", ws.Signal().String() + " " + detail}
		}
	}
	return &Death{"exit", fmt.Sprintf("%v %s", err, detail)}
}

// inUse extracts N from the Go runtime's "cannot allocate X-byte block (N in use)" message.
func inUse(stderr string) uint64 {
	i := strings.Index(stderr, "-byte block (")
	if i < 0 {
		return 0
	}
	var n uint64
	fmt.Sscanf(stderr[i+len("-byte block ("):], "%d", &n)
	return n
}

// Do sends one request and waits for the answer (at most timeout). If the
// child dies or does not answer in time it is reaped and a *Death is returned;
// the next Do starts a fresh child.
func (w *Worker) Do(req any, resp any, timeout time.Duration) error {
	w.mu.Lock()
	defer w.mu.Unlock()
	if w.cmd == nil {
		if err := w.start(); err != nil {
			return fmt.Errorf("cannot start worker: %v", err)
		}
	}
	b, err := json.Marshal(req)
	if err != nil {
		return err
	}
	b = append(b, '\n')
	type result struct {
		line []byte
		err  error
	}
	ch := make(chan result, 1)
	go func() {
		if _, err := w.in.Write(b); err != nil {
			ch <- result{nil, err}
			return
		}
		for {
			line, err := w.out.ReadBytes('\n')
			if err != nil {
				ch <- result{nil, err}
				return
			}
			if bytes.HasPrefix(line, []byte("WORKER-REPLY ")) {
				ch <- result{line[len("WORKER-REPLY "):], nil}
				return
			}
			// anything else on stdout (test framework chatter) is ignored
		}
	}()
	var r result
	timedOut := false
	select {
	case r = <-ch:
	case <-time.After(timeout):
		timedOut = true
		w.cmd.Process.Kill()
		r = <-ch
	}
	if r.err != nil || timedOut {
		w.in.Close()
		werr := w.cmd.Wait()
		d := classifyDeath(w.stderr.String(), werr, timedOut)
		w.cmd = nil
		return d
	}
	w.served++
	return json.Unmarshal(r.line, resp)
}

// Served reports how many requests the current child has answered.
func (w *Worker) Served() int { w.mu.Lock(); defer w.mu.Unlock(); return w.served }

// Recycle stops the current child; the next Do starts a new one (new hash seed).
func (w *Worker) Recycle() {
	w.mu.Lock()
	defer w.mu.Unlock()
	if w.cmd != nil {
		w.in.Close()
		done := make(chan struct{})
		go func() { w.cmd.Wait(); close(done) }()
		select {
		case <-done:
		case <-time.After(5 * time.Second):
			w.cmd.Process.Kill()
			<-done
		}
		w.cmd = nil
	}
}

// WorkerKind returns the kind requested for this process ("" in the parent).
func WorkerKind() string { return os.Getenv("VERIF_WORKER") }

// Serve is the child's main loop: it reads requests from stdin and answers on stdout.
// handler returns the value to send back.
func Serve(handler func(req json.RawMessage) any) {
	if s := os.Getenv("VERIF_WORKER_AS"); s != "" {
		var n uint64
		fmt.Sscan(s, &n)
		lim := syscall.Rlimit{Cur: n, Max: n}
		syscall.Setrlimit(syscall.RLIMIT_AS, &lim)
	}
	in := bufio.NewReaderSize(os.Stdin, 1<<20)
	out := bufio.NewWriter(os.Stdout)
	for {
		line, err := in.ReadBytes('\n')
		if len(line) > 0 {
			resp := handler(json.RawMessage(line))
			b, _ := json.Marshal(resp)
			out.WriteString("WORKER-REPLY ")
			out.Write(b)
			out.WriteByte('\n')
			out.Flush()
		}
		if err != nil {
			return
		}
	}
}
