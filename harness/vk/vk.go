// Package vk is the shared plumbing of the property checks: environment,
// statistics, replay files, known findings, and thin wrappers around rapid
// and exhaustive enumeration.
//
// A sub-check is a pure oracle function check(C) error over a JSON-serialisable
// case type C, registered under a name.  Generators (rapid or enumeration)
// produce cases; a failing case is written to /verif/replays/<ID>/new-<hash>.json
// and reported as "VIOLATION property=<ID> replay=<path>".  The same oracle is
// used by replay, bypassing rapid.
package vk

import (
	"crypto/sha1"
	"encoding/hex"
	"encoding/json"
	"errors"
	"flag"
	"fmt"
	"hash/fnv"
	"os"
	"path/filepath"
	"sort"
	"strconv"
	"strings"
	"sync"
	"testing"
	"time"

	"pgregory.net/rapid"
)

// ---------------------------------------------------------------- environment

func envInt(name string, def int) int {
	if s := os.Getenv(name); s != "" {
		if n, err := strconv.Atoi(s); err == nil {
			return n
		}
	}
	return def
}

// Tier is "quick" or "thorough".
func Tier() string {
	if os.Getenv("VERIF_TIER") == "thorough" {
		return "thorough"
	}
	return "quick"
}

func Thorough() bool { return Tier() == "thorough" }

// Seed is the VERIF_SEED value (default 1).
func Seed() int { return envInt("VERIF_SEED", 1) }

// Shard / NShards identify this process among the parallel shards of a check.
func Shard() int   { return envInt("VERIF_SHARD", 0) }
func NShards() int { return envInt("VERIF_NSHARDS", 1) }

// N picks a case count by tier.  In the thorough tier the count is per shard.
func N(quick, thorough int) int {
	if Thorough() {
		return thorough
	}
	return quick
}

// Root is /verif (overridable for tests).
func Root() string {
	if r := os.Getenv("VERIF_ROOT"); r != "" {
		return r
	}
	return "/verif"
}

var property = "C00"

// SetProperty is called from each package's TestMain.
func SetProperty(id string) { property = id }
func Property() string      { return property }

// rapidSeed derives a non-zero rapid seed from VERIF_SEED, the shard and the
// sub-check name.
func rapidSeed(sub string) uint64 {
	h := fnv.New64a()
	h.Write([]byte(sub))
	v := uint64(Seed())*1000003 + uint64(Shard())*7919 + h.Sum64()%1000
	return 1 + v%((1<<31)-2)
}

// ---------------------------------------------------------------- statistics

type stats struct {
	mu          sync.Mutex
	Evaluations int64            `json:"evaluations"`
	Classes     map[string]int64 `json:"classes"`
	Excluded    map[string]int64 `json:"known_excluded"`
	Discarded   int64            `json:"discarded"`
	Timeouts    int64            `json:"timeouts"`
	Exhaustive  map[string]bool  `json:"exhaustive"`
	Samples     []sample         `json:"samples"`
	perClass    map[string]int
	nt          map[uint64]struct{}
	ntOverflow  int64
	Notes       []string `json:"notes"`
	rule        string
	assumptions []string
}

// Describe states the generation / non-triviality rule and the assumptions of
// the check; they are copied into the evidence file.
func Describe(rule string, assumptions ...string) {
	S.mu.Lock()
	S.rule = rule
	S.assumptions = assumptions
	S.mu.Unlock()
}

type sample struct {
	Sub   string `json:"sub"`
	Class string `json:"class,omitempty"`
	Case  any    `json:"case"`
}

var S = &stats{
	Classes:    map[string]int64{},
	Excluded:   map[string]int64{},
	Exhaustive: map[string]bool{},
	perClass:   map[string]int{},
	nt:         map[uint64]struct{}{},
}

const ntCap = 400000

// Eval counts one generated case.
func (s *stats) Eval() { s.mu.Lock(); s.Evaluations++; s.mu.Unlock() }

// Class increments a histogram bucket.
func (s *stats) Class(name string) { s.mu.Lock(); s.Classes[name]++; s.mu.Unlock() }

func (s *stats) ClassN(name string, n int) { s.mu.Lock(); s.Classes[name] += int64(n); s.mu.Unlock() }

// NonTrivial records a case that is non-trivial by the sub-check's rule; key
// identifies the case so that duplicates are not counted twice.
func (s *stats) NonTrivial(key string) {
	h := fnv.New64a()
	h.Write([]byte(key))
	v := h.Sum64()
	s.mu.Lock()
	if _, ok := s.nt[v]; !ok {
		if len(s.nt) < ntCap {
			s.nt[v] = struct{}{}
		} else {
			s.ntOverflow++ // not counted: conservative
		}
	}
	s.mu.Unlock()
}

// Discard counts a generated case that was thrown away (fuel, out of domain).
func (s *stats) Discard() { s.mu.Lock(); s.Discarded++; s.mu.Unlock() }
func (s *stats) Timeout() { s.mu.Lock(); s.Timeouts++; s.mu.Unlock() }

func (s *stats) Note(format string, args ...any) {
	s.mu.Lock()
	if len(s.Notes) < 40 {
		s.Notes = append(s.Notes, fmt.Sprintf(format, args...))
	}
	s.mu.Unlock()
}

// Sample keeps up to 2 cases per (sub, class) and 16 in total.
func (s *stats) Sample(sub, class string, c any) {
	s.mu.Lock()
	defer s.mu.Unlock()
	k := sub + "/" + class
	if s.perClass[k] >= 2 || len(s.Samples) >= 16 {
		return
	}
	s.perClass[k]++
	// Snapshot through JSON so later mutation of c does not matter, and
	// truncate very long strings.
	b, err := json.Marshal(c)
	if err != nil {
		return
	}
	if len(b) > 1500 {
		s.Samples = append(s.Samples, sample{sub, class, string(b[:1500]) + "...(truncated)"})
		return
	}
	var v any
	json.Unmarshal(b, &v)
	s.Samples = append(s.Samples, sample{sub, class, v})
}

func (s *stats) excluded(id string) { s.mu.Lock(); s.Excluded[id]++; s.mu.Unlock() }

func (s *stats) SetExhaustive(sub string, v bool) {
	s.mu.Lock()
	s.Exhaustive[sub] = v
	s.mu.Unlock()
}

// Dump writes the statistics to VERIF_STATS_OUT (if set).
func (s *stats) Dump() {
	out := os.Getenv("VERIF_STATS_OUT")
	if out == "" {
		return
	}
	s.mu.Lock()
	defer s.mu.Unlock()
	hs := make([]uint64, 0, len(s.nt))
	for h := range s.nt {
		hs = append(hs, h)
	}
	sort.Slice(hs, func(i, j int) bool { return hs[i] < hs[j] })
	m := map[string]any{
		"evaluations":    s.Evaluations,
		"classes":        s.Classes,
		"known_excluded": s.Excluded,
		"discarded":      s.Discarded,
		"timeouts":       s.Timeouts,
		"exhaustive":     s.Exhaustive,
		"samples":        s.Samples,
		"nt_hashes":      hs,
		"nt_overflow":    s.ntOverflow,
		"notes":          s.Notes,
		"rule":           s.rule,
		"assumptions":    s.assumptions,
	}
	b, _ := json.Marshal(m)
	os.WriteFile(out, b, 0o644)
}

// ---------------------------------------------------------------- known findings

type finding struct {
	Property string `json:"property"`
	ID       string `json:"id"`
	Status   string `json:"status"` // "known" or "fixed"
	What     string `json:"what"`
	Replay   string `json:"replay"`
	Commit   string `json:"commit,omitempty"`
}

var (
	kfOnce sync.Once
	kf     map[string]finding
)

func loadKF() {
	kf = map[string]finding{}
	paths := []string{filepath.Join(Root(), "known_findings.json")}
	more, _ := filepath.Glob(filepath.Join(Root(), "known_findings.d", "*.json"))
	paths = append(paths, more...)
	for _, p := range paths {
		b, err := os.ReadFile(p)
		if err != nil {
			continue
		}
		var doc struct {
			Findings []finding `json:"findings"`
		}
		if json.Unmarshal(b, &doc) != nil {
			continue
		}
		for _, f := range doc.Findings {
			kf[f.ID] = f
		}
	}
}

// KnownActive reports whether finding id is listed with status "known".
func KnownActive(id string) bool {
	kfOnce.Do(loadKF)
	f, ok := kf[id]
	return ok && f.Status == "known"
}

// KnownErr is returned by an oracle when the failure it saw matches the
// narrow predicate of a catalogued finding.
type KnownErr struct {
	ID  string
	Err error
}

func (e *KnownErr) Error() string { return fmt.Sprintf("[finding %s] %v", e.ID, e.Err) }
func (e *KnownErr) Unwrap() error { return e.Err }

// Known wraps err as matching finding id.
func Known(id string, err error) error { return &KnownErr{id, err} }

// filter turns an oracle error into nil when it matches an active known
// finding (counting it), so that search continues past shallow defects.
func filter(err error) error {
	var ke *KnownErr
	if errors.As(err, &ke) && KnownActive(ke.ID) {
		S.excluded(ke.ID)
		return nil
	}
	return err
}

// ---------------------------------------------------------------- registry / replay

type subcheck struct {
	name  string
	check func(raw json.RawMessage) error
}

var registry = map[string]subcheck{}

// Sub is a registered sub-check with case type C.
type Sub[C any] struct {
	Name  string
	check func(C) error
}

// Register makes a sub-check known to replay.
func Register[C any](name string, check func(C) error) *Sub[C] {
	registry[name] = subcheck{name, func(raw json.RawMessage) error {
		var c C
		if err := json.Unmarshal(raw, &c); err != nil {
			return fmt.Errorf("bad replay data: %v", err)
		}
		return safe(func() error { return check(c) })
	}}
	return &Sub[C]{name, check}
}

// safe converts a panic in the oracle or the code under test into an error.
func safe(f func() error) (err error) {
	defer func() {
		if r := recover(); r != nil {
			err = fmt.Errorf("panic: %v", r)
		}
	}()
	return f()
}

// Check runs the oracle on one case with known-finding filtering.
func (s *Sub[C]) Check(c C) error {
	S.Eval()
	return filter(safe(func() error { return s.check(c) }))
}

// Raw runs the oracle without filtering or counting.
func (s *Sub[C]) Raw(c C) error { return safe(func() error { return s.check(c) }) }

type replayFile struct {
	Property string          `json:"property"`
	Sub      string          `json:"sub"`
	Explain  string          `json:"explain,omitempty"`
	Case     json.RawMessage `json:"case"`
}

var (
	violMu    sync.Mutex
	violCount = map[string]int{}
)

// Violation writes a replay file and prints the VIOLATION line.  At most 3
// per sub-check are reported.
func Violation(sub string, c any, err error) {
	violMu.Lock()
	defer violMu.Unlock()
	violCount[sub]++
	if violCount[sub] > 3 {
		return
	}
	raw, _ := json.Marshal(c)
	sum := sha1.Sum(append([]byte(sub+"\x00"), raw...))
	dir := filepath.Join(Root(), "replays", property)
	os.MkdirAll(dir, 0o755)
	path := filepath.Join(dir, "new-"+hex.EncodeToString(sum[:6])+".json")
	b, _ := json.MarshalIndent(replayFile{property, sub, err.Error(), raw}, "", " ")
	os.WriteFile(path, append(b, '\n'), 0o644)
	fmt.Printf("VIOLATION property=%s replay=%s\n", property, path)
	fmt.Printf("  sub=%s: %s\n", sub, oneLine(err.Error(), 600))
}

func oneLine(s string, max int) string {
	s = strings.ReplaceAll(s, "\n", "\\n")
	if len(s) > max {
		s = s[:max] + "..."
	}
	return s
}

// Replay runs every file named in VERIF_REPLAY (colon separated) and prints
// one line per file: REPLAY file=<path> sub=<sub> result=pass|fail [finding=<id>] <explain>.
func Replay(t *testing.T) {
	list := os.Getenv("VERIF_REPLAY")
	if list == "" {
		t.Skip("no VERIF_REPLAY")
	}
	for _, path := range strings.Split(list, ":") {
		if path == "" {
			continue
		}
		b, err := os.ReadFile(path)
		if err != nil {
			fmt.Printf("REPLAY file=%s result=error %v\n", path, err)
			continue
		}
		var rf replayFile
		if err := json.Unmarshal(b, &rf); err != nil {
			fmt.Printf("REPLAY file=%s result=error %v\n", path, err)
			continue
		}
		sc, ok := registry[rf.Sub]
		if !ok {
			fmt.Printf("REPLAY file=%s result=error unknown sub-check %q\n", path, rf.Sub)
			continue
		}
		err = sc.check(rf.Case)
		if err == nil {
			fmt.Printf("REPLAY file=%s sub=%s result=pass\n", path, rf.Sub)
			continue
		}
		var ke *KnownErr
		id := "-"
		if errors.As(err, &ke) {
			id = ke.ID
		}
		fmt.Printf("REPLAY file=%s sub=%s result=fail finding=%s %s\n", path, rf.Sub, id, oneLine(err.Error(), 400))
	}
}

// ---------------------------------------------------------------- rapid wrapper

// Rapid runs n generated cases of a sub-check.  gen draws a case; the oracle
// is the registered check.  The shrunk failing case becomes the replay file.
func Rapid[C any](t *testing.T, s *Sub[C], n int, gen func(*rapid.T) C) {
	t.Helper()
	flag.Set("rapid.checks", strconv.Itoa(n))
	flag.Set("rapid.seed", strconv.FormatUint(rapidSeed(s.Name), 10))
	flag.Set("rapid.nofailfile", "true")
	if os.Getenv("VERIF_SHRINKTIME") != "" {
		flag.Set("rapid.shrinktime", os.Getenv("VERIF_SHRINKTIME"))
	} else {
		flag.Set("rapid.shrinktime", "20s")
	}
	var last *C
	var lastErr error
	start := time.Now()
	passed := 0
	defer func() {
		if lastErr != nil {
			Violation(s.Name, *last, lastErr)
		} else {
			fmt.Printf("SUBCHECK sub=%s requested=%d passed=%d wall=%.1fs\n", s.Name, n, passed, time.Since(start).Seconds())
		}
	}()
	rapid.Check(t, func(rt *rapid.T) {
		c := gen(rt)
		if err := s.Check(c); err != nil {
			cc := c
			last, lastErr = &cc, err
			rt.Fatalf("%s: %v", s.Name, err)
		}
		passed++
	})
}

// Enum runs the oracle over an enumeration.  each is called with a yield
// function; it returns false when enumeration should stop (too many failures).
// Enumerations are split across shards by the caller using Mine(i).
func Enum[C any](t *testing.T, s *Sub[C], each func(yield func(C) bool)) {
	t.Helper()
	start := time.Now()
	n, fails := 0, 0
	each(func(c C) bool {
		n++
		if err := s.Check(c); err != nil {
			fails++
			Violation(s.Name, c, err)
			t.Errorf("%s: %v", s.Name, err)
			return fails < 3
		}
		return true
	})
	fmt.Printf("SUBCHECK sub=%s requested=%d passed=%d wall=%.1fs\n", s.Name, n, n-fails, time.Since(start).Seconds())
}

// Mine reports whether item i of an enumeration belongs to this shard.
func Mine(i int) bool { return i%NShards() == Shard() }

// Main is the common TestMain body.
func Main(m *testing.M, id string) {
	SetProperty(id)
	code := m.Run()
	S.Dump()
	os.Exit(code)
}

// ---------------------------------------------------------------- unbiased draws
//
// rapid's integer and float generators are deliberately biased towards small
// values (geometric bit length), which distorts weighted choices: measured,
// IntRange(0,9999) < 200 holds 59 % of the time. Bool() is a fair bit, so
// uniform choices are assembled from fair bits. They still shrink (towards 0).

var fairBit = rapid.Bool()

// Uniform draws an integer uniformly from [0, n).
func Uniform(t *rapid.T, n int) int {
	if n <= 1 {
		return 0
	}
	bits := 0
	for (1 << bits) < n {
		bits++
	}
	for try := 0; ; try++ {
		v := 0
		for i := 0; i < bits; i++ {
			v <<= 1
			if fairBit.Draw(t, "b") {
				v |= 1
			}
		}
		if v < n {
			return v
		}
		if try > 20 {
			return v % n
		}
	}
}

// Chance is true with probability p (granularity 1/1024).
func Chance(t *rapid.T, p float64) bool {
	if p <= 0 {
		return false
	}
	if p >= 1 {
		return true
	}
	return float64(Uniform(t, 1024)) < p*1024
}
