// Value model of the C13 check: a small JSON-serialisable mirror of the Starlark
// values that occur as receivers, arguments and results, with its own repr/str,
// ordering, truth and source rendering.  Nothing here calls into go.starlark.net
// except toStar/fromStar, which only construct and take apart values.
package c13

import (
	"fmt"
	"math/big"

	"go.starlark.net/starlark"
)

// V is a model value.  K is one of
//
//	omit   argument not supplied
//	none bool int str bytes list tuple float
//	range  receiver: L = [start, stop, step] (ints)
//	iter   the iterable S.m() of a string: S = m (elems, elem_ords, codepoints, codepoint_ords), L = [the string];
//	       codepoints/codepoint_ords have no known length, which selects other branches of zip, enumerate, sorted, ...
//	rangeval result of slicing a range: L = its elements (the implementation value must have type "range")
//	dict   L = k0, v0, k1, v1, ...
//	fn     S = name of a key function ("len", "last", "neg")
//	args   positional argument pack of min/max (L)
//	big    integer outside int64: S = decimal text
//	other  anything else coming back from the implementation: S = its type
type V struct {
	K string  `json:"k"`
	I int64   `json:"i,omitempty"`
	S string  `json:"s,omitempty"`
	B bool    `json:"b,omitempty"`
	F float64 `json:"f,omitempty"`
	L []V     `json:"l,omitempty"`
}

var (
	vOmit  = V{K: "omit"}
	vNone  = V{K: "none"}
	vTrue  = V{K: "bool", B: true}
	vFalse = V{K: "bool"}
)

func vBool(b bool) V           { return V{K: "bool", B: b} }
func vInt(i int64) V           { return V{K: "int", I: i} }
func vStr(s string) V          { return V{K: "str", S: s} }
func vBytes(s string) V        { return V{K: "bytes", S: s} }
func vList(l ...V) V           { return V{K: "list", L: l} }
func vTuple(l ...V) V          { return V{K: "tuple", L: l} }
func vFloat(f float64) V       { return V{K: "float", F: f} }
func vRange(a, b, c int64) V   { return V{K: "range", L: []V{vInt(a), vInt(b), vInt(c)}} }
func vIter(method, s string) V { return V{K: "iter", S: method, L: []V{vStr(s)}} }

func (v V) isInt() bool  { return v.K == "int" }
func (v V) isNone() bool { return v.K == "none" || v.K == "omit" }

// letters turns "abc" into the element list "a", "b", "c".
func letters(s string) []V {
	out := make([]V, len(s))
	for i := 0; i < len(s); i++ {
		out[i] = vStr(s[i : i+1])
	}
	return out
}

func eqV(a, b V) bool {
	if a.K != b.K || a.I != b.I || a.S != b.S || a.B != b.B || len(a.L) != len(b.L) {
		return false
	}
	if a.F != b.F {
		return false
	}
	for i := range a.L {
		if !eqV(a.L[i], b.L[i]) {
			return false
		}
	}
	return true
}

// seqElems returns the elements of an iterable model value (list, tuple, range).
func seqElems(v V) ([]V, bool) {
	switch v.K {
	case "list", "tuple", "rangeval":
		return v.L, true
	case "iter":
		return refIterable(v.S, v.L[0]).val.L, true
	case "range":
		start, stop, step := v.L[0].I, v.L[1].I, v.L[2].I
		var out []V
		if step > 0 {
			for x := start; x < stop; x += step {
				out = append(out, vInt(x))
			}
		} else if step < 0 {
			for x := start; x > stop; x += step {
				out = append(out, vInt(x))
			}
		}
		return out, true
	}
	return nil, false
}

// seqLen is the length of an indexable model value.
func seqLen(v V) int64 {
	switch v.K {
	case "str", "bytes":
		return int64(len(v.S))
	}
	e, _ := seqElems(v)
	return int64(len(e))
}

func truth(v V) bool {
	switch v.K {
	case "none":
		return false
	case "bool":
		return v.B
	case "int":
		return v.I != 0
	case "float":
		return v.F != 0
	case "str", "bytes":
		return v.S != ""
	}
	return seqLen(v) > 0
}

// cmpV is the ordered comparison of the specification: ints with ints, strings with
// strings (lexicographic by byte), lists with lists and tuples with tuples
// (lexicographic by element).  ok=false: the pair does not support ordering.
func cmpV(a, b V) (int, bool) {
	if a.K != b.K {
		return 0, false
	}
	switch a.K {
	case "int":
		switch {
		case a.I < b.I:
			return -1, true
		case a.I > b.I:
			return 1, true
		}
		return 0, true
	case "str", "bytes":
		n := len(a.S)
		if len(b.S) < n {
			n = len(b.S)
		}
		for i := 0; i < n; i++ {
			if a.S[i] != b.S[i] {
				if a.S[i] < b.S[i] {
					return -1, true
				}
				return 1, true
			}
		}
		switch {
		case len(a.S) < len(b.S):
			return -1, true
		case len(a.S) > len(b.S):
			return 1, true
		}
		return 0, true
	case "list", "tuple":
		for i := 0; i < len(a.L) && i < len(b.L); i++ {
			if eqV(a.L[i], b.L[i]) {
				continue
			}
			return cmpV(a.L[i], b.L[i])
		}
		switch {
		case len(a.L) < len(b.L):
			return -1, true
		case len(a.L) > len(b.L):
			return 1, true
		}
		return 0, true
	}
	return 0, false
}

// ---------------------------------------------------------------- text forms

func itoa(i int64) string {
	if i == 0 {
		return "0"
	}
	neg := i < 0
	var u uint64
	if neg {
		u = uint64(-(i + 1)) + 1
	} else {
		u = uint64(i)
	}
	return signed(neg, utoa(u, 10, false))
}

func signed(neg bool, s string) string {
	if neg {
		return "-" + s
	}
	return s
}

func utoa(u uint64, base uint64, upper bool) string {
	if u == 0 {
		return "0"
	}
	digits := "0123456789abcdef"
	if upper {
		digits = "0123456789ABCDEF"
	}
	var buf [64]byte
	p := len(buf)
	for u > 0 {
		p--
		buf[p] = digits[u%base]
		u /= base
	}
	return string(buf[p:])
}

// quote renders a string literal.  It is used both for repr (on strings the
// generators restrict to characters that need no escape other than the ones
// listed in the specification's "String escapes" section) and for source text.
func quote(s string, bytesLit bool) string {
	out := make([]byte, 0, len(s)+2)
	out = append(out, '"')
	for i := 0; i < len(s); i++ {
		c := s[i]
		switch {
		case c == '\\':
			out = append(out, '\\', '\\')
		case c == '"':
			out = append(out, '\\', '"')
		case c == '\n':
			out = append(out, '\\', 'n')
		case c == '\t':
			out = append(out, '\\', 't')
		case c == '\r':
			out = append(out, '\\', 'r')
		case c < 0x20 || c == 0x7f || (bytesLit && c >= 0x80):
			out = append(out, '\\', 'x', "0123456789abcdef"[c>>4], "0123456789abcdef"[c&15])
		default:
			out = append(out, c)
		}
	}
	out = append(out, '"')
	return string(out)
}

func repr(v V) string {
	switch v.K {
	case "none":
		return "None"
	case "bool":
		if v.B {
			return "True"
		}
		return "False"
	case "int":
		return itoa(v.I)
	case "big":
		return v.S
	case "float": // display only: the oracle never compares the text of a float (see containsFloat)
		return floatLit(v.F)
	case "omit":
		return "<omitted>"
	case "other":
		return "<" + v.S + ">"
	case "range", "fn", "iter":
		return src(v)
	case "rangeval":
		return "range" + repr(V{K: "list", L: v.L})
	case "args":
		return "*" + repr(V{K: "tuple", L: v.L})
	case "str":
		return quote(v.S, false)
	case "bytes":
		return "b" + quote(v.S, true)
	case "list":
		s := "["
		for i, e := range v.L {
			if i > 0 {
				s += ", "
			}
			s += repr(e)
		}
		return s + "]"
	case "tuple":
		if len(v.L) == 1 {
			return "(" + repr(v.L[0]) + ",)"
		}
		s := "("
		for i, e := range v.L {
			if i > 0 {
				s += ", "
			}
			s += repr(e)
		}
		return s + ")"
	case "dict":
		s := "{"
		for i := 0; i+1 < len(v.L); i += 2 {
			if i > 0 {
				s += ", "
			}
			s += repr(v.L[i]) + ": " + repr(v.L[i+1])
		}
		return s + "}"
	}
	return "<" + v.K + ">" // display only
}

func str(v V) string {
	if v.K == "str" {
		return v.S
	}
	return repr(v)
}

// dyadic returns the exact value of f as num / 2^shift (f must be finite).
func dyadic(f float64) (num *big.Int, shift uint) {
	r := new(big.Rat)
	r.SetFloat64(f)
	d := r.Denom()
	return new(big.Int).Set(r.Num()), uint(d.BitLen() - 1)
}

// floatLit is an exact decimal literal for a finite float (every binary fraction has a finite decimal expansion).
func floatLit(f float64) string {
	num, shift := dyadic(f)
	neg := num.Sign() < 0
	num.Abs(num)
	// num / 2^shift = num * 5^shift / 10^shift
	p := new(big.Int).Exp(big.NewInt(5), big.NewInt(int64(shift)), nil)
	p.Mul(p, num)
	digits := p.String()
	for len(digits) <= int(shift) {
		digits = "0" + digits
	}
	cut := len(digits) - int(shift)
	s := digits[:cut] + "." + digits[cut:]
	if shift == 0 {
		s += "0"
	}
	return signed(neg, s)
}

// src renders a model value as a Starlark expression.
func src(v V) string {
	switch v.K {
	case "none", "bool", "int", "str", "bytes", "big":
		return repr(v)
	case "float":
		return floatLit(v.F)
	case "list":
		s := "["
		for i, e := range v.L {
			if i > 0 {
				s += ", "
			}
			s += src(e)
		}
		return s + "]"
	case "tuple":
		if len(v.L) == 1 {
			return "(" + src(v.L[0]) + ",)"
		}
		s := "("
		for i, e := range v.L {
			if i > 0 {
				s += ", "
			}
			s += src(e)
		}
		return s + ")"
	case "dict":
		s := "{"
		for i := 0; i+1 < len(v.L); i += 2 {
			if i > 0 {
				s += ", "
			}
			s += src(v.L[i]) + ": " + src(v.L[i+1])
		}
		return s + "}"
	case "range":
		return "range(" + itoa(v.L[0].I) + ", " + itoa(v.L[1].I) + ", " + itoa(v.L[2].I) + ")"
	case "fn":
		return v.S
	case "iter":
		return src(v.L[0]) + "." + v.S + "()"
	}
	panic("src: unsupported model value " + v.K)
}

// ---------------------------------------------------------------- to and from the implementation

func toStar(v V) starlark.Value {
	switch v.K {
	case "none":
		return starlark.None
	case "bool":
		return starlark.Bool(v.B)
	case "int":
		return starlark.MakeInt64(v.I)
	case "float":
		return starlark.Float(v.F)
	case "str":
		return starlark.String(v.S)
	case "bytes":
		return starlark.Bytes(v.S)
	case "list":
		elems := make([]starlark.Value, len(v.L))
		for i, e := range v.L {
			elems[i] = toStar(e)
		}
		return starlark.NewList(elems)
	case "tuple":
		elems := make(starlark.Tuple, len(v.L))
		for i, e := range v.L {
			elems[i] = toStar(e)
		}
		return elems
	case "dict":
		d := starlark.NewDict(len(v.L) / 2)
		for i := 0; i+1 < len(v.L); i += 2 {
			if err := d.SetKey(toStar(v.L[i]), toStar(v.L[i+1])); err != nil {
				panic(err)
			}
		}
		return d
	case "range":
		r, err := starlark.Call(&starlark.Thread{Name: "mk"}, starlark.Universe["range"],
			starlark.Tuple{starlark.MakeInt64(v.L[0].I), starlark.MakeInt64(v.L[1].I), starlark.MakeInt64(v.L[2].I)}, nil)
		if err != nil {
			panic(fmt.Sprintf("cannot build %s: %v", src(v), err))
		}
		return r
	case "fn":
		return keyFuncs[v.S]
	case "iter":
		m, err := starlark.String(v.L[0].S).Attr(v.S)
		if err != nil || m == nil {
			panic(fmt.Sprintf("no string method %s: %v", v.S, err))
		}
		it, err := starlark.Call(&starlark.Thread{Name: "mk"}, m, nil, nil)
		if err != nil {
			panic(fmt.Sprintf("cannot build %s: %v", src(v), err))
		}
		return it
	}
	panic("toStar: unsupported model value " + v.K)
}

// fromStar converts a result.  For ranges it also cross-checks Len, Index and
// iteration of the implementation value against each other.
func fromStar(x starlark.Value) (V, error) {
	switch x := x.(type) {
	case starlark.NoneType:
		return vNone, nil
	case starlark.Bool:
		return vBool(bool(x)), nil
	case starlark.Int:
		if i, ok := x.Int64(); ok {
			return vInt(i), nil
		}
		return V{K: "big", S: x.String()}, nil
	case starlark.Float:
		return vFloat(float64(x)), nil
	case starlark.String:
		return vStr(string(x)), nil
	case starlark.Bytes:
		return vBytes(string(x)), nil
	case *starlark.List:
		out := V{K: "list", L: make([]V, x.Len())}
		for i := 0; i < x.Len(); i++ {
			e, err := fromStar(x.Index(i))
			if err != nil {
				return V{}, err
			}
			out.L[i] = e
		}
		return out, nil
	case starlark.Tuple:
		out := V{K: "tuple", L: make([]V, len(x))}
		for i, e := range x {
			m, err := fromStar(e)
			if err != nil {
				return V{}, err
			}
			out.L[i] = m
		}
		return out, nil
	case *starlark.Dict:
		out := V{K: "dict"}
		for _, kv := range x.Items() {
			k, err := fromStar(kv[0])
			if err != nil {
				return V{}, err
			}
			v, err := fromStar(kv[1])
			if err != nil {
				return V{}, err
			}
			out.L = append(out.L, k, v)
		}
		return out, nil
	}
	if x.Type() == "range" {
		seq := x.(starlark.Indexable)
		it := x.(starlark.Iterable).Iterate()
		defer it.Done()
		out := V{K: "rangeval"}
		var e starlark.Value
		for i := 0; it.Next(&e); i++ {
			m, err := fromStar(e)
			if err != nil {
				return V{}, err
			}
			out.L = append(out.L, m)
			if i < seq.Len() {
				if ix, _ := fromStar(seq.Index(i)); !eqV(ix, m) {
					return V{}, fmt.Errorf("range value %v: Index(%d)=%v but iteration yields %v", x, i, seq.Index(i), e)
				}
			}
			if i > 1<<20 {
				return V{}, fmt.Errorf("range value %v: iteration does not end", x)
			}
		}
		if seq.Len() != len(out.L) {
			return V{}, fmt.Errorf("range value %v: Len()=%d but iteration yields %d elements", x, seq.Len(), len(out.L))
		}
		if bool(x.Truth()) != (len(out.L) > 0) {
			return V{}, fmt.Errorf("range value %v: Truth()=%v with %d elements", x, x.Truth(), len(out.L))
		}
		return out, nil
	}
	return V{K: "other", S: x.Type()}, nil
}

// show is a compact rendering for messages.
func show(v V) string { return repr(v) }
