// Generators of the C13 check: exhaustive enumerations and rapid generators.
package c13

import (
	"testing"

	"pgregory.net/rapid"
	"verif/harness/vk"
)

// ---------------------------------------------------------------- enumeration helpers

// receivers lists every string of length 0..maxLen over the alphabet, shortest first.
func receivers(maxLen int, alphabet string) []string {
	out := []string{""}
	level := []string{""}
	for l := 1; l <= maxLen; l++ {
		var next []string
		for _, p := range level {
			for i := 0; i < len(alphabet); i++ {
				next = append(next, p+alphabet[i:i+1])
			}
		}
		out = append(out, next...)
		level = next
	}
	return out
}

func needles(minLen, maxLen int, alphabet string) []string {
	var out []string
	for _, s := range receivers(maxLen, alphabet) {
		if len(s) >= minLen {
			out = append(out, s)
		}
	}
	return out
}

var hostileInts = []int64{1 << 31, -(1 << 31), 1 << 62, -(1 << 62)}

// idxSet: every int in [-n-3, n+3], None, and the hostile values.
func idxSet(n int) []V {
	var out []V
	for i := -n - 3; i <= n+3; i++ {
		out = append(out, vInt(int64(i)))
	}
	out = append(out, vNone)
	for _, h := range hostileInts {
		out = append(out, vInt(h))
	}
	return out
}

// countSet: omitted, -2..n+2 and the hostile values.
func countSet(n int) []V {
	out := []V{vOmit}
	for i := -2; i <= n+2; i++ {
		out = append(out, vInt(int64(i)))
	}
	for _, h := range hostileInts {
		out = append(out, vInt(h))
	}
	return out
}

func mkRecv(kind, s string) V {
	switch kind {
	case "str":
		return vStr(s)
	case "bytes":
		return vBytes(s)
	case "list":
		return V{K: "list", L: letters(s)}
	case "tuple":
		return V{K: "tuple", L: letters(s)}
	}
	panic("mkRecv " + kind)
}

var seqKinds = []string{"str", "bytes", "list", "tuple"}

const distinctLetters = "abcdefghijkl"

func smallRanges(p int) []V {
	var out []V
	for a := -p; a <= p; a++ {
		for b := -p; b <= p; b++ {
			for c := -p; c <= p; c++ {
				if c != 0 {
					out = append(out, vRange(int64(a), int64(b), int64(c)))
				}
			}
		}
	}
	return out
}

// subrangePairs: (omitted, omitted), (s, omitted), (s, e) for all s, e in the index set.
func subrangePairs(n int, core bool) [][2]V {
	set := idxSet(n)
	if core {
		set = set[:len(set)-len(hostileInts)]
	}
	out := [][2]V{{vOmit, vOmit}}
	for _, s := range set {
		out = append(out, [2]V{s, vOmit})
	}
	for _, s := range set {
		for _, e := range set {
			out = append(out, [2]V{s, e})
		}
	}
	return out
}

// ---------------------------------------------------------------- exhaustive: index and slice

func TestPropIndexExhaustive(t *testing.T) {
	defer flushStats()
	maxLen := vk.N(5, 8)
	vk.S.SetExhaustive("index: all receivers of length<=maxLen over {a,b,c}, 4 kinds, and small ranges, every index in [-n-3,n+3] + None + hostile", true)
	vk.Enum(t, subIndex, func(yield func(Case) bool) {
		item := 0
		each := func(recv V) bool {
			item++
			if !vk.Mine(item) {
				return true
			}
			n := int(seqLen(recv))
			for _, i := range append(idxSet(n), vStr("a"), vFloat(1)) {
				if !yield(Case{Op: "index", Recv: recv, Args: []V{i}}) {
					return false
				}
			}
			return true
		}
		for _, kind := range seqKinds {
			for _, r := range receivers(maxLen, "abc") {
				if !each(mkRecv(kind, r)) {
					return
				}
			}
			for n := 0; n <= len(distinctLetters); n++ {
				if !each(mkRecv(kind, distinctLetters[:n])) {
					return
				}
			}
		}
		for _, r := range smallRanges(vk.N(4, 9)) {
			if !each(r) {
				return
			}
		}
	})
}

// sliceTriples yields recv[a:b:st] for every triple over the index set; core=true leaves out the hostile values.
func sliceTriples(recv V, core bool, yield func(Case) bool) bool {
	set := idxSet(int(seqLen(recv)))
	if core {
		set = set[:len(set)-len(hostileInts)]
	}
	for _, a := range set {
		for _, b := range set {
			for _, st := range set {
				if !yield(Case{Op: "slice", Recv: recv, Args: []V{a, b, st}}) {
					return false
				}
			}
		}
	}
	return true
}

// Thorough: every receiver of length <= 8 (str) / <= 7 (bytes, list, tuple) over {a,b,c} with the full
// triple set.  Quick: the same up to length 4; at length 5 every second str receiver and every ninth
// receiver of the other kinds with the triple set without the hostile values.  Both: the
// receivers "a", "ab", ... "abcdefgh" (distinct elements) of each kind with the full triple set.
func TestPropSliceExhaustive(t *testing.T) {
	defer flushStats()
	vk.S.SetExhaustive("slice: all receivers over {a,b,c} (quick: length<=4 full, half of length 5 without hostile values; thorough: length<=8 str, <=7 others), 4 kinds, every (start,stop,step) in ([-n-3,n+3] + None + hostile)^3 incl. step 0", true)
	vk.Enum(t, subSlice, func(yield func(Case) bool) {
		item := 0
		for _, kind := range seqKinds {
			maxLen := 5
			if vk.Thorough() {
				maxLen = 7
				if kind == "str" {
					maxLen = 8
				}
			}
			for i, r := range receivers(maxLen, "abc") {
				core := false
				if !vk.Thorough() && len(r) == 5 {
					core = true
					if kind != "str" && i%9 != 0 || kind == "str" && i%2 != 0 {
						continue
					}
				}
				item++
				if vk.Mine(item) && !sliceTriples(mkRecv(kind, r), core, yield) {
					return
				}
			}
			for n := 4; n <= vk.N(8, len(distinctLetters)); n++ {
				item++
				if vk.Mine(item) && !sliceTriples(mkRecv(kind, distinctLetters[:n]), false, yield) {
					return
				}
			}
		}
	})
}

func TestPropSliceRangeExhaustive(t *testing.T) {
	defer flushStats()
	vk.S.SetExhaustive("slice of range(a,b,c) for all |a|,|b|,|c|<=P, every triple", true)
	vk.Enum(t, subSlice, func(yield func(Case) bool) {
		for i, r := range smallRanges(vk.N(2, 5)) {
			if vk.Mine(i) && !sliceTriples(r, false, yield) {
				return
			}
		}
		// a few longer ranges with strides, including ones whose last element is not stop-1
		for i, r := range []V{vRange(0, 7, 1), vRange(1, 10, 3), vRange(10, 3, -2), vRange(-5, 6, 4), vRange(7, -8, -5)} {
			if vk.Mine(i) && !sliceTriples(r, false, yield) {
				return
			}
		}
	})
}

// ---------------------------------------------------------------- exhaustive: string search methods

// Thorough: receivers of length <= 6, needles of length <= 3, all seven methods, every (start, end).
// Quick: length <= 3 the same with needles <= 2; length 4 needles <= 2 and (every second receiver of)
// length 5 needles <= 1, both without the hostile values and without index/rindex (same code path as find/rfind).
func TestPropSearchExhaustive(t *testing.T) {
	defer flushStats()
	maxLen := vk.N(5, 6)
	vk.S.SetExhaustive("find/rfind/index/rindex/count/startswith/endswith: receivers of length<=maxLen over {a,b,c}, needles of length<=2 (quick: <=1 at half of length 5; thorough: <=3), every (start,end)", true)
	tuples := []V{vTuple(), vTuple(vStr("a")), vTuple(vStr("b"), vStr("a")), vTuple(vStr("ab"), vStr("c"), vStr("")), vTuple(vStr("cc"), vStr("bca"))}
	all := []string{"m.find", "m.rfind", "m.index", "m.rindex", "m.count", "m.startswith", "m.endswith"}
	vk.Enum(t, subSearch, func(yield func(Case) bool) {
		for item, r := range receivers(maxLen, "abc") {
			if !vk.Mine(item) {
				continue
			}
			recv := vStr(r)
			nl, methods := 2, all
			pairs := subrangePairs(len(r), false)
			if vk.Thorough() {
				nl = 3
			} else if len(r) >= 4 {
				if len(r) == 5 && (item/vk.NShards())%2 == 1 { // every second one of this shard's receivers
					continue
				}
				methods = []string{"m.find", "m.rfind", "m.count", "m.startswith", "m.endswith"}
				pairs = subrangePairs(len(r), true)
				if len(r) == 5 {
					nl = 1
				}
			}
			for _, nd := range needles(0, nl, "abc") {
				for _, p := range pairs {
					for _, m := range methods {
						if !yield(Case{Op: m, Recv: recv, Args: []V{vStr(nd), p[0], p[1]}}) {
							return
						}
					}
				}
			}
			for _, tp := range tuples {
				for _, p := range pairs {
					for _, m := range []string{"m.startswith", "m.endswith"} {
						if !yield(Case{Op: m, Recv: recv, Args: []V{tp, p[0], p[1]}}) {
							return
						}
					}
				}
			}
		}
	})
}

// ---------------------------------------------------------------- exhaustive: split, strip, replace, ...

func TestPropSplitExhaustive(t *testing.T) {
	defer flushStats()
	maxLen := vk.N(5, 6)
	vk.S.SetExhaustive("split/rsplit/partition/rpartition/strip/lstrip/rstrip/replace/removeprefix/removesuffix/splitlines: receivers of length<=maxLen over {a,b,c}, {a,b,space} and {a,newline,space}", true)
	vk.Enum(t, subSplit, func(yield func(Case) bool) {
		item := 0
		for _, alpha := range []string{"abc", "ab ", "a\n ", "a\n\r"} {
			for _, r := range receivers(maxLen, alpha) {
				item++
				if !vk.Mine(item) {
					continue
				}
				recv := vStr(r)
				n := len(r)
				seps := []V{vNone}
				for _, s := range needles(0, 2, alpha) {
					seps = append(seps, vStr(s))
				}
				if !yield(Case{Op: "m.split", Recv: recv}) || !yield(Case{Op: "m.rsplit", Recv: recv}) {
					return
				}
				for _, sep := range seps {
					for _, mx := range countSet(n) {
						if !yield(Case{Op: "m.split", Recv: recv, Args: []V{sep, mx}}) {
							return
						}
						if sep.K == "none" && mx.K == "int" && mx.I == 1<<31 {
							continue // rsplit(None, 2^31) preallocates 32 GiB (same root cause as the 2^62 panic): not run in-process
						}
						if !yield(Case{Op: "m.rsplit", Recv: recv, Args: []V{sep, mx}}) {
							return
						}
					}
				}
				for _, nd := range needles(0, 2, alpha) {
					for _, m := range []string{"m.partition", "m.rpartition", "m.strip", "m.lstrip", "m.rstrip", "m.removeprefix", "m.removesuffix"} {
						if !yield(Case{Op: m, Recv: recv, Args: []V{vStr(nd)}}) {
							return
						}
					}
					for _, nw := range []string{"", "x", "ab"} {
						for _, cnt := range countSet(n) {
							if !yield(Case{Op: "m.replace", Recv: recv, Args: []V{vStr(nd), vStr(nw), cnt}}) {
								return
							}
						}
					}
				}
				for _, nd := range needles(3, 3, alpha) {
					for _, m := range []string{"m.removeprefix", "m.removesuffix", "m.partition", "m.rpartition"} {
						if !yield(Case{Op: m, Recv: recv, Args: []V{vStr(nd)}}) {
							return
						}
					}
				}
				for _, m := range []string{"m.strip", "m.lstrip", "m.rstrip"} {
					if !yield(Case{Op: m, Recv: recv}) {
						return
					}
				}
				for _, k := range []V{vOmit, vTrue, vFalse} {
					if !yield(Case{Op: "m.splitlines", Recv: recv, Args: []V{k}}) {
						return
					}
				}
			}
		}
	})
}

var utf8Sample = []string{"Hello, 世界", "é", "aé世😀b", "¿Por qué?"}

func TestPropCaseExhaustive(t *testing.T) {
	defer flushStats()
	maxLen := vk.N(5, 7)
	vk.S.SetExhaustive("lower/upper/title/capitalize/is*/elems/codepoints/...: receivers of length<=maxLen over {a,B,1,space}, join over all short lists", true)
	vk.Enum(t, subMisc, func(yield func(Case) bool) {
		item := 0
		methods := []string{"m.lower", "m.upper", "m.title", "m.capitalize", "m.isalnum", "m.isalpha", "m.isdigit", "m.islower",
			"m.isupper", "m.isspace", "m.istitle", "m.elems", "m.elem_ords", "m.codepoints", "m.codepoint_ords"}
		for _, alpha := range []string{"aB1 ", "Ab\t-", "zZ'\n"} {
			for _, r := range receivers(maxLen, alpha) {
				item++
				if !vk.Mine(item) {
					continue
				}
				for _, m := range methods {
					if !yield(Case{Op: m, Recv: vStr(r)}) {
						return
					}
				}
				if len(r) <= 3 && !yield(Case{Op: "m.elems", Recv: vBytes(r)}) {
					return
				}
			}
		}
		if vk.Mine(0) {
			for _, r := range utf8Sample {
				for _, m := range []string{"m.elems", "m.elem_ords", "m.codepoints", "m.codepoint_ords"} {
					if !yield(Case{Op: m, Recv: vStr(r)}) || !yield(Case{Op: m, Recv: vStr(r), Via: "src"}) {
						return
					}
				}
				if !yield(Case{Op: "f.len", Recv: vStr(r)}) {
					return
				}
			}
		}
		// join: separators of length <= 2, element lists of length <= 3 over {"", "a", "bc"}
		elems := []V{vStr(""), vStr("a"), vStr("bc")}
		var lists [][]V
		lists = append(lists, []V{})
		level := [][]V{{}}
		for l := 1; l <= 3; l++ {
			var next [][]V
			for _, p := range level {
				for _, e := range elems {
					next = append(next, append(append([]V{}, p...), e))
				}
			}
			lists = append(lists, next...)
			level = next
		}
		for _, sep := range needles(0, 2, "ab") {
			item++
			if !vk.Mine(item) {
				continue
			}
			for _, l := range lists {
				for _, kind := range []string{"list", "tuple"} {
					if !yield(Case{Op: "m.join", Recv: vStr(sep), Args: []V{{K: kind, L: l}}}) {
						return
					}
				}
			}
			for _, bad := range []V{vStr("ab"), vInt(3), vList(vStr("a"), vInt(1)), vNone, vRange(0, 2, 1),
				vIter("codepoints", "ctmrn"), vIter("elems", "ab"), vIter("codepoints", ""), vIter("elem_ords", "ab")} {
				if !yield(Case{Op: "m.join", Recv: vStr(sep), Args: []V{bad}}) {
					return
				}
			}
		}
	})
}

// ---------------------------------------------------------------- exhaustive: lists, operators, built-in functions

func TestPropListExhaustive(t *testing.T) {
	defer flushStats()
	maxLen := vk.N(5, 6)
	vk.S.SetExhaustive("list index/insert/pop/remove/extend/append/clear/+=: lists of length<=maxLen over {a,b,c}, every index and (start,end)", true)
	vk.Enum(t, subList, func(yield func(Case) bool) {
		for item, r := range receivers(maxLen, "abc") {
			if !vk.Mine(item) {
				continue
			}
			recv := mkRecv("list", r)
			n := len(r)
			for _, x := range []V{vStr("a"), vStr("b"), vStr("c"), vStr("z")} {
				for _, p := range subrangePairs(n, false) {
					if !yield(Case{Op: "m.index", Recv: recv, Args: []V{x, p[0], p[1]}}) {
						return
					}
				}
				if !yield(Case{Op: "m.remove", Recv: recv, Args: []V{x}}) || !yield(Case{Op: "m.append", Recv: recv, Args: []V{x}}) {
					return
				}
			}
			for _, i := range append(idxSet(n), vStr("a")) {
				if !yield(Case{Op: "m.insert", Recv: recv, Args: []V{i, vStr("z")}}) || !yield(Case{Op: "m.pop", Recv: recv, Args: []V{i}}) {
					return
				}
			}
			if !yield(Case{Op: "m.pop", Recv: recv}) || !yield(Case{Op: "m.clear", Recv: recv}) {
				return
			}
			for _, it := range []V{vList(), vList(vStr("x")), vTuple(vStr("x"), vStr("y")), vRange(0, 2, 1), vStr("ab"), vInt(3), vNone,
				vIter("codepoints", "xy"), vIter("elem_ords", "xy")} {
				if !yield(Case{Op: "m.extend", Recv: recv, Args: []V{it}}) || !yield(Case{Op: "iadd", Recv: recv, Args: []V{it}}) {
					return
				}
			}
		}
	})
}

func TestPropBinopExhaustive(t *testing.T) {
	defer flushStats()
	maxLen := vk.N(4, 5)
	vk.S.SetExhaustive("+ * in: receivers of length<=maxLen over {a,b,c}, 4 kinds, all right operands of length<=2, counts -2..3 and hostile", true)
	counts := []V{vInt(-2), vInt(-1), vInt(0), vInt(1), vInt(2), vInt(3), vStr("a"), vNone}
	for _, h := range hostileInts {
		counts = append(counts, vInt(h))
	}
	vk.Enum(t, subBinop, func(yield func(Case) bool) {
		item := 0
		for _, kind := range seqKinds {
			for _, r := range receivers(maxLen, "abc") {
				item++
				if !vk.Mine(item) {
					continue
				}
				recv := mkRecv(kind, r)
				for _, cnt := range counts {
					if !yield(Case{Op: "mul", Recv: recv, Args: []V{cnt}}) || !yield(Case{Op: "rmul", Recv: recv, Args: []V{cnt}}) {
						return
					}
				}
				for _, o := range needles(0, 2, "abc") {
					for _, k2 := range seqKinds {
						if !yield(Case{Op: "add", Recv: recv, Args: []V{mkRecv(k2, o)}}) {
							return
						}
						if kind != "list" && !yield(Case{Op: "iadd", Recv: recv, Args: []V{mkRecv(k2, o)}}) {
							return
						}
					}
					var xs []V
					switch kind {
					case "str":
						xs = []V{vStr(o)}
					case "bytes":
						xs = []V{vBytes(o)}
					default:
						xs = []V{vStr(o), mkRecv("list", o), mkRecv("tuple", o)}
					}
					for _, x := range xs {
						if !yield(Case{Op: "in", Recv: recv, Args: []V{x}}) || !yield(Case{Op: "notin", Recv: recv, Args: []V{x}}) {
							return
						}
					}
				}
				var odd []V
				switch kind {
				case "str":
					odd = []V{vInt(97), vNone, vBytes("a")}
				case "bytes":
					odd = []V{vInt(97), vInt(98), vInt(99), vInt(100), vInt(0), vInt(255)}
				default:
					odd = []V{vInt(97), vNone}
				}
				for _, x := range odd {
					if !yield(Case{Op: "in", Recv: recv, Args: []V{x}}) || !yield(Case{Op: "notin", Recv: recv, Args: []V{x}}) {
						return
					}
				}
				if !yield(Case{Op: "add", Recv: recv, Args: []V{vInt(1)}}) || !yield(Case{Op: "add", Recv: recv, Args: []V{vNone}}) {
					return
				}
			}
		}
		for i, r := range smallRanges(vk.N(3, 5)) {
			if !vk.Mine(i) {
				continue
			}
			for x := int64(-8); x <= 8; x++ {
				if !yield(Case{Op: "in", Recv: r, Args: []V{vInt(x)}}) || !yield(Case{Op: "notin", Recv: r, Args: []V{vInt(x)}}) {
					return
				}
			}
			if !yield(Case{Op: "in", Recv: r, Args: []V{vStr("a")}}) || !yield(Case{Op: "in", Recv: r, Args: []V{vNone}}) {
				return
			}
		}
	})
}

var iterMethods = []string{"elems", "elem_ords", "codepoints", "codepoint_ords"}

// allLists enumerates lists of length 0..maxLen over the element pool.
func allLists(pool []V, maxLen int) [][]V {
	out := [][]V{{}}
	level := [][]V{{}}
	for l := 1; l <= maxLen; l++ {
		var next [][]V
		for _, p := range level {
			for _, e := range pool {
				next = append(next, append(append([]V{}, p...), e))
			}
		}
		out = append(out, next...)
		level = next
	}
	return out
}

func fnKw(name string) KV { return KV{Name: "key", Val: V{K: "fn", S: name}} }

func TestPropBuiltinExhaustive(t *testing.T) {
	defer flushStats()
	vk.S.SetExhaustive("reversed/enumerate/zip/any/all/len/list/tuple/sorted/min/max over short receivers of every kind", true)
	vk.Enum(t, subBuiltin, func(yield func(Case) bool) {
		item := 0
		var recvs []V
		for _, kind := range seqKinds {
			for _, r := range receivers(vk.N(3, 4), "abc") {
				recvs = append(recvs, mkRecv(kind, r))
			}
		}
		recvs = append(recvs, smallRanges(2)...)
		recvs = append(recvs, vInt(3), vNone)
		for _, m := range iterMethods {
			for _, r := range receivers(3, "abc") {
				recvs = append(recvs, vIter(m, r))
			}
			recvs = append(recvs, vIter(m, "aé世😀b"))
		}
		starts := []V{vOmit, vInt(0), vInt(1), vInt(-3), vInt(1 << 31), vInt(1 << 62), vStr("a")}
		for _, recv := range recvs {
			item++
			if !vk.Mine(item) {
				continue
			}
			for _, f := range []string{"f.reversed", "f.any", "f.all", "f.len", "f.list", "f.tuple", "f.sorted", "f.min", "f.max", "f.zip"} {
				if !yield(Case{Op: f, Recv: recv}) {
					return
				}
			}
			for _, s := range starts {
				if !yield(Case{Op: "f.enumerate", Recv: recv, Args: []V{s}}) {
					return
				}
			}
			for _, o := range []V{vList(), vList(vInt(1)), vTuple(vInt(1), vInt(2)), vRange(0, 3, 1), vStr("ab"), vInt(1),
				vIter("codepoints", "xy"), vIter("elems", "xyz"), vIter("codepoint_ords", "")} {
				if !yield(Case{Op: "f.zip", Recv: recv, Args: []V{o}}) || !yield(Case{Op: "f.zip", Recv: recv, Args: []V{o, vRange(5, 0, -1)}}) {
					return
				}
			}
		}
		if vk.Mine(0) && !yield(Case{Op: "f.zip", Recv: vOmit}) {
			return
		}
		// sorted / min / max: strings with key functions, ints, mixed kinds
		strPool := []V{vStr("a"), vStr("b"), vStr("ab"), vStr("ba"), vStr("")}
		for _, l := range allLists(strPool, vk.N(3, 4)) {
			item++
			if !vk.Mine(item) {
				continue
			}
			for _, kind := range []string{"list", "tuple"} {
				recv := V{K: kind, L: l}
				for _, kw := range [][]KV{nil, {fnKw("len")}, {fnKw("last")}} {
					for _, rev := range []V{vOmit, vTrue, vFalse} {
						k := kw
						if rev.K != "omit" {
							k = append(append([]KV{}, kw...), KV{Name: "reverse", Val: rev})
						}
						if !yield(Case{Op: "f.sorted", Recv: recv, Kw: k}) {
							return
						}
					}
					if !yield(Case{Op: "f.min", Recv: recv, Kw: kw}) || !yield(Case{Op: "f.max", Recv: recv, Kw: kw}) {
						return
					}
					if kind == "tuple" {
						args := V{K: "args", L: l}
						if !yield(Case{Op: "f.min", Recv: args, Kw: kw}) || !yield(Case{Op: "f.max", Recv: args, Kw: kw}) {
							return
						}
					}
				}
			}
		}
		intPool := []V{vInt(1), vInt(2), vInt(-1), vStr("a")}
		for _, l := range allLists(intPool, vk.N(3, 4)) {
			item++
			if !vk.Mine(item) {
				continue
			}
			recv := V{K: "list", L: l}
			for _, kw := range [][]KV{nil, {fnKw("neg")}, {{Name: "reverse", Val: vTrue}}} {
				if !yield(Case{Op: "f.sorted", Recv: recv, Kw: kw}) {
					return
				}
				if len(kw) == 0 || kw[0].Name == "key" {
					if !yield(Case{Op: "f.min", Recv: recv, Kw: kw}) || !yield(Case{Op: "f.max", Recv: V{K: "args", L: l}, Kw: kw}) {
						return
					}
				}
			}
		}
		truthPool := []V{vNone, vFalse, vTrue, vInt(0), vInt(1), vStr(""), vStr("a"), vList(), vList(vInt(0)), vTuple(), vBytes(""), vBytes("a"), vBytes("ab"), vTuple(vNone), vRange(0, 0, 1), vRange(0, 1, 1)}
		for _, l := range allLists(truthPool, vk.N(2, 3)) {
			item++
			if !vk.Mine(item) {
				continue
			}
			if !yield(Case{Op: "f.any", Recv: V{K: "list", L: l}}) || !yield(Case{Op: "f.all", Recv: V{K: "tuple", L: l}}) {
				return
			}
		}
	})
}

// ---------------------------------------------------------------- rapid generators

const (
	alphaABC   = "abc"
	alphaAB    = "ab"
	alphaWS    = "ab \t\n"
	alphaWSAll = "a \t\n\v\f\r"
	alphaCase  = "aAbZz19 -_'.\t"
	alphaSafe  = "abcXYZ019 ,.-_"
)

var alphaASCII = func() string {
	b := []byte{'\t', '\n', '\r'}
	for c := byte(32); c < 127; c++ {
		b = append(b, c)
	}
	return string(b)
}()

func genText(t *rapid.T, label, alpha string, maxLen int) string {
	return string(rapid.SliceOfN(rapid.SampledFrom([]byte(alpha)), 0, maxLen).Draw(t, label))
}

func genVia(t *rapid.T) string {
	return rapid.SampledFrom([]string{"", "src"}).Draw(t, "via")
}

// genIdx draws an index-like argument for a receiver of length n.
func genIdx(t *rapid.T, label string, n int, allowOmit bool) V {
	switch rapid.IntRange(0, 19).Draw(t, label+"_kind") {
	case 0, 1:
		return vNone
	case 2, 3:
		if allowOmit {
			return vOmit
		}
		return vNone
	case 4:
		return vInt(rapid.SampledFrom(hostileInts).Draw(t, label+"_hostile"))
	case 5:
		return vInt(rapid.SampledFrom([]int64{1<<31 - 1, -(1<<31 - 1), 1<<31 + 1, 1<<63 - 1, -1 << 63}).Draw(t, label+"_edge"))
	case 6:
		if rapid.IntRange(0, 3).Draw(t, label+"_bad") == 0 {
			return vStr("1")
		}
	}
	return vInt(int64(rapid.IntRange(-n-3, n+3).Draw(t, label)))
}

func genSeqRecv(t *rapid.T, maxLen int) V {
	kind := rapid.SampledFrom([]string{"str", "bytes", "list", "tuple", "range"}).Draw(t, "kind")
	if kind == "range" {
		a := int64(rapid.IntRange(-40, 40).Draw(t, "rstart"))
		b := int64(rapid.IntRange(-40, 40).Draw(t, "rstop"))
		c := int64(rapid.IntRange(-7, 7).Draw(t, "rstep"))
		if c == 0 {
			c = 1
		}
		return vRange(a, b, c)
	}
	alpha := rapid.SampledFrom([]string{alphaABC, alphaASCII, distinctLetters}).Draw(t, "alpha")
	return mkRecv(kind, genText(t, "recv", alpha, maxLen))
}

func TestPropSliceRandom(t *testing.T) {
	defer flushStats()
	vk.Rapid(t, subSlice, vk.N(20000, 150000), func(t *rapid.T) Case {
		recv := genSeqRecv(t, 40)
		n := int(seqLen(recv))
		if rapid.IntRange(0, 4).Draw(t, "isIndex") == 0 {
			return Case{Op: "index", Recv: recv, Args: []V{genIdx(t, "i", n, false)}, Via: genVia(t)}
		}
		st := genIdx(t, "step", 3, true)
		return Case{Op: "slice", Recv: recv, Args: []V{genIdx(t, "start", n, true), genIdx(t, "stop", n, true), st}, Via: genVia(t)}
	})
}

// genNeedle: a substring of s (so that matches are frequent) or an unrelated short string.
func genNeedle(t *rapid.T, s, alpha string) string {
	if len(s) > 0 && rapid.IntRange(0, 3).Draw(t, "needle_from_recv") > 0 {
		i := rapid.IntRange(0, len(s)).Draw(t, "needle_i")
		l := rapid.IntRange(0, 3).Draw(t, "needle_l")
		if i+l > len(s) {
			l = len(s) - i
		}
		return s[i : i+l]
	}
	return genText(t, "needle", alpha, 3)
}

func TestPropSearchRandom(t *testing.T) {
	defer flushStats()
	methods := []string{"m.find", "m.rfind", "m.index", "m.rindex", "m.count", "m.startswith", "m.endswith"}
	vk.Rapid(t, subSearch, vk.N(15000, 120000), func(t *rapid.T) Case {
		alpha := rapid.SampledFrom([]string{alphaAB, alphaABC, alphaASCII}).Draw(t, "alpha")
		s := genText(t, "recv", alpha, 40)
		m := rapid.SampledFrom(methods).Draw(t, "method")
		var x V = vStr(genNeedle(t, s, alpha))
		if (m == "m.startswith" || m == "m.endswith") && rapid.IntRange(0, 2).Draw(t, "tuple") == 0 {
			k := rapid.IntRange(0, 3).Draw(t, "ntuple")
			x = V{K: "tuple", L: []V{}}
			for i := 0; i < k; i++ {
				x.L = append(x.L, vStr(genNeedle(t, s, alpha)))
			}
		} else if rapid.IntRange(0, 40).Draw(t, "badneedle") == 0 {
			x = rapid.SampledFrom([]V{vInt(1), vNone, vBytes("a"), vList(vStr("a"))}).Draw(t, "bad")
		}
		a := genIdx(t, "start", len(s), true)
		b := vOmit
		if a.K != "omit" {
			b = genIdx(t, "end", len(s), true)
		}
		return Case{Op: m, Recv: vStr(s), Args: []V{x, a, b}, Via: genVia(t)}
	})
}

func genCount(t *rapid.T, label string, n int) V {
	switch rapid.IntRange(0, 9).Draw(t, label+"_kind") {
	case 0:
		return vOmit
	case 1:
		h := rapid.SampledFrom(hostileInts).Draw(t, label+"_hostile")
		return vInt(h)
	}
	return vInt(int64(rapid.IntRange(-2, n+2).Draw(t, label)))
}

func TestPropSplitRandom(t *testing.T) {
	defer flushStats()
	methods := []string{"m.split", "m.rsplit", "m.split", "m.rsplit", "m.splitlines", "m.partition", "m.rpartition", "m.strip", "m.lstrip",
		"m.rstrip", "m.replace", "m.removeprefix", "m.removesuffix", "m.join"}
	vk.Rapid(t, subSplit, vk.N(15000, 120000), func(t *rapid.T) Case {
		alpha := rapid.SampledFrom([]string{alphaWS, alphaWSAll, alphaAB, alphaASCII, "a\n\r"}).Draw(t, "alpha")
		s := genText(t, "recv", alpha, 40)
		m := rapid.SampledFrom(methods).Draw(t, "method")
		c := Case{Op: m, Recv: vStr(s), Via: genVia(t)}
		switch m {
		case "m.split", "m.rsplit":
			switch rapid.IntRange(0, 5).Draw(t, "sepkind") {
			case 0:
				return c // no arguments
			case 1, 2:
				c.Args = []V{vNone}
			default:
				c.Args = []V{vStr(genNeedle(t, s, alpha))}
			}
			mx := genCount(t, "maxsplit", len(s))
			if m == "m.rsplit" && c.Args[0].K == "none" && mx.K == "int" && mx.I == 1<<31 {
				mx = vInt(1 << 62) // see TestPropSplitExhaustive
			}
			c.Args = append(c.Args, mx)
		case "m.splitlines":
			c.Args = []V{rapid.SampledFrom([]V{vOmit, vTrue, vFalse}).Draw(t, "keepends")}
		case "m.partition", "m.rpartition", "m.removeprefix", "m.removesuffix":
			c.Args = []V{vStr(genNeedle(t, s, alpha))}
			if rapid.IntRange(0, 30).Draw(t, "badarg") == 0 {
				c.Args = []V{rapid.SampledFrom([]V{vInt(1), vNone, vBytes("a")}).Draw(t, "bad")}
			}
		case "m.strip", "m.lstrip", "m.rstrip":
			if rapid.Bool().Draw(t, "cutset") {
				c.Args = []V{vStr(genText(t, "chars", alpha, 3))}
			}
		case "m.replace":
			c.Args = []V{vStr(genNeedle(t, s, alpha)), vStr(genText(t, "new", alphaSafe, 3)), genCount(t, "count", len(s))}
		case "m.join":
			c.Recv = vStr(genText(t, "sep", alpha, 3))
			k := rapid.IntRange(0, 5).Draw(t, "nelems")
			l := V{K: rapid.SampledFrom([]string{"list", "tuple"}).Draw(t, "argkind"), L: []V{}}
			for i := 0; i < k; i++ {
				l.L = append(l.L, vStr(genText(t, "elem", alpha, 4)))
			}
			if k > 0 && rapid.IntRange(0, 15).Draw(t, "badelem") == 0 {
				l.L[rapid.IntRange(0, k-1).Draw(t, "badpos")] = vInt(1)
			}
			c.Args = []V{l}
		}
		return c
	})
}

func TestPropCaseRandom(t *testing.T) {
	defer flushStats()
	methods := []string{"m.lower", "m.upper", "m.title", "m.capitalize", "m.isalnum", "m.isalpha", "m.isdigit", "m.islower",
		"m.isupper", "m.isspace", "m.istitle", "m.elems", "m.elem_ords", "m.codepoints", "m.codepoint_ords"}
	vk.Rapid(t, subMisc, vk.N(8000, 60000), func(t *rapid.T) Case {
		alpha := rapid.SampledFrom([]string{alphaCase, alphaASCII, alphaWSAll, "aZ", "09"}).Draw(t, "alpha")
		return Case{Op: rapid.SampledFrom(methods).Draw(t, "method"), Recv: vStr(genText(t, "recv", alpha, 40)), Via: genVia(t)}
	})
}

// genValue draws a value whose str and repr need no escapes beyond the documented ones.
func genValue(t *rapid.T, label string, depth int) V {
	k := rapid.IntRange(0, 9).Draw(t, label+"_kind")
	if depth == 0 && k >= 7 {
		k = 1
	}
	switch k {
	case 0:
		return vNone
	case 1, 2:
		return vInt(int64(rapid.IntRange(-1000, 1000).Draw(t, label+"_int")))
	case 3:
		return vBool(rapid.Bool().Draw(t, label+"_bool"))
	case 4, 5:
		return vStr(genText(t, label+"_str", alphaSafe, 6))
	case 6:
		return vInt(rapid.SampledFrom([]int64{1 << 31, -(1 << 40), 1<<62 + 12345, -(1 << 62), 255, -255, 8}).Draw(t, label+"_bigint"))
	case 7:
		return vBytes(genText(t, label+"_bytes", "abc019", 4))
	}
	n := rapid.IntRange(0, 3).Draw(t, label+"_n")
	v := V{K: "list", L: []V{}}
	if k == 9 {
		v.K = "tuple"
	}
	for i := 0; i < n; i++ {
		v.L = append(v.L, genValue(t, label+"_e", depth-1))
	}
	return v
}

func TestPropFormatRandom(t *testing.T) {
	defer flushStats()
	vk.Rapid(t, subFormat, vk.N(15000, 120000), func(t *rapid.T) Case {
		nargs := rapid.IntRange(0, 3).Draw(t, "nargs")
		var args []V
		for i := 0; i < nargs; i++ {
			args = append(args, genValue(t, "arg", 2))
		}
		var kw []KV
		for _, name := range []string{"x", "yy"} {
			if rapid.Bool().Draw(t, "kw_"+name) {
				kw = append(kw, KV{Name: name, Val: genValue(t, "kwval", 1)})
			}
		}
		mode := rapid.SampledFrom([]string{"auto", "manual", "mixed"}).Draw(t, "mode")
		f := ""
		nparts := rapid.IntRange(0, 6).Draw(t, "nparts")
		for i := 0; i < nparts; i++ {
			switch rapid.IntRange(0, 11).Draw(t, "part") {
			case 0, 1, 2:
				f += genText(t, "lit", "ab ,:!", 4)
			case 3:
				f += "{{"
			case 4:
				f += "}}"
			case 5:
				switch rapid.IntRange(0, 7).Draw(t, "defect") {
				case 0:
					f += "}"
				case 1:
					f += "{"
				case 2:
					f += "{!z}"
				case 3:
					f += "{:>3}"
				case 4:
					f += "{9}"
				case 5:
					f += "{nokey}"
				default:
					f += "{}"
				}
			default:
				name := ""
				names := []string{"", "", "x", "yy"}
				switch mode {
				case "manual":
					names = []string{"0", "1", "2", "x", "yy"}
				case "mixed":
					names = []string{"", "0", "1", "x"}
				}
				name = rapid.SampledFrom(names).Draw(t, "field")
				conv := rapid.SampledFrom([]string{"", "", "!r", "!s"}).Draw(t, "conv")
				spec := rapid.SampledFrom([]string{"", "", "", ":"}).Draw(t, "spec")
				f += "{" + name + conv + spec + "}"
			}
		}
		return Case{Op: "m.format", Recv: vStr(f), Args: args, Kw: kw, Via: genVia(t)}
	})
}

// genDyadic draws k / 2^m.
func genDyadic(t *rapid.T, label string, maxK int, maxM int) float64 {
	k := rapid.IntRange(-maxK, maxK).Draw(t, label+"_k")
	m := rapid.IntRange(0, maxM).Draw(t, label+"_m")
	f := float64(k)
	for i := 0; i < m; i++ {
		f /= 2
	}
	return f
}

func genOperandFor(t *rapid.T, conv byte) V {
	if rapid.IntRange(0, 24).Draw(t, "wrongtype") == 0 {
		return rapid.SampledFrom([]V{vStr("12"), vNone, vTrue, vList(vInt(1)), vInt(7), vFloat(2.5)}).Draw(t, "wrong")
	}
	switch conv {
	case 'd', 'i':
		if rapid.IntRange(0, 3).Draw(t, "float_for_d") == 0 {
			return vFloat(genDyadic(t, "f", 100000, 4))
		}
		fallthrough
	case 'o', 'x', 'X':
		if rapid.IntRange(0, 3).Draw(t, "bigint") == 0 {
			return vInt(rapid.SampledFrom([]int64{1 << 31, -(1 << 31), 1 << 62, -(1 << 62), 1<<63 - 1, -1 << 63, 0, -1}).Draw(t, "big"))
		}
		return vInt(int64(rapid.IntRange(-70000, 70000).Draw(t, "int")))
	case 'e', 'E', 'f', 'F':
		switch rapid.IntRange(0, 4).Draw(t, "fkind") {
		case 0:
			return vInt(int64(rapid.IntRange(-100000, 100000).Draw(t, "int")))
		case 1:
			return vInt(rapid.SampledFrom([]int64{1 << 31, 1 << 62, -(1 << 62), 0, 999999, 9999995, 1 << 53}).Draw(t, "big"))
		case 2:
			return vFloat(genDyadic(t, "f", 1<<30, 20))
		}
		return vFloat(genDyadic(t, "f", 10000000, 12))
	case 'g', 'G':
		if rapid.Bool().Draw(t, "gint") {
			return vInt(int64(rapid.IntRange(-99999, 99999).Draw(t, "int")))
		}
		return vFloat(genDyadic(t, "f", 999, 3))
	case 'c':
		switch rapid.IntRange(0, 5).Draw(t, "ckind") {
		case 0:
			return vInt(rapid.SampledFrom([]int64{0xe9, 0x4e16, 0x1f600, 0x10ffff, -1, 0x110000, 1 << 31, 1 << 62}).Draw(t, "cp"))
		case 1:
			return vStr(rapid.SampledFrom([]string{"", "ab", "é", "世", "😀", "éa"}).Draw(t, "cstr"))
		case 2:
			return vStr(genText(t, "c1", alphaSafe, 1))
		}
		return vInt(int64(rapid.IntRange(32, 126).Draw(t, "ascii")))
	}
	return genValue(t, "operand", 2)
}

func TestPropInterpRandom(t *testing.T) {
	defer flushStats()
	convs := []byte("ssrrddioxXeEfFgGcc")
	vk.Rapid(t, subInterp, vk.N(20000, 150000), func(t *rapid.T) Case {
		f := ""
		var ops []V
		keyed := rapid.IntRange(0, 7).Draw(t, "keyed") == 0
		dict := V{K: "dict"}
		nparts := rapid.IntRange(0, 6).Draw(t, "nparts")
		afterG := false
		for i := 0; i < nparts; i++ {
			switch rapid.IntRange(0, 9).Draw(t, "part") {
			case 0, 1, 2:
				lit := genText(t, "lit", "ab ,:()", 4)
				if afterG {
					lit = " " + lit
				}
				f += lit
				afterG = false
			case 3:
				if afterG {
					f += " "
				}
				f += "%%"
				afterG = false
			case 4:
				if rapid.IntRange(0, 5).Draw(t, "defect") == 0 {
					if afterG {
						f += " "
					}
					f += rapid.SampledFrom([]string{"%z", "%", "%(", "%y"}).Draw(t, "bad")
					afterG = false
				}
			default:
				if afterG {
					f += " "
				}
				c := rapid.SampledFrom(convs).Draw(t, "conv")
				v := genOperandFor(t, c)
				if keyed {
					key := rapid.SampledFrom([]string{"k", "key2", ""}).Draw(t, "key")
					f += "%(" + key + ")" + string([]byte{c})
					if rapid.IntRange(0, 9).Draw(t, "missing") > 0 {
						present := false
						for k := 0; k+1 < len(dict.L); k += 2 {
							if dict.L[k].S == key {
								present = true
								v = dict.L[k+1]
							}
						}
						_ = v
						if !present {
							dict.L = append(dict.L, vStr(key), v)
						}
					}
				} else {
					f += "%" + string([]byte{c})
					ops = append(ops, v)
				}
				afterG = c == 'g' || c == 'G'
			}
		}
		var x V
		switch {
		case keyed:
			x = dict
			if rapid.IntRange(0, 12).Draw(t, "notdict") == 0 {
				x = vTuple(vInt(1))
			}
		default:
			switch rapid.IntRange(0, 11).Draw(t, "arity") {
			case 0:
				if len(ops) > 0 {
					ops = ops[:len(ops)-1]
				}
			case 1:
				ops = append(ops, vInt(5))
			}
			x = V{K: "tuple", L: append([]V{}, ops...)}
			if len(ops) == 1 && ops[0].K != "tuple" && rapid.Bool().Draw(t, "bare") {
				x = ops[0]
			}
			if len(ops) == 0 && rapid.IntRange(0, 5).Draw(t, "emptykind") == 0 {
				x = rapid.SampledFrom([]V{{K: "dict"}, vList(), vNone, vInt(0)}).Draw(t, "emptyop")
			}
		}
		return Case{Op: "mod", Recv: vStr(f), Args: []V{x}, Via: genVia(t)}
	})
}

func genElem(t *rapid.T, label string) V {
	return rapid.SampledFrom([]V{vStr("a"), vStr("b"), vStr("c"), vStr("ab"), vInt(1), vInt(2), vNone, vList(vStr("a")), vTuple(vStr("a")), vStr(""), vBytes(""), vBytes("a"), vInt(0), vBool(false), vList(), vTuple()}).Draw(t, label)
}

func genList(t *rapid.T, label string, maxLen int) []V {
	n := rapid.IntRange(0, maxLen).Draw(t, label+"_n")
	out := make([]V, n)
	for i := range out {
		out[i] = genElem(t, label)
	}
	return out
}

func TestPropListRandom(t *testing.T) {
	defer flushStats()
	ops := []string{"m.index", "m.index", "m.insert", "m.pop", "m.remove", "m.extend", "m.append", "m.clear", "iadd", "add", "mul", "rmul", "in", "notin"}
	vk.Rapid(t, subList, vk.N(15000, 120000), func(t *rapid.T) Case {
		l := genList(t, "recv", 40)
		n := len(l)
		op := rapid.SampledFrom(ops).Draw(t, "op")
		c := Case{Op: op, Recv: V{K: "list", L: l}, Via: genVia(t)}
		if (op == "add" || op == "mul" || op == "rmul" || op == "in" || op == "notin") && rapid.Bool().Draw(t, "astuple") {
			c.Recv.K = "tuple"
		}
		pickElem := func() V {
			if n > 0 && rapid.IntRange(0, 3).Draw(t, "present") > 0 {
				return l[rapid.IntRange(0, n-1).Draw(t, "which")]
			}
			return genElem(t, "x")
		}
		switch op {
		case "m.index":
			a := genIdx(t, "start", n, true)
			b := vOmit
			if a.K != "omit" {
				b = genIdx(t, "end", n, true)
			}
			c.Args = []V{pickElem(), a, b}
		case "m.insert":
			c.Args = []V{genIdx(t, "i", n, false), genElem(t, "x")}
			if c.Args[0].K == "none" {
				c.Args[0] = vInt(0)
			}
		case "m.pop":
			c.Args = []V{genIdx(t, "i", n, true)}
			if c.Args[0].K == "none" {
				c.Args[0] = vOmit
			}
		case "m.remove", "m.append", "in", "notin":
			c.Args = []V{pickElem()}
		case "m.extend", "iadd", "add":
			other := V{K: rapid.SampledFrom([]string{"list", "list", "tuple"}).Draw(t, "otherkind"), L: genList(t, "other", 5)}
			if rapid.IntRange(0, 9).Draw(t, "range") == 0 {
				other = vRange(0, int64(rapid.IntRange(0, 4).Draw(t, "rn")), 1)
			}
			if rapid.IntRange(0, 19).Draw(t, "bad") == 0 {
				other = rapid.SampledFrom([]V{vStr("ab"), vInt(1), vNone}).Draw(t, "badother")
			}
			c.Args = []V{other}
		case "mul", "rmul":
			cnt := int64(rapid.IntRange(-2, 4).Draw(t, "count"))
			if rapid.IntRange(0, 9).Draw(t, "hostilecount") == 0 {
				cnt = rapid.SampledFrom(hostileInts).Draw(t, "h")
			}
			c.Args = []V{vInt(cnt)}
		}
		return c
	})
}

func TestPropBinopRandom(t *testing.T) {
	defer flushStats()
	vk.Rapid(t, subBinop, vk.N(10000, 80000), func(t *rapid.T) Case {
		kind := rapid.SampledFrom([]string{"str", "bytes"}).Draw(t, "kind")
		alpha := rapid.SampledFrom([]string{alphaAB, alphaASCII}).Draw(t, "alpha")
		s := genText(t, "recv", alpha, 40)
		op := rapid.SampledFrom([]string{"add", "mul", "rmul", "in", "notin", "iadd"}).Draw(t, "op")
		c := Case{Op: op, Recv: mkRecv(kind, s), Via: genVia(t)}
		switch op {
		case "add", "iadd":
			k2 := kind
			if rapid.IntRange(0, 9).Draw(t, "otherkind") == 0 {
				k2 = rapid.SampledFrom(seqKinds).Draw(t, "k2")
			}
			c.Args = []V{mkRecv(k2, genText(t, "other", alpha, 6))}
		case "mul", "rmul":
			cnt := int64(rapid.IntRange(-2, 5).Draw(t, "count"))
			if rapid.IntRange(0, 9).Draw(t, "hostilecount") == 0 {
				cnt = rapid.SampledFrom(hostileInts).Draw(t, "h")
			}
			c.Args = []V{vInt(cnt)}
		default:
			c.Args = []V{mkRecv(kind, genNeedle(t, s, alpha))}
			if kind == "bytes" && rapid.IntRange(0, 3).Draw(t, "byteint") == 0 {
				c.Args = []V{vInt(int64(rapid.IntRange(0, 255).Draw(t, "byte")))}
			}
		}
		return c
	})
}

// genIterable: a sequence receiver, or (one time in five) a string iterable.
func genIterable(t *rapid.T, maxLen int) V {
	if rapid.IntRange(0, 4).Draw(t, "stringiter") == 0 {
		return vIter(rapid.SampledFrom(iterMethods).Draw(t, "itermethod"), genText(t, "itertext", alphaABC, maxLen))
	}
	return genSeqRecv(t, maxLen)
}

func TestPropBuiltinRandom(t *testing.T) {
	defer flushStats()
	fns := []string{"f.reversed", "f.enumerate", "f.zip", "f.sorted", "f.sorted", "f.any", "f.all", "f.min", "f.max", "f.len", "f.list", "f.tuple"}
	vk.Rapid(t, subBuiltin, vk.N(15000, 120000), func(t *rapid.T) Case {
		f := rapid.SampledFrom(fns).Draw(t, "fn")
		c := Case{Op: f, Via: genVia(t)}
		genHomog := func(label string) V {
			kind := rapid.SampledFrom([]string{"list", "tuple"}).Draw(t, label+"_kind")
			n := rapid.IntRange(0, 12).Draw(t, label+"_n")
			v := V{K: kind, L: []V{}}
			ints := rapid.Bool().Draw(t, label+"_ints")
			for i := 0; i < n; i++ {
				if ints {
					v.L = append(v.L, vInt(int64(rapid.IntRange(-5, 5).Draw(t, label+"_i"))))
				} else {
					v.L = append(v.L, vStr(genText(t, label+"_s", "abB", 3)))
				}
			}
			if n > 0 && rapid.IntRange(0, 11).Draw(t, label+"_mix") == 0 {
				v.L[rapid.IntRange(0, n-1).Draw(t, label+"_mixpos")] = rapid.SampledFrom([]V{vInt(0), vStr("a"), vNone, vList()}).Draw(t, label+"_odd")
			}
			return v
		}
		switch f {
		case "f.sorted", "f.min", "f.max":
			recv := genHomog("recv")
			if rapid.IntRange(0, 9).Draw(t, "rangeRecv") == 0 {
				recv = genIterable(t, 8)
			}
			c.Recv = recv
			if f != "f.sorted" && recv.K == "tuple" && rapid.Bool().Draw(t, "varargs") {
				c.Recv = V{K: "args", L: recv.L}
			}
			if rapid.IntRange(0, 2).Draw(t, "usekey") == 0 {
				allStr, allInt := true, true
				for _, e := range recv.L {
					allStr = allStr && e.K == "str"
					allInt = allInt && e.K == "int"
				}
				name := rapid.SampledFrom([]string{"len", "last", "neg"}).Draw(t, "key")
				if allStr && name == "neg" && rapid.IntRange(0, 9).Draw(t, "keepbadkey") > 0 {
					name = "len"
				}
				if allInt && !allStr && name != "neg" && rapid.IntRange(0, 9).Draw(t, "keepbadkey2") > 0 {
					name = "neg"
				}
				c.Kw = append(c.Kw, fnKw(name))
			}
			if f == "f.sorted" && rapid.Bool().Draw(t, "usereverse") {
				c.Kw = append(c.Kw, KV{Name: "reverse", Val: vBool(rapid.Bool().Draw(t, "reverse"))})
			}
		case "f.zip":
			c.Recv = genIterable(t, 10)
			k := rapid.IntRange(0, 3).Draw(t, "nzip")
			for i := 0; i < k; i++ {
				if rapid.IntRange(0, 3).Draw(t, "zipiter") == 0 {
					c.Args = append(c.Args, genIterable(t, 10))
				} else {
					c.Args = append(c.Args, genHomog("zarg"))
				}
			}
		case "f.enumerate":
			c.Recv = genIterable(t, 20)
			c.Args = []V{genCount(t, "start", 5)}
		case "f.any", "f.all":
			c.Recv = V{K: rapid.SampledFrom([]string{"list", "tuple"}).Draw(t, "kind"), L: []V{}}
			n := rapid.IntRange(0, 8).Draw(t, "n")
			for i := 0; i < n; i++ {
				c.Recv.L = append(c.Recv.L, rapid.SampledFrom([]V{vNone, vFalse, vTrue, vInt(0), vInt(3), vStr(""), vStr("x"), vList(), vList(vInt(0)), vTuple(), vBytes(""), vBytes("x"), vBytes("xy"), vRange(0, 0, 1), vRange(2, 5, 1)}).Draw(t, "e"))
			}
		default:
			c.Recv = genIterable(t, 40)
		}
		return c
	})
}
