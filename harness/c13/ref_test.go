// Reference semantics of the C13 operations, written from doc/spec.md with explicit
// loops over bytes and elements.  No function of package strings, bytes, unicode,
// strconv or sort is used here (the implementation under test is built on those).
package c13

import (
	"math/big"
)

// outcome is what the specification prescribes for one case.
type outcome struct {
	val        V
	fail       bool   // the operation must fail
	after      *V     // contents of the receiver list afterwards (mutating methods); nil: must be unchanged
	alt        *V     // a second acceptable result
	silent     string // non-empty: the specification does not determine the result; only "no crash" is checked
	infeasible bool   // the right answer cannot be materialised (huge repetition): a clean failure is required
}

func ok(v V) outcome            { return outcome{val: v} }
func failure() outcome          { return outcome{fail: true} }
func silent(why string) outcome { return outcome{silent: why} }

// ---------------------------------------------------------------- indexing conventions (spec: "Indexing", "Slice expressions")

// elemIndex: the effective index of an individual element, valid=false when out of range or not an int.
func elemIndex(n int64, i V) (int64, bool) {
	if !i.isInt() {
		return 0, false
	}
	x := i.I
	if x < 0 {
		x += n
	}
	if x < 0 || x >= n {
		return 0, false
	}
	return x, true
}

func clamp(x, lo, hi int64) int64 {
	if x < lo {
		return lo
	}
	if x > hi {
		return hi
	}
	return x
}

// subrange: effective [start, end) of a sub-sequence operation; valid=false when an operand is neither int nor None/omitted.
func subrange(n int64, a, b V) (start, end int64, valid bool) {
	start, end = 0, n
	if a.isInt() {
		x := a.I
		if x < 0 {
			x += n
		}
		start = clamp(x, 0, n)
	} else if !a.isNone() {
		return 0, 0, false
	}
	if b.isInt() {
		x := b.I
		if x < 0 {
			x += n
		}
		end = clamp(x, 0, n)
	} else if !b.isNone() {
		return 0, 0, false
	}
	return start, end, true
}

// sliceIndices: the positions selected by a[start:stop:stride].
func sliceIndices(n int64, a, b, st V) (idx []int64, valid bool) {
	step := int64(1)
	if st.isInt() {
		step = st.I
	} else if !st.isNone() {
		return nil, false
	}
	if step == 0 {
		return nil, false
	}
	for _, o := range []V{a, b} {
		if !o.isInt() && !o.isNone() {
			return nil, false
		}
	}
	if step > 0 {
		start, stop := int64(0), n // -infinity and +infinity, clamped to [0, n]
		if a.isInt() {
			x := a.I
			if x < 0 {
				x += n
			}
			start = clamp(x, 0, n)
		}
		if b.isInt() {
			x := b.I
			if x < 0 {
				x += n
			}
			stop = clamp(x, 0, n)
		}
		for i := start; i < stop; i += step {
			idx = append(idx, i)
			if step > n {
				break
			}
		}
		return idx, true
	}
	start, stop := n-1, int64(-1) // +infinity and -infinity, clamped to [-1, n-1]
	if a.isInt() {
		x := a.I
		if x < 0 {
			x += n
		}
		start = clamp(x, -1, n-1)
	}
	if b.isInt() {
		x := b.I
		if x < 0 {
			x += n
		}
		stop = clamp(x, -1, n-1)
	}
	for i := start; i > stop; i += step {
		idx = append(idx, i)
		if -step > n {
			break
		}
	}
	return idx, true
}

func pick(recv V, idx []int64) V {
	switch recv.K {
	case "str", "bytes":
		b := make([]byte, len(idx))
		for k, i := range idx {
			b[k] = recv.S[i]
		}
		return V{K: recv.K, S: string(b)}
	}
	elems, _ := seqElems(recv)
	out := V{K: recv.K, L: make([]V, len(idx))}
	if recv.K == "range" {
		out.K = "rangeval"
	}
	for k, i := range idx {
		out.L[k] = elems[i]
	}
	return out
}

func refIndex(recv V, i V) outcome {
	n := seqLen(recv)
	x, valid := elemIndex(n, i)
	if !valid {
		return failure()
	}
	switch recv.K {
	case "str":
		return ok(vStr(recv.S[x : x+1]))
	case "bytes":
		// doc/spec.md does not describe bytes; Python yields the int, the implementation a 1-byte bytes value.
		o := ok(vInt(int64(recv.S[x])))
		alt := vBytes(recv.S[x : x+1])
		o.alt = &alt
		return o
	}
	elems, _ := seqElems(recv)
	return ok(elems[x])
}

func refSlice(recv V, a, b, st V) outcome {
	idx, valid := sliceIndices(seqLen(recv), a, b, st)
	if !valid {
		return failure()
	}
	return ok(pick(recv, idx))
}

// ---------------------------------------------------------------- character classes (ASCII)

func isWS(c byte) bool {
	return c == ' ' || c == '\t' || c == '\n' || c == '\v' || c == '\f' || c == '\r'
}
func isUpper(c byte) bool { return 'A' <= c && c <= 'Z' }
func isLower(c byte) bool { return 'a' <= c && c <= 'z' }
func isDigit(c byte) bool { return '0' <= c && c <= '9' }
func isAlpha(c byte) bool { return isUpper(c) || isLower(c) }

func toUpper(c byte) byte {
	if isLower(c) {
		return c - 'a' + 'A'
	}
	return c
}

func toLower(c byte) byte {
	if isUpper(c) {
		return c - 'A' + 'a'
	}
	return c
}

func matchAt(s string, i int, p string) bool {
	if i < 0 || i+len(p) > len(s) {
		return false
	}
	for k := 0; k < len(p); k++ {
		if s[i+k] != p[k] {
			return false
		}
	}
	return true
}

func inSet(c byte, set string) bool {
	for k := 0; k < len(set); k++ {
		if set[k] == c {
			return true
		}
	}
	return false
}

func strList(parts []string) V {
	out := V{K: "list", L: make([]V, len(parts))}
	for i, p := range parts {
		out.L[i] = vStr(p)
	}
	return out
}

func arg(args []V, i int) V {
	if i < len(args) {
		return args[i]
	}
	return vOmit
}

// ---------------------------------------------------------------- string methods

func refFindFamily(op string, s string, args []V) outcome {
	sub := arg(args, 0)
	if sub.K != "str" {
		return failure()
	}
	n := int64(len(s))
	i64, j64, valid := subrange(n, arg(args, 1), arg(args, 2))
	if !valid {
		return failure()
	}
	i, j, m := int(i64), int(j64), len(sub.S)
	if i > j {
		if m == 0 {
			return silent("empty needle in an inverted sub-range")
		}
		j = i // empty designated substring
	}
	switch op {
	case "find", "index":
		for k := i; k+m <= j; k++ {
			if matchAt(s, k, sub.S) {
				return ok(vInt(int64(k)))
			}
		}
	case "rfind", "rindex":
		for k := j - m; k >= i; k-- {
			if matchAt(s, k, sub.S) {
				return ok(vInt(int64(k)))
			}
		}
	case "count":
		if m == 0 {
			return ok(vInt(int64(j - i + 1)))
		}
		cnt := 0
		for k := i; k+m <= j; {
			if matchAt(s, k, sub.S) {
				cnt++
				k += m
			} else {
				k++
			}
		}
		return ok(vInt(int64(cnt)))
	}
	if op == "index" || op == "rindex" {
		return failure()
	}
	return ok(vInt(-1))
}

func refStartsEnds(op string, s string, args []V) outcome {
	x := arg(args, 0)
	var cands []string
	switch x.K {
	case "str":
		cands = []string{x.S}
	case "tuple":
		for _, e := range x.L {
			if e.K != "str" {
				return silent("tuple of prefixes with a non-string element")
			}
			cands = append(cands, e.S)
		}
	default:
		return failure()
	}
	i, j, valid := subrange(int64(len(s)), arg(args, 1), arg(args, 2))
	if !valid {
		return failure()
	}
	if i > j {
		j = i
	}
	t := s[i:j] // "reports whether the string S[start:end] has the specified prefix"
	for _, p := range cands {
		if len(p) > len(t) {
			continue
		}
		if op == "startswith" && matchAt(t, 0, p) || op == "endswith" && matchAt(t, len(t)-len(p), p) {
			return ok(vTrue)
		}
	}
	return ok(vFalse)
}

// splitSep: left-to-right splitting at a non-empty separator, at most max splits when max >= 0.
func splitSep(s, sep string, max int64) []string {
	var res []string
	start, m := 0, len(sep)
	for i := 0; i+m <= len(s); {
		if (max < 0 || int64(len(res)) < max) && matchAt(s, i, sep) {
			res = append(res, s[start:i])
			i += m
			start = i
		} else {
			i++
		}
	}
	return append(res, s[start:])
}

// rsplitSepScan: right-to-left scanning (the Python algorithm).
func rsplitSepScan(s, sep string, max int64) []string {
	var res []string
	end, m := len(s), len(sep)
	for i := len(s) - m; i >= 0; {
		if (max < 0 || int64(len(res)) < max) && matchAt(s, i, sep) {
			res = append(res, s[i+m:end])
			end = i
			i -= m
		} else {
			i--
		}
	}
	res = append(res, s[:end])
	for a, b := 0, len(res)-1; a < b; a, b = a+1, b-1 {
		res[a], res[b] = res[b], res[a]
	}
	return res
}

// rsplitSepMerge: "like S.split, except that [...] rsplit chooses the rightmost splits":
// the split points of split(sep), of which only the last max are used.
func rsplitSepMerge(s, sep string, max int64) []string {
	parts := splitSep(s, sep, -1)
	if max < 0 || int64(len(parts)-1) <= max {
		return parts
	}
	keep := int(max)
	head := parts[0]
	for _, p := range parts[1 : len(parts)-keep] {
		head += sep + p
	}
	return append([]string{head}, parts[len(parts)-keep:]...)
}

func splitWS(s string, max int64) []string {
	res := []string{}
	i, n := 0, len(s)
	for {
		for i < n && isWS(s[i]) {
			i++
		}
		if i == n {
			break
		}
		if max >= 0 && int64(len(res)) == max {
			res = append(res, s[i:])
			break
		}
		j := i
		for j < n && !isWS(s[j]) {
			j++
		}
		res = append(res, s[i:j])
		i = j
	}
	return res
}

func rsplitWS(s string, max int64) []string {
	res := []string{}
	i := len(s)
	for {
		for i > 0 && isWS(s[i-1]) {
			i--
		}
		if i == 0 {
			break
		}
		if max >= 0 && int64(len(res)) == max {
			res = append(res, s[:i])
			break
		}
		j := i
		for j > 0 && !isWS(s[j-1]) {
			j--
		}
		res = append(res, s[j:i])
		i = j
	}
	for a, b := 0, len(res)-1; a < b; a, b = a+1, b-1 {
		res[a], res[b] = res[b], res[a]
	}
	return res
}

func sameStrings(a, b []string) bool {
	if len(a) != len(b) {
		return false
	}
	for i := range a {
		if a[i] != b[i] {
			return false
		}
	}
	return true
}

func refSplit(op string, s string, args []V) outcome {
	sep, mx := arg(args, 0), arg(args, 1)
	max := int64(-1)
	if mx.isInt() {
		max = mx.I
	} else if mx.K != "omit" {
		if mx.K == "none" {
			return silent("maxsplit=None")
		}
		return failure()
	}
	switch sep.K {
	case "omit", "none":
		if op == "split" {
			return ok(strList(splitWS(s, max)))
		}
		return ok(strList(rsplitWS(s, max)))
	case "str":
		if sep.S == "" {
			return failure()
		}
		if op == "split" {
			return ok(strList(splitSep(s, sep.S, max)))
		}
		scan, merge := rsplitSepScan(s, sep.S, max), rsplitSepMerge(s, sep.S, max)
		if !sameStrings(scan, merge) {
			// Self-overlapping separator occurrences: Python scans from the right, the
			// specification says "like S.split" choosing "the rightmost splits".
			return silent("rsplit with overlapping separator occurrences")
		}
		return ok(strList(scan))
	}
	return failure()
}

func refSplitlines(s string, args []V) outcome {
	keep := false
	switch k := arg(args, 0); k.K {
	case "omit":
	case "bool":
		keep = k.B
	default:
		return silent("keepends that is not a bool")
	}
	res := []string{}
	start := 0
	for i := 0; i < len(s); i++ {
		if s[i] == '\n' {
			if keep {
				res = append(res, s[start:i+1])
			} else {
				res = append(res, s[start:i])
			}
			start = i + 1
		}
	}
	if start < len(s) {
		res = append(res, s[start:])
	}
	return ok(strList(res))
}

func refPartition(op string, s string, args []V) outcome {
	x := arg(args, 0)
	if x.K != "str" || x.S == "" {
		return failure()
	}
	m := len(x.S)
	if op == "partition" {
		for i := 0; i+m <= len(s); i++ {
			if matchAt(s, i, x.S) {
				return ok(vTuple(vStr(s[:i]), x, vStr(s[i+m:])))
			}
		}
		return ok(vTuple(vStr(s), vStr(""), vStr("")))
	}
	for i := len(s) - m; i >= 0; i-- {
		if matchAt(s, i, x.S) {
			return ok(vTuple(vStr(s[:i]), x, vStr(s[i+m:])))
		}
	}
	// "like partition, but splits S at the last occurrence": no occurrence -> Python's ("", "", S).
	return ok(vTuple(vStr(""), vStr(""), vStr(s)))
}

func refStrip(op string, s string, args []V) outcome {
	cut := arg(args, 0)
	var drop func(c byte) bool
	switch cut.K {
	case "omit":
		drop = isWS
	case "str":
		drop = func(c byte) bool { return inSet(c, cut.S) }
	case "none":
		return silent("strip(None)")
	default:
		return failure()
	}
	i, j := 0, len(s)
	if op != "rstrip" {
		for i < j && drop(s[i]) {
			i++
		}
	}
	if op != "lstrip" {
		for j > i && drop(s[j-1]) {
			j--
		}
	}
	return ok(vStr(s[i:j]))
}

func refReplace(s string, args []V) outcome {
	old, nw, cnt := arg(args, 0), arg(args, 1), arg(args, 2)
	if old.K != "str" || nw.K != "str" {
		return failure()
	}
	max := int64(-1)
	if cnt.isInt() {
		max = cnt.I
	} else if cnt.K != "omit" {
		if cnt.K == "none" {
			return silent("count=None")
		}
		return failure()
	}
	var out []byte
	done := int64(0)
	if old.S == "" {
		for i := 0; i <= len(s); i++ {
			if max < 0 || done < max {
				out = append(out, nw.S...)
				done++
			}
			if i < len(s) {
				out = append(out, s[i])
			}
		}
		return ok(vStr(string(out)))
	}
	for i := 0; i < len(s); {
		if (max < 0 || done < max) && matchAt(s, i, old.S) {
			out = append(out, nw.S...)
			i += len(old.S)
			done++
		} else {
			out = append(out, s[i])
			i++
		}
	}
	return ok(vStr(string(out)))
}

func refJoin(s string, args []V) outcome {
	elems, iterable := seqElems(arg(args, 0))
	if !iterable {
		return failure()
	}
	out := ""
	for i, e := range elems {
		if e.K != "str" {
			return failure()
		}
		if i > 0 {
			out += s
		}
		out += e.S
	}
	return ok(vStr(out))
}

func refRemovefix(op string, s string, args []V) outcome {
	x := arg(args, 0)
	if x.K != "str" {
		return failure()
	}
	if len(x.S) <= len(s) {
		if op == "removeprefix" && matchAt(s, 0, x.S) {
			return ok(vStr(s[len(x.S):]))
		}
		if op == "removesuffix" && matchAt(s, len(s)-len(x.S), x.S) {
			return ok(vStr(s[:len(s)-len(x.S)]))
		}
	}
	return ok(vStr(s))
}

func refCase(op string, s string) outcome {
	b := []byte(s)
	switch op {
	case "lower":
		for i := range b {
			b[i] = toLower(b[i])
		}
	case "upper":
		for i := range b {
			b[i] = toUpper(b[i])
		}
	case "capitalize":
		for i := range b {
			if i == 0 {
				b[i] = toUpper(b[i])
			} else {
				b[i] = toLower(b[i])
			}
		}
	case "title":
		prevCased := false
		for i := range b {
			if isAlpha(b[i]) {
				if prevCased {
					b[i] = toLower(b[i])
				} else {
					b[i] = toUpper(b[i])
				}
				prevCased = true
			} else {
				prevCased = false
			}
		}
	}
	return ok(vStr(string(b)))
}

func refPredicate(op string, s string) outcome {
	all := func(f func(byte) bool) outcome {
		for i := 0; i < len(s); i++ {
			if !f(s[i]) {
				return ok(vFalse)
			}
		}
		return ok(vBool(len(s) > 0))
	}
	switch op {
	case "isalnum":
		return all(func(c byte) bool { return isAlpha(c) || isDigit(c) })
	case "isalpha":
		return all(isAlpha)
	case "isdigit":
		return all(isDigit)
	case "isspace":
		return all(isWS)
	case "islower", "isupper":
		cased := false
		for i := 0; i < len(s); i++ {
			if isAlpha(s[i]) {
				cased = true
				if op == "islower" && isUpper(s[i]) || op == "isupper" && isLower(s[i]) {
					return ok(vFalse)
				}
			}
		}
		return ok(vBool(cased))
	case "istitle":
		cased, prevCased := false, false
		for i := 0; i < len(s); i++ {
			switch {
			case isUpper(s[i]):
				if prevCased {
					return ok(vFalse)
				}
				prevCased, cased = true, true
			case isLower(s[i]):
				if !prevCased {
					return ok(vFalse)
				}
				prevCased, cased = true, true
			default:
				prevCased = false
			}
		}
		return ok(vBool(cased))
	}
	panic("unknown predicate " + op)
}

// decodeUTF8 decodes valid UTF-8 (the generators produce nothing else).
func decodeUTF8(s string) (cps []int64, subs []string) {
	for i := 0; i < len(s); {
		c := s[i]
		n, cp := 1, int64(c)
		switch {
		case c >= 0xf0:
			n, cp = 4, int64(c&0x07)
		case c >= 0xe0:
			n, cp = 3, int64(c&0x0f)
		case c >= 0xc0:
			n, cp = 2, int64(c&0x1f)
		}
		for k := 1; k < n; k++ {
			cp = cp<<6 | int64(s[i+k]&0x3f)
		}
		cps = append(cps, cp)
		subs = append(subs, s[i:i+n])
		i += n
	}
	return
}

func encodeUTF8(cp int64) string {
	switch {
	case cp < 0x80:
		return string([]byte{byte(cp)})
	case cp < 0x800:
		return string([]byte{byte(0xc0 | cp>>6), byte(0x80 | cp&0x3f)})
	case cp < 0x10000:
		return string([]byte{byte(0xe0 | cp>>12), byte(0x80 | cp>>6&0x3f), byte(0x80 | cp&0x3f)})
	}
	return string([]byte{byte(0xf0 | cp>>18), byte(0x80 | cp>>12&0x3f), byte(0x80 | cp>>6&0x3f), byte(0x80 | cp&0x3f)})
}

func refIterable(op string, recv V) outcome {
	s := recv.S
	out := V{K: "list", L: []V{}}
	if recv.K == "bytes" {
		if op != "elems" {
			return silent("bytes has only elems")
		}
		for i := 0; i < len(s); i++ {
			out.L = append(out.L, vInt(int64(s[i])))
		}
		return ok(out)
	}
	switch op {
	case "elems":
		for i := 0; i < len(s); i++ {
			out.L = append(out.L, vStr(s[i:i+1]))
		}
	case "elem_ords":
		for i := 0; i < len(s); i++ {
			out.L = append(out.L, vInt(int64(s[i])))
		}
	case "codepoints":
		_, subs := decodeUTF8(s)
		for _, x := range subs {
			out.L = append(out.L, vStr(x))
		}
	case "codepoint_ords":
		cps, _ := decodeUTF8(s)
		for _, x := range cps {
			out.L = append(out.L, vInt(x))
		}
	}
	return ok(out)
}

// ---------------------------------------------------------------- str.format

func lookupKw(kw []KV, name string) (V, bool) {
	for _, kv := range kw {
		if kv.Name == name {
			return kv.Val, true
		}
	}
	return V{}, false
}

func allDigits(s string) bool {
	if s == "" {
		return false
	}
	for i := 0; i < len(s); i++ {
		if !isDigit(s[i]) {
			return false
		}
	}
	return true
}

func refFormat(f string, args []V, kw []KV) outcome {
	out := ""
	auto, manual := false, false
	next := 0
	for i := 0; i < len(f); {
		c := f[i]
		if c == '}' {
			if i+1 < len(f) && f[i+1] == '}' {
				out += "}"
				i += 2
				continue
			}
			return failure() // lone '}'
		}
		if c != '{' {
			out += f[i : i+1]
			i++
			continue
		}
		if i+1 < len(f) && f[i+1] == '{' {
			out += "{"
			i += 2
			continue
		}
		j := i + 1
		for j < len(f) && f[j] != '}' {
			j++
		}
		if j == len(f) {
			return failure() // unmatched '{'
		}
		field := f[i+1 : j]
		i = j + 1
		// field = name [ '!' conv ] [ ':' spec ]
		name, conv, spec := field, "s", ""
		p := 0
		for p < len(field) && field[p] != '!' && field[p] != ':' {
			p++
		}
		name = field[:p]
		rest := field[p:]
		if rest != "" && rest[0] == '!' {
			q := 1
			for q < len(rest) && rest[q] != ':' {
				q++
			}
			conv = rest[1:q]
			rest = rest[q:]
		}
		if rest != "" && rest[0] == ':' {
			spec = rest[1:]
		}
		var a V
		switch {
		case name == "":
			if manual {
				return failure()
			}
			auto = true
			if next >= len(args) {
				return failure()
			}
			a = args[next]
			next++
		case allDigits(name):
			if auto {
				return failure()
			}
			manual = true
			idx := 0
			for k := 0; k < len(name); k++ {
				idx = idx*10 + int(name[k]-'0')
				if idx > 1<<20 {
					break
				}
			}
			if idx >= len(args) {
				return failure()
			}
			a = args[idx]
		default:
			v, found := lookupKw(kw, name)
			if !found {
				return failure()
			}
			a = v
		}
		if spec != "" {
			return failure() // "Currently it must be empty"
		}
		switch conv {
		case "s":
			out += str(a)
		case "r":
			out += repr(a)
		default:
			return failure()
		}
	}
	return ok(vStr(out))
}

// ---------------------------------------------------------------- % interpolation

var (
	bigTen = big.NewInt(10)
	bigTwo = big.NewInt(2)
)

func pow10(n int) *big.Int { return new(big.Int).Exp(bigTen, big.NewInt(int64(n)), nil) }

// roundDiv returns num/den rounded half to even (den > 0, num >= 0).
func roundDiv(num, den *big.Int) *big.Int {
	q, r := new(big.Int).QuoRem(num, den, new(big.Int))
	r.Mul(r, bigTwo)
	switch r.Cmp(den) {
	case 1:
		q.Add(q, big.NewInt(1))
	case 0:
		if q.Bit(0) == 1 {
			q.Add(q, big.NewInt(1))
		}
	}
	return q
}

// fmtFixed is %f with 6 digits, computed exactly from the binary value.
func fmtFixed(f float64) string {
	num, shift := dyadic(f)
	neg := num.Sign() < 0
	num.Abs(num)
	den := new(big.Int).Lsh(big.NewInt(1), shift)
	q := roundDiv(new(big.Int).Mul(num, pow10(6)), den)
	d := q.String()
	for len(d) < 7 {
		d = "0" + d
	}
	return signed(neg, d[:len(d)-6]+"."+d[len(d)-6:])
}

// fmtExp is %e with 6 digits.
func fmtExp(f float64, upper bool) string {
	e := "e"
	if upper {
		e = "E"
	}
	num, shift := dyadic(f)
	if num.Sign() == 0 {
		return "0.000000" + e + "+00"
	}
	neg := num.Sign() < 0
	num.Abs(num)
	den := new(big.Int).Lsh(big.NewInt(1), shift)
	// exp10 with 10^exp10 <= num/den < 10^(exp10+1)
	exp10 := 0
	for new(big.Int).Mul(den, pow10abs(exp10+1, true)).Cmp(new(big.Int).Mul(num, pow10abs(exp10+1, false))) <= 0 {
		exp10++
	}
	for new(big.Int).Mul(den, pow10abs(exp10, true)).Cmp(new(big.Int).Mul(num, pow10abs(exp10, false))) > 0 {
		exp10--
	}
	mant := func(x int) *big.Int { // round(value / 10^(x-6))
		n, d := new(big.Int).Set(num), new(big.Int).Set(den)
		if x-6 >= 0 {
			d.Mul(d, pow10(x-6))
		} else {
			n.Mul(n, pow10(6-x))
		}
		return roundDiv(n, d)
	}
	m := mant(exp10)
	if m.Cmp(pow10(7)) >= 0 {
		exp10++
		m = mant(exp10)
	}
	d := m.String()
	es := "+"
	x := exp10
	if x < 0 {
		es, x = "-", -x
	}
	xs := itoa(int64(x))
	if len(xs) < 2 {
		xs = "0" + xs
	}
	return signed(neg, d[:1]+"."+d[1:]+e+es+xs)
}

// pow10abs(x, pos) is 10^x when x has the sign selected by pos (x>=0 for pos, x<0 for !pos), else 1:
// it lets "den*10^x <= num" be written for either sign of x without fractions.
func pow10abs(x int, pos bool) *big.Int {
	if pos && x > 0 {
		return pow10(x)
	}
	if !pos && x < 0 {
		return pow10(-x)
	}
	return big.NewInt(1)
}

// parseDecimal reads [-+]digits[.digits][(e|E)[-+]digits] as an exact rational.
func parseDecimal(s string) (*big.Rat, bool) {
	i, neg := 0, false
	if i < len(s) && (s[i] == '-' || s[i] == '+') {
		neg = s[i] == '-'
		i++
	}
	mant := new(big.Int)
	nd, frac := 0, 0
	for i < len(s) && isDigit(s[i]) {
		mant.Mul(mant, bigTen).Add(mant, big.NewInt(int64(s[i]-'0')))
		i++
		nd++
	}
	if i < len(s) && s[i] == '.' {
		i++
		for i < len(s) && isDigit(s[i]) {
			mant.Mul(mant, bigTen).Add(mant, big.NewInt(int64(s[i]-'0')))
			i++
			nd++
			frac++
		}
	}
	if nd == 0 {
		return nil, false
	}
	exp := 0
	if i < len(s) && (s[i] == 'e' || s[i] == 'E') {
		i++
		eneg := false
		if i < len(s) && (s[i] == '-' || s[i] == '+') {
			eneg = s[i] == '-'
			i++
		}
		ed := 0
		for i < len(s) && isDigit(s[i]) && ed < 6 {
			exp = exp*10 + int(s[i]-'0')
			i++
			ed++
		}
		if ed == 0 {
			return nil, false
		}
		if eneg {
			exp = -exp
		}
	}
	if i != len(s) {
		return nil, false
	}
	exp -= frac
	r := new(big.Rat).SetInt(mant)
	if exp >= 0 {
		r.Mul(r, new(big.Rat).SetInt(pow10(exp)))
	} else {
		r.Quo(r, new(big.Rat).SetInt(pow10(-exp)))
	}
	if neg {
		r.Neg(r)
	}
	return r, true
}

// sigDigits counts the significant decimal digits of the exact value of f.
func sigDigits(f float64) int {
	lit := floatLit(f)
	var d []byte
	for i := 0; i < len(lit); i++ {
		if isDigit(lit[i]) {
			d = append(d, lit[i])
		}
	}
	for len(d) > 0 && d[0] == '0' {
		d = d[1:]
	}
	for len(d) > 0 && d[len(d)-1] == '0' {
		d = d[:len(d)-1]
	}
	return len(d)
}

// percentFLiteral makes refInterp describe the known wrong behaviour "%F is copied to the output"
// instead of the specified one; it is set only while classifying a mismatch.
var percentFLiteral bool

type piece struct {
	lit    string // literal text, or
	conv   byte   // conversion letter
	key    string
	keyed  bool
	approx *big.Rat // %g: the piece must read back as this number
}

// refInterp returns the expected pieces; %g pieces are numeric (see interpMatches).
func containsFloat(v V) bool {
	if v.K == "float" {
		return true
	}
	for _, e := range v.L {
		if containsFloat(e) {
			return true
		}
	}
	return false
}

// A %s or %r of a float is not checked (the specification does not fix the digits of str(float)),
// nor is %g of a value with more than 6 significant digits (Python rounds to 6, the implementation
// prints the shortest round-tripping text; the specification says neither).
type silentInterp string

const (
	silentFloatText    = silentInterp("str/repr of a float")
	silentGDigits      = silentInterp("%g of a value with more than 6 significant digits")
	silentSurrogate    = silentInterp("%c of a surrogate code point")
	silentKeyedPercent = silentInterp("%(key)% conversion")
)

func refInterp(f string, x V) (pieces []piece, fail bool) {
	defer func() {
		if r := recover(); r != nil {
			if why, isSilent := r.(silentInterp); isSilent {
				pieces, fail = []piece{{conv: '?', lit: string(why)}}, false
				return
			}
			panic(r)
		}
	}()
	return refInterp1(f, x)
}

func refInterp1(f string, x V) (pieces []piece, fail bool) {
	lit := ""
	flush := func() {
		if lit != "" {
			pieces = append(pieces, piece{lit: lit})
			lit = ""
		}
	}
	index, nargs := 0, 1
	if x.K == "tuple" {
		nargs = len(x.L)
	}
	for i := 0; i < len(f); {
		if f[i] != '%' {
			lit += f[i : i+1]
			i++
			continue
		}
		i++
		if i < len(f) && f[i] == '%' {
			lit += "%"
			i++
			continue
		}
		var a V
		if i < len(f) && f[i] == '(' {
			j := i + 1
			for j < len(f) && f[j] != ')' {
				j++
			}
			if j == len(f) || x.K != "dict" {
				return nil, true
			}
			key := f[i+1 : j]
			found := false
			for k := 0; k+1 < len(x.L); k += 2 {
				if x.L[k].K == "str" && x.L[k].S == key {
					a, found = x.L[k+1], true
				}
			}
			if !found {
				return nil, true
			}
			i = j + 1
		} else {
			if index >= nargs {
				return nil, true // not enough arguments
			}
			if x.K == "tuple" {
				a = x.L[index]
			} else {
				a = x
			}
		}
		if i == len(f) {
			return nil, true // incomplete format
		}
		c := f[i]
		i++
		index++
		if c == '%' {
			panic(silentKeyedPercent) // "%(key)%": only reachable after a key, since "%%" was handled above
		}
		switch c {
		case 's', 'r':
			if containsFloat(a) {
				panic(silentFloatText)
			}
			if c == 's' {
				lit += str(a)
			} else {
				lit += repr(a)
			}
		case 'd', 'i', 'o', 'x', 'X':
			var n int64
			switch a.K {
			case "int":
				n = a.I
			case "float":
				// truncation towards zero (Appendix C); only small finite values are generated
				n = int64(a.F)
			default:
				return nil, true
			}
			neg := n < 0
			var u uint64
			if neg {
				u = uint64(-(n + 1)) + 1
			} else {
				u = uint64(n)
			}
			switch c {
			case 'd', 'i':
				lit += signed(neg, utoa(u, 10, false))
			case 'o':
				lit += signed(neg, utoa(u, 8, false))
			case 'x':
				lit += signed(neg, utoa(u, 16, false))
			case 'X':
				lit += signed(neg, utoa(u, 16, true))
			}
		case 'e', 'E', 'f', 'F', 'g', 'G':
			var fv float64
			switch a.K {
			case "int":
				fv = float64(a.I)
			case "float":
				fv = a.F
			default:
				return nil, true
			}
			switch c {
			case 'e', 'E':
				lit += fmtExp(fv, c == 'E')
			case 'f', 'F':
				if c == 'F' && percentFLiteral {
					lit += "%F" // the behaviour of known finding C13-percent-F, see checkCase
				} else {
					lit += fmtFixed(fv)
				}
			default:
				if sigDigits(fv) > 6 {
					panic(silentGDigits)
				}
				flush()
				r := new(big.Rat)
				r.SetFloat64(fv)
				pieces = append(pieces, piece{conv: c, approx: r})
			}
		case 'c':
			switch a.K {
			case "int":
				if a.I < 0 || a.I > 0x10FFFF {
					return nil, true
				}
				if 0xD800 <= a.I && a.I <= 0xDFFF {
					panic(silentSurrogate)
				}
				lit += encodeUTF8(a.I)
			case "str":
				cps, _ := decodeUTF8(a.S)
				if len(cps) != 1 {
					return nil, true
				}
				lit += a.S
			default:
				return nil, true
			}
		default:
			return nil, true // unknown conversion
		}
	}
	flush()
	if index < nargs && x.K != "dict" {
		return nil, true // too many arguments
	}
	return pieces, false
}

// interpMatches compares an implementation result with the expected pieces.
func interpMatches(got string, pieces []piece) bool {
	if len(pieces) == 0 {
		return got == ""
	}
	p := pieces[0]
	if p.approx == nil {
		if len(got) < len(p.lit) || got[:len(p.lit)] != p.lit {
			return false
		}
		return interpMatches(got[len(p.lit):], pieces[1:])
	}
	// numeric piece: the longest run of number characters (the generators never put such characters right after %g)
	j := 0
	for j < len(got) && (isDigit(got[j]) || got[j] == '.' || got[j] == '-' || got[j] == '+' || got[j] == 'e' || got[j] == 'E') {
		j++
	}
	r, okp := parseDecimal(got[:j])
	if !okp || r.Cmp(p.approx) != 0 {
		return false
	}
	return interpMatches(got[j:], pieces[1:])
}

// ---------------------------------------------------------------- lists, operators, built-in functions

func indexOf(elems []V, x V, from, to int) int {
	for i := from; i < to && i < len(elems); i++ {
		if eqV(elems[i], x) {
			return i
		}
	}
	return -1
}

func refListMethod(op string, recv V, args []V) outcome {
	elems := recv.L
	n := int64(len(elems))
	mk := func(l []V) *V { v := V{K: "list", L: l}; return &v }
	switch op {
	case "index":
		if len(args) == 0 {
			return failure()
		}
		i, j, valid := subrange(n, arg(args, 1), arg(args, 2))
		if !valid {
			return failure()
		}
		if k := indexOf(elems, args[0], int(i), int(j)); k >= 0 {
			return ok(vInt(int64(k)))
		}
		return failure()
	case "insert":
		i := arg(args, 0)
		if !i.isInt() || len(args) != 2 {
			return failure()
		}
		x := i.I
		if x < 0 {
			x += n
		}
		x = clamp(x, 0, n)
		l := append(append(append([]V{}, elems[:x]...), args[1]), elems[x:]...)
		o := ok(vNone)
		o.after = mk(l)
		return o
	case "pop":
		i := arg(args, 0)
		if i.K == "omit" {
			i = vInt(n - 1)
			if n == 0 {
				return failure()
			}
		}
		x, valid := elemIndex(n, i)
		if !valid {
			return failure()
		}
		o := ok(elems[x])
		o.after = mk(append(append([]V{}, elems[:x]...), elems[x+1:]...))
		return o
	case "remove":
		if len(args) != 1 {
			return failure()
		}
		k := indexOf(elems, args[0], 0, len(elems))
		if k < 0 {
			return failure()
		}
		o := ok(vNone)
		o.after = mk(append(append([]V{}, elems[:k]...), elems[k+1:]...))
		return o
	case "extend":
		more, iterable := seqElems(arg(args, 0))
		if !iterable {
			return failure()
		}
		o := ok(vNone)
		o.after = mk(append(append([]V{}, elems...), more...))
		return o
	case "append":
		if len(args) != 1 {
			return failure()
		}
		o := ok(vNone)
		o.after = mk(append(append([]V{}, elems...), args[0]))
		return o
	case "clear":
		o := ok(vNone)
		o.after = mk([]V{})
		return o
	}
	panic("unknown list method " + op)
}

const maxMaterialise = 1 << 16

func refBinary(op string, recv V, x V) outcome {
	switch op {
	case "add", "iadd":
		if recv.K == "bytes" && x.K == "bytes" {
			return silent("bytes + bytes (doc/spec.md lists concatenation for string, list and tuple only)")
		}
		if recv.K != x.K {
			if op == "iadd" && recv.K == "list" {
				if more, iterable := seqElems(x); iterable { // list += iterable extends in place
					v := V{K: "list", L: append(append([]V{}, recv.L...), more...)}
					o := ok(v)
					o.after = &v
					return o
				}
			}
			return failure()
		}
		switch recv.K {
		case "str", "bytes":
			return ok(V{K: recv.K, S: recv.S + x.S})
		case "list", "tuple":
			v := V{K: recv.K, L: append(append([]V{}, recv.L...), x.L...)}
			o := ok(v)
			if op == "iadd" && recv.K == "list" {
				o.after = &v
			}
			return o
		}
		return failure()
	case "mul", "rmul":
		if !x.isInt() {
			return failure()
		}
		n := seqLen(recv)
		cnt := x.I
		if cnt < 0 {
			cnt = 0 // "Negative values of n behave like zero."
		}
		if n > 0 && cnt > maxMaterialise {
			return outcome{infeasible: true}
		}
		switch recv.K {
		case "str", "bytes":
			out := ""
			for k := int64(0); k < cnt && n > 0; k++ {
				out += recv.S
			}
			return ok(V{K: recv.K, S: out})
		case "list", "tuple":
			out := []V{}
			for k := int64(0); k < cnt && n > 0; k++ {
				out = append(out, recv.L...)
			}
			return ok(V{K: recv.K, L: out})
		}
		return failure()
	case "in", "notin":
		var member bool
		switch recv.K {
		case "list", "tuple":
			member = indexOf(recv.L, x, 0, len(recv.L)) >= 0
		case "str":
			if x.K != "str" {
				return failure()
			}
			for i := 0; i+len(x.S) <= len(recv.S) && !member; i++ {
				member = matchAt(recv.S, i, x.S)
			}
		case "bytes":
			switch x.K {
			case "bytes":
				for i := 0; i+len(x.S) <= len(recv.S) && !member; i++ {
					member = matchAt(recv.S, i, x.S)
				}
			case "int":
				if x.I < 0 || x.I > 255 {
					return silent("int outside 0..255 in bytes")
				}
				member = inSet(byte(x.I), recv.S)
			default:
				return silent("in bytes with another operand type")
			}
		case "range":
			if x.K != "int" {
				if x.K == "float" {
					return silent("float in range (C10)")
				}
				return failure() // "the operation fails unless x is a number"
			}
			elems, _ := seqElems(recv)
			member = indexOf(elems, x, 0, len(elems)) >= 0
		default:
			return failure()
		}
		return ok(vBool(member == (op == "in")))
	}
	panic("unknown operator " + op)
}

func applyKey(key string, v V) (V, bool) {
	switch key {
	case "":
		return v, true
	case "len":
		switch v.K {
		case "str", "bytes", "list", "tuple", "range":
			return vInt(seqLen(v)), true
		}
		return V{}, false
	case "last": // def last(x): return x[-1:]
		switch v.K {
		case "str", "bytes":
			if len(v.S) == 0 {
				return v, true
			}
			return V{K: v.K, S: v.S[len(v.S)-1:]}, true
		case "list", "tuple":
			if len(v.L) == 0 {
				return v, true
			}
			return V{K: v.K, L: v.L[len(v.L)-1:]}, true
		}
		return V{}, false
	case "neg": // def neg(x): return -x
		if v.K == "int" {
			return vInt(-v.I), true
		}
		return V{}, false
	}
	panic("unknown key function " + key)
}

func kwKey(kw []KV) (key string, reverse bool, valid bool) {
	valid = true
	for _, kv := range kw {
		switch kv.Name {
		case "key":
			switch kv.Val.K {
			case "fn":
				key = kv.Val.S
			default:
				valid = false
			}
		case "reverse":
			if kv.Val.K == "bool" {
				reverse = kv.Val.B
			} else {
				valid = false
			}
		default:
			valid = false
		}
	}
	return
}

func refBuiltin(op string, recv V, args []V, kw []KV) outcome {
	switch op {
	case "reversed":
		elems, iterable := seqElems(recv)
		if !iterable {
			return failure()
		}
		out := V{K: "list", L: make([]V, len(elems))}
		for i, e := range elems {
			out.L[len(elems)-1-i] = e
		}
		return ok(out)
	case "enumerate":
		elems, iterable := seqElems(recv)
		if !iterable {
			return failure()
		}
		start := int64(0)
		if s := arg(args, 0); s.isInt() {
			start = s.I
		} else if s.K != "omit" {
			return failure()
		}
		out := V{K: "list", L: make([]V, len(elems))}
		for i, e := range elems {
			out.L[i] = vTuple(vInt(start+int64(i)), e)
		}
		return ok(out)
	case "zip":
		all := append([]V{recv}, args...)
		if recv.K == "omit" {
			all = nil
		}
		var cols [][]V
		rows := -1
		for _, a := range all {
			elems, iterable := seqElems(a)
			if !iterable {
				return failure()
			}
			cols = append(cols, elems)
			if rows < 0 || len(elems) < rows {
				rows = len(elems)
			}
		}
		out := V{K: "list", L: []V{}}
		for r := 0; r < rows; r++ {
			t := V{K: "tuple", L: make([]V, len(cols))}
			for c := range cols {
				t.L[c] = cols[c][r]
			}
			out.L = append(out.L, t)
		}
		return ok(out)
	case "any", "all":
		elems, iterable := seqElems(recv)
		if !iterable {
			return failure()
		}
		res := op == "all"
		for _, e := range elems {
			if op == "any" && truth(e) {
				res = true
			}
			if op == "all" && !truth(e) {
				res = false
			}
		}
		return ok(vBool(res))
	case "len":
		switch recv.K {
		case "str", "bytes", "list", "tuple", "range":
			return ok(vInt(seqLen(recv)))
		case "iter":
			return silent("len of a string iterable")
		}
		return failure()
	case "list", "tuple":
		elems, iterable := seqElems(recv)
		if !iterable {
			return failure()
		}
		return ok(V{K: op, L: append([]V{}, elems...)})
	case "sorted":
		elems, iterable := seqElems(recv)
		if !iterable {
			return failure()
		}
		key, reverse, valid := kwKey(kw)
		if !valid {
			return failure()
		}
		keys := make([]V, len(elems))
		for i, e := range elems {
			k, applies := applyKey(key, e)
			if !applies {
				return failure()
			}
			keys[i] = k
		}
		// stable insertion sort; an unordered pair met on the way is a failure
		order := make([]int, 0, len(elems))
		for i := range elems {
			pos := len(order)
			for pos > 0 {
				c, comparable := cmpV(keys[i], keys[order[pos-1]])
				if !comparable {
					return failure()
				}
				if !reverse && c < 0 || reverse && c > 0 {
					pos--
				} else {
					break
				}
			}
			order = append(order, 0)
			copy(order[pos+1:], order[pos:])
			order[pos] = i
		}
		// every pair of distinct kinds is unordered, wherever it sits
		for i := 1; i < len(keys); i++ {
			if _, comparable := cmpV(keys[0], keys[i]); !comparable {
				return failure()
			}
		}
		out := V{K: "list", L: make([]V, len(elems))}
		for i, o := range order {
			out.L[i] = elems[o]
		}
		return ok(out)
	case "min", "max":
		var elems []V
		if recv.K == "args" {
			switch len(recv.L) {
			case 0:
				return failure()
			case 1:
				e, iterable := seqElems(recv.L[0])
				if !iterable {
					return failure()
				}
				elems = e
			default:
				elems = recv.L
			}
		} else {
			e, iterable := seqElems(recv)
			if !iterable {
				return failure()
			}
			elems = e
		}
		key, _, valid := kwKey(kw)
		if !valid {
			return failure()
		}
		if len(elems) == 0 {
			return failure()
		}
		best := 0
		bestKey, applies := applyKey(key, elems[0])
		if !applies {
			return failure()
		}
		for i := 1; i < len(elems); i++ {
			k, applies := applyKey(key, elems[i])
			if !applies {
				return failure()
			}
			c, comparable := cmpV(k, bestKey)
			if !comparable {
				return failure()
			}
			if op == "min" && c < 0 || op == "max" && c > 0 {
				best, bestKey = i, k
			}
		}
		return ok(elems[best])
	}
	panic("unknown built-in " + op)
}
