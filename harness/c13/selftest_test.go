// Self-test of the reference implementations against CPython on the subset Starlark shares
// with Python 3 (DESIGN.md section 3.2 / Appendix C).  Development aid only: it runs when
// C13_PYTHON=1 is set, is not matched by the driver's ^TestProp pattern, and no verdict of
// the check depends on python3.
//
//	cd /verif/harness && C13_PYTHON=1 go test -tags verif -count=1 -run TestOracleSelfPython ./c13 -v
//
// The cases are the ones the real generators produce (collected through the collector hook of
// checkCase, sampled), so the self-test follows the generators automatically.
package c13

import (
	"bufio"
	"encoding/json"
	"fmt"
	"os"
	"os/exec"
	"path/filepath"
	"strconv"
	"testing"
)

type pyLine struct {
	Case   Case   `json:"case"`
	Fail   bool   `json:"fail"`
	Silent string `json:"silent,omitempty"`
	Skip   bool   `json:"skip,omitempty"` // infeasible or % with numeric pieces
	Val    V      `json:"val"`
	Alt    *V     `json:"alt,omitempty"`
	After  *V     `json:"after,omitempty"`
	Text   string `json:"text,omitempty"` // expected text of a % case
}

func TestOracleSelfPython(t *testing.T) {
	if os.Getenv("C13_PYTHON") == "" {
		t.Skip("set C13_PYTHON=1 to cross-check the reference implementations against python3")
	}
	stride := 23
	if s := os.Getenv("C13_PYTHON_STRIDE"); s != "" {
		stride, _ = strconv.Atoi(s)
	}
	dir := t.TempDir()
	in := filepath.Join(dir, "cases.jsonl")
	f, err := os.Create(in)
	if err != nil {
		t.Fatal(err)
	}
	w := bufio.NewWriterSize(f, 1<<20)
	enc := json.NewEncoder(w)
	n, written := 0, 0
	every := stride
	collector = func(c Case) {
		n++
		if n%every != 0 {
			return
		}
		wn := reference(c)
		l := pyLine{Case: c, Fail: wn.fail, Silent: wn.silent, Skip: wn.infeasible, Val: wn.val, Alt: wn.alt, After: wn.after}
		if wn.isMod && !wn.fail && wn.silent == "" {
			for _, p := range wn.pieces {
				if p.approx != nil {
					l.Skip = true
				}
				l.Text += p.lit
			}
			l.Val = vStr(l.Text)
		}
		if err := enc.Encode(l); err != nil {
			t.Fatal(err)
		}
		written++
	}
	defer func() { collector = nil }()
	for _, fn := range []func(*testing.T){TestPropIndexExhaustive, TestPropSliceExhaustive, TestPropSliceRangeExhaustive,
		TestPropSearchExhaustive, TestPropSplitExhaustive, TestPropCaseExhaustive, TestPropListExhaustive, TestPropBinopExhaustive,
		TestPropBuiltinExhaustive} {
		fn(t)
	}
	every = 1 // every random case
	for _, fn := range []func(*testing.T){TestPropSliceRandom, TestPropSearchRandom, TestPropSplitRandom, TestPropCaseRandom,
		TestPropFormatRandom, TestPropInterpRandom, TestPropListRandom, TestPropBinopRandom, TestPropBuiltinRandom} {
		fn(t)
	}
	collector = nil
	w.Flush()
	f.Close()
	script := filepath.Join(dir, "check.py")
	if err := os.WriteFile(script, []byte(pyScript), 0o644); err != nil {
		t.Fatal(err)
	}
	out, err := exec.Command("python3", script, in).CombinedOutput()
	fmt.Printf("python self-test: %d cases generated, %d sent to python3\n%s", n, written, out)
	if err != nil {
		t.Fatalf("python3 reported mismatches or failed: %v", err)
	}
}

const pyScript = `
import json, sys

OMIT = object()

def conv(v):
    k = v["k"]
    if k == "omit": return OMIT
    if k == "none": return None
    if k == "bool": return bool(v.get("b", False))
    if k == "int": return v.get("i", 0)
    if k == "big": return int(v["s"])
    if k == "float": return float(v.get("f", 0.0))
    if k == "str": return v.get("s", "")
    if k == "bytes": return v.get("s", "").encode("latin-1")
    if k == "list": return [conv(e) for e in v.get("l", [])]
    if k in ("tuple", "args"): return tuple(conv(e) for e in v.get("l", []))
    if k == "rangeval": return ("rangeval", [conv(e) for e in v.get("l", [])])
    if k == "range":
        a, b, c = [conv(e) for e in v["l"]]
        return range(a, b, c)
    if k == "dict":
        l = v.get("l", [])
        return {conv(l[i]): conv(l[i + 1]) for i in range(0, len(l), 2)}
    if k == "iter":
        t = conv(v["l"][0])
        m = v["s"]
        if m == "elem_ords": return list(t.encode("utf-8"))
        if m == "codepoints": return list(t)
        if m == "codepoint_ords": return [ord(ch) for ch in t]
        if any(ord(ch) >= 128 for ch in t): raise Skip()
        return list(t)
    if k == "fn":
        return {"len": len, "last": (lambda x: x[-1:]), "neg": (lambda x: -x)}[v["s"]]
    raise Exception("conv " + k)

def same(a, b):
    if type(a) != type(b): return False
    if isinstance(a, (list, tuple)):
        return len(a) == len(b) and all(same(x, y) for x, y in zip(a, b))
    return a == b

class Skip(Exception): pass

def has_text(x):
    if isinstance(x, (str, bytes)): return True
    if isinstance(x, (list, tuple)): return any(has_text(e) for e in x)
    if isinstance(x, dict): return any(has_text(k) or has_text(v) for k, v in x.items())
    return False

def has_kind(x, kinds):
    if isinstance(x, kinds): return True
    if isinstance(x, (list, tuple)): return any(has_kind(e, kinds) for e in x)
    if isinstance(x, dict): return any(has_kind(v, kinds) for v in x.values())
    return False

def eff(n, a, b):
    s = 0 if a in (None, OMIT) else a
    e = n if b in (None, OMIT) else b
    if s < 0: s += n
    if e < 0: e += n
    return s, e

def trim(args):
    out = []
    for a in args:
        if a is OMIT: break
        out.append(a)
    return out

def run(c):
    op = c["op"]
    recv = conv(c["recv"])
    args = [conv(a) for a in c.get("args", [])]
    kw = {kv["name"]: conv(kv["val"]) for kv in c.get("kw", [])}
    if op == "index":
        r = recv[args[0]]
        if isinstance(recv, range): return r
        return r
    if op == "slice":
        a, b, st = [None if x is OMIT else x for x in args]
        r = recv[a:b:st]
        if isinstance(recv, range): return ("rangeval", list(r))
        return r
    if op.startswith("m."):
        m = op[2:]
        a = trim(args)
        if isinstance(recv, list):
            x = list(recv)
            if m == "index":
                if len(a) > 1 and a[1] is None: a[1] = 0
                if len(a) > 2 and a[2] is None: a[2] = sys.maxsize
                if any(isinstance(v, str) for v in a[1:]): raise TypeError()
                return x.index(*a)
            if m == "extend" and isinstance(a[0], (str, bytes)): raise Skip()
            r = getattr(x, m)(*a)
            return r, x
        if m in ("find", "rfind", "index", "rindex", "count", "startswith", "endswith"):
            needles = a[0] if isinstance(a[0], tuple) else (a[0],)
            if any(isinstance(v, str) for v in a[1:]): raise TypeError()
            if any(isinstance(x, str) and x == "" for x in needles):
                s, e = eff(len(recv), a[1] if len(a) > 1 else None, a[2] if len(a) > 2 else None)
                if s > len(recv) or max(0, s) > min(len(recv), max(0, e)): raise Skip()
            if isinstance(a[0], tuple) and m not in ("startswith", "endswith"): raise TypeError()
            return getattr(recv, m)(*a)
        if m in ("split", "rsplit"):
            if len(a) > 1 and a[1] is None: raise Skip()
            return getattr(recv, m)(*a)
        if m == "splitlines":
            if any(ch in recv for ch in "\r\v\f\x1c\x1d\x1e\x85"): raise Skip()
            return recv.splitlines(*a)
        if m in ("strip", "lstrip", "rstrip"):
            if a and a[0] is None: raise Skip()
            return getattr(recv, m)(*a)
        if m == "replace":
            if len(a) > 2 and a[2] is None: raise Skip()
            return recv.replace(*a)
        if m == "join":
            if isinstance(a[0], (str, bytes)): raise Skip()
            return recv.join(a[0])
        if m in ("elems", "elem_ords", "codepoints", "codepoint_ords"):
            if isinstance(recv, bytes):
                return list(recv)
            if m == "elem_ords": return list(recv.encode("utf-8"))
            if m == "codepoints": return list(recv)
            if m == "codepoint_ords": return [ord(ch) for ch in recv]
            if all(ord(ch) < 128 for ch in recv): return list(recv)
            raise Skip()
        if m == "format":
            f = recv
            if has_kind(tuple(a) + tuple(kw.values()), (bytes,)): raise Skip()
            if any(isinstance(v, (list, tuple)) and has_text(v) for v in list(a) + list(kw.values())): raise Skip()
            if "!r" in f and has_text(tuple(a) + tuple(kw.values())): raise Skip()
            i = f.find(":")
            while i >= 0:
                if i + 1 < len(f) and f[i + 1] != "}" and "{" in f[:i]: raise Skip()
                i = f.find(":", i + 1)
            return f.format(*a, **kw)
        return getattr(recv, m)(*a)
    if op.startswith("f."):
        fn = op[2:]
        if c["recv"]["k"] == "args":
            if has_kind(recv, (str, bytes)) and len(recv) == 1: raise Skip()
            return {"min": min, "max": max}[fn](*recv, **kw)
        a = ([] if recv is OMIT else [recv]) + trim(args)
        if fn != "len" and any(isinstance(x, (str, bytes)) for x in a): raise Skip()
        if fn == "len": return len(recv.encode("utf-8")) if isinstance(recv, str) else len(recv)
        if fn == "reversed": return list(reversed(recv))
        if fn == "enumerate":
            if len(a) > 1 and not isinstance(a[1], int): raise TypeError()
            return list(enumerate(*a))
        if fn == "zip": return list(zip(*a))
        if fn == "sorted": return sorted(recv, **kw)
        if fn in ("min", "max"): return {"min": min, "max": max}[fn](recv, **kw)
        if fn == "any": return any(recv)
        if fn == "all": return all(recv)
        if fn == "list": return list(recv)
        if fn == "tuple": return tuple(recv)
    x = args[0]
    if op == "add":
        return recv + x
    if op == "iadd":
        y = recv
        if isinstance(recv, list):
            if isinstance(x, (str, bytes)): raise Skip()
            y = list(recv)
            y += x
            return y, y
        y += x
        return y
    if op in ("mul", "rmul"):
        if isinstance(x, bool): raise Skip()
        return recv * x if op == "mul" else x * recv
    if op in ("in", "notin"):
        if isinstance(recv, range) and not isinstance(x, int): raise Skip()
        r = x in recv
        return r if op == "in" else not r
    if op == "mod":
        f = recv
        if isinstance(x, list): raise Skip()
        if "%a" in f: raise Skip()  # Python-only conversion
        ops = x if isinstance(x, tuple) else (tuple(x.values()) if isinstance(x, dict) else (x,))
        if has_kind(ops, (bytes,)): raise Skip()
        if any(isinstance(v, (list, tuple)) and has_text(v) for v in ops): raise Skip()
        if "r" in f and has_text(ops): raise Skip()
        if has_kind(ops, (bool,)) and any(ch in f for ch in "dioxXeEfFgGc"): raise Skip()
        if has_kind(ops, (float,)) and any(ch in f for ch in "oxXsr"): raise Skip()
        if isinstance(x, dict) and has_kind(tuple(x.keys()), (str,)) and any(ch in f for ch in "sr") and "%(" not in f: raise Skip()
        return f % x
    raise Exception("unknown op " + op)

def main():
    total = skipped = bad = 0
    per_op = {}
    for line in open(sys.argv[1]):
        d = json.loads(line)
        c = d["case"]
        if d.get("silent") or d.get("skip"):
            skipped += 1
            continue
        hostile = any(a["k"] == "int" and abs(a.get("i", 0)) > 2**31 for a in c.get("args", []))
        try:
            got = run(c)
            err = None
        except Skip:
            skipped += 1
            continue
        except (OverflowError, MemoryError) as e:
            if hostile:
                skipped += 1
                continue
            got, err = None, e
        except Exception as e:
            got, err = None, e
        total += 1
        per_op[c["op"]] = per_op.get(c["op"], 0) + 1
        after = None
        mut = c["recv"]["k"] == "list" and c["op"] in ("m.insert", "m.pop", "m.remove", "m.extend", "m.append", "m.clear", "iadd")
        if err is None and mut:
            got, after = got
        if err is not None:
            okay = d["fail"]
        elif d["fail"]:
            okay = False
        else:
            want = conv(d["val"])
            okay = same(got, want)
            if okay and mut:
                wa = conv(d["after"]) if d.get("after") else conv(c["recv"])
                okay = same(after, wa)
        if not okay:
            bad += 1
            if bad <= 25:
                print("MISMATCH", json.dumps(c), "reference:", "FAIL" if d["fail"] else json.dumps(d["val"]), "python:", repr(err) if err is not None else repr(got), repr(after))
    print("python3 compared %d cases (%d skipped as outside the shared subset), %d mismatches" % (total, skipped, bad))
    print("per operation:", json.dumps(per_op, sort_keys=True))
    sys.exit(1 if bad else 0)

main()
`
