// C13: sequence and string operations follow the specification for all arguments.
//
// One oracle (checkCase) takes a case = (operation, receiver, arguments, route), computes the
// outcome doc/spec.md prescribes with the naive reference implementations of ref_test.go,
// performs the operation on the implementation (through the Go API and compiled helper
// functions, or by rendering Starlark source and evaluating it) and compares the result
// structurally (type and contents, which determines repr) or failure against failure.
// Generators: exhaustive enumerations over short receivers on a 3-letter alphabet with every
// index / slice triple / sub-range / count, and rapid generators for receivers up to length 40.
package c13

import (
	"fmt"
	"math"
	"testing"

	"go.starlark.net/starlark"
	"go.starlark.net/syntax"
	"verif/harness/vk"
)

func TestMain(m *testing.M) {
	vk.Describe("every operation of C13 (index, slice, string methods, str.format, % interpolation, list methods, + * in, "+
		"reversed/zip/enumerate/sorted/any/all/min/max) evaluated on the implementation and compared with a naive reference written from doc/spec.md "+
		"(result type and contents, or failure vs success; receiver contents after mutating list methods). "+
		"Non-trivial = the argument tuple has a negative or out-of-range index, or an empty needle/separator/cutset, "+
		"or a maxsplit/count within [0, len], or a failure prescribed by the specification; distinct by canonical text of the case.",
		"text is ASCII (plus a fixed UTF-8 sample for elems/codepoints) so that byte and code-point semantics coincide",
		"integer arguments outside int32 (2^31, +-2^62) may either give the right answer or fail cleanly; a Go panic there is reported (C02 list)",
		"where doc/spec.md does not determine a result (rsplit with self-overlapping separators, empty needle in an inverted sub-range, bytes[i], %g digits) only absence of a crash is checked",
		"exhaustive parts: receivers of length 0..5 (thorough 0..8 for slices/indices, 0..6 for methods) over {a,b,c}")
	vk.Main(m, "C13")
}

// ---------------------------------------------------------------- cases

type KV struct {
	Name string `json:"name"`
	Val  V      `json:"val"`
}

// Case is one operation.  Op is "index", "slice", "m.<method>", "f.<built-in>", or one of
// add mul rmul in notin mod iadd.  Via is "" (Go API / compiled helper) or "src" (rendered source).
type Case struct {
	Op   string `json:"op"`
	Recv V      `json:"recv"`
	Args []V    `json:"args,omitempty"`
	Kw   []KV   `json:"kw,omitempty"`
	Via  string `json:"via,omitempty"`
}

func isMethod(op string) bool  { return len(op) > 2 && op[:2] == "m." }
func isBuiltin(op string) bool { return len(op) > 2 && op[:2] == "f." }

func isMutator(c Case) bool {
	if c.Recv.K != "list" {
		return false
	}
	switch c.Op {
	case "m.insert", "m.pop", "m.remove", "m.extend", "m.append", "m.clear", "iadd":
		return true
	}
	return false
}

func isIterMethod(op string) bool {
	switch op {
	case "m.elems", "m.elem_ords", "m.codepoints", "m.codepoint_ords":
		return true
	}
	return false
}

type want struct {
	outcome
	pieces []piece // for mod
	isMod  bool
}

func reference(c Case) want {
	switch {
	case c.Op == "index":
		return want{outcome: refIndex(c.Recv, arg(c.Args, 0))}
	case c.Op == "slice":
		return want{outcome: refSlice(c.Recv, arg(c.Args, 0), arg(c.Args, 1), arg(c.Args, 2))}
	case c.Op == "mod":
		if c.Recv.K != "str" {
			return want{outcome: silent("% on a non-string")}
		}
		pieces, fail := refInterp(c.Recv.S, arg(c.Args, 0))
		if len(pieces) == 1 && pieces[0].conv == '?' {
			return want{outcome: silent(pieces[0].lit)}
		}
		return want{outcome: outcome{fail: fail}, pieces: pieces, isMod: true}
	case isMethod(c.Op):
		m := c.Op[2:]
		if isIterMethod(c.Op) {
			return want{outcome: refIterable(m, c.Recv)}
		}
		switch c.Recv.K {
		case "list":
			return want{outcome: refListMethod(m, c.Recv, c.Args)}
		case "str":
			s := c.Recv.S
			switch m {
			case "find", "rfind", "index", "rindex", "count":
				return want{outcome: refFindFamily(m, s, c.Args)}
			case "startswith", "endswith":
				return want{outcome: refStartsEnds(m, s, c.Args)}
			case "split", "rsplit":
				return want{outcome: refSplit(m, s, c.Args)}
			case "splitlines":
				return want{outcome: refSplitlines(s, c.Args)}
			case "partition", "rpartition":
				return want{outcome: refPartition(m, s, c.Args)}
			case "strip", "lstrip", "rstrip":
				return want{outcome: refStrip(m, s, c.Args)}
			case "replace":
				return want{outcome: refReplace(s, c.Args)}
			case "join":
				return want{outcome: refJoin(s, c.Args)}
			case "removeprefix", "removesuffix":
				return want{outcome: refRemovefix(m, s, c.Args)}
			case "lower", "upper", "title", "capitalize":
				return want{outcome: refCase(m, s)}
			case "isalnum", "isalpha", "isdigit", "islower", "isupper", "isspace", "istitle":
				return want{outcome: refPredicate(m, s)}
			case "format":
				return want{outcome: refFormat(s, c.Args, c.Kw)}
			}
		}
		return want{outcome: silent("method " + m + " on " + c.Recv.K)}
	case isBuiltin(c.Op):
		return want{outcome: refBuiltin(c.Op[2:], c.Recv, c.Args, c.Kw)}
	}
	switch c.Op {
	case "add", "iadd", "mul", "rmul", "in", "notin":
		return want{outcome: refBinary(c.Op, c.Recv, arg(c.Args, 0))}
	}
	panic("unknown operation " + c.Op)
}

// ---------------------------------------------------------------- running a case on the implementation

const helperSrc = `
def index(x, i): return x[i]
def slice3(x, a, b, c): return x[a:b:c]
def add(x, y): return x + y
def mul(x, y): return x * y
def in_(x, y): return x in y
def notin(x, y): return x not in y
def mod(x, y): return x % y
def iadd(x, y):
    x += y
    return x
def last(x): return x[-1:]
def neg(x): return -x
`

var (
	helpers  starlark.StringDict
	keyFuncs map[string]starlark.Value
	srcEnv   starlark.StringDict
	fileOpts = &syntax.FileOptions{Set: true, GlobalReassign: true, TopLevelControl: true}
	thread   = &starlark.Thread{Name: "c13"}
)

func init() {
	g, err := starlark.ExecFileOptions(fileOpts, &starlark.Thread{Name: "helpers"}, "helpers.star", helperSrc, nil)
	if err != nil {
		panic(err)
	}
	helpers = g
	keyFuncs = map[string]starlark.Value{"len": starlark.Universe["len"], "last": g["last"], "neg": g["neg"]}
	srcEnv = starlark.StringDict{"last": g["last"], "neg": g["neg"]}
}

type result struct {
	val      V
	after    *V
	err      error
	panicked string
	text     string // source text, for messages
}

func starArgs(args []V) starlark.Tuple {
	out := make(starlark.Tuple, 0, len(args))
	for _, a := range args {
		if a.K == "omit" {
			break
		}
		out = append(out, toStar(a))
	}
	return out
}

func starKw(kw []KV) []starlark.Tuple {
	var out []starlark.Tuple
	for _, kv := range kw {
		out = append(out, starlark.Tuple{starlark.String(kv.Name), toStar(kv.Val)})
	}
	return out
}

func noneIfOmit(v V) starlark.Value {
	if v.K == "omit" {
		return starlark.None
	}
	return toStar(v)
}

// recvValue builds the receiver.  Enumerations present the same receiver many times in a
// row; for operations that cannot mutate it the (frozen) value of the previous case is reused.
var (
	cachedRecv  V
	cachedValue starlark.Value
)

func recvValue(c Case) starlark.Value {
	switch c.Recv.K {
	case "str", "bytes":
		return toStar(c.Recv)
	}
	if isMutator(c) {
		return toStar(c.Recv)
	}
	if cachedValue == nil || !eqV(cachedRecv, c.Recv) {
		cachedRecv, cachedValue = c.Recv, toStar(c.Recv)
		cachedValue.Freeze()
	}
	return cachedValue
}

// execute runs the case; a Go panic is caught and reported in result.panicked.
func execute(c Case) (res result) {
	defer func() {
		if r := recover(); r != nil {
			res.panicked = fmt.Sprint(r)
			thread = &starlark.Thread{Name: "c13"} // the old thread's call stack is in an undefined state
		}
	}()
	if c.Via == "src" {
		return executeSrc(c)
	}
	var out, recv starlark.Value
	var err error
	call := func(fn starlark.Value, args ...starlark.Value) (starlark.Value, error) {
		return starlark.Call(thread, fn, starlark.Tuple(args), nil)
	}
	var recvBefore V
	if c.Recv.K != "omit" && c.Recv.K != "args" {
		recv = recvValue(c)
		if c.Recv.K == "list" || c.Recv.K == "tuple" {
			recvBefore, _ = fromStar(recv)
		}
	}
	switch {
	case c.Op == "index":
		out, err = call(helpers["index"], recv, toStar(arg(c.Args, 0)))
	case c.Op == "slice":
		out, err = call(helpers["slice3"], recv, noneIfOmit(arg(c.Args, 0)), noneIfOmit(arg(c.Args, 1)), noneIfOmit(arg(c.Args, 2)))
	case isMethod(c.Op):
		h, isH := recv.(starlark.HasAttrs)
		if !isH {
			return result{err: fmt.Errorf("%s has no methods", recv.Type())}
		}
		var m starlark.Value
		m, err = h.Attr(c.Op[2:])
		if err == nil && m == nil {
			err = fmt.Errorf("%s has no method %s", recv.Type(), c.Op[2:])
		}
		if err == nil {
			out, err = starlark.Call(thread, m, starArgs(c.Args), starKw(c.Kw))
		}
		if err == nil && isIterMethod(c.Op) {
			out, err = call(starlark.Universe["list"], out)
		}
	case isBuiltin(c.Op):
		var args starlark.Tuple
		if c.Recv.K == "args" {
			args = starArgs(c.Recv.L)
		} else if recv != nil {
			args = append(starlark.Tuple{recv}, starArgs(c.Args)...)
		}
		out, err = starlark.Call(thread, starlark.Universe[c.Op[2:]], args, starKw(c.Kw))
	default:
		x := toStar(arg(c.Args, 0))
		switch c.Op {
		case "add":
			out, err = call(helpers["add"], recv, x)
		case "iadd":
			out, err = call(helpers["iadd"], recv, x)
		case "mul":
			out, err = call(helpers["mul"], recv, x)
		case "rmul":
			out, err = call(helpers["mul"], x, recv)
		case "in":
			out, err = call(helpers["in_"], x, recv)
		case "notin":
			out, err = call(helpers["notin"], x, recv)
		case "mod":
			out, err = call(helpers["mod"], recv, x)
		default:
			panic("unknown operation " + c.Op)
		}
	}
	if isMutator(c) {
		a, cerr := fromStar(recv)
		if cerr != nil {
			return result{err: cerr}
		}
		res.after = &a
	}
	if err != nil {
		res.err = err
		return res
	}
	v, cerr := fromStar(out)
	if cerr != nil {
		res.err = nil
		res.panicked = "inconsistent value: " + cerr.Error()
		return res
	}
	res.val = v
	// An operation that is not a mutator leaves its list or tuple operand as it was (sorted(t) must not sort t in place).
	if !isMutator(c) && recv != nil && (c.Recv.K == "list" || c.Recv.K == "tuple") {
		if now, cerr := fromStar(recv); cerr != nil || !eqV(now, recvBefore) {
			res.panicked = fmt.Sprintf("the operation changed its %s operand from %s to %s", c.Recv.K, show(recvBefore), show(now))
			return res
		}
	}
	// A list computed from a list is a new list: writing to it leaves the operand alone (slices, +, *, list(), sorted, reversed).
	if ol, ok := out.(*starlark.List); ok && !isMutator(c) {
		switch c.Op {
		case "slice", "add", "mul", "rmul", "f.list", "f.sorted", "f.reversed":
			if rl, ok := recv.(*starlark.List); ok && rl != ol && rl.Len() > 0 {
				before, _ := fromStar(rl)
				if ol.Len() > 0 {
					ol.SetIndex(0, starlark.String("written-through-the-result"))
				}
				ol.Append(starlark.String("appended-to-the-result"))
				if after, _ := fromStar(rl); !eqV(before, after) {
					res.panicked = fmt.Sprintf("the result shares storage with its list operand: writing to the result changed the operand from %s to %s", show(before), show(after))
				}
			} else if ok && rl == ol {
				res.panicked = "the result is the operand itself, not a new list"
			}
		}
	}
	return res
}

func srcArgs(args []V, kw []KV) string {
	s := ""
	for _, a := range args {
		if a.K == "omit" {
			break
		}
		if s != "" {
			s += ", "
		}
		s += src(a)
	}
	for _, kv := range kw {
		if s != "" {
			s += ", "
		}
		s += kv.Name + "=" + src(kv.Val)
	}
	return s
}

// render gives the expression (pure operations) or the statements (mutators) for a case.
func render(c Case) string {
	r := ""
	if c.Recv.K != "omit" && c.Recv.K != "args" {
		r = src(c.Recv)
	}
	if isMutator(c) {
		if c.Op == "iadd" {
			return "x = " + r + "\ny = x\ny += " + src(arg(c.Args, 0)) + "\nr = y\n"
		}
		return "x = " + r + "\nr = x." + c.Op[2:] + "(" + srcArgs(c.Args, c.Kw) + ")\n"
	}
	switch {
	case c.Op == "index":
		return r + "[" + src(arg(c.Args, 0)) + "]"
	case c.Op == "slice":
		part := func(v V) string {
			if v.K == "omit" {
				return ""
			}
			return src(v)
		}
		a, b, st := arg(c.Args, 0), arg(c.Args, 1), arg(c.Args, 2)
		if st.K == "omit" {
			return r + "[" + part(a) + ":" + part(b) + "]" // two-operand form
		}
		return r + "[" + part(a) + ":" + part(b) + ":" + part(st) + "]"
	case isIterMethod(c.Op):
		return "list(" + r + "." + c.Op[2:] + "())"
	case isMethod(c.Op):
		return r + "." + c.Op[2:] + "(" + srcArgs(c.Args, c.Kw) + ")"
	case isBuiltin(c.Op):
		all := c.Args
		if c.Recv.K == "args" {
			all = c.Recv.L
		} else if c.Recv.K != "omit" {
			all = append([]V{c.Recv}, c.Args...)
		}
		return c.Op[2:] + "(" + srcArgs(all, c.Kw) + ")"
	}
	x := src(arg(c.Args, 0))
	switch c.Op {
	case "add":
		return r + " + " + x
	case "mul":
		return r + " * " + x
	case "rmul":
		return x + " * " + r
	case "in":
		return x + " in " + r
	case "notin":
		return x + " not in " + r
	case "mod":
		return r + " % " + x
	}
	panic("render: unknown operation " + c.Op)
}

func executeSrc(c Case) (res result) {
	if c.Op == "iadd" && !isMutator(c) {
		// tuple/string receiver: plain rebinding, which has no expression form; use the compiled helper
		c.Via = ""
		return execute(c)
	}
	text := render(c)
	res.text = text
	if isMutator(c) {
		g, err := starlark.ExecFileOptions(fileOpts, thread, "c13.star", text, srcEnv)
		if x, found := g["x"]; found {
			a, cerr := fromStar(x)
			if cerr != nil {
				return result{err: cerr, text: text}
			}
			res.after = &a
		} else {
			res.panicked = "harness: receiver literal did not evaluate: " + fmt.Sprint(err)
			return res
		}
		if err != nil {
			res.err = err
			return res
		}
		v, cerr := fromStar(g["r"])
		if cerr != nil {
			res.panicked = "inconsistent value: " + cerr.Error()
			return res
		}
		res.val = v
		return res
	}
	out, err := starlark.EvalOptions(fileOpts, thread, "c13.star", text, srcEnv)
	if err != nil {
		res.err = err
		return res
	}
	v, cerr := fromStar(out)
	if cerr != nil {
		res.panicked = "inconsistent value: " + cerr.Error()
		return res
	}
	res.val = v
	return res
}

// ---------------------------------------------------------------- the oracle

func outsideInt32(v V) bool {
	return v.K == "int" && (v.I > math.MaxInt32 || v.I < math.MinInt32)
}

func hostile(c Case) bool {
	for _, a := range c.Args {
		if outsideInt32(a) {
			return true
		}
	}
	return false
}

func describe(c Case) string {
	s := c.Op + " recv=" + show(c.Recv)
	if len(c.Args) > 0 {
		s += " args=("
		for i, a := range c.Args {
			if i > 0 {
				s += ", "
			}
			s += show(a)
		}
		s += ")"
	}
	for _, kv := range c.Kw {
		s += " " + kv.Name + "=" + show(kv.Val)
	}
	if c.Via != "" {
		s += " via=" + c.Via
	}
	return s
}

// caseKey identifies a case for counting distinct non-trivial cases: the 64-bit FNV-1a hash
// of its canonical serialisation (kind tags, lengths, integers, text), as an 8-byte string.
func caseKey(c Case) string {
	h := uint64(14695981039346656037)
	mixB := func(b byte) { h = (h ^ uint64(b)) * 1099511628211 }
	mixS := func(s string) {
		for i := 0; i < len(s); i++ {
			mixB(s[i])
		}
		mixB(0xff)
	}
	mixI := func(x uint64) {
		for k := 0; k < 8; k++ {
			mixB(byte(x >> (8 * k)))
		}
	}
	var put func(v *V)
	put = func(v *V) {
		mixS(v.K)
		mixI(uint64(v.I))
		mixS(v.S)
		if v.B {
			mixB(1)
		}
		if v.F != 0 {
			mixI(math.Float64bits(v.F))
		}
		mixI(uint64(len(v.L)))
		for i := range v.L {
			put(&v.L[i])
		}
	}
	mixS(c.Op)
	put(&c.Recv)
	mixI(uint64(len(c.Args)))
	for i := range c.Args {
		put(&c.Args[i])
	}
	for i := range c.Kw {
		mixS(c.Kw[i].Name)
		put(&c.Kw[i].Val)
	}
	mixS(c.Via)
	var out [8]byte
	for k := 0; k < 8; k++ {
		out[k] = byte(h >> (8 * k))
	}
	return string(out[:])
}

// nonTrivial implements the rule of DESIGN.md for C13.
func nonTrivial(c Case, w want) bool {
	if w.fail && w.silent == "" {
		return true
	}
	n := seqLen(c.Recv)
	if c.Recv.K == "args" || c.Recv.K == "omit" {
		n = int64(len(c.Recv.L))
	}
	countArg := -1
	switch c.Op {
	case "m.split", "m.rsplit":
		countArg = 1
	case "m.replace":
		countArg = 2
	case "mul", "rmul":
		countArg = 0
	}
	for i, a := range c.Args {
		switch a.K {
		case "int":
			if i == countArg {
				if a.I >= 0 && a.I <= n {
					return true
				}
				continue
			}
			if a.I < 0 || a.I >= n {
				return true
			}
		case "str", "bytes":
			if a.S == "" {
				return true
			}
		case "list", "tuple":
			if len(a.L) == 0 {
				return true
			}
		}
	}
	return false
}

// Class counters are accumulated locally (the checks are single-threaded) and handed to vk
// at the end of each test function.
type classKey struct{ op, kind, outcome string }

var (
	localClasses = map[classKey]int64{}
	localMisc    = map[string]int64{}
	sampled      = map[classKey]int{}
)

func flushStats() {
	for k, n := range localClasses {
		vk.S.ClassN(k.op+"/"+k.kind+"/"+k.outcome, int(n))
		delete(localClasses, k)
	}
	for k, n := range localMisc {
		vk.S.ClassN(k, int(n))
		delete(localMisc, k)
	}
}

const (
	findingPanic    = "C13-huge-count-panic"
	findingStrip    = "C13-strip-empty-cutset"
	findingPercentF = "C13-percent-F"
)

// collector, when set (oracle self-test only), receives the generated cases instead of the oracle.
var collector func(Case)

func checkCase(c Case) error {
	if collector != nil {
		collector(c)
		return nil
	}
	w := reference(c)
	got := execute(c)

	outcomeClass := "value"
	switch {
	case w.silent != "":
		outcomeClass = "silent"
	case w.fail:
		outcomeClass = "must-fail"
	case w.infeasible:
		outcomeClass = "infeasible"
	}
	ck := classKey{c.Op, c.Recv.K, outcomeClass}
	localClasses[ck]++
	if c.Via == "src" {
		localMisc["route:source"]++
	} else {
		localMisc["route:api"]++
	}
	if nonTrivial(c, w) {
		vk.S.NonTrivial(caseKey(c))
		if sampled[ck] < 2 {
			sampled[ck]++
			vk.S.Sample(c.Op, outcomeClass, c)
		}
	}

	bad := func(format string, args ...any) error {
		msg := fmt.Sprintf(format, args...)
		if got.text != "" {
			msg += " [source: " + got.text + "]"
		}
		return fmt.Errorf("%s: %s", describe(c), msg)
	}

	if got.panicked != "" {
		err := bad("Go panic: %s", got.panicked)
		// Known (C02's list): rsplit on whitespace preallocates maxsplit+1 strings.
		if c.Op == "m.rsplit" && c.Recv.K == "str" && arg(c.Args, 0).K == "none" && outsideInt32(arg(c.Args, 1)) {
			return vk.Known(findingPanic, err)
		}
		return err
	}
	if w.silent != "" {
		localMisc["silent:"+w.silent]++
		return nil
	}
	host := hostile(c)

	if got.err != nil {
		if got.after != nil && !eqV(*got.after, c.Recv) {
			return bad("failed (%v) but changed the list to %s", got.err, show(*got.after))
		}
		if w.fail || w.infeasible {
			return nil
		}
		if host {
			localMisc["hostile:clean-error"]++
			return nil
		}
		wantText := show(w.val)
		if w.isMod {
			wantText = ""
			for _, p := range w.pieces {
				if p.approx != nil {
					wantText += "<" + p.approx.RatString() + ">"
				} else {
					wantText += p.lit
				}
			}
			wantText = quote(wantText, false)
		}
		return bad("fails with %q; the specification gives %s", got.err.Error(), wantText)
	}

	// success
	if w.fail {
		return bad("succeeds with %s; the specification says it fails", show(got.val))
	}
	if w.infeasible {
		return bad("succeeds with a %s value; an excessive repetition must fail", got.val.K)
	}
	if host {
		localMisc["hostile:right-answer"]++
	}
	if w.isMod {
		if got.val.K != "str" || !interpMatches(got.val.S, w.pieces) {
			exp := ""
			for _, p := range w.pieces {
				if p.approx != nil {
					exp += "<" + p.approx.RatString() + ">"
				} else {
					exp += p.lit
				}
			}
			err := bad("gives %s; the specification gives %q", show(got.val), exp)
			// Known: %F (listed in the specification's conversion table) is not formatted at all.
			if got.val.K == "str" {
				percentFLiteral = true
				p2, fail2 := refInterp(c.Recv.S, arg(c.Args, 0))
				percentFLiteral = false
				if !fail2 && interpMatches(got.val.S, p2) {
					return vk.Known(findingPercentF, err)
				}
			}
			return err
		}
		return nil
	}
	if !eqV(got.val, w.val) && !(w.alt != nil && eqV(got.val, *w.alt)) {
		err := bad("gives %s; the specification gives %s", show(got.val), show(w.val))
		// Known: an empty cutset is treated as "no cutset" (whitespace is stripped).
		if c.Recv.K == "str" && (c.Op == "m.strip" || c.Op == "m.lstrip" || c.Op == "m.rstrip") &&
			len(c.Args) == 1 && c.Args[0].K == "str" && c.Args[0].S == "" {
			ws := refStrip(c.Op[2:], c.Recv.S, nil)
			if eqV(got.val, ws.val) {
				return vk.Known(findingStrip, err)
			}
		}
		return err
	}
	if isMutator(c) {
		wantAfter := c.Recv
		if w.after != nil {
			wantAfter = *w.after
		}
		if got.after == nil || !eqV(*got.after, wantAfter) {
			g := "<unknown>"
			if got.after != nil {
				g = show(*got.after)
			}
			return bad("leaves the list as %s; the specification gives %s", g, show(wantAfter))
		}
	}
	return nil
}

var (
	subSlice   = vk.Register("slice", checkCase)
	subIndex   = vk.Register("index", checkCase)
	subSearch  = vk.Register("strsearch", checkCase)
	subSplit   = vk.Register("strsplit", checkCase)
	subMisc    = vk.Register("strmisc", checkCase)
	subFormat  = vk.Register("format", checkCase)
	subInterp  = vk.Register("interp", checkCase)
	subList    = vk.Register("list", checkCase)
	subBinop   = vk.Register("binop", checkCase)
	subBuiltin = vk.Register("builtin", checkCase)
)

func TestReplay(t *testing.T) { vk.Replay(t) }
