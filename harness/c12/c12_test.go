// C12: dict and set behave as insertion-ordered maps under every operation history.
//
// One oracle (checkHistory) interprets an operation list against a starlark
// Dict/Set and against an ordered association list; two generators feed it:
// an exhaustive enumeration over a 5-key universe with colliding hashes, and
// long rapid-generated histories over adversarial hash distributions.
package c12

import (
	"fmt"
	"strings"
	"testing"

	"go.starlark.net/starlark"
	"go.starlark.net/syntax"
	"pgregory.net/rapid"
	"verif/harness/vk"
)

func TestMain(m *testing.M) {
	vk.Describe("dict/set operation histories checked step by step against an ordered association list "+
		"(len, lookup of every key, iteration order, Keys/Items, str, equality with a rebuilt collection, internal hashtable invariant hook). "+
		"Non-trivial = the history contains a delete of a key while another live key has the same full hash, or a re-insert of a deleted key, "+
		"or runs with >=9 live keys in one bucket chain (overflow bucket), or crosses a table growth; distinct by canonical JSON of the case.",
		"keys are harness values with generator-chosen Hash(), Starlark ints that collide modulo 2^32, and short/long strings",
		"exhaustive part: every op sequence of the stated length over 5 keys (3 sharing one 32-bit hash); random part samples long histories")
	vk.Main(m, "C12")
}

// ---------------------------------------------------------------- keys

// HKey is a hashable value whose hash is chosen by the generator; equality is identity.
type HKey struct {
	id int
	h  uint32
}

func (k *HKey) String() string        { return fmt.Sprintf("k%d", k.id) }
func (k *HKey) Type() string          { return "hkey" }
func (k *HKey) Freeze()               {}
func (k *HKey) Truth() starlark.Bool  { return true }
func (k *HKey) Hash() (uint32, error) { return k.h, nil }

type Op struct {
	Name  string `json:"op"`
	K     int    `json:"k,omitempty"`
	V     int    `json:"v,omitempty"`
	Ks    []int  `json:"ks,omitempty"`
	Vs    []int  `json:"vs,omitempty"`
	Adopt bool   `json:"adopt,omitempty"`
	Star  bool   `json:"star,omitempty"` // go through Starlark code / built-in method rather than the Go API
}

type Case struct {
	Kind      string   `json:"kind"` // dict | set
	Dist      string   `json:"dist"`
	Hashes    []uint32 `json:"hashes,omitempty"`
	NKeys     int      `json:"nkeys"`
	Ops       []Op     `json:"ops"`
	FullEvery int      `json:"full_every"`
}

func universe(c Case) []starlark.Value {
	n := c.NKeys
	keys := make([]starlark.Value, n)
	for i := 0; i < n; i++ {
		switch c.Dist {
		case "explicit":
			keys[i] = &HKey{i, c.Hashes[i%len(c.Hashes)]}
		case "equal":
			keys[i] = &HKey{i, 0xdeadbeef}
		case "lowbits":
			keys[i] = &HKey{i, uint32(i)<<13 | 0x155}
		case "fewchains":
			keys[i] = &HKey{i, 0xabcd0000 | uint32(i&7)}
		case "twochains":
			// two full hashes that select neighbouring buckets: both bucket lists get dozens of buckets deep
			keys[i] = &HKey{i, 0x5a5a0000 | uint32(i&1)}
		case "zeroish":
			keys[i] = &HKey{i, uint32(i % 3)}
		case "seq":
			keys[i] = &HKey{i, uint32(i + 1)}
		case "int":
			keys[i] = starlark.MakeInt64(int64(i%48) + int64(i/48)<<32)
		case "str":
			if i%2 == 0 {
				keys[i] = starlark.String(fmt.Sprintf("k%d", i))
			} else {
				keys[i] = starlark.String(fmt.Sprintf("a-long-key-number-%d", i))
			}
		default:
			panic("bad dist " + c.Dist)
		}
	}
	return keys
}

func hashOf(v starlark.Value) uint32 {
	h, _ := v.Hash()
	if h == 0 {
		h = 1
	}
	return h
}

// ---------------------------------------------------------------- helper module (operators through the VM)

const helperSrc = `
def setitem(d, k, v): d[k] = v
def getitem(d, k): return d[k]
def contains(d, k): return k in d
def ior(d, o):
    d |= o
    return d
def upd_in_loop(t, o):
    for _ in t:
        t.update(o)
def bor(a, b): return a | b
def band(a, b): return a & b
def bsub(a, b): return a - b
def bxor(a, b): return a ^ b
def le(a, b): return a <= b
def lt(a, b): return a < b
def ge(a, b): return a >= b
def gt(a, b): return a > b
def eq(a, b): return a == b
def keys_by_loop(d): return [k for k in d]
`

var helpers starlark.StringDict

func init() {
	th := &starlark.Thread{Name: "helpers"}
	g, err := starlark.ExecFileOptions(&syntax.FileOptions{Set: true}, th, "helpers.star", helperSrc, nil)
	if err != nil {
		panic(err)
	}
	helpers = g
}

// ---------------------------------------------------------------- model

type model struct {
	keys []int
	vals map[int]int
}

func newModel() *model { return &model{vals: map[int]int{}} }

func (m *model) has(k int) bool { _, ok := m.vals[k]; return ok }
func (m *model) set(k, v int) {
	if !m.has(k) {
		m.keys = append(m.keys, k)
	}
	m.vals[k] = v
}
func (m *model) del(k int) bool {
	if !m.has(k) {
		return false
	}
	delete(m.vals, k)
	for i, x := range m.keys {
		if x == k {
			m.keys = append(m.keys[:i:i], m.keys[i+1:]...)
			break
		}
	}
	return true
}
func (m *model) clear() { m.keys = nil; m.vals = map[int]int{} }
func (m *model) clone() *model {
	c := newModel()
	for _, k := range m.keys {
		c.set(k, m.vals[k])
	}
	return c
}

// ---------------------------------------------------------------- interpreter of histories

type runner struct {
	c      Case
	keys   []starlark.Value
	th     *starlark.Thread
	dict   *starlark.Dict
	set    *starlark.Set
	m      *model
	isDict bool
	// classification
	collDelete, reinsert, overflow, grew bool
	deleted                              map[int]bool
	maxLive                              int
	hookNow                              bool
}

func (r *runner) coll() starlark.Value {
	if r.isDict {
		return r.dict
	}
	return r.set
}

// refused: the collection is the *argument* of an update that cannot complete because the receiver may not be
// changed (frozen, being iterated, or the collection itself). The call must leave the argument as it was and
// as usable as before: rewriting an existing entry right afterwards must succeed.
func (r *runner) refused(op Op) error {
	bad := func(format string, args ...any) error {
		return fmt.Errorf("refused update %+v: %s", op, fmt.Sprintf(format, args...))
	}
	c := r.coll()
	if len(r.m.keys) == 0 {
		return nil
	}
	mk := func() starlark.Value { // a one-entry receiver of the same kind
		if r.isDict {
			d := starlark.NewDict(1)
			d.SetKey(starlark.String("receiver"), starlark.None)
			return d
		}
		s := starlark.NewSet(1)
		s.Insert(starlark.String("receiver"))
		return s
	}
	var err error
	what := ""
	switch op.K % 3 {
	case 0:
		what = "frozen.update(c)"
		f := mk()
		f.Freeze()
		_, err = r.method(f, "update", c)
		if err == nil {
			return bad("%s succeeded", what)
		}
	case 1:
		what = "for _ in t: t.update(c)"
		_, err = r.call(helpers["upd_in_loop"], mk(), c)
		if err == nil {
			return bad("%s succeeded", what)
		}
	case 2:
		what = "c.update(c)" // adds nothing; whether it is refused is not ours to say
		_, err = r.method(c, "update", c)
	}
	first := r.m.keys[0]
	if r.isDict {
		err = r.dict.SetKey(r.keys[first], val(r.m.vals[first]))
	} else {
		err = r.set.Insert(r.keys[first])
	}
	if err != nil {
		return bad("after %s the collection refuses to rewrite an existing entry: %v", what, err)
	}
	return nil
}

func (r *runner) call(fn starlark.Value, args ...starlark.Value) (starlark.Value, error) {
	return starlark.Call(r.th, fn, starlark.Tuple(args), nil)
}

func (r *runner) method(recv starlark.Value, name string, args ...starlark.Value) (starlark.Value, error) {
	m, err := recv.(starlark.HasAttrs).Attr(name)
	if err != nil || m == nil {
		return nil, fmt.Errorf("no method %s", name)
	}
	return r.call(m, args...)
}

// val maps a value code to a dict value; some codes give values that a careless "is the key present?" test
// confuses with absence: None, False, the empty string.
func val(v int) starlark.Value {
	switch v % 10 {
	case 7:
		return starlark.None
	case 8:
		return starlark.False
	case 9:
		return starlark.String("")
	}
	return starlark.MakeInt(v)
}

func (r *runner) listOfKeys(ks []int) *starlark.List {
	var elems []starlark.Value
	for _, k := range ks {
		elems = append(elems, r.keys[k%len(r.keys)])
	}
	return starlark.NewList(elems)
}

func (r *runner) setOfKeys(ks []int) *starlark.Set {
	s := starlark.NewSet(0)
	for _, k := range ks {
		s.Insert(r.keys[k%len(r.keys)])
	}
	return s
}

func dedupe(ks []int, n int) []int {
	seen := map[int]bool{}
	var out []int
	for _, k := range ks {
		k %= n
		if !seen[k] {
			seen[k] = true
			out = append(out, k)
		}
	}
	return out
}

func (r *runner) noteDelete(k int) {
	if !r.m.has(k) {
		return
	}
	h := hashOf(r.keys[k])
	for _, o := range r.m.keys {
		if o != k && hashOf(r.keys[o]) == h {
			r.collDelete = true
			break
		}
	}
	r.deleted[k] = true
}

func (r *runner) noteInsert(k int) {
	if !r.m.has(k) && r.deleted[k] {
		r.reinsert = true
	}
}

func (r *runner) noteLive() {
	n := len(r.m.keys)
	if n <= r.maxLive {
		return
	}
	r.maxLive = n
	if n > 8 {
		r.grew = true // overloaded(): a one-bucket table is rehashed when the 9th entry arrives
	}
	if n >= 9 && !r.overflow && (n < 32 || n&(n-1) == 0) {
		// An overflow bucket is certain when >= 9 live keys have the same full hash.
		cnt := map[uint32]int{}
		for _, k := range r.m.keys {
			cnt[hashOf(r.keys[k])]++
		}
		for _, c := range cnt {
			if c >= 9 {
				r.overflow = true
			}
		}
	}
}

// step applies one operation to both sides.
func (r *runner) step(i int, op Op) error {
	n := len(r.keys)
	k := op.K % n
	key := r.keys[k]
	bad := func(format string, args ...any) error {
		return fmt.Errorf("step %d %+v: %s", i, op, fmt.Sprintf(format, args...))
	}
	if r.isDict {
		d := r.dict
		switch op.Name {
		case "set":
			r.noteInsert(k)
			var err error
			if op.Star {
				_, err = r.call(helpers["setitem"], d, key, val(op.V))
			} else {
				err = d.SetKey(key, val(op.V))
			}
			if err != nil {
				return bad("insert failed: %v", err)
			}
			r.m.set(k, op.V)
		case "del":
			r.noteDelete(k)
			v, found, err := d.Delete(key)
			if err != nil {
				return bad("delete failed: %v", err)
			}
			want := r.m.has(k)
			if found != want {
				return bad("Delete found=%v, model has=%v", found, want)
			}
			if found && v != val(r.m.vals[k]) {
				return bad("Delete returned %v, want %d", v, r.m.vals[k])
			}
			r.m.del(k)
		case "pop":
			r.noteDelete(k)
			var v starlark.Value
			var err error
			if op.V >= 0 {
				v, err = r.method(d, "pop", key, val(-1000-op.V))
			} else {
				v, err = r.method(d, "pop", key)
			}
			if r.m.has(k) {
				if err != nil || v != val(r.m.vals[k]) {
					return bad("pop of present key gave %v, %v; want %d", v, err, r.m.vals[k])
				}
			} else if op.V >= 0 {
				if err != nil || v != val(-1000-op.V) {
					return bad("pop of absent key with default gave %v, %v", v, err)
				}
			} else if err == nil {
				return bad("pop of absent key without default succeeded: %v", v)
			}
			r.m.del(k)
		case "popitem":
			v, err := r.method(d, "popitem")
			if len(r.m.keys) == 0 {
				if err == nil {
					return bad("popitem on empty dict returned %v", v)
				}
				break
			}
			if err != nil {
				return bad("popitem failed: %v", err)
			}
			first := r.m.keys[0]
			t, ok := v.(starlark.Tuple)
			if !ok || len(t) != 2 || t[0] != r.keys[first] || t[1] != val(r.m.vals[first]) {
				return bad("popitem returned %v, want (%v, %d)", v, r.keys[first], r.m.vals[first])
			}
			r.noteDelete(first)
			r.m.del(first)
		case "setdefault":
			r.noteInsert(k)
			v, err := r.method(d, "setdefault", key, val(op.V))
			if err != nil {
				return bad("setdefault failed: %v", err)
			}
			want := op.V
			if r.m.has(k) {
				want = r.m.vals[k]
			} else {
				r.m.set(k, op.V)
			}
			if v != val(want) {
				return bad("setdefault returned %v, want %d", v, want)
			}
		case "refused":
			if e := r.refused(op); e != nil {
				return e
			}
		case "update_pairs", "update_dict", "ior", "union":
			var pairs []starlark.Value
			od := starlark.NewDict(len(op.Ks))
			for j, kk := range op.Ks {
				kk %= n
				v := 0
				if j < len(op.Vs) {
					v = op.Vs[j]
				}
				pairs = append(pairs, starlark.Tuple{r.keys[kk], val(v)})
				od.SetKey(r.keys[kk], val(v))
			}
			apply := func(m *model) {
				for j, kk := range op.Ks {
					kk %= n
					v := 0
					if j < len(op.Vs) {
						v = op.Vs[j]
					}
					m.set(kk, v)
				}
			}
			switch op.Name {
			case "update_pairs":
				for _, kk := range op.Ks {
					r.noteInsert(kk % n)
				}
				if _, err := r.method(d, "update", starlark.NewList(pairs)); err != nil {
					return bad("update failed: %v", err)
				}
				apply(r.m)
			case "update_dict":
				for _, kk := range op.Ks {
					r.noteInsert(kk % n)
				}
				if _, err := r.method(d, "update", od); err != nil {
					return bad("update failed: %v", err)
				}
				apply(r.m)
			case "ior":
				for _, kk := range op.Ks {
					r.noteInsert(kk % n)
				}
				res, err := r.call(helpers["ior"], d, od)
				if err != nil {
					return bad("|= failed: %v", err)
				}
				if res != starlark.Value(d) {
					return bad("|= did not update in place")
				}
				apply(r.m)
			case "union":
				res, err := r.call(helpers["bor"], d, od)
				if err != nil {
					return bad("| failed: %v", err)
				}
				rd, ok := res.(*starlark.Dict)
				if !ok || rd == d {
					return bad("| returned %T (same object: %v)", res, rd == d)
				}
				m2 := r.m.clone()
				apply(m2)
				if err := r.verifyDict(rd, m2, true); err != nil {
					return bad("result of |: %v", err)
				}
				if op.Adopt {
					r.dict, r.m = rd, m2
				}
			}
		case "clear":
			var err error
			if op.Star {
				_, err = r.method(d, "clear")
			} else {
				err = d.Clear()
			}
			if err != nil {
				return bad("clear failed: %v", err)
			}
			for _, kk := range r.m.keys {
				r.deleted[kk] = true
			}
			r.m.clear()
		case "churn":
			// grow-trigger: bulk insert filler keys, then delete them again.
			cnt := 9 + op.V%40
			var fill []starlark.Value
			for j := 0; j < cnt; j++ {
				f := &HKey{-1 - j, hashOf(key) + uint32(j%3)<<uint(3+j%5)}
				fill = append(fill, f)
				if err := d.SetKey(f, starlark.None); err != nil {
					return bad("filler insert: %v", err)
				}
			}
			r.grew = true
			for _, f := range fill {
				if _, found, err := d.Delete(f); err != nil || !found {
					return bad("filler delete: found=%v err=%v", found, err)
				}
			}
		default:
			return bad("unknown dict op")
		}
		return nil
	}

	// ---- set
	s := r.set
	switch op.Name {
	case "set": // add
		r.noteInsert(k)
		var err error
		if op.Star {
			_, err = r.method(s, "add", key)
		} else {
			err = s.Insert(key)
		}
		if err != nil {
			return bad("add failed: %v", err)
		}
		r.m.set(k, 0)
	case "del": // discard / Delete
		r.noteDelete(k)
		if op.Star {
			if _, err := r.method(s, "discard", key); err != nil {
				return bad("discard failed: %v", err)
			}
		} else {
			found, err := s.Delete(key)
			if err != nil || found != r.m.has(k) {
				return bad("Delete found=%v err=%v, model has=%v", found, err, r.m.has(k))
			}
		}
		r.m.del(k)
	case "remove":
		r.noteDelete(k)
		_, err := r.method(s, "remove", key)
		if r.m.has(k) != (err == nil) {
			return bad("remove: err=%v, model has=%v", err, r.m.has(k))
		}
		r.m.del(k)
	case "pop", "popitem":
		v, err := r.method(s, "pop")
		if len(r.m.keys) == 0 {
			if err == nil {
				return bad("pop on empty set returned %v", v)
			}
			break
		}
		first := r.m.keys[0]
		if err != nil || v != r.keys[first] {
			return bad("pop returned %v, %v; want %v", v, err, r.keys[first])
		}
		r.noteDelete(first)
		r.m.del(first)
	case "clear":
		var err error
		if op.Star {
			_, err = r.method(s, "clear")
		} else {
			err = s.Clear()
		}
		if err != nil {
			return bad("clear failed: %v", err)
		}
		for _, kk := range r.m.keys {
			r.deleted[kk] = true
		}
		r.m.clear()
	case "update":
		for _, kk := range op.Ks {
			r.noteInsert(kk % n)
		}
		if _, err := r.method(s, "update", r.listOfKeys(op.Ks)); err != nil {
			return bad("update failed: %v", err)
		}
		for _, kk := range op.Ks {
			r.m.set(kk%n, 0)
		}
	case "union", "intersection", "difference", "symmetric_difference":
		// operand as list (method, Star=false) or as set through the operator (Star=true)
		ks := op.Ks
		var res starlark.Value
		var err error
		if op.Star {
			ks = dedupe(ks, n)
			fn := map[string]string{"union": "bor", "intersection": "band", "difference": "bsub", "symmetric_difference": "bxor"}[op.Name]
			res, err = r.call(helpers[fn], s, r.setOfKeys(ks))
		} else {
			res, err = r.method(s, op.Name, r.listOfKeys(ks))
		}
		if err != nil {
			return bad("%s failed: %v", op.Name, err)
		}
		rs, ok := res.(*starlark.Set)
		if !ok || rs == s {
			return bad("%s returned %T (same object %v)", op.Name, res, rs == s)
		}
		m2 := newModel()
		in := map[int]bool{}
		for _, kk := range ks {
			in[kk%n] = true
		}
		switch op.Name {
		case "union":
			m2 = r.m.clone()
			for _, kk := range ks {
				m2.set(kk%n, 0)
			}
		case "intersection":
			for _, kk := range r.m.keys {
				if in[kk] {
					m2.set(kk, 0)
				}
			}
		case "difference":
			for _, kk := range r.m.keys {
				if !in[kk] {
					m2.set(kk, 0)
				}
			}
		case "symmetric_difference":
			// left elements not in right (left order), then right elements not in left (right order).
			// An element occurring twice in a right-hand *list* toggles twice in the implementation;
			// the set-theoretic reading treats the operand as a set, so duplicates are removed first.
			for _, kk := range r.m.keys {
				if !in[kk] {
					m2.set(kk, 0)
				}
			}
			for _, kk := range dedupe(ks, n) {
				if !r.m.has(kk) {
					m2.set(kk, 0)
				}
			}
		}
		if err := r.verifySet(rs, m2, true); err != nil {
			return bad("result of %s: %v", op.Name, err)
		}
		if op.Adopt {
			r.set, r.m = rs, m2
		}
	case "issubset", "issuperset":
		ks := op.Ks
		var res starlark.Value
		var err error
		if op.Star {
			fn := map[string]string{"issubset": "le", "issuperset": "ge"}[op.Name]
			res, err = r.call(helpers[fn], s, r.setOfKeys(ks))
		} else {
			res, err = r.method(s, op.Name, r.listOfKeys(ks))
		}
		if err != nil {
			return bad("%s failed: %v", op.Name, err)
		}
		in := map[int]bool{}
		for _, kk := range ks {
			in[kk%n] = true
		}
		want := true
		if op.Name == "issubset" {
			for _, kk := range r.m.keys {
				if !in[kk] {
					want = false
				}
			}
		} else {
			for kk := range in {
				if !r.m.has(kk) {
					want = false
				}
			}
		}
		if res != starlark.Bool(want) {
			return bad("%s returned %v, want %v", op.Name, res, want)
		}
	case "refused":
		if e := r.refused(op); e != nil {
			return e
		}
	case "subset-self":
		// Whole-set comparisons: the operand has as many elements as the receiver (and, for long chains, elements at
		// every depth of every bucket list): s <= s, s.issubset(list(s) twice over), s <= s | {new}, all keys but one.
		if r.isDict {
			break
		}
		all := append([]int(nil), r.m.keys...)
		twice := append(append([]int(nil), all...), all...)
		check := func(what string, res starlark.Value, err error, want bool) error {
			if err != nil {
				return bad("%s failed: %v", what, err)
			}
			if res != starlark.Bool(want) {
				return bad("%s returned %v, want %v (set of %d)", what, res, want, len(all))
			}
			return nil
		}
		res, err := r.call(helpers["le"], s, s)
		if e := check("s <= s", res, err, true); e != nil {
			return e
		}
		res, err = r.call(helpers["ge"], s, s)
		if e := check("s >= s", res, err, true); e != nil {
			return e
		}
		res, err = r.method(s, "issubset", r.listOfKeys(twice))
		if e := check("s.issubset(list(s) + list(s))", res, err, true); e != nil {
			return e
		}
		res, err = r.method(s, "issuperset", r.listOfKeys(twice))
		if e := check("s.issuperset(list(s) + list(s))", res, err, true); e != nil {
			return e
		}
		if len(all) > 0 {
			drop := op.K % len(all)
			fewer := append(append([]int(nil), all[:drop]...), all[drop+1:]...)
			fewer = append(fewer, fewer...)
			res, err = r.method(s, "issubset", r.listOfKeys(fewer))
			if e := check("s.issubset(all elements but one, twice)", res, err, false); e != nil {
				return e
			}
			res, err = r.call(helpers["le"], s, r.setOfKeys(fewer))
			if e := check("s <= set(all elements but one)", res, err, false); e != nil {
				return e
			}
		}
	case "proper": // strict subset / superset through < and >
		ks := dedupe(op.Ks, n)
		in := map[int]bool{}
		for _, kk := range ks {
			in[kk] = true
		}
		sub, sup := true, true
		for _, kk := range r.m.keys {
			if !in[kk] {
				sub = false
			}
		}
		for kk := range in {
			if !r.m.has(kk) {
				sup = false
			}
		}
		eq := sub && sup
		o := r.setOfKeys(ks)
		for _, t := range []struct {
			fn   string
			want bool
		}{{"lt", sub && !eq}, {"gt", sup && !eq}, {"eq", eq}} {
			res, err := r.call(helpers[t.fn], s, o)
			if err != nil || res != starlark.Bool(t.want) {
				return bad("set %s operand gave %v, %v; want %v", t.fn, res, err, t.want)
			}
		}
	case "churn":
		cnt := 9 + op.V%40
		var fill []starlark.Value
		for j := 0; j < cnt; j++ {
			f := &HKey{-1 - j, hashOf(key) + uint32(j%3)<<uint(3+j%5)}
			fill = append(fill, f)
			if err := s.Insert(f); err != nil {
				return bad("filler insert: %v", err)
			}
		}
		r.grew = true
		for _, f := range fill {
			if found, err := s.Delete(f); err != nil || !found {
				return bad("filler delete: found=%v err=%v", found, err)
			}
		}
	default:
		return bad("unknown set op")
	}
	return nil
}

func (r *runner) verifyDict(d *starlark.Dict, m *model, full bool) error {
	if d.Len() != len(m.keys) {
		return fmt.Errorf("Len=%d, model %d", d.Len(), len(m.keys))
	}
	if full || r.hookNow {
		if err := d.VerifCheck(); err != nil {
			return fmt.Errorf("hashtable invariant: %v", err)
		}
	}
	if !full {
		return nil
	}
	for i, key := range r.keys {
		v, found, err := d.Get(key)
		if err != nil {
			return fmt.Errorf("Get(%v): %v", key, err)
		}
		if found != m.has(i) {
			return fmt.Errorf("Get(%v) found=%v, model has=%v", key, found, m.has(i))
		}
		if found && v != val(m.vals[i]) {
			return fmt.Errorf("Get(%v)=%v, model %d", key, v, m.vals[i])
		}
	}
	ks := d.Keys()
	items := d.Items()
	if len(ks) != len(m.keys) || len(items) != len(m.keys) {
		return fmt.Errorf("Keys/Items length %d/%d, model %d", len(ks), len(items), len(m.keys))
	}
	it := d.Iterate()
	defer it.Done()
	for i, mk := range m.keys {
		var x starlark.Value
		if !it.Next(&x) {
			return fmt.Errorf("iteration ended at %d of %d", i, len(m.keys))
		}
		if ks[i] != r.keyOrFill(mk) || x != ks[i] || items[i][0] != ks[i] || items[i][1] != val(m.vals[mk]) {
			return fmt.Errorf("order differs at position %d: Keys=%v iter=%v Items=%v, model key %v value %d (model order %v)",
				i, ks[i], x, items[i], r.keyOrFill(mk), m.vals[mk], m.keys)
		}
	}
	var x starlark.Value
	if it.Next(&x) {
		return fmt.Errorf("iteration yields extra element %v", x)
	}
	return nil
}

func (r *runner) keyOrFill(k int) starlark.Value { return r.keys[k] }

func (r *runner) verifySet(s *starlark.Set, m *model, full bool) error {
	if s.Len() != len(m.keys) {
		return fmt.Errorf("Len=%d, model %d (model order %v, set %v)", s.Len(), len(m.keys), m.keys, s)
	}
	if full || r.hookNow {
		if err := s.VerifCheck(); err != nil {
			return fmt.Errorf("hashtable invariant: %v", err)
		}
	}
	if !full {
		return nil
	}
	for i, key := range r.keys {
		found, err := s.Has(key)
		if err != nil || found != m.has(i) {
			return fmt.Errorf("Has(%v)=%v,%v; model has=%v", key, found, err, m.has(i))
		}
	}
	it := s.Iterate()
	defer it.Done()
	for i, mk := range m.keys {
		var x starlark.Value
		if !it.Next(&x) {
			return fmt.Errorf("iteration ended at %d of %d", i, len(m.keys))
		}
		if x != r.keys[mk] {
			return fmt.Errorf("order differs at position %d: got %v, model %v (model order %v, set %v)", i, x, r.keys[mk], m.keys, s)
		}
	}
	var x starlark.Value
	if it.Next(&x) {
		return fmt.Errorf("iteration yields extra element %v", x)
	}
	return nil
}

func (r *runner) verify(full bool) error {
	if r.isDict {
		return r.verifyDict(r.dict, r.m, full)
	}
	return r.verifySet(r.set, r.m, full)
}

func (r *runner) final() error {
	// str, the comprehension path and equality with a freshly built equal collection.
	var sb strings.Builder
	if r.isDict {
		sb.WriteString("{")
		fresh := starlark.NewDict(0)
		for i, k := range r.m.keys {
			if i > 0 {
				sb.WriteString(", ")
			}
			fmt.Fprintf(&sb, "%s: %s", r.keys[k].String(), val(r.m.vals[k]).String())
			fresh.SetKey(r.keys[k], val(r.m.vals[k]))
		}
		sb.WriteString("}")
		if got := r.dict.String(); got != sb.String() {
			return fmt.Errorf("str(dict) = %s, model %s", got, sb.String())
		}
		if eq, err := starlark.Equal(r.dict, fresh); err != nil || !eq {
			return fmt.Errorf("dict != freshly built equal dict (%v)", err)
		}
		if eq, err := starlark.Equal(fresh, r.dict); err != nil || !eq {
			return fmt.Errorf("freshly built equal dict != dict (%v)", err)
		}
	} else {
		sb.WriteString("set([")
		fresh := starlark.NewSet(0)
		for i, k := range r.m.keys {
			if i > 0 {
				sb.WriteString(", ")
			}
			sb.WriteString(r.keys[k].String())
			fresh.Insert(r.keys[k])
		}
		sb.WriteString("])")
		if got := r.set.String(); got != sb.String() {
			return fmt.Errorf("str(set) = %s, model %s", got, sb.String())
		}
		if eq, err := starlark.Equal(r.set, fresh); err != nil || !eq {
			return fmt.Errorf("set != freshly built equal set (%v)", err)
		}
	}
	res, err := r.call(helpers["keys_by_loop"], r.coll())
	if err != nil {
		return fmt.Errorf("comprehension over collection: %v", err)
	}
	l := res.(*starlark.List)
	if l.Len() != len(r.m.keys) {
		return fmt.Errorf("comprehension yields %d elements, model %d", l.Len(), len(r.m.keys))
	}
	for i, k := range r.m.keys {
		if l.Index(i) != r.keys[k] {
			return fmt.Errorf("comprehension order differs at %d", i)
		}
	}
	return nil
}

func checkHistory(c Case) error {
	if c.NKeys <= 0 || (c.Dist == "explicit" && len(c.Hashes) == 0) {
		return fmt.Errorf("malformed case")
	}
	r := &runner{c: c, keys: universe(c), th: &starlark.Thread{Name: "c12"}, m: newModel(), isDict: c.Kind == "dict",
		deleted: map[int]bool{}}
	if r.isDict {
		r.dict = starlark.NewDict(0)
	} else {
		r.set = starlark.NewSet(0)
	}
	small := c.NKeys <= 64
	for i, op := range c.Ops {
		if err := r.step(i, op); err != nil {
			return err
		}
		r.noteLive()
		full := small || (c.FullEvery > 0 && i%c.FullEvery == c.FullEvery-1)
		r.hookNow = c.NKeys <= 256 || i%61 == 0
		if err := r.verify(full); err != nil {
			return fmt.Errorf("after step %d %+v: %v", i, op, err)
		}
	}
	if err := r.verify(true); err != nil {
		return fmt.Errorf("at end: %v", err)
	}
	if err := r.final(); err != nil {
		return fmt.Errorf("at end: %v", err)
	}
	cls := c.Kind + "/" + c.Dist
	vk.S.Class(cls)
	nt := false
	for name, b := range map[string]bool{"collision-delete": r.collDelete, "reinsert-after-delete": r.reinsert,
		"overflow-chain": r.overflow, "growth": r.grew} {
		if b {
			vk.S.Class("nt:" + name)
			nt = true
		}
	}
	if nt {
		vk.S.NonTrivial(fmt.Sprintf("%+v", c))
		vk.S.Sample("history", cls, c)
	}
	return nil
}

var subHistory = vk.Register("history", checkHistory)

// ---------------------------------------------------------------- generators

// Exhaustive: all sequences of exactly L ops over alphabet A1 (or A2) on 5 keys; prefixes are
// checked on the way, so all shorter sequences are covered too.
func alphabet(kind string, a2 bool) []Op {
	var ops []Op
	for k := 0; k < 5; k++ {
		ops = append(ops, Op{Name: "set", K: k})
	}
	for k := 0; k < 5; k++ {
		ops = append(ops, Op{Name: "del", K: k})
	}
	ops = append(ops, Op{Name: "popitem"}, Op{Name: "clear"})
	if a2 {
		if kind == "dict" {
			for k := 0; k < 5; k++ {
				ops = append(ops, Op{Name: "setdefault", K: k, V: 77})
			}
			for k := 0; k < 5; k++ {
				ops = append(ops, Op{Name: "pop", K: k, V: 5})
			}
			ops = append(ops, Op{Name: "update_pairs", Ks: []int{3, 0, 4}, Vs: []int{91, 92, 93}})
		} else {
			for k := 0; k < 5; k++ {
				ops = append(ops, Op{Name: "remove", K: k})
			}
			ops = append(ops, Op{Name: "update", Ks: []int{3, 0, 4}},
				Op{Name: "intersection", Ks: []int{4, 2, 0}, Adopt: true},
				Op{Name: "symmetric_difference", Ks: []int{1, 4}, Adopt: true, Star: true},
				Op{Name: "difference", Ks: []int{2}, Adopt: true},
				Op{Name: "union", Ks: []int{4, 3}, Adopt: true, Star: true})
		}
		ops = append(ops, Op{Name: "churn", K: 1, V: 3})
	}
	return ops
}

var explicitHashes = []uint32{0x1234abcd, 0x1234abcd, 0x1234abcd, 0x1234abc5, 0x00000007}

func enumerate(t *testing.T, kind string, a2 bool, L int) {
	alpha := alphabet(kind, a2)
	n := len(alpha)
	total := 1
	for i := 0; i < L; i++ {
		total *= n
	}
	vk.S.SetExhaustive(fmt.Sprintf("exhaustive-%s-A%d-len%d", kind, b2i(a2)+1, L), true)
	vk.Enum(t, subHistory, func(yield func(Case) bool) {
		idx := make([]int, L)
		for seq := 0; seq < total; seq++ {
			if !vk.Mine(seq / 64) {
				seq += 63 - seq%64
				continue
			}
			x := seq
			ops := make([]Op, L)
			for i := 0; i < L; i++ {
				idx[i] = x % n
				x /= n
				ops[i] = alpha[idx[i]]
				if ops[i].Name == "set" {
					ops[i].V = i + 1
				}
			}
			if !yield(Case{Kind: kind, Dist: "explicit", Hashes: explicitHashes, NKeys: 5, Ops: ops}) {
				return
			}
		}
	})
}

func b2i(b bool) int {
	if b {
		return 1
	}
	return 0
}

func TestPropExhaustive(t *testing.T) {
	l1, l2 := 6, 4
	if vk.Thorough() {
		l1, l2 = 7, 5
	}
	for _, kind := range []string{"dict", "set"} {
		enumerate(t, kind, false, l1)
		enumerate(t, kind, true, l2)
	}
}

var dists = []string{"equal", "lowbits", "fewchains", "twochains", "zeroish", "seq", "int", "str"}

func genOp(kind string, nkeys int) *rapid.Generator[Op] {
	key := rapid.IntRange(0, nkeys-1)
	// bias towards a small hot subset so that deletes hit live keys
	hot := rapid.OneOf(rapid.IntRange(0, min(nkeys-1, 11)), key, key)
	ks := rapid.SliceOfN(hot, 0, 12)
	return rapid.Custom(func(t *rapid.T) Op {
		var names []string
		if kind == "dict" {
			names = []string{"set", "set", "set", "set", "del", "del", "pop", "popitem", "setdefault", "update_pairs",
				"update_dict", "ior", "union", "clear", "churn", "set", "del", "refused"}
		} else {
			names = []string{"set", "set", "set", "set", "del", "del", "remove", "pop", "update", "union", "intersection",
				"difference", "symmetric_difference", "issubset", "issuperset", "proper", "subset-self", "clear", "churn", "set", "del", "refused"}
		}
		op := Op{Name: rapid.SampledFrom(names).Draw(t, "op")}
		switch op.Name {
		case "set", "setdefault":
			op.K = hot.Draw(t, "k")
			op.V = rapid.IntRange(0, 999).Draw(t, "v")
			op.Star = rapid.Bool().Draw(t, "star")
		case "subset-self":
			op.K = rapid.IntRange(0, 100000).Draw(t, "drop")
		case "refused":
			op.K = rapid.IntRange(0, 2).Draw(t, "form")
		case "del", "remove":
			op.K = hot.Draw(t, "k")
			op.Star = rapid.Bool().Draw(t, "star")
		case "pop":
			op.K = hot.Draw(t, "k")
			op.V = rapid.IntRange(-1, 3).Draw(t, "dflt")
		case "clear":
			op.Star = rapid.Bool().Draw(t, "star")
		case "churn":
			op.K = hot.Draw(t, "k")
			op.V = rapid.IntRange(0, 200).Draw(t, "n")
		case "popitem":
		default:
			op.Ks = ks.Draw(t, "ks")
			if kind == "dict" {
				op.Vs = rapid.SliceOfN(rapid.IntRange(0, 999), len(op.Ks), len(op.Ks)).Draw(t, "vs")
			}
			op.Adopt = rapid.Bool().Draw(t, "adopt")
			op.Star = rapid.Bool().Draw(t, "star")
		}
		return op
	})
}

func TestPropHistories(t *testing.T) {
	cases := vk.N(600, 500)
	maxOps := vk.N(2000, 10000)
	vk.Rapid(t, subHistory, cases, func(t *rapid.T) Case {
		c := Case{Kind: rapid.SampledFrom([]string{"dict", "set"}).Draw(t, "kind"),
			Dist: rapid.SampledFrom(dists).Draw(t, "dist")}
		maxKeys := 3000
		if c.Dist == "equal" || c.Dist == "zeroish" || c.Dist == "fewchains" || c.Dist == "twochains" {
			maxKeys = 200 // every operation scans one chain: keep it tractable
		}
		c.NKeys = rapid.SampledFrom([]int{3, 9, 20, 64, 150, maxKeys / 4, maxKeys}).Draw(t, "nkeys")
		c.FullEvery = 97
		n := rapid.SampledFrom([]int{8, 40, 200, maxOps / 4, maxOps}).Draw(t, "nops")
		c.Ops = rapid.SliceOfN(genOp(c.Kind, c.NKeys), n, n).Draw(t, "ops")
		return c
	})
}

// Long bucket lists: a set is filled with 130-300 keys that land in two or eight neighbouring bucket lists (each
// dozens of buckets deep), then whole-set comparisons and ordinary operations alternate.
func TestPropLongChains(t *testing.T) {
	vk.Rapid(t, subHistory, vk.N(60, 300), func(t *rapid.T) Case {
		c := Case{Kind: rapid.SampledFrom([]string{"set", "set", "dict"}).Draw(t, "kind"), Dist: rapid.SampledFrom([]string{"twochains", "twochains", "fewchains", "zeroish"}).Draw(t, "dist")}
		c.NKeys = rapid.IntRange(130, 300).Draw(t, "nkeys")
		if c.Dist == "fewchains" {
			c.NKeys = rapid.IntRange(560, 800).Draw(t, "nkeys8")
		}
		c.FullEvery = 50
		stride := rapid.SampledFrom([]int{1, 3, 7}).Draw(t, "stride")
		for i := 0; i < c.NKeys; i++ {
			c.Ops = append(c.Ops, Op{Name: "set", K: (i * stride) % c.NKeys, V: i})
		}
		tail := rapid.SliceOfN(genOp(c.Kind, c.NKeys), 20, 60).Draw(t, "tail")
		for i, o := range tail {
			if c.Kind == "set" && i%3 == 0 {
				c.Ops = append(c.Ops, Op{Name: "subset-self", K: rapid.IntRange(0, 100000).Draw(t, "drop")})
			}
			if o.Name == "clear" {
				continue
			}
			c.Ops = append(c.Ops, o)
		}
		return c
	})
}

// Bulk fill: drive tables through growth to thousands of buckets and back to empty repeatedly.
func TestPropGrowShrink(t *testing.T) {
	cases := vk.N(20, 60)
	vk.Rapid(t, subHistory, cases, func(t *rapid.T) Case {
		c := Case{Kind: rapid.SampledFrom([]string{"dict", "set"}).Draw(t, "kind"),
			Dist: rapid.SampledFrom([]string{"lowbits", "seq", "int", "str"}).Draw(t, "dist")}
		c.NKeys = rapid.IntRange(3000, vk.N(6000, 40000)).Draw(t, "nkeys")
		c.FullEvery = c.NKeys // only Len and the invariant hook between full checks
		rounds := rapid.IntRange(2, 3).Draw(t, "rounds")
		for r := 0; r < rounds; r++ {
			stride := rapid.SampledFrom([]int{1, 7, 11, 13}).Draw(t, "stride")
			for i := 0; i < c.NKeys; i++ {
				c.Ops = append(c.Ops, Op{Name: "set", K: (i * stride) % c.NKeys, V: r})
			}
			mode := rapid.SampledFrom([]string{"del", "popitem", "clear"}).Draw(t, "empty")
			switch mode {
			case "clear":
				c.Ops = append(c.Ops, Op{Name: "clear"})
			default:
				for i := 0; i < c.NKeys; i++ {
					c.Ops = append(c.Ops, Op{Name: mode, K: (i*stride + 5) % c.NKeys})
				}
			}
		}
		return c
	})
}

func TestReplay(t *testing.T) { vk.Replay(t) }
