// C18: JSON encoding and decoding are faithful.
//
// Sub-checks (one oracle each):
//
//	encode          a generated Starlark value x (None/bool/int/float/str/list/tuple/dict/struct, depth <= 6):
//	                json.encode(x) is valid JSON (encoding/json and the harness's own strict RFC 8259 parser),
//	                denotes the same data (ints exact, floats bit-identical, strings exact, object keys exact and
//	                sorted), json.decode(json.encode(x)) equals x with tuples->lists and structs->dicts, and
//	                json.encode_indent(x) is the same document modulo white space.
//	decode-valid    a document produced by a JSON grammar generator: json.decode agrees with the reference decoding.
//	decode-corrupt  a valid base document with one splice (byte/token corruption), the table of classic invalid
//	                documents in several contexts, and every short document over a small alphabet:
//	                invalid => decode fails and decode(doc, default) returns the default;
//	                valid   => decode succeeds, agrees with the reference, and does not return the default.
//
// The reference is a strict recursive-descent parser written here from RFC 8259; on every case it is itself
// cross-checked against encoding/json (json.Valid and a Decoder.UseNumber token walk).
package c18

import (
	"encoding/hex"
	gojson "encoding/json"
	"fmt"
	"math"
	"math/big"
	"regexp"
	"sort"
	"strconv"
	"strings"
	"testing"
	"unicode/utf8"

	sjson "go.starlark.net/lib/json"
	"go.starlark.net/starlark"
	"go.starlark.net/starlarkstruct"
	"pgregory.net/rapid"
	"verif/harness/vk"
)

func TestMain(m *testing.M) {
	vk.Describe("encode: generated values (None/bool/int up to 2^200/float/str with arbitrary Unicode and controls/list/tuple/dict with string keys/struct, depth <= 6, aliased sub-values) "+
		"checked through a strict RFC 8259 reference parser cross-checked with encoding/json. decode-valid: documents from a JSON grammar generator (arbitrary white space, every escape, "+
		"surrogate pairs, every number form, duplicate keys, nesting to depth 200). decode-corrupt: one splice applied to a valid document, a table of classic invalid documents in 8 contexts, "+
		"and all documents of length <= 4 (thorough: 5) over a 19-byte alphabet; validity decided by the reference parser and json.Valid together. "+
		"Non-trivial = (encode) the value has a container and a string needing an escape or non-ASCII, or a float, or an int beyond 2^63; "+
		"(decode-valid) the document has a string with an escape or a non-ASCII rune, a non-integer number and nesting >= 2; "+
		"(decode-corrupt) the splice falls inside a number or string token of the base document; distinct by the document/value text.",
		"excluded and counted: strings that are not valid UTF-8 (either direction), documents with an unpaired \\u surrogate escape (agreement of accept/reject is still checked), numbers outside the float64 range",
		"numbers: a literal without fraction and exponent must decode to the exact int; with a fraction to the float strconv.ParseFloat gives; with an exponent only, either that float or the exact int is accepted (json.go documents 'decimal point', the code also treats e/E as float)",
		"object key order produced by encode is asserted to be byte-wise sorted (the mechanism named by the property's anchors and asserted by starlark/testdata/json.star); the key order of decoded dicts is not asserted",
		"duplicate keys in a document: the last value wins, as in encoding/json",
		"nesting is kept <= 200 (deeper input can exhaust the Go stack of the recursive decoder: property C02)",
		"the go-fuzz variant named in DESIGN.md is not wired into the driver; the same oracle runs under rapid and exhaustive enumeration instead")
	vk.Main(m, "C18")
}

var (
	fnEncode       = sjson.Module.Members["encode"]
	fnEncodeIndent = sjson.Module.Members["encode_indent"]
	fnDecode       = sjson.Module.Members["decode"]
)

func callJ(fn starlark.Value, args ...starlark.Value) (starlark.Value, error) {
	th := &starlark.Thread{Name: "c18"}
	return starlark.Call(th, fn, starlark.Tuple(args), nil)
}

// ---------------------------------------------------------------- reference parser (RFC 8259)

// ref is a parsed JSON value.  Numbers keep their literal; objects keep every member in document order.
type ref struct {
	kind  string // null | bool | num | float | str | arr | obj       ("float" only in references built from values)
	b     bool
	lit   string
	bits  uint64
	s     string
	elems []*ref
	keys  []string
	vals  []*ref
}

type span struct {
	start, end int
	kind       byte // 's' string, 'n' number, 'l' literal, 'p' punctuation
}

type docInfo struct {
	spans     []span
	maxDepth  int
	escape    bool // some string has an escape
	nonASCII  bool // some string has a non-ASCII rune
	nonIntNum bool // some number has a fraction or exponent
	loneSurr  bool // some \u escape is an unpaired surrogate
	rangeNum  bool // some non-integer number is outside float64
	dupKey    bool
	ctrlEsc   bool // an escape denoting a control character
}

type parseErr struct {
	off int
	msg string
}

type parser struct {
	s     string
	i     int
	depth int
	info  *docInfo
}

const maxRefDepth = 1000

func (p *parser) fail(format string, args ...any) {
	panic(parseErr{p.i, fmt.Sprintf(format, args...)})
}

func (p *parser) ws() {
	for p.i < len(p.s) {
		switch p.s[p.i] {
		case ' ', '\t', '\n', '\r':
			p.i++
		default:
			return
		}
	}
}

// parseStrict parses a complete JSON text.  s must be valid UTF-8.
func parseStrict(s string) (r *ref, info *docInfo, err error) {
	p := &parser{s: s, info: &docInfo{}}
	defer func() {
		if x := recover(); x != nil {
			pe, ok := x.(parseErr)
			if !ok {
				panic(x)
			}
			r, err = nil, fmt.Errorf("offset %d: %s", pe.off, pe.msg)
		}
	}()
	p.ws()
	r = p.value()
	p.ws()
	if p.i < len(p.s) {
		p.fail("text after the value")
	}
	return r, p.info, nil
}

func (p *parser) value() *ref {
	if p.i >= len(p.s) {
		p.fail("unexpected end")
	}
	c := p.s[p.i]
	switch {
	case c == '{':
		return p.object()
	case c == '[':
		return p.array()
	case c == '"':
		start := p.i
		s := p.str()
		p.info.spans = append(p.info.spans, span{start, p.i, 's'})
		return &ref{kind: "str", s: s}
	case c == '-' || (c >= '0' && c <= '9'):
		return p.number()
	}
	for _, l := range []struct {
		text string
		r    ref
	}{{"null", ref{kind: "null"}}, {"true", ref{kind: "bool", b: true}}, {"false", ref{kind: "bool"}}} {
		if strings.HasPrefix(p.s[p.i:], l.text) {
			p.info.spans = append(p.info.spans, span{p.i, p.i + len(l.text), 'l'})
			p.i += len(l.text)
			r := l.r
			return &r
		}
	}
	p.fail("unexpected byte %q", c)
	return nil
}

func (p *parser) punct() {
	p.info.spans = append(p.info.spans, span{p.i, p.i + 1, 'p'})
	p.i++
}

func (p *parser) enter() {
	p.depth++
	if p.depth > p.info.maxDepth {
		p.info.maxDepth = p.depth
	}
	if p.depth > maxRefDepth {
		p.fail("too deep for the harness")
	}
}

func (p *parser) array() *ref {
	p.enter()
	defer func() { p.depth-- }()
	r := &ref{kind: "arr"}
	p.punct() // [
	p.ws()
	if p.i < len(p.s) && p.s[p.i] == ']' {
		p.punct()
		return r
	}
	for {
		p.ws()
		r.elems = append(r.elems, p.value())
		p.ws()
		if p.i >= len(p.s) {
			p.fail("unexpected end in array")
		}
		if p.s[p.i] == ',' {
			p.punct()
			continue
		}
		if p.s[p.i] == ']' {
			p.punct()
			return r
		}
		p.fail("want , or ] in array")
	}
}

func (p *parser) object() *ref {
	p.enter()
	defer func() { p.depth-- }()
	r := &ref{kind: "obj"}
	p.punct() // {
	p.ws()
	if p.i < len(p.s) && p.s[p.i] == '}' {
		p.punct()
		return r
	}
	seen := map[string]bool{}
	for {
		p.ws()
		if p.i >= len(p.s) || p.s[p.i] != '"' {
			p.fail("want a string key")
		}
		start := p.i
		k := p.str()
		p.info.spans = append(p.info.spans, span{start, p.i, 's'})
		if seen[k] {
			p.info.dupKey = true
		}
		seen[k] = true
		p.ws()
		if p.i >= len(p.s) || p.s[p.i] != ':' {
			p.fail("want : after key")
		}
		p.punct()
		p.ws()
		v := p.value()
		r.keys = append(r.keys, k)
		r.vals = append(r.vals, v)
		p.ws()
		if p.i >= len(p.s) {
			p.fail("unexpected end in object")
		}
		if p.s[p.i] == ',' {
			p.punct()
			continue
		}
		if p.s[p.i] == '}' {
			p.punct()
			return r
		}
		p.fail("want , or } in object")
	}
}

func hexval(c byte) int {
	switch {
	case c >= '0' && c <= '9':
		return int(c - '0')
	case c >= 'a' && c <= 'f':
		return int(c-'a') + 10
	case c >= 'A' && c <= 'F':
		return int(c-'A') + 10
	}
	return -1
}

// u4 reads 4 hex digits at offset i, or returns -1.
func (p *parser) u4(i int) int {
	if i+4 > len(p.s) {
		return -1
	}
	v := 0
	for k := 0; k < 4; k++ {
		h := hexval(p.s[i+k])
		if h < 0 {
			return -1
		}
		v = v<<4 | h
	}
	return v
}

func (p *parser) str() string {
	var sb strings.Builder
	p.i++ // opening quote
	for {
		if p.i >= len(p.s) {
			p.fail("unterminated string")
		}
		c := p.s[p.i]
		switch {
		case c == '"':
			p.i++
			return sb.String()
		case c < 0x20:
			p.fail("raw control character %#x in string", c)
		case c == '\\':
			p.info.escape = true
			if p.i+1 >= len(p.s) {
				p.fail("unterminated escape")
			}
			e := p.s[p.i+1]
			p.i += 2
			switch e {
			case '"', '\\', '/':
				sb.WriteByte(e)
			case 'b':
				sb.WriteByte('\b')
				p.info.ctrlEsc = true
			case 'f':
				sb.WriteByte('\f')
				p.info.ctrlEsc = true
			case 'n':
				sb.WriteByte('\n')
				p.info.ctrlEsc = true
			case 'r':
				sb.WriteByte('\r')
				p.info.ctrlEsc = true
			case 't':
				sb.WriteByte('\t')
				p.info.ctrlEsc = true
			case 'u':
				v := p.u4(p.i)
				if v < 0 {
					p.fail("bad \\u escape")
				}
				p.i += 4
				switch {
				case v >= 0xD800 && v < 0xDC00:
					// high surrogate: needs \uDC00..\uDFFF next
					if p.i+6 <= len(p.s) && p.s[p.i] == '\\' && p.s[p.i+1] == 'u' {
						if lo := p.u4(p.i + 2); lo >= 0xDC00 && lo < 0xE000 {
							p.i += 6
							sb.WriteRune(rune(0x10000 + (v-0xD800)<<10 + (lo - 0xDC00)))
							break
						}
					}
					p.info.loneSurr = true
					sb.WriteRune(utf8.RuneError)
				case v >= 0xDC00 && v < 0xE000:
					p.info.loneSurr = true
					sb.WriteRune(utf8.RuneError)
				default:
					if v < 0x20 {
						p.info.ctrlEsc = true
					}
					sb.WriteRune(rune(v))
				}
			default:
				p.i -= 2
				p.fail("bad escape \\%c", e)
			}
		default:
			if c >= 0x80 {
				p.info.nonASCII = true
			}
			sb.WriteByte(c)
			p.i++
		}
	}
}

func isDigit(c byte) bool { return c >= '0' && c <= '9' }

func (p *parser) digits() int {
	n := 0
	for p.i < len(p.s) && isDigit(p.s[p.i]) {
		p.i++
		n++
	}
	return n
}

func (p *parser) number() *ref {
	start := p.i
	if p.s[p.i] == '-' {
		p.i++
	}
	if p.i >= len(p.s) || !isDigit(p.s[p.i]) {
		p.fail("digit expected")
	}
	if p.s[p.i] == '0' {
		p.i++
	} else {
		p.digits()
	}
	if p.i < len(p.s) && p.s[p.i] == '.' {
		p.i++
		if p.digits() == 0 {
			p.fail("digit expected after .")
		}
	}
	if p.i < len(p.s) && (p.s[p.i] == 'e' || p.s[p.i] == 'E') {
		p.i++
		if p.i < len(p.s) && (p.s[p.i] == '+' || p.s[p.i] == '-') {
			p.i++
		}
		if p.digits() == 0 {
			p.fail("digit expected in exponent")
		}
	}
	lit := p.s[start:p.i]
	p.info.spans = append(p.info.spans, span{start, p.i, 'n'})
	if numKind(lit) != "int" {
		p.info.nonIntNum = true
		if _, err := strconv.ParseFloat(lit, 64); err != nil {
			p.info.rangeNum = true
		}
	}
	return &ref{kind: "num", lit: lit}
}

// numKind: "int" (no fraction, no exponent), "frac" (has a decimal point), "exp" (exponent only).
func numKind(lit string) string {
	if strings.Contains(lit, ".") {
		return "frac"
	}
	if strings.ContainsAny(lit, "eE") {
		return "exp"
	}
	return "int"
}

// crossCheck compares the harness parser with encoding/json on one text (valid UTF-8).
// It returns an error when the two references disagree: that is a harness defect, never a finding.
func crossCheck(doc string, r *ref, perr error) error {
	valid := gojson.Valid([]byte(doc))
	if valid != (perr == nil) {
		return fmt.Errorf("HARNESS: reference parsers disagree on %q: json.Valid=%v, strict parser: %v", doc, valid, perr)
	}
	if !valid {
		return nil
	}
	dec := gojson.NewDecoder(strings.NewReader(doc))
	dec.UseNumber()
	var walk func(r *ref) error
	walk = func(r *ref) error {
		tok, err := dec.Token()
		if err != nil {
			return fmt.Errorf("token: %v", err)
		}
		switch r.kind {
		case "null":
			if tok != nil {
				return fmt.Errorf("want null, encoding/json has %v", tok)
			}
		case "bool":
			if b, ok := tok.(bool); !ok || b != r.b {
				return fmt.Errorf("want %v, encoding/json has %v", r.b, tok)
			}
		case "num":
			if n, ok := tok.(gojson.Number); !ok || string(n) != r.lit {
				return fmt.Errorf("want number %s, encoding/json has %v", r.lit, tok)
			}
		case "str":
			if s, ok := tok.(string); !ok || s != r.s {
				return fmt.Errorf("want string %q, encoding/json has %#v", r.s, tok)
			}
		case "arr":
			if d, ok := tok.(gojson.Delim); !ok || d != '[' {
				return fmt.Errorf("want [, encoding/json has %v", tok)
			}
			for _, e := range r.elems {
				if err := walk(e); err != nil {
					return err
				}
			}
			if tok, _ := dec.Token(); tok != gojson.Delim(']') {
				return fmt.Errorf("want ], encoding/json has %v", tok)
			}
		case "obj":
			if d, ok := tok.(gojson.Delim); !ok || d != '{' {
				return fmt.Errorf("want {, encoding/json has %v", tok)
			}
			for i, k := range r.keys {
				if tok, _ := dec.Token(); tok != k {
					return fmt.Errorf("want key %q, encoding/json has %#v", k, tok)
				}
				if err := walk(r.vals[i]); err != nil {
					return err
				}
			}
			if tok, _ := dec.Token(); tok != gojson.Delim('}') {
				return fmt.Errorf("want }, encoding/json has %v", tok)
			}
		}
		return nil
	}
	if err := walk(r); err != nil {
		return fmt.Errorf("HARNESS: reference parsers disagree on %q: %v", doc, err)
	}
	return nil
}

// same compares a decoded Starlark value with the reference, strictly (int vs float, -0.0, list vs tuple).
func same(got starlark.Value, w *ref, path string) error {
	bad := func(format string, args ...any) error {
		return fmt.Errorf("at %s: %s", path, fmt.Sprintf(format, args...))
	}
	if got == nil {
		return bad("nil value")
	}
	switch w.kind {
	case "null":
		if got != starlark.None {
			return bad("got %s %v, want None", got.Type(), got)
		}
	case "bool":
		if got != starlark.Bool(w.b) {
			return bad("got %s %v, want %v", got.Type(), got, w.b)
		}
	case "float":
		f, ok := got.(starlark.Float)
		if !ok || math.Float64bits(float64(f)) != w.bits {
			return bad("got %s %v, want float %v (bit-identical)", got.Type(), got, math.Float64frombits(w.bits))
		}
	case "num":
		switch numKind(w.lit) {
		case "int":
			want, _ := new(big.Int).SetString(w.lit, 10)
			i, ok := got.(starlark.Int)
			if !ok || i.BigInt().Cmp(want) != 0 {
				return bad("got %s %v, want int %s", got.Type(), got, w.lit)
			}
		default:
			want, err := strconv.ParseFloat(w.lit, 64)
			if err != nil {
				return bad("HARNESS: number %s out of range reached the comparison", w.lit)
			}
			switch g := got.(type) {
			case starlark.Float:
				if math.Float64bits(float64(g)) != math.Float64bits(want) {
					return bad("got float %v, want %v for literal %s", g, want, w.lit)
				}
			case starlark.Int:
				q, ok := new(big.Rat).SetString(w.lit)
				if numKind(w.lit) != "exp" || !ok || !q.IsInt() || q.Num().Cmp(g.BigInt()) != 0 {
					return bad("got int %v for literal %s", g, w.lit)
				}
			default:
				return bad("got %s %v, want a number for literal %s", got.Type(), got, w.lit)
			}
		}
	case "str":
		s, ok := got.(starlark.String)
		if !ok || string(s) != w.s {
			return bad("got %s %s, want string %q", got.Type(), got.String(), w.s)
		}
	case "arr":
		l, ok := got.(*starlark.List)
		if !ok {
			return bad("got %s, want list", got.Type())
		}
		if l.Len() != len(w.elems) {
			return bad("got list of %d, want %d elements", l.Len(), len(w.elems))
		}
		for i, e := range w.elems {
			if err := same(l.Index(i), e, fmt.Sprintf("%s[%d]", path, i)); err != nil {
				return err
			}
		}
	case "obj":
		d, ok := got.(*starlark.Dict)
		if !ok {
			return bad("got %s, want dict", got.Type())
		}
		last := map[string]*ref{}
		var order []string
		for i, k := range w.keys {
			if _, ok := last[k]; !ok {
				order = append(order, k)
			}
			last[k] = w.vals[i]
		}
		if d.Len() != len(order) {
			return bad("got dict of %d entries, want %d", d.Len(), len(order))
		}
		for _, k := range order {
			v, found, err := d.Get(starlark.String(k))
			if err != nil || !found {
				return bad("key %q missing from dict", k)
			}
			if err := same(v, last[k], fmt.Sprintf("%s[%q]", path, k)); err != nil {
				return err
			}
		}
	default:
		return bad("HARNESS: bad reference kind %q", w.kind)
	}
	return nil
}

// ---------------------------------------------------------------- values for encode

type Str struct {
	S string `json:"s,omitempty"`
	X string `json:"x,omitempty"` // hex, used instead of S when the string is not valid UTF-8
}

func mkStr(s string) Str {
	if utf8.ValidString(s) {
		return Str{S: s}
	}
	return Str{X: hex.EncodeToString([]byte(s))}
}

func (s Str) get() string {
	if s.X != "" {
		b, _ := hex.DecodeString(s.X)
		return string(b)
	}
	return s.S
}

// Node describes a Starlark value.
type Node struct {
	T string `json:"t"` // none bool int float str list tuple dict struct same (= the previous sibling's object again)
	B bool   `json:"b,omitempty"`
	I string `json:"i,omitempty"`
	F uint64 `json:"f,omitempty"`
	S *Str   `json:"s,omitempty"`
	K []Str  `json:"k,omitempty"`
	E []Node `json:"e,omitempty"`
}

// eff resolves "same" elements to the index of the sibling they alias (-1: none, treated as None).
func eff(e []Node, i int) int {
	for i >= 0 && e[i].T == "same" {
		i--
	}
	return i
}

type valInfo struct {
	invalidUTF8, nonFinite, container, hardString, float, bigInt, del bool
	depth                                                             int
}

func build(n Node, depth int, vi *valInfo) (starlark.Value, error) {
	if depth > vi.depth {
		vi.depth = depth
	}
	if depth > 8 {
		return nil, fmt.Errorf("malformed case: too deep")
	}
	noteStr := func(s string) {
		if !utf8.ValidString(s) {
			vi.invalidUTF8 = true
		}
		ascii := true
		for i := 0; i < len(s); i++ {
			if s[i] < 0x20 || s[i] >= 0x7f || s[i] == '"' || s[i] == '\\' {
				vi.hardString = true
			}
			if s[i] < 0x20 || s[i] >= 0x80 {
				ascii = false
			}
		}
		if ascii && strings.Contains(s, "\x7f") {
			vi.del = true
		}
	}
	switch n.T {
	case "none", "same":
		return starlark.None, nil
	case "bool":
		return starlark.Bool(n.B), nil
	case "int":
		b, ok := new(big.Int).SetString(n.I, 10)
		if !ok {
			return nil, fmt.Errorf("malformed case: int %q", n.I)
		}
		if !b.IsInt64() {
			vi.bigInt = true
		}
		return starlark.MakeBigInt(b), nil
	case "float":
		f := math.Float64frombits(n.F)
		if math.IsNaN(f) || math.IsInf(f, 0) {
			vi.nonFinite = true
		}
		vi.float = true
		return starlark.Float(f), nil
	case "str":
		if n.S == nil {
			return starlark.String(""), nil
		}
		noteStr(n.S.get())
		return starlark.String(n.S.get()), nil
	case "list", "tuple", "dict", "struct":
		vi.container = true
		vals := make([]starlark.Value, len(n.E))
		for i := range n.E {
			if j := eff(n.E, i); j != i {
				if j < 0 {
					vals[i] = starlark.None
				} else {
					vals[i] = vals[j] // the same object again
				}
				continue
			}
			v, err := build(n.E[i], depth+1, vi)
			if err != nil {
				return nil, err
			}
			vals[i] = v
		}
		switch n.T {
		case "list":
			return starlark.NewList(vals), nil
		case "tuple":
			return starlark.Tuple(vals), nil
		}
		if len(n.K) != len(n.E) {
			return nil, fmt.Errorf("malformed case: %d keys, %d values", len(n.K), len(n.E))
		}
		seen := map[string]bool{}
		for _, k := range n.K {
			if seen[k.get()] {
				return nil, fmt.Errorf("malformed case: duplicate key")
			}
			seen[k.get()] = true
			noteStr(k.get())
		}
		if n.T == "dict" {
			d := starlark.NewDict(len(vals))
			for i, k := range n.K {
				if err := d.SetKey(starlark.String(k.get()), vals[i]); err != nil {
					return nil, err
				}
			}
			return d, nil
		}
		sd := starlark.StringDict{}
		for i, k := range n.K {
			sd[k.get()] = vals[i]
		}
		return starlarkstruct.FromStringDict(starlarkstruct.Default, sd), nil
	}
	return nil, fmt.Errorf("malformed case: node type %q", n.T)
}

// model turns a Node into the reference it must decode to (tuples -> arrays, structs -> objects with sorted keys).
func model(n Node) *ref {
	switch n.T {
	case "none", "same":
		return &ref{kind: "null"}
	case "bool":
		return &ref{kind: "bool", b: n.B}
	case "int":
		b, _ := new(big.Int).SetString(n.I, 10)
		return &ref{kind: "num", lit: b.String()}
	case "float":
		return &ref{kind: "float", bits: n.F}
	case "str":
		if n.S == nil {
			return &ref{kind: "str"}
		}
		return &ref{kind: "str", s: n.S.get()}
	}
	kids := make([]*ref, len(n.E))
	for i := range n.E {
		if j := eff(n.E, i); j < 0 {
			kids[i] = &ref{kind: "null"}
		} else {
			kids[i] = model(n.E[j])
		}
	}
	if n.T == "list" || n.T == "tuple" {
		return &ref{kind: "arr", elems: kids}
	}
	r := &ref{kind: "obj"}
	idx := make([]int, len(n.K))
	for i := range idx {
		idx[i] = i
	}
	sort.Slice(idx, func(a, b int) bool { return n.K[idx[a]].get() < n.K[idx[b]].get() })
	for _, i := range idx {
		r.keys = append(r.keys, n.K[i].get())
		r.vals = append(r.vals, kids[i])
	}
	return r
}

// matchEnc compares the parsed output of json.encode with the model of the value.
func matchEnc(got, want *ref, path string) error {
	bad := func(format string, args ...any) error {
		return fmt.Errorf("at %s: %s", path, fmt.Sprintf(format, args...))
	}
	switch want.kind {
	case "null":
		if got.kind != "null" {
			return bad("encoded as %s, want null", got.kind)
		}
	case "bool":
		if got.kind != "bool" || got.b != want.b {
			return bad("encoded as %s %v, want %v", got.kind, got.b, want.b)
		}
	case "num": // an int
		if got.kind != "num" || numKind(got.lit) != "int" {
			return bad("int %s encoded as %s %s", want.lit, got.kind, got.lit)
		}
		g, _ := new(big.Int).SetString(got.lit, 10)
		w, _ := new(big.Int).SetString(want.lit, 10)
		if g == nil || g.Cmp(w) != 0 {
			return bad("int %s encoded as %s", want.lit, got.lit)
		}
	case "float":
		f := math.Float64frombits(want.bits)
		if got.kind != "num" {
			return bad("float %v encoded as %s", f, got.kind)
		}
		if numKind(got.lit) == "int" {
			return bad("float %v encoded as %s, which reads back as an int", f, got.lit)
		}
		g, err := strconv.ParseFloat(got.lit, 64)
		if err != nil || math.Float64bits(g) != want.bits {
			return bad("float %v (bits %#x) encoded as %s, which reads back as %v (bits %#x)", f, want.bits, got.lit, g, math.Float64bits(g))
		}
	case "str":
		if got.kind != "str" || got.s != want.s {
			return bad("string %q encoded as %s %q", want.s, got.kind, got.s)
		}
	case "arr":
		if got.kind != "arr" || len(got.elems) != len(want.elems) {
			return bad("sequence of %d encoded as %s of %d", len(want.elems), got.kind, len(got.elems))
		}
		for i := range want.elems {
			if err := matchEnc(got.elems[i], want.elems[i], fmt.Sprintf("%s[%d]", path, i)); err != nil {
				return err
			}
		}
	case "obj":
		if got.kind != "obj" || len(got.keys) != len(want.keys) {
			return bad("mapping of %d entries encoded as %s of %d", len(want.keys), got.kind, len(got.keys))
		}
		for i, k := range want.keys { // want.keys is sorted
			if got.keys[i] != k {
				return bad("member %d has key %q, want %q (keys exact and in sorted order)", i, got.keys[i], k)
			}
			if err := matchEnc(got.vals[i], want.vals[i], fmt.Sprintf("%s[%q]", path, k)); err != nil {
				return err
			}
		}
	}
	return nil
}

// repairDEL rewrites the \x7f escapes (not JSON) inside string literals of an encoder output as \u007f.
func repairDEL(out string) (string, int) {
	var sb strings.Builder
	n := 0
	in := false
	for i := 0; i < len(out); i++ {
		c := out[i]
		if !in {
			if c == '"' {
				in = true
			}
			sb.WriteByte(c)
			continue
		}
		switch {
		case c == '\\' && strings.HasPrefix(out[i:], `\x7f`):
			sb.WriteString(`\u007f`)
			n++
			i += 3
		case c == '\\' && i+1 < len(out):
			sb.WriteByte(c)
			sb.WriteByte(out[i+1])
			i++
		case c == '"':
			in = false
			sb.WriteByte(c)
		default:
			sb.WriteByte(c)
		}
	}
	return sb.String(), n
}

type EncCase struct {
	V Node `json:"v"`
}

func checkEncode(c EncCase) error {
	vi := &valInfo{}
	x, err := build(c.V, 0, vi)
	if err != nil {
		return err
	}
	out, eerr := callJ(fnEncode, x)
	if vi.nonFinite {
		vk.S.Class("enc:non-finite-float")
		if eerr == nil {
			return fmt.Errorf("json.encode of a value with a non-finite float succeeded: %v", out)
		}
		return nil
	}
	if vi.invalidUTF8 {
		// cannot be denoted by a JSON text: only "does not crash" is observed
		vk.S.Class("excluded:invalid-utf8-string")
		return nil
	}
	if eerr != nil {
		return fmt.Errorf("json.encode failed on a JSON-representable value: %v", eerr)
	}
	os, ok := out.(starlark.String)
	if !ok {
		return fmt.Errorf("json.encode returned %s", out.Type())
	}
	doc := string(os)
	if !utf8.ValidString(doc) {
		return fmt.Errorf("json.encode returned text that is not valid UTF-8: %q", doc)
	}

	// catalogued defect: DEL inside an otherwise printable-ASCII string is written as \x7f
	var known error
	if !gojson.Valid([]byte(doc)) && vi.del {
		if fixed, n := repairDEL(doc); n > 0 && gojson.Valid([]byte(fixed)) {
			known = vk.Known("C18-encode-del-escape", fmt.Errorf("json.encode returned invalid JSON %q: DEL (0x7f) is written as \\x7f, which is not a JSON escape", clip(doc)))
			if !vk.KnownActive("C18-encode-del-escape") {
				return known
			}
			doc = fixed // go on with the remaining checks on the repaired text
		}
	}

	r, _, perr := parseStrict(doc)
	if err := crossCheck(doc, r, perr); err != nil {
		return err
	}
	if perr != nil {
		return fmt.Errorf("json.encode returned invalid JSON %q: %v", clip(doc), perr)
	}
	want := model(c.V)
	if err := matchEnc(r, want, "x"); err != nil {
		return fmt.Errorf("json.encode returned %q: %v", clip(doc), err)
	}

	// decode(encode(x)) == x
	back, err := callJ(fnDecode, starlark.String(doc))
	if err != nil {
		return fmt.Errorf("json.decode(json.encode(x)) failed for %q: %v", clip(doc), err)
	}
	if err := same(back, want, "x"); err != nil {
		return fmt.Errorf("json.decode(json.encode(x)) != x for %q: %v", clip(doc), err)
	}

	// encode_indent(x) is the same document modulo white space
	if known == nil {
		ind, err := callJ(fnEncodeIndent, x)
		if err != nil {
			return fmt.Errorf("json.encode_indent failed: %v", err)
		}
		is, _ := ind.(starlark.String)
		ri, _, ierr := parseStrict(string(is))
		if ierr != nil {
			return fmt.Errorf("json.encode_indent returned invalid JSON %q: %v", clip(string(is)), ierr)
		}
		if err := matchEnc(ri, want, "x"); err != nil {
			return fmt.Errorf("json.encode_indent returned %q: %v", clip(string(is)), err)
		}
	}

	// classification
	vk.S.Class(fmt.Sprintf("enc:depth=%d", vi.depth))
	vk.S.Class("enc:top=" + c.V.T)
	for name, b := range map[string]bool{"hard-string": vi.hardString, "float": vi.float, "big-int": vi.bigInt} {
		if b {
			vk.S.Class("enc:has-" + name)
		}
	}
	if (vi.container && vi.hardString) || vi.float || vi.bigInt {
		vk.S.NonTrivial("enc " + doc)
		vk.S.Sample("encode", "non-trivial", c)
	}
	return known
}

func clip(s string) string {
	if len(s) > 300 {
		return s[:300] + "..."
	}
	return s
}

var subEncode = vk.Register("encode", checkEncode)

// ---------------------------------------------------------------- decode oracle

// DocCase is a base document with one optional splice: Base[Pos:Pos+Len] is replaced by Ins.
type DocCase struct {
	Base string `json:"base,omitempty"`
	Hex  string `json:"hex,omitempty"` // hex of the base when it is not valid UTF-8
	Mut  string `json:"mut,omitempty"` // label of the corruption ("" = none)
	Pos  int    `json:"pos,omitempty"`
	Len  int    `json:"len,omitempty"`
	Ins  string `json:"ins,omitempty"`
	// Rep > 0: the base is Open + Unit repeated Rep times (comma separated) + Close: wide, shallow documents.
	Rep   int    `json:"rep,omitempty"`
	Unit  string `json:"unit,omitempty"`
	Open  string `json:"open,omitempty"`
	Close string `json:"close,omitempty"`
}

func (c DocCase) base() string {
	if c.Hex != "" {
		b, _ := hex.DecodeString(c.Hex)
		return string(b)
	}
	if c.Rep > 0 {
		var sb strings.Builder
		sb.WriteString(c.Open)
		for i := 0; i < c.Rep; i++ {
			if i > 0 {
				sb.WriteString(",")
			}
			sb.WriteString(strings.ReplaceAll(c.Unit, "#", strconv.Itoa(i)))
		}
		sb.WriteString(c.Close)
		return sb.String()
	}
	return c.Base
}

func (c DocCase) doc() string {
	b := c.base()
	if c.Mut == "" {
		return b
	}
	pos := min(max(c.Pos, 0), len(b))
	end := min(pos+max(c.Len, 0), len(b))
	return b[:pos] + c.Ins + b[end:]
}

var laxNumRE = regexp.MustCompile(`^(-?)([0-9]*)(\.?)([0-9]*)((?:[eE][+-]?[0-9]+)?)$`)

// repairLax rewrites the two catalogued laxities of the decoder into their strict equivalents:
// numbers with a bare decimal point ("1." "1.e3" "-.5") and raw control characters in strings that have
// neither an escape nor a non-ASCII byte.  It reports how many of each it rewrote.
func repairLax(doc string) (fixed string, nums, ctrls int) {
	var sb strings.Builder
	for i := 0; i < len(doc); {
		c := doc[i]
		switch {
		case c == '"':
			j := i + 1
			safe, closed := true, false
			for ; j < len(doc); j++ {
				b := doc[j]
				if b == '\\' {
					safe = false
					j++
				} else if b == '"' {
					closed = true
					j++
					break
				} else if b >= 0x80 {
					safe = false
				}
			}
			if j > len(doc) {
				j = len(doc)
			}
			lit := doc[i:j]
			if safe && closed {
				for k := 0; k < len(lit); k++ {
					if lit[k] < 0x20 {
						fmt.Fprintf(&sb, `\u%04x`, lit[k])
						ctrls++
					} else {
						sb.WriteByte(lit[k])
					}
				}
			} else {
				sb.WriteString(lit)
			}
			i = j
		case c == '-' || isDigit(c):
			j := i + 1
			for j < len(doc) && (isDigit(doc[j]) || strings.IndexByte(".eE+-", doc[j]) >= 0) {
				j++
			}
			lit := doc[i:j]
			if m := laxNumRE.FindStringSubmatch(lit); m != nil && m[3] == "." && (m[2] == "") != (m[4] == "") {
				if m[2] == "" {
					m[2] = "0"
				} else {
					m[4] = "0"
				}
				sb.WriteString(m[1] + m[2] + m[3] + m[4] + m[5])
				nums++
			} else {
				sb.WriteString(lit)
			}
			i = j
		default:
			sb.WriteByte(c)
			i++
		}
	}
	return sb.String(), nums, ctrls
}

// nestingDepth is the deepest bracket nesting of doc, string contents skipped (wide documents are not deep).
func nestingDepth(doc string) int {
	depth, deepest := 0, 0
	inStr := false
	for i := 0; i < len(doc); i++ {
		switch c := doc[i]; {
		case inStr && c == '\\':
			i++
		case c == '"':
			inStr = !inStr
		case inStr:
		case c == '[' || c == '{':
			depth++
			if depth > deepest {
				deepest = depth
			}
		case c == ']' || c == '}':
			depth--
		}
	}
	return deepest
}

func checkDoc(sub string) func(DocCase) error {
	return func(c DocCase) error {
		doc := c.doc()
		if len(doc) > 1<<20 {
			return fmt.Errorf("malformed case: document too long")
		}
		if nestingDepth(doc) > maxRefDepth {
			vk.S.Class("excluded:too-deep")
			return nil
		}
		sentinel := starlark.NewList(nil)
		v1, err1 := callJ(fnDecode, starlark.String(doc))
		v2, err2 := callJ(fnDecode, starlark.String(doc), sentinel)
		if !utf8.ValidString(doc) {
			vk.S.Class("excluded:invalid-utf8-document") // observed only for crashes
			return nil
		}
		r, info, perr := parseStrict(doc)
		if err := crossCheck(doc, r, perr); err != nil {
			return err
		}
		valid := perr == nil
		label := c.Mut
		if label == "" {
			label = "none"
		}
		if err2 != nil {
			return fmt.Errorf("json.decode(%q, default) failed: %v", clip(doc), err2)
		}

		if !valid {
			vk.S.Class(sub + ":invalid/" + label)
			if c.Mut != "" {
				if _, binfo, berr := parseStrict(c.base()); berr == nil && utf8.ValidString(c.base()) {
					for _, sp := range binfo.spans {
						if (sp.kind == 'n' || sp.kind == 's') && c.Pos >= sp.start && c.Pos <= sp.end {
							vk.S.Class(sub + ":nt:corruption-in-" + map[byte]string{'n': "number", 's': "string"}[sp.kind])
							vk.S.NonTrivial("corrupt " + doc)
							break
						}
					}
				}
			}
			if err1 != nil && v2 == starlark.Value(sentinel) {
				return nil
			}
			var e error
			if err1 == nil {
				e = fmt.Errorf("json.decode accepted the invalid document %q (%v) and returned %s %v", clip(doc), perr, v1.Type(), clip(v1.String()))
			} else {
				e = fmt.Errorf("json.decode(%q, default) returned %v instead of the default for an invalid document (%v)", clip(doc), v2, perr)
			}
			if err1 == nil && v2 != starlark.Value(sentinel) {
				if fixed, nums, ctrls := repairLax(doc); nums+ctrls > 0 && gojson.Valid([]byte(fixed)) {
					switch {
					case nums > 0 && ctrls > 0:
						if vk.KnownActive("C18-decode-lax-number") && vk.KnownActive("C18-decode-raw-control-char") {
							return vk.Known("C18-decode-lax-number", e)
						}
					case nums > 0:
						return vk.Known("C18-decode-lax-number", e)
					default:
						return vk.Known("C18-decode-raw-control-char", e)
					}
				}
			}
			return e
		}

		// valid document
		if info.rangeNum {
			vk.S.Class("excluded:number-beyond-float64")
			return nil
		}
		vk.S.Class(sub + ":valid/" + label)
		if err1 != nil {
			return fmt.Errorf("json.decode rejected the valid document %q: %v", clip(doc), err1)
		}
		if v2 == starlark.Value(sentinel) {
			return fmt.Errorf("json.decode(%q, default) returned the default for a valid document", clip(doc))
		}
		if info.loneSurr {
			vk.S.Class("excluded:lone-surrogate") // accept/reject agreement checked above, content not compared
			return nil
		}
		if err := same(v1, r, "doc"); err != nil {
			return fmt.Errorf("json.decode(%q): %v", clip(doc), err)
		}
		if err := same(v2, r, "doc"); err != nil {
			return fmt.Errorf("json.decode(%q, default): %v", clip(doc), err)
		}
		for name, b := range map[string]bool{"escape": info.escape, "control-escape": info.ctrlEsc, "non-ascii": info.nonASCII,
			"non-int-number": info.nonIntNum, "dup-key": info.dupKey, "depth>=2": info.maxDepth >= 2, "depth>=50": info.maxDepth >= 50} {
			if b {
				vk.S.Class(sub + ":has-" + name)
			}
		}
		if (info.escape || info.nonASCII) && info.nonIntNum && info.maxDepth >= 2 {
			vk.S.NonTrivial("doc " + doc)
			vk.S.Sample(sub, "non-trivial", c)
		}
		return nil
	}
}

var (
	subValid   = vk.Register("decode-valid", checkDoc("decode-valid"))
	subCorrupt = vk.Register("decode-corrupt", checkDoc("decode-corrupt"))
)

// ---------------------------------------------------------------- generators: values

func pick[T any](t *rapid.T, label string, xs ...T) T { return rapid.SampledFrom(xs).Draw(t, label) }

var specialRunes = []rune{0x80, 0xa0, 0xe9, 0xff, 0x100, 0x7ff, 0x800, 0x2028, 0x2029, 0xd7ff, 0xe000, 0xfeff, 0xfffd, 0xfffe, 0xffff,
	0x10000, 0x1f600, 0x1f639, 0x10ffff}

func genRune(t *rapid.T) rune {
	r := rune(rapid.IntRange(0, 0x10ffff-0x800).Draw(t, "rune"))
	if r >= 0xd800 {
		r += 0x800 // skip the surrogate block
	}
	return r
}

func genText(t *rapid.T, allowInvalid bool) string {
	var sb strings.Builder
	n := rapid.IntRange(0, 10).Draw(t, "pieces")
	for i := 0; i < n; i++ {
		switch rapid.IntRange(0, 11).Draw(t, "piece") {
		case 0, 1, 2:
			sb.WriteByte(byte(rapid.IntRange(0x20, 0x7e).Draw(t, "ascii")))
		case 3:
			sb.WriteString(pick(t, "word", "a", "key", "x_1", "hello world", "0", "-1.5e3", "null", "true"))
		case 4:
			sb.WriteString(pick(t, "special", `"`, `\`, "/", "<", ">", "&", "'", `\u0041`, `\n`, `\x7f`, `\"`))
		case 5:
			sb.WriteByte(byte(rapid.IntRange(0, 0x1f).Draw(t, "ctrl")))
		case 6:
			sb.WriteByte(0x7f)
		case 7:
			sb.WriteRune(rapid.SampledFrom(specialRunes).Draw(t, "special-rune"))
		case 8, 9:
			sb.WriteRune(genRune(t))
		case 10:
			sb.WriteString(strings.Repeat(pick(t, "unit", "a", "é", "\x7f", "\"", "😹"), rapid.IntRange(100, 160).Draw(t, "rep")))
		case 11:
			if allowInvalid && rapid.IntRange(0, 3).Draw(t, "inv") == 0 {
				sb.WriteString(pick(t, "invalid", "\xff", "\xc3", "\x80", "\xed\xa0\x80", "\xf0\x9f\x98", "\xc0\xaf"))
			} else {
				sb.WriteRune(genRune(t))
			}
		}
	}
	return sb.String()
}

var interestingInts = []string{"0", "1", "-1", "9007199254740992", "9007199254740993", "-9007199254740993", "9223372036854775807",
	"-9223372036854775808", "9223372036854775808", "18446744073709551616", "4294967296", "-2147483649"}

func genInt(t *rapid.T) string {
	switch rapid.IntRange(0, 3).Draw(t, "intkind") {
	case 0:
		return strconv.Itoa(rapid.IntRange(-1000, 1000).Draw(t, "small"))
	case 1:
		return rapid.SampledFrom(interestingInts).Draw(t, "int")
	case 2:
		return strconv.FormatInt(rapid.Int64().Draw(t, "i64"), 10)
	}
	b := new(big.Int).SetBytes(rapid.SliceOfN(rapid.Byte(), 1, 25).Draw(t, "bytes")) // < 2^200
	if rapid.Bool().Draw(t, "neg") {
		b.Neg(b)
	}
	return b.String()
}

var interestingFloats = []float64{0, math.Copysign(0, -1), 1, -1, 0.1, 1.0 / 3, 5e-324, math.MaxFloat64, -math.MaxFloat64, 2.2250738585072014e-308,
	1e20, 1e21, 1e22, 1e-6, 1e-7, 123456789012345678, 1 << 53, 1<<53 + 2, 1e15, 1e16, 1e17, 0.000001, 100, 1e100, 4.35, 0.3}

func genFloat(t *rapid.T) uint64 {
	for {
		var f float64
		switch rapid.IntRange(0, 3).Draw(t, "floatkind") {
		case 0:
			f = rapid.SampledFrom(interestingFloats).Draw(t, "float")
		case 1:
			f = rapid.Float64().Draw(t, "f64")
		case 2:
			f = float64(rapid.Int64().Draw(t, "intfloat"))
		case 3:
			f = math.Float64frombits(rapid.Uint64().Draw(t, "bits"))
		}
		if !math.IsNaN(f) && !math.IsInf(f, 0) {
			return math.Float64bits(f)
		}
	}
}

func genKeys(t *rapid.T, n int, allowInvalid bool) []Str {
	seen := map[string]bool{}
	var out []Str
	for i := 0; len(out) < n; i++ {
		var k string
		if rapid.IntRange(0, 2).Draw(t, "keykind") > 0 {
			k = pick(t, "ident", "a", "b", "c", "x", "y", "name", "id", "A", "_", "k1", "k2", "key", "Z", "aa", "ab")
		} else {
			k = genText(t, allowInvalid)
		}
		for seen[k] {
			k += strconv.Itoa(i)
		}
		seen[k] = true
		out = append(out, mkStr(k))
	}
	return out
}

func genNode(t *rapid.T, depth int, opt *encOpts) Node {
	leaf := depth >= 6 || rapid.IntRange(0, 9).Draw(t, "shape") > 7-depth
	if leaf {
		switch rapid.IntRange(0, 7).Draw(t, "leaf") {
		case 0:
			return Node{T: "none"}
		case 1:
			return Node{T: "bool", B: rapid.Bool().Draw(t, "b")}
		case 2, 3:
			return Node{T: "int", I: genInt(t)}
		case 4:
			if opt.nonFinite && rapid.IntRange(0, 5).Draw(t, "nf") == 0 {
				return Node{T: "float", F: math.Float64bits(pick(t, "nonfinite", math.Inf(1), math.Inf(-1), math.NaN()))}
			}
			return Node{T: "float", F: genFloat(t)}
		default:
			s := mkStr(genText(t, opt.invalid))
			return Node{T: "str", S: &s}
		}
	}
	n := Node{T: pick(t, "container", "list", "tuple", "dict", "struct", "list", "dict")}
	cnt := rapid.IntRange(0, 4).Draw(t, "n")
	for i := 0; i < cnt; i++ {
		if i > 0 && rapid.IntRange(0, 7).Draw(t, "alias") == 0 {
			n.E = append(n.E, Node{T: "same"})
			continue
		}
		n.E = append(n.E, genNode(t, depth+1, opt))
	}
	if n.T == "dict" || n.T == "struct" {
		n.K = genKeys(t, cnt, opt.invalid)
	}
	return n
}

type encOpts struct{ invalid, nonFinite bool }

func TestPropEncode(t *testing.T) {
	vk.Rapid(t, subEncode, vk.N(15000, 120000), func(t *rapid.T) EncCase {
		opt := &encOpts{invalid: rapid.IntRange(0, 19).Draw(t, "allow-invalid-utf8") == 0,
			nonFinite: rapid.IntRange(0, 29).Draw(t, "allow-non-finite") == 0}
		return EncCase{V: genNode(t, 0, opt)}
	})
}

// TestPropEncodeStrings: every single byte 0..0x7f and selected runes alone, as value and as key, in ASCII and non-ASCII company.
func TestPropEncodeStrings(t *testing.T) {
	vk.S.SetExhaustive("encode-single-chars", true)
	vk.Enum(t, subEncode, func(yield func(EncCase) bool) {
		var chars []string
		for b := 0; b < 0x80; b++ {
			chars = append(chars, string(rune(b)))
		}
		for _, r := range specialRunes {
			chars = append(chars, string(r))
		}
		i := 0
		for _, ch := range chars {
			for _, ctx := range []string{"%s", "a%sb", "é%s", "%s%s"} {
				i++
				if !vk.Mine(i) {
					continue
				}
				s := mkStr(strings.ReplaceAll(ctx, "%s", ch))
				if !yield(EncCase{V: Node{T: "str", S: &s}}) {
					return
				}
				if !yield(EncCase{V: Node{T: "dict", K: []Str{s}, E: []Node{{T: "str", S: &s}}}}) {
					return
				}
			}
		}
	})
}

// ---------------------------------------------------------------- generators: documents

func genWS(t *rapid.T, sb *strings.Builder) {
	switch rapid.IntRange(0, 5).Draw(t, "ws") {
	case 0, 1, 2:
	case 3:
		sb.WriteByte(' ')
	case 4:
		sb.WriteString(pick(t, "ws1", "\n", "\t", "\r", "\r\n", "  "))
	case 5:
		n := rapid.IntRange(1, 4).Draw(t, "wsn")
		for i := 0; i < n; i++ {
			sb.WriteByte(pick(t, "wsb", byte(' '), '\t', '\n', '\r'))
		}
	}
}

func genDigits(t *rapid.T, sb *strings.Builder, lo, hi int) {
	n := rapid.IntRange(lo, hi).Draw(t, "ndigits")
	for i := 0; i < n; i++ {
		sb.WriteByte(byte('0' + rapid.IntRange(0, 9).Draw(t, "digit")))
	}
}

func genNumber(t *rapid.T, sb *strings.Builder) {
	if rapid.IntRange(0, 7).Draw(t, "canned") == 0 {
		sb.WriteString(pick(t, "number", "0", "-0", "0.0", "-0.0", "1e+5", "1E-5", "0e0", "0E+00", "1e5", "-1E5", "1.0", "0.1", "1e400", "-1e400", "1e-400",
			"4.9e-324", "2.4e-324", "1.7976931348623157e308", "1.7976931348623159e308", "9007199254740993", "9007199254740993.0", "123456789012345678901234567890",
			"0.30000000000000004", "1e22", "1e23", "0e999", "-0e-999", "1.0e05", "100000000000000000000000000000000000000000000000000.0"))
		return
	}
	if rapid.Bool().Draw(t, "neg") {
		sb.WriteByte('-')
	}
	switch rapid.IntRange(0, 3).Draw(t, "intpart") {
	case 0:
		sb.WriteByte('0')
	case 1, 2:
		sb.WriteByte(byte('1' + rapid.IntRange(0, 8).Draw(t, "lead")))
		genDigits(t, sb, 0, 6)
	case 3:
		sb.WriteByte(byte('1' + rapid.IntRange(0, 8).Draw(t, "lead")))
		genDigits(t, sb, 15, 70)
	}
	if rapid.IntRange(0, 2).Draw(t, "frac") == 0 {
		sb.WriteByte('.')
		genDigits(t, sb, 1, pick(t, "fraclen", 1, 3, 20, 40))
	}
	if rapid.IntRange(0, 3).Draw(t, "exp") == 0 {
		sb.WriteByte(pick(t, "e", byte('e'), 'E'))
		sb.WriteString(pick(t, "esign", "", "+", "-"))
		if rapid.IntRange(0, 4).Draw(t, "ezero") == 0 {
			sb.WriteByte('0')
		}
		sb.WriteString(strconv.Itoa(rapid.IntRange(0, pick(t, "emax", 5, 30, 320)).Draw(t, "e")))
	}
}

func hex4(t *rapid.T, v int) string {
	s := fmt.Sprintf("%04x", v)
	if rapid.Bool().Draw(t, "upper") {
		s = strings.ToUpper(s)
	}
	return `\u` + s
}

func genString(t *rapid.T, sb *strings.Builder, key bool) {
	sb.WriteByte('"')
	if key && rapid.IntRange(0, 2).Draw(t, "simplekey") > 0 {
		sb.WriteString(pick(t, "key", "a", "b", "c", "k", "", "id", "a b"))
		sb.WriteByte('"')
		return
	}
	n := rapid.IntRange(0, 8).Draw(t, "pieces")
	for i := 0; i < n; i++ {
		switch rapid.IntRange(0, 11).Draw(t, "piece") {
		case 0, 1, 2:
			c := byte(rapid.IntRange(0x20, 0x7f).Draw(t, "ascii"))
			if c == '"' || c == '\\' {
				sb.WriteByte('\\')
			}
			sb.WriteByte(c)
		case 3:
			sb.WriteString(pick(t, "esc", `\"`, `\\`, `\/`, `\b`, `\f`, `\n`, `\r`, `\t`))
		case 4:
			sb.WriteString(hex4(t, rapid.IntRange(0, 0x1f).Draw(t, "uctrl")))
		case 5:
			sb.WriteString(hex4(t, pick(t, "uspecial", 0x22, 0x5c, 0x2f, 0x41, 0x7f, 0x80, 0xe9, 0x2028, 0x2029, 0xd7ff, 0xe000, 0xfffd, 0xfffe, 0xffff, 0xfeff)))
		case 6:
			v := rapid.IntRange(0, 0xffff-0x800).Draw(t, "ubmp")
			if v >= 0xd800 {
				v += 0x800
			}
			sb.WriteString(hex4(t, v))
		case 7: // surrogate pair
			r := rapid.IntRange(0x10000, 0x10ffff).Draw(t, "astral") - 0x10000
			sb.WriteString(hex4(t, 0xd800+r>>10))
			sb.WriteString(hex4(t, 0xdc00+r&0x3ff))
		case 8:
			sb.WriteRune(rapid.SampledFrom(specialRunes).Draw(t, "rune"))
		case 9:
			if r := genRune(t); r < 0x20 || r == '"' || r == '\\' {
				sb.WriteString(hex4(t, int(r)))
			} else {
				sb.WriteRune(r)
			}
		case 10:
			sb.WriteString(pick(t, "word", "abc", "null", "1.5", "[", "}", ",", ":", " ", "/", "'", "<&>"))
		case 11:
			if rapid.IntRange(0, 119).Draw(t, "lone") == 119 { // excluded class, kept small
				sb.WriteString(hex4(t, pick(t, "surrogate", 0xd800, 0xdbff, 0xdc00, 0xdfff)))
			} else {
				sb.WriteString(strings.Repeat("ab", rapid.IntRange(1, 40).Draw(t, "long")))
			}
		}
	}
	sb.WriteByte('"')
}

func genValue(t *rapid.T, sb *strings.Builder, depth int) {
	leaf := depth >= 6 || rapid.IntRange(0, 9).Draw(t, "shape") > 7-depth
	if leaf {
		switch rapid.IntRange(0, 7).Draw(t, "leaf") {
		case 0:
			sb.WriteString(pick(t, "lit", "null", "true", "false"))
		case 1, 2, 3:
			genNumber(t, sb)
		default:
			genString(t, sb, false)
		}
		return
	}
	n := rapid.IntRange(0, 4).Draw(t, "n")
	if rapid.Bool().Draw(t, "array") {
		sb.WriteByte('[')
		genWS(t, sb)
		for i := 0; i < n; i++ {
			if i > 0 {
				sb.WriteByte(',')
				genWS(t, sb)
			}
			genValue(t, sb, depth+1)
			genWS(t, sb)
		}
		sb.WriteByte(']')
		return
	}
	sb.WriteByte('{')
	genWS(t, sb)
	for i := 0; i < n; i++ {
		if i > 0 {
			sb.WriteByte(',')
			genWS(t, sb)
		}
		genString(t, sb, true)
		genWS(t, sb)
		sb.WriteByte(':')
		genWS(t, sb)
		genValue(t, sb, depth+1)
		genWS(t, sb)
	}
	sb.WriteByte('}')
}

func genDoc(t *rapid.T) string {
	var sb strings.Builder
	if rapid.IntRange(0, 24).Draw(t, "deep") == 0 {
		// deep nesting around a small value
		d := rapid.IntRange(7, 200).Draw(t, "depth")
		var open, close []string
		for i := 0; i < d; i++ {
			if rapid.IntRange(0, 2).Draw(t, "objlevel") == 0 {
				open = append(open, `{"k":`)
				close = append(close, "}")
			} else {
				open = append(open, pick(t, "open", "[", "[ ", "[1,", "[\n"))
				close = append(close, pick(t, "close", "]", " ]", ",null]"))
			}
		}
		sb.WriteString(strings.Join(open, ""))
		genValue(t, &sb, 5)
		for i := len(close) - 1; i >= 0; i-- {
			sb.WriteString(close[i])
		}
		return sb.String()
	}
	genWS(t, &sb)
	genValue(t, &sb, 0)
	genWS(t, &sb)
	return sb.String()
}

func TestPropDecodeValid(t *testing.T) {
	vk.Rapid(t, subValid, vk.N(20000, 150000), func(t *rapid.T) DocCase {
		return DocCase{Base: genDoc(t)}
	})
}

var insertBytes = []string{`"`, `\`, ",", ":", "[", "]", "{", "}", "0", "1", "9", ".", "e", "E", "+", "-", " ", "\t", "\n", "\x00", "\x1f", "\x7f",
	"a", "n", "t", "f", "u", "/", "'", "x", "\x0b", "\x0c", "\u00a0", "\ufeff", "null", "1.", ".5", "-", "01", "1e", `\u12`, `\x41`, "//", "/**/", "NaN", "Infinity"}

func TestPropDecodeCorrupt(t *testing.T) {
	vk.Rapid(t, subCorrupt, vk.N(30000, 200000), func(t *rapid.T) DocCase {
		base := genDoc(t)
		c := DocCase{Base: base}
		_, info, err := parseStrict(base)
		if err != nil || len(base) == 0 {
			return c // generator defect: reported by the oracle of decode-valid; here simply no corruption
		}
		c.Mut = pick(t, "mut", "del", "ins", "rep", "dup", "swap", "trunc", "deltok", "duptok", "swaptok", "reptok", "intok", "intok")
		pos := rapid.IntRange(0, len(base)-1).Draw(t, "pos")
		var sp span
		if len(info.spans) > 0 {
			sp = info.spans[rapid.IntRange(0, len(info.spans)-1).Draw(t, "tok")]
		}
		switch c.Mut {
		case "del":
			c.Pos, c.Len = pos, 1
		case "ins":
			c.Pos, c.Len, c.Ins = rapid.IntRange(0, len(base)).Draw(t, "at"), 0, rapid.SampledFrom(insertBytes).Draw(t, "ins")
		case "rep":
			c.Pos, c.Len, c.Ins = pos, 1, rapid.SampledFrom(insertBytes).Draw(t, "ins")
		case "dup":
			c.Pos, c.Len, c.Ins = pos, 0, base[pos:pos+1]
		case "swap":
			if pos+2 <= len(base) {
				c.Pos, c.Len, c.Ins = pos, 2, string([]byte{base[pos+1], base[pos]})
			} else {
				c.Pos, c.Len = pos, 1
			}
		case "trunc":
			c.Pos, c.Len = pos, len(base)-pos
		case "deltok":
			c.Pos, c.Len = sp.start, sp.end-sp.start
		case "duptok":
			c.Pos, c.Len, c.Ins = sp.start, 0, base[sp.start:sp.end]
		case "swaptok":
			o := info.spans[rapid.IntRange(0, len(info.spans)-1).Draw(t, "tok2")]
			c.Pos, c.Len, c.Ins = sp.start, sp.end-sp.start, base[o.start:o.end]
		case "reptok":
			c.Pos, c.Len, c.Ins = sp.start, sp.end-sp.start, pick(t, "tokrep", "1.", ".5", "-", "01", "+1", "1e", "-.5", "1.e3", "0.", "1.5.", "'a'", "NaN", "nul", `"a`+"\t"+`b"`, `"\x"`, `"\u12"`, `"\`, "", "1 2", ",", ":", "[", "}", `"é`+"\n"+`"`, "-0", "1E5", `"ok"`)
		case "intok": // a byte edit inside a number or string token
			var cands []span
			for _, s := range info.spans {
				if s.kind == 'n' || s.kind == 's' {
					cands = append(cands, s)
				}
			}
			if len(cands) == 0 {
				c.Pos, c.Len = pos, 1
				break
			}
			s := cands[rapid.IntRange(0, len(cands)-1).Draw(t, "cand")]
			at := rapid.IntRange(s.start, s.end).Draw(t, "at")
			var pool []string
			if s.kind == 'n' {
				pool = []string{".", "e", "E", "+", "-", "0", "1", "", " ", "x", "1.", ".e", "00"}
			} else {
				pool = []string{"\t", "\n", "\x00", "\x1f", "\r", `"`, `\`, `\x`, `\u`, `\u1`, `\ud800`, "\x08", "", "é", "\x7f", "\x0c"}
			}
			c.Pos, c.Ins = at, rapid.SampledFrom(pool).Draw(t, "edit")
			c.Len = min(rapid.IntRange(0, 1).Draw(t, "over"), len(base)-at)
		}
		return c
	})
}

var classics = []string{
	// numbers
	"1.", ".5", "-", "01", "+1", "1e", "1e+", "1e-", "-.5", "1.e3", "1.E5", "0.", "-0.", "-1.", "0x10", "1_000", "--1", "1.2.3", "-01", "00", "-00", "0e", "0e+", "1ee5", "1e5.5", "1e5e5",
	"Infinity", "-Infinity", "NaN", "-NaN", "nan", "inf", "-inf", "1 .5", "1e 5", "- 1", ".", "e5", "-e5", "-.e5", "-.", "1+1", "1-1", "1.-1", "١", "1e٣", "0.0.", "2.e-3", "-9.", "1.0e", "1.0e+",
	// valid numbers as positive controls
	"0", "-0", "0.0", "-0.0", "1e5", "1E+5", "1e-5", "0e0", "0e05", "1.0e05", "123456789012345678901234567890", "1.5", "-1.5e+10", "1e400", "-1e400", "1e-400",
	// strings
	"\"a\tb\"", "\"a\nb\"", "\"\x00\"", "\"\x1f\"", "\"\x7f\"", "\"a\rb\"", "\"\x08\"", "\"\t\"", "\"é\t\"", "\"\\n\t\"", `"\x41"`, `"\u12"`, `"\u12G4"`, `"\u"`, `"\`, `"\"`, `"abc`, `"\a"`, `"\'"`, `"\0"`, `"\v"`,
	`"\ud800"`, `"\udc00"`, `"\ud800\u0041"`, `"\ud83d\ude00"`, `"\uD83D\uDE00"`, `"\u00e9"`, `"\/"`, `"\u0000"`, `'a'`, `"a"b"`, `"`, `""`, `"""`, `"\\"`, `"\\\"`, `abc`, `"a` + "\t\t" + `b"`, `"` + "\x01\x02" + `"`,
	// structure
	"[1,]", "[,]", "[1,,2]", "[,1]", `{"a":1,}`, "{,}", `{"a"}`, `{"a":}`, "{:1}", "{1:2}", `{"a":1 "b":2}`, `{'a':1}`, `{a:1}`, `{"a":1,"a":2}`, `{"a"::1}`, `{"a":1:2}`, `{null:1}`, `{["a"]:1}`,
	"[", "]", "{", "}", "[}", "{]", "[1", `{"a":1`, "[1 2]", `["a" "b"]`, "[1]]", "{}{}", "[] []", "[][]", "1,", ",", ":", `"a":1`, `-"a"`, "-[1]", "[-]", "[1.]", "[.5]", "[01]", `{"a":1.}`, `{"a":-.5}`, "[[]", "[]]",
	// literals
	"tru", "nul", "fals", "True", "None", "NULL", "truee", "nullnull", "nulll", "null1", "1null", "truefalse", "t", "n", "f", "undefined",
	// white space and junk
	"", " ", "\n", "1 2", `"a" "b"`, "/*c*/1", "//c\n1", "1//c", "1/**/", "\ufeff1", "\v1", "\f1", "\u00a01", "1\u00a0", "1\v", "1\f", "\x001", "1\x00", "#", "1;", "[1;2]", "(1)", "<1>", "1\u2028", "\u20281", "\u3000[]",
	// valid controls
	"null", "true", "false", "[]", "{}", "[[]]", "[{}]", `{"":[]}`, `{"a":{"b":{"c":[1,2,{"d":null}]}}}`, " [ 1 , 2 ] ", "\t{\n\"a\"\r:\n1\t}\n",
}

var contexts = []string{"%s", " %s ", "[%s]", "[1,%s]", "[%s,2]", `{"k":%s}`, `{"a":[%s]}`, "\n[ %s\t]\r\n"}

// TestPropDecodeClassics: the table of classic invalid (and some valid) documents in every context.
func TestPropDecodeClassics(t *testing.T) {
	vk.S.SetExhaustive("decode-classics", true)
	vk.Enum(t, subCorrupt, func(yield func(DocCase) bool) {
		i := 0
		for _, cl := range classics {
			for _, ctx := range contexts {
				i++
				if !vk.Mine(i) {
					continue
				}
				doc := strings.Replace(ctx, "%s", cl, 1)
				c := DocCase{Base: doc}
				if !utf8.ValidString(doc) {
					c = DocCase{Hex: hex.EncodeToString([]byte(doc))}
				}
				if !yield(c) {
					return
				}
			}
		}
	})
}

const tinyAlphabet = "[]{}\"\\,:01-.e+ tnau"

// TestPropDecodeTiny: every document of length <= 4 (thorough: <= 5) over a 19-byte alphabet.
// Wide documents: thousands of sibling objects / arrays / scalars at nesting depth 1-3 (the decoder bounds the
// nesting depth at 10000; the number of siblings is not nesting).
func TestPropDecodeWide(t *testing.T) {
	vk.S.SetExhaustive("decode-wide-siblings", true)
	vk.Enum(t, subValid, func(yield func(DocCase) bool) {
		i := 0
		for _, n := range []int{9999, 10000, 10001, 20011} {
			for _, u := range []string{`{}`, `[]`, `{"id":#}`, `[#]`, `{"a":{"b":[#]}}`, `#`, `"s#"`, `"k#":{}`, `"k#":[{}]`} {
				open, close := "[", "]"
				if strings.HasPrefix(u, `"k`) {
					open, close = "{", "}"
				}
				for _, wrap := range []int{0, 2} {
					o, c := open, close
					if wrap == 2 {
						o, c = `{"w":[`+open, close+`]}`
					}
					i++
					if vk.Mine(i) && !yield(DocCase{Rep: n, Unit: u, Open: o, Close: c}) {
						return
					}
				}
			}
		}
	})
}

func TestPropDecodeTiny(t *testing.T) {
	maxLen := 4
	if vk.Thorough() {
		maxLen = 5
	}
	vk.S.SetExhaustive(fmt.Sprintf("decode-tiny-len%d", maxLen), true)
	vk.Enum(t, subCorrupt, func(yield func(DocCase) bool) {
		n := len(tinyAlphabet)
		i := 0
		for l := 0; l <= maxLen; l++ {
			total := 1
			for k := 0; k < l; k++ {
				total *= n
			}
			buf := make([]byte, l)
			for x := 0; x < total; x++ {
				i++
				if !vk.Mine(i / 256) {
					continue
				}
				y := x
				for k := 0; k < l; k++ {
					buf[k] = tinyAlphabet[y%n]
					y /= n
				}
				if !yield(DocCase{Base: string(buf)}) {
					return
				}
			}
		}
	})
}

func TestReplay(t *testing.T) { vk.Replay(t) }

// FuzzDecode is the coverage-guided stage of the thorough tier: arbitrary text as a JSON document, judged by
// the same oracle as the generated corruptions (valid per encoding/json <=> decode succeeds with the same data;
// invalid => decode fails and decode(doc, default) returns the default).
func FuzzDecode(f *testing.F) {
	for _, s := range []string{`{"a": [1, 2.5, "x\né😀", null, true, false], "b": {"c": -0.0, "d": 1e308}}`, `[]`, `"\\"`, `1E+2`, ` [ 1 , 2 ] `,
		`{"k": "v", "k": 2}`, `[1.]`, "\"a\tb\"", `[-]`, `nul`, `{"a":}`, `[1,]`, `"\ud800"`, `123456789012345678901234567890`, `0.1e-400`} {
		f.Add(s)
	}
	f.Fuzz(func(t *testing.T, doc string) {
		if len(doc) > 4000 {
			return
		}
		c := DocCase{Base: doc}
		if !utf8.ValidString(doc) {
			c = DocCase{Hex: hex.EncodeToString([]byte(doc))}
		}
		if err := subCorrupt.Check(c); err != nil {
			vk.Violation("decode-corrupt", c, err)
			t.Fatal(err)
		}
	})
}
