// Package gen generates statically valid Starlark programs (G-PROG in
// DESIGN.md): scope-aware, roughly typed so that most programs run to
// completion, with host-visible observation points t(tag, v) around
// sub-expressions, and deliberate dynamic errors at a low rate.
package gen

import (
	"fmt"
	"sort"
	"strings"

	"go.starlark.net/syntax"
	"pgregory.net/rapid"
	"verif/harness/vk"
)

type Opts struct {
	Set             bool `json:"set,omitempty"`
	While           bool `json:"while,omitempty"`
	TopLevelControl bool `json:"toplevel,omitempty"`
	Recursion       bool `json:"recursion,omitempty"`
	GlobalReassign  bool `json:"reassign,omitempty"`
	LoadBindsGlob   bool `json:"loadglobal,omitempty"`
}

func (o Opts) FileOptions() *syntax.FileOptions {
	return &syntax.FileOptions{Set: o.Set, While: o.While, TopLevelControl: o.TopLevelControl,
		Recursion: o.Recursion, GlobalReassign: o.GlobalReassign, LoadBindsGlobally: o.LoadBindsGlob}
}

// Program is a generated program with the modules it may load.
type Program struct {
	Src      string            `json:"src"`
	Opts     Opts              `json:"opts"`
	Modules  map[string]string `json:"modules,omitempty"`
	Features []string          `json:"features,omitempty"`
}

type Config struct {
	MaxStmts   int     // statement budget for the whole program
	ErrRate    float64 // probability of a deliberately risky construct at each opportunity
	NoLoad     bool
	NoEffects  bool // do not wrap sub-expressions with t()
	ForceOpts  *Opts
	BigConsts  bool // include big-int / float / bytes constants (C17)
	Docstrings bool
}

type kind int

const (
	KInt kind = iota
	KBool
	KStr
	KList // list of int
	KDict // dict str -> int
	KTuple
	KRec
	KSet
	KAny
)

type fnSig struct {
	name     string
	pos      []kind // required positional
	opt      []kind // optional positional (all have defaults)
	optNames []string
	posNames []string
	varargs  bool
	kwonly   []string // keyword-only names (ints); kwonlyReq[i] says required
	kwReq    []bool
	kwargs   bool
	ret      kind
	recDepth bool // first parameter is a recursion depth
}

type varInfo struct {
	name string
	k    kind
	fn   *fnSig
}

type scope struct {
	parent    *scope
	file      bool
	vars      []*varInfo
	loopDepth int
	fn        *fnSig
	comp      bool // comprehension block (no statements inside)
}

type g struct {
	t      *rapid.T
	cfg    Config
	opts   Opts
	sb     strings.Builder
	indent int
	sc     *scope
	budget int
	nvar   int
	ntag   int
	nfn    int
	feat   map[string]bool
	mods   map[string]string
	depth  int // statement nesting
	// hideFns: no calls to generated functions (body of a redefined function: anything it called could
	// reach the redefined name again, which would not terminate when recursion is allowed)
	hideFns bool
}

func (x *g) f(name string) { x.feat[name] = true }

func (x *g) line(format string, args ...any) {
	x.sb.WriteString(strings.Repeat("    ", x.indent))
	fmt.Fprintf(&x.sb, format, args...)
	x.sb.WriteString("\n")
}

func (x *g) intn(n int, label string) int { return vk.Uniform(x.t, n) }

func (x *g) chance(p float64, label string) bool { return vk.Chance(x.t, p) }

func (x *g) risky(label string) bool { return x.chance(x.cfg.ErrRate, label) }

func (x *g) fresh(prefix string) string {
	x.nvar++
	return fmt.Sprintf("%s%d", prefix, x.nvar)
}

func (x *g) tag() string {
	x.ntag++
	return fmt.Sprintf("\"%d\"", x.ntag)
}

// visible returns variables readable here with kind k (KAny = all non-function).
func (x *g) visible(k kind) []*varInfo {
	var out []*varInfo
	seen := map[string]bool{}
	for s := x.sc; s != nil; s = s.parent {
		for i := len(s.vars) - 1; i >= 0; i-- {
			v := s.vars[i]
			if seen[v.name] {
				continue
			}
			seen[v.name] = true
			if v.fn != nil {
				continue
			}
			if k == KAny || v.k == k {
				out = append(out, v)
			}
		}
	}
	return out
}

func (x *g) functions() []*varInfo {
	var out []*varInfo
	if x.hideFns {
		return nil
	}
	seen := map[string]bool{}
	for s := x.sc; s != nil; s = s.parent {
		for i := len(s.vars) - 1; i >= 0; i-- {
			v := s.vars[i]
			if seen[v.name] {
				continue
			}
			seen[v.name] = true
			if v.fn != nil {
				out = append(out, v)
			}
		}
	}
	return out
}

func (x *g) declare(name string, k kind, fn *fnSig) {
	// A comprehension's variables live in x.sc too while inComp; callers manage removal.
	for _, v := range x.sc.vars {
		if v.name == name {
			v.k, v.fn = k, fn
			return
		}
	}
	x.sc.vars = append(x.sc.vars, &varInfo{name, k, fn})
}

// Generate draws a program.
func Generate(t *rapid.T, cfg Config) Program {
	x := &g{t: t, cfg: cfg, feat: map[string]bool{}, mods: map[string]string{}}
	if cfg.ForceOpts != nil {
		x.opts = *cfg.ForceOpts
	} else {
		x.opts = Opts{
			Set:             rapid.Bool().Draw(t, "optSet"),
			While:           rapid.Bool().Draw(t, "optWhile"),
			TopLevelControl: rapid.Bool().Draw(t, "optTop"),
			Recursion:       rapid.Bool().Draw(t, "optRec"),
		}
		// The "global reassign" dialect (top-level names may be rebound, top-level uses resolve at the point
		// of use) and globally binding loads: a quarter of the programs each.
		x.opts.GlobalReassign = rapid.Bool().Draw(t, "optReassign") && rapid.Bool().Draw(t, "optReassign2")
		x.opts.LoadBindsGlob = rapid.Bool().Draw(t, "optLoadGlob") && rapid.Bool().Draw(t, "optLoadGlob2")
	}
	if x.opts.GlobalReassign {
		x.f("opt-globalreassign")
	}
	if cfg.MaxStmts == 0 {
		cfg.MaxStmts = 40
		x.cfg.MaxStmts = 40
	}
	x.budget = 3 + x.intn(cfg.MaxStmts-2, "budget")
	x.sc = &scope{file: true}
	if cfg.Docstrings && x.chance(0.5, "moddoc") {
		x.line("\"module doc %d\"", x.intn(100, "docn"))
	}
	if !cfg.NoLoad && x.chance(0.3, "load") {
		x.genLoad()
	}
	for x.budget > 0 {
		x.topStmt()
	}
	// Observe the final state of some globals.
	vs := x.visible(KAny)
	if len(vs) > 0 && !cfg.NoEffects {
		n := 1 + x.intn(min(3, len(vs)), "nfinal")
		for i := 0; i < n; i++ {
			v := vs[x.intn(len(vs), "finalv")]
			x.line("t(%s, %s)", x.tag(), v.name)
		}
	}
	var feats []string
	for f := range x.feat {
		feats = append(feats, f)
	}
	sort.Strings(feats)
	return Program{Src: x.sb.String(), Opts: x.opts, Modules: x.mods, Features: feats}
}

const modA = `
"module a"
A_INT = 7
A_LIST = [1, 2, 3]
A_DICT = {"p": 1, "q": 2}
_private = 1
def a_inc(x, by = 1):
    return x + by
def a_push(x):
    A_LIST.append(x)
    return len(A_LIST)
def a_make():
    hidden = [10]
    def get(i = 0):
        return hidden[i]
    return get
a_get = a_make()
`

func (x *g) genLoad() {
	x.f("load")
	x.mods["a.star"] = modA
	type imp struct {
		name string
		k    kind
		fn   *fnSig
	}
	all := []imp{
		{"A_INT", KInt, nil}, {"A_LIST", KList, nil}, {"A_DICT", KDict, nil},
		{"a_inc", 0, &fnSig{name: "a_inc", pos: []kind{KInt}, posNames: []string{"x"}, opt: []kind{KInt}, optNames: []string{"by"}, ret: KInt}},
		{"a_push", 0, &fnSig{name: "a_push", pos: []kind{KInt}, posNames: []string{"x"}, ret: KInt}},
		{"a_get", 0, &fnSig{name: "a_get", opt: []kind{KInt}, optNames: []string{"i"}, ret: KInt}},
	}
	n := 1 + x.intn(3, "nimp")
	var parts []string
	used := map[string]bool{}
	for i := 0; i < n; i++ {
		im := all[x.intn(len(all), "imp")]
		if used[im.name] {
			continue
		}
		used[im.name] = true
		local := im.name
		if x.chance(0.4, "alias") {
			local = x.fresh("imp")
			parts = append(parts, fmt.Sprintf("%s = \"%s\"", local, im.name))
		} else {
			parts = append(parts, fmt.Sprintf("\"%s\"", im.name))
		}
		var fn *fnSig
		if im.fn != nil {
			c := *im.fn
			c.name = local
			fn = &c
		}
		x.declare(local, im.k, fn)
	}
	x.line("load(\"a.star\", %s)", strings.Join(parts, ", "))
	x.budget--
}

// ---------------------------------------------------------------- statements

func (x *g) topStmt() {
	// At top level without TopLevelControl only simple statements and defs are legal.
	choices := []string{"def", "def", "assign", "assign", "call", "call", "expr", "multi", "mutate", "factory", "shadow", "loopclosures"}
	if x.opts.TopLevelControl {
		choices = append(choices, "if", "for", "for")
		if x.opts.While {
			choices = append(choices, "while")
		}
	}
	if x.sc.loopDepth > 0 {
		choices = append(choices, "break", "continue")
	}
	if x.cfg.ErrRate > 0 {
		choices = append(choices, "ubd")
	}
	if x.opts.GlobalReassign {
		choices = append(choices, "aug", "assign", "shadow")
	}
	x.stmtOf(choices[x.intn(len(choices), "top")])
}

func (x *g) bodyStmt() {
	choices := []string{"assign", "assign", "assign", "aug", "aug", "call", "expr", "multi", "mutate", "mutate",
		"if", "if", "for", "for", "def", "lambda", "earlyret", "pass", "factory", "call", "shadow", "loopclosures"}
	if x.opts.While {
		choices = append(choices, "while")
	}
	if x.sc.loopDepth > 0 {
		choices = append(choices, "break", "continue")
	}
	if x.cfg.ErrRate > 0 {
		choices = append(choices, "ubd")
	}
	x.stmtOf(choices[x.intn(len(choices), "stmt")])
}

func (x *g) inFunction() bool {
	for s := x.sc; s != nil; s = s.parent {
		if s.fn != nil {
			return true
		}
	}
	return false
}

func (x *g) atTop() bool { return x.sc.file }

func (x *g) block(n int) {
	x.indent++
	x.depth++
	before := x.sb.Len()
	nvars := len(x.sc.vars)
	for i := 0; i < n && x.budget > 0; i++ {
		if x.atTop() {
			x.topStmt()
		} else {
			x.bodyStmt()
		}
	}
	if x.sb.Len() == before {
		x.line("pass")
	}
	// Names bound in a conditional/loop body are only conditionally assigned:
	// forget them afterwards (occasionally keep one: a possible use before assignment).
	if len(x.sc.vars) > nvars && !x.risky("keep-conditional") {
		x.sc.vars = x.sc.vars[:nvars]
	} else if len(x.sc.vars) > nvars {
		x.f("risky-conditional-binding")
	}
	x.depth--
	x.indent--
}

func (x *g) stmtOf(what string) {
	x.budget--
	switch what {
	case "pass":
		x.line("pass")
	case "assign":
		k := x.pickKind()
		e := x.expr(k, 2)
		name := x.target(k)
		e = x.noSelfGrowth(name, k, e)
		x.line("%s = %s", name, e)
		x.declare(name, k, nil)
	case "multi":
		x.f("seq-assign")
		k1, k2 := x.pickKind(), x.pickKind()
		e1, e2 := x.expr(k1, 1), x.expr(k2, 1)
		n1, n2 := x.fresh("v"), x.fresh("v")
		rhs := fmt.Sprintf("%s, %s", e1, e2)
		switch x.intn(4, "multiform") {
		case 0:
			x.line("%s, %s = %s", n1, n2, rhs)
		case 1:
			x.line("[%s, %s] = [%s]", n1, n2, rhs)
		case 2:
			x.line("(%s, %s) = (%s)", n1, n2, rhs)
		case 3:
			// nested targets including an index target
			ls := x.visible(KList)
			if len(ls) > 0 && !x.atTopFrozenRisk() {
				l := ls[x.intn(len(ls), "l")]
				x.line("%s, (%s, %s[0]) = %s, (%s, %s)", n1, n2, l.name, e1, e2, x.expr(KInt, 1))
				x.f("nested-target")
			} else {
				x.line("%s, (%s,) = %s, (%s,)", n1, n2, e1, e2)
			}
		}
		if x.risky("unpack-arity") {
			x.line("%s, %s = %s", x.fresh("v"), x.fresh("v"), x.expr(KList, 1))
			x.f("risky-unpack")
		}
		// the same name more than once among the targets (a rebinding: inside functions, or where globals may be
		// reassigned): targets are assigned left to right, the last assignment wins
		if (!x.sc.file || x.opts.GlobalReassign) && x.chance(0.35, "repeated-target") {
			x.f("repeated-target")
			r := x.fresh("v")
			e3 := x.expr(k1, 1)
			switch x.intn(4, "repform") {
			case 0:
				x.line("%s, %s, %s = %s, %s, %s", r, x.fresh("v"), r, e1, e2, e3)
			case 1:
				x.line("%s, %s = %s, %s", r, r, e1, e3)
			case 2:
				x.line("[%s, (%s, %s)] = [%s, (%s, %s)]", r, x.fresh("v"), r, e1, e2, e3)
			case 3:
				x.line("%s, %s = %s", r, r, "["+e1+", "+e3+"]")
			}
			x.declare(r, k1, nil)
			x.line("t(%s, %s)", x.tag(), r)
		}
		x.declare(n1, k1, nil)
		x.declare(n2, k2, nil)
	case "aug":
		x.aug()
	case "call":
		fs := x.functions()
		if len(fs) == 0 {
			x.line("t(%s, %s)", x.tag(), x.expr(KInt, 2))
			return
		}
		fv := fs[x.intn(len(fs), "callee")]
		name := x.target(fv.fn.ret)
		x.line("%s = %s", name, x.noSelfGrowth(name, fv.fn.ret, x.callExpr(fv, 2)))
		x.declare(name, fv.fn.ret, nil)
	case "expr":
		if x.chance(0.25, "bare-expr") {
			// expression statements without an observer: a bare name, a parenthesised name, any expression
			x.f("bare-expr-stmt")
			if vs := x.visible(KAny); len(vs) > 0 && x.chance(0.5, "bare-name") {
				x.line([]string{"%s", "(%s)"}[x.intn(2, "bareform")], vs[x.intn(len(vs), "barev")].name)
			} else {
				x.line("%s", x.expr(x.pickKind(), 2))
			}
			return
		}
		x.line("t(%s, %s)", x.tag(), x.expr(x.pickKind(), 3))
	case "mutate":
		x.mutate()
	case "if":
		x.f("if")
		x.line("if %s:", x.cond(2))
		x.block(1 + x.intn(3, "ifn"))
		if x.chance(0.4, "elif") {
			x.line("elif %s:", x.cond(1))
			x.block(1 + x.intn(2, "elifn"))
		}
		if x.chance(0.5, "else") {
			x.line("else:")
			x.block(1 + x.intn(2, "elsen"))
		}
	case "for":
		x.f("for")
		v := x.fresh("i")
		var seq string
		var k kind = KInt
		switch x.intn(5, "forseq") {
		case 0:
			seq = fmt.Sprintf("range(%d)", x.intn(4, "rn"))
		case 1:
			seq = x.expr(KList, 1)
		case 2:
			seq = x.expr(KDict, 1)
			k = KStr
		case 3:
			seq = fmt.Sprintf("(%s, %s)", x.expr(KInt, 1), x.expr(KInt, 1))
		case 4:
			// unpacking loop variable
			v2 := x.fresh("j")
			x.line("for %s, %s in [(%s, %s), (%s, %s)]:", v, v2, x.expr(KInt, 1), x.expr(KInt, 0), x.expr(KInt, 0), x.expr(KInt, 1))
			x.declare(v2, KInt, nil)
			x.f("for-unpack")
		}
		if seq != "" {
			x.line("for %s in %s:", v, seq)
		}
		x.declare(v, k, nil)
		x.sc.loopDepth++
		x.block(1 + x.intn(3, "forn"))
		x.sc.loopDepth--
	case "while":
		x.f("while")
		w := x.fresh("w")
		n := 1 + x.intn(3, "wn")
		// At top level a global cannot be rebound, so the counter lives in a list.
		cnt := w
		if x.atTop() {
			x.line("%s = [%d]", w, n)
			cnt = w + "[0]"
		} else {
			x.line("%s = %d", w, n)
		}
		x.declare(w, kind(99), nil)
		cond := fmt.Sprintf("%s > 0", cnt)
		if x.chance(0.3, "wcond") {
			cond += " and " + x.cond(1)
		}
		x.line("while %s:", cond)
		x.indent++
		x.line("%s -= 1", cnt)
		x.indent--
		x.sc.loopDepth++
		x.block(1 + x.intn(3, "whilen"))
		x.sc.loopDepth--
	case "break", "continue":
		x.f(what)
		if x.chance(0.8, "condbranch") {
			x.line("if %s:", x.cond(1))
			x.indent++
			x.line("%s", what)
			x.indent--
		} else {
			x.line("%s", what)
		}
	case "ubd":
		// use before assignment of a local / global (dynamic error), only when risky
		if !x.risky("ubd") {
			x.line("pass")
			return
		}
		x.f("risky-use-before-assignment")
		n := x.fresh("u")
		form := x.intn(4, "ubdform")
		if (form == 0 || form == 3) && x.sc.file && x.opts.GlobalReassign {
			form = 1 // a plain top-level use before the first binding is a static error in this dialect
		}
		switch form {
		case 3: // an expression statement that is just the name
			x.f("bare-name-stmt")
			x.line([]string{"%s", "(%s)", "(%s,)"}[x.intn(3, "bareform")], n)
		case 0:
			x.line("t(%s, %s)", x.tag(), n)
		case 1: // through a nested function: the name is a free variable (or a global) of it
			g := x.fresh("g")
			x.line("def %s():", g)
			x.line("    return %s", n)
			x.line("t(%s, %s())", x.tag(), g)
		case 2:
			x.line("t(%s, [(lambda: %s)() for _ in [0]])", x.tag(), n)
		}
		x.line("%s = 1", n)
		x.declare(n, KInt, nil)
	case "earlyret":
		if !x.inFunction() {
			x.line("pass")
			return
		}
		x.f("early-return")
		x.line("if %s:", x.cond(1))
		x.indent++
		x.line("return %s", x.expr(x.retKind(), 1))
		x.indent--
	case "lambda":
		x.f("lambda")
		name := x.fresh("f")
		sig := &fnSig{name: name, pos: []kind{KInt}, posNames: []string{"p"}, ret: KInt}
		p := x.fresh("p")
		sig.posNames[0] = p
		inner := &scope{parent: x.sc, fn: sig}
		inner.vars = append(inner.vars, &varInfo{p, KInt, nil})
		x.sc = inner
		body := x.expr(KInt, 2)
		x.sc = inner.parent
		if x.chance(0.3, "lamdef") {
			d := x.expr(KInt, 1)
			sig.pos, sig.posNames = nil, nil
			sig.opt, sig.optNames = []kind{KInt}, []string{p}
			x.line("%s = lambda %s = %s: %s", name, p, d, body)
		} else {
			x.line("%s = lambda %s: %s", name, p, body)
		}
		x.declare(name, 0, sig)
	case "def":
		x.def()
	case "factory":
		x.factory()
	case "shadow":
		x.shadow()
	case "loopclosures":
		x.loopClosures()
	}
}

// universal names the generator never uses as functions elsewhere
var shadowable = []string{"abs", "any", "all", "hash", "repr", "zip", "enumerate", "getattr", "hasattr", "dir", "type", "chr", "ord", "float"}

// shadow binds a universal name as a global or local. By the spec every reference to the name in that
// block then denotes the new variable, even before the binding statement (a dynamic error there).
func (x *g) shadow() {
	if x.depth > 0 && x.sc.file {
		x.line("pass") // keep top-level bindings unconditional so that later uses are mostly defined
		return
	}
	name := shadowable[x.intn(len(shadowable), "shadowname")]
	for s := x.sc; s != nil; s = s.parent {
		for _, v := range s.vars {
			if v.name == name {
				x.line("t(%s, %s)", x.tag(), name)
				return
			}
		}
	}
	x.f("shadow-universal")
	if x.sc.file && x.opts.GlobalReassign {
		// point-of-use resolution: before the first binding the name still denotes the universal
		if x.chance(0.6, "use-then-shadow") {
			x.f("reassign-use-then-shadow")
			x.line("t(%s, %s)", x.tag(), name)
		}
		if x.chance(0.3, "self-shadow") {
			// the legacy idiom `len = len`: the right-hand side still denotes the universal
			x.f("reassign-self-shadow")
			x.line("%s = %s", name, name)
			x.line("t(%s, %s)", x.tag(), name)
			x.declare(name, kind(99), nil)
			return
		}
	} else if x.risky("use-before-shadow") {
		x.f("risky-use-before-assignment")
		x.line("t(%s, %s)", x.tag(), name)
	}
	k := []kind{KInt, KList, KStr}[x.intn(3, "shadowkind")]
	x.line("%s = %s", name, x.expr(k, 1))
	x.declare(name, k, nil)
	x.line("t(%s, %s)", x.tag(), name)
}

// loopClosures builds closures in a loop and calls them after the loop: they all see the final value of the loop variable.
func (x *g) loopClosures() {
	if x.sc.file && !x.opts.TopLevelControl {
		x.line("pass")
		return
	}
	x.f("loop-closures")
	x.f("nested-def")
	fs, i, r := x.fresh("fs"), x.fresh("i"), x.fresh("v")
	x.line("%s = []", fs)
	x.line("for %s in range(%d):", i, 1+x.intn(3, "lcn"))
	x.indent++
	switch x.intn(3, "lcform") {
	case 0:
		x.line("%s.append(lambda: %s)", fs, i)
	case 1:
		g := x.fresh("g")
		x.line("def %s(d_ = %s):", g, i)
		x.line("    return (%s, d_)", i)
		x.line("%s.append(%s)", fs, g)
	case 2:
		x.line("%s.append(lambda q_ = %s: q_ + %s)", fs, i, i)
	}
	x.indent--
	x.line("%s = t(%s, [f_() for f_ in %s])", r, x.tag(), fs)
	x.declare(i, KInt, nil)
}

// factory emits a function that returns a closure over a mutable cell and a
// variable that is rebound after the closure was created, then binds the result.
func (x *g) factory() {
	x.f("closure-factory")
	x.f("nested-def")
	x.nfn++
	mk := fmt.Sprintf("mk%d", x.nfn)
	inner := fmt.Sprintf("in%d", x.nfn)
	p, q := x.fresh("p"), x.fresh("q")
	acc, cnt := x.fresh("a"), x.fresh("b")
	x.line("def %s(%s):", mk, p)
	x.indent++
	x.line("%s = [%s]", acc, p)
	x.line("%s = %s", cnt, x.expr(KInt, 1))
	if x.chance(0.5, "factory-default") {
		x.line("def %s(%s, d_ = %s):", inner, q, cnt)
	} else {
		x.line("def %s(%s):", inner, q)
	}
	x.indent++
	x.line("%s.append(%s)", acc, q)
	x.line("return t(%s, %s + len(%s) + %s)", x.tag(), cnt, acc, q)
	x.indent--
	if x.chance(0.7, "rebind-captured") {
		x.line("%s = %s + %s", cnt, cnt, x.intLit())
		x.f("rebind-captured")
	}
	if x.chance(0.3, "call-inside") {
		x.line("t(%s, %s(%s))", x.tag(), inner, x.intLit())
	}
	x.line("return %s", inner)
	x.indent--
	name := x.fresh("g")
	x.line("%s = %s(%s)", name, mk, x.expr(KInt, 1))
	x.declare(name, 0, &fnSig{name: name, pos: []kind{KInt}, posNames: []string{q}, ret: KInt})
}

func (x *g) atTopFrozenRisk() bool { return false }

func (x *g) retKind() kind {
	for s := x.sc; s != nil; s = s.parent {
		if s.fn != nil {
			return s.fn.ret
		}
	}
	return KInt
}

func (x *g) pickKind() kind {
	ks := []kind{KInt, KInt, KInt, KList, KList, KStr, KDict, KBool, KTuple, KRec}
	if x.opts.Set {
		ks = append(ks, KSet)
	}
	return ks[x.intn(len(ks), "kind")]
}

// target picks a name to assign: a fresh one, or (inside functions only) an
// existing local of the same kind (rebinding).
func (x *g) target(k kind) string {
	if (!x.sc.file || x.opts.GlobalReassign) && x.chance(0.3, "rebind") {
		var own []*varInfo
		for _, v := range x.sc.vars {
			if v.fn == nil && v.k == k && !strings.HasPrefix(v.name, "w") && !strings.HasPrefix(v.name, "n") {
				own = append(own, v)
			}
		}
		if len(own) > 0 {
			if x.sc.file {
				x.f("rebind-global")
			} else {
				x.f("rebind-local")
			}
			return own[x.intn(len(own), "own")].name
		}
	}
	return x.fresh("v")
}

// ownVars returns variables of kind k that may be assigned to from the current block
// (locals of this function; at top level nothing may be rebound).
func (x *g) ownVars(k kind) []*varInfo {
	if x.sc.file && !x.opts.GlobalReassign {
		return nil
	}
	var own []*varInfo
	for _, v := range x.sc.vars {
		if v.fn == nil && v.k == k && !strings.HasPrefix(v.name, "w") && !strings.HasPrefix(v.name, "n") {
			own = append(own, v)
		}
	}
	return own
}

func (x *g) aug() {
	x.f("augmented")
	switch x.intn(6, "augform") {
	case 0: // name op= int (locals only)
		if own := x.ownVars(KInt); len(own) > 0 {
			v := own[x.intn(len(own), "v")]
			op := []string{"+=", "-=", "*=", "|=", "&=", "^=", "//=", "%="}[x.intn(8, "op")]
			rhs := x.expr(KInt, 1)
			if op == "//=" || op == "%=" {
				rhs = fmt.Sprintf("%d", 1+x.intn(5, "div"))
			}
			x.line("%s %s %s", v.name, op, rhs)
			return
		}
		fallthrough
	case 1: // list name += list (in place; aliases observe it)
		if own := x.ownVars(KList); len(own) > 0 {
			v := own[x.intn(len(own), "v")]
			x.line("%s += %s", v.name, x.noSelfGrowth(v.name, KList, x.expr(KList, 1)))
			x.f("inplace-list")
			return
		}
		fallthrough
	case 2: // l[i] op= e
		if ls := x.visible(KList); len(ls) > 0 {
			l := ls[x.intn(len(ls), "l")]
			x.line("%s[t(%s, %s)] += %s", l.name, x.tag(), x.indexFor(l.name), x.expr(KInt, 1))
			x.f("aug-index")
			return
		}
		fallthrough
	case 3: // d[k] op= e
		if ds := x.visible(KDict); len(ds) > 0 {
			d := ds[x.intn(len(ds), "d")]
			k := x.expr(KStr, 0)
			x.line("%s[t(%s, %s)] = %s.get(%s, 0)", d.name, x.tag(), k, d.name, k)
			x.line("%s[t(%s, %s)] += %s", d.name, x.tag(), k, x.expr(KInt, 1))
			x.f("aug-index")
			return
		}
		fallthrough
	case 4: // r.f op= e
		if rs := x.visible(KRec); len(rs) > 0 {
			r := rs[x.intn(len(rs), "r")]
			x.line("t(%s, %s).a += %s", x.tag(), r.name, x.expr(KInt, 1))
			x.f("aug-field")
			return
		}
		fallthrough
	default:
		// list stored in a record field, extended in place through the field
		if rs := x.visible(KRec); len(rs) > 0 {
			r := rs[x.intn(len(rs), "r")]
			x.line("%s.l += %s", r.name, x.noSelfGrowth(r.name, KList, x.expr(KList, 1)))
			x.f("aug-field")
			return
		}
		x.line("t(%s, %s)", x.tag(), x.expr(KInt, 1))
	}
}

func (x *g) indexFor(list string) string {
	if x.risky("index-range") {
		x.f("risky-index")
		return fmt.Sprintf("%d", x.intn(6, "idx")-3)
	}
	// always-valid index expression for non-empty lists; empty lists make it fail (rare)
	switch x.intn(3, "idxform") {
	case 0:
		return "0"
	case 1:
		return "-1"
	}
	return fmt.Sprintf("len(%s) - 1", list)
}

func (x *g) mutate() {
	switch x.intn(6, "mut") {
	case 0:
		if ls := x.visible(KList); len(ls) > 0 {
			l := ls[x.intn(len(ls), "l")]
			x.line("%s.append(%s)", l.name, x.expr(KInt, 1))
			return
		}
	case 1:
		if ls := x.visible(KList); len(ls) > 0 {
			l := ls[x.intn(len(ls), "l")]
			x.line("%s[%s] = %s", l.name, x.indexFor(l.name), x.expr(KInt, 1))
			x.f("index-assign")
			return
		}
	case 2:
		if ds := x.visible(KDict); len(ds) > 0 {
			d := ds[x.intn(len(ds), "d")]
			x.line("%s[%s] = %s", d.name, x.expr(KStr, 1), x.expr(KInt, 1))
			x.f("index-assign")
			return
		}
	case 3:
		if rs := x.visible(KRec); len(rs) > 0 {
			r := rs[x.intn(len(rs), "r")]
			field := []string{"a", "b", "l"}[x.intn(3, "field")]
			if field == "l" {
				x.line("%s.l = %s", r.name, x.expr(KList, 1))
			} else {
				x.line("%s.%s = %s", r.name, field, x.expr(KInt, 1))
			}
			x.f("field-assign")
			return
		}
	case 4:
		if ds := x.visible(KDict); len(ds) > 0 {
			d := ds[x.intn(len(ds), "d")]
			switch x.intn(3, "dm") {
			case 0:
				x.line("%s.update(%s)", d.name, x.expr(KDict, 1))
			case 1:
				x.line("t(%s, %s.setdefault(%s, %s))", x.tag(), d.name, x.expr(KStr, 0), x.expr(KInt, 1))
			case 2:
				x.line("t(%s, %s.pop(%s, None))", x.tag(), d.name, x.expr(KStr, 0))
			}
			return
		}
	case 5:
		if x.opts.Set {
			if ss := x.visible(KSet); len(ss) > 0 {
				s := ss[x.intn(len(ss), "s")]
				x.line("%s.add(%s)", s.name, x.expr(KInt, 1))
				return
			}
		}
	}
	x.line("t(%s, %s)", x.tag(), x.expr(KList, 2))
}

func (x *g) def() {
	x.f("def")
	x.nfn++
	name := fmt.Sprintf("fn%d", x.nfn)
	if x.sc.file && x.opts.GlobalReassign && x.chance(0.2, "redef") {
		if fs := x.functions(); len(fs) > 0 {
			if f := fs[x.intn(len(fs), "redefwhich")]; strings.HasPrefix(f.name, "fn") {
				name = f.name // def of an already bound global: later calls see the new function
				x.f("redefine-function")
				x.hideFns = true
				defer func() { x.hideFns = false }()
			}
		}
	}
	sig := &fnSig{name: name, ret: []kind{KInt, KInt, KList, KStr, KDict}[x.intn(5, "ret")]}
	var params []string
	inner := &scope{parent: x.sc, fn: sig}
	add := func(n string, k kind) { inner.vars = append(inner.vars, &varInfo{n, k, nil}) }
	if x.opts.Recursion && x.chance(0.35, "recfn") {
		sig.recDepth = true
		sig.ret = KInt
		n := x.fresh("n")
		sig.pos = append(sig.pos, KInt)
		sig.posNames = append(sig.posNames, n)
		params = append(params, n)
		add(n, KInt)
		x.f("recursion")
	}
	np := x.intn(3, "npos")
	for i := 0; i < np; i++ {
		k := []kind{KInt, KInt, KList, KStr}[x.intn(4, "pk")]
		p := x.fresh("p")
		// occasionally shadow a visible outer variable with a parameter
		if vs := x.visible(k); len(vs) > 0 && x.chance(0.15, "shadow") {
			cand := vs[x.intn(len(vs), "shadowv")].name
			dup := false
			for _, q := range sig.posNames {
				if q == cand {
					dup = true
				}
			}
			if !dup {
				p = cand
				x.f("shadow-param")
			}
		}
		sig.pos = append(sig.pos, k)
		sig.posNames = append(sig.posNames, p)
		params = append(params, p)
		add(p, k)
	}
	no := x.intn(3, "nopt")
	for i := 0; i < no; i++ {
		k := []kind{KInt, KList}[x.intn(2, "ok")]
		p := x.fresh("o")
		// default evaluated at def time in the enclosing scope; a mutable default is shared between calls
		d := x.expr(k, 1)
		sig.opt = append(sig.opt, k)
		sig.optNames = append(sig.optNames, p)
		params = append(params, fmt.Sprintf("%s = %s", p, d))
		add(p, k)
		x.f("default-param")
	}
	var extra []*varInfo
	if x.chance(0.3, "varargs") {
		a := x.fresh("args")
		sig.varargs = true
		params = append(params, "*"+a)
		extra = append(extra, &varInfo{a, KTuple, nil})
		x.f("varargs")
	} else if x.chance(0.2, "barestar") {
		params = append(params, "*")
		k := x.fresh("k")
		sig.kwonly = append(sig.kwonly, k)
		sig.kwReq = append(sig.kwReq, true)
		params = append(params, k)
		add(k, KInt)
		x.f("kwonly")
	}
	if sig.varargs && x.chance(0.5, "kwonly") {
		k := x.fresh("k")
		req := x.chance(0.4, "kwreq")
		sig.kwonly = append(sig.kwonly, k)
		sig.kwReq = append(sig.kwReq, req)
		if req {
			params = append(params, k)
		} else {
			params = append(params, fmt.Sprintf("%s = %s", k, x.expr(KInt, 0)))
		}
		add(k, KInt)
		x.f("kwonly")
	}
	if x.chance(0.25, "kwargs") {
		kw := x.fresh("kw")
		sig.kwargs = true
		params = append(params, "**"+kw)
		extra = append(extra, &varInfo{kw, KDict, nil})
		x.f("kwargs")
	}
	retain := ""
	if !sig.recDepth && len(extra) > 0 && x.chance(0.5, "retain-args") {
		e := extra[x.intn(len(extra), "retainwhich")]
		retain, sig.ret = e.name, e.k
		x.f("retained-varargs")
	}
	x.line("def %s(%s):", name, strings.Join(params, ", "))
	if !x.sc.file {
		x.f("nested-def")
	}
	inner.vars = append(inner.vars, extra...)
	saved := x.sc
	x.sc = inner
	x.indent++
	x.depth++
	if x.cfg.Docstrings && x.chance(0.4, "doc") {
		x.line("\"doc of %s\"", name)
	}
	if sig.recDepth {
		n := sig.posNames[0]
		x.line("if %s <= 0:", n)
		x.indent++
		x.line("return %s", x.expr(KInt, 1))
		x.indent--
	}
	nb := 1 + x.intn(4, "defn")
	for i := 0; i < nb && x.budget > 0; i++ {
		x.bodyStmt()
	}
	if sig.recDepth {
		// self call with a strictly smaller depth; other arguments regenerated
		self := &varInfo{name, 0, sig}
		call := x.callExprWithDepth(self, fmt.Sprintf("%s - 1", sig.posNames[0]))
		x.line("return t(%s, %s) + %s", x.tag(), call, x.expr(KInt, 1))
	} else if retain != "" {
		// the *args tuple / **kwargs dict itself outlives the call
		x.line("return %s", retain)
	} else {
		x.line("return %s", x.expr(sig.ret, 2))
	}
	x.depth--
	x.indent--
	x.sc = saved
	x.declare(name, 0, sig)
}

// ---------------------------------------------------------------- expressions

func (x *g) wrapT(e string) string {
	if x.cfg.NoEffects {
		return e
	}
	if x.chance(0.25, "wrap") {
		return fmt.Sprintf("t(%s, %s)", x.tag(), e)
	}
	return e
}

func (x *g) expr(k kind, depth int) string {
	if x.risky("wrong-kind") {
		x.f("risky-kind")
		others := []kind{KInt, KStr, KList, KDict, KBool, KTuple}
		k2 := others[x.intn(len(others), "wk")]
		if k2 != k {
			return "(" + x.exprOf(k2, 0) + ")"
		}
	}
	return x.wrapT(x.exprOf(k, depth))
}

// cond is an expression in a position where only its truth matters (if/elif/while conditions, conditional
// expressions, comprehension conditions, operands of not/and/or): usually a boolean, sometimes any other value -
// a unary operator applied to an int (not to be confused with `not`), a container, a string, a parenthesised chain.
func (x *g) cond(depth int) string {
	if depth < 0 {
		depth = 0
	}
	if !x.chance(0.2, "nonbool-cond") {
		return x.expr(KBool, depth)
	}
	x.f("nonbool-condition")
	switch x.intn(8, "condform") {
	case 0:
		return "-" + x.expr(KInt, depth)
	case 1:
		return "~" + x.expr(KInt, depth)
	case 2:
		return "+" + x.expr(KInt, depth)
	case 3:
		return "not -" + x.expr(KInt, depth)
	case 4:
		return x.expr(KList, depth)
	case 5:
		return x.expr(KStr, depth)
	case 6:
		return "not not " + x.expr(KInt, depth)
	default:
		return "(" + x.expr(KInt, depth) + " - 1)"
	}
}

// mentions reports whether expression text e uses the name (as a whole identifier).
func mentions(e, name string) bool {
	for i := 0; i+len(name) <= len(e); i++ {
		if e[i:i+len(name)] != name {
			continue
		}
		before := i == 0 || !isIdentByte(e[i-1])
		after := i+len(name) == len(e) || !isIdentByte(e[i+len(name)])
		if before && after {
			return true
		}
	}
	return false
}

func isIdentByte(c byte) bool {
	return c == '_' || c >= '0' && c <= '9' || c >= 'a' && c <= 'z' || c >= 'A' && c <= 'Z'
}

// A container or string that grows by a multiple of itself on every execution of a statement (l += l, s = s * 2)
// doubles in every loop iteration: nested loops then need memory exponential in the nesting. The generator does not
// write such statements: the right-hand side of a growing assignment never mentions the variable that grows.
func (x *g) noSelfGrowth(target string, k kind, e string) string {
	if k == KInt || k == KBool || !mentions(e, target) {
		return e
	}
	x.f("avoided-self-growth")
	switch k {
	case KList:
		return "[1, 2]"
	case KStr:
		return "\"s\""
	case KTuple:
		return "(1, 2)"
	case KDict:
		return "{\"p\": 1}"
	}
	return x.exprOf(k, 0)
}

func (x *g) varOr(k kind, lit func() string) string {
	vs := x.visible(k)
	if len(vs) > 0 && x.chance(0.6, "usevar") {
		return vs[x.intn(len(vs), "var")].name
	}
	return lit()
}

func (x *g) intLit() string {
	if x.cfg.BigConsts && x.chance(0.1, "big") {
		x.f("consts")
		if x.chance(0.3, "floatconst") {
			return []string{"int(2.5 * 2)", "int(1e3)", "len(b\"ab\\xff\\x00\")", "int(0.1 + 0.2 + 4503599627370497.0)", "len(str(1e300))"}[x.intn(5, "fc")]
		}
		return []string{"0x7fffffff", "2147483648", "-2147483649", "0xffffffffffffffff", "123456789012345678901234567890",
			"0o777", "0b1011",
			// one number in several spellings, and (strLit) the texts whose bytes are its digits or its big-endian bytes:
			// distinct constants of one program that a pool keyed on the wrong thing would merge
			"1203813099885386221641", "0x414243444546474849"}[x.intn(9, "bigv")]
	}
	if v := x.intn(10, "int") - 2; v < 0 {
		return fmt.Sprintf("(%d)", v)
	} else {
		return fmt.Sprintf("%d", v)
	}
}

func (x *g) strLit() string {
	if x.cfg.BigConsts && x.chance(0.1, "strange") {
		x.f("consts")
		return []string{`"\x00\x01"`, `"éé\U0001F600"`, `'it"s'`, `"""tri
ple"""`, `r"raw\n"`, `""`, `"ABCDEFGHI"`, `"1203813099885386221641"`}[x.intn(8, "strv")]
	}
	return []string{`"a"`, `"b"`, `"p"`, `"q"`, `"ab"`, `""`, `"z z"`}[x.intn(7, "str")]
}

func (x *g) exprOf(k kind, depth int) string {
	leaf := depth <= 0
	switch k {
	case KInt:
		if leaf {
			return x.varOr(KInt, x.intLit)
		}
		switch x.intn(16, "int-e") {
		case 0, 1:
			return x.varOr(KInt, x.intLit)
		case 2:
			op := []string{"+", "-", "*", "|", "&", "^"}[x.intn(6, "binop")]
			return fmt.Sprintf("(%s %s %s)", x.expr(KInt, depth-1), op, x.expr(KInt, depth-1))
		case 3:
			// unparenthesised chain: precedence matters
			return fmt.Sprintf("(%s + %s * %s - %s)", x.expr(KInt, depth-1), x.expr(KInt, 0), x.expr(KInt, 0), x.expr(KInt, depth-1))
		case 4:
			if x.chance(0.3, "unary") {
				// unary operators; occasionally on an operand that has none (the failure is the operator's)
				op := []string{"-", "+", "~"}[x.intn(3, "unop")]
				if x.risky("bad-unary") {
					x.f("risky-unary")
					return fmt.Sprintf("(%s%s)", op, x.exprOf([]kind{KStr, KList, KDict}[x.intn(3, "unk")], 0))
				}
				return fmt.Sprintf("(%s%s)", op, x.expr(KInt, depth-1))
			}
			d := 1 + x.intn(4, "divisor")
			if x.risky("divzero") {
				d = 0
				x.f("risky-div")
			}
			op := []string{"//", "%"}[x.intn(2, "divop")]
			return fmt.Sprintf("(%s %s %d)", x.expr(KInt, depth-1), op, d)
		case 5:
			if ts := x.visible(KTuple); len(ts) > 0 && x.chance(0.4, "lentuple") {
				return fmt.Sprintf("len(%s)", ts[x.intn(len(ts), "tv")].name)
			}
			return fmt.Sprintf("len(%s)", x.expr(KList, depth-1))
		case 6:
			if ls := x.visible(KList); len(ls) > 0 {
				l := ls[x.intn(len(ls), "l")]
				return fmt.Sprintf("%s[%s]", l.name, x.indexFor(l.name))
			}
			return fmt.Sprintf("%s[0]", x.exprOf(KList, 0))
		case 7:
			if ds := x.visible(KDict); len(ds) > 0 {
				d := ds[x.intn(len(ds), "d")]
				if x.risky("missing-key") {
					x.f("risky-key")
					return fmt.Sprintf("%s[%s]", d.name, x.expr(KStr, 0))
				}
				return fmt.Sprintf("%s.get(%s, %s)", d.name, x.expr(KStr, 0), x.expr(KInt, 0))
			}
			return x.intLit()
		case 8:
			x.f("condexpr")
			return fmt.Sprintf("(%s if %s else %s)", x.expr(KInt, depth-1), x.cond(depth-1), x.expr(KInt, depth-1))
		case 9:
			x.f("shortcircuit")
			op := []string{"or", "and"}[x.intn(2, "sc")]
			return fmt.Sprintf("(%s %s %s)", x.expr(KInt, depth-1), op, x.expr(KInt, depth-1))
		case 10:
			if fs := x.functionsRet(KInt); len(fs) > 0 {
				return x.callExpr(fs[x.intn(len(fs), "f")], depth-1)
			}
			return fmt.Sprintf("(-%s)", x.expr(KInt, depth-1))
		case 11:
			x.f("lambda")
			p := x.fresh("q")
			inner := &scope{parent: x.sc, fn: &fnSig{ret: KInt}}
			inner.vars = append(inner.vars, &varInfo{p, KInt, nil})
			x.sc = inner
			body := x.expr(KInt, depth-1)
			x.sc = inner.parent
			return fmt.Sprintf("(lambda %s: %s)(%s)", p, body, x.expr(KInt, depth-1))
		case 12:
			if rs := x.visible(KRec); len(rs) > 0 {
				return fmt.Sprintf("%s.a", rs[x.intn(len(rs), "r")].name)
			}
			return fmt.Sprintf("(~%s)", x.expr(KInt, depth-1))
		case 13:
			return fmt.Sprintf("max(%s, %s)", x.expr(KInt, depth-1), x.expr(KInt, depth-1))
		case 14:
			return fmt.Sprintf("(%s << %d)", x.expr(KInt, depth-1), x.intn(4, "sh"))
		default:
			return fmt.Sprintf("int(%s)", x.expr(KBool, depth-1))
		}
	case KBool:
		if leaf {
			return []string{"True", "False"}[x.intn(2, "bool")]
		}
		switch x.intn(8, "bool-e") {
		case 0:
			op := []string{"<", "<=", "==", "!=", ">", ">="}[x.intn(6, "cmp")]
			return fmt.Sprintf("(%s %s %s)", x.expr(KInt, depth-1), op, x.expr(KInt, depth-1))
		case 1:
			op := []string{"in", "not in"}[x.intn(2, "in")]
			return fmt.Sprintf("(%s %s %s)", x.expr(KInt, depth-1), op, x.expr(KList, depth-1))
		case 2:
			return fmt.Sprintf("(not %s)", x.cond(depth-1))
		case 3:
			x.f("shortcircuit")
			op := []string{"or", "and"}[x.intn(2, "sc")]
			return fmt.Sprintf("(%s %s %s)", x.cond(depth-1), op, x.expr(KBool, depth-1))
		case 4:
			return fmt.Sprintf("(%s in %s)", x.expr(KStr, 0), x.expr(KDict, depth-1))
		case 5:
			return fmt.Sprintf("bool(%s)", x.expr(KList, depth-1))
		case 6:
			return fmt.Sprintf("(%s == %s)", x.expr(KList, depth-1), x.expr(KList, depth-1))
		default:
			return x.varOr(KBool, func() string { return "True" })
		}
	case KStr:
		if leaf {
			return x.varOr(KStr, x.strLit)
		}
		switch x.intn(8, "str-e") {
		case 0:
			return x.varOr(KStr, x.strLit)
		case 1:
			x.f("plus-chain")
			return fmt.Sprintf("(%s + %s + %s)", x.expr(KStr, depth-1), x.strLit(), x.strLit())
		case 2:
			return fmt.Sprintf("(\"%%d-%%s\" %% (%s, %s))", x.expr(KInt, depth-1), x.expr(KStr, 0))
		case 3:
			return fmt.Sprintf("str(%s)", x.expr(KInt, depth-1))
		case 4:
			return fmt.Sprintf("%s.upper()", x.expr(KStr, depth-1))
		case 5:
			return fmt.Sprintf("\",\".join([str(%s) for %s in %s])", "e_", "e_", x.expr(KList, depth-1))
		case 6:
			return fmt.Sprintf("\"{}:{}\".format(%s, %s)", x.expr(KInt, depth-1), x.expr(KStr, 0))
		default:
			return fmt.Sprintf("(%s * %d)", x.expr(KStr, 0), x.intn(3, "rep"))
		}
	case KList:
		if leaf {
			return x.varOr(KList, func() string { return fmt.Sprintf("[%s, %s]", x.intLit(), x.intLit()) })
		}
		switch x.intn(13, "list-e") {
		case 0, 1:
			return x.varOr(KList, func() string { return fmt.Sprintf("[%s]", x.expr(KInt, depth-1)) })
		case 2:
			n := x.intn(4, "nelem")
			var es []string
			for i := 0; i < n; i++ {
				es = append(es, x.expr(KInt, depth-1))
			}
			return "[" + strings.Join(es, ", ") + "]"
		case 3:
			// '+' chain of list displays: exercises the compiler's literal folding
			x.f("plus-chain")
			n := 2 + x.intn(3, "nsum")
			var es []string
			if x.chance(x.cfg.ErrRate*4, "bad-first-summand") {
				// a first operand of the wrong type: the first '+' fails
				x.f("risky-plus-operand")
				es = append(es, x.exprOf(KInt, 0))
			}
			for i := 0; i < n; i++ {
				if x.chance(0.7, "display") {
					es = append(es, fmt.Sprintf("[%s]", x.expr(KInt, depth-1)))
				} else {
					es = append(es, x.exprOf(KList, 0))
				}
			}
			return "(" + strings.Join(es, " + ") + ")"
		case 4:
			return x.comprehension(depth)
		case 5:
			return fmt.Sprintf("sorted(%s)", x.expr(KList, depth-1))
		case 6:
			if fs := x.functionsTaking1Int(); len(fs) > 0 && x.chance(0.7, "sortkey") {
				x.f("callback")
				return fmt.Sprintf("sorted(%s, key = %s)", x.expr(KList, depth-1), fs[x.intn(len(fs), "kf")].name)
			}
			return fmt.Sprintf("list(range(%d))", x.intn(4, "rng"))
		case 7:
			return fmt.Sprintf("%s[%s:%s]", x.expr(KList, depth-1), x.optInt("lo"), x.optInt("hi"))
		case 8:
			return fmt.Sprintf("(%s * %d)", x.expr(KList, depth-1), x.intn(3, "rep"))
		case 9:
			return fmt.Sprintf("sorted(%s.values())", x.expr(KDict, depth-1))
		case 10:
			if fs := x.functionsRet(KList); len(fs) > 0 {
				return x.callExpr(fs[x.intn(len(fs), "f")], depth-1)
			}
			return fmt.Sprintf("list(%s)", x.expr(KTuple, depth-1))
		case 11:
			if rs := x.visible(KRec); len(rs) > 0 {
				return fmt.Sprintf("%s.l", rs[x.intn(len(rs), "r")].name)
			}
			return fmt.Sprintf("[%s]", x.expr(KInt, depth-1))
		default:
			x.f("comp-closure")
			return fmt.Sprintf("[f_() for f_ in [(lambda: k_ + %s) for k_ in range(%d)]]", x.exprOf(KInt, 0), 1+x.intn(3, "nl"))
		}
	case KDict:
		if leaf {
			return x.varOr(KDict, func() string { return fmt.Sprintf("{\"a\": %s}", x.intLit()) })
		}
		switch x.intn(6, "dict-e") {
		case 0, 1:
			return x.varOr(KDict, func() string {
				return fmt.Sprintf("{\"p\": %s, \"q\": %s}", x.expr(KInt, depth-1), x.expr(KInt, depth-1))
			})
		case 2:
			k2 := x.strLit()
			if x.risky("dupkey") {
				x.f("risky-dupkey")
				k2 = `"a"`
			} else if k2 == `"a"` {
				k2 = `"b"`
			}
			return fmt.Sprintf("{\"a\": %s, t(%s, %s): %s}", x.expr(KInt, depth-1), x.tag(), k2, x.expr(KInt, depth-1))
		case 3:
			x.f("dict-comp")
			v := x.fresh("c")
			return fmt.Sprintf("{str(%s): %s * 2 for %s in %s}", v, v, v, x.expr(KList, depth-1))
		case 4:
			return fmt.Sprintf("dict(a = %s, b = %s)", x.expr(KInt, depth-1), x.expr(KInt, depth-1))
		default:
			return fmt.Sprintf("(%s | %s)", x.expr(KDict, depth-1), x.expr(KDict, depth-1))
		}
	case KTuple:
		if leaf {
			return x.varOr(KTuple, func() string { return fmt.Sprintf("(%s, %s)", x.intLit(), x.intLit()) })
		}
		switch x.intn(3, "tuple-e") {
		case 0:
			return fmt.Sprintf("(%s, %s)", x.expr(KInt, depth-1), x.expr(KInt, depth-1))
		case 1:
			x.f("plus-chain")
			return fmt.Sprintf("((%s,) + (%s,) + (%s,))", x.expr(KInt, depth-1), x.expr(KInt, depth-1), x.expr(KInt, 0))
		default:
			return fmt.Sprintf("tuple(%s)", x.expr(KList, depth-1))
		}
	case KRec:
		vs := x.visible(KRec)
		if len(vs) > 0 && x.chance(0.5, "userec") {
			return vs[x.intn(len(vs), "rec")].name
		}
		return fmt.Sprintf("rec(a = %s, b = %s, l = %s)", x.expr(KInt, depth-1), x.expr(KInt, 0), x.expr(KList, depth-1))
	case KSet:
		vs := x.visible(KSet)
		if len(vs) > 0 && x.chance(0.5, "useset") {
			return vs[x.intn(len(vs), "set")].name
		}
		if !leaf && x.chance(0.3, "setop") {
			op := []string{"|", "&", "-", "^"}[x.intn(4, "setopk")]
			return fmt.Sprintf("(set(%s) %s set(%s))", x.expr(KList, depth-1), op, x.expr(KList, depth-1))
		}
		return fmt.Sprintf("set(%s)", x.expr(KList, depth-1))
	}
	return "None"
}

func (x *g) optInt(label string) string {
	switch x.intn(3, label) {
	case 0:
		return ""
	case 1:
		return fmt.Sprintf("%d", x.intn(5, label+"v")-2)
	}
	return x.exprOf(KInt, 0)
}

func (x *g) comprehension(depth int) string {
	x.f("comprehension")
	v := x.fresh("c")
	// the first iterable is evaluated in the enclosing block
	seq := x.expr(KList, depth-1)
	x.sc = &scope{parent: x.sc, comp: true}
	x.sc.vars = append(x.sc.vars, &varInfo{v, KInt, nil})
	clauses := fmt.Sprintf("for %s in %s", v, seq)
	var extra string
	if x.chance(0.4, "comp2") {
		x.f("comp-2clauses")
		v2 := x.fresh("c")
		seq2 := x.exprOf(KList, depth-1)
		if x.chance(0.5, "dep") {
			seq2 = fmt.Sprintf("range(%s %% 3)", v)
		}
		if x.chance(0.3, "mid-if") {
			clauses += fmt.Sprintf(" if %s", x.cond(depth-1))
		}
		x.sc.vars = append(x.sc.vars, &varInfo{v2, KInt, nil})
		extra = " + " + v2
		clauses += fmt.Sprintf(" for %s in %s", v2, seq2)
	}
	if x.chance(0.5, "compif") {
		clauses += fmt.Sprintf(" if %s", x.cond(depth-1))
	}
	body := x.expr(KInt, depth-1)
	if extra != "" {
		body = "(" + body + extra + ")"
	}
	if x.chance(0.15, "nestedcomp") {
		x.f("nested-comp")
		w := x.fresh("c")
		body = fmt.Sprintf("len([%s for %s in range(%s %% 3)])", w, w, v)
	}
	if x.chance(0.15, "comp-closure") {
		x.f("comp-closure")
		body = fmt.Sprintf("(lambda: %s)", body)
		x.sc = x.sc.parent
		f := x.fresh("c")
		return fmt.Sprintf("[%s() for %s in [%s %s]]", f, f, body, clauses)
	}
	x.sc = x.sc.parent
	return fmt.Sprintf("[%s %s]", body, clauses)
}

func (x *g) functionsRet(k kind) []*varInfo {
	var out []*varInfo
	for _, f := range x.functions() {
		if f.fn.ret == k && (!f.fn.recDepth) {
			out = append(out, f)
		}
	}
	// recursive functions are callable too, with a small literal depth
	for _, f := range x.functions() {
		if f.fn.ret == k && f.fn.recDepth {
			out = append(out, f)
		}
	}
	return out
}

func (x *g) functionsTaking1Int() []*varInfo {
	var out []*varInfo
	for _, f := range x.functions() {
		s := f.fn
		if len(s.pos) == 1 && s.pos[0] == KInt && !s.recDepth && s.ret == KInt {
			ok := true
			for _, r := range s.kwReq {
				if r {
					ok = false
				}
			}
			if ok {
				out = append(out, f)
			}
		}
	}
	return out
}

func (x *g) callExpr(f *varInfo, depth int) string {
	if f.fn.recDepth {
		return x.callExprWithDepth(f, fmt.Sprintf("%d", x.intn(3, "recn")))
	}
	return x.callExprWithDepth(f, "")
}

// callExprWithDepth renders a call to f using every call form: positional,
// named, *seq, **dict. first (if non-empty) is the expression for the first
// positional parameter.
func (x *g) callExprWithDepth(f *varInfo, first string) string {
	s := f.fn
	depth := 1
	var pos, named []string
	star, starstar := "", ""
	names := append([]string(nil), s.posNames...)
	kinds := append([]kind(nil), s.pos...)
	// optional parameters: supply a prefix of them
	nopt := x.intn(len(s.opt)+1, "nopt")
	for i := 0; i < nopt; i++ {
		names = append(names, s.optNames[i])
		kinds = append(kinds, s.opt[i])
	}
	vals := make([]string, len(names))
	for i := range names {
		if i == 0 && first != "" {
			vals[i] = first
		} else {
			vals[i] = x.expr(kinds[i], depth)
		}
	}
	// split: some positional, the rest by name or through *seq / **dict
	cut := x.intn(len(names)+1, "cut")
	form := x.intn(4, "callform")
	for i := 0; i < cut; i++ {
		pos = append(pos, vals[i])
	}
	rest := names[cut:]
	restVals := vals[cut:]
	switch {
	case len(rest) == 0:
	case form == 0 || form == 1:
		for i, n := range rest {
			named = append(named, fmt.Sprintf("%s = %s", n, restVals[i]))
		}
		x.f("named-args")
	case form == 2:
		star = "[" + strings.Join(restVals, ", ") + "]"
		x.f("star-args")
	default:
		var ents []string
		for i, n := range rest {
			ents = append(ents, fmt.Sprintf("\"%s\": %s", n, restVals[i]))
		}
		starstar = "{" + strings.Join(ents, ", ") + "}"
		x.f("starstar-args")
	}
	if s.varargs && star == "" && len(named) == 0 && starstar == "" && nopt == len(s.opt) && x.chance(0.5, "surplus") {
		pos = append(pos, x.expr(KInt, 0))
	}
	for i, k := range s.kwonly {
		if s.kwReq[i] || x.chance(0.5, "kwo") {
			named = append(named, fmt.Sprintf("%s = %s", k, x.expr(KInt, 0)))
		}
	}
	if s.kwargs && x.chance(0.4, "extra-kw") {
		if starstar == "" && x.chance(0.5, "extra-as-dict") {
			starstar = fmt.Sprintf("{\"zz\": %s}", x.expr(KInt, 0))
		} else {
			named = append(named, fmt.Sprintf("zz = %s", x.expr(KInt, 0)))
		}
	}
	if x.risky("bad-call") {
		x.f("risky-call")
		switch x.intn(3, "badcall") {
		case 0:
			pos = append(pos, "0", "0", "0", "0")
		case 1:
			named = append(named, "nosuch = 1")
		case 2:
			if len(pos) > 0 {
				pos = pos[:len(pos)-1]
			}
		}
	}
	all := append([]string{}, pos...)
	all = append(all, named...)
	if star != "" {
		all = append(all, "*"+star)
	}
	if starstar != "" {
		all = append(all, "**"+starstar)
	}
	return fmt.Sprintf("%s(%s)", f.name, strings.Join(all, ", "))
}

// Pad returns src with blank/comment lines inserted between statements and
// runs of spaces inserted after some "t(" tokens, so that line and column
// deltas in the compiled position tables saturate. The program's meaning is
// unchanged. maxGap bounds the number of inserted lines / columns per site.
func Pad(t *rapid.T, src string, maxGap int) string {
	lines := strings.Split(src, "\n")
	var out []string
	inTriple := false
	for _, l := range lines {
		if !inTriple && vk.Chance(t, 0.15) {
			n := []int{1, 17, 40, 300, maxGap}[vk.Uniform(t, 5)]
			for i := 0; i < n; i++ {
				if i%50 == 7 {
					out = append(out, "# pad")
				} else {
					out = append(out, "")
				}
			}
		}
		if !inTriple && strings.Contains(l, "t(") && vk.Chance(t, 0.2) {
			n := []int{1, 33, 70, 1000, maxGap}[vk.Uniform(t, 5)]
			i := strings.Index(l, "t(")
			// only pad call sites that are not inside a string literal on this line (generated strings never contain "t(")
			l = l[:i+2] + strings.Repeat(" ", n) + l[i+2:]
		}
		if strings.Count(l, `"""`)%2 == 1 {
			inTriple = !inTriple
		}
		out = append(out, l)
	}
	return strings.Join(out, "\n")
}
