package gen

import (
	"fmt"
	"strings"

	"pgregory.net/rapid"
	"verif/harness/vk"
)

// ModVar is a global of a generated graph-building module.
type ModVar struct {
	Name string `json:"name"`
	Kind string `json:"kind"` // list dict set tuple struct rec func factory other
}

// Module is a generated module that builds an object graph into its globals (C04, C05).
type Module struct {
	Src  string   `json:"src"`
	Set  bool     `json:"set"`
	Fail bool     `json:"fail"` // the module contains an injected failure
	Vars []ModVar `json:"vars,omitempty"`
}

// GenModule draws a graph-building module. noFail suppresses the injected failure.
func GenModule(t *rapid.T, noFail bool) Module {
	c := Module{Set: vk.Chance(t, 0.6)}
	var sb strings.Builder
	var vars []ModVar
	n := 0
	fresh := func(p string) string { n++; return fmt.Sprintf("%s%d", p, n) }
	line := func(format string, args ...any) { fmt.Fprintf(&sb, format+"\n", args...) }
	of := func(kinds ...string) []ModVar {
		var out []ModVar
		for _, v := range vars {
			for _, k := range kinds {
				if v.Kind == k {
					out = append(out, v)
				}
			}
		}
		return out
	}
	atom := func() string {
		return []string{"1", "2", "\"s\"", "\"a-long-string-atom\"", "None", "True", "(3, 4)"}[vk.Uniform(t, 7)]
	}
	val := func() string {
		if len(vars) > 0 && vk.Chance(t, 0.55) {
			return vars[vk.Uniform(t, len(vars))].Name
		}
		switch vk.Uniform(t, 6) {
		case 0:
			return "[" + atom() + "]"
		case 1:
			return "{\"n\": " + atom() + "}"
		case 2:
			return "HOSTLIST"
		}
		return atom()
	}
	hashable := func() string {
		// a function is hashable and may hold mutable state (defaults, closure variables)
		if fs := of("func"); len(fs) > 0 && vk.Chance(t, 0.3) {
			f := fs[vk.Uniform(t, len(fs))].Name
			return []string{f, "(" + f + ", 1)", "(lambda x = [1, [2]]: x)"}[vk.Uniform(t, 3)]
		}
		return []string{"\"k\"", "\"a-rather-long-key\"", "7", "(1, (2, 3))", "struct(a = 1, b = (2,))", "(\"x\", struct(z = 0))"}[vk.Uniform(t, 6)]
	}
	nst := 4 + vk.Uniform(t, 14)
	failAt := -1
	if !noFail && vk.Chance(t, 0.3) {
		failAt = vk.Uniform(t, nst)
		c.Fail = true
	}
	nm := 0
	for i := 0; i < nst; i++ {
		if i == failAt {
			line("boom_%d = 1 // 0", i)
		}
		switch vk.Uniform(t, 19) {
		case 0, 1:
			v := fresh("v")
			if vk.Chance(t, 0.12) {
				line("%s = []", v)
			} else {
				line("%s = [%s, %s]", v, val(), val())
			}
			vars = append(vars, ModVar{v, "list"})
		case 2:
			v := fresh("v")
			switch vk.Uniform(t, 6) {
			case 0:
				// never populated: the hash table is allocated lazily
				line("%s = %s", v, []string{"{}", "dict()", "{k_: 1 for k_ in []}"}[vk.Uniform(t, 3)])
			default:
				line("%s = {%s: %s, \"z\": %s}", v, hashable(), val(), val())
			}
			vars = append(vars, ModVar{v, "dict"})
		case 3:
			v := fresh("v")
			line("%s = (%s, [%s])", v, val(), val())
			vars = append(vars, ModVar{v, "tuple"})
		case 4:
			if c.Set {
				v := fresh("v")
				if vk.Chance(t, 0.2) {
					line("%s = %s", v, []string{"set()", "set([])", "set([1]) & set([2])"}[vk.Uniform(t, 3)])
				} else {
					line("%s = set([%s, 5, \"e\"])", v, hashable())
				}
				vars = append(vars, ModVar{v, "set"})
			}
		case 5:
			v := fresh("v")
			line("%s = struct(f = %s, g = {\"x\": [%s]})", v, val(), val())
			vars = append(vars, ModVar{v, "struct"})
		case 6:
			v := fresh("v")
			line("%s = rec(a = %s, l = [%s])", v, val(), val())
			vars = append(vars, ModVar{v, "rec"})
		case 7: // sharing and cycles
			if ls := of("list"); len(ls) > 0 {
				line("%s.append(%s)", ls[vk.Uniform(t, len(ls))].Name, val())
			}
		case 8:
			if ds := of("dict"); len(ds) > 0 {
				line("%s[%s] = %s", ds[vk.Uniform(t, len(ds))].Name, hashable(), val())
			}
		case 9:
			f := fresh("f")
			ret := "p"
			switch vk.Uniform(t, 4) {
			case 0:
				line("def %s(p = %s, q = [%s], *, k = {\"d\": %s}):", f, val(), val(), val())
			case 1:
				// optional keyword-only parameters after a mandatory one, and the other way round
				line("def %s(p = [%s], *, must, k = {\"d\": %s}, k2 = [%s]):", f, val(), val(), val())
				ret = "(p, k2)"
			case 2:
				line("def %s(*args, k0 = [%s], must, k = {\"d\": %s}, **kw):", f, val(), val())
				ret = "(k0, k)"
			case 3:
				line("def %s(p, q = [%s], *rest, must1, must2, k = [%s]):", f, val(), val())
				ret = "(q, k)"
			}
			line("    return %s", ret)
			vars = append(vars, ModVar{f, "func"})
		case 10:
			mk, cvar := fresh("mk"), fresh("c")
			line("def %s(arg):", mk)
			line("    h = [%s, arg]", val())
			line("    hd = {\"h\": h}")
			line("    hs = h")
			line("    def inner(x = None):")
			line("        return (h, hd, hs)")
			line("    hs = [h]")
			line("    return inner")
			line("%s = %s(%s)", cvar, mk, val())
			vars = append(vars, ModVar{cvar, "func"})
		case 11:
			v := fresh("lam")
			line("%s = [lambda: w for w in [%s, [%s]]]", v, val(), val())
			vars = append(vars, ModVar{v, "list"})
		case 12:
			if ls := of("list", "dict", "set"); len(ls) > 0 && vk.Chance(t, 0.5) {
				x := ls[vk.Uniform(t, len(ls))]
				meth := map[string][]string{"list": {"append", "extend", "pop"}, "dict": {"update", "setdefault", "clear"}, "set": {"add", "discard"}}[x.Kind]
				b := fresh("bm")
				if vk.Chance(t, 0.5) {
					line("%s = %s.%s", b, x.Name, meth[vk.Uniform(t, len(meth))])
				} else {
					line("%s = [%s.%s, (%s.%s,)]", b, x.Name, meth[0], x.Name, meth[len(meth)-1])
				}
				vars = append(vars, ModVar{b, "other"})
			} else {
				// a bound method whose receiver is reachable through the bound method only
				b := fresh("bm")
				recv := []string{"[" + val() + "]", "{\"r\": " + val() + "}", "[[" + atom() + "]]"}[vk.Uniform(t, 3)]
				meth := "append"
				if strings.HasPrefix(recv, "{") {
					meth = []string{"update", "setdefault", "pop"}[vk.Uniform(t, 3)]
				}
				switch vk.Uniform(t, 4) {
				case 0:
					line("%s = %s.%s", b, recv, meth)
				case 1:
					mk := fresh("mkbm")
					line("def %s():", mk)
					line("    hidden = %s", recv)
					line("    return hidden.%s", meth)
					line("%s = %s()", b, mk)
				case 2:
					line("%s = struct(m = %s.%s)", b, recv, meth)
				case 3:
					line("%s = {\"m\": (%s.%s,)}", b, recv, meth)
				}
				vars = append(vars, ModVar{b, "other"})
			}
		case 13: // kept out of the globals
			switch vk.Uniform(t, 3) {
			case 0:
				line("keep([%s, [0]])", atom())
			case 1:
				f := fresh("tmp")
				line("def %s():", f)
				line("    loc = {\"kept\": [1]}")
				line("    keep(loc)")
				line("    keep(loc[\"kept\"])")
				line("    return 0")
				line("%s_r = %s()", f, f)
			case 2:
				v := fresh("v")
				line("%s = [[7], [8]]", v)
				line("keep(%s.pop())", v)
				vars = append(vars, ModVar{v, "list"})
			}
		case 14: // the module's own mutators, called by the host afterwards
			if ls := of("list", "dict", "rec"); len(ls) > 0 {
				x := ls[vk.Uniform(t, len(ls))]
				nm++
				switch x.Kind {
				case "list":
					body := []string{"%s.append(1)", "%s += [1]", "%s.extend([2])", "%s.insert(0, 3)"}[vk.Uniform(t, 4)]
					line("def m_%d():", nm)
					line("    "+body, x.Name)
				case "dict":
					body := []string{"%s[\"new-key\"] = 1", "%s.update([(\"nk\", 1)])", "%s |= {\"nk2\": 2}", "%s.setdefault(\"nk3\", 3)"}[vk.Uniform(t, 4)]
					line("def m_%d():", nm)
					line("    "+body, x.Name)
				case "rec":
					line("def m_%d():", nm)
					line("    %s.a = 99", x.Name)
				}
			}
		case 15:
			if rs := of("rec"); len(rs) > 0 {
				line("%s.extra = %s", rs[vk.Uniform(t, len(rs))].Name, val())
			}
		case 16:
			v := fresh("v")
			line("%s = {(1, 2): [%s], struct(q = (1,)): {\"in\": %s}}", v, val(), val())
			vars = append(vars, ModVar{v, "dict"})
		case 18:
			// closures that capture themselves or each other: freezing must terminate
			mk, v := fresh("mkself"), fresh("selfref")
			line("def %s():", mk)
			line("    box = [%s]", val())
			line("    def g():")
			line("        return (g, h, box)")
			line("    def h(x = box):")
			line("        return g")
			line("    box.append(h)")
			line("    return g")
			line("%s = %s()", v, mk)
			vars = append(vars, ModVar{v, "func"})
		case 17:
			// closure factory, two levels deep: every later call of the factory makes a new (unfrozen) function
			// that shares the frozen cell of the enclosing function's variable
			o, f := fresh("outer"), fresh("factory")
			line("def %s():", o)
			line("    x = (%s, [%s], %s)", val(), val(), val())
			line("    def mk(extra = None):")
			switch vk.Uniform(t, 3) {
			case 0:
				line("        return lambda: len(x)")
			case 1:
				line("        def inner(y = [extra]):")
				line("            return (x, y)")
				line("        return inner")
			case 2:
				line("        return [lambda: x, lambda: (x, extra)]")
			}
			line("    return mk")
			line("%s = %s()", f, o)
			vars = append(vars, ModVar{f, "factory"})
		}
	}
	c.Src = sb.String()
	c.Vars = vars
	return c
}
