// C01: execution through resolve -> compile -> VM agrees with direct evaluation of the syntax tree.
package c01

import (
	"fmt"
	"strings"
	"testing"

	"pgregory.net/rapid"
	"verif/harness/gen"
	"verif/harness/run"
	"verif/harness/vk"
)

func TestMain(m *testing.M) {
	vk.Describe("scope-aware generated programs (defs, lambdas, closures, comprehensions, loops with break/continue/return, "+
		"conditional and short-circuit expressions, compound/augmented assignment to names/indexes/fields, all call forms, load) "+
		"x dialect options {set, while, recursion, top-level control}; each program is run through ExecFileOptions and through an "+
		"independent tree-walking reference interpreter with separately built environments; compared: host effect trace (t()/print with repr of arguments), "+
		"canonical final globals incl. aliasing, outcome, and on failure the whole Starlark call stack with positions. "+
		"Non-trivial = has >=1 function call and >=1 of {nested def/closure, comprehension with >=2 clauses or closure, loop with break/continue/early return, "+
		"augmented assignment to index/field, * or ** call, '+' chain} and >=3 trace entries; distinct by source text.",
		"the reference interpreter shares the value layer (operators, built-ins) with the implementation on purpose; value-level defects are C10-C13's job",
		"error message texts are not compared; slice failures are only required to lie inside the slice expression",
		"programs hitting the step/fuel budget are discarded and counted")
	vk.Main(m, "C01")
}

func checkProgram(p gen.Program) error {
	a := run.Impl(p)
	if a.Static {
		return fmt.Errorf("statically valid program rejected by the implementation: %s", a.ErrMsg)
	}
	b := run.Ref(p)
	if b.Static {
		return fmt.Errorf("reference interpreter rejected the program (harness defect?): %s", b.ErrMsg)
	}
	if a.Budget || b.Budget {
		vk.S.Discard()
		return nil
	}
	feats := map[string]bool{}
	for _, f := range p.Features {
		feats[f] = true
		vk.S.Class("feature:" + f)
	}
	if a.Failed {
		vk.S.Class("outcome:fail")
	} else {
		vk.S.Class("outcome:ok")
	}
	hasCall := strings.Contains(p.Src, "fn") || feats["lambda"]
	interesting := feats["nested-def"] || feats["comp-2clauses"] || feats["comp-closure"] || feats["break"] || feats["continue"] ||
		feats["early-return"] || feats["aug-index"] || feats["aug-field"] || feats["star-args"] || feats["starstar-args"] || feats["plus-chain"]
	if hasCall && interesting && len(a.Trace) >= 3 {
		vk.S.NonTrivial(p.Src)
		cls := "ok"
		if a.Failed {
			cls = "fail"
		}
		vk.S.Sample("program", cls, p)
	}
	if d := run.Compare(a, b); d != "" {
		if isPlusFolding(p, a, b) {
			return vk.Known("C01-plus-folding-order", fmt.Errorf("%s", d))
		}
		return fmt.Errorf("%s", d)
	}
	return nil
}

// isPlusFolding recognises the catalogued defect: in a '+' chain the compiler folds adjacent list/tuple
// displays, so elements of a later display are evaluated before an earlier '+' fails. Symptom: both runs fail,
// the reference trace is a strict prefix of the implementation's, and the failure is at a '+' operator.
func isPlusFolding(p gen.Program, a, b *run.Outcome) bool {
	if !a.Failed || !b.Failed || len(a.Trace) <= len(b.Trace) {
		return false
	}
	for i := range b.Trace {
		if a.Trace[i] != b.Trace[i] {
			return false
		}
	}
	if len(b.Frames) == 0 {
		return false
	}
	pos := b.Frames[len(b.Frames)-1].Pos
	lines := strings.Split(p.Src, "\n")
	if int(pos.Line) < 1 || int(pos.Line) > len(lines) {
		return false
	}
	line := []rune(lines[pos.Line-1])
	if int(pos.Col) < 1 || int(pos.Col) > len(line) || line[pos.Col-1] != '+' {
		return false
	}
	// the same operator position must be the implementation's failure point too
	if len(a.Frames) != len(b.Frames) {
		return false
	}
	pa := a.Frames[len(a.Frames)-1].Pos
	return pa.Line == pos.Line && pa.Col == pos.Col
}

var subProgram = vk.Register("program", checkProgram)

func TestPropPrograms(t *testing.T) {
	vk.Rapid(t, subProgram, vk.N(3000, 24000), func(t *rapid.T) gen.Program {
		return gen.Generate(t, gen.Config{MaxStmts: 40, ErrRate: 0.02})
	})
}

func TestPropProgramsNoErrors(t *testing.T) {
	// the same generator without deliberate errors: long successful executions
	vk.Rapid(t, subProgram, vk.N(1500, 12000), func(t *rapid.T) gen.Program {
		return gen.Generate(t, gen.Config{MaxStmts: 60, ErrRate: 0, BigConsts: true})
	})
}

func TestPropProgramsPadded(t *testing.T) {
	// layouts with large line/column gaps: failure positions must still agree (saturated position-table deltas)
	vk.Rapid(t, subProgram, vk.N(500, 2500), func(t *rapid.T) gen.Program {
		p := gen.Generate(t, gen.Config{MaxStmts: 30, ErrRate: 0.04})
		p.Src = gen.Pad(t, p.Src, vk.N(2000, 20000))
		p.Features = append(p.Features, "padded")
		return p
	})
}

// Every '+' chain of 3 and 4 operands over eight operand shapes (effectful scalar, list/tuple display with an
// effectful element, string/list/tuple literal, variables): the compiler folds runs of literals and displays in
// such chains; many of the chains fail at some '+', and which effects happened before is compared.
func TestPropPlusChains(t *testing.T) {
	shapes := []string{`t("%d", 1)`, `[t("%d", 2)]`, `(t("%d", 3),)`, `"s%d"`, `[%d]`, `(%d,)`, `L`, `N`}
	vk.S.SetExhaustive("plus-chains-3-4-operands-x-8-shapes", true)
	vk.Enum(t, subProgram, func(yield func(gen.Program) bool) {
		i := 0
		for n := 3; n <= 4; n++ {
			total := 1
			for k := 0; k < n; k++ {
				total *= len(shapes)
			}
			for code := 0; code < total; code++ {
				i++
				if !vk.Mine(i) {
					continue
				}
				var ops []string
				c := code
				for k := 0; k < n; k++ {
					sh := shapes[c%len(shapes)]
					c /= len(shapes)
					if strings.Contains(sh, "%d") {
						sh = fmt.Sprintf(sh, k)
					}
					ops = append(ops, sh)
				}
				chain := strings.Join(ops, " + ")
				src := "L = [7]\nN = 5\ndef f(L, N):\n    return " + chain + "\n"
				if code%2 == 0 {
					src += "R = f([8], 6)\n"
				} else {
					src += "R = " + chain + "\n"
				}
				if !yield(gen.Program{Src: src, Features: []string{"plus-chain", "plus-chain-enum"}}) {
					return
				}
			}
		}
	})
}

func TestReplay(t *testing.T) { vk.Replay(t) }
