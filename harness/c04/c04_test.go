// C04: values reachable from a finished module are deeply immutable.
package c04

import (
	"fmt"
	"sort"
	"strings"
	"testing"

	"go.starlark.net/starlark"
	"go.starlark.net/starlarkstruct"
	"go.starlark.net/syntax"
	"pgregory.net/rapid"
	"verif/harness/gen"
	"verif/harness/host"
	"verif/harness/vk"
)

func TestMain(m *testing.M) {
	vk.Describe("generated modules build object graphs into their globals (shared, nested and cyclic lists/dicts/sets/tuples, structs, host records, dict keys that are tuples/structs, "+
		"functions with mutable defaults, closures over mutable values incl. top-level comprehension variables captured by lambdas, bound methods stored in globals and in containers, "+
		"a mutable value passed in by the host), keep some values out of the globals (keep(x)), may fail at a random statement, and define mutator functions of their own. "+
		"After ExecFileOptions returns (either way) the harness walks everything reachable from the globals (elements, dict keys and values, struct/record fields, Function.ParamDefault, Function.FreeVar, Builtin.Receiver) and, "+
		"for every reachable node of a mutable type x every applicable mutator (all mutating methods, index/field assignment, +=, |=, Go API Append/SetIndex/Clear/SetKey/Delete/Insert, plus every method listed by AttrNames, plus the module's own mutator functions), "+
		"asserts an error and an unchanged canonical snapshot of the whole graph. Values not reachable from the globals must still accept mutation; predeclared and Universe must be unchanged. "+
		"Non-trivial = some mutable node is first reached through a function default, closure variable, bound-method receiver, dict key, struct/record field or tuple element; distinct by source.",
		"a mutator counts as 'applicable' only if it would change an unfrozen value of that shape (e.g. pop on a non-empty list)",
		"host-defined value types other than the harness record are not explored")
	vk.Main(m, "C04")
}

// ---------------------------------------------------------------- generator

type Case = gen.Module

func genModule(t *rapid.T) Case { return gen.GenModule(t, false) }

// ---------------------------------------------------------------- traversal

type node struct {
	v    starlark.Value
	via  string // edge kind by which the node was first reached
	path string
}

func walk(g starlark.StringDict) (nodes []node, seen map[any]bool) {
	seen = map[any]bool{}
	var names []string
	for n := range g {
		names = append(names, n)
	}
	sort.Strings(names)
	var visit func(v starlark.Value, via, path string, depth int)
	visit = func(v starlark.Value, via, path string, depth int) {
		if v == nil || depth > 60 {
			return
		}
		key := any(v)
		switch x := v.(type) {
		case starlark.Tuple:
			for i, e := range x {
				visit(e, "tuple-element", fmt.Sprintf("%s[%d]", path, i), depth+1)
			}
			return
		case *starlark.List, *starlark.Dict, *starlark.Set, *host.Rec, *starlark.Function, *starlarkstruct.Struct:
			_ = x
		case *starlark.Builtin:
			if r := x.Receiver(); r != nil {
				visit(r, "bound-receiver", path+".recv", depth+1)
			}
			return
		default:
			return
		}
		if seen[key] {
			return
		}
		seen[key] = true
		switch x := v.(type) {
		case *starlark.List:
			nodes = append(nodes, node{v, via, path})
			for i := 0; i < x.Len(); i++ {
				visit(x.Index(i), "list-element", fmt.Sprintf("%s[%d]", path, i), depth+1)
			}
		case *starlark.Dict:
			nodes = append(nodes, node{v, via, path})
			for _, it := range x.Items() {
				visit(it[0], "dict-key", path+".key", depth+1)
				visit(it[1], "dict-value", fmt.Sprintf("%s[%s]", path, it[0]), depth+1)
			}
		case *starlark.Set:
			nodes = append(nodes, node{v, via, path})
			it := x.Iterate()
			var e starlark.Value
			for it.Next(&e) {
				visit(e, "set-element", path+".elem", depth+1)
			}
			it.Done()
		case *host.Rec:
			nodes = append(nodes, node{v, via, path})
			for _, n := range x.Fields() {
				f, _ := x.Attr(n)
				visit(f, "field", path+"."+n, depth+1)
			}
		case *starlarkstruct.Struct:
			for _, n := range x.AttrNames() {
				f, _ := x.Attr(n)
				visit(f, "field", path+"."+n, depth+1)
			}
		case *starlark.Function:
			for i := 0; i < x.NumParams(); i++ {
				visit(x.ParamDefault(i), "default", fmt.Sprintf("%s.default%d", path, i), depth+1)
			}
			for i := 0; i < x.NumFreeVars(); i++ {
				b, fv := x.FreeVar(i)
				visit(fv, "closure", path+".free:"+b.Name, depth+1)
			}
		}
	}
	for _, n := range names {
		visit(g[n], "global", n, 0)
	}
	return
}

// ---------------------------------------------------------------- mutators

type mutator struct {
	name  string
	kinds string                      // types it applies to
	would func(v starlark.Value) bool // would it change an unfrozen value of this shape?
	do    func(th *starlark.Thread, v starlark.Value) error
}

var probeSrc = `
def p_setitem0(x): x[0] = "MUT"
def p_setkey(x): x["MUT-KEY"] = 1
def p_iadd(x): x += ["MUT"]
def p_ior(x): x |= {"MUT-KEY": 1}
def p_augindex(x): x[0] += ["MUT"]
def p_setfield(x): x.a = "MUT"
def p_newfield(x): x.brand_new = "MUT"
def p_augfield(x): x.l += ["MUT"]

# values derived from a frozen value are fresh and may be mutated; the frozen original must not notice
def d_list_mul1(x):
    y = x * 1
    y.append("MUT")
    y[0] = "MUT"
    y.clear()
def d_list_rmul1(x):
    y = 1 * x
    y.insert(0, "MUT")
    y.clear()
def d_list_add(x):
    y = x + []
    y.append("MUT")
    y.clear()
def d_list_radd(x):
    y = [] + x
    y.append("MUT")
    y.clear()
def d_list_slice(x):
    y = x[:]
    y.append("MUT")
    y.clear()
    z = x[0:len(x)]
    z.clear()
def d_list_copy(x):
    y = list(x)
    y.clear()
    z = sorted(x, key = lambda e: 0)
    z.clear()
    w = list(reversed(x))
    w.clear()
def d_list_iadd(x):
    y = x * 1
    y += ["MUT"]
    y.clear()
def d_dict_copy(x):
    y = dict(x)
    y["MUT-KEY"] = 1
    y.clear()
    z = x | {}
    z.clear()
    w = {} | x
    w.clear()
def d_dict_views(x):
    k = x.keys()
    k.append("MUT")
    k.clear()
    v = x.values()
    v.clear()
    i = x.items()
    i.clear()
def d_set_copy(x):
    y = x | set()
    y.add("MUT")
    y.clear()
    z = x.union([])
    z.clear()
    w = set(list(x))
    w.clear()
    u = x & x
    u.clear()
    t = x - set()
    t.clear()
    s = x ^ set()
    s.clear()
`

var probes starlark.StringDict

func init() {
	g, err := starlark.ExecFileOptions(&syntax.FileOptions{Set: true}, &starlark.Thread{}, "probes.star", probeSrc, nil)
	if err != nil {
		panic(err)
	}
	probes = g
}

func length(v starlark.Value) int    { return starlark.Len(v) }
func nonEmpty(v starlark.Value) bool { return length(v) > 0 }
func anyShape(starlark.Value) bool   { return true }

func meth(name string, args ...starlark.Value) func(*starlark.Thread, starlark.Value) error {
	return func(th *starlark.Thread, v starlark.Value) error {
		m, err := v.(starlark.HasAttrs).Attr(name)
		if err != nil || m == nil {
			return fmt.Errorf("no such method")
		}
		_, err = starlark.Call(th, m, starlark.Tuple(args), nil)
		return err
	}
}

func probe(name string) func(*starlark.Thread, starlark.Value) error {
	return func(th *starlark.Thread, v starlark.Value) error {
		_, err := starlark.Call(th, probes[name], starlark.Tuple{v}, nil)
		return err
	}
}

var mut = starlark.String("MUT")

func firstElem(v starlark.Value) starlark.Value {
	it := starlark.Iterate(v)
	defer it.Done()
	var e starlark.Value
	it.Next(&e)
	return e
}

var mutators = []mutator{
	{"append", "list", anyShape, meth("append", mut)},
	{"clear", "list dict set", nonEmpty, meth("clear")},
	{"extend", "list", anyShape, meth("extend", starlark.NewList([]starlark.Value{mut}))},
	{"insert", "list", anyShape, meth("insert", starlark.MakeInt(0), mut)},
	{"pop", "list set", nonEmpty, meth("pop")},
	{"remove-first", "list set", nonEmpty, func(th *starlark.Thread, v starlark.Value) error { return meth("remove", firstElem(v))(th, v) }},
	{"x[0]=", "list", nonEmpty, probe("p_setitem0")},
	{"+=", "list", anyShape, probe("p_iadd")},
	{"List.Append", "list", anyShape, func(_ *starlark.Thread, v starlark.Value) error { return v.(*starlark.List).Append(mut) }},
	{"List.SetIndex", "list", nonEmpty, func(_ *starlark.Thread, v starlark.Value) error { return v.(*starlark.List).SetIndex(0, mut) }},
	{"List.Clear", "list", nonEmpty, func(_ *starlark.Thread, v starlark.Value) error { return v.(*starlark.List).Clear() }},

	{"dict.pop-first", "dict", nonEmpty, func(th *starlark.Thread, v starlark.Value) error { return meth("pop", firstElem(v))(th, v) }},
	{"popitem", "dict", nonEmpty, meth("popitem")},
	{"setdefault", "dict", anyShape, meth("setdefault", starlark.String("MUT-KEY"), mut)},
	{"update", "dict", anyShape, meth("update", starlark.NewList([]starlark.Value{starlark.Tuple{starlark.String("MUT-KEY"), mut}}))},
	{"d[k]=", "dict", anyShape, probe("p_setkey")},
	{"d[old]=", "dict", nonEmpty, func(_ *starlark.Thread, v starlark.Value) error { return v.(*starlark.Dict).SetKey(firstElem(v), mut) }},
	{"|=", "dict", anyShape, probe("p_ior")},
	{"Dict.SetKey", "dict", anyShape, func(_ *starlark.Thread, v starlark.Value) error {
		return v.(*starlark.Dict).SetKey(starlark.String("MUT-KEY"), mut)
	}},
	{"Dict.Delete", "dict", nonEmpty, func(_ *starlark.Thread, v starlark.Value) error {
		_, _, err := v.(*starlark.Dict).Delete(firstElem(v))
		return err
	}},
	{"Dict.Clear", "dict", nonEmpty, func(_ *starlark.Thread, v starlark.Value) error { return v.(*starlark.Dict).Clear() }},

	{"add", "set", anyShape, meth("add", mut)},
	{"discard-first", "set", nonEmpty, func(th *starlark.Thread, v starlark.Value) error { return meth("discard", firstElem(v))(th, v) }},
	{"set.update", "set", anyShape, meth("update", starlark.NewList([]starlark.Value{mut}))},
	{"Set.Insert", "set", anyShape, func(_ *starlark.Thread, v starlark.Value) error { return v.(*starlark.Set).Insert(mut) }},
	{"Set.Delete", "set", nonEmpty, func(_ *starlark.Thread, v starlark.Value) error {
		_, err := v.(*starlark.Set).Delete(firstElem(v))
		return err
	}},
	{"Set.Clear", "set", nonEmpty, func(_ *starlark.Thread, v starlark.Value) error { return v.(*starlark.Set).Clear() }},

	{"x.a=", "rec", anyShape, probe("p_setfield")},
	{"x.new=", "rec", anyShape, probe("p_newfield")},
	{"Rec.SetField", "rec", anyShape, func(_ *starlark.Thread, v starlark.Value) error { return v.(*host.Rec).SetField("a", mut) }},
}

func kindOf(v starlark.Value) string {
	switch v.(type) {
	case *starlark.List:
		return "list"
	case *starlark.Dict:
		return "dict"
	case *starlark.Set:
		return "set"
	case *host.Rec:
		return "rec"
	}
	return ""
}

// ---------------------------------------------------------------- oracle

// assertFrozen applies every mutator to every mutable node reachable from g and requires an error and an unchanged snapshot.
func assertFrozen(nodes []node, snap func() string, src string, th2 *starlark.Thread) (attempts int, err error) {
	before := snap()
	c := Case{Src: src}
	for _, n := range nodes {
		k := kindOf(n.v)
		for i := range mutators {
			m := &mutators[i]
			if !strings.Contains(" "+m.kinds+" ", " "+k+" ") {
				continue
			}
			applicable := m.would(n.v)
			e := m.do(th2, n.v)
			attempts++
			if after := snap(); after != before {
				return attempts, fmt.Errorf("%s applied to %s (reached via %s) changed a value reachable from the finished module (err=%v):\nbefore: %s\nafter:  %s\n%s",
					m.name, n.path, n.via, e, clip(before), clip(after), c.Src)
			}
			if applicable && e == nil {
				return attempts, fmt.Errorf("%s applied to %s (reached via %s) returned no error on a frozen value\n%s", m.name, n.path, n.via, c.Src)
			}
		}
		// operations that derive a fresh value from the frozen one and then mutate the fresh value
		for name, fn := range probes {
			if !strings.HasPrefix(name, "d_"+k+"_") {
				continue
			}
			_, e := starlark.Call(th2, fn, starlark.Tuple{n.v}, nil)
			attempts++
			if after := snap(); after != before {
				return attempts, fmt.Errorf("%s: mutating a value derived from %s (reached via %s) changed the frozen original (err=%v):\nbefore: %s\nafter:  %s\n%s",
					name, n.path, n.via, e, clip(before), clip(after), c.Src)
			}
		}
		// every method the type advertises, with 0 and 1 arguments: nothing may change
		if h, ok := n.v.(starlark.HasAttrs); ok && k != "rec" {
			for _, name := range h.AttrNames() {
				mv, _ := h.Attr(name)
				if mv == nil {
					continue
				}
				for _, args := range []starlark.Tuple{{}, {mut}, {starlark.MakeInt(0)}, {starlark.NewList([]starlark.Value{mut})}} {
					starlark.Call(th2, mv, args, nil)
					attempts++
					if after := snap(); after != before {
						return attempts, fmt.Errorf("method %s%v on %s (via %s) changed a frozen value:\nbefore: %s\nafter:  %s\n%s", name, args, n.path, n.via, clip(before), clip(after), c.Src)
					}
				}
			}
		}
	}
	return attempts, nil
}

func checkModule(c Case) error {
	tr := &host.Trace{}
	pre, thread := host.Env(tr, "c04")
	hostList := starlark.NewList([]starlark.Value{starlark.MakeInt(1), starlark.NewList(nil)})
	pre["HOSTLIST"] = hostList
	var kept []starlark.Value
	pre["keep"] = starlark.NewBuiltin("keep", func(th *starlark.Thread, b *starlark.Builtin, args starlark.Tuple, kwargs []starlark.Tuple) (starlark.Value, error) {
		kept = append(kept, args...)
		return starlark.None, nil
	})
	// A host built-in that freezes its argument straight away, while the module is still running (a host
	// registering a callback, say). What the module binds to globals afterwards must still end up frozen.
	pre["publish"] = starlark.NewBuiltin("publish", func(th *starlark.Thread, b *starlark.Builtin, args starlark.Tuple, kwargs []starlark.Tuple) (starlark.Value, error) {
		for _, a := range args {
			a.Freeze()
		}
		return starlark.None, nil
	})
	preKeys := pre.Keys()
	preVals := map[string]starlark.Value{}
	for k, v := range pre {
		preVals[k] = v
	}
	uniKeys := starlark.Universe.Keys()
	uniVals := map[string]starlark.Value{}
	for k, v := range starlark.Universe {
		uniVals[k] = v
	}

	// A value the host hands out through load: it is bound to a file-local name, not to a global, nothing of the module
	// captures it, so it is not reachable from the globals - it must be mutable while the module runs and afterwards.
	hostReg := starlark.NewList([]starlark.Value{starlark.MakeInt(0)})
	thread.Load = func(_ *starlark.Thread, module string) (starlark.StringDict, error) {
		if module != "host.star" {
			return nil, fmt.Errorf("no module %s", module)
		}
		return starlark.StringDict{"HOSTREG": hostReg}, nil
	}
	src := c.Src
	if v := len(c.Src) % 5; v != 4 {
		// One closure over a variable is frozen early by the host; the variable is then rebound to a fresh value
		// and a sibling closure over the same variable becomes a global.
		fresh := []string{"[2, []]", "{\"k\": [3]}", "([5], {6: []})", "[zz_a, [7]]"}[v]
		early := "publish(zz_a)"
		if len(c.Src)%2 == 0 {
			early = "publish([zz_a])" // reached through a container
		}
		src = "def zz_outer():\n    v = [1]\n    def zz_a(): return v\n    " + early + "\n    v = " + fresh +
			"\n    def zz_b(): return v\n    return zz_b\nzz_sib = zz_outer()\n" + src
		vk.S.Class("early-host-freeze-then-rebind")
	}
	loadsHost := len(c.Src)%3 != 0
	if loadsHost {
		src = "load(\"host.star\", \"HOSTREG\")\nHOSTREG.append(len(HOSTREG))\n" + src
	}
	c.Src = src // (diagnostics below show the module as executed)
	g, err := starlark.ExecFileOptions(&syntax.FileOptions{Set: c.Set}, thread, "mod.star", src, pre)
	if loadsHost {
		if hostReg.Len() != 2 {
			return fmt.Errorf("a list obtained through load could not be appended to while the module ran (len %d, err=%v)\n%s", hostReg.Len(), err, src)
		}
		if e := hostReg.Append(starlark.MakeInt(99)); e != nil {
			return fmt.Errorf("a list obtained through load (not bound to a global, captured by nothing) rejects mutation after the module ended: %v\n%s", e, src)
		}
		vk.S.Class("loaded-host-value-stays-mutable")
	}
	if err != nil {
		if _, ok := err.(*starlark.EvalError); !ok {
			return fmt.Errorf("generated module is statically invalid: %v\n%s", err, c.Src)
		}
	}
	if (err != nil) != c.Fail {
		// an unplanned dynamic failure (e.g. unhashable key) is fine: the property covers both outcomes
		vk.S.Class("unplanned-outcome")
	}

	// predeclared and universe untouched
	if strings.Join(pre.Keys(), ",") != strings.Join(preKeys, ",") {
		return fmt.Errorf("predeclared environment changed: %v -> %v", preKeys, pre.Keys())
	}
	for k, v := range preVals {
		if pre[k] != v {
			return fmt.Errorf("predeclared %s was rebound", k)
		}
	}
	if strings.Join(starlark.Universe.Keys(), ",") != strings.Join(uniKeys, ",") {
		return fmt.Errorf("universe changed")
	}
	for k, v := range uniVals {
		if starlark.Universe[k] != v {
			return fmt.Errorf("universe %s was rebound", k)
		}
	}

	nodes, seen := walk(g)
	snap := func() string { return host.Canon(g) }
	before := snap()
	th2 := &starlark.Thread{Name: "c04-mutate"}
	attempts, ferr := assertFrozen(nodes, snap, c.Src, th2)
	if ferr != nil {
		return ferr
	}
	// the module's own mutator functions
	for name, v := range g {
		if strings.HasPrefix(name, "m_") {
			_, e := starlark.Call(th2, v, nil, nil)
			attempts++
			if after := snap(); after != before {
				return fmt.Errorf("module function %s changed a frozen value (err=%v):\nbefore: %s\nafter:  %s\n%s", name, e, clip(before), clip(after), c.Src)
			}
			if e == nil {
				return fmt.Errorf("module function %s mutated a global without error\n%s", name, c.Src)
			}
		}
	}
	// functions of the module called later still work as readers
	// values kept out of the globals stay mutable
	for i, kv := range kept {
		if seen[any(kv)] {
			continue
		}
		switch x := kv.(type) {
		case *starlark.List:
			if e := x.Append(mut); e != nil {
				return fmt.Errorf("kept value #%d is not reachable from the globals but rejects mutation: %v\n%s", i, e, c.Src)
			}
			vk.S.Class("unreachable-stays-mutable")
		case *starlark.Dict:
			if e := x.SetKey(mut, mut); e != nil {
				return fmt.Errorf("kept dict #%d is not reachable from the globals but rejects mutation: %v\n%s", i, e, c.Src)
			}
			vk.S.Class("unreachable-stays-mutable")
		}
	}
	// host list: reachable only if stored
	if !seen[any(hostList)] {
		if e := hostList.Append(mut); e != nil {
			return fmt.Errorf("host value not stored in globals was frozen: %v", e)
		}
	}

	// Phase 2: a second module calls the first module's (frozen) functions, which may build fresh closures and
	// values, and keeps the results in its own globals; when it has finished those must be deeply frozen too.
	srcB := secondModule(g)
	preB, threadB := host.Env(&host.Trace{}, "c04-second")
	for k, v := range g {
		preB[k] = v
	}
	preB["attempt"] = starlark.NewBuiltin("attempt", func(th *starlark.Thread, b *starlark.Builtin, args starlark.Tuple, kwargs []starlark.Tuple) (starlark.Value, error) {
		if len(args) == 0 {
			return starlark.None, nil
		}
		v, err := starlark.Call(th, args[0], args[1:], kwargs)
		if err != nil {
			return starlark.None, nil
		}
		return v, nil
	})
	threadB.SetMaxExecutionSteps(200000)
	gB, errB := starlark.ExecFileOptions(&syntax.FileOptions{Set: c.Set}, threadB, "second.star", srcB, preB)
	if errB != nil {
		if _, ok := errB.(*starlark.EvalError); !ok {
			return fmt.Errorf("harness: second module is statically invalid: %v\n%s", errB, srcB)
		}
	}
	// pure operations of the second module on frozen values of the first must not have changed them
	if after := snap(); after != before {
		return fmt.Errorf("executing the second module changed values reachable from the first, finished module:\nbefore: %s\nafter:  %s\n%s\n# ---- second module ----\n%s", clip(before), clip(after), c.Src, srcB)
	}
	nodesB, _ := walk(gB)
	snapB := func() string { return host.Canon(gB) + "\n--first--\n" + host.Canon(g) }
	nB, ferr := assertFrozen(nodesB, snapB, c.Src+"\n# ---- second module ----\n"+srcB, th2)
	if ferr != nil {
		return fmt.Errorf("second module: %v", ferr)
	}
	attempts += nB
	vk.S.ClassN("second-module-nodes", len(nodesB))
	// calling the second module's functions afterwards (they may try to mutate what they captured) changes nothing
	beforeB := snapB()
	for _, name := range gB.Keys() {
		if fn, ok := gB[name].(*starlark.Function); ok {
			for _, args := range []starlark.Tuple{{}, {starlark.MakeInt(1)}} {
				starlark.Call(th2, fn, args, nil)
				attempts++
				if after := snapB(); after != beforeB {
					return fmt.Errorf("second module: calling %s%v after the module finished changed frozen state:\nbefore: %s\nafter:  %s\n%s\n# ---- second module ----\n%s",
						name, args, clip(beforeB), clip(after), c.Src, srcB)
				}
			}
		}
	}
	_ = before

	nt := false
	for _, n := range nodes {
		vk.S.Class("via:" + n.via)
		if strings.Contains(n.path, ".key") {
			vk.S.Class("via-path:dict-key")
			nt = true
		}
		switch n.via {
		case "default", "closure", "bound-receiver", "dict-key", "field", "tuple-element":
			nt = true
		}
	}
	if err != nil {
		vk.S.Class("outcome:module-failed")
	} else {
		vk.S.Class("outcome:module-ok")
	}
	vk.S.ClassN("mutation-attempts", attempts)
	if nt {
		vk.S.NonTrivial(c.Src)
		vk.S.Sample("module", fmt.Sprintf("fail=%v", err != nil), map[string]any{"src": c.Src, "nodes": len(nodes), "attempts": attempts})
	}
	return nil
}

// secondModule renders a module that uses the functions and values of a finished module (its globals are predeclared).
func secondModule(g starlark.StringDict) string {
	var sb strings.Builder
	var names []string
	for n := range g {
		names = append(names, n)
	}
	sort.Strings(names)
	i := 0
	for _, n := range names {
		if _, ok := g[n].(*starlark.Function); ok {
			i++
			// Results that are closures are kept but deliberately not called here: a value they capture must be
			// frozen because it is reachable through the closure, not because it was also stored by itself.
			fmt.Fprintf(&sb, "b%d_0 = attempt(%s)\n", i, n)
			fmt.Fprintf(&sb, "b%d_1 = attempt(%s, [7, [8]])\n", i, n)
			if i%2 == 0 {
				fmt.Fprintf(&sb, "b%d_2 = attempt(b%d_1)\n", i, i)
				fmt.Fprintf(&sb, "b%d_k = attempt(%s, k = {\"fresh\": [1]})\n", i, n)
			}
		}
	}
	// values born in this module from an operand that is already frozen and a fresh mutable part: the result is a
	// new value of this module, whatever it copied from its frozen operand
	count := map[string]int{}
	j := 0
	for _, n := range names {
		var forms []string
		switch g[n].(type) {
		case *starlarkstruct.Struct:
			forms = []string{"%s + struct(fresh_items = [1, [2]])", "struct(fresh_items = [1, [2]]) + %s"}
		case *starlark.List:
			forms = []string{"%s + [[1]]", "[[1]] + %s", "%s * 2", "sorted(%s, key = lambda e: 0) + [[1]]", "list(zip(%s, [[1], [2]]))"}
		case starlark.Tuple:
			forms = []string{"%s + ([1],)", "([1],) + %s", "%s * 2", "%[2]s[:1] + (\"born\", [2]) + %[2]s[:1]", "[%[2]s[:1] + (\"b1\",), %[2]s[:1] + (\"b2\",), %[2]s[:0] + (\"b3\",)]"}
		case *starlark.Dict:
			forms = []string{"%s | {\"fresh\": [1]}", "{\"fresh\": [1]} | %s", "dict(%s, fresh = [1])", "[(k, [v]) for k, v in %s.items()]"}
		case *starlark.Set:
			forms = []string{"%s | set([\"fresh\"])", "%s.union([\"fresh\"])", "set([\"fresh\"]) | %s", "%s - set([5])"}
		}
		if len(forms) == 0 {
			continue
		}
		kind := fmt.Sprintf("%T", g[n])
		if count[kind] >= 2 {
			continue
		}
		count[kind]++
		// two of the forms per value, rotating (the snapshot-per-mutation oracle is quadratic in the number of nodes)
		nforms := 2
		if _, isTuple := g[n].(starlark.Tuple); isTuple {
			nforms = len(forms) // tuples are small: every form
		}
		for k := 0; k < nforms; k++ {
			j++
			fmt.Fprintf(&sb, "b_born%d = attempt(lambda: "+forms[(j+len(n))%len(forms)]+")\n", j, n)
		}
	}
	sb.WriteString("b_mix = [" + strings.Join(names, ", ") + "]\n")
	sb.WriteString("b_fresh = [[1], {\"k\": [2]}]\n")
	sb.WriteString("def b_fn(d = [b_fresh]):\n    return d\n")
	return sb.String()
}

func clip(s string) string {
	if len(s) > 700 {
		return s[:700] + "..."
	}
	return s
}

var subModule = vk.Register("module", checkModule)

func TestPropModules(t *testing.T) {
	vk.Rapid(t, subModule, vk.N(1000, 2500), genModule)
}

func TestReplay(t *testing.T) { vk.Replay(t) }
