// C04: values reachable from a finished module are deeply immutable.
package c04

import (
	"fmt"
	"sort"
	"strings"
	"testing"

	"go.starlark.net/starlark"
	"go.starlark.net/starlarkstruct"
	"go.starlark.net/syntax"
	"pgregory.net/rapid"
	"verif/harness/host"
	"verif/harness/vk"
)

func TestMain(m *testing.M) {
	vk.Describe("generated modules build object graphs into their globals (shared, nested and cyclic lists/dicts/sets/tuples, structs, host records, dict keys that are tuples/structs, "+
		"functions with mutable defaults, closures over mutable values incl. top-level comprehension variables captured by lambdas, bound methods stored in globals and in containers, "+
		"a mutable value passed in by the host), keep some values out of the globals (keep(x)), may fail at a random statement, and define mutator functions of their own. "+
		"After ExecFileOptions returns (either way) the harness walks everything reachable from the globals (elements, dict keys and values, struct/record fields, Function.ParamDefault, Function.FreeVar, Builtin.Receiver) and, "+
		"for every reachable node of a mutable type x every applicable mutator (all mutating methods, index/field assignment, +=, |=, Go API Append/SetIndex/Clear/SetKey/Delete/Insert, plus every method listed by AttrNames, plus the module's own mutator functions), "+
		"asserts an error and an unchanged canonical snapshot of the whole graph. Values not reachable from the globals must still accept mutation; predeclared and Universe must be unchanged. "+
		"Non-trivial = some mutable node is first reached through a function default, closure variable, bound-method receiver, dict key, struct/record field or tuple element; distinct by source.",
		"a mutator counts as 'applicable' only if it would change an unfrozen value of that shape (e.g. pop on a non-empty list)",
		"host-defined value types other than the harness record are not explored")
	vk.Main(m, "C04")
}

type Case struct {
	Src  string `json:"src"`
	Set  bool   `json:"set"`
	Fail bool   `json:"fail"` // the module contains an injected failure
}

// ---------------------------------------------------------------- generator

type gvar struct {
	name string
	kind string // list dict set tuple struct rec
}

func genModule(t *rapid.T) Case {
	c := Case{Set: vk.Chance(t, 0.6)}
	var sb strings.Builder
	var vars []gvar
	n := 0
	fresh := func(p string) string { n++; return fmt.Sprintf("%s%d", p, n) }
	line := func(format string, args ...any) { fmt.Fprintf(&sb, format+"\n", args...) }
	of := func(kinds ...string) []gvar {
		var out []gvar
		for _, v := range vars {
			for _, k := range kinds {
				if v.kind == k {
					out = append(out, v)
				}
			}
		}
		return out
	}
	atom := func() string {
		return []string{"1", "2", "\"s\"", "\"a-long-string-atom\"", "None", "True", "(3, 4)"}[vk.Uniform(t, 7)]
	}
	val := func() string {
		if len(vars) > 0 && vk.Chance(t, 0.55) {
			return vars[vk.Uniform(t, len(vars))].name
		}
		switch vk.Uniform(t, 6) {
		case 0:
			return "[" + atom() + "]"
		case 1:
			return "{\"n\": " + atom() + "}"
		case 2:
			return "HOSTLIST"
		}
		return atom()
	}
	hashable := func() string {
		// a function is hashable and may hold mutable state (defaults, closure variables)
		if fs := of("func"); len(fs) > 0 && vk.Chance(t, 0.3) {
			f := fs[vk.Uniform(t, len(fs))].name
			return []string{f, "(" + f + ", 1)", "(lambda x = [1, [2]]: x)"}[vk.Uniform(t, 3)]
		}
		return []string{"\"k\"", "\"a-rather-long-key\"", "7", "(1, (2, 3))", "struct(a = 1, b = (2,))", "(\"x\", struct(z = 0))"}[vk.Uniform(t, 6)]
	}
	nst := 4 + vk.Uniform(t, 14)
	failAt := -1
	if vk.Chance(t, 0.3) {
		failAt = vk.Uniform(t, nst)
		c.Fail = true
	}
	nm := 0
	for i := 0; i < nst; i++ {
		if i == failAt {
			line("boom_%d = 1 // 0", i)
		}
		switch vk.Uniform(t, 17) {
		case 0, 1:
			v := fresh("v")
			line("%s = [%s, %s]", v, val(), val())
			vars = append(vars, gvar{v, "list"})
		case 2:
			v := fresh("v")
			line("%s = {%s: %s, \"z\": %s}", v, hashable(), val(), val())
			vars = append(vars, gvar{v, "dict"})
		case 3:
			v := fresh("v")
			line("%s = (%s, [%s])", v, val(), val())
			vars = append(vars, gvar{v, "tuple"})
		case 4:
			if c.Set {
				v := fresh("v")
				line("%s = set([%s, 5, \"e\"])", v, hashable())
				vars = append(vars, gvar{v, "set"})
			}
		case 5:
			v := fresh("v")
			line("%s = struct(f = %s, g = {\"x\": [%s]})", v, val(), val())
			vars = append(vars, gvar{v, "struct"})
		case 6:
			v := fresh("v")
			line("%s = rec(a = %s, l = [%s])", v, val(), val())
			vars = append(vars, gvar{v, "rec"})
		case 7: // sharing and cycles
			if ls := of("list"); len(ls) > 0 {
				line("%s.append(%s)", ls[vk.Uniform(t, len(ls))].name, val())
			}
		case 8:
			if ds := of("dict"); len(ds) > 0 {
				line("%s[%s] = %s", ds[vk.Uniform(t, len(ds))].name, hashable(), val())
			}
		case 9:
			f := fresh("f")
			line("def %s(p = %s, q = [%s], *, k = {\"d\": %s}):", f, val(), val(), val())
			line("    return p")
			vars = append(vars, gvar{f, "func"})
		case 10:
			mk, cvar := fresh("mk"), fresh("c")
			line("def %s(arg):", mk)
			line("    h = [%s, arg]", val())
			line("    hd = {\"h\": h}")
			line("    hs = h")
			line("    def inner(x = None):")
			line("        return (h, hd, hs)")
			line("    hs = [h]")
			line("    return inner")
			line("%s = %s(%s)", cvar, mk, val())
			vars = append(vars, gvar{cvar, "func"})
		case 11:
			v := fresh("lam")
			line("%s = [lambda: w for w in [%s, [%s]]]", v, val(), val())
			vars = append(vars, gvar{v, "list"})
		case 12:
			if ls := of("list", "dict", "set"); len(ls) > 0 {
				x := ls[vk.Uniform(t, len(ls))]
				meth := map[string][]string{"list": {"append", "extend", "pop"}, "dict": {"update", "setdefault", "clear"}, "set": {"add", "discard"}}[x.kind]
				b := fresh("bm")
				if vk.Chance(t, 0.5) {
					line("%s = %s.%s", b, x.name, meth[vk.Uniform(t, len(meth))])
				} else {
					line("%s = [%s.%s, (%s.%s,)]", b, x.name, meth[0], x.name, meth[len(meth)-1])
				}
				vars = append(vars, gvar{b, "other"})
			}
		case 13: // kept out of the globals
			switch vk.Uniform(t, 3) {
			case 0:
				line("keep([%s, [0]])", atom())
			case 1:
				f := fresh("tmp")
				line("def %s():", f)
				line("    loc = {\"kept\": [1]}")
				line("    keep(loc)")
				line("    keep(loc[\"kept\"])")
				line("    return 0")
				line("%s_r = %s()", f, f)
			case 2:
				v := fresh("v")
				line("%s = [[7], [8]]", v)
				line("keep(%s.pop())", v)
				vars = append(vars, gvar{v, "list"})
			}
		case 14: // the module's own mutators, called by the host afterwards
			if ls := of("list", "dict", "rec"); len(ls) > 0 {
				x := ls[vk.Uniform(t, len(ls))]
				nm++
				switch x.kind {
				case "list":
					body := []string{"%s.append(1)", "%s += [1]", "%s.extend([2])", "%s.insert(0, 3)"}[vk.Uniform(t, 4)]
					line("def m_%d():", nm)
					line("    "+body, x.name)
				case "dict":
					body := []string{"%s[\"new-key\"] = 1", "%s.update([(\"nk\", 1)])", "%s |= {\"nk2\": 2}", "%s.setdefault(\"nk3\", 3)"}[vk.Uniform(t, 4)]
					line("def m_%d():", nm)
					line("    "+body, x.name)
				case "rec":
					line("def m_%d():", nm)
					line("    %s.a = 99", x.name)
				}
			}
		case 15:
			if rs := of("rec"); len(rs) > 0 {
				line("%s.extra = %s", rs[vk.Uniform(t, len(rs))].name, val())
			}
		case 16:
			v := fresh("v")
			line("%s = {(1, 2): [%s], struct(q = (1,)): {\"in\": %s}}", v, val(), val())
			vars = append(vars, gvar{v, "dict"})
		}
	}
	c.Src = sb.String()
	return c
}

// ---------------------------------------------------------------- traversal

type node struct {
	v    starlark.Value
	via  string // edge kind by which the node was first reached
	path string
}

func walk(g starlark.StringDict) (nodes []node, seen map[any]bool) {
	seen = map[any]bool{}
	var names []string
	for n := range g {
		names = append(names, n)
	}
	sort.Strings(names)
	var visit func(v starlark.Value, via, path string, depth int)
	visit = func(v starlark.Value, via, path string, depth int) {
		if v == nil || depth > 60 {
			return
		}
		key := any(v)
		switch x := v.(type) {
		case starlark.Tuple:
			for i, e := range x {
				visit(e, "tuple-element", fmt.Sprintf("%s[%d]", path, i), depth+1)
			}
			return
		case *starlark.List, *starlark.Dict, *starlark.Set, *host.Rec, *starlark.Function, *starlarkstruct.Struct:
			_ = x
		case *starlark.Builtin:
			if r := x.Receiver(); r != nil {
				visit(r, "bound-receiver", path+".recv", depth+1)
			}
			return
		default:
			return
		}
		if seen[key] {
			return
		}
		seen[key] = true
		switch x := v.(type) {
		case *starlark.List:
			nodes = append(nodes, node{v, via, path})
			for i := 0; i < x.Len(); i++ {
				visit(x.Index(i), "list-element", fmt.Sprintf("%s[%d]", path, i), depth+1)
			}
		case *starlark.Dict:
			nodes = append(nodes, node{v, via, path})
			for _, it := range x.Items() {
				visit(it[0], "dict-key", path+".key", depth+1)
				visit(it[1], "dict-value", fmt.Sprintf("%s[%s]", path, it[0]), depth+1)
			}
		case *starlark.Set:
			nodes = append(nodes, node{v, via, path})
			it := x.Iterate()
			var e starlark.Value
			for it.Next(&e) {
				visit(e, "set-element", path+".elem", depth+1)
			}
			it.Done()
		case *host.Rec:
			nodes = append(nodes, node{v, via, path})
			for _, n := range x.Fields() {
				f, _ := x.Attr(n)
				visit(f, "field", path+"."+n, depth+1)
			}
		case *starlarkstruct.Struct:
			for _, n := range x.AttrNames() {
				f, _ := x.Attr(n)
				visit(f, "field", path+"."+n, depth+1)
			}
		case *starlark.Function:
			for i := 0; i < x.NumParams(); i++ {
				visit(x.ParamDefault(i), "default", fmt.Sprintf("%s.default%d", path, i), depth+1)
			}
			for i := 0; i < x.NumFreeVars(); i++ {
				b, fv := x.FreeVar(i)
				visit(fv, "closure", path+".free:"+b.Name, depth+1)
			}
		}
	}
	for _, n := range names {
		visit(g[n], "global", n, 0)
	}
	return
}

// ---------------------------------------------------------------- mutators

type mutator struct {
	name  string
	kinds string // types it applies to
	would func(v starlark.Value) bool // would it change an unfrozen value of this shape?
	do    func(th *starlark.Thread, v starlark.Value) error
}

var probeSrc = `
def p_setitem0(x): x[0] = "MUT"
def p_setkey(x): x["MUT-KEY"] = 1
def p_iadd(x): x += ["MUT"]
def p_ior(x): x |= {"MUT-KEY": 1}
def p_augindex(x): x[0] += ["MUT"]
def p_setfield(x): x.a = "MUT"
def p_newfield(x): x.brand_new = "MUT"
def p_augfield(x): x.l += ["MUT"]
`

var probes starlark.StringDict

func init() {
	g, err := starlark.ExecFileOptions(&syntax.FileOptions{Set: true}, &starlark.Thread{}, "probes.star", probeSrc, nil)
	if err != nil {
		panic(err)
	}
	probes = g
}

func length(v starlark.Value) int { return starlark.Len(v) }
func nonEmpty(v starlark.Value) bool { return length(v) > 0 }
func anyShape(starlark.Value) bool  { return true }

func meth(name string, args ...starlark.Value) func(*starlark.Thread, starlark.Value) error {
	return func(th *starlark.Thread, v starlark.Value) error {
		m, err := v.(starlark.HasAttrs).Attr(name)
		if err != nil || m == nil {
			return fmt.Errorf("no such method")
		}
		_, err = starlark.Call(th, m, starlark.Tuple(args), nil)
		return err
	}
}

func probe(name string) func(*starlark.Thread, starlark.Value) error {
	return func(th *starlark.Thread, v starlark.Value) error {
		_, err := starlark.Call(th, probes[name], starlark.Tuple{v}, nil)
		return err
	}
}

var mut = starlark.String("MUT")

func firstElem(v starlark.Value) starlark.Value {
	it := starlark.Iterate(v)
	defer it.Done()
	var e starlark.Value
	it.Next(&e)
	return e
}

var mutators = []mutator{
	{"append", "list", anyShape, meth("append", mut)},
	{"clear", "list dict set", nonEmpty, meth("clear")},
	{"extend", "list", anyShape, meth("extend", starlark.NewList([]starlark.Value{mut}))},
	{"insert", "list", anyShape, meth("insert", starlark.MakeInt(0), mut)},
	{"pop", "list set", nonEmpty, meth("pop")},
	{"remove-first", "list set", nonEmpty, func(th *starlark.Thread, v starlark.Value) error { return meth("remove", firstElem(v))(th, v) }},
	{"x[0]=", "list", nonEmpty, probe("p_setitem0")},
	{"+=", "list", anyShape, probe("p_iadd")},
	{"List.Append", "list", anyShape, func(_ *starlark.Thread, v starlark.Value) error { return v.(*starlark.List).Append(mut) }},
	{"List.SetIndex", "list", nonEmpty, func(_ *starlark.Thread, v starlark.Value) error { return v.(*starlark.List).SetIndex(0, mut) }},
	{"List.Clear", "list", nonEmpty, func(_ *starlark.Thread, v starlark.Value) error { return v.(*starlark.List).Clear() }},

	{"dict.pop-first", "dict", nonEmpty, func(th *starlark.Thread, v starlark.Value) error { return meth("pop", firstElem(v))(th, v) }},
	{"popitem", "dict", nonEmpty, meth("popitem")},
	{"setdefault", "dict", anyShape, meth("setdefault", starlark.String("MUT-KEY"), mut)},
	{"update", "dict", anyShape, meth("update", starlark.NewList([]starlark.Value{starlark.Tuple{starlark.String("MUT-KEY"), mut}}))},
	{"d[k]=", "dict", anyShape, probe("p_setkey")},
	{"d[old]=", "dict", nonEmpty, func(_ *starlark.Thread, v starlark.Value) error { return v.(*starlark.Dict).SetKey(firstElem(v), mut) }},
	{"|=", "dict", anyShape, probe("p_ior")},
	{"Dict.SetKey", "dict", anyShape, func(_ *starlark.Thread, v starlark.Value) error { return v.(*starlark.Dict).SetKey(starlark.String("MUT-KEY"), mut) }},
	{"Dict.Delete", "dict", nonEmpty, func(_ *starlark.Thread, v starlark.Value) error { _, _, err := v.(*starlark.Dict).Delete(firstElem(v)); return err }},
	{"Dict.Clear", "dict", nonEmpty, func(_ *starlark.Thread, v starlark.Value) error { return v.(*starlark.Dict).Clear() }},

	{"add", "set", anyShape, meth("add", mut)},
	{"discard-first", "set", nonEmpty, func(th *starlark.Thread, v starlark.Value) error { return meth("discard", firstElem(v))(th, v) }},
	{"set.update", "set", anyShape, meth("update", starlark.NewList([]starlark.Value{mut}))},
	{"Set.Insert", "set", anyShape, func(_ *starlark.Thread, v starlark.Value) error { return v.(*starlark.Set).Insert(mut) }},
	{"Set.Delete", "set", nonEmpty, func(_ *starlark.Thread, v starlark.Value) error { _, err := v.(*starlark.Set).Delete(firstElem(v)); return err }},
	{"Set.Clear", "set", nonEmpty, func(_ *starlark.Thread, v starlark.Value) error { return v.(*starlark.Set).Clear() }},

	{"x.a=", "rec", anyShape, probe("p_setfield")},
	{"x.new=", "rec", anyShape, probe("p_newfield")},
	{"Rec.SetField", "rec", anyShape, func(_ *starlark.Thread, v starlark.Value) error { return v.(*host.Rec).SetField("a", mut) }},
}

func kindOf(v starlark.Value) string {
	switch v.(type) {
	case *starlark.List:
		return "list"
	case *starlark.Dict:
		return "dict"
	case *starlark.Set:
		return "set"
	case *host.Rec:
		return "rec"
	}
	return ""
}

// ---------------------------------------------------------------- oracle

func checkModule(c Case) error {
	tr := &host.Trace{}
	pre, thread := host.Env(tr, "c04")
	hostList := starlark.NewList([]starlark.Value{starlark.MakeInt(1), starlark.NewList(nil)})
	pre["HOSTLIST"] = hostList
	var kept []starlark.Value
	pre["keep"] = starlark.NewBuiltin("keep", func(th *starlark.Thread, b *starlark.Builtin, args starlark.Tuple, kwargs []starlark.Tuple) (starlark.Value, error) {
		kept = append(kept, args...)
		return starlark.None, nil
	})
	preKeys := pre.Keys()
	preVals := map[string]starlark.Value{}
	for k, v := range pre {
		preVals[k] = v
	}
	uniKeys := starlark.Universe.Keys()
	uniVals := map[string]starlark.Value{}
	for k, v := range starlark.Universe {
		uniVals[k] = v
	}

	g, err := starlark.ExecFileOptions(&syntax.FileOptions{Set: c.Set}, thread, "mod.star", c.Src, pre)
	if err != nil {
		if _, ok := err.(*starlark.EvalError); !ok {
			return fmt.Errorf("generated module is statically invalid: %v\n%s", err, c.Src)
		}
	}
	if (err != nil) != c.Fail {
		// an unplanned dynamic failure (e.g. unhashable key) is fine: the property covers both outcomes
		vk.S.Class("unplanned-outcome")
	}

	// predeclared and universe untouched
	if strings.Join(pre.Keys(), ",") != strings.Join(preKeys, ",") {
		return fmt.Errorf("predeclared environment changed: %v -> %v", preKeys, pre.Keys())
	}
	for k, v := range preVals {
		if pre[k] != v {
			return fmt.Errorf("predeclared %s was rebound", k)
		}
	}
	if strings.Join(starlark.Universe.Keys(), ",") != strings.Join(uniKeys, ",") {
		return fmt.Errorf("universe changed")
	}
	for k, v := range uniVals {
		if starlark.Universe[k] != v {
			return fmt.Errorf("universe %s was rebound", k)
		}
	}

	nodes, seen := walk(g)
	snap := func() string { return host.Canon(g) }
	before := snap()
	th2 := &starlark.Thread{Name: "c04-mutate"}
	attempts := 0
	for _, n := range nodes {
		k := kindOf(n.v)
		for i := range mutators {
			m := &mutators[i]
			if !strings.Contains(" "+m.kinds+" ", " "+k+" ") {
				continue
			}
			applicable := m.would(n.v)
			e := m.do(th2, n.v)
			attempts++
			if after := snap(); after != before {
				return fmt.Errorf("%s applied to %s (reached via %s) changed a value reachable from the finished module (err=%v):\nbefore: %s\nafter:  %s\n%s",
					m.name, n.path, n.via, e, clip(before), clip(after), c.Src)
			}
			if applicable && e == nil {
				return fmt.Errorf("%s applied to %s (reached via %s) returned no error on a frozen value\n%s", m.name, n.path, n.via, c.Src)
			}
		}
		// every method the type advertises, with 0 and 1 arguments: nothing may change
		if h, ok := n.v.(starlark.HasAttrs); ok && k != "rec" {
			for _, name := range h.AttrNames() {
				mv, _ := h.Attr(name)
				if mv == nil {
					continue
				}
				for _, args := range []starlark.Tuple{{}, {mut}, {starlark.MakeInt(0)}, {starlark.NewList([]starlark.Value{mut})}} {
					starlark.Call(th2, mv, args, nil)
					attempts++
					if after := snap(); after != before {
						return fmt.Errorf("method %s%v on %s (via %s) changed a frozen value:\nbefore: %s\nafter:  %s\n%s", name, args, n.path, n.via, clip(before), clip(after), c.Src)
					}
				}
			}
		}
	}
	// the module's own mutator functions
	for name, v := range g {
		if strings.HasPrefix(name, "m_") {
			_, e := starlark.Call(th2, v, nil, nil)
			attempts++
			if after := snap(); after != before {
				return fmt.Errorf("module function %s changed a frozen value (err=%v):\nbefore: %s\nafter:  %s\n%s", name, e, clip(before), clip(after), c.Src)
			}
			if e == nil {
				return fmt.Errorf("module function %s mutated a global without error\n%s", name, c.Src)
			}
		}
	}
	// functions of the module called later still work as readers
	// values kept out of the globals stay mutable
	for i, kv := range kept {
		if seen[any(kv)] {
			continue
		}
		switch x := kv.(type) {
		case *starlark.List:
			if e := x.Append(mut); e != nil {
				return fmt.Errorf("kept value #%d is not reachable from the globals but rejects mutation: %v\n%s", i, e, c.Src)
			}
			vk.S.Class("unreachable-stays-mutable")
		case *starlark.Dict:
			if e := x.SetKey(mut, mut); e != nil {
				return fmt.Errorf("kept dict #%d is not reachable from the globals but rejects mutation: %v\n%s", i, e, c.Src)
			}
			vk.S.Class("unreachable-stays-mutable")
		}
	}
	// host list: reachable only if stored
	if !seen[any(hostList)] {
		if e := hostList.Append(mut); e != nil {
			return fmt.Errorf("host value not stored in globals was frozen: %v", e)
		}
	}

	nt := false
	for _, n := range nodes {
		vk.S.Class("via:" + n.via)
		if strings.Contains(n.path, ".key") {
			vk.S.Class("via-path:dict-key")
			nt = true
		}
		switch n.via {
		case "default", "closure", "bound-receiver", "dict-key", "field", "tuple-element":
			nt = true
		}
	}
	if err != nil {
		vk.S.Class("outcome:module-failed")
	} else {
		vk.S.Class("outcome:module-ok")
	}
	vk.S.ClassN("mutation-attempts", attempts)
	if nt {
		vk.S.NonTrivial(c.Src)
		vk.S.Sample("module", fmt.Sprintf("fail=%v", err != nil), map[string]any{"src": c.Src, "nodes": len(nodes), "attempts": attempts})
	}
	return nil
}

func clip(s string) string {
	if len(s) > 700 {
		return s[:700] + "..."
	}
	return s
}

var subModule = vk.Register("module", checkModule)

func TestPropModules(t *testing.T) {
	vk.Rapid(t, subModule, vk.N(1500, 12000), genModule)
}

func TestReplay(t *testing.T) { vk.Replay(t) }
