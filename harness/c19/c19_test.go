// C19: time and duration arithmetic is consistent.
//
// Three oracles:
//
//	binop     one binary operator applied, through the VM, to an ordered pair of operands of kinds
//	          {time, duration, int, float, string, None}; the expected outcome comes from a table of the
//	          operations documented in lib/time/time.go, evaluated with math/big on nanosecond counts.
//	laws      inverse laws, zone independence of ==, ordering, hashing, dict/set keys, sorted().
//	roundtrip attributes and constructors: unix/nanosecond/unix_nano vs integer arithmetic, civil
//	          components vs an independent days-to-civil algorithm, from_timestamp, time(...),
//	          parse_duration(str(d)).
//
// Values are created through the module's own API (from_timestamp, in_location, parse_duration, time).
package c19

import (
	"fmt"
	"math"
	"math/big"
	"strconv"
	"testing"
	gotime "time"
	_ "time/tzdata" // the host's zoneinfo must not matter

	stime "go.starlark.net/lib/time"
	"go.starlark.net/starlark"
	"go.starlark.net/syntax"
	"pgregory.net/rapid"
	"verif/harness/vk"
)

func TestMain(m *testing.M) {
	vk.Describe("binop: every ordered pair of operand kinds {time,duration,int,float,string,None} with at least one time/duration operand "+
		"x every operator {+ - * / // % < <= > >= == != & | ^ << >> in, not in}, evaluated by a Starlark function through the VM and compared with a table of the "+
		"operations documented in lib/time/time.go computed with math/big on int64 nanosecond counts (undocumented ordered pairs must fail; "+
		"the mirrored order of a commutative documented pair may fail or give the same exact value). laws/roundtrip: inverse laws, zone "+
		"independence of comparison/hash/dict keys, attribute and constructor round trips. "+
		"Non-trivial = the two operands have different kinds, or the operator is not documented for this ordered pair; distinct by canonical case string.",
		"results whose exact value does not fit int64 nanoseconds (or a NaN operand for duration/float) are excluded and counted, not asserted either way",
		"duration / int and duration / float: any result within 1 ns (plus float rounding) of the exact quotient is accepted (rounding mode is not documented)",
		"duration / duration: relative error <= 2^-50 accepted (two int->float conversions and one division)",
		"duration // duration must be the floor of the exact quotient, as for every other // of the language (doc/spec.md)",
		"string % x is string formatting (not a time operation) and is left out; pairs without a time/duration operand belong to C10/C11",
		"time(...) rebuilt from components: when the wall clock reading is ambiguous (DST overlap) only the wall clock reading is required to match",
		"which zone a result time is displayed in is not asserted, only the instant")
	vk.Main(m, "C19")
}

// ---------------------------------------------------------------- helper module

const helperSrc = `
def add(a, b): return a + b
def sub(a, b): return a - b
def mul(a, b): return a * b
def div(a, b): return a / b
def fdiv(a, b): return a // b
def mod(a, b): return a % b
def lt(a, b): return a < b
def le(a, b): return a <= b
def gt(a, b): return a > b
def ge(a, b): return a >= b
def eq(a, b): return a == b
def ne(a, b): return a != b
def band(a, b): return a & b
def bor(a, b): return a | b
def bxor(a, b): return a ^ b
def shl(a, b): return a << b
def shr(a, b): return a >> b
def isin(a, b): return a in b
def notin(a, b): return a not in b
def law1(t, d): return (t + d) - d
def law1b(t, d): return (t - d) + d
def law2(t1, t2): return (t2 - t1) + t1
def law3(t, d): return d + t
def dictget(a, b): return {a: "v"}[b]
def dictlen(a, b):
    d = {}
    d[a] = 1
    d[b] = 2
    return len(d)
def dictin(a, b): return b in {a: 1}
def setlen(a, b): return len(set([a, b]))
def sort(l): return sorted(l)
def rebuild(mk, u, loc):
    return mk(year=u.year, month=u.month, day=u.day, hour=u.hour, minute=u.minute, second=u.second, nanosecond=u.nanosecond, location=loc)
def tostr(x): return str(x)
`

var helpers starlark.StringDict

var opFn = map[string]string{"+": "add", "-": "sub", "*": "mul", "/": "div", "//": "fdiv", "%": "mod",
	"<": "lt", "<=": "le", ">": "gt", ">=": "ge", "==": "eq", "!=": "ne",
	"&": "band", "|": "bor", "^": "bxor", "<<": "shl", ">>": "shr", "in": "isin", "not in": "notin"}

var allOps = []string{"+", "-", "*", "/", "//", "%", "<", "<=", ">", ">=", "==", "!=", "&", "|", "^", "<<", ">>", "in", "not in"}

func init() {
	th := &starlark.Thread{Name: "helpers"}
	g, err := starlark.ExecFileOptions(&syntax.FileOptions{Set: true}, th, "helpers.star", helperSrc, nil)
	if err != nil {
		panic(err)
	}
	helpers = g
}

func call(fn starlark.Value, args ...starlark.Value) (starlark.Value, error) {
	th := &starlark.Thread{Name: "c19"}
	return starlark.Call(th, fn, starlark.Tuple(args), nil)
}

func member(name string) starlark.Value { return stime.Module.Members[name] }

// ---------------------------------------------------------------- values

// Val describes one operand.
type Val struct {
	K    string `json:"k"`              // time | duration | int | float | string | none
	N    int64  `json:"n,omitempty"`    // time: Unix nanoseconds; duration: nanoseconds
	Zone string `json:"zone,omitempty"` // time: location it is rendered in ("" = as returned by from_timestamp)
	I    string `json:"i,omitempty"`    // int: decimal
	F    uint64 `json:"f,omitempty"`    // float: IEEE bits
	S    string `json:"s,omitempty"`    // string
}

func (v Val) String() string {
	switch v.K {
	case "time":
		return fmt.Sprintf("time(%d@%s)", v.N, v.Zone)
	case "duration":
		return fmt.Sprintf("duration(%d)", v.N)
	case "int":
		return "int(" + v.I + ")"
	case "float":
		return "float(" + strconv.FormatFloat(math.Float64frombits(v.F), 'g', -1, 64) + ")"
	case "string":
		return fmt.Sprintf("string(%q)", v.S)
	}
	return v.K
}

func floorDivMod(n, m int64) (int64, int64) {
	q, r := n/m, n%m
	if r < 0 {
		q--
		r += m
	}
	return q, r
}

// mkTime builds the instant n (Unix ns) via from_timestamp(sec, nsec) and renders it in zone.
func mkTime(n int64, zone string) (starlark.Value, error) {
	sec, nsec := floorDivMod(n, 1e9)
	t, err := call(member("from_timestamp"), starlark.MakeInt64(sec), starlark.MakeInt64(nsec))
	if err != nil {
		return nil, fmt.Errorf("from_timestamp(%d, %d): %v", sec, nsec, err)
	}
	if zone == "" {
		return t, nil
	}
	in, err := t.(starlark.HasAttrs).Attr("in_location")
	if err != nil || in == nil {
		return nil, fmt.Errorf("time has no in_location: %v", err)
	}
	t2, err := call(in, starlark.String(zone))
	if err != nil {
		return nil, fmt.Errorf("in_location(%q): %v", zone, err)
	}
	return t2, nil
}

// mkDur builds a duration of n nanoseconds via parse_duration("<n>ns").
func mkDur(n int64) (starlark.Value, error) {
	d, err := call(member("parse_duration"), starlark.String(strconv.FormatInt(n, 10)+"ns"))
	if err != nil {
		return nil, fmt.Errorf("parse_duration(%dns): %v", n, err)
	}
	return d, nil
}

func (v Val) build() (starlark.Value, error) {
	switch v.K {
	case "time":
		return mkTime(v.N, v.Zone)
	case "duration":
		return mkDur(v.N)
	case "int":
		b, ok := new(big.Int).SetString(v.I, 10)
		if !ok {
			return nil, fmt.Errorf("bad int %q", v.I)
		}
		return starlark.MakeBigInt(b), nil
	case "float":
		return starlark.Float(math.Float64frombits(v.F)), nil
	case "string":
		return starlark.String(v.S), nil
	case "none":
		return starlark.None, nil
	}
	return nil, fmt.Errorf("bad kind %q", v.K)
}

// instant / nanos observe a result through the Go types, not through the module's attributes.
func instant(v starlark.Value) (*big.Int, bool) {
	t, ok := v.(stime.Time)
	if !ok {
		return nil, false
	}
	g := gotime.Time(t)
	n := new(big.Int).Mul(big.NewInt(g.Unix()), big.NewInt(1e9))
	return n.Add(n, big.NewInt(int64(g.Nanosecond()))), true
}

func nanos(v starlark.Value) (int64, bool) {
	d, ok := v.(stime.Duration)
	return int64(d), ok
}

// ---------------------------------------------------------------- binop oracle

type BinCase struct {
	Op string `json:"op"`
	X  Val    `json:"x"`
	Y  Val    `json:"y"`
}

var (
	minI64 = big.NewInt(math.MinInt64)
	maxI64 = big.NewInt(math.MaxInt64)
)

func fits(n *big.Int) bool { return n.Cmp(minI64) >= 0 && n.Cmp(maxI64) <= 0 }

// expectation of one operation
type expect struct {
	mode string // "reject" | "value" | "either" (reject or value) | "excluded"
	why  string // for excluded
	kind string // result kind for value: time | duration | int | float | bool
	n    *big.Int
	q    *big.Rat // exact quotient for approximate results
	b    bool
	// within1: the result is the quotient rounded to a whole nanosecond (integer arithmetic): |n - q| < 1 exactly
	within1 bool
	// nearest: the float result must be the float64 nearest to q (correctly rounded)
	nearest bool
}

func bigOf(v Val) *big.Int {
	if v.K == "int" {
		b, _ := new(big.Int).SetString(v.I, 10)
		return b
	}
	return big.NewInt(v.N)
}

func isTD(k string) bool { return k == "time" || k == "duration" }

func exactN(kind string, n *big.Int) expect {
	if !fits(n) {
		return expect{mode: "excluded", why: "overflow"}
	}
	return expect{mode: "value", kind: kind, n: n}
}

// table returns what the documentation of lib/time promises for x op y (operands in this order).
func table(op string, x, y Val) expect {
	reject := expect{mode: "reject"}
	kx, ky := x.K, y.K
	switch op {
	case "==", "!=":
		eq := false
		if kx == ky {
			eq = x.N == y.N // same instant / same length, whatever the zone
		}
		return expect{mode: "value", kind: "bool", b: eq == (op == "==")}
	case "<", "<=", ">", ">=":
		if kx != ky {
			return reject
		}
		var b bool
		switch op {
		case "<":
			b = x.N < y.N
		case "<=":
			b = x.N <= y.N
		case ">":
			b = x.N > y.N
		case ">=":
			b = x.N >= y.N
		}
		return expect{mode: "value", kind: "bool", b: b}
	case "+":
		switch {
		case kx == "duration" && ky == "duration":
			return exactN("duration", new(big.Int).Add(bigOf(x), bigOf(y)))
		case kx == "duration" && ky == "time", kx == "time" && ky == "duration":
			return exactN("time", new(big.Int).Add(bigOf(x), bigOf(y)))
		}
	case "-":
		switch {
		case kx == "duration" && ky == "duration":
			return exactN("duration", new(big.Int).Sub(bigOf(x), bigOf(y)))
		case kx == "time" && ky == "duration":
			return exactN("time", new(big.Int).Sub(bigOf(x), bigOf(y)))
		case kx == "time" && ky == "time":
			return exactN("duration", new(big.Int).Sub(bigOf(x), bigOf(y)))
		}
	case "*":
		if (kx == "duration" && ky == "int") || (kx == "int" && ky == "duration") {
			e := exactN("duration", new(big.Int).Mul(bigOf(x), bigOf(y)))
			if e.mode == "excluded" {
				return e
			}
			i := y
			if kx == "int" {
				i = x
			}
			if kx == "int" || !fits(bigOf(i)) {
				// mirrored order of a commutative operation, or an int the implementation
				// documents as out of range although the product (0) is representable
				e.mode = "either"
			}
			return e
		}
	case "/":
		if kx != "duration" {
			return reject
		}
		switch ky {
		case "duration":
			if y.N == 0 {
				return reject
			}
			// both nanosecond counts below 2^53 are exact floats, so their float quotient is the correctly rounded ratio
			e := expect{mode: "value", kind: "float", q: new(big.Rat).SetFrac(bigOf(x), bigOf(y))}
			lim := new(big.Int).Lsh(big.NewInt(1), 53)
			e.nearest = bigOf(x).CmpAbs(lim) < 0 && bigOf(y).CmpAbs(lim) < 0
			return e
		case "int":
			i := bigOf(y)
			if i.Sign() == 0 {
				return reject
			}
			q := new(big.Rat).SetFrac(bigOf(x), i)
			if !ratFits(q) {
				return expect{mode: "excluded", why: "overflow"}
			}
			// integer arithmetic: the quotient rounded to a whole nanosecond in either direction, no relative slack
			e := expect{mode: "value", kind: "duration", q: q, within1: true}
			if !fits(i) {
				e.mode = "either"
			}
			return e
		case "float":
			f := math.Float64frombits(y.F)
			if f == 0 {
				return reject
			}
			if f != f {
				return expect{mode: "excluded", why: "nan-operand"}
			}
			if math.IsInf(f, 0) {
				return expect{mode: "value", kind: "duration", q: new(big.Rat)}
			}
			q := new(big.Rat).Quo(new(big.Rat).SetInt(bigOf(x)), new(big.Rat).SetFloat64(f))
			if !ratFits(q) {
				return expect{mode: "excluded", why: "overflow"}
			}
			return expect{mode: "value", kind: "duration", q: q}
		}
	case "//":
		if kx == "duration" && ky == "duration" {
			if y.N == 0 {
				return reject
			}
			q := new(big.Int).Div(bigOf(x), bigOf(y)) // Euclidean
			// floor: Euclidean division differs from floor only when the divisor is negative and the remainder non-zero
			m := new(big.Int).Mod(bigOf(x), bigOf(y))
			if y.N < 0 && m.Sign() != 0 {
				q.Sub(q, big.NewInt(1))
			}
			return exactN("int", q)
		}
	}
	return reject
}

// ratFits reports whether q, rounded in any direction to an integer, fits int64 with a safety margin for float rounding.
func ratFits(q *big.Rat) bool {
	lim := new(big.Rat).SetInt(new(big.Int).Lsh(big.NewInt(1), 63))
	lim.Mul(lim, big.NewRat(1023, 1024)) // float64(ns) and the division round: stay clear of the edge
	return new(big.Rat).Abs(q).Cmp(lim) < 0
}

func describe(v starlark.Value) string {
	if v == nil {
		return "<nil>"
	}
	if n, ok := instant(v); ok {
		return fmt.Sprintf("time(unix_nano=%s)", n)
	}
	if n, ok := nanos(v); ok {
		return fmt.Sprintf("duration(%dns)", n)
	}
	return fmt.Sprintf("%s(%s)", v.Type(), v.String())
}

// matches reports whether the obtained value is the expected one.
func (e expect) matches(got starlark.Value) error {
	switch e.kind {
	case "bool":
		if b, ok := got.(starlark.Bool); !ok || bool(b) != e.b {
			return fmt.Errorf("got %s, want %v", describe(got), e.b)
		}
	case "time":
		n, ok := instant(got)
		if !ok || n.Cmp(e.n) != 0 {
			return fmt.Errorf("got %s, want time(unix_nano=%s)", describe(got), e.n)
		}
	case "duration":
		n, ok := nanos(got)
		if !ok {
			return fmt.Errorf("got %s, want a duration", describe(got))
		}
		if e.n != nil {
			if big.NewInt(n).Cmp(e.n) != 0 {
				return fmt.Errorf("got %s, want duration(%sns)", describe(got), e.n)
			}
			break
		}
		// approximate: |n - q| <= 1 + |q| * 2^-50
		diff := new(big.Rat).Sub(new(big.Rat).SetInt64(n), e.q)
		diff.Abs(diff)
		tol := new(big.Rat).Abs(e.q)
		tol.Mul(tol, new(big.Rat).SetFrac(big.NewInt(1), new(big.Int).Lsh(big.NewInt(1), 50)))
		tol.Add(tol, big.NewRat(1, 1))
		if e.within1 {
			tol = big.NewRat(1, 1)
		}
		if diff.Cmp(tol) >= 0 {
			return fmt.Errorf("got %s, want the quotient %s ns to within 1 ns", describe(got), e.q.FloatString(3))
		}
	case "int":
		i, ok := got.(starlark.Int)
		if !ok || i.BigInt().Cmp(e.n) != 0 {
			return fmt.Errorf("got %s, want int %s", describe(got), e.n)
		}
	case "float":
		f, ok := got.(starlark.Float)
		if !ok {
			return fmt.Errorf("got %s, want a float", describe(got))
		}
		if math.IsNaN(float64(f)) || math.IsInf(float64(f), 0) {
			return fmt.Errorf("got %v, want about %s", f, e.q.FloatString(6))
		}
		if e.nearest {
			if want, _ := e.q.Float64(); float64(f) != want {
				return fmt.Errorf("got %v, want %v (the correctly rounded quotient of two exactly representable nanosecond counts)", f, want)
			}
			break
		}
		diff := new(big.Rat).Sub(new(big.Rat).SetFloat64(float64(f)), e.q)
		diff.Abs(diff)
		tol := new(big.Rat).Abs(e.q)
		tol.Mul(tol, new(big.Rat).SetFrac(big.NewInt(1), new(big.Int).Lsh(big.NewInt(1), 50)))
		if diff.Cmp(tol) > 0 {
			return fmt.Errorf("got %v, want %s (relative error above 2^-50)", f, e.q.FloatString(12))
		}
	default:
		return fmt.Errorf("internal: bad expectation kind %q", e.kind)
	}
	return nil
}

// documentedSomewhere: is op documented for this unordered pair of kinds in either order?
func documented(op string, kx, ky string) bool {
	d := func(a, b string) bool {
		switch op {
		case "+":
			return (a == "duration" && b == "duration") || (a == "duration" && b == "time") || (a == "time" && b == "duration")
		case "-":
			return (a == "duration" && b == "duration") || (a == "time" && b == "duration") || (a == "time" && b == "time")
		case "*":
			return a == "duration" && b == "int"
		case "/":
			return a == "duration" && (b == "duration" || b == "int" || b == "float")
		case "//":
			return a == "duration" && b == "duration"
		case "<", "<=", ">", ">=":
			return a == b
		case "==", "!=":
			return true
		}
		return false
	}
	return d(kx, ky)
}

func checkBin(c BinCase) error {
	fn, ok := helpers[opFn[c.Op]]
	if !ok {
		return fmt.Errorf("malformed case: operator %q", c.Op)
	}
	if !isTD(c.X.K) && !isTD(c.Y.K) {
		return fmt.Errorf("malformed case: no time or duration operand")
	}
	if c.X.K == "string" && c.Op == "%" {
		vk.S.Discard() // string formatting, not a time operation
		return nil
	}
	x, err := c.X.build()
	if err != nil {
		return fmt.Errorf("building x: %v", err)
	}
	y, err := c.Y.build()
	if err != nil {
		return fmt.Errorf("building y: %v", err)
	}
	exp := table(c.Op, c.X, c.Y)
	got, gerr := call(fn, x, y)
	if gerr == nil && got == nil {
		return fmt.Errorf("%s %s %s: neither value nor error", c.X, c.Op, c.Y)
	}

	pair := c.X.K + "," + c.Y.K
	vk.S.Class("pair:" + pair)
	outcome := "rejected"
	if gerr == nil {
		outcome = "value"
	}
	vk.S.Class("op:" + c.Op + ":" + exp.mode + "/" + outcome)
	if c.X.K != c.Y.K || !documented(c.Op, c.X.K, c.Y.K) {
		vk.S.NonTrivial(fmt.Sprintf("%s %s %s", c.X, c.Op, c.Y))
		if !documented(c.Op, c.X.K, c.Y.K) && documented(c.Op, c.Y.K, c.X.K) {
			vk.S.Class("nt:undocumented-order-of-documented-op")
			vk.S.Sample("binop", "undocumented-order", c)
		}
	}

	bad := func(format string, args ...any) error {
		return fmt.Errorf("%s %s %s: %s", c.X, c.Op, c.Y, fmt.Sprintf(format, args...))
	}
	switch exp.mode {
	case "excluded":
		vk.S.Class("excluded:" + exp.why)
		return nil
	case "reject":
		if gerr != nil {
			return nil
		}
		e := bad("succeeded with %s, but this operation is not defined for operands in this order and must be rejected", describe(got))
		// narrow predicates of catalogued defects: the reversed operation was computed
		switch {
		case c.Op == "-" && c.X.K == "duration" && c.Y.K == "time":
			// time - duration was computed
			// (for d = -2^63 ns with the additional effect of C19-time-minus-min-duration: t + d)
			if n, ok := instant(got); ok && (n.Cmp(new(big.Int).Sub(big.NewInt(c.Y.N), big.NewInt(c.X.N))) == 0 ||
				c.X.N == math.MinInt64 && n.Cmp(new(big.Int).Add(big.NewInt(c.Y.N), big.NewInt(c.X.N))) == 0) {
				return vk.Known("C19-duration-minus-time", e)
			}
		case c.Op == "/" && c.X.K == "float" && c.Y.K == "duration":
			// duration / float was computed (its value is not checked again here: the quotient may not be representable)
			if _, ok := nanos(got); ok {
				return vk.Known("C19-float-div-duration", e)
			}
		}
		if rev := table(c.Op, c.Y, c.X); rev.mode == "value" && rev.matches(got) == nil {
			return fmt.Errorf("%v (the result is that of the reversed operation)", e)
		}
		return e
	case "value":
		if gerr != nil {
			return bad("failed (%v), but the operation is documented and its exact result is representable", gerr)
		}
	case "either":
		if gerr != nil {
			vk.S.Class("either:rejected")
			return nil
		}
		vk.S.Class("either:value")
	}
	if err := exp.matches(got); err != nil {
		e := bad("%v", err)
		if c.Op == "-" && c.X.K == "time" && c.Y.K == "duration" && c.Y.N == math.MinInt64 {
			// the negation of the smallest duration overflows: t - d is computed as t + d
			if n, ok := instant(got); ok && n.Cmp(new(big.Int).Add(big.NewInt(c.X.N), big.NewInt(c.Y.N))) == 0 {
				return vk.Known("C19-time-minus-min-duration", e)
			}
		}
		if c.Op == "//" && c.X.K == "duration" && c.Y.K == "duration" && c.Y.N != 0 {
			// truncated instead of floored quotient
			if i, ok := got.(starlark.Int); ok {
				tr := new(big.Int).Quo(big.NewInt(c.X.N), big.NewInt(c.Y.N))
				if i.BigInt().Cmp(tr) == 0 && tr.Cmp(exp.n) != 0 {
					return vk.Known("C19-floordiv-truncates", e)
				}
			}
		}
		return e
	}
	return nil
}

var subBin = vk.Register("binop", checkBin)

// ---------------------------------------------------------------- value pools

var zones = []string{"", "UTC", "America/New_York", "Asia/Kathmandu", "Etc/GMT-14", "Etc/GMT+12", "Asia/Kolkata",
	"Europe/Berlin", "Australia/Lord_Howe", "Pacific/Apia", "Europe/Amsterdam", "America/St_Johns"}

// instants of interest (Unix ns)
var poolInstants = []int64{0, 1, -1, 1e9, -999999999, 123456789123456789,
	1636264800e9 - 1, // one ns before 2021-11-07T06:00Z: end of the repeated hour in New York
	1636261200e9,     // 2021-11-07T05:00Z: start of the repeated hour in New York
	1615705200e9,     // 2021-03-14T07:00Z: spring forward in New York
	math.MaxInt64, math.MinInt64, 9e18, -9e18}

var poolZones = []string{"UTC", "America/New_York", "Asia/Kathmandu"}

var poolDurations = []int64{0, 1, -1, 2, -3, 7, 1e9, -1e9, 1500000000, 3600e9, -86400e9, math.MaxInt64, math.MinInt64,
	math.MaxInt64 - 1, 1 << 62, -(1 << 62)}

var poolInts = []string{"0", "1", "-1", "2", "3", "-7", "1000000000", "9223372036854775807", "-9223372036854775808",
	"9223372036854775808", "1267650600228229401496703205376"}

var poolFloats = []float64{0, math.Copysign(0, -1), 1, -1, 2, 0.5, 1e9, 1e-9, 3.7, -2.5, math.Inf(1), math.Inf(-1), math.NaN(),
	9223372036854775808.0, 5e-324}

var poolStrings = []string{"", "1h"}

func pool(kind string) []Val {
	var out []Val
	switch kind {
	case "time":
		for _, n := range poolInstants {
			for _, z := range poolZones {
				out = append(out, Val{K: "time", N: n, Zone: z})
			}
		}
	case "duration":
		for _, n := range poolDurations {
			out = append(out, Val{K: "duration", N: n})
		}
	case "int":
		for _, s := range poolInts {
			out = append(out, Val{K: "int", I: s})
		}
	case "float":
		for _, f := range poolFloats {
			out = append(out, Val{K: "float", F: math.Float64bits(f)})
		}
	case "string":
		for _, s := range poolStrings {
			out = append(out, Val{K: "string", S: s})
		}
	case "none":
		out = append(out, Val{K: "none"})
	}
	return out
}

var kinds = []string{"time", "duration", "int", "float", "string", "none"}

// TestPropPairsExhaustive: all ordered kind pairs x all operators x the full product of the value pools.
func TestPropPairsExhaustive(t *testing.T) {
	vk.S.SetExhaustive("binop-pools", true)
	vk.Enum(t, subBin, func(yield func(BinCase) bool) {
		i := 0
		for _, kx := range kinds {
			for _, ky := range kinds {
				if !isTD(kx) && !isTD(ky) {
					continue
				}
				px, py := pool(kx), pool(ky)
				for _, op := range allOps {
					if kx == "string" && op == "%" {
						continue
					}
					for _, x := range px {
						for _, y := range py {
							i++
							if !vk.Mine(i) {
								continue
							}
							if !yield(BinCase{Op: op, X: x, Y: y}) {
								return
							}
						}
					}
				}
			}
		}
	})
}

// ---------------------------------------------------------------- random values

func genNanos() *rapid.Generator[int64] {
	return rapid.OneOf(
		rapid.Int64(),
		rapid.Int64Range(-1e10, 1e10),
		rapid.Int64Range(-1000, 1000),
		rapid.Custom(func(t *rapid.T) int64 { // whole seconds / hours
			return rapid.Int64Range(-9223372036, 9223372036).Draw(t, "sec") * 1e9
		}),
		rapid.Custom(func(t *rapid.T) int64 { // near a New York or Lord Howe transition of some year
			y := rapid.IntRange(1970, 2037).Draw(t, "year")
			m := rapid.SampledFrom([]gotime.Month{3, 4, 10, 11}).Draw(t, "month")
			d := rapid.IntRange(1, 14).Draw(t, "day")
			base := gotime.Date(y, m, d, 0, 0, 0, 0, gotime.UTC).UnixNano()
			return base + rapid.Int64Range(0, 86400e9).Draw(t, "off")
		}),
	)
}

func genTime() *rapid.Generator[Val] {
	return rapid.Custom(func(t *rapid.T) Val {
		return Val{K: "time", N: genNanos().Draw(t, "n"), Zone: rapid.SampledFrom(zones).Draw(t, "zone")}
	})
}

func genDur() *rapid.Generator[Val] {
	return rapid.Custom(func(t *rapid.T) Val { return Val{K: "duration", N: genNanos().Draw(t, "d")} })
}

func genVal(kind string) *rapid.Generator[Val] {
	switch kind {
	case "time":
		return genTime()
	case "duration":
		return genDur()
	case "int":
		return rapid.Custom(func(t *rapid.T) Val {
			if rapid.IntRange(0, 9).Draw(t, "big") == 0 {
				b := new(big.Int).Lsh(big.NewInt(rapid.Int64().Draw(t, "hi")), uint(rapid.IntRange(1, 70).Draw(t, "sh")))
				return Val{K: "int", I: b.String()}
			}
			return Val{K: "int", I: strconv.FormatInt(rapid.OneOf(rapid.Int64Range(-100, 100), rapid.Int64()).Draw(t, "i"), 10)}
		})
	case "float":
		return rapid.Custom(func(t *rapid.T) Val {
			f := rapid.OneOf(rapid.Float64(), rapid.Float64Range(-1000, 1000), rapid.SampledFrom(poolFloats)).Draw(t, "f")
			return Val{K: "float", F: math.Float64bits(f)}
		})
	case "string":
		return rapid.Custom(func(t *rapid.T) Val {
			return Val{K: "string", S: rapid.SampledFrom([]string{"", "1h", "abc", "2021-03-22T23:20:50Z", "5"}).Draw(t, "s")}
		})
	}
	return rapid.Just(Val{K: "none"})
}

// TestPropPairsRandom: random values for every ordered kind pair and operator.
func TestPropPairsRandom(t *testing.T) {
	vk.Rapid(t, subBin, vk.N(150000, 1500000), func(t *rapid.T) BinCase {
		kx := rapid.SampledFrom(kinds).Draw(t, "kx")
		ky := rapid.SampledFrom(kinds).Draw(t, "ky")
		if !isTD(kx) && !isTD(ky) {
			ky = rapid.SampledFrom([]string{"time", "duration"}).Draw(t, "ky2")
		}
		ops := allOps
		if kx == "string" {
			ops = nil
			for _, o := range allOps {
				if o != "%" {
					ops = append(ops, o)
				}
			}
		}
		// weight the arithmetic operators
		op := rapid.OneOf(rapid.SampledFrom(ops), rapid.SampledFrom([]string{"+", "-", "*", "/", "//"})).Draw(t, "op")
		return BinCase{Op: op, X: genVal(kx).Draw(t, "x"), Y: genVal(ky).Draw(t, "y")}
	})
}

// ---------------------------------------------------------------- laws

type LawCase struct {
	A  int64    `json:"a"` // instants (Unix ns)
	B  int64    `json:"b"`
	ZA string   `json:"za"`
	ZB string   `json:"zb"`
	ZC string   `json:"zc"`
	D  int64    `json:"d"`
	L  []int64  `json:"l,omitempty"` // more instants for sorted()
	LZ []string `json:"lz,omitempty"`
}

func addFits(a, b int64) (int64, bool) {
	s := new(big.Int).Add(big.NewInt(a), big.NewInt(b))
	return s.Int64(), fits(s)
}

func subFits(a, b int64) (int64, bool) {
	s := new(big.Int).Sub(big.NewInt(a), big.NewInt(b))
	return s.Int64(), fits(s)
}

func sameInstant(v starlark.Value, n int64) bool {
	g, ok := instant(v)
	return ok && g.Cmp(big.NewInt(n)) == 0
}

func isTrue(v starlark.Value, err error) bool { return err == nil && v == starlark.True }

// minDur recognises finding C19-time-minus-min-duration inside a law: with d = -2^63 ns the subtraction
// "- d" adds d instead, so the result is t + 2d.
func minDur(c LawCase, got starlark.Value, e error) error {
	if c.D == math.MinInt64 && got != nil {
		want := new(big.Int).Add(big.NewInt(c.A), new(big.Int).Lsh(big.NewInt(c.D), 1))
		if n, ok := instant(got); ok && n.Cmp(want) == 0 {
			return vk.Known("C19-time-minus-min-duration", e)
		}
	}
	return e
}

func checkLaws(c LawCase) error {
	ta, err := mkTime(c.A, c.ZA)
	if err != nil {
		return err
	}
	tb, err := mkTime(c.B, c.ZB)
	if err != nil {
		return err
	}
	d, err := mkDur(c.D)
	if err != nil {
		return err
	}
	bad := func(format string, args ...any) error {
		return fmt.Errorf("a=%d@%q b=%d@%q d=%d: %s", c.A, c.ZA, c.B, c.ZB, c.D, fmt.Sprintf(format, args...))
	}
	eqStar := func(x, y starlark.Value) bool { return isTrue(call(helpers["eq"], x, y)) }

	// (t + d) - d == t ; (t - d) + d == t ; d + t == t + d
	if _, ok := addFits(c.A, c.D); ok {
		r, err := call(helpers["law1"], ta, d)
		if err != nil || !sameInstant(r, c.A) || !eqStar(r, ta) {
			return minDur(c, r, bad("(t + d) - d = %s, %v; want t", describe(r), err))
		}
		s1, err1 := call(helpers["add"], ta, d)
		s2, err2 := call(helpers["law3"], ta, d)
		if err1 != nil || err2 != nil || !eqStar(s1, s2) {
			return bad("t + d = %s (%v) but d + t = %s (%v)", describe(s1), err1, describe(s2), err2)
		}
		vk.S.Class("law:(t+d)-d")
	} else {
		vk.S.Class("excluded:overflow")
	}
	if _, ok := subFits(c.A, c.D); ok {
		r, err := call(helpers["law1b"], ta, d)
		if err != nil || !sameInstant(r, c.A) || !eqStar(r, ta) {
			return minDur(c, r, bad("(t - d) + d = %s, %v; want t", describe(r), err))
		}
		vk.S.Class("law:(t-d)+d")
	} else {
		vk.S.Class("excluded:overflow")
	}
	// (t2 - t1) + t1 == t2
	if _, ok := subFits(c.B, c.A); ok {
		r, err := call(helpers["law2"], ta, tb)
		if err != nil || !sameInstant(r, c.B) || !eqStar(r, tb) {
			return bad("(b - a) + a = %s, %v; want b", describe(r), err)
		}
		vk.S.Class("law:(t2-t1)+t1")
	} else {
		vk.S.Class("excluded:overflow")
	}

	// the same instant in another zone: ==, not <, hash, dict and set keys
	ta2, err := mkTime(c.A, c.ZC)
	if err != nil {
		return err
	}
	for _, t := range []struct {
		fn   string
		want starlark.Value
	}{{"eq", starlark.True}, {"ne", starlark.False}, {"lt", starlark.False}, {"gt", starlark.False}, {"le", starlark.True}, {"ge", starlark.True},
		{"dictget", starlark.String("v")}, {"dictlen", starlark.MakeInt(1)}, {"dictin", starlark.True}, {"setlen", starlark.MakeInt(1)}} {
		for _, pr := range [][2]starlark.Value{{ta, ta2}, {ta2, ta}} {
			r, err := call(helpers[t.fn], pr[0], pr[1])
			if err != nil {
				return bad("%s(one instant in zones %q and %q) failed: %v", t.fn, c.ZA, c.ZC, err)
			}
			if ok, _ := starlark.Equal(r, t.want); !ok {
				return bad("%s(one instant in zones %q and %q) = %v, want %v", t.fn, c.ZA, c.ZC, r, t.want)
			}
		}
	}
	h1, e1 := ta.Hash()
	h2, e2 := ta2.Hash()
	if e1 != nil || e2 != nil || h1 != h2 {
		return bad("hash of one instant differs between zones %q and %q: %d (%v) vs %d (%v)", c.ZA, c.ZC, h1, e1, h2, e2)
	}
	if c.ZA != c.ZC {
		vk.S.Class("law:zone-independence")
		vk.S.NonTrivial(fmt.Sprintf("zone %d %s %s", c.A, c.ZA, c.ZC))
	}

	// trichotomy of a and b in different zones, consistent with hash
	want := map[string]bool{"lt": c.A < c.B, "le": c.A <= c.B, "gt": c.A > c.B, "ge": c.A >= c.B, "eq": c.A == c.B, "ne": c.A != c.B}
	for _, fn := range []string{"lt", "le", "gt", "ge", "eq", "ne"} {
		r, err := call(helpers[fn], ta, tb)
		if err != nil || r != starlark.Bool(want[fn]) {
			return bad("%s(a, b) = %v, %v; want %v", fn, r, err, want[fn])
		}
	}
	if c.A == c.B {
		hb, _ := tb.Hash()
		if hb != h1 {
			return bad("a == b but hashes differ")
		}
	}

	// sorted() of instants in mixed zones follows the instants
	if len(c.L) > 0 {
		var elems []starlark.Value
		for i, n := range c.L {
			tv, err := mkTime(n, c.LZ[i%len(c.LZ)])
			if err != nil {
				return err
			}
			elems = append(elems, tv)
		}
		r, err := call(helpers["sort"], starlark.NewList(elems))
		if err != nil {
			return bad("sorted(times) failed: %v", err)
		}
		l := r.(*starlark.List)
		if l.Len() != len(c.L) {
			return bad("sorted(times) has %d elements, want %d", l.Len(), len(c.L))
		}
		for i := 1; i < l.Len(); i++ {
			p, _ := instant(l.Index(i - 1))
			q, _ := instant(l.Index(i))
			if p == nil || q == nil || p.Cmp(q) > 0 {
				return bad("sorted(times) is not ordered by instant at %d: %s then %s", i, describe(l.Index(i-1)), describe(l.Index(i)))
			}
		}
		vk.S.Class("law:sorted")
	}
	return nil
}

var subLaws = vk.Register("laws", checkLaws)

func TestPropLaws(t *testing.T) {
	vk.Rapid(t, subLaws, vk.N(20000, 250000), func(t *rapid.T) LawCase {
		c := LawCase{A: genNanos().Draw(t, "a"), ZA: rapid.SampledFrom(zones).Draw(t, "za"),
			ZB: rapid.SampledFrom(zones).Draw(t, "zb"), ZC: rapid.SampledFrom(zones).Draw(t, "zc"), D: genNanos().Draw(t, "d")}
		switch rapid.IntRange(0, 3).Draw(t, "rel") {
		case 0:
			c.B = c.A
		case 1:
			c.B, _ = addFits(c.A, rapid.Int64Range(-3, 3).Draw(t, "delta"))
		default:
			c.B = genNanos().Draw(t, "b")
		}
		if rapid.Bool().Draw(t, "withlist") {
			n := rapid.IntRange(2, 6).Draw(t, "n")
			c.L = rapid.SliceOfN(rapid.OneOf(genNanos(), rapid.Just(c.A), rapid.Just(c.B)), n, n).Draw(t, "l")
			c.LZ = rapid.SliceOfN(rapid.SampledFrom(zones), n, n).Draw(t, "lz")
		}
		return c
	})
}

// ---------------------------------------------------------------- round trips

type RTCase struct {
	N    int64  `json:"n"`    // instant, Unix ns
	Zone string `json:"zone"` // zone it is rendered in
	L    string `json:"l"`    // location used for the component round trip
	D    int64  `json:"d"`    // duration
}

// civil computes the proleptic Gregorian date and clock reading of Unix second s (independent of package time).
func civil(s int64) (y, mo, d, h, mi, se int64) {
	days, rem := floorDivMod(s, 86400)
	h, mi, se = rem/3600, rem%3600/60, rem%60
	z := days + 719468
	era, doe := floorDivMod(z, 146097)
	yoe := (doe - doe/1460 + doe/36524 - doe/146096) / 365
	doy := doe - (365*yoe + yoe/4 - yoe/100)
	mp := (5*doy + 2) / 153
	d = doy - (153*mp+2)/5 + 1
	mo = mp + 3
	if mo > 12 {
		mo -= 12
	}
	y = yoe + era*400
	if mo <= 2 {
		y++
	}
	return
}

func attrInt(v starlark.Value, name string) (*big.Int, error) {
	a, err := v.(starlark.HasAttrs).Attr(name)
	if err != nil || a == nil {
		return nil, fmt.Errorf("attribute %s: %v", name, err)
	}
	i, ok := a.(starlark.Int)
	if !ok {
		return nil, fmt.Errorf("attribute %s is %s, want int", name, a.Type())
	}
	return i.BigInt(), nil
}

func attrFloat(v starlark.Value, name string) (float64, error) {
	a, err := v.(starlark.HasAttrs).Attr(name)
	if err != nil || a == nil {
		return 0, fmt.Errorf("attribute %s: %v", name, err)
	}
	f, ok := a.(starlark.Float)
	if !ok {
		return 0, fmt.Errorf("attribute %s is %s, want float", name, a.Type())
	}
	return float64(f), nil
}

type nw struct {
	name string
	want int64
}

func wall(t gotime.Time) [7]int {
	y, m, d := t.Date()
	return [7]int{y, int(m), d, t.Hour(), t.Minute(), t.Second(), t.Nanosecond()}
}

func checkRT(c RTCase) error {
	bad := func(format string, args ...any) error {
		return fmt.Errorf("n=%d zone=%q L=%q d=%d: %s", c.N, c.Zone, c.L, c.D, fmt.Sprintf(format, args...))
	}
	t, err := mkTime(c.N, c.Zone)
	if err != nil {
		return err
	}
	if !sameInstant(t, c.N) {
		return bad("from_timestamp(sec, nsec) gives %s", describe(t))
	}
	eqStar := func(x, y starlark.Value) bool { return isTrue(call(helpers["eq"], x, y)) }
	sec, nsec := floorDivMod(c.N, 1e9)

	// attributes against integer arithmetic
	for _, a := range []nw{{"unix", sec}, {"nanosecond", nsec}, {"unix_nano", c.N}} {
		name, want := a.name, a.want
		got, err := attrInt(t, name)
		if err != nil {
			return bad("%v", err)
		}
		if got.Cmp(big.NewInt(want)) != 0 {
			return bad("t.%s = %s, want %d", name, got, want)
		}
	}
	unix, _ := t.(starlark.HasAttrs).Attr("unix")
	ns, _ := t.(starlark.HasAttrs).Attr("nanosecond")
	un, _ := t.(starlark.HasAttrs).Attr("unix_nano")

	// from_timestamp(t.unix, t.nanosecond) == t
	r1, err := call(member("from_timestamp"), unix, ns)
	if err != nil || !sameInstant(r1, c.N) || !eqStar(r1, t) {
		return bad("from_timestamp(t.unix, t.nanosecond) = %s, %v", describe(r1), err)
	}
	// from_timestamp(0, t.unix_nano) == t
	r2, err := call(member("from_timestamp"), starlark.MakeInt(0), un)
	if err != nil || !sameInstant(r2, c.N) || !eqStar(r2, t) {
		return bad("from_timestamp(0, t.unix_nano) = %s, %v", describe(r2), err)
	}
	vk.S.Class("rt:from_timestamp")

	// components in location L: attributes against the independent civil algorithm, then rebuild
	loc, err := gotime.LoadLocation(c.L)
	if err != nil {
		return fmt.Errorf("harness: zone %q unavailable: %v", c.L, err)
	}
	in, _ := t.(starlark.HasAttrs).Attr("in_location")
	u, err := call(in, starlark.String(c.L))
	if err != nil {
		return bad("t.in_location(L) failed: %v", err)
	}
	if !sameInstant(u, c.N) || !eqStar(u, t) {
		return bad("t.in_location(L) = %s is another instant", describe(u))
	}
	_, off := gotime.Unix(sec, nsec).In(loc).Zone() // zone offset from the Go standard library's database
	y, mo, d, h, mi, se := civil(sec + int64(off))
	for _, a := range []nw{{"year", y}, {"month", mo}, {"day", d}, {"hour", h}, {"minute", mi}, {"second", se}, {"nanosecond", nsec}} {
		name, want := a.name, a.want
		got, err := attrInt(u, name)
		if err != nil {
			return bad("%v", err)
		}
		if got.Cmp(big.NewInt(want)) != 0 {
			return bad("t.in_location(L).%s = %s, want %d (offset %ds)", name, got, want, off)
		}
	}
	rb, err := call(helpers["rebuild"], member("time"), u, starlark.String(c.L))
	if err != nil {
		return bad("time(year=..., location=L) failed: %v", err)
	}
	rt, ok := rb.(stime.Time)
	if !ok {
		return bad("time(...) returned %s", rb.Type())
	}
	if w1, w2 := wall(gotime.Time(rt).In(loc)), wall(gotime.Unix(sec, nsec).In(loc)); w1 != w2 {
		return bad("time(...) rebuilt from components reads %v in L, want %v", w1, w2)
	}
	if sameInstant(rb, c.N) {
		if !eqStar(rb, t) {
			return bad("time(...) rebuilt from components is the same instant but != t")
		}
		vk.S.Class("rt:components")
	} else {
		// Same wall clock reading in L for two distinct instants: the reading is ambiguous (DST overlap),
		// the constructor may return either.  Cross-check with the zone offsets around t.
		ri, _ := instant(rb)
		delta := new(big.Int).Sub(ri, big.NewInt(c.N))
		if delta.CmpAbs(big.NewInt(86400e9)) > 0 {
			return bad("time(...) rebuilt from components is %s ns away from t", delta)
		}
		vk.S.Class("rt:components-ambiguous-wall-clock")
		vk.S.Sample("roundtrip", "ambiguous", c)
	}
	if c.L != "UTC" && c.L != "" {
		vk.S.NonTrivial(fmt.Sprintf("rt %d %s %s", c.N, c.Zone, c.L))
	}

	// durations: nanoseconds attribute, str/parse_duration round trip, float attributes
	dv, err := mkDur(c.D)
	if err != nil {
		return err
	}
	if n, ok := nanos(dv); !ok || n != c.D {
		return bad("parse_duration(%dns) = %s", c.D, describe(dv))
	}
	if got, err := attrInt(dv, "nanoseconds"); err != nil || got.Cmp(big.NewInt(c.D)) != 0 {
		return bad("d.nanoseconds = %v, %v; want %d", got, err, c.D)
	}
	for _, a := range []nw{{"microseconds", 1e3}, {"milliseconds", 1e6}} {
		name, unit := a.name, a.want
		got, err := attrInt(dv, name)
		if err != nil {
			return bad("%v", err)
		}
		fl, _ := floorDivMod(c.D, unit)
		if !got.IsInt64() || (got.Int64() != fl && got.Int64() != c.D/unit) {
			return bad("d.%s = %s, want %d (or %d)", name, got, c.D/unit, fl)
		}
	}
	for _, a := range []nw{{"seconds", 1e9}, {"minutes", 60e9}, {"hours", 3600e9}} {
		name, unit := a.name, float64(a.want)
		got, err := attrFloat(dv, name)
		if err != nil {
			return bad("%v", err)
		}
		want := float64(c.D) / unit
		if math.Abs(got-want) > math.Abs(want)*0x1p-50 {
			return bad("d.%s = %v, want about %v", name, got, want)
		}
	}
	s, err := call(helpers["tostr"], dv)
	if err != nil {
		return bad("str(d) failed: %v", err)
	}
	back, err := call(member("parse_duration"), s)
	if err != nil {
		return bad("parse_duration(str(d)) failed for %v: %v", s, err)
	}
	if n, ok := nanos(back); !ok || n != c.D || !eqStar(back, dv) {
		return bad("parse_duration(str(d)) = %s for str(d) = %v", describe(back), s)
	}
	vk.S.Class("rt:parse_duration(str(d))")
	if c.D%1e9 != 0 {
		vk.S.Class("rt:duration-sub-second")
	}
	return nil
}

var subRT = vk.Register("roundtrip", checkRT)

func TestPropRoundTrips(t *testing.T) {
	realZones := zones[1:]
	vk.Rapid(t, subRT, vk.N(30000, 400000), func(t *rapid.T) RTCase {
		return RTCase{N: genNanos().Draw(t, "n"), Zone: rapid.SampledFrom(zones).Draw(t, "zone"),
			L: rapid.SampledFrom(realZones).Draw(t, "l"), D: genNanos().Draw(t, "d")}
	})
}

// TestPropRoundTripsGrid: every pool instant/duration in every zone.
func TestPropRoundTripsGrid(t *testing.T) {
	vk.S.SetExhaustive("roundtrip-grid", true)
	vk.Enum(t, subRT, func(yield func(RTCase) bool) {
		i := 0
		for _, n := range poolInstants {
			for _, l := range zones[1:] {
				for _, d := range poolDurations {
					i++
					if !vk.Mine(i) {
						continue
					}
					if !yield(RTCase{N: n, Zone: zones[i%len(zones)], L: l, D: d}) {
						return
					}
				}
			}
		}
	})
}

// ---------------------------------------------------------------- module constants

type ConstCase struct {
	Name string `json:"name"`
	NS   int64  `json:"ns"`
}

var subConst = vk.Register("constants", func(c ConstCase) error {
	v, ok := stime.Module.Members[c.Name]
	if !ok {
		return fmt.Errorf("time.%s is missing", c.Name)
	}
	if n, ok := nanos(v); !ok || n != c.NS {
		return fmt.Errorf("time.%s = %s, want %d ns", c.Name, describe(v), c.NS)
	}
	vk.S.Class("constant")
	return nil
})

func TestPropConstants(t *testing.T) {
	vk.S.SetExhaustive("constants", true)
	vk.Enum(t, subConst, func(yield func(ConstCase) bool) {
		for _, c := range []ConstCase{{"nanosecond", 1}, {"microsecond", 1e3}, {"millisecond", 1e6}, {"second", 1e9}, {"minute", 60e9}, {"hour", 3600e9}} {
			if !yield(c) {
				return
			}
		}
	})
}

func TestReplay(t *testing.T) { vk.Replay(t) }
