// C16: errors report the true call stack and source positions.
//
// Programs are assembled from templates by a writer that tracks the (line, col)
// of every token it emits, so the expected CallStack is known by construction,
// independently of the scanner, parser and compiler.
package c16

import (
	"errors"
	"fmt"
	"strings"
	"testing"

	"go.starlark.net/starlark"
	"go.starlark.net/syntax"
	"pgregory.net/rapid"
	"verif/harness/vk"
)

func TestMain(m *testing.M) {
	vk.Describe("call chains of depth 1-8 whose links are def calls, lambdas, calls inside comprehensions, default-argument expressions, "+
		"built-in callbacks (sorted/min/max key), conditional expressions evaluated out of textual order, and functions loaded from another module, "+
		"ending in a failing operation (call of non-callable, bad arity, binary/unary operator, index, attribute, unpack, unassigned local/global, fail(), failing built-in, "+
		"non-iterable for, unhashable dict key); laid out with up to 10^5 blank/comment lines between and inside functions, columns up to 10^4, "+
		"definition order permuted (negative deltas) and padding instructions before the failing one. The writer records the coordinates of every call '(' and failing token; "+
		"EvalError.CallStack must equal the expected frames exactly (name, file, line, col; built-in frames by name) and Backtrace() must list them outermost first. "+
		"Non-trivial = chain depth >= 3 and at least one line gap > 16, column gap > 32 or > 8 padding instructions on the path; distinct by case.",
		"position conventions per operation are those of DESIGN.md appendix A; slice failures are excluded (no position of their own)",
		"for a failure while binding arguments the callee's extra innermost frame is matched by name only")
	vk.Main(m, "C16")
}

type Link struct {
	Lambda   bool   `json:"lambda,omitempty"`
	Call     string `json:"call"` // plain comp default sorted min max cond
	PreLines int    `json:"pre,omitempty"`
	Body     int    `json:"body,omitempty"`
	Col      int    `json:"col,omitempty"`
	Insns    int    `json:"insns,omitempty"`
	Gap      int    `json:"gap,omitempty"`
}

type Case struct {
	Links      []Link `json:"links"`
	Fail       string `json:"fail"`
	Order      []int  `json:"order"`
	ModuleFrom int    `json:"module_from"`
	TopCol     int    `json:"topcol,omitempty"`
	TopGap     int    `json:"topgap,omitempty"`
	Runes      bool   `json:"runes,omitempty"` // a statement of non-ASCII text stands before the statement of each def body line that reports a position (columns count runes, not bytes)
}

type pos struct {
	file      string
	line, col int
}

type frame struct {
	name    string
	p       pos
	builtin bool
	anyPos  bool
}

// writer tracks rune-based coordinates (what syntax.Position counts).
type writer struct {
	sb        strings.Builder
	file      string
	line, col int
}

func newWriter(file string) *writer { return &writer{file: file, line: 1, col: 1} }

func (w *writer) put(s string) {
	for _, r := range s {
		w.sb.WriteRune(r)
		if r == '\n' {
			w.line++
			w.col = 1
		} else {
			w.col++
		}
	}
}
func (w *writer) here() pos { return pos{w.file, w.line, w.col} }
func (w *writer) blank(n int) {
	for i := 0; i < n; i++ {
		if i%97 == 13 {
			w.put("# padding comment\n")
		} else {
			w.put("\n")
		}
	}
}

type builder struct {
	c        Case
	expected []frame // filled per function index, then assembled
	perFn    [][]frame
	names    []string
}

func fname(i int) string { return fmt.Sprintf("f%d", i) }

// emitExpr writes the expression by which function i reaches the next one (or fails)
// and returns the frames contributed by function i (its own frame, plus built-in frames it interposes).
func (b *builder) emitExpr(w *writer, i int, indent string) []frame {
	l := b.c.Links[i]
	last := i == len(b.c.Links)-1
	me := b.names[i]
	if last {
		return b.emitFail(w, i)
	}
	next := fname(i + 1)
	sp := strings.Repeat(" ", l.Col)
	switch l.Call {
	case "comp":
		w.put("[" + sp + next)
		p := w.here()
		w.put("(y) for y in [x]][0]")
		return []frame{{name: me, p: p}}
	case "sorted", "min", "max":
		w.put("(" + sp + l.Call)
		p := w.here()
		if l.Call == "sorted" {
			w.put("([x], key = " + next + ")[0])")
		} else {
			w.put("([x, x], key = " + next + "))")
		}
		return []frame{{name: me, p: p}, {name: l.Call, builtin: true}}
	case "host-index", "host-attr", "host-binary", "host-rbinary", "host-unary", "host-cmp":
		// a host value re-enters Starlark from a non-call operation: the frame of this function is at that operation
		hv := "computed(" + next + ", x)"
		var p pos
		switch l.Call {
		case "host-index":
			w.put("(" + sp + hv)
			p = w.here()
			w.put("[0])")
		case "host-attr":
			w.put("(" + sp + hv)
			p = w.here()
			w.put(".val)")
		case "host-binary":
			w.put("(" + sp + hv + " ")
			p = w.here()
			w.put("+ 1)")
		case "host-rbinary":
			w.put("(" + sp + "1 ")
			p = w.here()
			w.put("* " + hv + ")")
		case "host-unary":
			w.put("(" + sp)
			p = w.here()
			w.put("-" + hv + ")")
		case "host-cmp":
			w.put("(" + sp + "1 if " + hv + " ")
			p = w.here()
			w.put("< " + hv + " else 2)")
		case "host-in":
			w.put("(" + sp + "1 if 1 ")
			p = w.here()
			w.put("in " + hv + " else 2)")
		}
		return []frame{{name: me, p: p}}
	case "cond":
		// the condition, written later in the text, is evaluated first
		w.put("(" + sp + next)
		p := w.here()
		w.put("(x)\n")
		w.blank(l.Gap)
		w.put(indent + "    if x else 0)")
		return []frame{{name: me, p: p}}
	default: // plain
		w.put("(" + sp + next)
		p := w.here()
		w.put("(x))")
		return []frame{{name: me, p: p}}
	}
}

func (b *builder) emitFail(w *writer, i int) []frame {
	l := b.c.Links[i]
	me := b.names[i]
	sp := strings.Repeat(" ", l.Col)
	one := func(prefix, tok, suffix string) []frame {
		w.put("(" + sp + prefix)
		p := w.here()
		w.put(tok + suffix + ")")
		return []frame{{name: me, p: p}}
	}
	switch b.c.Fail {
	case "unary":
		return one("", "-", "\"s\"")
	case "unary-call":
		// the operand is not a literal: the operator's position must not slide onto the operand
		return one("", "-", "str(x)")
	case "unary-paren":
		return one("", "~", "(\n        [x] +\n        [2])")
	case "unary-attr":
		return one("", "-", "{\"k\": \"v\"}.get(\"k\")")
	case "unary-index":
		return one("", "+", "[\"s\", x][0]")
	case "index":
		return one("x", "[", "0]")
	case "attr":
		return one("x", ".", "nosuch")
	case "call":
		return one("x", "(", "1)")
	case "div":
		return one("x ", "//", " 0")
	case "cmp":
		return one("x ", "<", " \"s\"")
	case "in":
		return one("x ", "in", " 5")
	case "dictkey":
		return one("{[]", ":", " 1}")
	case "arity":
		fs := one("g_arity", "(", ")")
		return append(fs, frame{name: "g_arity", anyPos: true})
	case "fail":
		fs := one("fail", "(", "\"boom\")")
		return append(fs, frame{name: "fail", builtin: true})
	case "builtin":
		fs := one("len", "(", "x)")
		return append(fs, frame{name: "len", builtin: true})
	case "uglobal":
		return one("", "GLOB_LATE", "")
	case "pluschain-str":
		// a run of string literals that does not start the chain is folded by the compiler; the failing
		// operation is still the first '+'
		return one("x ", "+", " \"a\" + \"b\"")
	case "pluschain-list":
		return one("x ", "+", " [1] + [2] + [3]")
	case "pluschain-multiline":
		return one("x ", "+", "\n        \"a\" +\n        \"b\" +\n        \"c\"")
	case "pluschain-mid":
		return one("\"p\" + \"q\" ", "+", " x + \"a\" + \"b\"")
	case "pluschain-tuple":
		return one("(1,) + (2,) ", "+", " x + (3,) + (4,)")
	default: // binary
		return one("x ", "+", " \"s\"")
	}
}

// pre is the indentation of a simple statement in a def body, optionally followed by an expression statement of
// non-ASCII text on the same line: every position to its right is then a rune count that differs from the byte count.
func (b *builder) pre() string {
	if b.c.Runes {
		return "    \"\u65e5\u672c\u8a9e \u00e9\u2713\U0001F600\"; "
	}
	return "    "
}

// stmtFail reports whether the failing operation needs statement context.
func stmtFail(k string) bool {
	switch k {
	case "unpack", "ulocal", "for", "augindex", "setfield", "ufree", "ucell", "ufree-lambda", "augindex-store", "setindex-store", "augindex-store-rhs":
		return true
	}
	return false
}

func (b *builder) emitFunction(w *writer, i int) {
	l := b.c.Links[i]
	last := i == len(b.c.Links)-1
	w.blank(l.PreLines)
	if l.Lambda {
		w.put(fname(i) + " = lambda x: ")
		b.perFn[i] = b.emitExpr(w, i, "")
		w.put("\n")
		return
	}
	w.put("def " + fname(i) + "(x):\n")
	w.blank(l.Body)
	if l.Insns > 0 {
		w.put("    [" + strings.Repeat("0, ", l.Insns) + "0]\n")
	}
	me := b.names[i]
	if last && stmtFail(b.c.Fail) {
		sp := strings.Repeat(" ", l.Col)
		switch b.c.Fail {
		case "unpack":
			w.put(b.pre() + "(a, b)" + sp + " ")
			p := w.here()
			w.put("= x\n")
			b.perFn[i] = []frame{{name: me, p: p}}
		case "ulocal":
			w.put(b.pre() + "y = (" + sp)
			p := w.here()
			w.put("u)\n    u = 1\n")
			b.perFn[i] = []frame{{name: me, p: p}}
		case "for":
			w.put("    ")
			p := w.here()
			w.put("for y in" + sp + " x:\n        pass\n")
			b.perFn[i] = []frame{{name: me, p: p}}
		case "augindex-store":
			// the read and the operator succeed (the list is extended in place), the store into the tuple fails
			w.put("    x = ([1],)\n" + b.pre() + "x" + sp)
			p := w.here()
			w.put("[0] += [2]\n")
			b.perFn[i] = []frame{{name: me, p: p}}
		case "augindex-store-rhs":
			// as above with fallible operations on the right-hand side that succeed: their positions must not be reported
			w.put("    x = ([1],)\n" + b.pre() + "x" + sp)
			p := w.here()
			w.put("[len(x) - 1] += [2 // 1] + list((3,))\n")
			b.perFn[i] = []frame{{name: me, p: p}}
		case "setindex-store":
			w.put("    x = (1,)\n" + b.pre() + "x" + sp)
			p := w.here()
			w.put("[0] = 2\n")
			b.perFn[i] = []frame{{name: me, p: p}}
		case "augindex":
			w.put(b.pre() + "x" + sp)
			p := w.here()
			w.put("[0] += 1\n")
			b.perFn[i] = []frame{{name: me, p: p}}
		case "setfield":
			w.put(b.pre() + "x" + sp)
			p := w.here()
			w.put(".f = 1\n")
			b.perFn[i] = []frame{{name: me, p: p}}
		case "ufree":
			// a free variable of a nested function, read before the enclosing function assigns it
			w.put("    def inner():\n        return (" + sp)
			pu := w.here()
			w.put("u)\n    r = (" + sp + "inner")
			pc := w.here()
			w.put("())\n    u = 1\n")
			b.perFn[i] = []frame{{name: me, p: pc}, {name: "inner", p: pu}}
		case "ufree-lambda":
			w.put("    g = lambda: (" + sp)
			pu := w.here()
			w.put("u)\n    r = [" + sp + "g")
			pc := w.here()
			w.put("() for _ in [0]]\n    u = 1\n")
			b.perFn[i] = []frame{{name: me, p: pc}, {name: "lambda", p: pu}}
		case "ucell":
			// a local that is captured by a nested function (so it lives in a cell), read before assignment
			w.put("    y = (" + sp)
			p := w.here()
			w.put("u)\n    u = 1\n    def keep():\n        return u\n")
			b.perFn[i] = []frame{{name: me, p: p}}
		}
		w.put("    return x\n")
		return
	}
	if !last && l.Call == "default" {
		w.put("    def g(a = (" + strings.Repeat(" ", l.Col) + fname(i+1))
		p := w.here()
		w.put("(x))):\n        return a\n    return g()\n")
		b.perFn[i] = []frame{{name: me, p: p}}
		return
	}
	w.put(b.pre() + "return ")
	b.perFn[i] = b.emitExpr(w, i, "    ")
	w.put("\n")
}

// build renders the case and computes the expected call stack.
func build(c Case) (mainSrc, modSrc string, expected []frame, err error) {
	n := len(c.Links)
	if n == 0 || len(c.Order) != n || c.ModuleFrom < 1 || c.ModuleFrom > n {
		return "", "", nil, fmt.Errorf("malformed case")
	}
	b := &builder{c: c, perFn: make([][]frame, n), names: make([]string, n)}
	for i, l := range c.Links {
		b.names[i] = fname(i)
		if l.Lambda {
			b.names[i] = "lambda"
		}
	}
	// normalise combinations the templates cannot express
	lastInModule := c.ModuleFrom < n
	if c.Fail == "uglobal" && lastInModule {
		b.c.Fail = "binary"
	}
	if stmtFail(c.Fail) && c.Links[n-1].Lambda {
		b.c.Fail = "binary"
	}
	for i := range b.c.Links {
		if b.c.Links[i].Lambda && b.c.Links[i].Call == "default" {
			b.c.Links[i].Call = "plain"
		}
	}
	mw := newWriter("prog.star")
	var xw *writer
	if lastInModule {
		xw = newWriter("m.star")
		mw.put(fmt.Sprintf("load(\"m.star\", \"%s\")\n", fname(c.ModuleFrom)))
	}
	seen := make([]bool, n)
	for _, i := range c.Order {
		if i < 0 || i >= n || seen[i] {
			return "", "", nil, fmt.Errorf("order is not a permutation")
		}
		seen[i] = true
		if i >= c.ModuleFrom {
			b.emitFunction(xw, i)
		} else {
			b.emitFunction(mw, i)
		}
	}
	if b.c.Fail == "arity" {
		w := mw
		if lastInModule {
			w = xw
		}
		w.put("def g_arity(a):\n    b = a + 1\n    c = [b * 2, b // 1]\n    return [a, b, c][0]\n")
	}
	mw.blank(c.TopGap)
	mw.put("RESULT = (" + strings.Repeat(" ", c.TopCol) + "f0")
	top := mw.here()
	mw.put("(1))\nGLOB_LATE = 1\n")
	expected = []frame{{name: "<toplevel>", p: top}}
	for i := 0; i < n; i++ {
		if b.perFn[i] == nil {
			return "", "", nil, fmt.Errorf("internal: function %d emitted no frame", i)
		}
		expected = append(expected, b.perFn[i]...)
	}
	if xw != nil {
		modSrc = xw.sb.String()
	}
	return mw.sb.String(), modSrc, expected, nil
}

func checkChain(c Case) error {
	mainSrc, modSrc, expected, err := build(c)
	if err != nil {
		return err
	}
	opts := &syntax.FileOptions{}
	thread := &starlark.Thread{Name: "c16"}
	var modGlobals starlark.StringDict
	thread.Load = func(th *starlark.Thread, module string) (starlark.StringDict, error) {
		if module != "m.star" {
			return nil, fmt.Errorf("no module %s", module)
		}
		if modGlobals == nil {
			g, err := starlark.ExecFileOptions(opts, &starlark.Thread{Name: "c16-load"}, "m.star", modSrc, hostEnv)
			if err != nil {
				return nil, err
			}
			modGlobals = g
		}
		return modGlobals, nil
	}
	_, err = starlark.ExecFileOptions(opts, thread, "prog.star", mainSrc, hostEnv)
	if err == nil {
		return fmt.Errorf("program did not fail (template defect?)\n%s", clipSrc(mainSrc))
	}
	var ee *starlark.EvalError
	if !errors.As(err, &ee) {
		return fmt.Errorf("not an EvalError: %v\n%s", err, clipSrc(mainSrc))
	}
	got := ee.CallStack
	render := func() string {
		var sb strings.Builder
		sb.WriteString("got:")
		for _, f := range got {
			fmt.Fprintf(&sb, " %s@%s", f.Name, f.Pos)
		}
		sb.WriteString(" | want:")
		for _, f := range expected {
			switch {
			case f.builtin:
				fmt.Fprintf(&sb, " %s@<builtin>", f.name)
			case f.anyPos:
				fmt.Fprintf(&sb, " %s@*", f.name)
			default:
				fmt.Fprintf(&sb, " %s@%s:%d:%d", f.name, f.p.file, f.p.line, f.p.col)
			}
		}
		return sb.String() + " (" + ee.Msg + ")"
	}
	if len(got) != len(expected) {
		return fmt.Errorf("call stack has %d frames, expected %d: %s", len(got), len(expected), render())
	}
	for i, f := range expected {
		g := got[i]
		if g.Name != f.name {
			return fmt.Errorf("frame %d is %q, expected %q: %s", i, g.Name, f.name, render())
		}
		switch {
		case f.builtin:
			if g.Pos.Filename() != "<builtin>" {
				return fmt.Errorf("frame %d (%s) should be a built-in frame: %s", i, f.name, render())
			}
		case f.anyPos:
		default:
			if g.Pos.Filename() != f.p.file || int(g.Pos.Line) != f.p.line || int(g.Pos.Col) != f.p.col {
				return fmt.Errorf("frame %d (%s) at %s, expected %s:%d:%d: %s", i, f.name, g.Pos, f.p.file, f.p.line, f.p.col, render())
			}
		}
	}
	// The reported stack is a function of the program alone: a thread that has executed other code before
	// (whose frames, at the same depths, were at other program counters) reports the identical stack,
	// including the position of frames whose position is not otherwise asserted.
	warm := &starlark.Thread{Name: "c16-warm", Load: thread.Load}
	if _, err := starlark.ExecFileOptions(opts, warm, "warm.star", warmSrc, nil); err != nil {
		return fmt.Errorf("warm-up program failed: %v", err)
	}
	_, err2 := starlark.ExecFileOptions(opts, warm, "prog.star", mainSrc, hostEnv)
	var ee2 *starlark.EvalError
	if !errors.As(err2, &ee2) {
		return fmt.Errorf("on a re-used thread the program does not fail with an EvalError: %v", err2)
	}
	stackString := func(cs starlark.CallStack) string {
		var sb strings.Builder
		for _, f := range cs {
			fmt.Fprintf(&sb, " %s@%s", f.Name, f.Pos)
		}
		return sb.String()
	}
	if a, b := stackString(got), stackString(ee2.CallStack); a != b {
		return fmt.Errorf("call stack on a re-used thread differs from the one on a fresh thread:\nfresh:%s\nused: %s", a, b)
	}

	// Backtrace lists the frames outermost first.
	bt := ee.Backtrace()
	idx := 0
	for _, f := range expected {
		if f.builtin && f.name == expected[len(expected)-1].name && &f == &expected[len(expected)-1] {
			continue
		}
		var want string
		switch {
		case f.builtin:
			continue // built-in frames have no file position; the innermost one is reported as "Error in <name>"
		case f.anyPos:
			want = "in " + f.name
		default:
			want = fmt.Sprintf("%s:%d:%d: in %s", f.p.file, f.p.line, f.p.col, f.name)
		}
		j := strings.Index(bt[idx:], want)
		if j < 0 {
			return fmt.Errorf("Backtrace() does not list %q in order:\n%s", want, bt)
		}
		idx += j + len(want)
	}
	if lastf := expected[len(expected)-1]; lastf.builtin && !strings.Contains(bt, "Error in "+lastf.name) {
		return fmt.Errorf("Backtrace() does not attribute the error to built-in %s:\n%s", lastf.name, bt)
	}

	// classification
	big := c.TopGap > 16 || c.TopCol > 32
	for _, l := range c.Links {
		if l.PreLines > 16 || l.Body > 16 || l.Gap > 16 || l.Col > 32 || l.Insns > 8 {
			big = true
		}
	}
	vk.S.Class("fail:" + c.Fail)
	for _, l := range c.Links[:len(c.Links)-1] {
		vk.S.Class("link:" + l.Call)
	}
	vk.S.Class(fmt.Sprintf("depth:%d", len(c.Links)))
	if c.ModuleFrom < len(c.Links) {
		vk.S.Class("loaded-module")
	}
	if big && len(c.Links) >= 3 {
		vk.S.NonTrivial(fmt.Sprintf("%+v", c))
		vk.S.Sample("chain", c.Fail, c)
	}
	return nil
}

// warmSrc runs a successful chain of calls, deeper than any generated chain, whose functions have many
// position-bearing instructions each.
var warmSrc = func() string {
	var sb strings.Builder
	const depth = 14
	for i := depth; i >= 0; i-- {
		fmt.Fprintf(&sb, "def w%d(x):\n    y = x + 1\n    z = [y * 2, y - 1, y // 1]\n    k = sorted([x, y], key = lambda e: -e)\n", i)
		if i == depth {
			sb.WriteString("    return x\n")
		} else {
			if i%2 == 0 {
				fmt.Fprintf(&sb, "    return max([w%d(z[0] %% 7), 1], key = lambda e: e) + len(k)\n", i+1)
			} else {
				fmt.Fprintf(&sb, "    return sorted([y], key = lambda e: w%d(e))[0] + len(k)\n", i+1)
			}
		}
	}
	sb.WriteString("W = [w0(1) for _ in range(2)]\nV = (lambda a: w1(a))(3)\n")
	return sb.String()
}()

func clipSrc(s string) string {
	if len(s) > 1500 {
		return s[:1500] + "..."
	}
	return s
}

var subChain = vk.Register("chain", checkChain)

var failKinds = []string{"unary-call", "unary-paren", "unary-attr", "unary-index", "pluschain-str", "pluschain-list", "pluschain-multiline", "pluschain-mid", "pluschain-tuple", "binary", "unary", "index", "attr", "call", "div", "cmp", "in", "dictkey", "arity", "fail", "builtin",
	"uglobal", "unpack", "ulocal", "for", "augindex", "setfield", "ufree", "ufree-lambda", "ucell", "augindex-store", "setindex-store", "augindex-store-rhs"}
var callKinds = []string{"plain", "plain", "comp", "default", "sorted", "min", "max", "cond", "host-index", "host-attr", "host-binary", "host-rbinary", "host-unary", "host-cmp"}

// hostVal is a host value that re-enters Starlark from operations that are not calls: computed(fn, arg)[k],
// .val, + 1, -v, v < v, 1 in v all call fn(arg) on the thread that created it.
type hostVal struct {
	th  *starlark.Thread
	fn  starlark.Callable
	arg starlark.Value
}

func (h *hostVal) String() string        { return "computed" }
func (h *hostVal) Type() string          { return "computed" }
func (h *hostVal) Freeze()               {}
func (h *hostVal) Truth() starlark.Bool  { return true }
func (h *hostVal) Hash() (uint32, error) { return 0, fmt.Errorf("unhashable") }
func (h *hostVal) run() (starlark.Value, error) {
	return starlark.Call(h.th, h.fn, starlark.Tuple{h.arg}, nil)
}
func (h *hostVal) Attr(name string) (starlark.Value, error) { return h.run() }
func (h *hostVal) AttrNames() []string                      { return []string{"val"} }
func (h *hostVal) Get(k starlark.Value) (starlark.Value, bool, error) {
	v, err := h.run()
	return v, err == nil, err
}
func (h *hostVal) Binary(op syntax.Token, y starlark.Value, side starlark.Side) (starlark.Value, error) {
	return h.run()
}
func (h *hostVal) Unary(op syntax.Token) (starlark.Value, error) { return h.run() }
func (h *hostVal) CompareSameType(op syntax.Token, y starlark.Value, depth int) (bool, error) {
	_, err := h.run()
	return false, err
}

var hostEnv = starlark.StringDict{
	"computed": starlark.NewBuiltin("computed", func(th *starlark.Thread, _ *starlark.Builtin, args starlark.Tuple, _ []starlark.Tuple) (starlark.Value, error) {
		var fn starlark.Callable
		var arg starlark.Value
		if err := starlark.UnpackPositionalArgs("computed", args, nil, 2, &fn, &arg); err != nil {
			return nil, err
		}
		return &hostVal{th, fn, arg}, nil
	}),
}

func genCase(t *rapid.T, maxLines, maxCol, maxInsns int) Case {
	n := 1 + vk.Uniform(t, 8)
	pad := func(max int) int {
		switch vk.Uniform(t, 8) {
		case 0, 1, 2:
			return 0
		case 3:
			return 1 + vk.Uniform(t, 14)
		case 4:
			return 15 + vk.Uniform(t, 4) // around the 5-bit line delta limit
		case 5:
			return 30 + vk.Uniform(t, 5) // around the 6-bit column delta limit
		case 6:
			return vk.Uniform(t, min(max, 600))
		}
		return vk.Uniform(t, max+1)
	}
	c := Case{Fail: failKinds[vk.Uniform(t, len(failKinds))], TopCol: pad(maxCol), TopGap: pad(maxLines), Runes: vk.Chance(t, 0.3)}
	for i := 0; i < n; i++ {
		c.Links = append(c.Links, Link{
			Lambda:   vk.Chance(t, 0.25),
			Call:     callKinds[vk.Uniform(t, len(callKinds))],
			PreLines: pad(maxLines), Body: pad(maxLines), Col: pad(maxCol), Insns: pad(maxInsns), Gap: pad(maxLines),
		})
	}
	// definition order: a random permutation (callee before or far after caller)
	c.Order = make([]int, n)
	for i := range c.Order {
		c.Order[i] = i
	}
	for i := n - 1; i > 0; i-- {
		j := vk.Uniform(t, i+1)
		c.Order[i], c.Order[j] = c.Order[j], c.Order[i]
	}
	c.ModuleFrom = n
	if n > 1 && vk.Chance(t, 0.3) {
		c.ModuleFrom = 1 + vk.Uniform(t, n-1)
	}
	return c
}

func TestPropChains(t *testing.T) {
	vk.Rapid(t, subChain, vk.N(1500, 4000), func(t *rapid.T) Case {
		return genCase(t, vk.N(10000, 100000), 10000, vk.N(3000, 5000))
	})
}

// Line gaps beyond the 15- and 16-bit marks (32767, 65535) inside one function, between functions and before the
// top-level call: few cases, each with one huge gap.
func TestPropHugeGaps(t *testing.T) {
	vk.S.SetExhaustive("huge-line-gaps-x-placement", true)
	vk.Enum(t, subChain, func(yield func(Case) bool) {
		i := 0
		for _, gap := range []int{32766, 32767, 32768, 40000, 65535, 65536, 70001, 131073} {
			for place := 0; place < 5; place++ {
				i++
				if !vk.Mine(i) {
					continue
				}
				fk := failKinds[i%len(failKinds)]
				c := Case{Fail: fk, Order: []int{1, 0}, ModuleFrom: 2, Links: []Link{{Call: "cond", Insns: 3}, {Call: "plain", Insns: 2}}}
				switch place {
				case 0:
					c.Links[1].Body = gap // inside the failing function, before its failing statement
				case 1:
					c.Links[0].Gap = gap // inside one expression of the calling function
				case 2:
					c.Links[0].PreLines = gap // between the two functions
				case 3:
					c.TopGap = gap
				case 4:
					c.Links[0].Body, c.Links[1].Body = gap, gap/2
				}
				if !yield(c) {
					return
				}
			}
		}
	})
}

// Every (link kind x failure kind) pair at least once, small layout: exhaustive over the two catalogues.
func TestPropCatalogue(t *testing.T) {
	vk.S.SetExhaustive("catalogue-linkkind-x-failkind-x-lambda", true)
	vk.Enum(t, subChain, func(yield func(Case) bool) {
		i := 0
		for _, fk := range failKinds {
			for _, ck := range []string{"plain", "comp", "default", "sorted", "min", "max", "cond", "host-index", "host-attr", "host-binary", "host-rbinary", "host-unary", "host-cmp"} {
				for _, lam := range []bool{false, true} {
					i++
					if !vk.Mine(i) {
						continue
					}
					c := Case{Fail: fk, Order: []int{2, 0, 1}, ModuleFrom: 3, Runes: i%3 == 0,
						Links: []Link{{Call: ck, Lambda: lam, Col: 40, PreLines: 20}, {Call: ck, Body: 33, Insns: 20, Gap: 17}, {Call: "plain", Lambda: lam, Col: 70}}}
					if !yield(c) {
						return
					}
				}
			}
		}
	})
}

func TestReplay(t *testing.T) { vk.Replay(t) }
