// Package host provides the predeclared environment shared by the checks that
// run generated programs: a trace recorder, observation built-ins, a mutable
// record type, and a canonical dump of module globals.
package host

import (
	"fmt"
	"sort"
	"strings"

	"go.starlark.net/lib/json"
	"go.starlark.net/lib/math"
	"go.starlark.net/starlark"
	"go.starlark.net/starlarkstruct"
)

// Trace records host-visible effects in order.
type Trace struct {
	Events []string
	// OnEvent, if set, is called for every event (C07 uses it to stamp steps).
	OnEvent func(thread *starlark.Thread, ev string)
	Limit   int // 0 = unlimited; events beyond the limit are dropped but counted
	Dropped int
}

func (tr *Trace) add(thread *starlark.Thread, ev string) {
	if tr.Limit > 0 && len(tr.Events) >= tr.Limit {
		tr.Dropped++
		return
	}
	if len(ev) > 400 {
		ev = ev[:400] + "..."
	}
	tr.Events = append(tr.Events, ev)
	if tr.OnEvent != nil {
		tr.OnEvent(thread, ev)
	}
}

// Rec is a mutable record with settable fields.
type Rec struct {
	names  []string
	fields map[string]starlark.Value
	frozen bool
}

var (
	_ starlark.HasSetField = (*Rec)(nil)
)

func NewRec() *Rec { return &Rec{fields: map[string]starlark.Value{}} }

func (r *Rec) String() string {
	var sb strings.Builder
	sb.WriteString("rec(")
	for i, n := range r.names {
		if i > 0 {
			sb.WriteString(", ")
		}
		sb.WriteString(n)
		sb.WriteString("=")
		// Fields are printed shallowly: a record may be part of a cycle and
		// String() has no way to detect that (nor may it write any state: records are shared between threads in C05).
		switch f := r.fields[n].(type) {
		case starlark.Int, starlark.String, starlark.Bool, starlark.NoneType, starlark.Float:
			sb.WriteString(f.String())
		default:
			fmt.Fprintf(&sb, "<%s>", f.Type())
		}
	}
	sb.WriteString(")")
	return sb.String()
}
func (r *Rec) Type() string         { return "rec" }
func (r *Rec) Truth() starlark.Bool { return true }
func (r *Rec) Hash() (uint32, error) {
	return 0, fmt.Errorf("unhashable type: rec")
}
func (r *Rec) Freeze() {
	if !r.frozen {
		r.frozen = true
		for _, n := range r.names {
			r.fields[n].Freeze()
		}
	}
}
func (r *Rec) Attr(name string) (starlark.Value, error) {
	if v, ok := r.fields[name]; ok {
		return v, nil
	}
	return nil, nil
}
func (r *Rec) AttrNames() []string {
	out := append([]string(nil), r.names...)
	sort.Strings(out)
	return out
}
func (r *Rec) SetField(name string, v starlark.Value) error {
	if r.frozen {
		return fmt.Errorf("cannot set field of frozen rec")
	}
	if _, ok := r.fields[name]; !ok {
		r.names = append(r.names, name)
	}
	r.fields[name] = v
	return nil
}
func (r *Rec) Frozen() bool { return r.frozen }
func (r *Rec) Fields() []string {
	return append([]string(nil), r.names...)
}

// Env builds a fresh predeclared environment and thread bound to tr.
// Every call returns new objects so that two executions share no state.
func Env(tr *Trace, name string) (starlark.StringDict, *starlark.Thread) {
	thread := &starlark.Thread{
		Name: name,
		Print: func(th *starlark.Thread, msg string) {
			tr.add(th, "print:"+msg)
		},
	}
	pre := starlark.StringDict{
		"t": starlark.NewBuiltin("t", func(th *starlark.Thread, b *starlark.Builtin, args starlark.Tuple, kwargs []starlark.Tuple) (starlark.Value, error) {
			var tag string
			var v starlark.Value
			if err := starlark.UnpackPositionalArgs("t", args, kwargs, 2, &tag, &v); err != nil {
				return nil, err
			}
			tr.add(th, "t:"+tag+":"+v.String())
			return v, nil
		}),
		"rec": starlark.NewBuiltin("rec", func(th *starlark.Thread, b *starlark.Builtin, args starlark.Tuple, kwargs []starlark.Tuple) (starlark.Value, error) {
			if len(args) > 0 {
				return nil, fmt.Errorf("rec: unexpected positional arguments")
			}
			r := NewRec()
			for _, kv := range kwargs {
				r.SetField(string(kv[0].(starlark.String)), kv[1])
			}
			return r, nil
		}),
		"keep": starlark.NewBuiltin("keep", func(th *starlark.Thread, b *starlark.Builtin, args starlark.Tuple, kwargs []starlark.Tuple) (starlark.Value, error) {
			return starlark.None, nil
		}),
		"struct": starlark.NewBuiltin("struct", starlarkstruct.Make),
		"json":   json.Module,
		"math":   math.Module,
	}
	return pre, thread
}

// Canon renders module globals canonically: names sorted, values structurally,
// with aliasing between mutable objects made explicit (#n back references) and
// functions by name only, so that values produced by different interpreters
// can be compared.
func Canon(g starlark.StringDict) string {
	var names []string
	for n := range g {
		names = append(names, n)
	}
	sort.Strings(names)
	c := &canon{ids: map[any]int{}}
	for _, n := range names {
		c.sb.WriteString(n)
		c.sb.WriteString(" = ")
		c.value(g[n], 0)
		c.sb.WriteString("\n")
	}
	return c.sb.String()
}

// CanonValue renders one value the same way.
func CanonValue(v starlark.Value) string {
	c := &canon{ids: map[any]int{}}
	c.value(v, 0)
	return c.sb.String()
}

type canon struct {
	sb  strings.Builder
	ids map[any]int
}

func (c *canon) ref(v any) bool {
	if id, ok := c.ids[v]; ok {
		fmt.Fprintf(&c.sb, "#%d", id)
		return true
	}
	id := len(c.ids) + 1
	c.ids[v] = id
	fmt.Fprintf(&c.sb, "@%d", id)
	return false
}

func frozenMark(v starlark.Value) string {
	// A frozen list/dict/set rejects a no-op-free probe; we do not mutate here,
	// so frozenness is checked elsewhere (C04). Kept for future use.
	return ""
}

func (c *canon) value(v starlark.Value, depth int) {
	if depth > 40 {
		c.sb.WriteString("<deep>")
		return
	}
	switch v := v.(type) {
	case nil:
		c.sb.WriteString("<nil>")
	case *starlark.List:
		if c.ref(v) {
			return
		}
		c.sb.WriteString("[")
		for i := 0; i < v.Len(); i++ {
			if i > 0 {
				c.sb.WriteString(", ")
			}
			c.value(v.Index(i), depth+1)
		}
		c.sb.WriteString("]")
	case starlark.Tuple:
		c.sb.WriteString("(")
		for i, e := range v {
			if i > 0 {
				c.sb.WriteString(", ")
			}
			c.value(e, depth+1)
		}
		c.sb.WriteString(",)")
	case *starlark.Dict:
		if c.ref(v) {
			return
		}
		c.sb.WriteString("{")
		for i, item := range v.Items() {
			if i > 0 {
				c.sb.WriteString(", ")
			}
			c.value(item[0], depth+1)
			c.sb.WriteString(": ")
			c.value(item[1], depth+1)
		}
		c.sb.WriteString("}")
	case *starlark.Set:
		if c.ref(v) {
			return
		}
		c.sb.WriteString("set(")
		it := v.Iterate()
		var x starlark.Value
		first := true
		for it.Next(&x) {
			if !first {
				c.sb.WriteString(", ")
			}
			first = false
			c.value(x, depth+1)
		}
		it.Done()
		c.sb.WriteString(")")
	case *Rec:
		if c.ref(v) {
			return
		}
		c.sb.WriteString("rec(")
		for i, n := range v.names {
			if i > 0 {
				c.sb.WriteString(", ")
			}
			c.sb.WriteString(n + "=")
			c.value(v.fields[n], depth+1)
		}
		c.sb.WriteString(")")
	case *starlarkstruct.Struct:
		c.sb.WriteString("struct(")
		for i, n := range v.AttrNames() {
			if i > 0 {
				c.sb.WriteString(", ")
			}
			c.sb.WriteString(n + "=")
			x, _ := v.Attr(n)
			c.value(x, depth+1)
		}
		c.sb.WriteString(")")
	case starlark.Float:
		fmt.Fprintf(&c.sb, "float:%s", v.String())
	case starlark.Callable:
		// functions from either interpreter, built-ins, bound methods
		if b, ok := v.(*starlark.Builtin); ok && b.Receiver() != nil {
			c.sb.WriteString("<bound " + b.Name() + " of ")
			c.value(b.Receiver(), depth+1)
			c.sb.WriteString(">")
			return
		}
		c.sb.WriteString("<" + v.Type() + " " + v.Name() + ">")
	default:
		c.sb.WriteString(v.Type() + ":" + v.String())
	}
}
