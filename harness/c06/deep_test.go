package c06

// deep: 1-8 loops (for statements or comprehension clauses) nested in ONE function, each over its own collection,
// left by exhaustion, break, return, a failing operation or a host panic; and many simultaneous iterators
// on one collection taken through the Go API (counts next to 2^8 and 2^16). Afterwards every collection is
// unchanged and mutable again and the thread is back at its depth.

import (
	"fmt"
	"strings"
	"testing"

	"go.starlark.net/starlark"
	"go.starlark.net/syntax"
	"verif/harness/vk"
)

type DeepCase struct {
	Depth int    `json:"depth"`
	Exit  string `json:"exit"` // exhaust | break | return | fail | panic | comp | comp-fail
	Coll  string `json:"coll"`
	Many  int    `json:"many,omitempty"` // > 0: the Go-API variant with this many live iterators
}

func checkDeep(c DeepCase) error {
	th := &starlark.Thread{Name: "c06-deep"}
	if c.Many > 0 {
		x := makeColl(c.Coll, 3)
		initial := snapshot(x)
		its := make([]starlark.Iterator, c.Many)
		for i := range its {
			its[i] = x.(starlark.Iterable).Iterate()
		}
		if err := probeMutable(th, x); err == nil {
			return fmt.Errorf("%+v: the collection accepted a mutation while %d iterators were live", c, c.Many)
		}
		if s := snapshot(x); s != initial {
			return fmt.Errorf("%+v: collection changed under %d live iterators: %s -> %s", c, c.Many, initial, s)
		}
		for i, it := range its {
			it.Done()
			if i == len(its)-2 {
				if err := probeMutable(th, x); err == nil {
					return fmt.Errorf("%+v: mutation accepted with one iterator still live", c)
				}
			}
		}
		if e := postConditions(Case{}, fmt.Sprintf("%+v", c), &observation{}, x, th, 0, initial); e != nil {
			return e
		}
		vk.S.Class("deep:many-iterators")
		vk.S.NonTrivial(fmt.Sprintf("%+v", c))
		return nil
	}
	colls := make([]starlark.Value, c.Depth)
	initial := make([]string, c.Depth)
	for i := range colls {
		colls[i] = makeColl(c.Coll, 2)
		initial[i] = snapshot(colls[i])
	}
	var sb strings.Builder
	sb.WriteString("def scenario(xs):\n")
	switch c.Exit {
	case "comp", "comp-fail":
		sb.WriteString("    return [0")
		if c.Exit == "comp-fail" {
			sb.WriteString(" // 0")
		}
		for i := 0; i < c.Depth; i++ {
			fmt.Fprintf(&sb, " for v%d in xs[%d]", i, i)
		}
		sb.WriteString("]\n")
	default:
		for i := 0; i < c.Depth; i++ {
			fmt.Fprintf(&sb, "%sfor v%d in xs[%d]:\n", strings.Repeat("    ", i+1), i, i)
		}
		ind := strings.Repeat("    ", c.Depth+1)
		switch c.Exit {
		case "exhaust":
			sb.WriteString(ind + "pass\n")
		case "break":
			sb.WriteString(ind + "break\n")
		case "return":
			sb.WriteString(ind + "return 1\n")
		case "fail":
			sb.WriteString(ind + "y = 1 // 0\n")
		case "panic":
			sb.WriteString(ind + "boom()\n")
		}
	}
	pre := starlark.StringDict{"boom": starlark.NewBuiltin("boom", func(*starlark.Thread, *starlark.Builtin, starlark.Tuple, []starlark.Tuple) (starlark.Value, error) {
		panic("boom")
	})}
	g, err := starlark.ExecFileOptions(&syntax.FileOptions{}, th, "deep.star", sb.String(), pre)
	if err != nil {
		return fmt.Errorf("template does not compile: %v\n%s", err, sb.String())
	}
	depth := th.CallStackDepth()
	func() {
		defer func() {
			if r := recover(); r != nil && fmt.Sprint(r) != "boom" {
				panic(r)
			}
		}()
		starlark.Call(th, g["scenario"], starlark.Tuple{starlark.NewList(colls)}, nil)
	}()
	for i, x := range colls {
		what := fmt.Sprintf("%+v: collection of loop %d (outermost is 0)", c, i)
		if e := postConditions(Case{}, what, &observation{}, x, th, depth, initial[i]); e != nil {
			return fmt.Errorf("%v\n%s", e, sb.String())
		}
		if n, frozen, ok := starlark.VerifIterCount(x); ok && !frozen && n != 0 {
			return fmt.Errorf("%s: %d iterators still registered\n%s", what, n, sb.String())
		}
	}
	vk.S.Class(fmt.Sprintf("deep:depth%d", c.Depth))
	if c.Depth >= 3 && c.Exit != "exhaust" {
		vk.S.NonTrivial(fmt.Sprintf("%+v", c))
	}
	return nil
}

var subDeep = vk.Register("deep", checkDeep)

func TestPropDeepNesting(t *testing.T) {
	vk.S.SetExhaustive("nesting-depth-1-8-x-exit-x-collection; live-iterator-counts", true)
	vk.Enum(t, subDeep, func(yield func(DeepCase) bool) {
		i := 0
		for _, coll := range []string{"list", "dict", "set"} {
			for depth := 1; depth <= 8; depth++ {
				for _, exit := range []string{"exhaust", "break", "return", "fail", "panic", "comp", "comp-fail"} {
					i++
					if vk.Mine(i) && !yield(DeepCase{Depth: depth, Exit: exit, Coll: coll}) {
						return
					}
				}
			}
			for _, many := range []int{1, 2, 255, 256, 257, 65535, 65536, 65537, 131072} {
				i++
				if vk.Mine(i) && !yield(DeepCase{Coll: coll, Many: many}) {
					return
				}
			}
		}
	})
}
