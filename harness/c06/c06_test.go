// C06: mutation during iteration fails, and locks and thread state are always restored.
package c06

import (
	"fmt"
	"sort"
	"strings"
	"sync"
	"testing"

	sjson "go.starlark.net/lib/json"
	"go.starlark.net/starlark"
	"go.starlark.net/syntax"
	"pgregory.net/rapid"
	"verif/harness/vk"
)

func TestMain(m *testing.M) {
	vk.Describe("fault enumeration over {list, dict, set} x iterating construct {for, list/dict comprehension, nested comprehension clause, nested loops over the same collection, sorted/min/max with a key callback, "+
		"sequence assignment (exact/too few/too many), for with unpacking, *args expansion, every universe built-in and every list/dict/set/string method called with the collection in each argument position (discovered at run time), "+
		"Go push iterators Elements/Entries} x mutator (every mutating method of the type, index assignment, +=, |=, Go API Append/SetIndex/Clear/SetKey/Delete/Insert) executed during the iteration "+
		"x exit path {exhaustion, break, continue, return, error in the body at iteration k, error in a nested call, host panic, step-limit cancellation at every step index of the scenario}. "+
		"Oracle after every in-iteration mutation attempt: it returned an error and the collection's snapshot is unchanged; right after the loop and after the outermost call returned by any path: "+
		"a no-op mutation through the API succeeds, the iterator count hook reads 0, Thread.CallStackDepth() is back at its previous value, and the same thread runs a fresh program. "+
		"Non-trivial = at least one iterator was acquired on a non-empty mutable collection and the scenario left by a non-exhaustion path; distinct by (collection, construct, mutator, exit, k, cut).",
		"mutators are chosen so that they would change an unlocked collection (an operation that changes nothing may legitimately succeed and is not asserted to fail)",
		"the host panic is recovered by the harness around starlark.Call, as an embedding application would")
	vk.Main(m, "C06")
}

type Case struct {
	Coll      string `json:"coll"`
	N         int    `json:"n"`
	Construct string `json:"construct"`
	Mut       string `json:"mut"`
	Exit      string `json:"exit"`
	K         int    `json:"k"`
	Cut       int    `json:"cut,omitempty"` // >0: step limit; -1: every cut point
}

// ---------------------------------------------------------------- collections and mutators

func makeColl(kind string, n int) starlark.Value {
	switch kind {
	case "list":
		var elems []starlark.Value
		for i := 0; i < n; i++ {
			elems = append(elems, starlark.MakeInt(10+i))
		}
		return starlark.NewList(elems)
	case "dict":
		d := starlark.NewDict(n)
		for i := 0; i < n; i++ {
			d.SetKey(starlark.MakeInt(10+i), starlark.MakeInt(i))
		}
		return d
	case "set":
		s := starlark.NewSet(n)
		for i := 0; i < n; i++ {
			s.Insert(starlark.MakeInt(10 + i))
		}
		return s
	}
	panic(kind)
}

func snapshot(v starlark.Value) string { return v.String() }

var helperSrc = `
def m_setitem0(x): x[0] = 99
def m_setkey_new(x): x[777] = 1
def m_setkey_old(x): x[10] = 99
def m_iadd(x): x += [1]
def m_ior(x): x |= {778: 1}
def m_augindex(x): x[0] += 1
def m_augkey(x): x[10] += 1
`

var helperFns starlark.StringDict

func init() {
	g, err := starlark.ExecFileOptions(&syntax.FileOptions{Set: true}, &starlark.Thread{}, "helpers.star", helperSrc, nil)
	if err != nil {
		panic(err)
	}
	helperFns = g
}

type mutator struct {
	name string
	kind string
	do   func(th *starlark.Thread, x starlark.Value) error
}

func method(name string, args ...starlark.Value) func(th *starlark.Thread, x starlark.Value) error {
	return func(th *starlark.Thread, x starlark.Value) error {
		m, err := x.(starlark.HasAttrs).Attr(name)
		if err != nil || m == nil {
			return fmt.Errorf("no method %s", name)
		}
		_, err = starlark.Call(th, m, starlark.Tuple(args), nil)
		return err
	}
}

func helper(name string) func(th *starlark.Thread, x starlark.Value) error {
	return func(th *starlark.Thread, x starlark.Value) error {
		_, err := starlark.Call(th, helperFns[name], starlark.Tuple{x}, nil)
		return err
	}
}

var i1, i2 = starlark.MakeInt(555), starlark.MakeInt(10)

var mutators = []mutator{
	{"append", "list", method("append", i1)},
	{"clear", "list", method("clear")},
	{"extend", "list", method("extend", starlark.NewList([]starlark.Value{i1}))},
	{"insert", "list", method("insert", starlark.MakeInt(0), i1)},
	{"pop", "list", method("pop")},
	{"remove", "list", method("remove", i2)},
	{"setitem", "list", helper("m_setitem0")},
	{"iadd", "list", helper("m_iadd")},
	{"augindex", "list", helper("m_augindex")},
	{"api-append", "list", func(_ *starlark.Thread, x starlark.Value) error { return x.(*starlark.List).Append(i1) }},
	{"api-setindex", "list", func(_ *starlark.Thread, x starlark.Value) error { return x.(*starlark.List).SetIndex(0, i1) }},
	{"api-clear", "list", func(_ *starlark.Thread, x starlark.Value) error { return x.(*starlark.List).Clear() }},

	{"clear", "dict", method("clear")},
	{"pop", "dict", method("pop", i2)},
	{"popitem", "dict", method("popitem")},
	{"setdefault", "dict", method("setdefault", i1, i1)},
	{"update", "dict", method("update", starlark.NewList([]starlark.Value{starlark.Tuple{i1, i1}}))},
	{"setkey-new", "dict", helper("m_setkey_new")},
	{"setkey-old", "dict", helper("m_setkey_old")},
	{"ior", "dict", helper("m_ior")},
	{"augkey", "dict", helper("m_augkey")},
	{"api-setkey", "dict", func(_ *starlark.Thread, x starlark.Value) error { return x.(*starlark.Dict).SetKey(i1, i1) }},
	{"api-delete", "dict", func(_ *starlark.Thread, x starlark.Value) error {
		_, _, err := x.(*starlark.Dict).Delete(i2)
		return err
	}},
	{"api-clear", "dict", func(_ *starlark.Thread, x starlark.Value) error { return x.(*starlark.Dict).Clear() }},

	{"add", "set", method("add", i1)},
	{"clear", "set", method("clear")},
	{"discard", "set", method("discard", i2)},
	{"pop", "set", method("pop")},
	{"remove", "set", method("remove", i2)},
	{"update", "set", method("update", starlark.NewList([]starlark.Value{i1}))},
	{"api-insert", "set", func(_ *starlark.Thread, x starlark.Value) error { return x.(*starlark.Set).Insert(i1) }},
	{"api-delete", "set", func(_ *starlark.Thread, x starlark.Value) error { _, err := x.(*starlark.Set).Delete(i2); return err }},
	{"api-clear", "set", func(_ *starlark.Thread, x starlark.Value) error { return x.(*starlark.Set).Clear() }},
}

func findMutator(kind, name string) *mutator {
	for i := range mutators {
		if mutators[i].kind == kind && mutators[i].name == name {
			return &mutators[i]
		}
	}
	return nil
}

// probeMutable performs a no-op pair of mutations through the API; it must succeed on an unlocked collection.
func probeMutable(th *starlark.Thread, x starlark.Value) error {
	before := snapshot(x)
	switch x := x.(type) {
	case *starlark.List:
		if err := x.Append(i1); err != nil {
			return err
		}
		if err := method("pop")(th, x); err != nil {
			return err
		}
	case *starlark.Dict:
		if err := x.SetKey(i1, i1); err != nil {
			return err
		}
		if _, _, err := x.Delete(i1); err != nil {
			return err
		}
	case *starlark.Set:
		if err := x.Insert(i1); err != nil {
			return err
		}
		if _, err := x.Delete(i1); err != nil {
			return err
		}
	}
	if n, frozen, ok := starlark.VerifIterCount(x); ok && !frozen && n != 0 {
		return fmt.Errorf("iterator count is %d after all iterations ended", n)
	}
	if after := snapshot(x); after != before {
		return fmt.Errorf("probe changed the collection: %s -> %s", before, after)
	}
	return nil
}

// ---------------------------------------------------------------- scenario programs

var exits = []string{"exhaust", "break", "continue", "return", "error", "nested-error", "panic"}

var constructs = []string{"for", "listcomp", "dictcomp", "nested-clause", "nested-loops", "sorted", "min", "max", "for-unpack-outer"}

// scenarioSrc renders the scenario function. Host built-ins: step(x) = attempt the mutation (must fail) and,
// on the K-th call, perform the exit action for expression contexts (error / panic); act() returns the action
// name for statement contexts; probe(x) = the collection must be mutable here.
func scenarioSrc(c Case) string {
	var sb strings.Builder
	w := func(format string, args ...any) { fmt.Fprintf(&sb, format+"\n", args...) }
	w("def nested_fail():")
	w("    return 1 // 0")
	w("def scenario(x):")
	body := func(ind string) {
		w(ind + "a = step(x)")
		w(ind + "if a == \"break\":")
		w(ind + "    break")
		w(ind + "if a == \"continue\":")
		w(ind + "    continue")
		w(ind + "if a == \"return\":")
		w(ind + "    return 1")
		w(ind + "if a == \"error\":")
		w(ind + "    y = 1 // 0")
		w(ind + "if a == \"nested-error\":")
		w(ind + "    nested_fail()")
	}
	switch c.Construct {
	case "for":
		w("    for e in x:")
		body("        ")
		w("    probe(x)")
	case "nested-loops":
		w("    for e in x:")
		w("        for e2 in x:")
		body("            ")
		w("        still_locked(x)")
		w("    probe(x)")
	case "for-unpack-outer":
		w("    for e, e2 in [(1, 2), (3, 4)]:")
		w("        for e3 in x:")
		body("            ")
		w("        probe(x)")
		w("    probe(x)")
	case "listcomp":
		w("    y = [estep(x) for e in x]")
		w("    probe(x)")
	case "dictcomp":
		w("    y = {e: estep(x) for e in x}")
		w("    probe(x)")
	case "nested-clause":
		w("    y = [estep(x) for a in [1, 2] for e in x if e]")
		w("    probe(x)")
	case "sorted", "min", "max":
		w("    y = %s(x, key = lambda e: estep(x))", c.Construct)
		w("    probe(x)")
	}
	w("    return 0")
	return sb.String()
}

type observation struct {
	attempts   int
	violations []string
	probes     int
}

func runScenario(c Case, limit uint64) (steps uint64, obs *observation, err error, panicked any, x starlark.Value, thread *starlark.Thread, depthBefore int) {
	mu := findMutator(c.Coll, c.Mut)
	x = makeColl(c.Coll, c.N)
	obs = &observation{}
	calls := 0
	attempt := func(th *starlark.Thread, v starlark.Value) {
		before := snapshot(v)
		e := mu.do(th, v)
		obs.attempts++
		if after := snapshot(v); after != before {
			obs.violations = append(obs.violations, fmt.Sprintf("mutation %s during iteration changed the collection: %s -> %s (err=%v)", mu.name, before, after, e))
		} else if e == nil {
			obs.violations = append(obs.violations, fmt.Sprintf("mutation %s during iteration returned no error (collection %s)", mu.name, before))
		}
	}
	pre := starlark.StringDict{
		"step": starlark.NewBuiltin("step", func(th *starlark.Thread, b *starlark.Builtin, args starlark.Tuple, kwargs []starlark.Tuple) (starlark.Value, error) {
			attempt(th, args[0])
			calls++
			if calls == c.K {
				if c.Exit == "panic" {
					panic("boom")
				}
				return starlark.String(c.Exit), nil
			}
			return starlark.String(""), nil
		}),
		"estep": starlark.NewBuiltin("estep", func(th *starlark.Thread, b *starlark.Builtin, args starlark.Tuple, kwargs []starlark.Tuple) (starlark.Value, error) {
			attempt(th, args[0])
			calls++
			if calls == c.K {
				switch c.Exit {
				case "panic":
					panic("boom")
				case "error", "nested-error", "break", "return":
					return nil, fmt.Errorf("injected failure")
				}
			}
			return starlark.MakeInt(calls), nil
		}),
		"probe": starlark.NewBuiltin("probe", func(th *starlark.Thread, b *starlark.Builtin, args starlark.Tuple, kwargs []starlark.Tuple) (starlark.Value, error) {
			obs.probes++
			if e := probeMutable(th, args[0]); e != nil {
				obs.violations = append(obs.violations, fmt.Sprintf("collection not mutable right after the iteration ended: %v", e))
			}
			return starlark.None, nil
		}),
		"still_locked": starlark.NewBuiltin("still_locked", func(th *starlark.Thread, b *starlark.Builtin, args starlark.Tuple, kwargs []starlark.Tuple) (starlark.Value, error) {
			// the inner loop over x has ended but the outer one is still active
			attempt(th, args[0])
			return starlark.None, nil
		}),
	}
	thread = &starlark.Thread{Name: "c06"}
	g, e := starlark.ExecFileOptions(&syntax.FileOptions{Set: true}, thread, "scenario.star", scenarioSrc(c), pre)
	if e != nil {
		return 0, obs, fmt.Errorf("scenario does not compile: %v", e), nil, x, thread, 0
	}
	depthBefore = thread.CallStackDepth()
	base := thread.ExecutionSteps()
	if limit > 0 {
		thread.SetMaxExecutionSteps(base + limit)
	}
	func() {
		defer func() { panicked = recover() }()
		_, err = starlark.Call(thread, g["scenario"], starlark.Tuple{x}, nil)
	}()
	steps = thread.ExecutionSteps() - base
	return
}

func postConditions(c Case, what string, obs *observation, x starlark.Value, thread *starlark.Thread, depthBefore int, initial string) error {
	if len(obs.violations) > 0 {
		return fmt.Errorf("%s: %s", what, obs.violations[0])
	}
	if d := thread.CallStackDepth(); d != depthBefore {
		return fmt.Errorf("%s: CallStackDepth is %d after the call returned, %d before", what, d, depthBefore)
	}
	if s := snapshot(x); s != initial {
		return fmt.Errorf("%s: collection changed: %s -> %s", what, initial, s)
	}
	if err := probeMutable(thread, x); err != nil {
		return fmt.Errorf("%s: collection is not mutable after the outermost call returned: %v", what, err)
	}
	// the thread stays usable
	thread.Uncancel()
	thread.SetMaxExecutionSteps(^uint64(0))
	v, err := starlark.EvalOptions(&syntax.FileOptions{}, thread, "again.star", "[i * 2 for i in range(3)]", nil)
	if err != nil || v.String() != "[0, 2, 4]" {
		return fmt.Errorf("%s: thread unusable afterwards: %v, %v", what, v, err)
	}
	if d := thread.CallStackDepth(); d != depthBefore {
		return fmt.Errorf("%s: CallStackDepth is %d after re-use, %d before", what, d, depthBefore)
	}
	return nil
}

func checkScenario(c Case) error {
	if findMutator(c.Coll, c.Mut) == nil {
		return fmt.Errorf("unknown mutator %s/%s", c.Coll, c.Mut)
	}
	initial := snapshot(makeColl(c.Coll, c.N))
	S, obs, err, pan, x, th, depth := runScenario(c, 0)
	if err != nil && strings.HasPrefix(err.Error(), "scenario does not compile") {
		return err
	}
	what := fmt.Sprintf("%+v (err=%v, panic=%v)", c, err, pan)
	if e := postConditions(c, what, obs, x, th, depth, initial); e != nil {
		return e
	}
	vk.S.Class("construct:" + c.Construct)
	vk.S.Class("exit:" + c.Exit)
	if obs.attempts > 0 && c.N > 0 && (err != nil || pan != nil || c.Exit == "break" || c.Exit == "return" || c.Exit == "continue") {
		vk.S.NonTrivial(fmt.Sprintf("%+v", c))
		vk.S.Sample("scenario", c.Construct+"/"+c.Exit, map[string]any{"case": c, "src": scenarioSrc(c), "attempts": obs.attempts, "probes": obs.probes})
	}
	// cancellation by step limit at every step index (or one)
	var cuts []uint64
	if c.Cut == -1 {
		for n := uint64(1); n <= S; n++ {
			cuts = append(cuts, n)
		}
	} else if c.Cut > 0 {
		cuts = []uint64{uint64(c.Cut)}
	}
	for _, n := range cuts {
		_, obs, err, pan, x, th, depth := runScenario(c, n)
		what := fmt.Sprintf("%+v cancelled at step %d of %d (err=%v, panic=%v)", c, n, S, err, pan)
		if e := postConditions(c, what, obs, x, th, depth, initial); e != nil {
			return e
		}
		vk.S.Class("cut-points")
		if n < S && c.N > 0 {
			vk.S.NonTrivial(fmt.Sprintf("%+v@%d", c, n))
		}
	}
	return nil
}

var subScenario = vk.Register("scenario", checkScenario)

func mutNames(kind string) []string {
	var out []string
	for _, m := range mutators {
		if m.kind == kind {
			out = append(out, m.name)
		}
	}
	return out
}

// The full product (thorough) or: every (construct x exit) pair with all cut points for one mutator,
// plus a seeded 1/8 slice of the rest (quick).
func TestPropProduct(t *testing.T) {
	full := vk.Thorough()
	vk.S.SetExhaustive("collection-x-construct-x-mutator-x-exit-x-k", full)
	seed := vk.Seed()
	vk.Enum(t, subScenario, func(yield func(Case) bool) {
		idx := 0
		for _, coll := range []string{"list", "dict", "set"} {
			for _, con := range constructs {
				for mi, mut := range mutNames(coll) {
					for _, ex := range exits {
						ns := []int{0, 1, 3}
						if full {
							ns = []int{0, 1, 2, 3, 5, 9} // 9 elements: a dict/set grows past its first bucket while iterated
						}
						for _, n := range ns {
							for _, k := range []int{1, 2, 3, 5, 9} {
								if k > n && !(k == 1 && n == 0) {
									continue
								}
								idx++
								if !vk.Mine(idx) {
									continue
								}
								c := Case{Coll: coll, N: n, Construct: con, Mut: mut, Exit: ex, K: k}
								if full {
									c.Cut = -1
								} else {
									if mi == (seed+len(con))%len(mutNames(coll)) && n == 3 {
										c.Cut = -1 // all cut points for one mutator per construct
									} else if (idx+seed)%8 != 0 {
										continue
									}
								}
								if !yield(c) {
									return
								}
							}
						}
					}
				}
			}
		}
	})
}

// ---------------------------------------------------------------- constructs in which no user code runs during the iteration

type SeqCase struct {
	Coll string `json:"coll"`
	N    int    `json:"n"`
	Form string `json:"form"`
	Want int    `json:"want"` // number of targets / parameters
}

var seqForms = map[string]string{
	"unpack":       "def scenario(x):\n    %s = x\n    probe(x)\n    return 0\n",
	"unpack-list":  "def scenario(x):\n    [%s] = x\n    probe(x)\n    return 0\n",
	"for-unpack":   "def scenario(x):\n    for %s in [x]:\n        pass\n    probe(x)\n    return 0\n",
	"comp-unpack":  "def scenario(x):\n    y = [1 for %s in [x]]\n    probe(x)\n    return 0\n",
	"star-args":    "def callee(%s):\n    return 1\ndef scenario(x):\n    callee(*x)\n    probe(x)\n    return 0\n",
	"star-builtin": "def scenario(x):\n    # %s\n    max(0, *x)\n    probe(x)\n    return 0\n",
	// *x together with a ** operand that is rejected (not a mapping, non-string key), accepted, or x itself
	"star-kw-notmapping": "def callee(%s):\n    return 1\ndef scenario(x):\n    callee(*x, **1)\n    probe(x)\n    return 0\n",
	"star-kw-badkey":     "def callee(%s):\n    return 1\ndef scenario(x):\n    callee(*x, **{1: 2})\n    probe(x)\n    return 0\n",
	"star-kw-unknown":    "def callee(%s):\n    return 1\ndef scenario(x):\n    callee(*x, **{\"zz\": 2})\n    probe(x)\n    return 0\n",
	"star-kw-self":       "def callee(%s):\n    return 1\ndef scenario(x):\n    callee(*x, **x)\n    probe(x)\n    return 0\n",
	"star-named-kw":      "def callee(%s):\n    return 1\ndef scenario(x):\n    callee(0, k = 1, *x, **{2: 3})\n    probe(x)\n    return 0\n",
	"star-builtin-kw":    "def scenario(x):\n    # %s\n    max(0, *x, **1)\n    probe(x)\n    return 0\n",
	"star-notcallable":   "def scenario(x):\n    # %s\n    (5)(*x)\n    probe(x)\n    return 0\n",
	"kw-then-star-x":     "def callee(%s):\n    return 1\ndef scenario(x):\n    callee(*[1], **x)\n    probe(x)\n    return 0\n",
}

func checkSeq(c SeqCase) error {
	form, ok := seqForms[c.Form]
	if !ok {
		return fmt.Errorf("unknown form")
	}
	var names []string
	for i := 0; i < c.Want; i++ {
		names = append(names, fmt.Sprintf("v%d", i))
	}
	targets := strings.Join(names, ", ")
	if c.Want == 1 && !strings.HasPrefix(c.Form, "star-") && c.Form != "kw-then-star-x" {
		targets = "(" + targets + ",)"
	}
	if c.Want == 0 {
		if strings.HasPrefix(c.Form, "star-") || c.Form == "kw-then-star-x" {
			targets = ""
		} else {
			return nil
		}
	}
	src := fmt.Sprintf(form, targets)
	x := makeColl(c.Coll, c.N)
	initial := snapshot(x)
	obs := &observation{}
	pre := starlark.StringDict{"probe": starlark.NewBuiltin("probe", func(th *starlark.Thread, b *starlark.Builtin, args starlark.Tuple, kwargs []starlark.Tuple) (starlark.Value, error) {
		if e := probeMutable(th, args[0]); e != nil {
			obs.violations = append(obs.violations, fmt.Sprintf("collection not mutable right after the construct: %v", e))
		}
		return starlark.None, nil
	})}
	thread := &starlark.Thread{Name: "c06seq"}
	g, err := starlark.ExecFileOptions(&syntax.FileOptions{Set: true}, thread, "seq.star", src, pre)
	if err != nil {
		return fmt.Errorf("scenario does not compile: %v\n%s", err, src)
	}
	depth := thread.CallStackDepth()
	_, err = starlark.Call(thread, g["scenario"], starlark.Tuple{x}, nil)
	what := fmt.Sprintf("%+v (err=%v)", c, err)
	if e := postConditions(Case{}, what, obs, x, thread, depth, initial); e != nil {
		if !strings.HasPrefix(c.Form, "star-") && c.Form != "kw-then-star-x" && c.N > c.Want && strings.Contains(e.Error(), "not mutable after the outermost call returned") {
			return vk.Known("C06-unpack-too-many-leaks-lock", e)
		}
		return e
	}
	vk.S.Class("seq:" + c.Form)
	if c.N != c.Want && c.N > 0 {
		vk.S.NonTrivial(fmt.Sprintf("%+v", c))
		vk.S.Sample("sequence", c.Form, map[string]any{"case": c, "src": src})
	}
	return nil
}

var subSeq = vk.Register("sequence", checkSeq)

func TestPropSequenceForms(t *testing.T) {
	vk.S.SetExhaustive("sequence-forms-x-collection-x-length-x-arity", true)
	vk.Enum(t, subSeq, func(yield func(SeqCase) bool) {
		var forms []string
		for f := range seqForms {
			forms = append(forms, f)
		}
		sort.Strings(forms)
		i := 0
		for _, coll := range []string{"list", "dict", "set"} {
			for _, f := range forms {
				for n := 0; n <= 4; n++ {
					for want := 0; want <= 4; want++ {
						i++
						if vk.Mine(i) && !yield(SeqCase{coll, n, f, want}) {
							return
						}
					}
				}
			}
		}
	})
}

// ---------------------------------------------------------------- every built-in with the collection in each argument position

type BuiltinCase struct {
	Coll   string `json:"coll"`
	Elems  string `json:"elems"` // ints | mixed | pairs | strings
	Callee string `json:"callee"`
	Pos    int    `json:"pos"`  // argument position of the collection
	Argc   int    `json:"argc"` // total positional arguments
	Nested bool   `json:"nested,omitempty"`
}

func makeElems(kind, elems string) starlark.Value {
	var es []starlark.Value
	switch elems {
	case "ints":
		es = []starlark.Value{starlark.MakeInt(3), starlark.MakeInt(1), starlark.MakeInt(2)}
	case "strings":
		es = []starlark.Value{starlark.String("b"), starlark.String("a")}
	case "pairs":
		es = []starlark.Value{starlark.Tuple{starlark.String("k"), starlark.MakeInt(1)}, starlark.Tuple{starlark.String("j"), starlark.MakeInt(2)}}
	case "mixed":
		// makes element-wise processing fail midway: comparison, hashing, string joining
		es = []starlark.Value{starlark.MakeInt(1), starlark.String("a"), starlark.Tuple{starlark.NewList(nil)}, starlark.None}
	}
	switch kind {
	case "list":
		return starlark.NewList(es)
	case "dict":
		d := starlark.NewDict(len(es))
		for i, e := range es {
			if err := d.SetKey(e, starlark.MakeInt(i)); err != nil {
				d.SetKey(starlark.MakeInt(100+i), e)
			}
		}
		return d
	default:
		s := starlark.NewSet(len(es))
		for i, e := range es {
			if err := s.Insert(e); err != nil {
				s.Insert(starlark.MakeInt(100 + i))
			}
		}
		return s
	}
}

// callees: universe built-ins and methods of sample receivers, discovered at run time.
func callees() map[string]func() starlark.Value {
	out := map[string]func() starlark.Value{}
	for name, v := range starlark.Universe {
		if _, ok := v.(*starlark.Builtin); ok {
			v := v
			out[name] = func() starlark.Value { return v }
		}
	}
	recvs := map[string]func() starlark.Value{
		"str":   func() starlark.Value { return starlark.String(",") },
		"bytes": func() starlark.Value { return starlark.Bytes("ab") },
		"list":  func() starlark.Value { return starlark.NewList([]starlark.Value{starlark.MakeInt(1)}) },
		"dict": func() starlark.Value {
			d := starlark.NewDict(1)
			d.SetKey(starlark.String("z"), starlark.MakeInt(1))
			return d
		},
		"set": func() starlark.Value {
			s := starlark.NewSet(1)
			s.Insert(starlark.MakeInt(1))
			return s
		},
	}
	for rn, mk := range recvs {
		for _, m := range mk().(starlark.HasAttrs).AttrNames() {
			mk, m := mk, m
			out[rn+"."+m] = func() starlark.Value { v, _ := mk().(starlark.HasAttrs).Attr(m); return v }
		}
	}
	for name, fn := range opFns() {
		fn := fn
		out["op:"+name] = func() starlark.Value { return fn }
	}
	for _, m := range []string{"encode", "encode_indent", "decode", "indent"} {
		m := m
		if v, ok := sjson.Module.Members[m]; ok {
			out["json."+m] = func() starlark.Value { return v }
		}
	}
	return out
}

// Operators and comprehensions over two collections, as callees "op:<text>" (compiled Starlark functions):
// set comparison and set algebra iterate an operand, dict/set equality walks both.
var opTexts = []string{"a <= b", "a < b", "a >= b", "a > b", "a == b", "a != b", "a | b", "a & b", "a - b", "a ^ b", "a + b", "a in b", "a not in b",
	"[x for x in a if x in b]", "{x: 1 for x in a if x not in b}", "[(x, y) for x in a for y in b]", "sorted(a) == sorted(b)", "(a, [a]) == (b, [b])", "[a] < [b]", "{1: a} == {1: b}"}

var (
	opOnce sync.Once
	opMap  map[string]starlark.Value
)

func opFns() map[string]starlark.Value {
	opOnce.Do(func() {
		var sb strings.Builder
		for i, o := range opTexts {
			fmt.Fprintf(&sb, "def op_%d(a, b, c = None):\n    return %s\n", i, o)
		}
		g, err := starlark.ExecFileOptions(&syntax.FileOptions{Set: true}, &starlark.Thread{}, "ops.star", sb.String(), nil)
		if err != nil {
			panic("ops.star: " + err.Error())
		}
		opMap = map[string]starlark.Value{}
		for i, o := range opTexts {
			opMap[o] = g[fmt.Sprintf("op_%d", i)]
		}
	})
	return opMap
}

func checkBuiltin(c BuiltinCase) error {
	mk, ok := callees()[c.Callee]
	if !ok {
		return fmt.Errorf("unknown callee %s", c.Callee)
	}
	fn := mk()
	x := makeElems(c.Coll, c.Elems)
	initial := snapshot(x)
	args := make(starlark.Tuple, c.Argc)
	for i := range args {
		args[i] = starlark.MakeInt(1)
		if i == c.Pos {
			args[i] = x
			if c.Nested {
				// the collection is an element of the operand: built-ins that walk nested iterables (dict, update, zip of
				// rows, join, min/max/sorted over lists, sum-like folds) iterate it as a pair / row / item
				args[i] = starlark.NewList([]starlark.Value{x})
			}
		}
	}
	if strings.HasPrefix(c.Callee, "op:") {
		// the other operand: an equal collection of the same kind (2 arguments), the collection itself (3 arguments)
		var other starlark.Value = x
		if c.Argc < 3 {
			other = makeElems(c.Coll, c.Elems)
		}
		for i := range args {
			if i != c.Pos {
				args[i] = other
			}
		}
		if c.Argc == 1 {
			args = starlark.Tuple{x, makeElems(c.Coll, "ints")}
		}
	}
	thread := &starlark.Thread{Name: "c06b"}
	thread.SetMaxExecutionSteps(100000)
	depth := thread.CallStackDepth()
	var err error
	var pan any
	func() {
		defer func() { pan = recover() }()
		_, err = starlark.Call(thread, fn, args, nil)
	}()
	if pan != nil {
		// crashes are C02's business; the lock state after a panic still is ours
		vk.S.Class("builtin-panicked")
	}
	// The callee may legitimately have mutated x when x is its receiver-like argument (e.g. list.extend(x) does not);
	// x is only ever passed as an operand, never as the receiver, so it must be unchanged.
	what := fmt.Sprintf("%+v (err=%v panic=%v)", c, err, pan)
	if e := postConditions(Case{}, what, &observation{}, x, thread, depth, initial); e != nil {
		return e
	}
	vk.S.Class("builtin-calls")
	if err != nil {
		vk.S.NonTrivial(fmt.Sprintf("%+v", c))
		if c.Elems == "mixed" {
			vk.S.Sample("builtin", "failed-midway", c)
		}
	}
	return nil
}

var subBuiltin = vk.Register("builtin-operand", checkBuiltin)

func TestPropBuiltins(t *testing.T) {
	vk.S.SetExhaustive("all-builtins-and-methods-x-collection-x-element-kinds-x-argument-position", true)
	var names []string
	for n := range callees() {
		if n == "fail" || n == "print" {
			continue
		}
		names = append(names, n)
	}
	sort.Strings(names)
	vk.Enum(t, subBuiltin, func(yield func(BuiltinCase) bool) {
		i := 0
		for _, n := range names {
			for _, coll := range []string{"list", "dict", "set"} {
				for _, el := range []string{"ints", "strings", "pairs", "mixed"} {
					for argc := 1; argc <= 3; argc++ {
						for pos := 0; pos < argc; pos++ {
							i++
							if vk.Mine(i) && !yield(BuiltinCase{coll, el, n, pos, argc, false}) {
								return
							}
							if !strings.HasPrefix(n, "op:") && argc <= 2 {
								i++
								if vk.Mine(i) && !yield(BuiltinCase{coll, el, n, pos, argc, true}) {
									return
								}
							}
						}
					}
				}
			}
		}
	})
}

// ---------------------------------------------------------------- Go push iterators

type PushCase struct {
	Coll  string `json:"coll"`
	N     int    `json:"n"`
	API   string `json:"api"`  // method | generic
	Stop  int    `json:"stop"` // break after this many elements (0 = run to the end)
	Mut   string `json:"mut"`
	Panic bool   `json:"panic"` // leave by panicking inside the loop body
}

func checkPush(c PushCase) error {
	mu := findMutator(c.Coll, c.Mut)
	if mu == nil {
		return fmt.Errorf("unknown mutator")
	}
	x := makeColl(c.Coll, c.N)
	initial := snapshot(x)
	th := &starlark.Thread{Name: "c06p"}
	var viol string
	seen := 0
	bodyFn := func() bool {
		seen++
		before := snapshot(x)
		e := mu.do(th, x)
		if after := snapshot(x); after != before {
			viol = fmt.Sprintf("mutation %s inside a push iterator changed the collection: %s -> %s", mu.name, before, after)
		} else if e == nil {
			viol = fmt.Sprintf("mutation %s inside a push iterator returned no error", mu.name)
		}
		if c.Panic && seen == c.Stop {
			panic("boom")
		}
		return !(c.Stop > 0 && seen == c.Stop)
	}
	func() {
		defer func() {
			// the only panic expected here is the loop body's own "boom"
			if r := recover(); r != nil && fmt.Sprint(r) != "boom" {
				viol = fmt.Sprintf("the push iterator panicked: %v", r)
			}
		}()
		switch {
		case c.API == "elements-of-dict":
			// *Dict has no Elements method: the generic function's own iterator-based fallback
			for range starlark.Elements(x.(starlark.Iterable)) {
				if !bodyFn() {
					break
				}
			}
		case c.API == "plain-iterable":
			// a host value that only implements Iterable (no push-iterator method): the fallback again
			for range starlark.Elements(plainIterable{x.(starlark.Iterable)}) {
				if !bodyFn() {
					break
				}
			}
		case c.API == "plain-mapping":
			for range starlark.Entries(plainMapping{x.(*starlark.Dict)}) {
				if !bodyFn() {
					break
				}
			}
		case c.API == "generic" && c.Coll == "dict":
			for range starlark.Entries(x.(*starlark.Dict)) {
				if !bodyFn() {
					break
				}
			}
		case c.API == "generic":
			for range starlark.Elements(x.(starlark.Iterable)) {
				if !bodyFn() {
					break
				}
			}
		case c.Coll == "list":
			for range x.(*starlark.List).Elements() {
				if !bodyFn() {
					break
				}
			}
		case c.Coll == "dict":
			for range x.(*starlark.Dict).Entries() {
				if !bodyFn() {
					break
				}
			}
		default:
			for range x.(*starlark.Set).Elements() {
				if !bodyFn() {
					break
				}
			}
		}
	}()
	if viol != "" {
		return fmt.Errorf("%+v: %s", c, viol)
	}
	if e := postConditions(Case{}, fmt.Sprintf("%+v", c), &observation{}, x, th, 0, initial); e != nil {
		return e
	}
	vk.S.Class("push:" + c.API)
	if c.N > 0 && (c.Stop > 0 || c.Panic) {
		vk.S.NonTrivial(fmt.Sprintf("%+v", c))
	}
	return nil
}

// plainIterable hides everything but the Iterable interface of a collection.
type plainIterable struct{ it starlark.Iterable }

func (p plainIterable) String() string             { return "plainIterable" }
func (p plainIterable) Type() string               { return "plainIterable" }
func (p plainIterable) Freeze()                    {}
func (p plainIterable) Truth() starlark.Bool       { return true }
func (p plainIterable) Hash() (uint32, error)      { return 0, fmt.Errorf("unhashable") }
func (p plainIterable) Iterate() starlark.Iterator { return p.it.Iterate() }

// plainMapping is an IterableMapping without an Entries method.
type plainMapping struct{ d *starlark.Dict }

func (p plainMapping) String() string                                     { return "plainMapping" }
func (p plainMapping) Type() string                                       { return "plainMapping" }
func (p plainMapping) Freeze()                                            {}
func (p plainMapping) Truth() starlark.Bool                               { return true }
func (p plainMapping) Hash() (uint32, error)                              { return 0, fmt.Errorf("unhashable") }
func (p plainMapping) Iterate() starlark.Iterator                         { return p.d.Iterate() }
func (p plainMapping) Get(k starlark.Value) (starlark.Value, bool, error) { return p.d.Get(k) }
func (p plainMapping) Items() []starlark.Tuple                            { return p.d.Items() }

var subPush = vk.Register("push-iterator", checkPush)

func TestPropPushIterators(t *testing.T) {
	vk.S.SetExhaustive("push-iterators-x-collection-x-mutator-x-stop-point", true)
	vk.Enum(t, subPush, func(yield func(PushCase) bool) {
		i := 0
		for _, coll := range []string{"list", "dict", "set"} {
			apis := []string{"method", "generic", "plain-iterable"}
			if coll == "dict" {
				apis = append(apis, "elements-of-dict", "plain-mapping")
			}
			for _, api := range apis {
				for _, mut := range mutNames(coll) {
					for _, n := range []int{0, 1, 3} {
						for stop := 0; stop <= n; stop++ {
							for _, pan := range []bool{false, true} {
								if pan && stop == 0 {
									continue
								}
								i++
								if vk.Mine(i) && !yield(PushCase{coll, n, api, stop, mut, pan}) {
									return
								}
							}
						}
					}
				}
			}
		}
	})
}

// Random scenarios with larger collections and later action points.
func TestPropRandomScenarios(t *testing.T) {
	vk.Rapid(t, subScenario, vk.N(300, 15000), func(t *rapid.T) Case {
		coll := []string{"list", "dict", "set"}[vk.Uniform(t, 3)]
		ms := mutNames(coll)
		n := vk.Uniform(t, 9)
		c := Case{Coll: coll, N: n, Construct: constructs[vk.Uniform(t, len(constructs))], Mut: ms[vk.Uniform(t, len(ms))],
			Exit: exits[vk.Uniform(t, len(exits))], K: 1 + vk.Uniform(t, n+2)}
		if vk.Chance(t, 0.3) {
			c.Cut = 1 + vk.Uniform(t, 400)
		}
		return c
	})
}

func TestReplay(t *testing.T) { vk.Replay(t) }
