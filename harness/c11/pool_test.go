package c11

import (
	"math"
	"math/big"
	"strings"

	"go.starlark.net/starlark"
	"verif/harness/vk"
)

// The fixed pools of the exhaustive sub-checks.  core ⊂ full.  Every entry that has an equal
// partner in another representation is there on purpose (1 / 1.0, 2^64 / 2.0^64, ±0.0, two NaNs,
// re-parameterised ranges, structs built in another field order, one instant in two zones ...).

func bigPow10(n int) *big.Int { return new(big.Int).Exp(big.NewInt(10), big.NewInt(int64(n)), nil) }

func poolNumbers(core bool) []V {
	p53, p63, p64 := pow2(53), pow2(63), pow2(64)
	e300 := exactInt(1e300)
	out := []V{
		vInt64(0), vFloat(0), vFloat(math.Copysign(0, -1)),
		vInt64(1), vFloat(1), vInt64(-1), vFloat(-1),
		vInt64(2), vFloat(2), vFloat(1.5),
		vInt(pow2(31)), vFloat(0x1p31), vInt(addInt(pow2(31), -1)),
		vInt(addInt(p53, -1)), vFloat(0x1p53 - 1),
		vInt(p53), vFloat(0x1p53),
		vInt(addInt(p53, 1)), // not representable: strictly between 2.0^53 and 2.0^53+2
		vInt(addInt(p53, 2)), vFloat(0x1p53 + 2),
		vInt(p64), vFloat(0x1p64), vInt(addInt(p64, 1)), vInt(addInt(p64, -1)),
		vInt(e300), vFloat(1e300), vInt(addInt(e300, 1)),
		vFloat(math.Inf(1)), vFloat(math.Inf(-1)),
		vFloat(math.NaN()), vFloatBits(0xfff8000000000001), // a second NaN: sign bit and payload differ
	}
	if core {
		return out
	}
	out = append(out,
		vInt64(3), vFloat(0.5), vFloat(-1.5), vFloat(-0.5),
		vInt(new(big.Int).Neg(pow2(31))), vFloat(-0x1p31), vInt(addInt(new(big.Int).Neg(pow2(31)), -1)),
		vInt(pow2(32)), vFloat(0x1p32), vInt(addInt(pow2(32), 1)),
		vInt(new(big.Int).Neg(p53)), vFloat(-0x1p53), vInt(addInt(new(big.Int).Neg(p53), -1)),
		vFloat(math.Nextafter(0x1p53, 0)), // 2^53 - 1 is representable; this is 2^53-1 too
		vInt(addInt(p63, -1)), vInt(p63), vFloat(0x1p63), vInt(new(big.Int).Neg(p63)), vFloat(-0x1p63),
		vFloat(math.Nextafter(0x1p64, 0)), vInt(exactInt(math.Nextafter(0x1p64, 0))),
		vFloat(math.Nextafter(0x1p64, math.Inf(1))),
		vInt(new(big.Int).Neg(p64)), vFloat(-0x1p64),
		vInt(pow2(96)), vFloat(0x1p96), vInt(addInt(pow2(96), 1)), // low word zero / one
		vInt(new(big.Int).Neg(pow2(96))), vFloat(-0x1p96),
		vInt(bigPow10(300)), // 10^300 != 1e300
		vFloat(math.MaxFloat64), vInt(exactInt(math.MaxFloat64)), vInt(pow2(1024)), vInt(new(big.Int).Neg(pow2(1024))),
		vFloat(5e-324), vFloat(-5e-324), vFloat(0x1p-1022),
		vFloatBits(0x7ff0000000000001), // signalling NaN pattern
	)
	return out
}

func poolStrings(core bool) []V {
	a := func(n int) string { return strings.Repeat("a", n) }
	out := []V{
		vStr(""), vStr("a"), vStr("b"), vStr("ab"),
		vStr(a(11)), vStr(a(12)), vStr(a(13)),
		vStr(a(11) + "b"), vStr(a(12) + "b"),
		vBytes(""), vBytes("a"), vBytes(a(12)),
	}
	if core {
		return out
	}
	out = append(out,
		vStr("aa"), vStr("1"), vStr("a\x00"), vStr("é"), vStr("\xff"), vStr("ÿ"), vStr("z"),
		vStr(a(10)), vStr(a(10)+"b"), vStr(a(30)), vStr(a(29)+"b"), vStr("b"+a(29)),
		vStr("hello, world"), vStr("hello, world!"), vStr("hello, worle"),
		vBytes("b"), vBytes("ab"), vBytes(a(11)), vBytes(a(13)), vBytes(a(11)+"b"), vBytes("\xff"), vBytes("\xc3\xa9"),
		vBytes("a\x00"), vBytes(a(30)),
	)
	return out
}

func poolOther(core bool) []V {
	L := starlark.CompareLimit
	one, onef := vInt64(1), vFloat(1)
	out := []V{
		vNone(), vBool(false), vBool(true),
		vTuple(), vTuple(one), vTuple(onef), vTuple(one, vInt64(2)), vTuple(one, vFloat(2)), vTuple(vInt64(2)),
		vTuple(vFloat(math.NaN())), vTuple(vStr("a")), vTuple(vList(one)),
		vTuple(vInt(pow2(64))), vTuple(vFloat(0x1p64)),
		vList(), vList(one), vList(onef), vList(one, vInt64(2)), vList(vInt64(2)),
		nestIn("tuple", one, L-1), nestIn("tuple", onef, L-1), nestIn("tuple", one, L), nestIn("tuple", onef, L),
		nestIn("list", one, L-1), nestIn("list", one, L),
		vRange(0, 0, 1), vRange(0, 3, 1), vRange(0, 6, 2), vRange(0, 5, 2), vRange(5, 5, 3),
		vStruct("struct", []string{"a", "b"}, one, vInt64(2)), vStruct("struct", []string{"b", "a"}, vInt64(2), onef),
		vStruct("struct", []string{"a"}, one),
		vFn(0), vFn(1), vFn(2), vFn(3),
		vBi(0), vBi(2), vBi(3), vBi(4),
		vTime(1000000000, 0, 0), vTime(1000000000, 0, 19800), vTime(1000000000, 1, 0),
		vDur(0), vDur(3600e9),
	}
	if core {
		return out
	}
	two := vInt64(2)
	out = append(out,
		vTuple(one, one), vTuple(one, vStr("a")), vTuple(one, vNone()), vTuple(vNone()), vTuple(vBool(true)), vTuple(vInt64(0)),
		vTuple(vTuple(one)), vTuple(vTuple(onef)), vTuple(vTuple()), vTuple(one, two, vInt64(3)), vTuple(two, one),
		vTuple(vFloat(0)), vTuple(vFloat(math.Copysign(0, -1))), vTuple(vFloatBits(0xfff8000000000001)),
		vTuple(vStr(strings.Repeat("a", 12))), vTuple(vBytes("a")), vTuple(vFn(0)), vTuple(vFn(2)),
		vTuple(vFloat(math.Inf(1))), vTuple(vInt(addInt(pow2(53), 1))), vTuple(vFloat(0x1p53)),
		vList(vList(one)), vList(vList(onef)), vList(one, vList(two)), vList(two, one), vList(vStr("a")), vList(vNone()),
		vList(vFloat(math.NaN())), vList(vTuple(one)), vList(vFn(0)), vList(one, two, vInt64(3)),
		nestIn("tuple", one, L-2), nestIn("tuple", one, L+1), nestIn("tuple", onef, L+1), nestIn("tuple", two, L-1), nestIn("tuple", two, L),
		nestIn("list", onef, L-1), nestIn("list", onef, L), nestIn("list", one, L+1), nestIn("list", two, L-1),
		vTuple(nestIn("list", one, L-2)), vList(nestIn("tuple", one, L-2)),
		vTuple(nestIn("tuple", one, L-2), two), // same depth, longer
		vRange(0, 3, 2), vRange(0, 4, 2), vRange(1, 2, 5), vRange(1, 3, 7), vRange(10, 0, -3), vRange(10, -1, -3), vRange(3, 0, 1),
		vRange(0, 1, 1), vRange(2, 0, -1), vRange(-5, -5, -1),
		vStruct("struct", []string{"a", "b"}, onef, two), vStruct("struct", nil),
		V{K: "struct", S: "struct", Names: []string{"b", "a"}, E: []V{two, one}, N: 1}, // FromStringDict
		vStruct("point", []string{"a", "b"}, one, two), vStruct("point", []string{"b", "a"}, two, one),
		vStruct("struct", []string{"a"}, vList(one)), vStruct("struct", []string{"a"}, vList(onef)),
		vStruct("struct", []string{"a"}, two), vStruct("struct", []string{"b"}, one),
		vStruct("struct", []string{"a"}, vStruct("struct", []string{"a"}, one)),
		vStruct("struct", []string{"a"}, nestIn("tuple", one, L-1)), // value at the depth limit
		vStruct("struct", []string{"a"}, nestIn("tuple", one, L-2)),
		vFn(4), vFn(5), vFn(6),
		vBi(1), vBi(5), vBi(6), vBi(7), vBi(8), vBi(9), vBi(10),
		vTime(0, 0, 0), vTime(1000000000, 0, -3600), vTime(999999999, 999999999, 0),
		vTime(32503680000, 0, 0), vTime(32503680000, 0, 7200), vTime(32503680000, 5, 0), // year 3000: outside the int64 UnixNano range
		vTime(-62135596800, 0, 0), // the zero time.Time instant
		vTime(-9223372037, 145224192, 0), vTime(9223372036, 854775807, 0),
		vDur(1), vDur(-1), vDur(3600e9+1), vDur(math.MaxInt64), vDur(math.MinInt64), vDur(1<<32),
		vDict(), vDict(one, vStr("a")), vDict(onef, vStr("a")), vDict(one, vStr("a"), two, vStr("b")), vDict(two, vStr("b"), one, vStr("a")),
		vDict(one, vStr("b")), vDict(one, vList(one)), vDict(one, vList(onef)), vDict(vStr("a"), one),
		vDict(vTuple(one), one), vDict(vTuple(onef), onef),
		vDict(one, vStr("a"), two, vStr("c")), vDict(one, vStr("a"), vInt64(3), vStr("b")), vDict(vInt64(3), vStr("b"), onef, vStr("a")),
		vSet(), vSet(one), vSet(onef), vSet(one, two), vSet(two, one), vSet(two), vSet(vStr("a")), vSet(vTuple(one)), vSet(vTuple(onef)),
		vSet(one, vInt64(3)), vSet(vInt64(3), onef), vSet(one, two, vInt64(3)), vSet(vInt64(3), two, onef), vSet(one, two, vInt64(4)),
	)
	return out
}

func pool(core bool) []V {
	var p []V
	p = append(p, poolNumbers(core)...)
	p = append(p, poolStrings(core)...)
	p = append(p, poolOther(core)...)
	return p
}

// poolExtra (thorough tier): the +-2 neighbourhoods of the representation boundaries, each integer also as
// its nearest float and that float's two neighbours.
func poolExtra() []V {
	seen := map[string]bool{}
	for _, v := range pool(false) {
		seen[v.rep()] = true
	}
	var out []V
	add := func(v V) {
		if !seen[v.rep()] {
			seen[v.rep()] = true
			out = append(out, v)
		}
	}
	for _, k := range []uint{24, 31, 32, 52, 53, 54, 63, 64, 65} {
		for _, neg := range []bool{false, true} {
			for d := int64(-2); d <= 2; d++ {
				x := addInt(pow2(k), d)
				if neg {
					x = new(big.Int).Neg(x)
				}
				add(vInt(x))
				f, _ := new(big.Float).SetInt(x).Float64()
				add(vFloat(f))
				if d == 0 {
					add(vFloat(math.Nextafter(f, math.Inf(1))))
					add(vFloat(math.Nextafter(f, math.Inf(-1))))
				}
			}
		}
	}
	return out
}

// searchPool is the pool of the exhaustive pair / triple sub-checks in the current tier.
func searchPool() []V {
	p := pool(false)
	if vk.Thorough() {
		p = append(p, poolExtra()...)
	}
	return p
}

// sortAtoms: the small universe for exhaustive sequences under sorted/min/max.  Contains ties
// between distinguishable values, a non-representable neighbour and the two NaNs.
func sortAtoms() []V {
	return []V{
		vInt64(1), vFloat(1), vInt64(2), vFloat(0), vFloat(math.Copysign(0, -1)),
		vInt(pow2(53)), vFloat(0x1p53), vInt(addInt(pow2(53), 1)),
		vFloat(math.NaN()), vFloatBits(0xfff8000000000001), vFloat(math.Inf(1)),
	}
}
