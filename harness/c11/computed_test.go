package c11

// computed: an integer that is the *result of an operation* on big operands must be interchangeable
// with the same integer written as a literal: equal both ways, equal hashes, one dict entry, one set
// member, and ordered consistently - whatever internal representation the operation left it in.

import (
	"fmt"
	"math/big"
	"testing"

	"go.starlark.net/starlark"
	"go.starlark.net/syntax"
	"verif/harness/vk"
)

type ComputedCase struct {
	N      string `json:"n"`      // the integer (decimal)
	Recipe string `json:"recipe"` // how it is computed
}

var computedRecipes = []string{"sub", "add", "xor", "xor-neg", "and", "or-and", "shift", "floordiv", "mod", "mul-div", "neg-neg", "not-not", "parse", "float", "unary-plus", "lsh-rsh-neg", "min", "max", "sum-list"}

func mk(n *big.Int) starlark.Value { return starlark.MakeBigInt(n) }

func bin(op syntax.Token, x, y starlark.Value) (starlark.Value, error) {
	return starlark.Binary(op, x, y)
}

func computeTwin(n *big.Int, recipe string) (starlark.Value, error) {
	B := new(big.Int).Lsh(big.NewInt(1), 70)
	B.Add(B, big.NewInt(12345))
	nB := new(big.Int).Add(n, B)
	switch recipe {
	case "sub": // (B + n) - B
		return bin(syntax.MINUS, mk(nB), mk(B))
	case "add": // (B + n) + (-B)
		return bin(syntax.PLUS, mk(nB), mk(new(big.Int).Neg(B)))
	case "xor": // B ^ (B ^ n)
		inner := new(big.Int).Xor(B, n)
		return bin(syntax.CIRCUMFLEX, mk(B), mk(inner))
	case "xor-neg": // (-B) ^ ((-B) ^ n)
		nb := new(big.Int).Neg(B)
		inner := new(big.Int).Xor(nb, n)
		return bin(syntax.CIRCUMFLEX, mk(nb), mk(inner))
	case "and": // (n & M) where M = all ones above: n & -1 with a big -1 substitute: (n | 0) & (2^200-1) only for n >= 0
		if n.Sign() < 0 {
			M := new(big.Int).Neg(big.NewInt(1)) // -1 & n == n, operand order big first
			return bin(syntax.AMP, mk(new(big.Int).Or(new(big.Int).Lsh(M, 90), n)), mk(n))
		}
		M := new(big.Int).Sub(new(big.Int).Lsh(big.NewInt(1), 200), big.NewInt(1))
		return bin(syntax.AMP, mk(M), mk(n))
	case "or-and": // ((B<<80) | n') & mask  for n >= 0 below 2^70
		if n.Sign() < 0 || n.BitLen() > 70 {
			return nil, nil
		}
		hi := new(big.Int).Lsh(B, 80)
		mask := new(big.Int).Sub(new(big.Int).Lsh(big.NewInt(1), 72), big.NewInt(1))
		v, err := bin(syntax.PIPE, mk(hi), mk(n))
		if err != nil {
			return nil, err
		}
		return bin(syntax.AMP, v, mk(mask))
	case "shift": // (n << 100) >> 100
		v, err := bin(syntax.LTLT, mk(n), starlark.MakeInt(100))
		if err != nil {
			return nil, err
		}
		return bin(syntax.GTGT, v, starlark.MakeInt(100))
	case "lsh-rsh-neg": // ((n << 65) - 1) >> 65 == n - 1 ... keep it simple: ((n*2^65) >> 65)
		v, err := bin(syntax.STAR, mk(n), mk(new(big.Int).Lsh(big.NewInt(1), 65)))
		if err != nil {
			return nil, err
		}
		return bin(syntax.GTGT, v, starlark.MakeInt(65))
	case "floordiv": // (n * B) // B
		return bin(syntax.SLASHSLASH, mk(new(big.Int).Mul(n, B)), mk(B))
	case "mod": // (B*7 + n) % B for 0 <= n < B ; for negative n: (n - B*7) % (-B)
		if n.CmpAbs(B) >= 0 {
			return nil, nil
		}
		if n.Sign() >= 0 {
			return bin(syntax.PERCENT, mk(new(big.Int).Add(new(big.Int).Mul(B, big.NewInt(7)), n)), mk(B))
		}
		return bin(syntax.PERCENT, mk(new(big.Int).Sub(n, new(big.Int).Mul(B, big.NewInt(7)))), mk(new(big.Int).Neg(B)))
	case "mul-div": // (n * B * B) // (B * B)
		bb := new(big.Int).Mul(B, B)
		return bin(syntax.SLASHSLASH, mk(new(big.Int).Mul(n, bb)), mk(bb))
	case "neg-neg":
		v, err := starlark.Unary(syntax.MINUS, mk(new(big.Int).Neg(n)))
		return v, err
	case "not-not": // ~(~n)
		v, err := starlark.Unary(syntax.TILDE, mk(new(big.Int).Not(n)))
		return v, err
	case "unary-plus":
		return starlark.Unary(syntax.PLUS, mk(n))
	case "parse":
		return starlark.Call(&starlark.Thread{}, starlark.Universe["int"], starlark.Tuple{starlark.String(n.String())}, nil)
	case "float": // int(float(n)) when n is exactly representable
		f, acc := new(big.Float).SetInt(n).Float64()
		if acc != big.Exact {
			return nil, nil
		}
		return starlark.Call(&starlark.Thread{}, starlark.Universe["int"], starlark.Tuple{starlark.Float(f)}, nil)
	case "min": // min(n, n + B)
		return starlark.Call(&starlark.Thread{}, starlark.Universe["min"], starlark.Tuple{mk(nB), mk(n)}, nil)
	case "max":
		return starlark.Call(&starlark.Thread{}, starlark.Universe["max"], starlark.Tuple{mk(new(big.Int).Sub(n, B)), mk(n)}, nil)
	case "sum-list": // sorted([n + B, n])[0]
		l, err := starlark.Call(&starlark.Thread{}, starlark.Universe["sorted"], starlark.Tuple{starlark.NewList([]starlark.Value{mk(nB), mk(n)})}, nil)
		if err != nil {
			return nil, err
		}
		return l.(*starlark.List).Index(0), nil
	}
	return nil, fmt.Errorf("unknown recipe")
}

func checkComputed(c ComputedCase) error {
	n, ok := new(big.Int).SetString(c.N, 10)
	if !ok {
		return fmt.Errorf("malformed case")
	}
	got, err := computeTwin(n, c.Recipe)
	if err != nil {
		return fmt.Errorf("%s for %s failed: %v", c.Recipe, c.N, err)
	}
	if got == nil {
		vk.S.Discard()
		return nil
	}
	lit := mk(n)
	what := fmt.Sprintf("%s computed by %q", c.N, c.Recipe)
	if s := got.String(); s != c.N {
		return fmt.Errorf("%s prints as %s", what, s)
	}
	for _, pair := range [][2]starlark.Value{{got, lit}, {lit, got}} {
		eq, err := starlark.Equal(pair[0], pair[1])
		if err != nil || !eq {
			return fmt.Errorf("%s is not equal to the literal (eq=%v err=%v)", what, eq, err)
		}
		for _, op := range []syntax.Token{syntax.LT, syntax.GT, syntax.NEQ} {
			if r, err := starlark.Compare(op, pair[0], pair[1]); err != nil || r {
				return fmt.Errorf("%s %v literal = %v (err=%v)", what, op, r, err)
			}
		}
		for _, op := range []syntax.Token{syntax.LE, syntax.GE, syntax.EQL} {
			if r, err := starlark.Compare(op, pair[0], pair[1]); err != nil || !r {
				return fmt.Errorf("%s %v literal = %v (err=%v)", what, op, r, err)
			}
		}
	}
	h1, e1 := got.Hash()
	h2, e2 := lit.Hash()
	if e1 != nil || e2 != nil || h1 != h2 {
		return fmt.Errorf("%s hashes to %#x, the literal to %#x (errs %v %v)", what, h1, h2, e1, e2)
	}
	d := starlark.NewDict(2)
	d.SetKey(lit, starlark.String("lit"))
	if v, found, _ := d.Get(got); !found || v != starlark.String("lit") {
		return fmt.Errorf("%s does not find the literal's dict entry", what)
	}
	d.SetKey(got, starlark.String("got"))
	if d.Len() != 1 {
		return fmt.Errorf("%s and the literal are two dict keys: %v", what, d)
	}
	st := starlark.NewSet(2)
	st.Insert(got)
	if has, _ := st.Has(lit); !has {
		return fmt.Errorf("the literal is not found in a set holding %s", what)
	}
	st.Insert(lit)
	if st.Len() != 1 {
		return fmt.Errorf("%s and the literal are two set members", what)
	}
	// and as a float twin when exactly representable
	if f, acc := new(big.Float).SetInt(n).Float64(); acc == big.Exact {
		if v, found, _ := d.Get(starlark.Float(f)); !found || v == nil {
			return fmt.Errorf("the equal float does not find the dict entry of %s", what)
		}
	}
	vk.S.Class("computed:" + c.Recipe)
	if n.IsInt64() && (n.Int64() >= -1<<31 && n.Int64() < 1<<31) {
		vk.S.NonTrivial(c.N + "|" + c.Recipe) // a small result reached through big operands
	}
	return nil
}

var subComputed = vk.Register("computed", checkComputed)

func TestPropComputedTwins(t *testing.T) {
	vk.S.SetExhaustive("computed-twins-targets-x-recipes", true)
	var targets []*big.Int
	for _, v := range []int64{0, 1, -1, 2, -2, -3, 5, -5, 7, 255, -256, 65535, 1<<31 - 1, 1 << 31, -(1 << 31), -(1 << 31) - 1, 1 << 32, 1<<32 - 3, -(1 << 32), 1<<53 + 1, 1<<62 + 1, -(1 << 62)} {
		targets = append(targets, big.NewInt(v))
	}
	for _, k := range []uint{63, 64, 65, 96} {
		for _, d := range []int64{-1, 0, 1} {
			x := new(big.Int).Add(new(big.Int).Lsh(big.NewInt(1), k), big.NewInt(d))
			targets = append(targets, x, new(big.Int).Neg(x))
		}
	}
	vk.Enum(t, subComputed, func(yield func(ComputedCase) bool) {
		i := 0
		for _, n := range targets {
			for _, r := range computedRecipes {
				i++
				if vk.Mine(i) && !yield(ComputedCase{n.String(), r}) {
					return
				}
			}
		}
	})
}
