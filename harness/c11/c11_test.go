// C11: equality, hashing and ordering are mutually coherent.
//
// Sub-checks (each a pure oracle over a JSON case):
//
//	pair    laws over one pair (x, y): reflexivity, symmetry, != as negation, Equal/Compare/operator agreement,
//	        agreement with the reference model of values_test.go, x==y => equal hashes and interchangeability as
//	        dict key / set member (Go API and Starlark source), trichotomy and derived operators on ordered types,
//	        consistent failure elsewhere.
//	triple  transitivity of == and of < (also mixed with ==) over one triple.
//	stable  Hash() of one value: repeated calls, a rebuilt equal value, after runtime.GC(), after Freeze,
//	        after use as a dict key; hashability as the spec lists it.
//	sort    sorted(xs [, key] [, reverse]) is a permutation (identity tags), ordered under the model order, stable.
//	minmax  min/max (iterable or varargs, with and without key) return an input element that is extreme.
//
// Generators: exhaustive pairs and triples over the fixed pools of pool_test.go, exhaustive short sequences
// over a small universe with ties, and rapid-generated values with "twin" (equal, other representation) and
// "perturb" (near miss) transformations.
package c11

import (
	"encoding/json"
	"fmt"
	"math"
	"math/big"
	"runtime"
	"testing"
	"time"

	"go.starlark.net/starlark"
	"go.starlark.net/syntax"
	"pgregory.net/rapid"
	"verif/harness/vk"
)

func TestMain(m *testing.M) {
	vk.Describe("pairs/triples of values and sequences under sorted/min/max checked against laws (reflexive, symmetric, transitive ==; != negation; "+
		"== => equal Hash and interchangeable dict key/set member; Hash stable; trichotomy and derived <=,>,>= on ordered types; transitive <; "+
		"sorted = stable ordered permutation; min/max extreme input element) and against a reference model of ==/< written from doc/spec.md. "+
		"Non-trivial pair = equal values in two representations, or values of two types, or unequal hashable values whose hashes agree in the low 3 bits; "+
		"non-trivial triple = ints and floats within one float ulp of each other, or >=2 equalities across >=2 representations; "+
		"non-trivial sequence = contains a tie between distinguishable elements or mixes int and float; distinct by canonical JSON of the case.",
		"NaN is equal to itself and greater than every other number (property text and floatCmp doc), not the IEEE reading of doc/spec.md",
		"ordered comparison across types (other than int/float), on unordered types (None, range, struct, function, dict) and beyond CompareLimit nesting is only required to fail or succeed consistently",
		"ties under min/max: the spec does not say which element wins, so only membership and extremeness are asserted",
		"sorted(reverse=True) is required to keep equal keys in input order (stable), as the property text says of sorted in general",
		"host-defined Comparable types are not generated")
	vk.Main(m, "C11")
}

// ---------------------------------------------------------------- helpers in Starlark source

const helperSrc = `
def eq(a, b): return a == b
def ne(a, b): return a != b
def lt(a, b): return a < b
def le(a, b): return a <= b
def gt(a, b): return a > b
def ge(a, b): return a >= b
def dict_get(x, y):
    d = {x: "vx"}
    return d[y]
def dict_has(x, y): return y in {x: "vx"}
def set_has(x, y): return y in set([x])
def dict_put(x, y):
    d = {x: "vx"}
    d[y] = "vy"
    return (len(d), d[x])
def set_put(x, y):
    s = set([x])
    s.add(y)
    return len(s)
def first(p): return p[0]
def table_key(table): return lambda i: table[i]
def sorted_p(xs): return sorted(xs)
def sorted_r(xs, r): return sorted(xs, reverse=r)
def sorted_k(xs, k): return sorted(xs, key=k)
def sorted_kr(xs, k, r): return sorted(xs, key=k, reverse=r)
def min_p(xs): return min(xs)
def min_v(xs): return min(*xs)
def min_k(xs, k): return min(xs, key=k)
def min_vk(xs, k): return min(key=k, *xs)
def max_p(xs): return max(xs)
def max_v(xs): return max(*xs)
def max_k(xs, k): return max(xs, key=k)
def max_vk(xs, k): return max(key=k, *xs)
`

var helpers starlark.StringDict

func init() {
	th := &starlark.Thread{Name: "helpers"}
	g, err := starlark.ExecFileOptions(&syntax.FileOptions{Set: true}, th, "helpers.star", helperSrc, nil)
	if err != nil {
		panic(err)
	}
	helpers = g
}

func call(name string, args ...starlark.Value) (starlark.Value, error) {
	th := &starlark.Thread{Name: "c11"}
	return starlark.Call(th, helpers[name], starlark.Tuple(args), nil)
}

func canon(c any) string { b, _ := json.Marshal(c); return string(b) }

// ---------------------------------------------------------------- comparison results

type res struct{ v, err bool }

func (r res) String() string {
	if r.err {
		return "error"
	}
	return fmt.Sprint(r.v)
}

var (
	opTok  = []syntax.Token{syntax.EQL, syntax.NEQ, syntax.LT, syntax.LE, syntax.GT, syntax.GE}
	opName = []string{"eq", "ne", "lt", "le", "gt", "ge"}
	opSym  = []string{"==", "!=", "<", "<=", ">", ">="}
)

const (
	iEQ = iota
	iNE
	iLT
	iLE
	iGT
	iGE
)

func apiCmp(op syntax.Token, x, y starlark.Value) res {
	ok, err := starlark.Compare(op, x, y)
	return res{ok && err == nil, err != nil}
}

func vmCmp(name string, x, y starlark.Value) (res, error) {
	v, err := call(name, x, y)
	if err != nil {
		return res{err: true}, nil
	}
	b, ok := v.(starlark.Bool)
	if !ok {
		return res{}, fmt.Errorf("operator %s returned %s, not a bool", name, v.Type())
	}
	return res{v: bool(b)}, nil
}

// all6 evaluates the six operators on (x, y) through the Go API and through compiled Starlark code
// and demands that the two agree.
func all6(x, y starlark.Value, what string) (r [6]res, err error) {
	for i := range opTok {
		r[i] = apiCmp(opTok[i], x, y)
		vm, err := vmCmp(opName[i], x, y)
		if err != nil {
			return r, err
		}
		if vm != r[i] {
			return r, fmt.Errorf("%s: operator %s gives %v in Starlark code but starlark.Compare gives %v", what, opSym[i], vm, r[i])
		}
	}
	return r, nil
}

// ---------------------------------------------------------------- sub-check: pair

type PairCase struct {
	X V `json:"x"`
	Y V `json:"y"`
}

func checkPair(c PairCase) (err error) {
	defer discardUnbuildable(&err)
	X, Y := c.X, c.Y
	x, y := X.build(), Y.build()
	deep := overDepth(X, Y)
	desc := func() string { return fmt.Sprintf("x=%v y=%v", trunc(x.String()), trunc(y.String())) }
	bad := func(format string, args ...any) error {
		return fmt.Errorf("%s [%s]", fmt.Sprintf(format, args...), desc())
	}

	// -- reflexivity (the same object, and a separately built equal object)
	for _, s := range []struct {
		D V
		v starlark.Value
	}{{X, x}, {Y, y}} {
		selfDeep := overDepth(s.D, s.D)
		for _, other := range []starlark.Value{s.v, s.D.build()} {
			eq, err := starlark.Equal(s.v, other)
			if err != nil {
				if !selfDeep {
					return bad("v == v fails for v=%v: %v", trunc(s.v.String()), err)
				}
				continue
			}
			if !eq {
				return deepKeyKnown(s.D, s.D, bad("== is not reflexive: v == v is False for v=%v", trunc(s.v.String())))
			}
			if ne := apiCmp(syntax.NEQ, s.v, other); ne.err || ne.v {
				return bad("v != v is %v for v=%v", ne, trunc(s.v.String()))
			}
		}
	}

	xy, err := all6(x, y, "x?y")
	if err != nil {
		return bad("%v", err)
	}
	yx, err := all6(y, x, "y?x")
	if err != nil {
		return bad("%v", err)
	}

	// -- equality: total (never fails below the depth limit), symmetric, != its negation, Equal agrees
	for _, r := range [][6]res{xy, yx} {
		if r[iEQ].err != r[iNE].err {
			return bad("== gives %v but != gives %v", r[iEQ], r[iNE])
		}
		if r[iEQ].err {
			if !deep {
				return bad("== fails although neither side is nested to CompareLimit")
			}
		} else if r[iNE].v == r[iEQ].v {
			return bad("!= is not the negation of ==: == gives %v, != gives %v", r[iEQ], r[iNE])
		}
	}
	if xy[iEQ] != yx[iEQ] {
		// Beyond the depth limit one direction may run into the limit before it meets a difference that
		// settles the other direction (dict entries are visited in the left operand's order).
		if !(deep && xy[iEQ].err != yx[iEQ].err) {
			return bad("== is not symmetric: x==y gives %v, y==x gives %v", xy[iEQ], yx[iEQ])
		}
		vk.S.Class("pair/over-depth-error-in-one-direction-only")
	}
	if eq, err := starlark.Equal(x, y); (err != nil) != xy[iEQ].err || (err == nil && eq != xy[iEQ].v) {
		return bad("starlark.Equal gives %v,%v but Compare(EQL) gives %v", eq, err, xy[iEQ])
	}
	want := meq(X, Y)
	for _, r := range []res{xy[iEQ], yx[iEQ]} {
		if !r.err && r.v != want {
			err := bad("x == y gives %v; the values are %s", r, map[bool]string{true: "equal", false: "not equal"}[want])
			if want {
				return deepKeyKnown(X, Y, err)
			}
			return err
		}
	}
	equal := !xy[iEQ].err && xy[iEQ].v

	// -- ordering
	mc, ordered := mcmp(X, Y)
	var nerrDir [2]int
	for d, r := range [][6]res{xy, yx} {
		for i := iLT; i <= iGE; i++ {
			if r[i].err {
				nerrDir[d]++
			}
		}
	}
	nerr := nerrDir[0] + nerrDir[1]
	// all four operators fail or none; and the same in both directions, except beyond the depth limit
	// (For types outside the property's list of ordered types - sets order by inclusion - nothing is demanded beyond the
	// depth limit: set < set may decide by length alone while set <= set has to compare an over-deep element and fails.)
	if (ordered || !deep) && (nerrDir[0]%4 != 0 || nerrDir[1]%4 != 0 || (!deep && nerrDir[0] != nerrDir[1])) {
		return bad("ordered comparisons fail inconsistently: x<y %v, x<=y %v, x>y %v, x>=y %v, y<x %v, y<=x %v, y>x %v, y>=x %v",
			xy[iLT], xy[iLE], xy[iGT], xy[iGE], yx[iLT], yx[iLE], yx[iGT], yx[iGE])
	}
	if ordered {
		if nerr != 0 && !deep {
			return bad("ordered comparison fails on an ordered type (x<y: %v)", xy[iLT])
		}
		if nerr == 0 {
			// laws
			n := b2i(xy[iLT].v) + b2i(equal) + b2i(xy[iGT].v)
			if !xy[iEQ].err && n != 1 {
				return bad("not exactly one of <, ==, > holds: x<y %v, x==y %v, x>y %v", xy[iLT], xy[iEQ], xy[iGT])
			}
			if !xy[iEQ].err {
				if xy[iLE].v != (xy[iLT].v || equal) {
					return bad("x<=y is %v but x<y is %v and x==y is %v", xy[iLE], xy[iLT], xy[iEQ])
				}
				if xy[iGE].v != (xy[iGT].v || equal) {
					return bad("x>=y is %v but x>y is %v and x==y is %v", xy[iGE], xy[iGT], xy[iEQ])
				}
			}
			if yx[iGT].v != xy[iLT].v || yx[iLT].v != xy[iGT].v || yx[iGE].v != xy[iLE].v || yx[iLE].v != xy[iGE].v {
				return bad("x<y %v vs y>x %v; x>y %v vs y<x %v; x<=y %v vs y>=x %v; x>=y %v vs y<=x %v",
					xy[iLT], yx[iGT], xy[iGT], yx[iLT], xy[iLE], yx[iGE], xy[iGE], yx[iLE])
			}
			// model
			if xy[iLT].v != (mc < 0) || xy[iGT].v != (mc > 0) || xy[iLE].v != (mc <= 0) || xy[iGE].v != (mc >= 0) {
				return bad("ordering differs from the reference order (%+d): x<y %v, x<=y %v, x>y %v, x>=y %v", mc, xy[iLT], xy[iLE], xy[iGT], xy[iGE])
			}
		}
	}

	// -- hashing
	hx, errx := x.Hash()
	hy, erry := y.Hash()
	for _, s := range []struct {
		D   V
		err error
	}{{X, errx}, {Y, erry}} {
		if s.D.hashable() != (s.err == nil) {
			return bad("Hash() of a %s value: error %v, but the spec says hashable=%v", s.D.K, s.err, s.D.hashable())
		}
	}
	bothHash := errx == nil && erry == nil
	if equal && (errx == nil) != (erry == nil) {
		return bad("equal values, one hashable and one not")
	}
	if bothHash && !xy[iEQ].err {
		if equal && hx != hy {
			return bad("x == y but Hash() differs: %#x vs %#x", hx, hy)
		}
		if err := keyLaws(x, y, equal, deep, overDepth(X, X)); err != nil {
			return bad("%v", err)
		}
	}

	// -- classification
	cls := "pair:unequal-cross-kind"
	if X.K == Y.K || want {
		a, b := X.family(), Y.family()
		if a > b {
			a, b = b, a
		}
		cls = "pair:" + a + "×" + b
	}
	vk.S.Class(cls)
	nt := false
	switch {
	case want && X.rep() != Y.rep():
		vk.S.Class("pair/equal-across-representations")
		nt = true
	case want:
		vk.S.Class("pair/equal-same-representation")
	default:
		vk.S.Class("pair/unequal")
	}
	if X.K != Y.K {
		nt = true
	}
	if bothHash && !want && hx&7 == hy&7 {
		vk.S.Class("pair/unequal-low3-hash-collision")
		if hx == hy {
			vk.S.Class("pair/unequal-full-hash-collision")
		}
		nt = true
	}
	if ordered {
		vk.S.Class("pair/ordered")
	} else if nerr > 0 {
		vk.S.Class("pair/unordered-fails")
	} else {
		vk.S.Class("pair/unordered-succeeds")
	}
	if deep {
		if xy[iEQ].err {
			vk.S.Class("pair/over-depth-error")
		} else {
			vk.S.Class("pair/over-depth-ok")
		}
	}
	if nt {
		vk.S.NonTrivial("pair" + canon(c))
		vk.S.Sample("pair", cls, c)
	}
	return nil
}

// keyLaws: two hashable values are interchangeable as dict keys and set members iff they are equal.
// deep: comparing x with y may exceed the depth limit; deepX: comparing x with itself may.
func keyLaws(x, y starlark.Value, equal, deep, deepX bool) error {
	vx, vy := starlark.String("vx"), starlark.String("vy")
	fail := func(what string, err error) error {
		if deep {
			return nil
		}
		return fmt.Errorf("%s fails: %v", what, err)
	}
	// Go API
	d := starlark.NewDict(1)
	if err := d.SetKey(x, vx); err != nil {
		return fail("Dict.SetKey(x)", err)
	}
	v, found, err := d.Get(y)
	if err != nil {
		return fail("Dict.Get(y)", err)
	}
	if found != equal || (found && v != vx) {
		return fmt.Errorf("x==y is %v but {x: vx}.Get(y) gives found=%v value=%v", equal, found, v)
	}
	if err := d.SetKey(y, vy); err != nil {
		return fail("Dict.SetKey(y)", err)
	}
	wantLen := 2 - b2i(equal)
	if d.Len() != wantLen {
		return fmt.Errorf("x==y is %v but inserting y into {x: ..} gives %d entries", equal, d.Len())
	}
	if v, found, err := d.Get(x); err != nil && deepX {
		// looking x up compares x with itself
	} else if err != nil || !found || (equal && v != vy) || (!equal && v != vx) {
		return fmt.Errorf("x==y is %v; after d[x]=vx; d[y]=vy, d.Get(x) gives %v, found=%v, err=%v", equal, v, found, err)
	}
	s := starlark.NewSet(1)
	if err := s.Insert(x); err != nil {
		return fail("Set.Insert(x)", err)
	}
	if has, err := s.Has(y); err != nil {
		return fail("Set.Has(y)", err)
	} else if has != equal {
		return fmt.Errorf("x==y is %v but set([x]).Has(y) is %v", equal, has)
	}
	if err := s.Insert(y); err != nil {
		return fail("Set.Insert(y)", err)
	}
	if s.Len() != wantLen {
		return fmt.Errorf("x==y is %v but set([x]) has %d elements after inserting y", equal, s.Len())
	}
	// Starlark source
	if v, err := call("dict_get", x, y); (err == nil) != equal {
		if !(deep && err != nil) {
			return fmt.Errorf("x==y is %v but {x: \"vx\"}[y] gives %v, %v", equal, v, err)
		}
	} else if err == nil && v != vx {
		return fmt.Errorf("{x: \"vx\"}[y] gives %v", v)
	}
	for _, fn := range []string{"dict_has", "set_has"} {
		v, err := call(fn, x, y)
		if err != nil {
			if e := fail(fn, err); e != nil {
				return e
			}
			continue
		}
		if v != starlark.Bool(equal) {
			return fmt.Errorf("x==y is %v but %s (y in {x:..} / y in set([x])) gives %v", equal, fn, v)
		}
	}
	if v, err := call("dict_put", x, y); err != nil {
		if e := fail("d[y] = ..", err); e != nil && !deepX {
			return e
		}
	} else {
		t := v.(starlark.Tuple)
		n, _ := starlark.AsInt32(t[0])
		if n != wantLen || (equal && t[1] != vy) || (!equal && t[1] != vx) {
			return fmt.Errorf("x==y is %v but d={x:\"vx\"}; d[y]=\"vy\" gives len %d and d[x]=%v", equal, n, t[1])
		}
	}
	if v, err := call("set_put", x, y); err != nil {
		if e := fail("set.add(y)", err); e != nil {
			return e
		}
	} else if n, _ := starlark.AsInt32(v); n != wantLen {
		return fmt.Errorf("x==y is %v but s=set([x]); s.add(y) gives len %d", equal, n)
	}
	return nil
}

// Finding C11-dict-set-eq-swallows-depth-error: dictsEqual / setsEqual discard the error of the key lookup,
// so two equal dicts (sets) that have a key nested to CompareLimit or deeper compare *unequal* (silently,
// even a dict with itself) instead of failing like the key itself does.  The predicate: the model says
// equal, == said False, and a dict key / set element nested >= CompareLimit occurs in both operands.
const findingDeepKey = "C11-dict-set-eq-swallows-depth-error"

func (v V) hasDeepKey() bool {
	switch v.K {
	case "set":
		for _, e := range v.E {
			if e.nest() >= starlark.CompareLimit {
				return true
			}
		}
	case "dict":
		for i := 0; i+1 < len(v.E); i += 2 {
			if v.E[i].nest() >= starlark.CompareLimit || v.E[i+1].hasDeepKey() {
				return true
			}
		}
	case "tuple", "list", "struct":
		for _, e := range v.E {
			if e.hasDeepKey() {
				return true
			}
		}
	}
	return false
}

func deepKeyKnown(X, Y V, err error) error {
	if X.hasDeepKey() && Y.hasDeepKey() {
		return vk.Known(findingDeepKey, err)
	}
	return err
}

func trunc(s string) string {
	if len(s) > 120 {
		return s[:120] + "..."
	}
	return s
}

var subPair = vk.Register("pair", checkPair)

// ---------------------------------------------------------------- sub-check: triple

type TripleCase struct {
	X V `json:"x"`
	Y V `json:"y"`
	Z V `json:"z"`
}

// tripleObs is what the laws need to know about a triple: the outcomes of == and < on every ordered pair
// of its members, and the members' hashes.
type tripleObs struct {
	eq, lt [3][3]res
	h      [3]uint32
	hok    [3]bool
}

func checkTriple(c TripleCase) (err error) {
	defer discardUnbuildable(&err)
	D := [3]V{c.X, c.Y, c.Z}
	v := [3]starlark.Value{D[0].build(), D[1].build(), D[2].build()}
	var o tripleObs
	for i := 0; i < 3; i++ {
		for j := 0; j < 3; j++ {
			o.eq[i][j] = apiCmp(syntax.EQL, v[i], v[j])
			o.lt[i][j] = apiCmp(syntax.LT, v[i], v[j])
		}
		h, err := v[i].Hash()
		o.h[i], o.hok[i] = h, err == nil
	}
	flags, err := tripleLaws(D, &o)
	if err != nil {
		return err
	}
	tripleClasses(flags, 1)
	if flags&(ntChain|ntUlp) != 0 {
		vk.S.NonTrivial("triple" + canon(c))
		vk.S.Sample("triple", "nontrivial", c)
	}
	return nil
}

const (
	ntChain  = 1 << iota // >= 2 equalities among the three, in >= 2 representations
	ntUlp                // ints and floats within one ulp
	clStrict             // a strict chain a < b < c exists
)

func tripleClasses(flags, n int) {
	if flags&ntChain != 0 {
		vk.S.ClassN("triple/equal-chain-across-representations", n)
	}
	if flags&ntUlp != 0 {
		vk.S.ClassN("triple/int-float-within-one-ulp", n)
	}
	if flags&clStrict != 0 {
		vk.S.ClassN("triple/strict-chain", n)
	}
	if flags&(ntChain|ntUlp) == 0 {
		vk.S.ClassN("triple/other", n)
	}
}

func tT(r res) bool { return !r.err && r.v }
func tF(r res) bool { return !r.err && !r.v }

// tripleLaws: transitivity of ==, of <, compatibility of < with ==, equal hashes of equal members.
// An implication whose premise involves a failed comparison (cross-type, over-depth) is vacuous.
func tripleLaws(D [3]V, o *tripleObs) (flags int, err error) {
	eq, lt := &o.eq, &o.lt
	const name = "xyz"
	bad := func(format string, args ...any) error {
		return fmt.Errorf("%s [x=%v y=%v z=%v]", fmt.Sprintf(format, args...),
			trunc(D[0].build().String()), trunc(D[1].build().String()), trunc(D[2].build().String()))
	}
	for a := 0; a < 3; a++ {
		for b := 0; b < 3; b++ {
			if a == b {
				continue
			}
			cc := 3 - a - b
			eab, lab := tT(eq[a][b]), tT(lt[a][b])
			if !eab && !lab {
				continue
			}
			A, B, C := name[a:a+1], name[b:b+1], name[cc:cc+1]
			if eab && tT(eq[b][cc]) && tF(eq[a][cc]) {
				return 0, bad("== is not transitive: %s==%s and %s==%s but %s!=%s", A, B, B, C, A, C)
			}
			if lab && tT(lt[b][cc]) && !tT(lt[a][cc]) {
				return 0, bad("< is not transitive: %s<%s and %s<%s but %s<%s gives %v", A, B, B, C, A, C, lt[a][cc])
			}
			if lab && tT(eq[b][cc]) && !tT(lt[a][cc]) {
				return 0, bad("< is not compatible with ==: %s<%s and %s==%s but %s<%s gives %v", A, B, B, C, A, C, lt[a][cc])
			}
			if eab && tT(lt[b][cc]) && !tT(lt[a][cc]) {
				return 0, bad("< is not compatible with ==: %s==%s and %s<%s but %s<%s gives %v", A, B, B, C, A, C, lt[a][cc])
			}
			if lab && tT(lt[b][cc]) {
				flags |= clStrict
			}
		}
	}
	neq := 0
	var r0 string
	reps := 0
	for i := 0; i < 3; i++ {
		for j := i + 1; j < 3; j++ {
			if tT(eq[i][j]) {
				neq++
				if o.hok[i] && o.hok[j] && o.h[i] != o.h[j] {
					return 0, bad("%s==%s but the hashes differ", name[i:i+1], name[j:j+1])
				}
				for _, k := range []int{i, j} {
					if r := D[k].rep(); reps == 0 {
						r0, reps = r, 1
					} else if r != r0 {
						reps = 2
					}
				}
			}
		}
	}
	if neq >= 2 && reps >= 2 {
		flags |= ntChain
	}
	if withinUlp(D) {
		flags |= ntUlp
	}
	return flags, nil
}

// withinUlp: all three are finite numbers, ints and floats both occur, and the spread is at most one ulp
// of the largest float among them.
func withinUlp(D [3]V) bool {
	ni, nf := 0, 0
	for i := range D {
		switch D[i].K {
		case "int":
			ni++
		case "float":
			nf++
		}
	}
	if ni+nf != 3 || ni == 0 || nf == 0 {
		return false
	}
	var lo, hi *num
	kinds := map[string]bool{}
	ulp := 0.0
	for i := range D {
		x, ok := D[i].num()
		if !ok || x.nan || x.inf != 0 {
			return false
		}
		kinds[D[i].K] = true
		if D[i].K == "float" {
			f := math.Abs(D[i].float())
			if u := math.Nextafter(f, math.Inf(1)) - f; u > ulp {
				ulp = u
			}
		}
		if lo == nil || numCmp(x, *lo) < 0 {
			xx := x
			lo = &xx
		}
		if hi == nil || numCmp(x, *hi) > 0 {
			xx := x
			hi = &xx
		}
	}
	if len(kinds) < 2 || math.IsInf(ulp, 0) {
		return false
	}
	spread := new(big.Rat).Sub(hi.r, lo.r)
	return spread.Cmp(new(big.Rat).SetFloat64(ulp)) <= 0
}

var subTriple = vk.Register("triple", checkTriple)

// ---------------------------------------------------------------- sub-check: stable (hash of one value)

type StableCase struct {
	X  V    `json:"x"`
	GC bool `json:"gc,omitempty"` // also force garbage collections between the Hash calls (slow on a loaded machine)
}

func checkStable(c StableCase) (err error) {
	defer discardUnbuildable(&err)
	v := c.X.build()
	h1, err1 := v.Hash()
	if (err1 == nil) != c.X.hashable() {
		return fmt.Errorf("Hash() of %s: error %v; the spec says hashable=%v", trunc(v.String()), err1, c.X.hashable())
	}
	again := func(when string) error {
		h, err := v.Hash()
		if (err == nil) != (err1 == nil) {
			return fmt.Errorf("hashability of %s changed %s: %v -> %v", trunc(v.String()), when, err1, err)
		}
		if err == nil && h != h1 {
			return fmt.Errorf("Hash() of %s changed %s: %#x -> %#x", trunc(v.String()), when, h1, h)
		}
		return nil
	}
	if err := again("between two calls"); err != nil {
		return err
	}
	if err1 == nil {
		w := c.X.build()
		if h, err := w.Hash(); err != nil || h != h1 {
			return fmt.Errorf("a second value built the same way as %s hashes to %#x (%v), the first to %#x", trunc(v.String()), h, err, h1)
		}
		d := starlark.NewDict(1)
		if err := d.SetKey(v, starlark.None); err != nil {
			return fmt.Errorf("SetKey: %v", err)
		}
		if err := again("after use as a dict key"); err != nil {
			return err
		}
	}
	if c.GC {
		runtime.GC()
		if err := again("across runtime.GC()"); err != nil {
			return err
		}
	}
	v.Freeze()
	if err := again("after Freeze"); err != nil {
		return err
	}
	if c.GC {
		runtime.GC()
		if err := again("after Freeze and runtime.GC()"); err != nil {
			return err
		}
		vk.S.Class("stable/with-gc")
	}
	if err1 == nil {
		// the frozen value is still found under its old hash
		d := starlark.NewDict(1)
		d.SetKey(c.X.build(), starlark.None)
		if _, found, err := d.Get(v); (err != nil || !found) && !overDepth(c.X, c.X) {
			return fmt.Errorf("frozen %s is not found in a dict keyed by an equal unfrozen value (found=%v err=%v)", trunc(v.String()), found, err)
		}
	}
	vk.S.Class("stable:" + c.X.family())
	if err1 == nil {
		vk.S.Class("stable/hashable")
		if c.X.nest() > 0 || len(c.X.S) > 14 || c.X.K == "float" || c.X.K == "int" && len(c.X.I) > 9 {
			vk.S.NonTrivial("stable" + canon(c))
			vk.S.Sample("stable", c.X.K, c)
		}
	} else {
		vk.S.Class("stable/unhashable")
	}
	return nil
}

var subStable = vk.Register("stable", checkStable)

// ---------------------------------------------------------------- sub-checks: sort and minmax

type SeqCase struct {
	Keys    []V    `json:"keys"`
	Mode    string `json:"mode"`              // plain: the keys are the elements; pairs: elements (key, tag), key=first; index: elements are tags, key=table lookup
	Reverse bool   `json:"reverse,omitempty"` // sort only
	Max     bool   `json:"max,omitempty"`     // minmax only
	Varargs bool   `json:"varargs,omitempty"` // minmax only: min(*xs)
}

// identical: the very same value, not merely an equal one.
func identical(a, b starlark.Value) bool {
	switch a := a.(type) {
	case starlark.Int:
		b, ok := b.(starlark.Int)
		return ok && a.BigInt().Cmp(b.BigInt()) == 0
	case starlark.Float:
		b, ok := b.(starlark.Float)
		return ok && math.Float64bits(float64(a)) == math.Float64bits(float64(b))
	case starlark.Tuple:
		b, ok := b.(starlark.Tuple)
		if !ok || len(a) != len(b) {
			return false
		}
		for i := range a {
			if !identical(a[i], b[i]) {
				return false
			}
		}
		return true
	}
	if _, ok := b.(starlark.Tuple); ok {
		return false
	}
	return a == b
}

// seqInput builds the argument list, the key function (or nil) and the values of the keys.
func seqInput(c SeqCase) (elems []starlark.Value, keyFn starlark.Value, err error) {
	keys := make([]starlark.Value, len(c.Keys))
	for i, k := range c.Keys {
		keys[i] = k.build()
	}
	switch c.Mode {
	case "plain":
		return keys, nil, nil
	case "pairs":
		for i, k := range keys {
			elems = append(elems, starlark.Tuple{k, starlark.MakeInt(i)})
		}
		return elems, helpers["first"], nil
	case "index":
		for i := range keys {
			elems = append(elems, starlark.MakeInt(i))
		}
		fn, err := call("table_key", starlark.NewList(keys))
		return elems, fn, err
	}
	return nil, nil, fmt.Errorf("malformed case: mode %q", c.Mode)
}

// seqOrderable: every pair of keys is ordered by the model and below the depth limit.
func seqOrderable(ks []V) bool {
	for i := range ks {
		if ks[i].nest() >= starlark.CompareLimit {
			return false
		}
		for j := i + 1; j < len(ks); j++ {
			if _, ok := mcmp(ks[i], ks[j]); !ok {
				return false
			}
		}
	}
	return true
}

func seqClass(c SeqCase) (ties, mixed bool) {
	kinds := map[string]bool{}
	for i := range c.Keys {
		kinds[c.Keys[i].K] = true
		for j := i + 1; j < len(c.Keys) && !ties; j++ {
			if meq(c.Keys[i], c.Keys[j]) && (c.Mode != "plain" || c.Keys[i].rep() != c.Keys[j].rep()) {
				ties = true
			}
		}
	}
	return ties, kinds["int"] && kinds["float"]
}

func checkSort(c SeqCase) (err error) {
	defer discardUnbuildable(&err)
	elems, keyFn, err := seqInput(c)
	if err != nil {
		return err
	}
	n := len(elems)
	// the argument is a list or (every third case) a tuple of the same elements
	var input interface {
		starlark.Value
		Len() int
		Index(int) starlark.Value
	} = starlark.NewList(append([]starlark.Value(nil), elems...))
	if n%3 == 2 {
		input = starlark.Tuple(append([]starlark.Value(nil), elems...))
	}
	var out starlark.Value
	switch {
	case keyFn == nil && !c.Reverse:
		out, err = call("sorted_p", input)
	case keyFn == nil:
		out, err = call("sorted_r", input, starlark.True)
	case !c.Reverse && n%2 == 0:
		out, err = call("sorted_k", input, keyFn)
	default:
		out, err = call("sorted_kr", input, keyFn, starlark.Bool(c.Reverse))
	}
	orderable := seqOrderable(c.Keys)
	if err != nil {
		if orderable {
			return fmt.Errorf("sorted fails on pairwise ordered keys: %v", err)
		}
		vk.S.Class("sort/unordered-keys-error")
		return nil
	}
	if !orderable {
		vk.S.Class("sort/unordered-keys-no-error")
		return nil
	}
	// the argument is untouched
	if input.Len() != n {
		return fmt.Errorf("sorted changed the length of its argument")
	}
	for i := 0; i < n; i++ {
		if !identical(input.Index(i), elems[i]) {
			return fmt.Errorf("sorted modified its argument at index %d", i)
		}
	}
	l, ok := out.(*starlark.List)
	if !ok || starlark.Value(l) == starlark.Value(input) {
		return fmt.Errorf("sorted returned %s, want a new list", out.Type())
	}
	if l.Len() != n {
		return fmt.Errorf("sorted returned %d elements for %d", l.Len(), n)
	}
	// identity tags
	tags := make([]int, n)
	used := make([]bool, n)
	for i := 0; i < n; i++ {
		e := l.Index(i)
		tag := -1
		switch c.Mode {
		case "pairs":
			if t, ok := e.(starlark.Tuple); ok && len(t) == 2 {
				if k, err := starlark.AsInt32(t[1]); err == nil {
					tag = k
				}
			}
		case "index":
			if k, err := starlark.AsInt32(e); err == nil {
				tag = k
			}
		default:
			for j := 0; j < n; j++ {
				if !used[j] && identical(e, elems[j]) {
					tag = j
					break
				}
			}
		}
		if tag < 0 || tag >= n || used[tag] || !identical(e, elems[tag]) {
			return fmt.Errorf("sorted output is not a permutation of the input: output[%d]=%v is not an unused input element", i, trunc(e.String()))
		}
		used[tag] = true
		tags[i] = tag
	}
	for i := 0; i < n; i++ {
		for j := i + 1; j < n; j++ {
			a, b := c.Keys[tags[i]], c.Keys[tags[j]]
			m, _ := mcmp(a, b)
			if c.Reverse {
				m = -m
			}
			if m > 0 {
				return fmt.Errorf("sorted output out of order (reverse=%v): key %s at %d precedes key %s at %d", c.Reverse, a.rep(), i, b.rep(), j)
			}
			if m == 0 && tags[i] > tags[j] {
				return fmt.Errorf("sorted is not stable (reverse=%v): equal keys %s (input index %d) and %s (input index %d) come out at %d and %d",
					c.Reverse, a.rep(), tags[i], b.rep(), tags[j], i, j)
			}
		}
	}
	ties, mixed := seqClass(c)
	vk.S.Class(fmt.Sprintf("sort:%s/reverse=%v", c.Mode, c.Reverse))
	vk.S.Class(fmt.Sprintf("sort/len<=%d", lenBucket(n)))
	if ties {
		vk.S.Class("sort/has-ties")
	}
	if n >= 2 && (ties || mixed) {
		vk.S.NonTrivial("sort" + canon(c))
		vk.S.Sample("sort", c.Mode, c)
	}
	return nil
}

func lenBucket(n int) int {
	for _, b := range []int{0, 1, 2, 4, 8, 12, 20, 50, 100} {
		if n <= b {
			return b
		}
	}
	return 1000
}

func checkMinMax(c SeqCase) (err error) {
	defer discardUnbuildable(&err)
	elems, keyFn, err := seqInput(c)
	if err != nil {
		return err
	}
	n := len(elems)
	varargs := c.Varargs && n >= 2 // min(x) with a single argument treats x as the iterable
	name := "min"
	if c.Max {
		name = "max"
	}
	fn := name + map[bool]string{false: "_p", true: "_v"}[varargs]
	args := []starlark.Value{starlark.NewList(elems)}
	if keyFn != nil {
		fn += "k"
		if !varargs {
			fn = name + "_k"
		}
		args = append(args, keyFn)
	}
	out, err := call(fn, args...)
	if n == 0 {
		if err == nil {
			return fmt.Errorf("%s of an empty sequence returned %v", name, out)
		}
		vk.S.Class("minmax/empty")
		return nil
	}
	orderable := seqOrderable(c.Keys)
	if err != nil {
		if orderable {
			return fmt.Errorf("%s fails on pairwise ordered keys: %v", name, err)
		}
		vk.S.Class("minmax/unordered-keys-error")
		return nil
	}
	if !orderable {
		vk.S.Class("minmax/unordered-keys-no-error")
		return nil
	}
	found := false
	member := false
	for j := 0; j < n && !found; j++ {
		if !identical(out, elems[j]) {
			continue
		}
		member = true
		extreme := true
		for i := 0; i < n; i++ {
			m, _ := mcmp(c.Keys[i], c.Keys[j])
			if (!c.Max && m < 0) || (c.Max && m > 0) {
				extreme = false
				break
			}
		}
		found = extreme
	}
	if !member {
		return fmt.Errorf("%s returned %v, which is not an element of the input", name, trunc(out.String()))
	}
	if !found {
		return fmt.Errorf("%s returned %v, but another element's key is more extreme", name, trunc(out.String()))
	}
	ties, mixed := seqClass(c)
	vk.S.Class(fmt.Sprintf("minmax:%s/%s/varargs=%v", name, c.Mode, varargs))
	if ties {
		vk.S.Class("minmax/has-ties")
	}
	if n >= 2 && (ties || mixed) {
		vk.S.NonTrivial("minmax" + canon(c))
		vk.S.Sample("minmax", c.Mode, c)
	}
	return nil
}

var (
	subSort   = vk.Register("sort", checkSort)
	subMinMax = vk.Register("minmax", checkMinMax)
)

// ---------------------------------------------------------------- exhaustive generators

// The two hash-stability tests come first: they call runtime.GC() per case, which is cheap only while the
// heap is still small.
func TestPropPoolStable(t *testing.T) {
	p := searchPool()
	vk.S.SetExhaustive(fmt.Sprintf("hash-stability-of-pool-%d", len(p)), true)
	vk.Enum(t, subStable, func(yield func(StableCase) bool) {
		for i := range p {
			if vk.Mine(i) && !yield(StableCase{p[i], true}) {
				return
			}
		}
	})
}

func TestPropStable(t *testing.T) {
	vk.Rapid(t, subStable, vk.N(2000, 12000), func(t *rapid.T) StableCase {
		return StableCase{genValue(3).Draw(t, "x"), rapid.IntRange(0, 9).Draw(t, "gc") == 0}
	})
}

func TestPropPoolPairs(t *testing.T) {
	p := searchPool()
	vk.S.SetExhaustive(fmt.Sprintf("pairs-of-pool-%d", len(p)), true)
	vk.Enum(t, subPair, func(yield func(PairCase) bool) {
		n := 0
		for i := range p {
			for j := range p {
				n++
				if !vk.Mine(n) {
					continue
				}
				if !yield(PairCase{p[i], p[j]}) {
					return
				}
			}
		}
	})
}

// All ordered triples of the pool (thorough: plus the boundary neighbourhoods of poolExtra).  == and < are evaluated once per ordered pair (on values built once;
// comparison does not mutate them) and the laws are then checked on every triple from those tables, which
// is what makes 261^3 triples affordable.  A failing triple is re-checked and reported through the
// self-contained "triple" oracle, so its replay file does not depend on the pool.
func TestPropPoolTriples(t *testing.T) {
	p := searchPool()
	n := len(p)
	vk.S.SetExhaustive(fmt.Sprintf("triples-of-pool-%d", n), true)
	start := time.Now()
	built := make([]starlark.Value, n)
	h := make([]uint32, n)
	hok := make([]bool, n)
	for i := range p {
		built[i] = p[i].build()
		hh, err := built[i].Hash()
		h[i], hok[i] = hh, err == nil
	}
	eq := make([][]res, n)
	lt := make([][]res, n)
	for i := range p {
		eq[i], lt[i] = make([]res, n), make([]res, n)
		for j := range p {
			eq[i][j] = apiCmp(syntax.EQL, built[i], built[j])
			lt[i][j] = apiCmp(syntax.LT, built[i], built[j])
		}
	}
	total, fails := 0, 0
	var counts [8]int
	for i := 0; i < n; i++ {
		if !vk.Mine(i) {
			continue
		}
		for j := 0; j < n; j++ {
			for k := 0; k < n; k++ {
				ix := [3]int{i, j, k}
				var o tripleObs
				for a := 0; a < 3; a++ {
					for b := 0; b < 3; b++ {
						o.eq[a][b], o.lt[a][b] = eq[ix[a]][ix[b]], lt[ix[a]][ix[b]]
					}
					o.h[a], o.hok[a] = h[ix[a]], hok[ix[a]]
				}
				total++
				vk.S.Eval()
				D := [3]V{p[i], p[j], p[k]}
				flags, err := tripleLaws(D, &o)
				if err != nil {
					tc := TripleCase{p[i], p[j], p[k]}
					if err2 := subTriple.Raw(tc); err2 != nil {
						err = err2
					}
					vk.Violation(subTriple.Name, tc, err)
					t.Errorf("triple: %v", err)
					if fails++; fails >= 3 {
						return
					}
					continue
				}
				counts[flags]++
				if flags&(ntChain|ntUlp) != 0 {
					vk.S.NonTrivial("triple" + canon(TripleCase{p[i], p[j], p[k]}))
				}
			}
		}
	}
	for flags, c := range counts {
		if c > 0 {
			tripleClasses(flags, c)
		}
	}
	fmt.Printf("SUBCHECK sub=triple requested=%d passed=%d wall=%.1fs\n", total, total-fails, time.Since(start).Seconds())
}

func seqEnum(t *testing.T, maxLen int, minmax bool) {
	atoms := sortAtoms()
	sub := subSort
	if minmax {
		sub = subMinMax
	}
	vk.Enum(t, sub, func(yield func(SeqCase) bool) {
		n := 0
		for L := 0; L <= maxLen; L++ {
			total := 1
			for i := 0; i < L; i++ {
				total *= len(atoms)
			}
			for s := 0; s < total; s++ {
				n++
				if !vk.Mine(n) {
					continue
				}
				ks := make([]V, L)
				for i, x := 0, s; i < L; i++ {
					ks[i] = atoms[x%len(atoms)]
					x /= len(atoms)
				}
				for _, mode := range []string{"plain", "pairs"} {
					for _, flag := range []bool{false, true} {
						var c SeqCase
						if minmax {
							c = SeqCase{Keys: ks, Mode: mode, Max: flag, Varargs: s%2 == 1}
						} else {
							c = SeqCase{Keys: ks, Mode: mode, Reverse: flag}
						}
						if !yield(c) {
							return
						}
					}
				}
			}
		}
	})
}

func TestPropSeqExhaustive(t *testing.T) {
	L := 4
	if vk.Thorough() {
		L = 5
	}
	vk.S.SetExhaustive(fmt.Sprintf("sorted-all-sequences-len<=%d-over-%d-numbers", L, len(sortAtoms())), true)
	vk.S.SetExhaustive(fmt.Sprintf("minmax-all-sequences-len<=%d-over-%d-numbers", L, len(sortAtoms())), true)
	seqEnum(t, L, false)
	seqEnum(t, L, true)
}

// ---------------------------------------------------------------- random generators

func TestPropPairs(t *testing.T) {
	vk.Rapid(t, subPair, vk.N(20000, 100000), func(t *rapid.T) PairCase {
		x := genValue(3).Draw(t, "x")
		return PairCase{x, genRelated(t, x, "y")}
	})
}

func TestPropTriples(t *testing.T) {
	vk.Rapid(t, subTriple, vk.N(30000, 200000), func(t *rapid.T) TripleCase {
		if rapid.IntRange(0, 2).Draw(t, "numeric") == 0 {
			// three numbers around one centre, within a few ulps
			c := genCentre().Draw(t, "centre")
			return TripleCase{genNear(t, c, "x"), genNear(t, c, "y"), genNear(t, c, "z")}
		}
		x := genValue(3).Draw(t, "x")
		y := genRelated(t, x, "y")
		base := x
		if rapid.Bool().Draw(t, "from-y") {
			base = y
		}
		return TripleCase{x, y, genRelated(t, base, "z")}
	})
}

func genSeqCase(t *rapid.T, minmax bool) SeqCase {
	c := SeqCase{Mode: rapid.SampledFrom([]string{"plain", "pairs", "index"}).Draw(t, "mode")}
	if minmax {
		c.Max = rapid.Bool().Draw(t, "max")
		c.Varargs = rapid.Bool().Draw(t, "varargs")
	} else {
		c.Reverse = rapid.Bool().Draw(t, "reverse")
	}
	c.Keys = genKeyList(t)
	return c
}

func TestPropSort(t *testing.T) {
	vk.Rapid(t, subSort, vk.N(8000, 60000), func(t *rapid.T) SeqCase { return genSeqCase(t, false) })
}

func TestPropMinMax(t *testing.T) {
	vk.Rapid(t, subMinMax, vk.N(8000, 60000), func(t *rapid.T) SeqCase { return genSeqCase(t, true) })
}

func TestReplay(t *testing.T) { vk.Replay(t) }
