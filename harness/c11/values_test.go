package c11

// Value descriptions (V), their construction through the public Go API, and the
// reference model of equality / ordering / hashability written from doc/spec.md
// and the property text (NaN equal to itself and greatest; int/float compared
// mathematically; sequences lexicographically; functions by identity; ranges by
// denoted sequence; structs by constructor and field set; times by instant).

import (
	"fmt"
	"math"
	"math/big"
	"sort"
	"strconv"
	"strings"
	"time"

	sltime "go.starlark.net/lib/time"
	"go.starlark.net/starlark"
	"go.starlark.net/starlarkstruct"
	"go.starlark.net/syntax"
	"verif/harness/vk"
)

// V describes one Starlark value.  It is the JSON form stored in replay files.
//
//	none                      None
//	bool   N=0|1
//	int    I=decimal
//	float  I=hex of the IEEE bits ("0x3ff0000000000000")
//	str    S=strconv.Quote(content)        bytes  S=strconv.Quote(content)
//	tuple/list/set  E=elements             dict   E=k0,v0,k1,v1,...
//	range  A=[start,stop,step]
//	struct S=constructor name, Names=field names in construction order, E=values, N=1: built with FromStringDict
//	fn     N=index into the function table  (identity = index)
//	bi     N=index into the builtin / bound-method table
//	time   A=[unix seconds, nanoseconds, zone offset seconds]
//	dur    A=[nanoseconds]
type V struct {
	K     string   `json:"k"`
	I     string   `json:"i,omitempty"`
	S     string   `json:"s,omitempty"`
	N     int      `json:"n,omitempty"`
	A     []int64  `json:"a,omitempty"`
	Names []string `json:"names,omitempty"`
	E     []V      `json:"e,omitempty"`
}

// ---------------------------------------------------------------- constructors of descriptions

func vNone() V       { return V{K: "none"} }
func vBool(b bool) V { return V{K: "bool", N: b2i(b)} }
func vInt(x *big.Int) V {
	return V{K: "int", I: x.String()}
}
func vInt64(x int64) V { return vInt(big.NewInt(x)) }
func vFloat(f float64) V {
	return V{K: "float", I: fmt.Sprintf("0x%016x", math.Float64bits(f))}
}
func vFloatBits(b uint64) V { return V{K: "float", I: fmt.Sprintf("0x%016x", b)} }
func vStr(s string) V       { return V{K: "str", S: strconv.Quote(s)} }
func vBytes(s string) V     { return V{K: "bytes", S: strconv.Quote(s)} }
func vTuple(e ...V) V       { return V{K: "tuple", E: e} }
func vList(e ...V) V        { return V{K: "list", E: e} }
func vSet(e ...V) V         { return V{K: "set", E: e} }
func vDict(kv ...V) V       { return V{K: "dict", E: kv} }
func vRange(a, b, c int64) V {
	return V{K: "range", A: []int64{a, b, c}}
}
func vStruct(ctor string, names []string, vals ...V) V {
	return V{K: "struct", S: ctor, Names: names, E: vals}
}
func vFn(i int) V { return V{K: "fn", N: i} }
func vBi(i int) V { return V{K: "bi", N: i} }
func vTime(sec, nsec, zone int64) V {
	return V{K: "time", A: []int64{sec, nsec, zone}}
}
func vDur(ns int64) V { return V{K: "dur", A: []int64{ns}} }

// nestIn wraps v in d containers of the given kind.
func nestIn(kind string, v V, d int) V {
	for i := 0; i < d; i++ {
		v = V{K: kind, E: []V{v}}
	}
	return v
}

func b2i(b bool) int {
	if b {
		return 1
	}
	return 0
}

func pow2(k uint) *big.Int { return new(big.Int).Lsh(big.NewInt(1), k) }
func addInt(x *big.Int, d int64) *big.Int {
	return new(big.Int).Add(x, big.NewInt(d))
}

// exactInt returns the integer exactly equal to the integral float f.
func exactInt(f float64) *big.Int {
	r := new(big.Rat).SetFloat64(f)
	if r == nil || !r.IsInt() {
		panic("not integral")
	}
	return new(big.Int).Set(r.Num())
}

// ---------------------------------------------------------------- accessors

func (v V) bigInt() *big.Int {
	x, ok := new(big.Int).SetString(v.I, 10)
	if !ok {
		panic("bad int description " + v.I)
	}
	return x
}

func (v V) float() float64 {
	b, err := strconv.ParseUint(strings.TrimPrefix(v.I, "0x"), 16, 64)
	if err != nil {
		panic("bad float description " + v.I)
	}
	return math.Float64frombits(b)
}

func (v V) text() string {
	s, err := strconv.Unquote(v.S)
	if err != nil {
		panic("bad string description " + v.S)
	}
	return s
}

// ---------------------------------------------------------------- identity tables (functions, built-ins, bound methods)

const fnSrc = `
def f(): pass
def g(): pass
def mk():
    def f(): pass      # same name as the global f
    return f
c1 = mk()
c2 = mk()
l1 = lambda: 1
l2 = lambda: 1
def h(x, y=[]): return y
`

var (
	fnTable []starlark.Value
	biTable []starlark.Value
)

func init() {
	th := &starlark.Thread{Name: "c11-init"}
	g, err := starlark.ExecFileOptions(&syntax.FileOptions{}, th, "fns.star", fnSrc, nil)
	if err != nil {
		panic(err)
	}
	for _, n := range []string{"f", "g", "c1", "c2", "l1", "l2", "h"} {
		fnTable = append(fnTable, g[n])
	}
	attr := func(recv starlark.Value, name string) starlark.Value {
		m, err := recv.(starlark.HasAttrs).Attr(name)
		if err != nil || m == nil {
			panic("no attr " + name)
		}
		return m
	}
	nop := func(*starlark.Thread, *starlark.Builtin, starlark.Tuple, []starlark.Tuple) (starlark.Value, error) {
		return starlark.None, nil
	}
	lst := starlark.NewList([]starlark.Value{starlark.MakeInt(1)})
	biTable = []starlark.Value{
		starlark.Universe["len"],                        // 0
		starlark.Universe["str"],                        // 1
		starlark.NewBuiltin("len", nop),                 // 2: same name as 0, other identity
		attr(starlark.String("abc"), "startswith"),      // 3
		attr(starlark.String("abc"), "startswith"),      // 4: same receiver and name, other identity
		attr(starlark.String("abc"), "endswith"),        // 5
		attr(starlark.String("abd"), "startswith"),      // 6
		attr(lst, "append"),                             // 7
		attr(lst, "append"),                             // 8
		starlark.NewBuiltin("startswith", nop),          // 9: name of a method, no receiver
		starlark.NewBuiltin("x", nop).BindReceiver(lst), // 10
	}
}

// ---------------------------------------------------------------- construction

var rangeFn = starlark.Universe["range"]

// unbuildable: the described dict / set cannot be constructed (an unhashable key, or two keys nested beyond
// CompareLimit whose comparison fails during insertion).  Such a description denotes no value; the case is
// discarded.
type unbuildable struct{ why string }

// discardUnbuildable is deferred by every oracle.
func discardUnbuildable(err *error) {
	if r := recover(); r != nil {
		if _, ok := r.(unbuildable); !ok {
			panic(r)
		}
		vk.S.Discard()
		vk.S.Class("discarded/unbuildable-dict-or-set")
		*err = nil
	}
}

func (v V) build() starlark.Value {
	switch v.K {
	case "none":
		return starlark.None
	case "bool":
		return starlark.Bool(v.N != 0)
	case "int":
		return starlark.MakeBigInt(v.bigInt())
	case "float":
		return starlark.Float(v.float())
	case "str":
		return starlark.String(v.text())
	case "bytes":
		return starlark.Bytes(v.text())
	case "tuple":
		t := make(starlark.Tuple, len(v.E))
		for i, e := range v.E {
			t[i] = e.build()
		}
		return t
	case "list":
		t := make([]starlark.Value, len(v.E))
		for i, e := range v.E {
			t[i] = e.build()
		}
		return starlark.NewList(t)
	case "set":
		s := starlark.NewSet(len(v.E))
		for _, e := range v.E {
			if err := s.Insert(e.build()); err != nil {
				panic(unbuildable{"set element: " + err.Error()})
			}
		}
		return s
	case "dict":
		d := starlark.NewDict(len(v.E) / 2)
		for i := 0; i+1 < len(v.E); i += 2 {
			if err := d.SetKey(v.E[i].build(), v.E[i+1].build()); err != nil {
				panic(unbuildable{"dict key: " + err.Error()})
			}
		}
		return d
	case "range":
		th := &starlark.Thread{Name: "range"}
		r, err := starlark.Call(th, rangeFn, starlark.Tuple{starlark.MakeInt64(v.A[0]), starlark.MakeInt64(v.A[1]), starlark.MakeInt64(v.A[2])}, nil)
		if err != nil {
			panic("malformed case: range: " + err.Error())
		}
		return r
	case "struct":
		var ctor starlark.Value = starlarkstruct.Default
		if v.S != "" && v.S != "struct" {
			ctor = starlark.String(v.S)
		}
		if v.N == 1 {
			d := starlark.StringDict{}
			for i, n := range v.Names {
				d[n] = v.E[i].build()
			}
			return starlarkstruct.FromStringDict(ctor, d)
		}
		var kw []starlark.Tuple
		for i, n := range v.Names {
			kw = append(kw, starlark.Tuple{starlark.String(n), v.E[i].build()})
		}
		return starlarkstruct.FromKeywords(ctor, kw)
	case "fn":
		return fnTable[v.N]
	case "bi":
		return biTable[v.N]
	case "time":
		return sltime.Time(time.Unix(v.A[0], v.A[1]).In(time.FixedZone("z", int(v.A[2]))))
	case "dur":
		return sltime.Duration(v.A[0])
	}
	panic("malformed case: kind " + v.K)
}

// ---------------------------------------------------------------- reference model

// num is the exact mathematical value of an int or float description.
type num struct {
	nan bool
	inf int // -1, 0, +1
	r   *big.Rat
}

func (v V) num() (num, bool) {
	switch v.K {
	case "int":
		return num{r: new(big.Rat).SetInt(v.bigInt())}, true
	case "float":
		f := v.float()
		switch {
		case f != f:
			return num{nan: true}, true
		case math.IsInf(f, 1):
			return num{inf: 1}, true
		case math.IsInf(f, -1):
			return num{inf: -1}, true
		}
		return num{r: new(big.Rat).SetFloat64(f)}, true
	}
	return num{}, false
}

// numCmp: NaN is equal to NaN and greater than everything else (property text / floatCmp doc);
// everything else is compared as a real number.
func numCmp(a, b num) int {
	switch {
	case a.nan && b.nan:
		return 0
	case a.nan:
		return +1
	case b.nan:
		return -1
	case a.inf != 0 || b.inf != 0:
		return sign(a.inf - b.inf)
	}
	return a.r.Cmp(b.r)
}

func sign(x int) int {
	switch {
	case x < 0:
		return -1
	case x > 0:
		return 1
	}
	return 0
}

// rangeSeq returns (len, first, step) of the sequence denoted by range(a, b, c).
func rangeSeq(a, b, c int64) (n, first, step int64) {
	if c > 0 && b > a {
		n = (b - a + c - 1) / c
	} else if c < 0 && b < a {
		n = (a - b + (-c) - 1) / (-c)
	}
	return n, a, c
}

// ekey is a canonical string of the ==-class of v: two descriptions denote equal
// values iff their ekeys are equal.  Being string equality, the model relation
// is an equivalence by construction.
func (v V) ekey() string {
	switch v.K {
	case "none":
		return "N"
	case "bool":
		return "B" + strconv.Itoa(v.N)
	case "int", "float":
		x, _ := v.num()
		switch {
		case x.nan:
			return "#nan"
		case x.inf > 0:
			return "#+inf"
		case x.inf < 0:
			return "#-inf"
		}
		return "#" + x.r.RatString()
	case "str":
		return "S" + strconv.Quote(v.text())
	case "bytes":
		return "Y" + strconv.Quote(v.text())
	case "tuple", "list":
		var sb strings.Builder
		sb.WriteString(map[string]string{"tuple": "T(", "list": "L("}[v.K])
		for _, e := range v.E {
			sb.WriteString(e.ekey())
			sb.WriteByte(',')
		}
		sb.WriteByte(')')
		return sb.String()
	case "set":
		var ks []string
		for _, e := range v.E {
			ks = append(ks, e.ekey())
		}
		sort.Strings(ks)
		ks = uniq(ks)
		return "E{" + strings.Join(ks, ",") + "}"
	case "dict":
		// later entries overwrite earlier ones with an equal key
		m := map[string]string{}
		for i := 0; i+1 < len(v.E); i += 2 {
			m[v.E[i].ekey()] = v.E[i+1].ekey()
		}
		var ks []string
		for k, x := range m {
			ks = append(ks, k+":"+x)
		}
		sort.Strings(ks)
		return "D{" + strings.Join(ks, ",") + "}"
	case "range":
		n, first, step := rangeSeq(v.A[0], v.A[1], v.A[2])
		switch n {
		case 0:
			return "R()"
		case 1:
			return fmt.Sprintf("R(%d)", first)
		}
		return fmt.Sprintf("R(%d,%d,%d)", n, first, step)
	case "struct":
		var ks []string
		for i, n := range v.Names {
			ks = append(ks, n+"="+v.E[i].ekey())
		}
		sort.Strings(ks)
		c := v.S
		if c == "" {
			c = "struct"
		}
		return "U" + strconv.Quote(c) + "(" + strings.Join(ks, ",") + ")"
	case "fn":
		return "F" + strconv.Itoa(v.N)
	case "bi":
		return "G" + strconv.Itoa(v.N)
	case "time":
		t := time.Unix(v.A[0], v.A[1])
		return fmt.Sprintf("t%d.%09d", t.Unix(), t.Nanosecond())
	case "dur":
		return fmt.Sprintf("d%d", v.A[0])
	}
	panic("malformed case: kind " + v.K)
}

func uniq(s []string) []string {
	var out []string
	for i, x := range s {
		if i == 0 || x != s[i-1] {
			out = append(out, x)
		}
	}
	return out
}

func meq(a, b V) bool { return a.ekey() == b.ekey() }

// mcmp is the model's three-way ordered comparison.  ok=false: the statement
// defines no order between a and b (different types other than int/float, or a
// type that is not ordered); nothing is then demanded of <, <=, >, >= except
// that they agree with each other about failing.
func mcmp(a, b V) (c int, ok bool) {
	if x, isnum := a.num(); isnum {
		if y, isnum := b.num(); isnum {
			return numCmp(x, y), true
		}
		return 0, false
	}
	if a.K != b.K {
		return 0, false
	}
	switch a.K {
	case "bool":
		return sign(a.N - b.N), true
	case "str", "bytes":
		return strings.Compare(a.text(), b.text()), true
	case "tuple", "list":
		for i := 0; i < len(a.E) && i < len(b.E); i++ {
			if !meq(a.E[i], b.E[i]) {
				return mcmp(a.E[i], b.E[i])
			}
		}
		return sign(len(a.E) - len(b.E)), true
	case "time":
		x, y := time.Unix(a.A[0], a.A[1]), time.Unix(b.A[0], b.A[1])
		switch {
		case x.Before(y):
			return -1, true
		case x.After(y):
			return 1, true
		}
		return 0, true
	case "dur":
		switch {
		case a.A[0] < b.A[0]:
			return -1, true
		case a.A[0] > b.A[0]:
			return 1, true
		}
		return 0, true
	}
	return 0, false
}

// hashable per doc/spec.md "Hashing" (plus bytes, struct, time and duration whose Go
// doc comments promise a hash consistent with equality).
func (v V) hashable() bool {
	switch v.K {
	case "list", "dict", "set", "range":
		return false
	case "tuple", "struct":
		for _, e := range v.E {
			if !e.hashable() {
				return false
			}
		}
	}
	return true
}

// nest is the number of container levels above the deepest leaf.
func (v V) nest() int {
	switch v.K {
	case "tuple", "list", "set", "dict", "struct":
		m := 0
		for _, e := range v.E {
			if n := e.nest(); n > m {
				m = n
			}
		}
		return m + 1
	}
	return 0
}

// overDepth: a recursive comparison of a and b can reach CompareLimit only if both are nested
// at least that deep; only then may ==, <, hashing-table lookups etc. fail.
func overDepth(a, b V) bool {
	return min(a.nest(), b.nest()) >= starlark.CompareLimit
}

// rep distinguishes representations within one ==-class (1 vs 1.0, 0.0 vs -0.0, NaN payloads,
// range parameters, struct construction order are all visible in it).
func (v V) rep() string {
	switch v.K {
	case "int":
		return "i" + v.I
	case "float":
		return "f" + v.I
	case "tuple", "list", "set", "dict":
		var sb strings.Builder
		sb.WriteString(v.K[:1] + "(")
		for _, e := range v.E {
			sb.WriteString(e.rep())
			sb.WriteByte(',')
		}
		sb.WriteByte(')')
		return sb.String()
	case "range":
		return fmt.Sprint("r", v.A)
	case "struct":
		return fmt.Sprint("u", v.N, v.Names, len(v.E)) + vTuple(v.E...).rep()
	case "time":
		return fmt.Sprint("t", v.A)
	}
	return v.ekey()
}

// kinds lists the leaf and container kinds that occur in v (for the histogram).
func (v V) family() string {
	switch v.K {
	case "int", "float":
		return v.K
	case "tuple", "list":
		if n := v.nest(); n >= starlark.CompareLimit-1 {
			return fmt.Sprintf("%s-nest%d", v.K, n)
		}
	}
	return v.K
}
