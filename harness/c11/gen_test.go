package c11

import (
	"math"
	"math/big"
	"strings"

	"go.starlark.net/starlark"
	"pgregory.net/rapid"
)

// ---------------------------------------------------------------- numbers

// genCentre draws an integer magnitude where representations change: machine-word and mantissa
// boundaries, the exact value of 1e300, the top of the float range, and random magnitudes to 2^200.
func genCentre() *rapid.Generator[*big.Int] {
	return rapid.Custom(func(t *rapid.T) *big.Int {
		var c *big.Int
		switch rapid.IntRange(0, 5).Draw(t, "mag") {
		case 0:
			c = big.NewInt(int64(rapid.IntRange(0, 5).Draw(t, "small")))
		case 1, 2:
			k := rapid.SampledFrom([]uint{31, 32, 52, 53, 54, 62, 63, 64, 65, 96, 128, 1023, 1024}).Draw(t, "pow")
			c = pow2(k)
		case 3:
			c = exactInt(rapid.SampledFrom([]float64{1e300, 1e22, 1e23, math.MaxFloat64, 9007199254740993, 0x1p53 + 2, 0x1p64 - 2048}).Draw(t, "float"))
		case 4:
			bits := rapid.IntRange(1, 200).Draw(t, "bits")
			c = new(big.Int).SetBytes(rapid.SliceOfN(rapid.Byte(), (bits+7)/8, (bits+7)/8).Draw(t, "bytes"))
		default:
			// an odd multiple of a power of two: exactly representable with a full mantissa
			m := rapid.Uint64Range(1<<52, 1<<53-1).Draw(t, "mant")
			c = new(big.Int).Lsh(new(big.Int).SetUint64(m), uint(rapid.IntRange(0, 80).Draw(t, "shift")))
		}
		if rapid.IntRange(0, 3).Draw(t, "neg") == 0 {
			c = new(big.Int).Neg(c)
		}
		return c
	})
}

func nearestFloat(x *big.Int) float64 {
	f, _ := new(big.Float).SetInt(x).Float64()
	return f
}

// genNear draws an int or float at or next to the centre c.
func genNear(t *rapid.T, c *big.Int, label string) V {
	x := addInt(c, int64(rapid.IntRange(-2, 2).Draw(t, label+"-off")))
	switch rapid.IntRange(0, 6).Draw(t, label+"-rep") {
	case 0, 1, 2:
		return vInt(x)
	case 3, 4:
		return vFloat(nearestFloat(x))
	case 5:
		return vFloat(math.Nextafter(nearestFloat(x), math.Inf(1)))
	default:
		return vFloat(math.Nextafter(nearestFloat(x), math.Inf(-1)))
	}
}

var specialFloats = []uint64{
	0x0000000000000000, 0x8000000000000000, // +-0
	0x7ff0000000000000, 0xfff0000000000000, // +-inf
	0x7ff8000000000000, 0xfff8000000000001, 0x7ff0000000000001, // NaNs
	0x0000000000000001, 0x8000000000000001, 0x000fffffffffffff, 0x0010000000000000, // subnormals, min normal
	0x7fefffffffffffff, 0xffefffffffffffff, // +-max
	0x3fe0000000000000, 0x3ff8000000000000, 0xbff8000000000000, // 0.5 1.5 -1.5
}

func genNum() *rapid.Generator[V] {
	return rapid.Custom(func(t *rapid.T) V {
		switch rapid.IntRange(0, 5).Draw(t, "numkind") {
		case 0:
			return vFloatBits(rapid.SampledFrom(specialFloats).Draw(t, "special"))
		case 1:
			return vFloatBits(rapid.Uint64().Draw(t, "bits"))
		case 2:
			// k + 0.5
			k := rapid.Int64Range(-1<<20, 1<<20).Draw(t, "k")
			return vFloat(float64(k) + 0.5)
		default:
			return genNear(t, genCentre().Draw(t, "centre"), "n")
		}
	})
}

// ---------------------------------------------------------------- strings

func genText() *rapid.Generator[string] {
	return rapid.Custom(func(t *rapid.T) string {
		switch rapid.IntRange(0, 3).Draw(t, "strkind") {
		case 0:
			// equal-prefix family around the 12-byte switch of the hash function
			n := rapid.SampledFrom([]int{0, 1, 2, 10, 11, 12, 13, 14, 24, 30}).Draw(t, "len")
			s := strings.Repeat("a", n)
			switch rapid.IntRange(0, 3).Draw(t, "tail") {
			case 0:
				s += "b"
			case 1:
				if n > 0 {
					s = s[:n-1] + "b"
				}
			}
			return s
		case 1:
			return string(rapid.SliceOfN(rapid.SampledFrom([]byte("ab")), 0, 30).Draw(t, "ab"))
		case 2:
			return string(rapid.SliceOfN(rapid.Byte(), 0, 30).Draw(t, "bytes"))
		default:
			return rapid.StringN(0, 12, 30).Draw(t, "unicode")
		}
	})
}

// ---------------------------------------------------------------- other leaves

var zones = []int64{0, 19800, -3600, 7200, 50400, -43200}

func genTime() *rapid.Generator[V] {
	return rapid.Custom(func(t *rapid.T) V {
		sec := rapid.SampledFrom([]int64{0, 1000000000, 999999999, 32503680000, -62135596800, 9223372036, -9223372037, 253402300799}).Draw(t, "sec")
		sec += int64(rapid.IntRange(-1, 1).Draw(t, "dsec"))
		nsec := rapid.SampledFrom([]int64{0, 1, 999999999, 500000000, 854775807}).Draw(t, "nsec")
		return vTime(sec, nsec, rapid.SampledFrom(zones).Draw(t, "zone"))
	})
}

func genDur() *rapid.Generator[V] {
	return rapid.Custom(func(t *rapid.T) V {
		d := rapid.SampledFrom([]int64{0, 1, -1, 3600e9, 1 << 32, 1<<32 + 1, math.MaxInt64, math.MinInt64, 1 << 31}).Draw(t, "dur")
		return vDur(d)
	})
}

func genRange() *rapid.Generator[V] {
	return rapid.Custom(func(t *rapid.T) V {
		step := int64(rapid.SampledFrom([]int{1, 2, 3, 7, -1, -2, -3}).Draw(t, "step"))
		return vRange(int64(rapid.IntRange(-6, 12).Draw(t, "start")), int64(rapid.IntRange(-6, 12).Draw(t, "stop")), step)
	})
}

var fieldNames = []string{"a", "b", "c", "aaaaaaaaaaaa"}

func genLeaf() *rapid.Generator[V] {
	return rapid.Custom(func(t *rapid.T) V {
		switch rapid.IntRange(0, 19).Draw(t, "leaf") {
		case 0, 1, 2, 3, 4, 5, 6, 7:
			return genNum().Draw(t, "num")
		case 8, 9, 10:
			return vStr(genText().Draw(t, "s"))
		case 11, 12:
			return vBytes(genText().Draw(t, "b"))
		case 13:
			return vBool(rapid.Bool().Draw(t, "bool"))
		case 14:
			return vNone()
		case 15:
			return genRange().Draw(t, "range")
		case 16:
			return vFn(rapid.IntRange(0, len(fnTable)-1).Draw(t, "fn"))
		case 17:
			return vBi(rapid.IntRange(0, len(biTable)-1).Draw(t, "bi"))
		case 18:
			return genTime().Draw(t, "time")
		default:
			return genDur().Draw(t, "dur")
		}
	})
}

func hashableOnly(vs []V) []V {
	var out []V
	for _, v := range vs {
		if v.hashable() {
			out = append(out, v)
		}
	}
	return out
}

// distinctKeys drops elements whose ==-class occurred before (a dict / set description lists distinct keys).
func distinctKeys(vs []V) []V {
	seen := map[string]bool{}
	var out []V
	for _, v := range vs {
		if k := v.ekey(); !seen[k] {
			seen[k] = true
			out = append(out, v)
		}
	}
	return out
}

// genValue draws a value whose containers nest at most depth levels, except for the explicit
// deep-nesting case that wraps a leaf in CompareLimit-2 .. CompareLimit+1 containers.
func genValue(depth int) *rapid.Generator[V] {
	return rapid.Custom(func(t *rapid.T) V {
		if depth <= 0 {
			return genLeaf().Draw(t, "leaf")
		}
		sub := genValue(depth - 1)
		switch rapid.IntRange(0, 19).Draw(t, "shape") {
		case 0, 1, 2:
			return vTuple(rapid.SliceOfN(sub, 0, 3).Draw(t, "tuple")...)
		case 3, 4:
			return vList(rapid.SliceOfN(sub, 0, 3).Draw(t, "list")...)
		case 5:
			kind := rapid.SampledFrom([]string{"tuple", "list"}).Draw(t, "deepkind")
			d := rapid.IntRange(starlark.CompareLimit-2, starlark.CompareLimit+1).Draw(t, "deep")
			inner := genLeaf().Draw(t, "deepleaf")
			if rapid.Bool().Draw(t, "deeppair") {
				inner = V{K: kind, E: []V{inner, genLeaf().Draw(t, "deepleaf2")}}
				d--
			}
			return nestIn(kind, inner, d)
		case 6:
			n := rapid.IntRange(0, 3).Draw(t, "nfields")
			names := append([]string(nil), fieldNames[:n]...)
			if rapid.Bool().Draw(t, "revfields") {
				for i, j := 0, len(names)-1; i < j; i, j = i+1, j-1 {
					names[i], names[j] = names[j], names[i]
				}
			}
			vals := rapid.SliceOfN(sub, n, n).Draw(t, "fields")
			s := vStruct(rapid.SampledFrom([]string{"struct", "struct", "point"}).Draw(t, "ctor"), names, vals...)
			s.N = rapid.IntRange(0, 1).Draw(t, "fromdict")
			return s
		case 7:
			keys := distinctKeys(hashableOnly(rapid.SliceOfN(sub, 0, 3).Draw(t, "dkeys")))
			var kv []V
			for _, k := range keys {
				kv = append(kv, k, sub.Draw(t, "dval"))
			}
			return vDict(kv...)
		case 8:
			return vSet(distinctKeys(hashableOnly(rapid.SliceOfN(sub, 0, 3).Draw(t, "selems")))...)
		default:
			return genLeaf().Draw(t, "leaf")
		}
	})
}

// ---------------------------------------------------------------- related values

// twin returns a description that denotes an equal value in another representation where one exists.
func twin(t *rapid.T, v V, label string) V {
	switch v.K {
	case "int":
		x := v.bigInt()
		if f := nearestFloat(x); !math.IsInf(f, 0) && exactInt(f).Cmp(x) == 0 {
			return vFloat(f)
		}
	case "float":
		f := v.float()
		switch {
		case f != f:
			return vFloatBits(rapid.SampledFrom([]uint64{0x7ff8000000000000, 0xfff8000000000001, 0x7ff0000000000001}).Draw(t, label+"-nan"))
		case f == 0:
			return vFloat(math.Copysign(0, -1*math.Copysign(1, f)))
		case !math.IsInf(f, 0) && f == math.Trunc(f):
			return vInt(exactInt(f))
		}
	case "tuple", "list", "set":
		w := V{K: v.K}
		for i, e := range v.E {
			if rapid.Bool().Draw(t, label+"-twinelem") {
				e = twin(t, e, label+"."+string(rune('0'+i%10)))
			}
			w.E = append(w.E, e)
		}
		if v.K == "set" {
			for i, j := 0, len(w.E)-1; i < j; i, j = i+1, j-1 {
				w.E[i], w.E[j] = w.E[j], w.E[i]
			}
		}
		return w
	case "dict":
		w := V{K: "dict"}
		for i := len(v.E) - 2; i >= 0; i -= 2 {
			w.E = append(w.E, twin(t, v.E[i], label+"-k"), twin(t, v.E[i+1], label+"-v"))
		}
		return w
	case "range":
		n, first, step := rangeSeq(v.A[0], v.A[1], v.A[2])
		switch {
		case n == 0:
			return vRange(int64(rapid.IntRange(-3, 3).Draw(t, label+"-e")), -3, int64(rapid.IntRange(1, 4).Draw(t, label+"-es")))
		case n == 1:
			s := int64(rapid.IntRange(1, 9).Draw(t, label+"-s"))
			return vRange(first, first+s, s+int64(rapid.IntRange(0, 3).Draw(t, label+"-s2")))
		}
		// same first, step and length, another stop
		last := first + (n-1)*step
		if step > 0 {
			return vRange(first, last+1+int64(rapid.IntRange(0, int(step)-1).Draw(t, label+"-stop")), step)
		}
		return vRange(first, last-1-int64(rapid.IntRange(0, int(-step)-1).Draw(t, label+"-stop")), step)
	case "struct":
		w := V{K: "struct", S: v.S, N: 1 - v.N}
		for i := len(v.Names) - 1; i >= 0; i-- {
			w.Names = append(w.Names, v.Names[i])
			w.E = append(w.E, twin(t, v.E[i], label+"-f"))
		}
		return w
	case "time":
		return vTime(v.A[0], v.A[1], rapid.SampledFrom(zones).Draw(t, label+"-zone"))
	}
	return v
}

// perturb returns a near miss of v: usually unequal, differing in one small place.
func perturb(t *rapid.T, v V, label string) V {
	switch v.K {
	case "int":
		return vInt(addInt(v.bigInt(), int64(rapid.SampledFrom([]int{-1, 1, 2}).Draw(t, label+"-d"))))
	case "float":
		f := v.float()
		if f != f || math.IsInf(f, 0) {
			return vFloat(math.MaxFloat64)
		}
		return vFloat(math.Nextafter(f, math.Inf(rapid.SampledFrom([]int{-1, 1}).Draw(t, label+"-dir"))))
	case "str", "bytes":
		s := v.text()
		switch rapid.IntRange(0, 2).Draw(t, label+"-how") {
		case 0:
			s += "a"
		case 1:
			if len(s) > 0 {
				s = s[:len(s)-1]
			}
		default:
			if len(s) > 0 {
				b := []byte(s)
				i := rapid.IntRange(0, len(b)-1).Draw(t, label+"-i")
				b[i] ^= 1
				s = string(b)
			}
		}
		return V{K: v.K, S: vStr(s).S}
	case "bool":
		return vBool(v.N == 0)
	case "tuple", "list":
		w := V{K: v.K, E: append([]V(nil), v.E...)}
		if len(w.E) == 0 || rapid.IntRange(0, 3).Draw(t, label+"-grow") == 0 {
			w.E = append(w.E, genLeaf().Draw(t, label+"-extra"))
			return w
		}
		i := rapid.IntRange(0, len(w.E)-1).Draw(t, label+"-i")
		w.E[i] = perturb(t, w.E[i], label+"."+string(rune('0'+i%10)))
		return w
	case "set", "dict":
		// change, drop or add one element (for a dict: one key or one value)
		w := V{K: v.K, E: append([]V(nil), v.E...)}
		if len(w.E) == 0 || rapid.IntRange(0, 3).Draw(t, label+"-grow") == 0 {
			w.E = append(w.E, vInt64(int64(rapid.IntRange(0, 9).Draw(t, label+"-newkey"))))
			if v.K == "dict" {
				w.E = append(w.E, vNone())
			}
			return w
		}
		i := rapid.IntRange(0, len(w.E)-1).Draw(t, label+"-i")
		if rapid.Bool().Draw(t, label+"-drop") {
			if v.K == "dict" {
				i &^= 1
				w.E = append(w.E[:i:i], w.E[i+2:]...)
			} else {
				w.E = append(w.E[:i:i], w.E[i+1:]...)
			}
			return w
		}
		if p := perturb(t, w.E[i], label+"-e"); p.hashable() || (v.K == "dict" && i%2 == 1) {
			w.E[i] = p
		}
		return w
	case "range":
		return vRange(v.A[0], v.A[1]+int64(rapid.SampledFrom([]int{-1, 1}).Draw(t, label+"-d")), v.A[2])
	case "struct":
		w := V{K: "struct", S: v.S, N: v.N, Names: append([]string(nil), v.Names...), E: append([]V(nil), v.E...)}
		if len(w.E) == 0 {
			w.S = "point"
			return w
		}
		i := rapid.IntRange(0, len(w.E)-1).Draw(t, label+"-i")
		w.E[i] = perturb(t, w.E[i], label+"-f")
		return w
	case "fn":
		return vFn((v.N + 1) % len(fnTable))
	case "bi":
		return vBi((v.N + 1) % len(biTable))
	case "time":
		return vTime(v.A[0], (v.A[1]+1)%1000000000, v.A[2])
	case "dur":
		return vDur(v.A[0] ^ 1)
	}
	return genLeaf().Draw(t, label+"-other")
}

// genRelated draws a value related to x: an equal twin, a near miss, a twin of a near miss,
// the same bytes as the other string type, or an unrelated value.
func genRelated(t *rapid.T, x V, label string) V {
	switch rapid.IntRange(0, 9).Draw(t, label+"-rel") {
	case 0, 1, 2, 3:
		return twin(t, x, label)
	case 4, 5:
		return perturb(t, x, label)
	case 6:
		return twin(t, perturb(t, x, label), label+"t")
	case 7:
		switch x.K {
		case "str":
			return V{K: "bytes", S: x.S}
		case "bytes":
			return V{K: "str", S: x.S}
		case "tuple":
			return V{K: "list", E: x.E}
		case "list":
			return V{K: "tuple", E: x.E}
		case "bool":
			return vInt64(int64(x.N))
		}
		return x
	default:
		return genValue(2).Draw(t, label)
	}
}

// ---------------------------------------------------------------- key lists for sorted / min / max

// genKeyList draws a few atoms of one ordered family (plus twins, so that ties between distinguishable
// values occur) and a sequence over them; occasionally an unordered mixture.
func genKeyList(t *rapid.T) []V {
	fam := rapid.SampledFrom([]string{"num", "num", "num", "str", "bytes", "bool", "tuple", "list", "nested", "time", "dur", "mixed"}).Draw(t, "family")
	var atom *rapid.Generator[V]
	numSeq := func(kind string) *rapid.Generator[V] {
		return rapid.Custom(func(t *rapid.T) V {
			return V{K: kind, E: rapid.SliceOfN(genSmallNum(), 0, 3).Draw(t, "elems")}
		})
	}
	switch fam {
	case "num":
		atom = genNum()
	case "str":
		atom = rapid.Custom(func(t *rapid.T) V { return vStr(genText().Draw(t, "s")) })
	case "bytes":
		atom = rapid.Custom(func(t *rapid.T) V { return vBytes(genText().Draw(t, "s")) })
	case "bool":
		atom = rapid.Custom(func(t *rapid.T) V { return vBool(rapid.Bool().Draw(t, "b")) })
	case "tuple":
		atom = numSeq("tuple")
	case "list":
		atom = numSeq("list")
	case "nested":
		atom = rapid.Custom(func(t *rapid.T) V {
			return vTuple(rapid.SliceOfN(rapid.OneOf(numSeq("tuple"), numSeq("tuple"), rapid.Just(vTuple())), 0, 3).Draw(t, "outer")...)
		})
	case "time":
		atom = genTime()
	case "dur":
		atom = genDur()
	default:
		atom = genValue(1)
	}
	atoms := rapid.SliceOfN(atom, 1, 6).Draw(t, "atoms")
	for i, n := 0, len(atoms); i < n; i++ {
		if rapid.Bool().Draw(t, "addtwin") {
			atoms = append(atoms, twin(t, atoms[i], "tw"))
		}
	}
	maxLen := 40
	n := rapid.IntRange(0, maxLen).Draw(t, "n")
	if rapid.IntRange(0, 9).Draw(t, "short") < 3 {
		n = rapid.IntRange(0, 4).Draw(t, "n-short")
	}
	idx := rapid.SliceOfN(rapid.IntRange(0, len(atoms)-1), n, n).Draw(t, "seq")
	out := make([]V, n)
	for i, k := range idx {
		out[i] = atoms[k]
	}
	return out
}

func genSmallNum() *rapid.Generator[V] {
	return rapid.Custom(func(t *rapid.T) V {
		switch rapid.IntRange(0, 4).Draw(t, "small") {
		case 0:
			return vFloat(float64(rapid.IntRange(-1, 2).Draw(t, "f")))
		case 1:
			return vFloatBits(rapid.SampledFrom(specialFloats).Draw(t, "sp"))
		default:
			return vInt64(int64(rapid.IntRange(-1, 2).Draw(t, "i")))
		}
	})
}
