// Package ref is a reference interpreter for Starlark: a tree walker over a
// freshly parsed syntax tree that does its own scoping (environment
// dictionaries; no slots, cells, stack or jumps), written from doc/spec.md.
// It deliberately shares only the *value layer* with the implementation
// (starlark.Binary, Unary, Compare, Call of built-ins, Iterate, Mapping...):
// the subject under test is resolve -> compile -> VM.
package ref

import (
	"errors"
	"fmt"
	"math/big"
	"sync/atomic"

	"go.starlark.net/starlark"
	"go.starlark.net/syntax"
)

// Frame is one entry of the reference call stack.
type Frame struct {
	Name string
	Pos  syntax.Position
}

// Error is a dynamic failure with the reference call stack (outermost first).
type Error struct {
	Msg   string
	Stack []Frame
	// InCallee is set when the failure happened while entering the callee
	// (argument binding, recursion check): the implementation then reports an
	// additional innermost frame for the callee at an unspecified position.
	InCallee string
	// InSlice: failing operation is a slice expression (no position of its own).
	InSlice   bool
	SliceSpan [2]syntax.Position
	Cause     error
}

func (e *Error) Error() string { return e.Msg }
func (e *Error) Unwrap() error { return e.Cause }

// ErrFuel is returned when the fuel limit is exhausted.
var ErrFuel = errors.New("reference interpreter: out of fuel")

type cell struct{ v starlark.Value }

type env struct {
	vars   map[string]*cell
	parent *env
	fn     *Function // non-nil for a function's own block
}

func (e *env) lookup(name string) *cell {
	for ; e != nil; e = e.parent {
		if c, ok := e.vars[name]; ok {
			return c
		}
	}
	return nil
}

type activation struct {
	name string
	pos  syntax.Position
	code any // *syntax.DefStmt or *syntax.LambdaExpr; nil for toplevel
}

// Module is the result of executing a file.
type Module struct {
	Names   []string // globals in order of first binding
	Globals map[string]*cell
}

func (m *Module) StringDict() starlark.StringDict {
	d := starlark.StringDict{}
	for _, n := range m.Names {
		if v := m.Globals[n].v; v != nil {
			d[n] = v
		}
	}
	return d
}

// Interp executes files on one starlark.Thread.
type Interp struct {
	Thread *starlark.Thread
	Fuel   int
	// Abort, when set (by a memory watchdog), ends the execution like an exhausted fuel budget.
	Abort atomic.Bool
	stack []*activation
}

type fileCtx struct {
	in          *Interp
	opts        *syntax.FileOptions
	predeclared starlark.StringDict
	globals     *Module
	fileLocals  map[string]*cell
	// outer: under GlobalReassign, the uses that stand directly in the file block and denote a
	// predeclared or universal name because no global of that name is bound before them in the text.
	outer map[*syntax.Ident]bool
}

// ExecFile parses and runs src. Static errors (parse) are returned as is.
func (in *Interp) ExecFile(opts *syntax.FileOptions, filename, src string, predeclared starlark.StringDict) (starlark.StringDict, error) {
	f, err := opts.Parse(filename, src, 0)
	if err != nil {
		return nil, err
	}
	fc := &fileCtx{in: in, opts: opts, predeclared: predeclared,
		globals: &Module{Globals: map[string]*cell{}}, fileLocals: map[string]*cell{}}
	// Bindings of the file block.
	var names []string
	collectStmts(f.Stmts, &names)
	for _, n := range names {
		if _, ok := fc.globals.Globals[n]; !ok {
			fc.globals.Globals[n] = &cell{}
			fc.globals.Names = append(fc.globals.Names, n)
		}
	}
	for _, s := range f.Stmts {
		if ld, ok := s.(*syntax.LoadStmt); ok {
			for _, to := range ld.To {
				if opts.LoadBindsGlobally {
					if _, ok := fc.globals.Globals[to.Name]; !ok {
						fc.globals.Globals[to.Name] = &cell{}
						fc.globals.Names = append(fc.globals.Names, to.Name)
					}
				} else {
					fc.fileLocals[to.Name] = &cell{}
				}
			}
		}
	}
	if opts.GlobalReassign {
		// "Global reassign" dialect (resolve.go, comment on AllowGlobalReassign / use): a use that stands directly
		// in the file block is resolved at the point of use, as in Python - it denotes the global only if a binding
		// of it precedes the use in the text, otherwise the predeclared/universal name.
		pp := &pointOfUse{fc: fc, bound: map[string]bool{}}
		fc.outer = map[*syntax.Ident]bool{}
		pp.stmts(f.Stmts)
		if pp.err != nil {
			return nil, pp.err
		}
	}
	top := &activation{name: "<toplevel>"}
	in.stack = append(in.stack, top)
	x := &exec{fc: fc, env: nil, act: top}
	_, _, err = x.stmts(f.Stmts)
	in.stack = in.stack[:len(in.stack)-1]
	g := fc.globals.StringDict()
	g.Freeze()
	return g, err
}

// pointOfUse is the static pass for the GlobalReassign dialect: it walks the statements of the file block in
// textual order (right-hand side before targets, loop operand before loop variables, a def's name before its
// parameter defaults) and classifies every use that stands directly in the file block. Function bodies, lambda
// bodies and the comprehension block (everything but the first iterable) are not in the file block.
type pointOfUse struct {
	fc    *fileCtx
	bound map[string]bool
	err   error
}

func (p *pointOfUse) stmts(ss []syntax.Stmt) {
	for _, s := range ss {
		switch s := s.(type) {
		case *syntax.AssignStmt:
			p.expr(s.RHS)
			p.target(s.LHS)
		case *syntax.ExprStmt:
			p.expr(s.X)
		case *syntax.DefStmt:
			p.bound[s.Name.Name] = true
			p.params(s.Params)
		case *syntax.ForStmt:
			p.expr(s.X)
			p.target(s.Vars)
			p.stmts(s.Body)
		case *syntax.WhileStmt:
			p.expr(s.Cond)
			p.stmts(s.Body)
		case *syntax.IfStmt:
			p.expr(s.Cond)
			p.stmts(s.True)
			p.stmts(s.False)
		case *syntax.LoadStmt:
			for _, to := range s.To {
				p.bound[to.Name] = true
			}
		}
	}
}

func (p *pointOfUse) params(params []syntax.Expr) {
	for _, prm := range params {
		if b, ok := prm.(*syntax.BinaryExpr); ok && b.Op == syntax.EQ {
			p.expr(b.Y)
		}
	}
}

func (p *pointOfUse) target(e syntax.Expr) {
	switch e := e.(type) {
	case *syntax.Ident:
		p.bound[e.Name] = true
	case *syntax.ParenExpr:
		p.target(e.X)
	case *syntax.TupleExpr:
		for _, x := range e.List {
			p.target(x)
		}
	case *syntax.ListExpr:
		for _, x := range e.List {
			p.target(x)
		}
	default:
		p.expr(e)
	}
}

func (p *pointOfUse) expr(e syntax.Expr) {
	switch e := e.(type) {
	case nil:
	case *syntax.Ident:
		if p.bound[e.Name] {
			return
		}
		if _, ok := p.fc.predeclared[e.Name]; ok {
			p.fc.outer[e] = true
		} else if _, ok := starlark.Universe[e.Name]; ok {
			p.fc.outer[e] = true
		} else if p.err == nil {
			p.err = fmt.Errorf("%s: undefined: %s (no binding precedes this top-level use)", e.NamePos, e.Name)
		}
	case *syntax.Literal:
	case *syntax.ParenExpr:
		p.expr(e.X)
	case *syntax.UnaryExpr:
		if e.X != nil {
			p.expr(e.X)
		}
	case *syntax.BinaryExpr:
		p.expr(e.X)
		p.expr(e.Y)
	case *syntax.CondExpr:
		p.expr(e.Cond)
		p.expr(e.True)
		p.expr(e.False)
	case *syntax.ListExpr:
		for _, x := range e.List {
			p.expr(x)
		}
	case *syntax.TupleExpr:
		for _, x := range e.List {
			p.expr(x)
		}
	case *syntax.DictExpr:
		for _, x := range e.List {
			p.expr(x)
		}
	case *syntax.DictEntry:
		p.expr(e.Key)
		p.expr(e.Value)
	case *syntax.IndexExpr:
		p.expr(e.X)
		p.expr(e.Y)
	case *syntax.SliceExpr:
		p.expr(e.X)
		p.expr(e.Lo)
		p.expr(e.Hi)
		p.expr(e.Step)
	case *syntax.DotExpr:
		p.expr(e.X)
	case *syntax.CallExpr:
		p.expr(e.Fn)
		for _, a := range e.Args {
			if b, ok := a.(*syntax.BinaryExpr); ok && b.Op == syntax.EQ {
				p.expr(b.Y)
			} else {
				p.expr(a)
			}
		}
	case *syntax.LambdaExpr:
		p.params(e.Params)
	case *syntax.Comprehension:
		p.expr(e.Clauses[0].(*syntax.ForClause).X)
	}
}

// collectStmts gathers the names bound by statements of one block (not
// descending into nested function bodies or comprehensions).
func collectStmts(stmts []syntax.Stmt, out *[]string) {
	for _, s := range stmts {
		switch s := s.(type) {
		case *syntax.AssignStmt:
			collectTargets(s.LHS, out)
		case *syntax.DefStmt:
			*out = append(*out, s.Name.Name)
		case *syntax.ForStmt:
			collectTargets(s.Vars, out)
			collectStmts(s.Body, out)
		case *syntax.WhileStmt:
			collectStmts(s.Body, out)
		case *syntax.IfStmt:
			collectStmts(s.True, out)
			collectStmts(s.False, out)
		}
	}
}

func collectTargets(e syntax.Expr, out *[]string) {
	switch e := e.(type) {
	case *syntax.Ident:
		*out = append(*out, e.Name)
	case *syntax.ParenExpr:
		collectTargets(e.X, out)
	case *syntax.TupleExpr:
		for _, x := range e.List {
			collectTargets(x, out)
		}
	case *syntax.ListExpr:
		for _, x := range e.List {
			collectTargets(x, out)
		}
	}
}

// ---------------------------------------------------------------- functions

type param struct {
	name    string
	dflt    starlark.Value // nil if required
	kwonly  bool
	hasDflt bool
}

// Function is a function value created by the reference interpreter.
type Function struct {
	name     string
	code     any // *syntax.DefStmt | *syntax.LambdaExpr
	params   []param
	varargs  string // "" if none
	kwargs   string
	body     []syntax.Stmt
	bodyExpr syntax.Expr // lambda
	locals   []string
	closure  *env
	fc       *fileCtx
	frozen   bool
	free     []string
}

var _ starlark.Callable = (*Function)(nil)

// Required reports how many positional arguments a call must supply and which keyword-only parameters have no default.
func (f *Function) Required() (npos int, kwonly []string) {
	for _, p := range f.params {
		switch {
		case p.hasDflt:
		case p.kwonly:
			kwonly = append(kwonly, p.name)
		default:
			npos++
		}
	}
	return
}

func (f *Function) Name() string          { return f.name }
func (f *Function) String() string        { return fmt.Sprintf("<function %s>", f.name) }
func (f *Function) Type() string          { return "function" }
func (f *Function) Truth() starlark.Bool  { return true }
func (f *Function) Hash() (uint32, error) { return starlark.String(f.name).Hash() }
func (f *Function) Freeze() {
	if f.frozen {
		return
	}
	f.frozen = true
	for _, p := range f.params {
		if p.dflt != nil {
			p.dflt.Freeze()
		}
	}
	// captured variables: free names of the body that resolve in enclosing function blocks
	// (a file-local variable - bound by load, or by a top-level comprehension - that a function mentions is captured too)
	for _, n := range f.free {
		if c := f.closure.lookup(n); c != nil {
			if c.v != nil {
				c.v.Freeze()
			}
		} else if c, ok := f.fc.fileLocals[n]; ok && c.v != nil {
			c.v.Freeze()
		}
	}
}

func (x *exec) raise(format string, args ...any) error {
	return x.fc.in.newError(fmt.Sprintf(format, args...), nil)
}

func (in *Interp) newError(msg string, cause error) *Error {
	e := &Error{Msg: msg, Cause: cause}
	for _, a := range in.stack {
		e.Stack = append(e.Stack, Frame{a.name, a.pos})
	}
	return e
}

// wrap converts an error coming out of the value layer (or a nested call)
// into a positioned reference error, unless it already is one.
func (x *exec) wrap(err error) error {
	if err == nil {
		return nil
	}
	var re *Error
	if errors.As(err, &re) {
		return re
	}
	if errors.Is(err, ErrFuel) {
		return err
	}
	return x.fc.in.newError(err.Error(), err)
}

func (f *Function) CallInternal(thread *starlark.Thread, args starlark.Tuple, kwargs []starlark.Tuple) (starlark.Value, error) {
	in := f.fc.in
	if !f.fc.opts.Recursion {
		for _, a := range in.stack {
			if a.code == f.code {
				e := in.newError(fmt.Sprintf("function %s called recursively", f.name), nil)
				e.InCallee = f.name
				return nil, e
			}
		}
	} else if len(in.stack) > 100000 {
		e := in.newError("stack overflow", nil)
		e.InCallee = f.name
		return nil, e
	}
	e := &env{vars: make(map[string]*cell, len(f.locals)), parent: f.closure, fn: f}
	for _, n := range f.locals {
		e.vars[n] = &cell{}
	}
	if msg := f.bind(e, args, kwargs); msg != "" {
		err := in.newError(msg, nil)
		err.InCallee = f.name
		return nil, err
	}
	act := &activation{name: f.name, code: f.code}
	in.stack = append(in.stack, act)
	defer func() { in.stack = in.stack[:len(in.stack)-1] }()
	x := &exec{fc: f.fc, env: e, act: act}
	if f.bodyExpr != nil {
		v, err := x.expr(f.bodyExpr)
		return v, err
	}
	st, v, err := x.stmts(f.body)
	if err != nil {
		return nil, err
	}
	if st == stReturn {
		return v, nil
	}
	return starlark.None, nil
}

// bind implements the parameter-passing rules of the spec ("Function
// definitions" / Python 3): positional arguments fill the non-keyword-only
// parameters in order, surplus goes to *args or is an error; named arguments
// fill any named parameter not yet filled, else go to **kwargs or are an
// error; then defaults; a required parameter left unfilled is an error.
func (f *Function) bind(e *env, args starlark.Tuple, kwargs []starlark.Tuple) string {
	var positional []int
	for i, p := range f.params {
		if !p.kwonly {
			positional = append(positional, i)
		}
	}
	filled := make([]bool, len(f.params))
	n := len(args)
	if n > len(positional) {
		if f.varargs == "" {
			return fmt.Sprintf("%s: too many positional arguments", f.name)
		}
		n = len(positional)
	}
	for i := 0; i < n; i++ {
		e.vars[f.params[positional[i]].name].v = args[i]
		filled[positional[i]] = true
	}
	if f.varargs != "" {
		rest := starlark.Tuple{}
		if len(args) > n {
			rest = append(rest, args[n:]...)
		}
		e.vars[f.varargs].v = rest
	}
	var kwdict *starlark.Dict
	if f.kwargs != "" {
		kwdict = new(starlark.Dict)
		e.vars[f.kwargs].v = kwdict
	}
kw:
	for _, kv := range kwargs {
		k, ok := kv[0].(starlark.String)
		if !ok {
			return "keyword is not a string"
		}
		for i, p := range f.params {
			if p.name == string(k) {
				if filled[i] {
					return fmt.Sprintf("%s: multiple values for parameter %s", f.name, k)
				}
				e.vars[p.name].v = kv[1]
				filled[i] = true
				continue kw
			}
		}
		if kwdict == nil {
			return fmt.Sprintf("%s: unexpected keyword argument %s", f.name, k)
		}
		if _, found, _ := kwdict.Get(k); found {
			return fmt.Sprintf("%s: multiple values for keyword argument %s", f.name, k)
		}
		kwdict.SetKey(k, kv[1])
	}
	for i, p := range f.params {
		if !filled[i] {
			if !p.hasDflt {
				return fmt.Sprintf("%s: missing argument for %s", f.name, p.name)
			}
			e.vars[p.name].v = p.dflt
		}
	}
	return ""
}

// ---------------------------------------------------------------- execution

type status int

const (
	stNormal status = iota
	stBreak
	stContinue
	stReturn
)

type exec struct {
	fc  *fileCtx
	env *env // nil at top level outside comprehensions
	act *activation
}

func (x *exec) tick() error {
	in := x.fc.in
	if in.Abort.Load() {
		in.Fuel = 1
		return ErrFuel
	}
	if in.Fuel > 0 {
		in.Fuel--
		if in.Fuel == 0 {
			return ErrFuel
		}
	}
	return nil
}

func (x *exec) setPos(p syntax.Position) { x.act.pos = p }

func (x *exec) stmts(stmts []syntax.Stmt) (status, starlark.Value, error) {
	for _, s := range stmts {
		st, v, err := x.stmt(s)
		if err != nil || st != stNormal {
			return st, v, err
		}
	}
	return stNormal, nil, nil
}

func (x *exec) stmt(s syntax.Stmt) (status, starlark.Value, error) {
	if err := x.tick(); err != nil {
		return 0, nil, err
	}
	switch s := s.(type) {
	case *syntax.ExprStmt:
		_, err := x.expr(s.X)
		return stNormal, nil, err

	case *syntax.BranchStmt:
		switch s.Token {
		case syntax.BREAK:
			return stBreak, nil, nil
		case syntax.CONTINUE:
			return stContinue, nil, nil
		}
		return stNormal, nil, nil

	case *syntax.IfStmt:
		c, err := x.expr(s.Cond)
		if err != nil {
			return 0, nil, err
		}
		if c.Truth() {
			return x.stmts(s.True)
		}
		return x.stmts(s.False)

	case *syntax.AssignStmt:
		if s.Op == syntax.EQ {
			v, err := x.expr(s.RHS)
			if err != nil {
				return 0, nil, err
			}
			return stNormal, nil, x.assign(s.OpPos, s.LHS, v)
		}
		return stNormal, nil, x.augmented(s)

	case *syntax.DefStmt:
		fn, err := x.makeFunction(s.Name.Name, s, s.Params, s.Body, nil)
		if err != nil {
			return 0, nil, err
		}
		return stNormal, nil, x.bindName(s.Name, fn)

	case *syntax.ForStmt:
		seq, err := x.expr(s.X)
		if err != nil {
			return 0, nil, err
		}
		x.setPos(s.For)
		iter := starlark.Iterate(seq)
		if iter == nil {
			return 0, nil, x.raise("%s value is not iterable", seq.Type())
		}
		defer iter.Done()
		var elem starlark.Value
		for iter.Next(&elem) {
			if err := x.tick(); err != nil {
				return 0, nil, err
			}
			if err := x.assign(s.For, s.Vars, elem); err != nil {
				return 0, nil, err
			}
			st, v, err := x.stmts(s.Body)
			if err != nil {
				return 0, nil, err
			}
			if st == stBreak {
				break
			}
			if st == stReturn {
				return st, v, nil
			}
		}
		return stNormal, nil, nil

	case *syntax.WhileStmt:
		for {
			if err := x.tick(); err != nil {
				return 0, nil, err
			}
			c, err := x.expr(s.Cond)
			if err != nil {
				return 0, nil, err
			}
			if !c.Truth() {
				break
			}
			st, v, err := x.stmts(s.Body)
			if err != nil {
				return 0, nil, err
			}
			if st == stBreak {
				break
			}
			if st == stReturn {
				return st, v, nil
			}
		}
		return stNormal, nil, nil

	case *syntax.ReturnStmt:
		var v starlark.Value = starlark.None
		if s.Result != nil {
			var err error
			v, err = x.expr(s.Result)
			if err != nil {
				return 0, nil, err
			}
		}
		return stReturn, v, nil

	case *syntax.LoadStmt:
		x.setPos(s.Load)
		th := x.fc.in.Thread
		if th.Load == nil {
			return 0, nil, x.raise("load not implemented by this application")
		}
		module := s.Module.Value.(string)
		dict, err := th.Load(th, module)
		if err != nil {
			return 0, nil, x.fc.in.newError(fmt.Sprintf("cannot load %s: %v", module, err), err)
		}
		vals := make([]starlark.Value, len(s.From))
		for i, from := range s.From {
			v, ok := dict[from.Name]
			if !ok {
				return 0, nil, x.raise("load: name %s not found in module %s", from.Name, module)
			}
			vals[i] = v
		}
		for i, to := range s.To {
			if err := x.bindName(to, vals[i]); err != nil {
				return 0, nil, err
			}
		}
		return stNormal, nil, nil
	}
	return 0, nil, fmt.Errorf("ref: unexpected statement %T", s)
}

// cellFor finds the variable a name denotes at this point of the program:
// innermost enclosing blocks first, then file-local, global.
func (x *exec) cellFor(name string) *cell {
	if c := x.env.lookup(name); c != nil {
		return c
	}
	if c, ok := x.fc.fileLocals[name]; ok {
		return c
	}
	if c, ok := x.fc.globals.Globals[name]; ok {
		return c
	}
	return nil
}

func (x *exec) bindName(id *syntax.Ident, v starlark.Value) error {
	c := x.cellFor(id.Name)
	if c == nil {
		return fmt.Errorf("ref: internal error: no binding for %s at %s", id.Name, id.NamePos)
	}
	c.v = v
	return nil
}

func (x *exec) lookup(id *syntax.Ident) (starlark.Value, error) {
	if x.fc.outer[id] {
		if v, ok := x.fc.predeclared[id.Name]; ok {
			return v, nil
		}
		return starlark.Universe[id.Name], nil
	}
	if c := x.cellFor(id.Name); c != nil {
		if c.v == nil {
			x.setPos(id.NamePos)
			return nil, x.raise("variable %s referenced before assignment", id.Name)
		}
		return c.v, nil
	}
	if v, ok := x.fc.predeclared[id.Name]; ok {
		return v, nil
	}
	if v, ok := starlark.Universe[id.Name]; ok {
		return v, nil
	}
	return nil, fmt.Errorf("ref: undefined name %s at %s (static error not expected here)", id.Name, id.NamePos)
}

func (x *exec) assign(pos syntax.Position, lhs syntax.Expr, v starlark.Value) error {
	switch lhs := lhs.(type) {
	case *syntax.ParenExpr:
		return x.assign(pos, lhs.X, v)
	case *syntax.Ident:
		return x.bindName(lhs, v)
	case *syntax.TupleExpr:
		return x.assignSeq(pos, lhs.List, v)
	case *syntax.ListExpr:
		return x.assignSeq(pos, lhs.List, v)
	case *syntax.IndexExpr:
		obj, err := x.expr(lhs.X)
		if err != nil {
			return err
		}
		idx, err := x.expr(lhs.Y)
		if err != nil {
			return err
		}
		x.setPos(lhs.Lbrack)
		return x.wrap(setIndex(obj, idx, v))
	case *syntax.DotExpr:
		obj, err := x.expr(lhs.X)
		if err != nil {
			return err
		}
		x.setPos(lhs.Dot)
		return x.wrap(setField(obj, lhs.Name.Name, v))
	}
	return fmt.Errorf("ref: cannot assign to %T", lhs)
}

func (x *exec) assignSeq(pos syntax.Position, targets []syntax.Expr, v starlark.Value) error {
	x.setPos(pos)
	iter := starlark.Iterate(v)
	if iter == nil {
		return x.raise("got %s in sequence assignment", v.Type())
	}
	vals := make([]starlark.Value, 0, len(targets))
	var elem starlark.Value
	for len(vals) < len(targets) && iter.Next(&elem) {
		vals = append(vals, elem)
	}
	if len(vals) == len(targets) && iter.Next(&elem) {
		iter.Done()
		return x.raise("too many values to unpack")
	}
	iter.Done()
	if len(vals) < len(targets) {
		return x.raise("too few values to unpack")
	}
	for i, t := range targets {
		if err := x.assign(pos, t, vals[i]); err != nil {
			return err
		}
	}
	return nil
}

func unparen(e syntax.Expr) syntax.Expr {
	for {
		p, ok := e.(*syntax.ParenExpr)
		if !ok {
			return e
		}
		e = p.X
	}
}

func (x *exec) augmented(s *syntax.AssignStmt) error {
	op := s.Op - syntax.PLUS_EQ + syntax.PLUS
	apply := func(old, rhs starlark.Value) (starlark.Value, error) {
		x.setPos(s.OpPos)
		switch s.Op {
		case syntax.PLUS_EQ:
			if l, ok := old.(*starlark.List); ok {
				if it, ok := rhs.(starlark.Iterable); ok {
					// in-place extension; the list keeps its identity
					ext, _ := l.Attr("extend")
					if _, err := starlark.Call(x.fc.in.Thread, ext, starlark.Tuple{it}, nil); err != nil {
						return nil, x.fc.in.newError(unwrapMsg(err), err)
					}
					return l, nil
				}
			}
		case syntax.PIPE_EQ:
			if d, ok := old.(*starlark.Dict); ok {
				if r, ok := rhs.(*starlark.Dict); ok {
					upd, _ := d.Attr("update")
					if _, err := starlark.Call(x.fc.in.Thread, upd, starlark.Tuple{r}, nil); err != nil {
						return nil, x.fc.in.newError(unwrapMsg(err), err)
					}
					return d, nil
				}
			}
		}
		z, err := starlark.Binary(op, old, rhs)
		return z, x.wrap(err)
	}
	switch lhs := unparen(s.LHS).(type) {
	case *syntax.Ident:
		old, err := x.lookup(lhs)
		if err != nil {
			return err
		}
		rhs, err := x.expr(s.RHS)
		if err != nil {
			return err
		}
		z, err := apply(old, rhs)
		if err != nil {
			return err
		}
		return x.bindName(lhs, z)
	case *syntax.IndexExpr:
		obj, err := x.expr(lhs.X)
		if err != nil {
			return err
		}
		idx, err := x.expr(lhs.Y)
		if err != nil {
			return err
		}
		x.setPos(lhs.Lbrack)
		old, err := getIndex(obj, idx)
		if err != nil {
			return x.wrap(err)
		}
		rhs, err := x.expr(s.RHS)
		if err != nil {
			return err
		}
		z, err := apply(old, rhs)
		if err != nil {
			return err
		}
		x.setPos(lhs.Lbrack)
		return x.wrap(setIndex(obj, idx, z))
	case *syntax.DotExpr:
		obj, err := x.expr(lhs.X)
		if err != nil {
			return err
		}
		x.setPos(lhs.Dot)
		old, err := getAttr(obj, lhs.Name.Name)
		if err != nil {
			return x.wrap(err)
		}
		rhs, err := x.expr(s.RHS)
		if err != nil {
			return err
		}
		z, err := apply(old, rhs)
		if err != nil {
			return err
		}
		x.setPos(lhs.Dot)
		return x.wrap(setField(obj, lhs.Name.Name, z))
	}
	return fmt.Errorf("ref: bad augmented assignment target %T", s.LHS)
}

func unwrapMsg(err error) string {
	var ee *starlark.EvalError
	if errors.As(err, &ee) {
		return ee.Msg
	}
	return err.Error()
}

// ---------------------------------------------------------------- expressions

func (x *exec) exprs(list []syntax.Expr) ([]starlark.Value, error) {
	vals := make([]starlark.Value, len(list))
	for i, e := range list {
		v, err := x.expr(e)
		if err != nil {
			return nil, err
		}
		vals[i] = v
	}
	return vals, nil
}

func (x *exec) expr(e syntax.Expr) (starlark.Value, error) {
	if err := x.tick(); err != nil {
		return nil, err
	}
	switch e := e.(type) {
	case *syntax.ParenExpr:
		return x.expr(e.X)

	case *syntax.Ident:
		return x.lookup(e)

	case *syntax.Literal:
		switch v := e.Value.(type) {
		case int64:
			return starlark.MakeInt64(v), nil
		case *big.Int:
			return starlark.MakeBigInt(v), nil
		case float64:
			return starlark.Float(v), nil
		case string:
			if e.Token == syntax.BYTES {
				return starlark.Bytes(v), nil
			}
			return starlark.String(v), nil
		}
		return nil, fmt.Errorf("ref: bad literal %T", e.Value)

	case *syntax.ListExpr:
		vals, err := x.exprs(e.List)
		if err != nil {
			return nil, err
		}
		return starlark.NewList(vals), nil

	case *syntax.TupleExpr:
		vals, err := x.exprs(e.List)
		if err != nil {
			return nil, err
		}
		return starlark.Tuple(vals), nil

	case *syntax.DictExpr:
		d := new(starlark.Dict)
		for _, ent := range e.List {
			ent := ent.(*syntax.DictEntry)
			k, err := x.expr(ent.Key)
			if err != nil {
				return nil, err
			}
			v, err := x.expr(ent.Value)
			if err != nil {
				return nil, err
			}
			x.setPos(ent.Colon)
			n := d.Len()
			if err := d.SetKey(k, v); err != nil {
				return nil, x.wrap(err)
			}
			if d.Len() == n {
				return nil, x.raise("duplicate key: %v", k)
			}
		}
		return d, nil

	case *syntax.CondExpr:
		c, err := x.expr(e.Cond)
		if err != nil {
			return nil, err
		}
		if c.Truth() {
			return x.expr(e.True)
		}
		return x.expr(e.False)

	case *syntax.IndexExpr:
		obj, err := x.expr(e.X)
		if err != nil {
			return nil, err
		}
		idx, err := x.expr(e.Y)
		if err != nil {
			return nil, err
		}
		x.setPos(e.Lbrack)
		v, err := getIndex(obj, idx)
		return v, x.wrap(err)

	case *syntax.SliceExpr:
		obj, err := x.expr(e.X)
		if err != nil {
			return nil, err
		}
		parts := [3]starlark.Value{starlark.None, starlark.None, starlark.None}
		for i, p := range []syntax.Expr{e.Lo, e.Hi, e.Step} {
			if p != nil {
				v, err := x.expr(p)
				if err != nil {
					return nil, err
				}
				parts[i] = v
			}
		}
		v, err := starlark.Call(x.fc.in.Thread, sliceHelper, starlark.Tuple{obj, parts[0], parts[1], parts[2]}, nil)
		if err != nil {
			re := x.fc.in.newError(unwrapMsg(err), err)
			re.InSlice = true
			re.SliceSpan[0], re.SliceSpan[1] = e.Span()
			return nil, re
		}
		return v, nil

	case *syntax.Comprehension:
		return x.comprehension(e)

	case *syntax.UnaryExpr:
		v, err := x.expr(e.X)
		if err != nil {
			return nil, err
		}
		x.setPos(e.OpPos)
		if e.Op == syntax.NOT {
			return !v.Truth(), nil
		}
		z, err := starlark.Unary(e.Op, v)
		return z, x.wrap(err)

	case *syntax.BinaryExpr:
		switch e.Op {
		case syntax.OR:
			l, err := x.expr(e.X)
			if err != nil || l.Truth() {
				return l, err
			}
			return x.expr(e.Y)
		case syntax.AND:
			l, err := x.expr(e.X)
			if err != nil || !l.Truth() {
				return l, err
			}
			return x.expr(e.Y)
		}
		l, err := x.expr(e.X)
		if err != nil {
			return nil, err
		}
		r, err := x.expr(e.Y)
		if err != nil {
			return nil, err
		}
		x.setPos(e.OpPos)
		switch e.Op {
		case syntax.EQL, syntax.NEQ, syntax.LT, syntax.GT, syntax.LE, syntax.GE:
			ok, err := starlark.Compare(e.Op, l, r)
			if err != nil {
				return nil, x.wrap(err)
			}
			return starlark.Bool(ok), nil
		case syntax.NOT_IN:
			z, err := starlark.Binary(syntax.IN, l, r)
			if err != nil {
				return nil, x.wrap(err)
			}
			return !z.Truth(), nil
		}
		z, err := starlark.Binary(e.Op, l, r)
		return z, x.wrap(err)

	case *syntax.DotExpr:
		obj, err := x.expr(e.X)
		if err != nil {
			return nil, err
		}
		x.setPos(e.Dot)
		v, err := getAttr(obj, e.Name.Name)
		return v, x.wrap(err)

	case *syntax.CallExpr:
		return x.call(e)

	case *syntax.LambdaExpr:
		return x.makeFunction("lambda", e, e.Params, nil, e.Body)
	}
	return nil, fmt.Errorf("ref: unexpected expression %T", e)
}

func (x *exec) call(e *syntax.CallExpr) (starlark.Value, error) {
	fn, err := x.expr(e.Fn)
	if err != nil {
		return nil, err
	}
	var positional starlark.Tuple
	var named []starlark.Tuple
	var star, starstar syntax.Expr
	for _, a := range e.Args {
		if b, ok := a.(*syntax.BinaryExpr); ok && b.Op == syntax.EQ {
			v, err := x.expr(b.Y)
			if err != nil {
				return nil, err
			}
			named = append(named, starlark.Tuple{starlark.String(b.X.(*syntax.Ident).Name), v})
			continue
		}
		if u, ok := a.(*syntax.UnaryExpr); ok && (u.Op == syntax.STAR || u.Op == syntax.STARSTAR) {
			if u.Op == syntax.STAR {
				star = u.X
			} else {
				starstar = u.X
			}
			continue
		}
		v, err := x.expr(a)
		if err != nil {
			return nil, err
		}
		positional = append(positional, v)
	}
	var starV, starstarV starlark.Value
	if star != nil {
		if starV, err = x.expr(star); err != nil {
			return nil, err
		}
	}
	if starstar != nil {
		if starstarV, err = x.expr(starstar); err != nil {
			return nil, err
		}
	}
	x.setPos(e.Lparen)
	if starstarV != nil {
		m, ok := starstarV.(starlark.IterableMapping)
		if !ok {
			return nil, x.raise("argument after ** must be a mapping, not %s", starstarV.Type())
		}
		for _, item := range m.Items() {
			if _, ok := item[0].(starlark.String); !ok {
				return nil, x.raise("keywords must be strings, not %s", item[0].Type())
			}
			named = append(named, item)
		}
	}
	if starV != nil {
		iter := starlark.Iterate(starV)
		if iter == nil {
			return nil, x.raise("argument after * must be iterable, not %s", starV.Type())
		}
		var elem starlark.Value
		for iter.Next(&elem) {
			positional = append(positional, elem)
		}
		iter.Done()
	}
	v, err := starlark.Call(x.fc.in.Thread, fn, positional, named)
	if err != nil {
		var re *Error
		if errors.As(err, &re) {
			return nil, re
		}
		if errors.Is(err, ErrFuel) {
			return nil, ErrFuel
		}
		return nil, x.fc.in.newError(unwrapMsg(err), err)
	}
	return v, nil
}

func (x *exec) comprehension(c *syntax.Comprehension) (starlark.Value, error) {
	// The first iterable is evaluated in the enclosing block.
	first := c.Clauses[0].(*syntax.ForClause)
	seq0, err := x.expr(first.X)
	if err != nil {
		return nil, err
	}
	ce := &env{vars: map[string]*cell{}, parent: x.env}
	for _, cl := range c.Clauses {
		if f, ok := cl.(*syntax.ForClause); ok {
			var names []string
			collectTargets(f.Vars, &names)
			for _, n := range names {
				if _, ok := ce.vars[n]; !ok {
					ce.vars[n] = &cell{}
				}
			}
		}
	}
	inner := &exec{fc: x.fc, env: ce, act: x.act}
	var list []starlark.Value
	var dict *starlark.Dict
	if c.Curly {
		dict = new(starlark.Dict)
	}
	var run func(i int, seq starlark.Value) error
	run = func(i int, seq starlark.Value) error {
		if i == len(c.Clauses) {
			if c.Curly {
				ent := c.Body.(*syntax.DictEntry)
				k, err := inner.expr(ent.Key)
				if err != nil {
					return err
				}
				v, err := inner.expr(ent.Value)
				if err != nil {
					return err
				}
				inner.setPos(ent.Colon)
				return inner.wrap(dict.SetKey(k, v))
			}
			v, err := inner.expr(c.Body)
			if err != nil {
				return err
			}
			list = append(list, v)
			return nil
		}
		switch cl := c.Clauses[i].(type) {
		case *syntax.IfClause:
			cond, err := inner.expr(cl.Cond)
			if err != nil {
				return err
			}
			if cond.Truth() {
				return run(i+1, nil)
			}
			return nil
		case *syntax.ForClause:
			if seq == nil {
				var err error
				if seq, err = inner.expr(cl.X); err != nil {
					return err
				}
			}
			inner.setPos(cl.For)
			iter := starlark.Iterate(seq)
			if iter == nil {
				return inner.raise("%s value is not iterable", seq.Type())
			}
			defer iter.Done()
			var elem starlark.Value
			for iter.Next(&elem) {
				if err := inner.tick(); err != nil {
					return err
				}
				if err := inner.assign(cl.For, cl.Vars, elem); err != nil {
					return err
				}
				if err := run(i+1, nil); err != nil {
					return err
				}
			}
			return nil
		}
		return fmt.Errorf("ref: bad clause %T", c.Clauses[i])
	}
	if err := run(0, seq0); err != nil {
		return nil, err
	}
	if c.Curly {
		return dict, nil
	}
	return starlark.NewList(list), nil
}

func (x *exec) makeFunction(name string, code any, params []syntax.Expr, body []syntax.Stmt, bodyExpr syntax.Expr) (starlark.Value, error) {
	f := &Function{name: name, code: code, body: body, bodyExpr: bodyExpr, closure: x.env, fc: x.fc}
	seenStar := false
	for _, p := range params {
		switch p := p.(type) {
		case *syntax.Ident:
			f.params = append(f.params, param{name: p.Name, kwonly: seenStar})
		case *syntax.BinaryExpr:
			d, err := x.expr(p.Y)
			if err != nil {
				return nil, err
			}
			f.params = append(f.params, param{name: p.X.(*syntax.Ident).Name, dflt: d, hasDflt: true, kwonly: seenStar})
		case *syntax.UnaryExpr:
			if p.Op == syntax.STAR {
				seenStar = true
				if id, ok := p.X.(*syntax.Ident); ok {
					f.varargs = id.Name
				}
			} else {
				f.kwargs = p.X.(*syntax.Ident).Name
			}
		}
	}
	for _, p := range f.params {
		f.locals = append(f.locals, p.name)
	}
	if f.varargs != "" {
		f.locals = append(f.locals, f.varargs)
	}
	if f.kwargs != "" {
		f.locals = append(f.locals, f.kwargs)
	}
	collectStmts(body, &f.locals)
	// free names (for Freeze): identifiers used anywhere inside that are not locals here.
	used := map[string]bool{}
	var walk func(n syntax.Node) bool
	walk = func(n syntax.Node) bool {
		if id, ok := n.(*syntax.Ident); ok {
			used[id.Name] = true
		}
		return true
	}
	for _, s := range body {
		syntax.Walk(s, walk)
	}
	if bodyExpr != nil {
		syntax.Walk(bodyExpr, walk)
	}
	local := map[string]bool{}
	for _, n := range f.locals {
		local[n] = true
	}
	for n := range used {
		if !local[n] {
			f.free = append(f.free, n)
		}
	}
	return f, nil
}

// ---------------------------------------------------------------- value-layer glue (public interfaces only)

func getAttr(x starlark.Value, name string) (starlark.Value, error) {
	h, ok := x.(starlark.HasAttrs)
	if !ok {
		return nil, fmt.Errorf("%s has no .%s field or method", x.Type(), name)
	}
	v, err := h.Attr(name)
	if err != nil {
		return nil, err
	}
	if v == nil {
		return nil, fmt.Errorf("%s has no .%s field or method", x.Type(), name)
	}
	return v, nil
}

func setField(x starlark.Value, name string, v starlark.Value) error {
	if h, ok := x.(starlark.HasSetField); ok {
		return h.SetField(name, v)
	}
	return fmt.Errorf("can't assign to .%s field of %s", name, x.Type())
}

func getIndex(x, y starlark.Value) (starlark.Value, error) {
	switch x := x.(type) {
	case starlark.Mapping:
		z, found, err := x.Get(y)
		if err != nil {
			return nil, err
		}
		if !found {
			return nil, fmt.Errorf("key %v not in %s", y, x.Type())
		}
		return z, nil
	case starlark.Indexable:
		n := x.Len()
		i, err := starlark.AsInt32(y)
		if err != nil {
			return nil, err
		}
		if i < 0 {
			i += n
		}
		if i < 0 || i >= n {
			return nil, fmt.Errorf("index out of range")
		}
		return x.Index(i), nil
	}
	return nil, fmt.Errorf("unhandled index operation %s[%s]", x.Type(), y.Type())
}

func setIndex(x, y, z starlark.Value) error {
	switch x := x.(type) {
	case starlark.HasSetKey:
		return x.SetKey(y, z)
	case starlark.HasSetIndex:
		n := x.Len()
		i, err := starlark.AsInt32(y)
		if err != nil {
			return err
		}
		if i < 0 {
			i += n
		}
		if i < 0 || i >= n {
			return fmt.Errorf("index out of range")
		}
		return x.SetIndex(i, z)
	}
	return fmt.Errorf("%s value does not support item assignment", x.Type())
}

// sliceHelper performs x[lo:hi:step]; slicing is value-layer behaviour (C13),
// so the reference interpreter delegates it to a one-line compiled function.
var sliceHelper starlark.Value

func init() {
	th := &starlark.Thread{Name: "ref-helpers"}
	g, err := starlark.ExecFileOptions(&syntax.FileOptions{}, th, "refhelpers.star",
		"def slice_(x, lo, hi, step): return x[lo:hi:step]\n", nil)
	if err != nil {
		panic(err)
	}
	sliceHelper = g["slice_"]
}
