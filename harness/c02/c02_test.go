// C02: no program or built-in call can crash the host process.
//
// Every case is executed in a crash-isolated child process (a fatal Go stack
// overflow cannot be recovered in-process): the child runs the pipeline under
// recover() with a step budget and answers {returned, panicked, steps}; if it
// dies the parent classifies the death from its stderr.
package c02

import (
	"encoding/json"
	"errors"
	"fmt"
	"os"
	"path/filepath"
	"runtime/debug"
	"sort"
	"strings"
	"sync"
	"testing"
	"time"

	sjson "go.starlark.net/lib/json"
	smath "go.starlark.net/lib/math"
	stime "go.starlark.net/lib/time"
	"go.starlark.net/starlark"
	"go.starlark.net/starlarkstruct"
	"go.starlark.net/syntax"
	"pgregory.net/rapid"
	"verif/harness/gen"
	"verif/harness/vk"
)

func TestMain(m *testing.M) {
	vk.Describe("three generators, all executed in a child process with a step budget drawn from {100, 1000, 100000} and struct/json/math/time predeclared: "+
		"(source) token soups biased to Starlark tokens, brackets, quotes, backslashes, indentation, NUL and invalid UTF-8; token-level mutations (delete/duplicate/swap/replace/insert deep nesting) of the repository's testdata chunks and of generated programs; "+
		"64 KiB structural bombs of one nesting construct; each under a drawn FileOptions vector. (call) every universe built-in, every method of sample str/bytes/list/dict/set/tuple/struct/time/duration values, struct, json.*, math.*, time.* "+
		"(catalogue discovered at run time) x 0-4 positional and 0-2 keyword arguments from a hostile pool (boundary ints and floats, huge counts, empty/large/frozen/being-iterated/cyclic/deep values, range(1<<62), None, wrong types), "+
		"through starlark.Call and through f(*a, **k) in source. (graph) modules building cyclic graphs through lists, dicts, tuples, structs, records, closures and bound methods, followed by str/repr/==/</hash/json.encode/sorted/in/dict-key/%r/format/freeze. "+
		"Oracle: the child answers 'returned' (value or error) with ExecutionSteps() <= budget; a recovered Go panic, or the death of the child by stack overflow, nil dereference or any fatal error, is a violation. "+
		"Out-of-memory deaths and per-case timeouts are out of the claim and only counted. "+
		"Non-trivial: (source) the text parsed, or was rejected by the scanner/parser with a positioned error; (call) the call got past argument-count validation or had no arguments; (graph) the module built a cycle. Distinct by case.",
		"memory exhaustion by a single huge allocation is outside the claim (deaths classified 'oom' are counted, not reported)",
		"a per-case wall-clock timeout (built-ins do not count steps) is inconclusive, counted, never a violation")
	vk.Main(m, "C02")
}

// ---------------------------------------------------------------- protocol

type Request struct {
	Kind   string   `json:"kind"` // src | call | list
	Src    []byte   `json:"src,omitempty"`
	Opts   int      `json:"opts,omitempty"`
	Budget uint64   `json:"budget,omitempty"`
	Callee string   `json:"callee,omitempty"`
	Args   []string `json:"args,omitempty"`
	KwN    []string `json:"kwn,omitempty"`
	KwV    []string `json:"kwv,omitempty"`
	Recv   string   `json:"recv,omitempty"` // state of the receiver: mutable frozen iterating
	Via    string   `json:"via,omitempty"`  // api | source
	Gen    string   `json:"gen,omitempty"`  // which source generator produced Src (classification only)
	// StackMB caps the Go stack of the child for this request (default 128). Only inputs that nest tens of
	// thousands of levels need more (the parser legitimately uses a few hundred MB on a 64 KiB "((((..."); everywhere
	// else a small cap makes runaway recursion die in a fraction of a second instead of 10-20 s.
	StackMB int `json:"stack_mb,omitempty"`
}

type Reply struct {
	Outcome  string   `json:"outcome"` // value error static panic
	Msg      string   `json:"msg,omitempty"`
	Steps    uint64   `json:"steps,omitempty"`
	Parsed   bool     `json:"parsed,omitempty"`
	Names    []string `json:"names,omitempty"`
	PastArgc bool     `json:"past_argc,omitempty"`
}

func optsOf(v int) *syntax.FileOptions {
	return &syntax.FileOptions{Set: v&1 != 0, While: v&2 != 0, TopLevelControl: v&4 != 0, Recursion: v&8 != 0, GlobalReassign: v&16 != 0, LoadBindsGlobally: v&32 != 0}
}

// ---------------------------------------------------------------- child side

func predeclared() starlark.StringDict {
	return starlark.StringDict{
		"struct": starlark.NewBuiltin("struct", starlarkstruct.Make),
		"module": starlark.NewBuiltin("module", starlarkstruct.MakeModule),
		"json":   sjson.Module,
		"math":   smath.Module,
		"time":   stime.Module,
	}
}

// pool of hostile values; every call builds fresh ones.
var poolNames = []string{
	"none", "true", "i0", "i1", "i-1", "i2^31", "i-2^31-1", "i2^62", "i2^63", "i-2^63", "i2^64", "i2^200", "i7",
	"f0", "f-0", "f0.5", "f1e300", "fnan", "finf", "f-inf", "f2^53",
	"s-empty", "s-a", "s-long", "s-percent", "s-braces", "s-json-deep", "s-invalid-utf8", "s-nul", "b-empty", "b-all",
	"l-empty", "l-ints", "l-mixed", "l-frozen", "l-iterating", "l-cyclic", "l-deep", "l-big", "l-pairs", "l-strs",
	"t-empty", "t-ints", "t-nested-deep", "d-empty", "d-str", "d-int", "d-cyclic", "d-frozen", "d-iterating",
	"set-ints", "set-frozen", "range-small", "range-huge", "range-neg", "struct", "struct-cyclic", "fn-lambda", "fn-fails", "fn-recursive", "builtin-len", "bound-append",
	"time", "duration", "module-json",
	"iter-codepoints", "iter-elems", "iter-bytes-elems", "iter-ords", "iter-empty", "d-keys-view", "l-one", "s-digits", "t-mixed", "s-zeros",
}

var corePool = func() map[string]bool {
	m := map[string]bool{}
	for _, n := range []string{"none", "true", "i0", "i1", "i-1", "i2^31", "i2^63", "i-2^63", "i2^64", "f0", "f0.5", "fnan", "finf", "f-inf", "f2^53",
		"s-a", "s-percent", "s-zeros", "b-all", "l-ints", "t-ints", "d-str", "set-ints", "range-small", "range-huge"} {
		m[n] = true
	}
	return m
}()

var helperFns = func() starlark.StringDict {
	g, err := starlark.ExecFileOptions(&syntax.FileOptions{Recursion: true}, &starlark.Thread{}, "pool.star",
		"ident = lambda *a, **k: a\ndef fails(*a, **k):\n    return 1 // 0\ndef rec(*a, **k):\n    return rec(*a, **k)\n", nil)
	if err != nil {
		panic(err)
	}
	return g
}()

var liveIters []starlark.Iterator

func poolValue(name string) starlark.Value {
	big := func(s string) starlark.Value {
		v, err := starlark.EvalOptions(&syntax.FileOptions{}, &starlark.Thread{}, "pool", s, nil)
		if err != nil {
			panic(err)
		}
		return v
	}
	ints := func() *starlark.List {
		return starlark.NewList([]starlark.Value{starlark.MakeInt(3), starlark.MakeInt(1), starlark.MakeInt(2)})
	}
	switch name {
	case "none":
		return starlark.None
	case "true":
		return starlark.True
	case "i0":
		return starlark.MakeInt(0)
	case "i1":
		return starlark.MakeInt(1)
	case "i-1":
		return starlark.MakeInt(-1)
	case "i7":
		return starlark.MakeInt(7)
	case "i2^31":
		return starlark.MakeInt64(1 << 31)
	case "i-2^31-1":
		return starlark.MakeInt64(-(1 << 31) - 1)
	case "i2^62":
		return starlark.MakeInt64(1 << 62)
	case "i2^63":
		return big("1 << 63")
	case "i-2^63":
		return big("-(1 << 63)")
	case "i2^64":
		return big("1 << 64")
	case "i2^200":
		return big("1 << 200")
	case "f0":
		return starlark.Float(0)
	case "f-0":
		return big("-0.0")
	case "f0.5":
		return starlark.Float(0.5)
	case "f1e300":
		return starlark.Float(1e300)
	case "fnan":
		return big("float('nan')")
	case "finf":
		return big("float('inf')")
	case "f-inf":
		return big("float('-inf')")
	case "f2^53":
		return starlark.Float(1 << 53)
	case "s-zeros":
		return starlark.String("00")
	case "s-empty":
		return starlark.String("")
	case "s-a":
		return starlark.String("a")
	case "s-long":
		return starlark.String(strings.Repeat("ab c\n", 2000))
	case "s-percent":
		return starlark.String("%s %d %r %% %x %c %")
	case "s-braces":
		return starlark.String("{} {0} {x} {{ }} {!r} {")
	case "s-json-deep":
		return starlark.String(strings.Repeat("[", 200000))
	case "s-invalid-utf8":
		return starlark.String("a\xff\xfeb\x80")
	case "s-nul":
		return starlark.String("a\x00b")
	case "b-empty":
		return starlark.Bytes("")
	case "b-all":
		var b []byte
		for i := 0; i < 256; i++ {
			b = append(b, byte(i))
		}
		return starlark.Bytes(b)
	case "l-empty":
		return starlark.NewList(nil)
	case "l-ints":
		return ints()
	case "l-mixed":
		return starlark.NewList([]starlark.Value{starlark.MakeInt(1), starlark.String("a"), starlark.None, starlark.NewList(nil), starlark.Float(0.5)})
	case "l-frozen":
		l := ints()
		l.Freeze()
		return l
	case "l-iterating":
		l := ints()
		liveIters = append(liveIters, l.Iterate())
		return l
	case "l-cyclic":
		l := ints()
		l.Append(l)
		return l
	case "l-deep":
		var v starlark.Value = starlark.NewList(nil)
		for i := 0; i < 20000; i++ {
			v = starlark.NewList([]starlark.Value{v})
		}
		return v
	case "l-big":
		e := make([]starlark.Value, 100000)
		for i := range e {
			e[i] = starlark.MakeInt(i % 7)
		}
		return starlark.NewList(e)
	case "l-pairs":
		return starlark.NewList([]starlark.Value{starlark.Tuple{starlark.String("k"), starlark.MakeInt(1)}, starlark.Tuple{starlark.String("j"), starlark.MakeInt(2)}})
	case "l-strs":
		return starlark.NewList([]starlark.Value{starlark.String("b"), starlark.String("a")})
	case "t-empty":
		return starlark.Tuple{}
	case "t-ints":
		return starlark.Tuple{starlark.MakeInt(1), starlark.MakeInt(2)}
	case "t-nested-deep":
		var v starlark.Value = starlark.Tuple{}
		for i := 0; i < 20000; i++ {
			v = starlark.Tuple{v}
		}
		return v
	case "d-empty":
		return starlark.NewDict(0)
	case "d-str":
		d := starlark.NewDict(2)
		d.SetKey(starlark.String("a"), starlark.MakeInt(1))
		d.SetKey(starlark.String("sep"), starlark.String(","))
		return d
	case "d-int":
		d := starlark.NewDict(2)
		d.SetKey(starlark.MakeInt(1), starlark.MakeInt(1))
		d.SetKey(starlark.Tuple{starlark.MakeInt(1)}, starlark.None)
		return d
	case "d-cyclic":
		d := starlark.NewDict(1)
		d.SetKey(starlark.String("self"), d)
		return d
	case "d-frozen":
		d := starlark.NewDict(1)
		d.SetKey(starlark.String("a"), starlark.MakeInt(1))
		d.Freeze()
		return d
	case "d-iterating":
		d := starlark.NewDict(1)
		d.SetKey(starlark.String("a"), starlark.MakeInt(1))
		liveIters = append(liveIters, d.Iterate())
		return d
	case "set-ints":
		s := starlark.NewSet(2)
		s.Insert(starlark.MakeInt(1))
		s.Insert(starlark.MakeInt(2))
		return s
	case "set-frozen":
		s := starlark.NewSet(1)
		s.Insert(starlark.MakeInt(1))
		s.Freeze()
		return s
	case "range-small":
		return big("range(3)")
	case "range-huge":
		return big("range(1 << 62)")
	case "range-neg":
		return big("range(10, -10, -3)")
	case "struct":
		return starlarkstruct.FromStringDict(starlarkstruct.Default, starlark.StringDict{"a": starlark.MakeInt(1), "b": starlark.NewList(nil)})
	case "struct-cyclic":
		l := starlark.NewList(nil)
		s := starlarkstruct.FromStringDict(starlarkstruct.Default, starlark.StringDict{"l": l})
		l.Append(s)
		return s
	case "fn-lambda":
		return helperFns["ident"]
	case "fn-fails":
		return helperFns["fails"]
	case "fn-recursive":
		return helperFns["rec"]
	case "builtin-len":
		return starlark.Universe["len"]
	case "bound-append":
		v, _ := ints().Attr("append")
		return v
	case "time":
		return stime.Time(time.Unix(1700000000, 5))
	case "duration":
		return stime.Duration(90 * time.Minute)
	case "module-json":
		return sjson.Module
	case "iter-codepoints": // iterables of unknown length
		return big("\"ab\".codepoints()")
	case "iter-elems":
		return big("\"a\".elems()")
	case "iter-bytes-elems":
		return big("b\"xyz\".elems()")
	case "iter-ords":
		return big("\"a\".codepoint_ords()")
	case "iter-empty":
		return big("\"\".codepoints()")
	case "d-keys-view":
		return big("{1: 2, 3: 4}.keys()")
	case "l-one":
		return starlark.NewList([]starlark.Value{starlark.MakeInt(5)})
	case "s-digits":
		return starlark.String("-0012")
	case "t-mixed":
		return starlark.Tuple{starlark.MakeInt(1), starlark.String("a"), starlark.None}
	}
	panic("unknown pool value " + name)
}

type calleeMaker func(recvState string) starlark.Value

func catalogue() map[string]calleeMaker {
	out := map[string]calleeMaker{}
	for name, v := range starlark.Universe {
		if _, ok := v.(*starlark.Builtin); ok {
			v := v
			out["u:"+name] = func(string) starlark.Value { return v }
		}
	}
	recvs := map[string]string{"str": "s-percent", "bytes": "b-all", "list": "l-ints", "dict": "d-str", "set": "set-ints", "time": "time", "duration": "duration", "struct": "struct"}
	for rn, pn := range recvs {
		h, ok := poolValue(pn).(starlark.HasAttrs)
		if !ok {
			continue
		}
		for _, m := range h.AttrNames() {
			pn, m := pn, m
			out["m:"+rn+"."+m] = func(state string) starlark.Value {
				r := poolValue(pn)
				switch state {
				case "frozen":
					r.Freeze()
				case "iterating":
					if it, ok := r.(starlark.Iterable); ok {
						liveIters = append(liveIters, it.Iterate())
					}
				}
				v, _ := r.(starlark.HasAttrs).Attr(m)
				if v == nil {
					return starlark.None
				}
				return v
			}
		}
	}
	for modName, mod := range map[string]*starlarkstruct.Module{"json": sjson.Module, "math": smath.Module, "time": stime.Module} {
		for n, v := range mod.Members {
			if _, ok := v.(starlark.Callable); ok {
				v := v
				out[modName+"."+n] = func(string) starlark.Value { return v }
			}
		}
	}
	for name, fn := range opFns() {
		fn := fn
		out["op:"+name] = func(string) starlark.Value { return fn }
	}
	out["struct"] = func(string) starlark.Value { return starlark.NewBuiltin("struct", starlarkstruct.Make) }
	out["module"] = func(string) starlark.Value { return starlark.NewBuiltin("module", starlarkstruct.MakeModule) }
	return out
}

// opExprs are operators and other non-call constructs applied to pool values: each becomes a callee
// "op:<text>" (a Starlark function compiled from the text), so the interpreter's operator paths see the
// same hostile operands as the built-ins do.
var opExprs = []struct{ params, body string }{
	{"a, b", "return a + b"}, {"a, b", "return a - b"}, {"a, b", "return a * b"}, {"a, b", "return a / b"}, {"a, b", "return a // b"},
	{"a, b", "return a % b"}, {"a, b", "return a & b"}, {"a, b", "return a | b"}, {"a, b", "return a ^ b"}, {"a, b", "return a << b"},
	{"a, b", "return a >> b"}, {"a, b", "return a < b"}, {"a, b", "return a <= b"}, {"a, b", "return a == b"}, {"a, b", "return a != b"},
	{"a, b", "return a in b"}, {"a, b", "return a not in b"}, {"a, b", "return a[b]"}, {"a, b", "return a and b"}, {"a, b", "return a or b"},
	{"a", "return -a"}, {"a", "return +a"}, {"a", "return ~a"}, {"a", "return not a"},
	{"a, b, c", "return a[b:c]"}, {"a, b, c, d", "return a[b:c:d]"}, {"a, b", "return a[::b]"}, {"a, b", "return a[b:]"},
	{"a, b, c", "return a if b else c"}, {"a, b", "return [x for x in a if x in b]"}, {"a, b", "return {a: b}"}, {"a, b", "return {x: b for x in a}"},
	{"a, b", "return (a, b) < (b, a)"}, {"a, b", "return [a, b] == [b, a]"}, {"a, b", "return a(*b)"}, {"a, b", "return a(**b)"}, {"a, b", "return a(b)"},
	{"a, b", "a += b\n    return a"}, {"a, b", "a *= b\n    return a"}, {"a, b", "a |= b\n    return a"}, {"a, b", "a %= b\n    return a"},
	{"a, b, c", "a[b] = c\n    return a"}, {"a, b, c", "a[b] += c\n    return a"}, {"a", "x, y = a\n    return x"}, {"a", "[x, (y, z)] = a\n    return z"},
	{"a, b", "for x in a:\n        b += x\n    return b"}, {"a, b", "for x, y in a:\n        b = b + y\n    return b"},
	{"a, b", "return \"%s %r\" % (a, b)"}, {"a, b", "return a % (b,)"}, {"a, b", "return a.format(b, x = b)"},
	{"a, b", "return sorted(a, key = b)"}, {"a, b", "return [a] * 3 + [b]"}, {"a, b", "return a < b or a > b or a == b"},
}

var (
	opOnce sync.Once
	opMap  map[string]starlark.Value
)

func opFns() map[string]starlark.Value {
	opOnce.Do(func() {
		var sb strings.Builder
		for i, o := range opExprs {
			fmt.Fprintf(&sb, "def op_%d(%s):\n    %s\n", i, o.params, o.body)
		}
		g, err := starlark.ExecFileOptions(&syntax.FileOptions{Set: true}, &starlark.Thread{}, "ops.star", sb.String(), nil)
		if err != nil {
			panic("ops.star: " + err.Error())
		}
		opMap = map[string]starlark.Value{}
		for i, o := range opExprs {
			opMap[strings.ReplaceAll(o.body, "\n    ", "; ")] = g[fmt.Sprintf("op_%d", i)]
		}
	})
	return opMap
}

func handle(req Request) (rep Reply) {
	defer func() {
		if r := recover(); r != nil {
			rep = Reply{Outcome: "panic", Msg: fmt.Sprint(r)}
		}
		for _, it := range liveIters {
			it.Done()
		}
		liveIters = nil
	}()
	mb := req.StackMB
	if mb == 0 {
		mb = 128
	}
	defer debug.SetMaxStack(debug.SetMaxStack(mb << 20))
	switch req.Kind {
	case "list":
		var names []string
		for n := range catalogue() {
			names = append(names, n)
		}
		sort.Strings(names)
		return Reply{Outcome: "value", Names: names}
	case "src":
		th := &starlark.Thread{Name: "c02", Print: func(*starlark.Thread, string) {}}
		th.SetMaxExecutionSteps(req.Budget)
		stime.SetNow(th, func() (time.Time, error) { return time.Unix(1700000000, 0), nil })
		_, err := starlark.ExecFileOptions(optsOf(req.Opts), th, "fuzz.star", req.Src, predeclared())
		rep.Steps = th.ExecutionSteps()
		if err == nil {
			rep.Outcome, rep.Parsed = "value", true
			return
		}
		var se syntax.Error
		switch {
		case errors.As(err, &se):
			rep.Outcome = "static"
			rep.Msg = fmt.Sprintf("%d:%d", se.Pos.Line, se.Pos.Col)
		default:
			if _, ok := err.(*starlark.EvalError); ok {
				rep.Outcome, rep.Parsed = "error", true
			} else {
				rep.Outcome, rep.Parsed = "static", true // resolver error list: the text parsed
			}
		}
		return
	case "call":
		// Calls on pool values need no deep Go stack (the deepest pool value nests 20000 levels); a smaller cap than
		// the 1 GB default makes runaway recursion die in a fraction of a second instead of many seconds.
		mk, ok := catalogue()[req.Callee]
		if !ok {
			return Reply{Outcome: "error", Msg: "unknown callee"}
		}
		fn := mk(req.Recv)
		// a pool name that occurs twice in one request denotes one object (x op x, f(l, l)): aliasing between operands
		made := map[string]starlark.Value{}
		value := func(name string) starlark.Value {
			if v, ok := made[name]; ok {
				return v
			}
			v := poolValue(name)
			made[name] = v
			return v
		}
		var args starlark.Tuple
		for _, a := range req.Args {
			args = append(args, value(a))
		}
		var kwargs []starlark.Tuple
		for i, n := range req.KwN {
			kwargs = append(kwargs, starlark.Tuple{starlark.String(n), value(req.KwV[i])})
		}
		th := &starlark.Thread{Name: "c02", Print: func(*starlark.Thread, string) {}}
		th.SetMaxExecutionSteps(req.Budget)
		stime.SetNow(th, func() (time.Time, error) { return time.Unix(1700000000, 0), nil })
		var err error
		if req.Via == "source" {
			kw := starlark.NewDict(len(kwargs))
			for _, p := range kwargs {
				kw.SetKey(p[0], p[1])
			}
			pre := starlark.StringDict{"CALLEE": fn, "ARGS": args, "KW": kw}
			_, err = starlark.ExecFileOptions(&syntax.FileOptions{}, th, "call.star", "R = CALLEE(*ARGS, **KW)\n", pre)
		} else {
			var v starlark.Value
			v, err = starlark.Call(th, fn, args, kwargs)
			if err == nil {
				useResult(v)
			}
		}
		rep.Steps = th.ExecutionSteps()
		if err == nil {
			rep.Outcome, rep.PastArgc = "value", true
		} else {
			rep.Outcome = "error"
			m := err.Error()
			rep.PastArgc = !(strings.Contains(m, "argument") && (strings.Contains(m, "got ") || strings.Contains(m, "missing") || strings.Contains(m, "unexpected") || strings.Contains(m, "accepts no")))
		}
		return
	}
	return Reply{Outcome: "error", Msg: "bad request"}
}

// useResult does what a host does with a returned value: print it, hash it, compare it, freeze it.
// A malformed value (e.g. a nil element) crashes here rather than at some later, unrelated point.
func useResult(v starlark.Value) {
	if v == nil {
		panic("built-in returned a nil Value without an error")
	}
	if l, ok := v.(*starlark.List); ok && l.Len() > 50000 {
		return
	}
	_ = v.Type()
	_ = v.Truth()
	if len(v.String()) > 1<<22 {
		return
	}
	v.Hash()
	starlark.Equal(v, v)
	if it := starlark.Iterate(v); it != nil {
		var x starlark.Value
		for n := 0; n < 1000 && it.Next(&x); n++ {
			if x == nil {
				it.Done()
				panic("iteration yields a nil Value")
			}
		}
		it.Done()
	}
	v.Freeze()
	_ = v.String()
}

func TestWorker(t *testing.T) {
	if vk.WorkerKind() != "c02" {
		t.Skip("not a worker")
	}
	vk.Serve(func(raw json.RawMessage) any {
		var req Request
		if err := json.Unmarshal(raw, &req); err != nil {
			return Reply{Outcome: "error", Msg: "bad request: " + err.Error()}
		}
		return handle(req)
	})
}

// ---------------------------------------------------------------- parent side

var worker = func() *vk.Worker {
	w := vk.NewWorker("c02")
	w.MemLimitBytes = 20 << 30
	w.Env = []string{"GOMEMLIMIT=6GiB"}
	return w
}()

func classifyKnown(req Request, what string) error {
	err := fmt.Errorf("%s", what)
	if strings.Contains(what, "makeslice: len out of range") || strings.Contains(what, "makeslice: cap out of range") {
		return vk.Known("C02-huge-length-prealloc", err)
	}
	if strings.Contains(what, "stack-overflow") && strings.Contains(what, "starlarkstruct.(*Struct).String") {
		return vk.Known("C02-cyclic-struct-print", err)
	}
	return err
}

// slowCallees remembers built-ins that did not return within the per-case limit when given an
// effectively endless iterable (they do not count interpreter steps): further such cases are skipped and counted.
var slowCallees = map[string]bool{}

func hasHuge(req Request) bool {
	for _, a := range append(append([]string{}, req.Args...), req.KwV...) {
		if a == "range-huge" || a == "l-big" || a == "s-long" {
			return true
		}
	}
	return false
}

// smallOperands: no argument that could legitimately make a built-in work for long or allocate much (huge or deep
// containers, long strings, counts of 2^31 and more, huge floats). A call on such operands that does not return is a hang.
func smallOperands(req Request) bool {
	if req.Kind != "call" {
		return false
	}
	for _, a := range append(append([]string{}, req.Args...), req.KwV...) {
		switch a {
		case "range-huge", "l-big", "s-long", "l-deep", "t-nested-deep", "s-json-deep", "i2^31", "i-2^31-1", "i2^62", "i2^63", "i-2^63", "i2^64", "i2^200",
			"f1e300", "finf", "f-inf", "fnan", "f2^53", "fn-recursive", "l-cyclic", "d-cyclic", "struct-cyclic":
			return false
		}
	}
	return true
}

func checkCase(req Request) error {
	var rep Reply
	if req.Kind == "call" && slowCallees[req.Callee] && hasHuge(req) {
		vk.S.Class("excluded:unbounded-builtin-iteration")
		return nil
	}
	t0 := time.Now()
	limit := 20 * time.Second
	if req.Kind == "call" {
		limit = 8 * time.Second
	}
	err := worker.Do(req, &rep, limit)
	if d := time.Since(t0); d > 500*time.Millisecond && os.Getenv("VERIF_C02_TIMING") != "" {
		fmt.Fprintf(os.Stderr, "SLOW %.1fs kind=%s gen=%s callee=%q args=%v kw=%v src=%q err=%v\n", d.Seconds(), req.Kind, req.Gen, req.Callee, req.Args, req.KwV, clip(string(req.Src), 60), err != nil)
	}
	if err != nil {
		var d *vk.Death
		if errors.As(err, &d) {
			switch d.Kind {
			case "timeout", "oom":
				if smallOperands(req) {
					// not explained by the size of the operands: once more with a generous limit, then it is a hang
					var rep2 Reply
					if err2 := worker.Do(req, &rep2, 60*time.Second); err2 != nil {
						var d2 *vk.Death
						if errors.As(err2, &d2) && (d2.Kind == "timeout" || d2.Kind == "oom") {
							return fmt.Errorf("the call does not return: %s after %v and again after 60 s, with small operands (a built-in that loops without counting steps)", d.Kind, limit)
						}
					}
					vk.S.Class("slow-once-then-returned")
					return nil
				}
				if d.Kind == "oom" {
					vk.S.Class("excluded:out-of-memory")
					return nil
				}
				vk.S.Timeout()
				if req.Kind == "call" && hasHuge(req) {
					slowCallees[req.Callee] = true
				}
				return nil
			case "killed":
				if strings.Contains(d.Detail, "killed") && !strings.Contains(d.Detail, "goroutine") {
					vk.S.Class("excluded:killed")
					return nil
				}
			}
			return classifyKnown(req, fmt.Sprintf("the host process died (%s): %s", d.Kind, firstLines(d.Detail, 40)))
		}
		return fmt.Errorf("worker infrastructure: %v", err)
	}
	if rep.Outcome == "panic" {
		return classifyKnown(req, "Go panic: "+rep.Msg)
	}
	if req.Budget > 0 && rep.Steps > req.Budget {
		return fmt.Errorf("executed %d steps with a budget of %d", rep.Steps, req.Budget)
	}
	switch req.Kind {
	case "src":
		vk.S.Class("src:" + rep.Outcome)
		if req.Gen != "" {
			vk.S.Class("srcgen:" + req.Gen + ":" + rep.Outcome)
		}
		if rep.Parsed || rep.Outcome == "static" {
			vk.S.NonTrivial(string(req.Src) + fmt.Sprint(req.Opts))
		}
		if rep.Parsed {
			vk.S.Class("src:parsed")
			vk.S.Sample("source", rep.Outcome, map[string]any{"src": clip(string(req.Src), 300), "opts": req.Opts, "budget": req.Budget})
		}
	case "call":
		vk.S.Class("call:" + rep.Outcome)
		if rep.PastArgc || len(req.Args)+len(req.KwN) == 0 {
			vk.S.Class("call:past-argument-count")
			vk.S.NonTrivial(fmt.Sprintf("%s|%v|%v|%v|%s|%s", req.Callee, req.Args, req.KwN, req.KwV, req.Recv, req.Via))
			vk.S.Sample("call", rep.Outcome, req)
		}
	}
	return nil
}

func firstLines(s string, n int) string {
	lines := strings.Split(s, "\n")
	if len(lines) > n {
		lines = lines[:n]
	}
	return strings.Join(lines, "\n")
}

func clip(s string, n int) string {
	if len(s) > n {
		return s[:n] + "..."
	}
	return s
}

var subCase = vk.Register("case", checkCase)

// ---------------------------------------------------------------- generators: source

var soup = []string{
	"def", "lambda", "if", "else", "elif", "for", "in", "while", "return", "break", "continue", "pass", "load", "and", "or", "not", "not in",
	"x", "y", "f", "len", "set", "struct", "json", "None", "True", "print", "range",
	"0", "1", "7", "0x1f", "0o7", "0b1", "1.5", "1e3", ".5", "99999", "1e999", "\"s\"", "'t'", "b\"b\"", "r\"\\\"", "\"\"\"tri\nple\"\"\"", "\"%s\"", "\"\\x", "\"\\",
	"+", "-", "*", "/", "//", "%", "**", "&", "|", "^", "~", "<<", ">>", "<", ">", "<=", ">=", "==", "!=", "=", "+=", "-=", "|=", "//=", "<<=",
	"(", ")", "[", "]", "{", "}", ",", ":", ";", ".", "\\\n", "\n", "\n", "\n    ", "\n        ", "\n\t", " ", "  ", "#c\n", "\x00", "\xff", "\xc3\x28", "\r\n", "\r", "*", "**", "@",
	"def f(x):\n    return x\n", "x = [1, 2, 3]\n", "for i in x:\n    pass\n", "[i for i in range(3)]", "f(*x, **{})", "x[1:2]", "x.append(1)\n", "{1: 2}",
}

var corpus []string

func loadCorpus() {
	if corpus != nil {
		return
	}
	for _, pat := range []string{"/repo/starlark/testdata/*.star", "/repo/syntax/testdata/*.star", "/repo/resolve/testdata/*.star", "/repo/lib/*/testdata/*.star"} {
		files, _ := filepath.Glob(pat)
		sort.Strings(files)
		for _, f := range files {
			b, err := os.ReadFile(f)
			if err != nil {
				continue
			}
			for _, chunk := range strings.Split(string(b), "\n---\n") {
				if len(chunk) > 20 && len(chunk) < 6000 {
					corpus = append(corpus, chunk)
				}
			}
		}
	}
	if len(corpus) == 0 {
		corpus = []string{"x = 1\n"}
	}
}

func tokenize(s string) []string {
	var toks []string
	cur := ""
	flush := func() {
		if cur != "" {
			toks = append(toks, cur)
			cur = ""
		}
	}
	for _, r := range s {
		c := string(r)
		if strings.ContainsAny(c, " \n\t()[]{},:.;") {
			flush()
			toks = append(toks, c)
		} else {
			cur += c
		}
	}
	flush()
	return toks
}

var bombs = []string{"(", "[", "{", "-", "not ", "lambda:", "x if x else ", "x.a", "+1", "f(", "[x for x in ", "~", "x[", "{1:", "x or ", "(lambda x:", "*", "\"", "\\\n", "x,", "[[],", "f(x)(", "not not ", "- -", "def f():\n "}

func genSource(t *rapid.T) Request {
	loadCorpus()
	req := Request{Kind: "src", Opts: vk.Uniform(t, 64), Budget: []uint64{100, 1000, 100000}[vk.Uniform(t, 3)]}
	switch vk.Uniform(t, 11) {
	case 10: // well-formed programs whose repetition count sits on an internal limit (255/256 arguments, 2^7, 2^14, 2^16 operands)
		req.Src = []byte(countBoundary(t))
		req.Gen = "count-boundary"
	case 0, 1, 2: // token soup
		n := 1 + vk.Uniform(t, 60)
		var sb strings.Builder
		for i := 0; i < n; i++ {
			sb.WriteString(soup[vk.Uniform(t, len(soup))])
			if vk.Chance(t, 0.5) {
				sb.WriteString(" ")
			}
		}
		req.Src = []byte(sb.String())
	case 3, 4, 5, 6: // mutated corpus chunk or generated program
		var base string
		if vk.Chance(t, 0.5) {
			base = corpus[vk.Uniform(t, len(corpus))]
		} else {
			base = gen.Generate(t, gen.Config{MaxStmts: 15, ErrRate: 0.05, NoLoad: true}).Src
		}
		toks := tokenize(base)
		for m := 0; m < 1+vk.Uniform(t, 4) && len(toks) > 2; m++ {
			i := vk.Uniform(t, len(toks))
			switch vk.Uniform(t, 6) {
			case 0:
				toks = append(toks[:i], toks[i+1:]...)
			case 1:
				toks = append(toks[:i+1], toks[i:]...)
			case 2:
				j := vk.Uniform(t, len(toks))
				toks[i], toks[j] = toks[j], toks[i]
			case 3:
				toks[i] = soup[vk.Uniform(t, len(soup))]
			case 4:
				toks[i] = strings.Repeat(bombs[vk.Uniform(t, len(bombs))], 1+vk.Uniform(t, 3000)) + toks[i]
			case 5:
				toks = toks[:i]
			}
		}
		req.Src = []byte(strings.Join(toks, ""))
	case 7: // a few thousand repetitions of one nesting construct (the 64 KiB ones are enumerated by TestPropBombs)
		b := bombs[vk.Uniform(t, len(bombs))]
		s := strings.Repeat(b, 1+vk.Uniform(t, 4000/len(b)))
		switch vk.Uniform(t, 3) {
		case 0:
			s = "x = " + s
		case 1:
			s = s + "0"
		}
		req.Src = []byte(s)
		req.Gen = "small-bomb"
	case 8: // random bytes biased to ASCII
		n := vk.Uniform(t, 200)
		b := make([]byte, n)
		for i := range b {
			if vk.Chance(t, 0.8) {
				b[i] = byte(32 + vk.Uniform(t, 95))
			} else {
				b[i] = byte(vk.Uniform(t, 256))
			}
		}
		req.Src = b
	case 9: // cyclic graph programs
		return genGraph(t)
	}
	if len(req.Src) > 65536 {
		req.Src = req.Src[:65536]
	}
	return req
}

// countBoundary renders one construct repeated n times, n on or next to a limit of the resolver, compiler or
// instruction encoding (255 arguments; 7-, 14- and 16-bit operands), inside an otherwise valid program.
func countBoundary(t *rapid.T) string {
	base := []int{127, 128, 255, 256, 257, 16383, 16384, 65535, 65536}[vk.Uniform(t, 9)]
	n := base + vk.Uniform(t, 3) - 1
	rep := func(unit func(i int) string, sep string, max int) string {
		m := n
		if m > max {
			m = max
		}
		parts := make([]string, m)
		for i := range parts {
			parts[i] = unit(i)
		}
		return strings.Join(parts, sep)
	}
	lit := func(i int) string { return "0" }
	name := func(i int) string { return fmt.Sprintf("a%d", i) }
	named := func(i int) string { return fmt.Sprintf("a%d=0", i) }
	pre := "def f(*a, **k):\n    return len(a) + len(k)\nL = [1, 2]\nD = {\"z\": 1}\n"
	switch vk.Uniform(t, 16) {
	case 0:
		return pre + "r = f(" + rep(lit, ",", 20000) + ")\n"
	case 1:
		return pre + "r = f(" + rep(named, ",", 8000) + ")\n"
	case 2:
		return pre + "r = f(" + rep(lit, ",", 20000) + ", *L, **D)\n"
	case 3:
		return pre + "r = f(0, " + rep(named, ",", 8000) + ", **D)\n"
	case 4:
		return "def g(" + rep(name, ",", 10000) + "):\n    return a0\nr = g(" + rep(lit, ",", 10000) + ")\n"
	case 5:
		return "def g(" + rep(named, ",", 8000) + "):\n    return a0\nr = g()\nr2 = g(1, a1 = 2)\n"
	case 6:
		return "def g(*, " + rep(named, ",", 8000) + "):\n    return a0\nr = g(a0 = 1)\n"
	case 7:
		return "r = [" + rep(lit, ",", 30000) + "]\nq = (" + rep(lit, ",", 1000) + ",)\n"
	case 8:
		return "r = {" + rep(func(i int) string { return fmt.Sprintf("%d:0", i) }, ",", 9000) + "}\n"
	case 9:
		return "def g():\n" + rep(func(i int) string { return fmt.Sprintf("    a%d = %d\n", i, i) }, "", 5000) + "    return a0\nr = g()\n"
	case 10:
		// many variables captured by a nested function (cells and free variables)
		return "def g():\n" + rep(func(i int) string { return fmt.Sprintf("    a%d = %d\n", i, i) }, "", 3000) + "    def h():\n        return " +
			rep(name, "+", 3000) + "\n    return h\nr = g()()\n"
	case 11:
		return rep(func(i int) string { return fmt.Sprintf("g%d = \"s%d\"\n", i, i) }, "", 4500) + "r = g0\n"
	case 12:
		return "x = [0] * " + fmt.Sprint(n) + "\n" + rep(name, ",", 9000) + ", = x[:" + fmt.Sprint(min(n, 9000)) + "]\n"
	case 13:
		return "r = " + rep(func(i int) string { return "1" }, "+", 30000) + "\ns = " + rep(func(i int) string { return "\"a\"" }, "+", 15000) + "\n"
	case 14:
		return "def g(x):\n    if x == 0:\n        return 0\n" + rep(func(i int) string { return fmt.Sprintf("    elif x == %d:\n        return %d\n", i+1, i) }, "", 1800) + "    return -1\nr = g(" + fmt.Sprint(n) + ")\n"
	default:
		return pre + "def g():\n    return f(" + rep(func(i int) string { return "*L" }, ",", 2) + ")\nr = [" + rep(func(i int) string { return "x" }, ",", 3) + " for x in range(" + fmt.Sprint(n) + ")]\n" +
			"s = \"%s\" * " + fmt.Sprint(n) + " % (" + rep(lit, ",", 20000) + ",)\n"
	}
}

var graphOps = []string{
	"str(%s)", "repr(%s)", "%s == %s", "%s != %s", "%s < %s", "hash(%s)", "json.encode(%s)", "sorted([%s, %s])", "%s in [%s]", "{%s: 1}", "print(%s)",
	"\"%%r %%s\" %% (%s, %s)", "\"{} {!r}\".format(%s, %s)", "[%s] * 3", "list(%s)", "dict(%s)", "len(%s)", "bool(%s)", "type(%s)", "dir(%s)", "%s + %s", "min(%s, %s)",
	"json.encode_indent(%s)", "struct(a = %s).to_json()", "[x for x in %s]", "set([%s])", "any(%s)", "tuple(%s)", "max([%s], key = str)",
}

// cyclic constructions incl. the ones the property names; %[1]s is a suffix so that two isomorphic copies can be built
var cyclicExtras = []struct{ name, src string }{
	{"cyc_l", "cyc_l%[1]s = []\ncyc_l%[1]s.append(cyc_l%[1]s)\n"},
	{"cyc_d", "cyc_d%[1]s = {}\ncyc_d%[1]s[\"k\"] = cyc_d%[1]s\n"},
	{"cyc_t", "cyc_t%[1]s = ([],)\ncyc_t%[1]s[0].append(cyc_t%[1]s)\n"},
	{"cyc_f", "def mk_self%[1]s():\n    def g(): return g\n    return g\ncyc_f%[1]s = mk_self%[1]s()\n"},
	{"cyc_s", "cyc_sl%[1]s = []\ncyc_s%[1]s = struct(x = cyc_sl%[1]s)\ncyc_sl%[1]s.append(cyc_s%[1]s)\n"},
	{"cyc_bm", "cyc_bm%[1]s = []\ncyc_bm%[1]s.append(cyc_bm%[1]s.append)\n"},
	{"cyc_ld", "cyc_ld%[1]s = [{}]\ncyc_ld%[1]s[0][\"l\"] = cyc_ld%[1]s\n"},
	{"cyc_c", "def mk_cell%[1]s():\n    box = []\n    def h(): return box\n    box.append(h)\n    return h\ncyc_c%[1]s = mk_cell%[1]s()\n"},
	{"cyc_dd", "cyc_dd%[1]s = {\"a\": {}}\ncyc_dd%[1]s[\"a\"][\"b\"] = cyc_dd%[1]s\n"},
	{"cyc_dt", "cyc_dt%[1]s = {}\ncyc_dt%[1]s[\"t\"] = (cyc_dt%[1]s, 1)\n"},
	{"cyc_sd", "cyc_sdd%[1]s = {}\ncyc_sd%[1]s = struct(d = cyc_sdd%[1]s)\ncyc_sdd%[1]s[\"s\"] = cyc_sd%[1]s\n"},
}

func renderOp(i int, op, a, b string) string {
	n := strings.Count(strings.ReplaceAll(op, "%%", ""), "%s")
	args := []any{a, b}[:n]
	return fmt.Sprintf("r%d = "+op+"\n", append([]any{i}, args...)...)
}

func genGraph(t *rapid.T) Request {
	m := gen.GenModule(t, false)
	var sb strings.Builder
	sb.WriteString(m.Src)
	names := []string{"None"}
	for _, v := range m.Vars {
		names = append(names, v.Name)
	}
	var cyc []string
	for i := 0; i < 1+vk.Uniform(t, 3); i++ {
		e := cyclicExtras[vk.Uniform(t, len(cyclicExtras))]
		sb.WriteString(fmt.Sprintf(e.src, ""))
		sb.WriteString(fmt.Sprintf(e.src, "_2")) // an isomorphic second copy
		names = append(names, e.name, e.name+"_2")
		cyc = append(cyc, e.name, e.name+"_2")
	}
	for i := 0; i < 1+vk.Uniform(t, 4); i++ {
		op := graphOps[vk.Uniform(t, len(graphOps))]
		a, b := names[vk.Uniform(t, len(names))], names[vk.Uniform(t, len(names))]
		if vk.Chance(t, 0.6) {
			a = cyc[vk.Uniform(t, len(cyc))]
			switch vk.Uniform(t, 3) {
			case 0:
				b = a
			case 1:
				b = strings.TrimSuffix(a, "_2") + "_2"
			}
		}
		sb.WriteString(renderOp(i, op, a, b))
	}
	opts := 8 // recursion on, so that self-referential closures may be defined
	if m.Set {
		opts |= 1
	}
	return Request{Kind: "src", Src: []byte(sb.String()), Opts: opts, Budget: 100000}
}

// Every cyclic construction x every operation, with the same value on both sides and with two isomorphic copies.
func TestPropGraphCatalogue(t *testing.T) {
	defer worker.Recycle()
	vk.S.SetExhaustive("cyclic-constructions-x-operations-x-{same,isomorphic}", true)
	vk.Enum(t, subCase, func(yield func(Request) bool) {
		i := 0
		for _, e := range cyclicExtras {
			for _, op := range graphOps {
				for _, second := range []string{e.name, e.name + "_2"} {
					i++
					if !vk.Mine(i) {
						continue
					}
					src := fmt.Sprintf(e.src, "") + fmt.Sprintf(e.src, "_2") + renderOp(0, op, e.name, second)
					if !yield(Request{Kind: "src", Src: []byte(src), Opts: 9, Budget: 100000}) {
						return
					}
				}
			}
		}
	})
}

func TestPropSources(t *testing.T) {
	defer worker.Recycle()
	vk.Rapid(t, subCase, vk.N(900, 12000), genSource)
}

// ---------------------------------------------------------------- generators: calls

var calleeNames []string

func loadCallees() error {
	if calleeNames != nil {
		return nil
	}
	var rep Reply
	if err := worker.Do(Request{Kind: "list"}, &rep, 60*time.Second); err != nil {
		return err
	}
	calleeNames = rep.Names
	return nil
}

var kwNames = []string{"key", "reverse", "sep", "x", "default", "start", "end", "base", "indent", "prefix", "count", "maxsplit", "keepends", "year", "location", "a", ""}

func genCall(t *rapid.T) Request {
	req := Request{Kind: "call", Callee: calleeNames[vk.Uniform(t, len(calleeNames))], Budget: []uint64{100, 1000, 100000}[vk.Uniform(t, 3)],
		Recv: []string{"mutable", "mutable", "frozen", "iterating"}[vk.Uniform(t, 4)], Via: []string{"api", "api", "source"}[vk.Uniform(t, 3)]}
	for i := 0; i < vk.Uniform(t, 5); i++ {
		req.Args = append(req.Args, poolNames[vk.Uniform(t, len(poolNames))])
	}
	if vk.Chance(t, 0.3) {
		for i := 0; i < 1+vk.Uniform(t, 2); i++ {
			req.KwN = append(req.KwN, kwNames[vk.Uniform(t, len(kwNames))])
			req.KwV = append(req.KwV, poolNames[vk.Uniform(t, len(poolNames))])
		}
	}
	return req
}

// 64 KiB of one nesting construct, in three framings, each under a seeded option vector: enumerated.
func TestPropBombs(t *testing.T) {
	defer worker.Recycle()
	vk.S.SetExhaustive("64KiB-bomb-per-nesting-construct-x-3-framings", true)
	vk.Enum(t, subCase, func(yield func(Request) bool) {
		i := 0
		for _, b := range bombs {
			for framing := 0; framing < 3; framing++ {
				i++
				if !vk.Mine(i) {
					continue
				}
				s := strings.Repeat(b, 65536/len(b))
				switch framing {
				case 0:
					s = "x = " + s[:len(s)-8]
				case 1:
					s = s + "0"
				}
				if len(s) > 65536 {
					s = s[:65536]
				}
				opts := (i*7 + vk.Seed()*13) % 64
				if !yield(Request{Kind: "src", Src: []byte(s), Opts: opts, Budget: 100000, Gen: "bomb-64k", StackMB: 1024}) {
					return
				}
			}
		}
	})
}

func TestPropCalls(t *testing.T) {
	defer worker.Recycle()
	if err := loadCallees(); err != nil {
		t.Fatalf("cannot list callees: %v", err)
	}
	vk.Rapid(t, subCase, vk.N(2500, 40000), genCall)
}

// Every callee with no argument and with each single pool value (exhaustive over callee x pool for arity <= 1).
func TestPropCallsArity1(t *testing.T) {
	defer worker.Recycle()
	if err := loadCallees(); err != nil {
		t.Fatalf("cannot list callees: %v", err)
	}
	vk.S.SetExhaustive("every-callee-x-every-pool-value-arity<=1", true)
	vk.Enum(t, subCase, func(yield func(Request) bool) {
		i := 0
		for _, c := range calleeNames {
			i++
			if vk.Mine(i) && !yield(Request{Kind: "call", Callee: c, Budget: 100000, Recv: "mutable", Via: "api"}) {
				return
			}
			for _, p := range poolNames {
				i++
				if !vk.Mine(i) {
					continue
				}
				if !vk.Thorough() && (i+vk.Seed())%3 != 0 {
					continue
				}
				if !yield(Request{Kind: "call", Callee: c, Args: []string{p}, Budget: 100000, Recv: "mutable", Via: "api"}) {
					return
				}
			}
		}
	})
}

// Every callee with ordered pairs of pool values (thorough: every pair for the operator callees, a seeded sixth for the built-ins; quick: core pairs for the operators, seeded slices otherwise).
func TestPropCallsArity2(t *testing.T) {
	defer worker.Recycle()
	if err := loadCallees(); err != nil {
		t.Fatalf("cannot list callees: %v", err)
	}
	vk.S.SetExhaustive("every-operator-callee-x-every-ordered-pair-of-pool-values", vk.Thorough())
	vk.Enum(t, subCase, func(yield func(Request) bool) {
		i := 0
		for _, c := range calleeNames {
			for _, p := range poolNames {
				for _, q := range poolNames {
					i++
					if !vk.Mine(i) {
						continue
					}
					// quick: a seeded 1/300 slice of the pairs; for the operator callees every pair of the core pool
					// (boundary scalars and one value of each container kind) and 1/64 of the other pairs
					if vk.Thorough() {
						// thorough: every pair for the operator callees, a seeded sixth of the pairs for the ~300 built-ins and methods
						if !strings.HasPrefix(c, "op:") && (i/2+vk.Seed()*7)%6 != 0 {
							continue
						}
					} else {
						every := 300
						if strings.HasPrefix(c, "op:") {
							every = 64
							if corePool[p] && corePool[q] {
								every = 1
							}
						}
						if (i/2+vk.Seed()*7)%every != 0 {
							continue
						}
					}
					if !yield(Request{Kind: "call", Callee: c, Args: []string{p, q}, Budget: 100000, Recv: "mutable", Via: []string{"api", "source"}[i%2]}) {
						return
					}
				}
			}
		}
	})
}

func TestReplay(t *testing.T) {
	defer worker.Recycle()
	vk.Replay(t)
}

// FuzzSource is the coverage-guided stage of the thorough tier (go test -fuzz): arbitrary bytes as source text under
// an arbitrary option vector, executed in the crash-isolated child with the same oracle as the generated cases.
func FuzzSource(f *testing.F) {
	loadCorpus()
	for i, c := range corpus {
		if i%7 == 0 && len(c) < 1500 {
			f.Add([]byte(c), uint8(i))
		}
	}
	for _, b := range bombs {
		f.Add([]byte(strings.Repeat(b, 40)), uint8(8))
	}
	f.Add([]byte("l = []\nl.append(l)\nprint(l, {1: l}, (l,))\n"), uint8(0))
	f.Add([]byte("def f(x):\n    return f(x)\nf(1)\n"), uint8(8))
	f.Fuzz(func(t *testing.T, src []byte, opts uint8) {
		if len(src) > 65536 {
			return
		}
		req := Request{Kind: "src", Src: src, Opts: int(opts) % 64, Budget: 1000, StackMB: 1024}
		if err := subCase.Check(req); err != nil {
			vk.Violation("case", req, err)
			t.Fatalf("%v", err)
		}
	})
}
