package c10

// Sub-checks "mixed" (int with float: comparison, arithmetic, conversion, math.floor/ceil/round,
// Go conversion API) and "order" (min/max/sorted over mixed ints and floats).

import (
	"fmt"
	"math"
	"math/big"
	"sort"
	"strings"
	"testing"

	"go.starlark.net/starlark"
	"go.starlark.net/syntax"
	"pgregory.net/rapid"
	"verif/harness/vk"
)

type MixedCase struct {
	X  string `json:"x"`
	F  uint64 `json:"f"` // float64 bit pattern
	SX int    `json:"sx"`
	SF int    `json:"sf"` // float rendering mode; 3 = pass the float through the environment
}

// floatModExact: round-to-nearest of x - y*floor(x/y) computed exactly (x, y finite, y != 0).
// ok is false when the exact remainder is zero (either signed zero is then acceptable).
func floatModExact(x, y float64) (r float64, isZero bool) {
	rx, ry := ratOfFloat(x), ratOfFloat(y)
	q := new(big.Rat).Quo(rx, ry)
	fl, _ := floorDivMod(q.Num(), q.Denom()) // Denom > 0
	rem := new(big.Rat).Sub(rx, new(big.Rat).Mul(ry, new(big.Rat).SetInt(fl)))
	if rem.Sign() == 0 {
		return 0, true
	}
	f, _ := rem.Float64() // nearest, ties to even
	return f, false
}

func checkMixed(c MixedCase) error {
	x, ok := parseInt(c.X)
	if !ok {
		return fmt.Errorf("malformed case")
	}
	f := math.Float64frombits(c.F)
	var es errs
	e := newEv()
	lx := spell(x, c.SX)
	var lf string
	if c.SF%4 == 3 {
		lf = "F"
		e.env["F"] = starlark.Float(f)
	} else {
		lf = floatSrc(f, c.SF%4)
	}
	if err := e.exec("x = " + lx + "\nf = " + lf + "\n"); err != nil {
		return fmt.Errorf("operands failed: %v", err)
	}
	es.add(intIs("x = "+lx, e.env["x"], x))
	if got, ok := e.env["f"].(starlark.Float); !ok || !sameFloat(float64(got), f) {
		// decimal -> float conversion of the literal is itself a numeric conversion: report it
		return fmt.Errorf("f = %s evaluates to %v, want %s", lf, e.env["f"], fbits(f))
	}
	X, F := mkInt(x), starlark.Float(f)
	fx, ovf := intToFloat(x) // float(x) per spec: nearest; too large -> may fail
	nan := math.IsNaN(f)
	finite := !nan && !math.IsInf(f, 0)
	nt := interestingInt(x) || interestingFloat(f)

	// ---- comparisons, exact
	var probes []probe
	ctx := fmt.Sprintf(" with x = %s, f = %s", short(lx), fbits(f))
	for _, op := range cmpOps {
		op := op
		s1, s2 := "x "+op.sym+" f", "f "+op.sym+" x"
		g1, gerr1 := starlark.Compare(op.tok, X, F)
		g2, gerr2 := starlark.Compare(op.tok, F, X)
		vk.S.Class("op:int" + op.sym + "float")
		if nan {
			// not asserted beyond "is a bool and the two routes agree"
			vk.S.Class("cmp:nan-unasserted")
			probes = append(probes, probe{s1, true, func(v starlark.Value, err error) error {
				if b, ok := v.(starlark.Bool); err != nil || gerr1 != nil || !ok || bool(b) != g1 {
					return fmt.Errorf("%s%s: %v, %v (API %v, %v)", s1, ctx, v, err, g1, gerr1)
				}
				return nil
			}}, probe{s2, true, func(v starlark.Value, err error) error {
				if b, ok := v.(starlark.Bool); err != nil || gerr2 != nil || !ok || bool(b) != g2 {
					return fmt.Errorf("%s%s: %v, %v (API %v, %v)", s2, ctx, v, err, g2, gerr2)
				}
				return nil
			}})
			continue
		}
		cmp := cmpIntFloat(x, f)
		probes = append(probes, pBool(s1, ctx, op.ok(cmp)), pBool(s2, ctx, op.ok(-cmp)))
		es.add(wantBool("Compare(int,float) "+op.sym+ctx, starlark.Bool(g1), gerr1, op.ok(cmp)))
		es.add(wantBool("Compare(float,int) "+op.sym+ctx, starlark.Bool(g2), gerr2, op.ok(-cmp)))
	}
	if !nan {
		// the most common way to get this wrong is to compare float(x) with f
		if cmpIntFloat(x, f) != 0 && !ovf && fx == f {
			vk.S.Class("cmp:differs-but-float(x)==f")
			nt = true
		}
	}

	// ---- arithmetic: as if the int were first converted to float
	type arith struct {
		sym  string
		tok  syntax.Token
		aug  string
		calc func(a, b float64) (want float64, defined, anyZero bool) // defined=false: not asserted
		zero string                                                   // "" or reason why a zero right operand must fail
	}
	ieee := func(fn func(a, b float64) float64) func(a, b float64) (float64, bool, bool) {
		return func(a, b float64) (float64, bool, bool) { return fn(a, b), true, false }
	}
	fin := func(v float64) bool { return !math.IsNaN(v) && !math.IsInf(v, 0) }
	ops := []arith{
		{"+", syntax.PLUS, "iadd", ieee(func(a, b float64) float64 { return a + b }), ""},
		{"-", syntax.MINUS, "isub", ieee(func(a, b float64) float64 { return a - b }), ""},
		{"*", syntax.STAR, "imul", ieee(func(a, b float64) float64 { return a * b }), ""},
		{"/", syntax.SLASH, "idiv", ieee(func(a, b float64) float64 { return a / b }), "division by zero"},
		{"//", syntax.SLASHSLASH, "ifloordiv", ieee(func(a, b float64) float64 { return math.Floor(a / b) }), "division by zero"},
		{"%", syntax.PERCENT, "imod", func(a, b float64) (float64, bool, bool) {
			if !fin(a) || !fin(b) {
				return 0, false, false
			}
			r, isZero := floatModExact(a, b)
			return r, true, isZero
		}, "modulo by zero"},
	}
	for _, op := range ops {
		vk.S.Class("op:int" + op.sym + "float")
		for side := 0; side < 2; side++ {
			var src string
			var a, b float64
			var A, B starlark.Value
			if side == 0 {
				src, a, b, A, B = "x "+op.sym+" f", fx, f, X, F
			} else {
				src, a, b, A, B = "f "+op.sym+" x", f, fx, F, X
			}
			gv, gerr := starlark.Binary(op.tok, A, B)
			av, aerr := e.call(op.aug, A, B)
			if op.zero != "" && b == 0 && !(side == 1 && ovf) {
				zero := op.zero
				probes = append(probes, probe{src, false, func(v starlark.Value, err error) error { return wantFail(src+ctx, v, err, zero) }})
				es.add(wantFail("Binary "+src+ctx, gv, gerr, op.zero))
				es.add(wantFail("augmented "+src+ctx, av, aerr, op.zero))
				continue
			}
			want, defined, anyZero := op.calc(a, b)
			if !defined {
				vk.S.Class("mod:nonfinite-unasserted")
				continue
			}
			isMod := op.sym == "%"
			probes = append(probes, probe{src, !ovf, func(v starlark.Value, err error) error {
				if ferr := wantFloat(src+ctx, v, err, want, ovf, anyZero); ferr != nil {
					return ferr
				}
				if isMod && err == nil && !ovf {
					// sign-of-divisor rule of the spec, on the implementation's own result
					if r, ok := v.(starlark.Float); ok && r != 0 && (r < 0) != (b < 0) {
						return fmt.Errorf("%s = %v does not take the sign of the divisor%s", src, r, ctx)
					}
				}
				return nil
			}})
			es.add(wantFloat("Binary "+src+ctx, gv, gerr, want, ovf, anyZero))
			es.add(wantFloat("augmented "+src+ctx, av, aerr, want, ovf, anyZero))
		}
	}

	// ---- conversions
	{
		vk.S.Class("op:float(int)")
		probes = append(probes, probe{"float(x)", !ovf, func(v starlark.Value, err error) error {
			if ovf && err == nil {
				return fmt.Errorf("float(%s) = %v: an int that rounds to infinity must be rejected", short(lx), v)
			}
			return wantFloat("float("+short(lx)+")", v, err, fx, ovf, false)
		}})
		if got := float64(X.Float()); !sameFloat(got, fx) { // Int.Float is documented as "nearest", may be infinite
			es.add(fmt.Errorf("Int(%s).Float() = %s, want %s", short(c.X), fbits(got), fbits(fx)))
		}
		if got, ok := starlark.AsFloat(X); !ok || !sameFloat(got, fx) {
			es.add(fmt.Errorf("AsFloat(Int(%s)) = %s, want %s", short(c.X), fbits(got), fbits(fx)))
		}
		if !ovf {
			// float(x) round trip: int(float(x)) is the exact value of the float
			probes = append(probes, pInt("int(float(x))", ctx, floatTrunc(fx)))
			if x.CmpAbs(two53) <= 0 && floatTrunc(fx).Cmp(x) != 0 {
				return fmt.Errorf("oracle self-check: float(%s) not exact", x)
			}
		}
	}
	{
		vk.S.Class("op:int(float)")
		g, gerr := starlark.NumberToInt(F)
		if !finite {
			for _, src := range []string{"int(f)", "'%d' % f", "math.floor(f)", "math.ceil(f)"} {
				src := src
				probes = append(probes, probe{src, false, func(v starlark.Value, err error) error { return wantFail(src+ctx, v, err, "not finite") }})
			}
			es.add(wantFail("NumberToInt(f)"+ctx, g, gerr, "not finite"))
		} else {
			tr := floatTrunc(f)
			nt = nt || interestingInt(tr)
			es.add(wantInt("NumberToInt(f)"+ctx, g, gerr, tr, false))
			// math.round: nearest integer, half away from zero, as a float (always representable)
			rf, _ := intToFloat(floatRoundHalfAway(f))
			probes = append(probes, pInt("int(f)", ctx, tr), pStr("'%d' % f", ctx, tr.Text(10)), pStr("'%x' % f", ctx, tr.Text(16)),
				pInt("math.floor(f)", ctx, floatFloor(f)), pInt("math.ceil(f)", ctx, floatCeil(f)),
				probe{"math.round(f)", true, func(v starlark.Value, err error) error {
					return wantFloat("math.round(f)"+ctx, v, err, rf, false, true)
				}})
			vk.S.Class("op:math.floor/ceil/round(float)")
		}
	}
	{
		// math.floor/ceil of an int is the int; math.round of an int up to 2^53 is that number
		probes = append(probes, pInt("math.floor(x)", ctx, x), pInt("math.ceil(x)", ctx, x))
		if x.CmpAbs(two53) <= 0 {
			probes = append(probes, probe{"math.round(x)", true, func(v starlark.Value, err error) error {
				return wantFloat("math.round(x)"+ctx, v, err, fx, false, true)
			}})
		}
		vk.S.Class("op:math.floor/ceil/round(int)")
	}
	{
		// abs, bool, unary minus on the float
		probes = append(probes,
			probe{"abs(f)", true, func(v starlark.Value, err error) error {
				return wantFloat("abs(f)"+ctx, v, err, math.Abs(f), false, false)
			}},
			probe{"-f", true, func(v starlark.Value, err error) error { return wantFloat("-f"+ctx, v, err, -f, false, false) }},
			pBool("bool(f)", ctx, f != 0))
	}
	e.run(probes, &es)

	// ---- Go conversion API: AsInt into every integer pointer type, on x
	es.add(checkAsInt(X, x))

	if nt {
		vk.S.NonTrivial(fmt.Sprintf("mixed|%s|%x", c.X, c.F))
		vk.S.Class("mixed:nontrivial")
		vk.S.Sample("mixed", "nontrivial", c)
	} else {
		vk.S.Class("mixed:trivial")
	}
	vk.S.Class("mixed:float-" + floatClass(f))
	return es.result()
}

func floatClass(f float64) string {
	a := math.Abs(f)
	switch {
	case math.IsNaN(f):
		return "nan"
	case math.IsInf(f, 0):
		return "inf"
	case f == 0:
		return "zero"
	case a < 0x1p-1022:
		return "subnormal"
	case a >= 1<<53:
		return "integral>=2^53"
	case a == math.Trunc(a):
		return "integral<2^53"
	case a-math.Trunc(a) == 0.5:
		return "half"
	case interestingFloat(f):
		return "adjacent-to-integer"
	}
	return "fractional"
}

// checkAsInt: starlark.AsInt succeeds exactly when the value fits the pointee type, and stores it.
func checkAsInt(X starlark.Int, x *big.Int) error {
	inRange := func(lo, hi *big.Int) bool { return x.Cmp(lo) >= 0 && x.Cmp(hi) <= 0 }
	sRange := func(bits uint) bool { return inRange(neg(pow2(bits-1)), addi(pow2(bits-1), -1)) }
	uRange := func(bits uint) bool { return inRange(big.NewInt(0), addi(pow2(bits), -1)) }
	var (
		i   int
		i8  int8
		i16 int16
		i32 int32
		i64 int64
		u   uint
		u8  uint8
		u16 uint16
		u32 uint32
		u64 uint64
		up  uintptr
	)
	type probe struct {
		name string
		ptr  any
		fits bool
		get  func() *big.Int
	}
	s := func(v int64) *big.Int { return big.NewInt(v) }
	us := func(v uint64) *big.Int { return new(big.Int).SetUint64(v) }
	for _, p := range []probe{
		{"*int", &i, sRange(64), func() *big.Int { return s(int64(i)) }},
		{"*int8", &i8, sRange(8), func() *big.Int { return s(int64(i8)) }},
		{"*int16", &i16, sRange(16), func() *big.Int { return s(int64(i16)) }},
		{"*int32", &i32, sRange(32), func() *big.Int { return s(int64(i32)) }},
		{"*int64", &i64, sRange(64), func() *big.Int { return s(i64) }},
		{"*uint", &u, uRange(64), func() *big.Int { return us(uint64(u)) }},
		{"*uint8", &u8, uRange(8), func() *big.Int { return us(uint64(u8)) }},
		{"*uint16", &u16, uRange(16), func() *big.Int { return us(uint64(u16)) }},
		{"*uint32", &u32, uRange(32), func() *big.Int { return us(uint64(u32)) }},
		{"*uint64", &u64, uRange(64), func() *big.Int { return us(u64) }},
		{"*uintptr", &up, uRange(64), func() *big.Int { return us(uint64(up)) }},
	} {
		err := starlark.AsInt(X, p.ptr)
		if (err == nil) != p.fits {
			return fmt.Errorf("AsInt(%s, %s): err=%v, but fits=%v", short(x.String()), p.name, err, p.fits)
		}
		if err == nil && p.get().Cmp(x) != 0 {
			return fmt.Errorf("AsInt(%s, %s) stored %s", short(x.String()), p.name, p.get())
		}
	}
	vk.S.Class("op:AsInt")
	return nil
}

var subMixed = vk.Register("mixed", checkMixed)

// mixedGridInts: the integer pool plus the neighbourhood of the int->float overflow threshold.
func mixedGridInts() []*big.Int {
	xs := append([]*big.Int{}, gridInts()...)
	thr := sub(pow2(1024), pow2(970)) // smallest int that rounds to +Inf
	for d := int64(-2); d <= 2; d++ {
		xs = append(xs, addi(thr, d), neg(addi(thr, d)), addi(pow2(1024), d), addi(pow2(1023), d))
	}
	// halfway points between adjacent floats above 2^53: rounding to even is observable
	for _, k := range []uint{53, 54, 63, 64, 100} {
		xs = append(xs, addi(pow2(k), 1), add(pow2(k), pow2(k-53)), add(pow2(k), pow2(k-52)), add(add(pow2(k), pow2(k-52)), pow2(k-53)),
			addi(add(pow2(k), pow2(k-53)), 1), addi(add(pow2(k), pow2(k-53)), -1))
	}
	return sortUnique(xs)
}

func TestPropMixedGrid(t *testing.T) {
	ints, floats := mixedGridInts(), floatGridPool()
	// floats derived from the integers: float(x) and its neighbours
	setExhaustive(fmt.Sprintf("mixed-grid-%d-ints-x-(%d-floats+3-derived)", len(ints), len(floats)))
	vk.Enum(t, subMixed, func(yield func(MixedCase) bool) {
		k := 0
		for i, x := range ints {
			fx, _ := intToFloat(x)
			fs := append([]float64{fx, math.Nextafter(fx, math.Inf(1)), math.Nextafter(fx, math.Inf(-1))}, floats...)
			for j, f := range fs {
				k++
				if !mine(k / 32) {
					continue
				}
				if !yield(MixedCase{X: x.String(), F: math.Float64bits(f), SX: i + j, SF: (i + j) % 4}) {
					return
				}
			}
		}
	})
}

func TestPropMixedRandom(t *testing.T) {
	gi, gf := genInt(true), genFloat()
	vk.Rapid(t, subMixed, vk.N(4000, 40000), func(t *rapid.T) MixedCase {
		c := MixedCase{X: gi.Draw(t, "x"), SX: rapid.IntRange(0, 6).Draw(t, "sx"), SF: rapid.IntRange(0, 3).Draw(t, "sf")}
		if rapid.IntRange(0, 2).Draw(t, "rel") == 0 {
			// f next to x
			f, _ := intToFloat(bi(c.X))
			switch rapid.IntRange(0, 4).Draw(t, "adj") {
			case 1:
				f = math.Nextafter(f, math.Inf(1))
			case 2:
				f = math.Nextafter(f, math.Inf(-1))
			case 3:
				f += 0.5
			case 4:
				f -= 0.5
			}
			c.F = math.Float64bits(f)
		} else {
			c.F = gf.Draw(t, "f")
		}
		return c
	})
}

// ---------------------------------------------------------------- order: min / max / sorted on mixed numbers

type Num struct {
	I string `json:"i,omitempty"` // integer (decimal) ...
	F uint64 `json:"f,omitempty"` // ... or float bits when I is empty
}

type OrderCase struct {
	Items []Num `json:"items"`
	SP    int   `json:"sp"`
}

type numv struct {
	isInt bool
	i     *big.Int
	f     float64
	text  string // expected str()
}

func cmpNum(a, b numv) int {
	switch {
	case a.isInt && b.isInt:
		return a.i.Cmp(b.i)
	case a.isInt:
		return cmpIntFloat(a.i, b.f)
	case b.isInt:
		return -cmpIntFloat(b.i, a.f)
	case a.f < b.f:
		return -1
	case a.f > b.f:
		return 1
	}
	return 0
}

func checkOrder(c OrderCase) error {
	if len(c.Items) == 0 {
		return fmt.Errorf("malformed case")
	}
	var es errs
	e := newEv()
	var items []numv
	var srcs []string
	nt := false
	for k, it := range c.Items {
		if it.I != "" {
			x, ok := parseInt(it.I)
			if !ok {
				return fmt.Errorf("malformed case")
			}
			items = append(items, numv{isInt: true, i: x, text: x.Text(10)})
			srcs = append(srcs, spell(x, c.SP+k))
			nt = nt || interestingInt(x)
		} else {
			f := math.Float64frombits(it.F)
			if math.IsNaN(f) {
				return fmt.Errorf("malformed case: NaN in order case")
			}
			name := fmt.Sprintf("f%d", k)
			e.env[name] = starlark.Float(f)
			items = append(items, numv{f: f, text: starlark.Float(f).String()})
			srcs = append(srcs, name)
			nt = nt || interestingFloat(f)
		}
	}
	list := "[" + strings.Join(srcs, ", ") + "]"
	// expected: stable sort by exact value
	idx := make([]int, len(items))
	for i := range idx {
		idx[i] = i
	}
	sort.SliceStable(idx, func(a, b int) bool { return cmpNum(items[idx[a]], items[idx[b]]) < 0 })
	texts := func(ix []int) string {
		var ts []string
		for _, i := range ix {
			ts = append(ts, items[i].text)
		}
		return "[" + strings.Join(ts, ", ") + "]"
	}
	v, err := e.eval("str(sorted(" + list + "))")
	es.add(wantStr("str(sorted("+short(list)+"))", v, err, texts(idx)))
	vk.S.Class("op:sorted")

	// reverse=True: a non-increasing permutation (tie order not asserted)
	v, err = e.eval("sorted(" + list + ", reverse=True)")
	if l, ok := v.(*starlark.List); err != nil || !ok || l.Len() != len(items) {
		es.add(fmt.Errorf("sorted(%s, reverse=True) = %v, %v", short(list), v, err))
	} else {
		used := make([]bool, len(items))
		var prev *numv
		for i := 0; i < l.Len(); i++ {
			got := l.Index(i).String()
			found := -1
			for j, it := range items {
				if !used[j] && it.text == got && (it.isInt == (l.Index(i).Type() == "int")) {
					found = j
					break
				}
			}
			if found < 0 {
				es.add(fmt.Errorf("sorted(%s, reverse=True) contains %s, which is not a (remaining) element", short(list), short(got)))
				break
			}
			used[found] = true
			if prev != nil && cmpNum(*prev, items[found]) < 0 {
				es.add(fmt.Errorf("sorted(%s, reverse=True) = %s is not non-increasing at position %d", short(list), short(v.String()), i))
				break
			}
			p := items[found]
			prev = &p
		}
	}

	// min / max: an element whose exact value is the extremum
	for _, fn := range []string{"min", "max"} {
		vk.S.Class("op:" + fn)
		for _, form := range []string{fn + "(" + list + ")", fn + "(" + strings.Join(srcs, ", ") + ")"} {
			if len(items) == 1 && !strings.Contains(form, "[") {
				continue // min(3) means min of the iterable 3
			}
			v, err := e.eval(form)
			if err != nil {
				es.add(fmt.Errorf("%s failed: %v", short(form), err))
				continue
			}
			ext := items[idx[0]]
			if fn == "max" {
				ext = items[idx[len(idx)-1]]
			}
			okv := false
			for _, it := range items {
				if cmpNum(it, ext) == 0 && it.text == v.String() && (it.isInt == (v.Type() == "int")) {
					okv = true
				}
			}
			if !okv {
				es.add(fmt.Errorf("%s = %s, want an element equal to %s", short(form), short(v.String()), short(ext.text)))
			}
		}
	}
	if nt {
		vk.S.NonTrivial(fmt.Sprintf("order|%v", c.Items))
		vk.S.Sample("order", "nontrivial", c)
	}
	return es.result()
}

var subOrder = vk.Register("order", checkOrder)

func TestPropOrderRandom(t *testing.T) {
	gi, gf := genInt(true), genFloat()
	vk.Rapid(t, subOrder, vk.N(3000, 30000), func(t *rapid.T) OrderCase {
		n := rapid.IntRange(1, 8).Draw(t, "n")
		c := OrderCase{SP: rapid.IntRange(0, 6).Draw(t, "sp")}
		for i := 0; i < n; i++ {
			kind := rapid.IntRange(0, 3).Draw(t, "kind")
			switch {
			case kind == 0 || len(c.Items) == 0:
				c.Items = append(c.Items, Num{I: gi.Draw(t, "i")})
			case kind == 1:
				f := math.Float64frombits(gf.Draw(t, "f"))
				if math.IsNaN(f) {
					f = 0.5
				}
				c.Items = append(c.Items, Num{F: math.Float64bits(f)})
			default:
				// something close to an earlier element: equal as float, its neighbour, or +-1
				prev := c.Items[rapid.IntRange(0, len(c.Items)-1).Draw(t, "prev")]
				var f float64
				if prev.I != "" {
					f, _ = intToFloat(bi(prev.I))
				} else {
					f = math.Float64frombits(prev.F)
				}
				switch rapid.IntRange(0, 3).Draw(t, "how") {
				case 0:
					if math.IsInf(f, 0) {
						f = math.MaxFloat64
					}
					c.Items = append(c.Items, Num{F: math.Float64bits(f)})
				case 1:
					f = math.Nextafter(f, math.Inf(rapid.SampledFrom([]int{-1, 1}).Draw(t, "dir")))
					if math.IsInf(f, 0) || math.IsNaN(f) {
						f = 1
					}
					c.Items = append(c.Items, Num{F: math.Float64bits(f)})
				default:
					if tr, ok := floatIsInteger(f); ok {
						c.Items = append(c.Items, Num{I: addi(tr, int64(rapid.IntRange(-1, 1).Draw(t, "d"))).String()})
					} else if !math.IsInf(f, 0) {
						c.Items = append(c.Items, Num{I: floatTrunc(f).String()})
					} else {
						c.Items = append(c.Items, Num{I: "0"})
					}
				}
			}
		}
		return c
	})
}
