package c10

// Sub-checks "range" (construction, len, bool, str, indexing, membership, slicing, iteration,
// equality), "enumerate" and "repeat" (sequence repetition): built-ins whose parameters are machine
// integers must give the exact answer or fail.

import (
	"fmt"
	"math"
	"math/big"
	"strings"
	"testing"

	"go.starlark.net/starlark"
	"pgregory.net/rapid"
	"verif/harness/vk"
)

// ---------------------------------------------------------------- range model

type rangeModel struct {
	start, stop, step *big.Int
	n                 *big.Int // exact length
}

func newRangeModel(args []*big.Int) rangeModel {
	m := rangeModel{start: big.NewInt(0), step: big.NewInt(1)}
	switch len(args) {
	case 1:
		m.stop = args[0]
	case 2:
		m.start, m.stop = args[0], args[1]
	default:
		m.start, m.stop, m.step = args[0], args[1], args[2]
	}
	m.n = seqLen(m.start, m.stop, m.step)
	return m
}

// seqLen: how many of start, start+step, ... come before reaching or passing stop.
func seqLen(start, stop, step *big.Int) *big.Int {
	if step.Sign() == 0 {
		return big.NewInt(0)
	}
	span := sub(stop, start)
	if span.Sign() == 0 || span.Sign() != step.Sign() {
		return big.NewInt(0)
	}
	// ceil(span/step), both of the same sign
	q, r := floorDivMod(span, step)
	if r.Sign() != 0 {
		q.Add(q, big.NewInt(1))
	}
	return q
}

func (m rangeModel) at(i *big.Int) *big.Int { return add(m.start, mul(i, m.step)) }

func (m rangeModel) contains(v *big.Int) bool {
	if m.n.Sign() == 0 {
		return false
	}
	q, r := floorDivMod(sub(v, m.start), m.step)
	return r.Sign() == 0 && q.Sign() >= 0 && q.Cmp(m.n) < 0
}

// spanOverflows: the distance the implementation computes in rangeLen (stop-1-start, or
// start-1-stop for a negative step) does not fit in int64.
func (m rangeModel) spanOverflows() bool {
	var d *big.Int
	if m.step.Sign() > 0 {
		d = sub(addi(m.stop, -1), m.start)
	} else {
		d = sub(addi(m.start, -1), m.stop)
	}
	// ... or the count itself (d/|step| + 1) does not
	return d.Cmp(maxI64) > 0 || seqLen(m.start, m.stop, m.step).Cmp(maxI64) > 0
}

func (m rangeModel) elems() []*big.Int { // only for short ranges
	var out []*big.Int
	for i := int64(0); i < m.n.Int64(); i++ {
		out = append(out, m.at(big.NewInt(i)))
	}
	return out
}

func intsText(xs []*big.Int) string {
	ts := make([]string, len(xs))
	for i, x := range xs {
		ts[i] = x.Text(10)
	}
	return "[" + strings.Join(ts, ", ") + "]"
}

// sliceModel applies the spec's indexing rules to a sequence of length n and returns the
// selected indices as (first, count, stride) plus the normalised bounds the rules produce.
func sliceModel(n *big.Int, lo, hi, st *big.Int) (first, count, stride, nlo, nhi *big.Int) {
	stride = big.NewInt(1)
	if st != nil {
		stride = st
	}
	norm := func(v *big.Int) *big.Int {
		if v.Sign() < 0 {
			return add(v, n)
		}
		return v
	}
	clamp := func(v, lo, hi *big.Int) *big.Int {
		if v.Cmp(lo) < 0 {
			return lo
		}
		if v.Cmp(hi) > 0 {
			return hi
		}
		return v
	}
	zero, minus1 := big.NewInt(0), big.NewInt(-1)
	if stride.Sign() > 0 {
		nlo, nhi = zero, n
		if lo != nil {
			nlo = clamp(norm(lo), zero, n)
		}
		if hi != nil {
			nhi = clamp(norm(hi), zero, n)
		}
		if nhi.Cmp(nlo) < 0 {
			nhi = nlo
		}
		return nlo, seqLen(nlo, nhi, stride), stride, nlo, nhi
	}
	// negative stride: defaults n-1 and "before the beginning"
	nlo, nhi = addi(n, -1), minus1
	if lo != nil {
		nlo = clamp(norm(lo), minus1, addi(n, -1))
	}
	if hi != nil {
		nhi = clamp(norm(hi), minus1, addi(n, -1))
	}
	if nlo.Cmp(nhi) < 0 {
		nlo = nhi
	}
	return nlo, seqLen(nlo, nhi, stride), stride, nlo, nhi
}

// ---------------------------------------------------------------- range case

type SliceSpec struct {
	Lo   *string `json:"lo"`
	Hi   *string `json:"hi"`
	Step *string `json:"step"`
}

type RangeCase struct {
	Args   []string    `json:"args"`   // 1..3 integers
	Idx    []string    `json:"idx"`    // indices to probe
	Mem    []string    `json:"mem"`    // integers for `in`
	MemF   []uint64    `json:"memf"`   // floats for `in`
	Slices []SliceSpec `json:"slices"` // slices to take
	Other  []string    `json:"other"`  // a second range, for ==
	SP     int         `json:"sp"`
}

const shortRange = 64

const (
	kRangeLen   = "C10-range-len-overflow"
	kRangeIn32  = "C10-range-in-int32"
	kRangeInFlt = "C10-range-in-float-trunc"
	kRangeSlice = "C10-range-slice-overflow"
	kEnumWrap   = "C10-enumerate-start-wrap"
)

func parseAll(ss []string) ([]*big.Int, bool) {
	out := make([]*big.Int, len(ss))
	for i, s := range ss {
		v, ok := parseInt(s)
		if !ok {
			return nil, false
		}
		out[i] = v
	}
	return out, true
}

func rangeSrc(args []*big.Int, sp int) string {
	ss := make([]string, len(args))
	for i, a := range args {
		ss[i] = spell(a, sp+i)
	}
	return "range(" + strings.Join(ss, ", ") + ")"
}

func checkRange(c RangeCase) error {
	args, ok := parseAll(c.Args)
	if !ok || len(args) < 1 || len(args) > 3 {
		return fmt.Errorf("malformed case")
	}
	m := newRangeModel(args)
	var es errs
	e := newEv()
	src := rangeSrc(args, c.SP)
	err := e.exec("r = " + src + "\n")
	vk.S.Class("op:range")
	argsFit := true
	for _, a := range args {
		argsFit = argsFit && fitsI64(a)
	}
	if len(args) == 3 && args[2].Sign() == 0 {
		return wantFail(src, e.env["r"], err, "zero step")
	}
	if err != nil {
		if isPanic(err) || (argsFit && !m.spanOverflows()) {
			return fmt.Errorf("%s failed: %v", src, err)
		}
		// a parameter, the extent or the length cannot be held in a machine int: refusing is permitted
		vk.S.Class("range:beyond-machine-int-rejected")
		return nil
	}
	if !argsFit {
		return fmt.Errorf("%s was accepted although an argument does not fit a machine int; r = %v", src, e.env["r"])
	}
	// Wrong answers on a range whose extent overflows int64 all stem from rangeLen.
	wrap := func(err error) error {
		if err != nil && m.spanOverflows() {
			return vk.Known(kRangeLen, err)
		}
		return err
	}
	nt := m.n.Cmp(maxI32) > 0
	for _, a := range args {
		nt = nt || interestingInt(a)
	}

	// ---- len, bool, str
	lenV, lenErr := e.eval("len(r)")
	vk.S.Class("op:len(range)")
	es.add(wrap(wantInt("len("+src+")", lenV, lenErr, m.n, !fitsI64(m.n))))
	v, err := e.eval("bool(r)")
	es.add(wrap(wantBool("bool("+src+")", v, err, m.n.Sign() > 0)))
	{
		v, err := e.eval("str(r)")
		full := fmt.Sprintf("range(%s, %s, %s)", m.start, m.stop, m.step)
		allowed := []string{full}
		if m.step.Cmp(big.NewInt(1)) == 0 {
			allowed = append(allowed, fmt.Sprintf("range(%s, %s)", m.start, m.stop))
			if m.start.Sign() == 0 {
				allowed = append(allowed, fmt.Sprintf("range(%s)", m.stop))
			}
		}
		s, _ := v.(starlark.String)
		okStr := false
		for _, a := range allowed {
			okStr = okStr || string(s) == a
		}
		if err != nil || !okStr {
			es.add(fmt.Errorf("str(%s) = %v, %v; want one of %v", src, v, err, allowed))
		}
	}

	// ---- whole sequence, when short (and the implementation does not claim it is long)
	implLenSmall := lenErr != nil
	if li, ok := lenV.(starlark.Int); ok && lenErr == nil {
		if n, ok := li.Int64(); ok && n <= 4*shortRange {
			implLenSmall = true
		}
	}
	if m.n.Cmp(big.NewInt(shortRange)) <= 0 && implLenSmall {
		want := intsText(m.elems())
		for _, form := range []string{"str(list(r))", "str([i for i in r])", "str(list(reversed(list(reversed(r)))))", "str(sorted(r, reverse=" + pyBool(m.step.Sign() < 0) + "))"} {
			v, err := e.eval(form)
			es.add(wrap(wantStr(form+" with r = "+src, v, err, want)))
		}
		vk.S.Class("op:list(range)")
		lv, lerr := e.call("forloop", e.env["r"])
		if lerr != nil || lv.String() != want {
			es.add(wrap(fmt.Errorf("for-loop over %s yields %v, %v; want %s", src, lv, lerr, want)))
		}
		if m.n.Sign() > 0 {
			lo, hi := m.at(big.NewInt(0)), m.at(addi(m.n, -1))
			if m.step.Sign() < 0 {
				lo, hi = hi, lo
			}
			v, err := e.eval("min(r)")
			es.add(wrap(wantInt("min("+src+")", v, err, lo, false)))
			v, err = e.eval("max(r)")
			es.add(wrap(wantInt("max("+src+")", v, err, hi, false)))
		}
		vk.S.Class("range:short")
	} else {
		vk.S.Class("range:long")
	}

	// ---- indexing
	for _, s := range c.Idx {
		i, ok := parseInt(s)
		if !ok {
			return fmt.Errorf("malformed case")
		}
		isrc := "r[" + spell(i, c.SP) + "]"
		v, err := e.eval(isrc)
		vk.S.Class("op:range[i]")
		eff := i
		if i.Sign() < 0 {
			eff = add(i, m.n)
		}
		ctx := " with r = " + src
		if eff.Sign() < 0 || eff.Cmp(m.n) >= 0 {
			es.add(wrap(wantFail(isrc+ctx, v, err, "index out of range")))
			vk.S.Class("index:out-of-range")
		} else {
			es.add(wrap(wantInt(isrc+ctx, v, err, m.at(eff), !fitsI32(i))))
			if i.Sign() < 0 {
				vk.S.Class("index:negative")
			} else {
				vk.S.Class("index:in-range")
			}
			nt = nt || interestingInt(m.at(eff))
		}
	}

	// ---- membership (never fails for a number: all probes go in one batch)
	var probes []probe
	for _, s := range c.Mem {
		x, ok := parseInt(s)
		if !ok {
			return fmt.Errorf("malformed case")
		}
		want := m.contains(x)
		lx := spell(x, c.SP+1)
		ctx := " with r = " + src
		vk.S.Class("op:int-in-range")
		for _, form := range []struct {
			src  string
			want bool
		}{{lx + " in r", want}, {lx + " not in r", !want}} {
			form := form
			probes = append(probes, probe{form.src, true, func(v starlark.Value, err error) error {
				ferr := wantBool(form.src+ctx, v, err, form.want)
				if ferr != nil && err == nil && want && !fitsI32(x) {
					// narrow: a member outside int32 reported as absent
					ferr = vk.Known(kRangeIn32, ferr)
				}
				return wrap(ferr)
			}})
		}
		if want {
			vk.S.Class("in:member")
			if !fitsI32(x) {
				vk.S.Class("in:member-beyond-int32")
			}
		} else {
			vk.S.Class("in:non-member")
		}
		nt = nt || interestingInt(x)
	}
	for k, bits := range c.MemF {
		f := math.Float64frombits(bits)
		name := fmt.Sprintf("mf%d", k)
		e.env[name] = starlark.Float(f)
		vk.S.Class("op:float-in-range")
		ctx := fmt.Sprintf(" with %s = %s, r = %s", name, fbits(f), src)
		iv, integral := floatIsInteger(f)
		if math.IsNaN(f) || math.IsInf(f, 0) {
			// exact answer False; the implementation rejects non-finite floats: not asserted either way
			probes = append(probes, probe{name + " in r", false, func(v starlark.Value, err error) error {
				if err == nil || isPanic(err) {
					return wrap(wantBool(name+" in r"+ctx, v, err, false))
				}
				return nil
			}})
			vk.S.Class("in:nonfinite-float")
			continue
		}
		want := integral && m.contains(iv)
		probes = append(probes, probe{name + " in r", true, func(v starlark.Value, err error) error {
			ferr := wantBool(name+" in r"+ctx, v, err, want)
			if ferr != nil && err == nil {
				switch {
				case !integral && !want && m.contains(floatTrunc(f)):
					// narrow: a non-integral float whose truncation is a member reported as present
					ferr = vk.Known(kRangeInFlt, ferr)
				case integral && want && !fitsI32(iv):
					ferr = vk.Known(kRangeIn32, ferr)
				}
			}
			return wrap(ferr)
		}})
		if integral {
			vk.S.Class("in:integral-float")
		} else {
			vk.S.Class("in:fractional-float")
		}
		nt = nt || interestingFloat(f)
	}
	e.run(probes, &es)

	// ---- slicing
	for _, sl := range c.Slices {
		var lo, hi, st *big.Int
		part := func(p *string, k int) (string, *big.Int, bool) {
			if p == nil {
				return "", nil, true
			}
			v, ok := parseInt(*p)
			if !ok {
				return "", nil, false
			}
			return spell(v, c.SP+k), v, true
		}
		slo, lo, ok1 := part(sl.Lo, 0)
		shi, hi, ok2 := part(sl.Hi, 1)
		sst, st, ok3 := part(sl.Step, 2)
		if !ok1 || !ok2 || !ok3 {
			return fmt.Errorf("malformed case")
		}
		ssrc := "r[" + slo + ":" + shi
		if sl.Step != nil {
			ssrc += ":" + sst
		}
		ssrc += "]"
		ctx := " with r = " + src
		vk.S.Class("op:range[i:j:k]")
		if st != nil && st.Sign() == 0 {
			err := e.exec("s = " + ssrc + "\n")
			es.add(wantFail(ssrc+ctx, e.env["s"], err, "zero slice step"))
			continue
		}
		first, count, stride, nlo, nhi := sliceModel(m.n, lo, hi, st)
		// the slice as a range over the original parameters
		sm := rangeModel{start: m.at(first), step: mul(m.step, stride), n: count}
		// narrow predicate for the slice-overflow finding: a bound of the new range, computed the way
		// Slice does (start + step*index), or the product of the two steps, leaves int64
		sliceOverflow := !fitsI64(m.at(nlo)) || !fitsI64(m.at(nhi)) || !fitsI64(sm.step)
		// ... and when the bounds fit, Slice's new stop (start + step*end, beyond the original stop) can
		// make the extent of the new range overflow in rangeLen although the original's did not
		implSlice := rangeModel{start: m.at(nlo), stop: m.at(nhi), step: sm.step}
		swrap := func(err error) error {
			switch {
			case err == nil || m.spanOverflows():
			case sliceOverflow:
				return vk.Known(kRangeSlice, err)
			case implSlice.spanOverflows():
				return vk.Known(kRangeLen, err)
			}
			return wrap(err)
		}
		if err := e.exec("s = " + ssrc + "\n"); err != nil {
			machine := true
			for _, p := range []*big.Int{lo, hi, st} {
				machine = machine && (p == nil || fitsI32(p))
			}
			if machine || isPanic(err) {
				es.add(swrap(fmt.Errorf("%s failed: %v", ssrc+ctx, err)))
			} else {
				vk.S.Class("slice:index-beyond-int32-rejected")
			}
			continue
		}
		v, err := e.eval("len(s)")
		es.add(swrap(wantInt("len("+ssrc+")"+ctx, v, err, count, false)))
		implSmall := false
		if li, ok := v.(starlark.Int); ok && err == nil {
			if n, ok := li.Int64(); ok && n <= 4*shortRange {
				implSmall = true
			}
		}
		if count.Cmp(big.NewInt(shortRange)) <= 0 && implSmall {
			v, err := e.eval("str(list(s))")
			es.add(swrap(wantStr("str(list("+ssrc+"))"+ctx, v, err, intsText(sm.elems()))))
			vk.S.Class("slice:short")
		} else if count.Sign() > 0 {
			v, err := e.eval("s[0]")
			es.add(swrap(wantInt(ssrc+"[0]"+ctx, v, err, sm.at(big.NewInt(0)), false)))
			v, err = e.eval("s[-1]")
			es.add(swrap(wantInt(ssrc+"[-1]"+ctx, v, err, sm.at(addi(count, -1)), false)))
			vk.S.Class("slice:long")
		}
		if stride.Sign() < 0 {
			vk.S.Class("slice:negative-stride")
		}
		if sliceOverflow {
			vk.S.Class("slice:bound-beyond-int64")
		}
	}

	// ---- equality with another range
	if len(c.Other) > 0 {
		oargs, ok := parseAll(c.Other)
		if !ok || len(oargs) > 3 {
			return fmt.Errorf("malformed case")
		}
		fits := !(len(oargs) == 3 && oargs[2].Sign() == 0)
		for _, a := range oargs {
			fits = fits && fitsI64(a)
		}
		if fits {
			om := newRangeModel(oargs)
			same := m.n.Cmp(om.n) == 0 && (m.n.Sign() == 0 || (m.start.Cmp(om.start) == 0 && (m.n.Cmp(big.NewInt(1)) == 0 || m.step.Cmp(om.step) == 0)))
			osrc := rangeSrc(oargs, c.SP+2)
			owrap := func(err error) error {
				if err != nil && om.spanOverflows() {
					return vk.Known(kRangeLen, err)
				}
				return wrap(err)
			}
			if oerr := e.exec("o = " + osrc + "\n"); oerr != nil {
				if isPanic(oerr) || !om.spanOverflows() {
					es.add(fmt.Errorf("%s failed: %v", osrc, oerr))
				} else {
					vk.S.Class("range:beyond-machine-int-rejected")
				}
			} else {
				v, err := e.eval("r == o")
				es.add(owrap(wantBool(src+" == "+osrc, v, err, same)))
				v, err = e.eval("r != o")
				es.add(owrap(wantBool(src+" != "+osrc, v, err, !same)))
			}
			vk.S.Class("op:range==range")
			if same {
				vk.S.Class("eq:same-sequence")
			} else {
				vk.S.Class("eq:different-sequence")
			}
		}
	}

	if nt {
		vk.S.NonTrivial(fmt.Sprintf("range|%v|%v|%v|%v|%v", c.Args, c.Idx, c.Mem, c.MemF, len(c.Slices)))
		vk.S.Class("range:nontrivial")
		vk.S.Sample("range", "nontrivial", c)
	} else {
		vk.S.Class("range:trivial")
	}
	return es.result()
}

func pyBool(b bool) string {
	if b {
		return "True"
	}
	return "False"
}

var subRange = vk.Register("range", checkRange)

func sp(s string) *string { return &s }

// standardProbes derives indices, members and slices from the model so that they sit on the
// edges of the sequence.
func standardProbes(c *RangeCase) {
	args, _ := parseAll(c.Args)
	if len(args) == 3 && args[2].Sign() == 0 {
		return
	}
	m := newRangeModel(args)
	n := m.n
	str := func(x *big.Int) string { return x.String() }
	for _, i := range []*big.Int{big.NewInt(0), big.NewInt(1), addi(n, -1), n, big.NewInt(-1), neg(n), addi(neg(n), -1), new(big.Int).Rsh(n, 1)} {
		c.Idx = append(c.Idx, str(i))
	}
	seen := map[string]bool{}
	for _, k := range []*big.Int{big.NewInt(-1), big.NewInt(0), big.NewInt(1), new(big.Int).Rsh(n, 1), addi(n, -1), n} {
		v := m.at(k)
		for _, d := range []int64{0, 1, -1} {
			s := str(addi(v, d))
			if !seen[s] {
				seen[s] = true
				c.Mem = append(c.Mem, s)
			}
		}
		f, ov := intToFloat(v)
		if !ov {
			c.MemF = append(c.MemF, math.Float64bits(f), math.Float64bits(f+0.5), math.Float64bits(math.Nextafter(f, math.Inf(1))))
		}
	}
	c.MemF = append(c.MemF, math.Float64bits(0.5), math.Float64bits(-0.5), math.Float64bits(math.Copysign(0, -1)))
	half := str(new(big.Int).Rsh(n, 1))
	c.Slices = append(c.Slices,
		SliceSpec{}, SliceSpec{Step: sp("-1")}, SliceSpec{Lo: sp("1")}, SliceSpec{Hi: sp("-1")}, SliceSpec{Lo: sp("1"), Hi: sp("-1"), Step: sp("2")},
		SliceSpec{Step: sp("3")}, SliceSpec{Lo: sp("-2"), Step: sp("-2")}, SliceSpec{Hi: sp("2")}, SliceSpec{Lo: sp("-3")},
		SliceSpec{Lo: &half}, SliceSpec{Hi: &half, Step: sp("-1")}, SliceSpec{Lo: sp("5"), Hi: sp("2")}, SliceSpec{Step: sp("0")},
		SliceSpec{Lo: sp("-2147483648"), Hi: sp("2147483647")}, SliceSpec{Step: sp("2147483647")}, SliceSpec{Step: sp("-2147483648")},
		SliceSpec{Lo: sp("4294967296")})
}

// Every range over small parameters, with the standard probes: exhaustive.
func TestPropRangeSmallGrid(t *testing.T) {
	lim := vk.N(5, 8)
	setExhaustive(fmt.Sprintf("range-small-grid-params-in-[-%d,%d]", lim, lim))
	vk.Enum(t, subRange, func(yield func(RangeCase) bool) {
		k := 0
		for a := -lim; a <= lim; a++ {
			for b := -lim; b <= lim; b++ {
				for s := -lim; s <= lim; s++ {
					k++
					if !mine(k / 16) {
						continue
					}
					c := RangeCase{Args: []string{fmt.Sprint(a), fmt.Sprint(b), fmt.Sprint(s)}, SP: k, Other: []string{fmt.Sprint(a), fmt.Sprint(b + s), fmt.Sprint(s)}}
					if s == 1 && k%2 == 0 {
						c.Args = c.Args[:2]
					}
					if s == 1 && a == 0 && k%3 == 0 {
						c.Args = []string{fmt.Sprint(b)}
					}
					standardProbes(&c)
					if !yield(c) {
						return
					}
				}
			}
		}
	})
}

// Ranges whose parameters sit on the machine-integer boundaries: all triples from a boundary pool.
func rangeBoundaryPool() []*big.Int {
	var xs []*big.Int
	for _, k := range []uint{31, 32, 40, 62, 63} {
		for d := int64(-1); d <= 1; d++ {
			xs = append(xs, addi(pow2(k), d), neg(addi(pow2(k), d)))
		}
	}
	xs = append(xs, big.NewInt(0), big.NewInt(1), big.NewInt(-1), big.NewInt(2), big.NewInt(-3), big.NewInt(10), pow2(64), neg(pow2(64)), addi(pow2(63), 2))
	return sortUnique(xs)
}

func TestPropRangeBoundaryGrid(t *testing.T) {
	pool := rangeBoundaryPool()
	steps := []*big.Int{big.NewInt(1), big.NewInt(-1), big.NewInt(2), big.NewInt(-3), big.NewInt(7), pow2(31), neg(pow2(31)), pow2(32), addi(pow2(40), 1), pow2(62),
		neg(pow2(62)), addi(pow2(63), -1), neg(pow2(63)), pow2(63)}
	if !vk.Thorough() {
		steps = []*big.Int{big.NewInt(1), big.NewInt(-1), big.NewInt(-3), pow2(31), addi(pow2(40), 1), pow2(62), neg(pow2(62)), addi(pow2(63), -1), neg(pow2(63))}
	}
	setExhaustive(fmt.Sprintf("range-boundary-grid-%dx%dx%d", len(pool), len(pool), len(steps)))
	vk.Enum(t, subRange, func(yield func(RangeCase) bool) {
		k := 0
		for _, a := range pool {
			for _, b := range pool {
				for _, s := range steps {
					k++
					if !mine(k / 16) {
						continue
					}
					c := RangeCase{Args: []string{a.String(), b.String(), s.String()}, SP: k}
					if s.Cmp(big.NewInt(1)) == 0 && k%2 == 0 {
						c.Args = c.Args[:2]
					}
					if fitsI64(a) && fitsI64(b) && fitsI64(s) {
						m := newRangeModel([]*big.Int{a, b, s})
						// same sequence, other stop
						c.Other = []string{a.String(), m.at(m.n).String(), s.String()}
					}
					standardProbes(&c)
					if !yield(c) {
						return
					}
				}
			}
		}
	})
}

func TestPropRangeRandom(t *testing.T) {
	gi := genInt(false)
	small := rapid.IntRange(-12, 12)
	vk.Rapid(t, subRange, vk.N(3000, 30000), func(t *rapid.T) RangeCase {
		c := RangeCase{SP: rapid.IntRange(0, 6).Draw(t, "sp")}
		var start, step, stop *big.Int
		// start anywhere; step small or large; length short or long
		if rapid.Bool().Draw(t, "smallstart") {
			start = big.NewInt(int64(small.Draw(t, "start")))
		} else {
			start = bi(gi.Draw(t, "start"))
		}
		switch rapid.IntRange(0, 3).Draw(t, "stepkind") {
		case 0:
			step = big.NewInt(1)
		case 1:
			step = bi(gi.Draw(t, "step"))
		default:
			step = big.NewInt(int64(small.Draw(t, "step")))
		}
		var count *big.Int
		switch rapid.IntRange(0, 3).Draw(t, "lenkind") {
		case 0:
			count = new(big.Int).Abs(bi(gi.Draw(t, "count")))
		default:
			count = big.NewInt(int64(rapid.IntRange(0, 12).Draw(t, "count")))
		}
		// stop = start + count*step + slack with |slack| < |step|
		stop = add(start, mul(count, step))
		if step.Sign() != 0 {
			slack := big.NewInt(int64(rapid.IntRange(-3, 3).Draw(t, "slack")))
			if slack.CmpAbs(step) < 0 {
				stop.Add(stop, slack)
			}
		}
		switch {
		case step.Cmp(big.NewInt(1)) == 0 && start.Sign() == 0 && rapid.Bool().Draw(t, "arity1"):
			c.Args = []string{stop.String()}
		case step.Cmp(big.NewInt(1)) == 0 && rapid.Bool().Draw(t, "arity2"):
			c.Args = []string{start.String(), stop.String()}
		default:
			c.Args = []string{start.String(), stop.String(), step.String()}
		}
		standardProbes(&c)
		// a few free probes
		for i := rapid.IntRange(0, 3).Draw(t, "nidx"); i > 0; i-- {
			c.Idx = append(c.Idx, fmt.Sprint(rapid.IntRange(-40, 40).Draw(t, "idx")))
		}
		for i := rapid.IntRange(0, 3).Draw(t, "nmem"); i > 0; i-- {
			c.Mem = append(c.Mem, gi.Draw(t, "mem"))
		}
		optIdx := func(label string) *string {
			switch rapid.IntRange(0, 5).Draw(t, label) {
			case 0:
				return nil
			case 1:
				return sp(gi.Draw(t, label+"v"))
			}
			return sp(fmt.Sprint(rapid.IntRange(-15, 15).Draw(t, label+"s")))
		}
		for i := rapid.IntRange(0, 3).Draw(t, "nslices"); i > 0; i-- {
			c.Slices = append(c.Slices, SliceSpec{Lo: optIdx("lo"), Hi: optIdx("hi"), Step: optIdx("st")})
		}
		// the other range: same sequence through other parameters, or a perturbation
		args, _ := parseAll(c.Args)
		if !(len(args) == 3 && args[2].Sign() == 0) {
			m := newRangeModel(args)
			switch rapid.IntRange(0, 2).Draw(t, "other") {
			case 0:
				c.Other = []string{m.start.String(), m.at(m.n).String(), m.step.String()}
			case 1:
				c.Other = []string{m.start.String(), m.stop.String(), addi(m.step, 1).String()}
			default:
				c.Other = []string{addi(m.start, int64(rapid.IntRange(-1, 1).Draw(t, "ds"))).String(), m.stop.String(), m.step.String()}
			}
		}
		return c
	})
}

// ---------------------------------------------------------------- enumerate

// iterOnly is an iterable of unknown length (no Len method): enumerate takes its other code path.
type iterOnly struct{ elems []starlark.Value }

func (it *iterOnly) String() string        { return "iterOnly" }
func (it *iterOnly) Type() string          { return "iterOnly" }
func (it *iterOnly) Freeze()               {}
func (it *iterOnly) Truth() starlark.Bool  { return true }
func (it *iterOnly) Hash() (uint32, error) { return 0, fmt.Errorf("unhashable") }
func (it *iterOnly) Iterate() starlark.Iterator {
	return &sliceIter{it.elems}
}

type sliceIter struct{ rest []starlark.Value }

func (s *sliceIter) Next(p *starlark.Value) bool {
	if len(s.rest) == 0 {
		return false
	}
	*p = s.rest[0]
	s.rest = s.rest[1:]
	return true
}
func (s *sliceIter) Done() {}

type EnumCase struct {
	Kind  string `json:"kind"` // list | tuple | range | dict | iter
	N     int    `json:"n"`
	Start string `json:"start"`
	SP    int    `json:"sp"`
	Kw    bool   `json:"kw"`
}

func checkEnumerate(c EnumCase) error {
	start, ok := parseInt(c.Start)
	if !ok || c.N < 0 || c.N > 64 {
		return fmt.Errorf("malformed case")
	}
	e := newEv()
	var seq string
	elemText := func(i int) string { return fmt.Sprintf("%d", 100+i) }
	var parts []string
	for i := 0; i < c.N; i++ {
		parts = append(parts, elemText(i))
	}
	switch c.Kind {
	case "list":
		seq = "[" + strings.Join(parts, ", ") + "]"
	case "tuple":
		seq = "(" + strings.Join(parts, ", ") + ",)"
		if c.N == 0 {
			seq = "()"
		}
	case "range":
		seq = fmt.Sprintf("range(100, %d)", 100+c.N)
	case "dict":
		var kv []string
		for _, p := range parts {
			kv = append(kv, p+": None")
		}
		seq = "{" + strings.Join(kv, ", ") + "}"
	case "iter":
		var elems []starlark.Value
		for i := 0; i < c.N; i++ {
			elems = append(elems, starlark.MakeInt(100+i))
		}
		e.env["it"] = &iterOnly{elems}
		seq = "it"
	default:
		return fmt.Errorf("malformed case")
	}
	ls := spell(start, c.SP)
	src := "enumerate(" + seq + ", " + ls + ")"
	if c.Kw {
		// (the implementation takes start positionally only, which the spec's wording permits:
		// the flag merely varies the rendering)
		src = "enumerate(" + seq + "," + ls + ")"
	}
	v, err := e.eval("str(" + src + ")")
	vk.S.Class("op:enumerate")
	var pairs []string
	for i := 0; i < c.N; i++ {
		pairs = append(pairs, "("+addi(start, int64(i)).Text(10)+", "+elemText(i)+")")
	}
	want := "[" + strings.Join(pairs, ", ") + "]"
	last := addi(start, int64(c.N)-1)
	if c.N == 0 {
		last = start
	}
	nt := interestingInt(start) || interestingInt(last)
	if nt {
		vk.S.NonTrivial(fmt.Sprintf("enumerate|%s|%d|%s", c.Kind, c.N, c.Start))
		vk.S.Sample("enumerate", "nontrivial", c)
	}
	switch {
	case !fitsI64(start):
		vk.S.Class("enumerate:start-beyond-int64")
		if err != nil && !isPanic(err) {
			vk.S.Class("allowed-failure")
			return nil
		}
		return wantStr(src, v, err, want)
	case !fitsI64(last):
		vk.S.Class("enumerate:indices-pass-int64")
		if err != nil && !isPanic(err) {
			vk.S.Class("allowed-failure")
			return nil
		}
		if ferr := wantStr(src, v, err, want); ferr != nil {
			// narrow: start fits, start+n-1 does not, and an answer was returned
			return vk.Known(kEnumWrap, ferr)
		}
		return nil
	}
	vk.S.Class("enumerate:fits")
	return wantStr(src, v, err, want)
}

var subEnumerate = vk.Register("enumerate", checkEnumerate)

func TestPropEnumerateGrid(t *testing.T) {
	pool := gridInts()
	kinds := []string{"list", "tuple", "range", "dict", "iter"}
	setExhaustive(fmt.Sprintf("enumerate-grid-%d-starts-x-5-kinds-x-lengths-0..4", len(pool)))
	vk.Enum(t, subEnumerate, func(yield func(EnumCase) bool) {
		k := 0
		for i, s := range pool {
			for _, kind := range kinds {
				for n := 0; n <= 4; n++ {
					k++
					if !mine(k / 32) {
						continue
					}
					if !yield(EnumCase{Kind: kind, N: n, Start: s.String(), SP: i + n, Kw: (i+n)%2 == 0}) {
						return
					}
				}
			}
		}
	})
}

func TestPropEnumerateRandom(t *testing.T) {
	gi := genInt(false)
	vk.Rapid(t, subEnumerate, vk.N(1500, 15000), func(t *rapid.T) EnumCase {
		c := EnumCase{Kind: rapid.SampledFrom([]string{"list", "tuple", "range", "dict", "iter"}).Draw(t, "kind"), N: rapid.IntRange(0, 12).Draw(t, "n"),
			SP: rapid.IntRange(0, 6).Draw(t, "sp"), Kw: rapid.Bool().Draw(t, "kw")}
		if rapid.Bool().Draw(t, "edge") {
			// start such that the last index is near a boundary
			b := rapid.SampledFrom([]uint{31, 32, 53, 63, 64}).Draw(t, "bit")
			x := addi(pow2(b), int64(rapid.IntRange(-3, 3).Draw(t, "d"))-int64(c.N))
			if rapid.Bool().Draw(t, "neg") {
				x = neg(addi(pow2(b), int64(rapid.IntRange(-3, 3).Draw(t, "d2"))))
			}
			c.Start = x.String()
		} else {
			c.Start = gi.Draw(t, "start")
		}
		return c
	})
}

// ---------------------------------------------------------------- repetition

type RepeatCase struct {
	Kind string `json:"kind"` // str | bytes | list | tuple
	Len  int    `json:"len"`
	N    string `json:"n"`
	Left bool   `json:"left"` // n * s instead of s * n
	SP   int    `json:"sp"`
}

// Results above this many elements are never requested when success is expected.
const repeatMax = 1 << 16

func checkRepeat(c RepeatCase) error {
	n, ok := parseInt(c.N)
	if !ok || c.Len < 0 || c.Len > 16 {
		return fmt.Errorf("malformed case")
	}
	e := newEv()
	unit := "abcdefghijklmnop"[:c.Len]
	var seq string
	switch c.Kind {
	case "str":
		seq = quote(unit)
	case "bytes":
		seq = "b" + quote(unit)
	case "list", "tuple":
		var ps []string
		for i := 0; i < c.Len; i++ {
			ps = append(ps, quote(unit[i:i+1]))
		}
		if c.Kind == "list" {
			seq = "[" + strings.Join(ps, ", ") + "]"
		} else if c.Len == 1 {
			seq = "(" + ps[0] + ",)"
		} else {
			seq = "(" + strings.Join(ps, ", ") + ")"
		}
	default:
		return fmt.Errorf("malformed case")
	}
	ln := spell(n, c.SP)
	src := seq + " * " + ln
	if c.Left {
		src = ln + " * " + seq
	}
	vk.S.Class("op:repeat-" + c.Kind)
	total := mul(n, big.NewInt(int64(c.Len)))
	if n.Sign() <= 0 {
		total = big.NewInt(0)
	}
	if total.Cmp(big.NewInt(repeatMax)) > 0 && total.Cmp(pow2(31)) < 0 {
		vk.S.Discard() // would allocate a lot if it succeeded; the generators avoid this band
		return nil
	}
	if err := e.exec("res = " + src + "\n"); err != nil {
		// allowed when the count is not a machine int32 or the result would be enormous
		if (!fitsI32(n) || total.Cmp(big.NewInt(repeatMax)) > 0) && !isPanic(err) {
			vk.S.Class("allowed-failure")
			vk.S.Class("repeat:rejected")
			return nil
		}
		return fmt.Errorf("%s failed: %v", src, err)
	}
	if interestingInt(n) {
		vk.S.NonTrivial(fmt.Sprintf("repeat|%s|%d|%s|%v", c.Kind, c.Len, c.N, c.Left))
		vk.S.Sample("repeat", "nontrivial", c)
	}
	// exact: the length is len*n (n<=0: empty) and the content is periodic
	res := e.env["res"]
	if total.Cmp(big.NewInt(repeatMax)) > 0 {
		return fmt.Errorf("%s succeeded with a %s of length %d; the exact result has %s elements", src, res.Type(), starlark.Len(res), total)
	}
	cnt := int(total.Int64()) / max(c.Len, 1)
	var want string
	switch c.Kind {
	case "str":
		want = strings.Repeat(unit, cnt)
		if s, ok := res.(starlark.String); !ok || string(s) != want {
			return fmt.Errorf("%s = %s, want %d copies (length %d)", src, short(res.String()), cnt, len(want))
		}
	case "bytes":
		want = strings.Repeat(unit, cnt)
		if s, ok := res.(starlark.Bytes); !ok || string(s) != want {
			return fmt.Errorf("%s = %s, want %d copies", src, short(res.String()), cnt)
		}
	default:
		if res.Type() != c.Kind || starlark.Len(res) != cnt*c.Len {
			return fmt.Errorf("%s has type %s and length %d, want %s of length %d", src, res.Type(), starlark.Len(res), c.Kind, cnt*c.Len)
		}
		ix := res.(starlark.Indexable)
		for i := 0; i < ix.Len(); i++ {
			if s, ok := ix.Index(i).(starlark.String); !ok || string(s) != unit[i%c.Len:i%c.Len+1] {
				return fmt.Errorf("%s: element %d is %v", src, i, ix.Index(i))
			}
		}
	}
	v, err := e.eval("len(res)")
	if ferr := wantInt("len("+src+")", v, err, total, false); ferr != nil {
		return ferr
	}
	vk.S.Class("repeat:exact")
	return nil
}

var subRepeat = vk.Register("repeat", checkRepeat)

func TestPropRepeatGrid(t *testing.T) {
	pool := gridInts()
	counts := append([]*big.Int{}, pool...)
	for _, v := range []int64{3, 5, 16, 255, 256, 1000, 4096} {
		counts = append(counts, big.NewInt(v))
	}
	kinds := []string{"str", "bytes", "list", "tuple"}
	setExhaustive(fmt.Sprintf("repeat-grid-%d-counts-x-4-kinds-x-lengths-0,1,3-x-2-sides", len(counts)))
	vk.Enum(t, subRepeat, func(yield func(RepeatCase) bool) {
		k := 0
		for i, n := range counts {
			for _, kind := range kinds {
				for _, l := range []int{0, 1, 3} {
					for _, left := range []bool{false, true} {
						k++
						if !mine(k / 32) {
							continue
						}
						total := mul(n, big.NewInt(int64(l)))
						if total.Cmp(big.NewInt(repeatMax)) > 0 && total.Cmp(pow2(31)) < 0 {
							continue
						}
						if !yield(RepeatCase{Kind: kind, Len: l, N: n.String(), Left: left, SP: i}) {
							return
						}
					}
				}
			}
		}
	})
}

func TestPropRepeatRandom(t *testing.T) {
	gi := genInt(false)
	vk.Rapid(t, subRepeat, vk.N(1500, 15000), func(t *rapid.T) RepeatCase {
		c := RepeatCase{Kind: rapid.SampledFrom([]string{"str", "bytes", "list", "tuple"}).Draw(t, "kind"), Len: rapid.IntRange(0, 16).Draw(t, "len"),
			Left: rapid.Bool().Draw(t, "left"), SP: rapid.IntRange(0, 6).Draw(t, "sp")}
		if rapid.Bool().Draw(t, "smalln") {
			c.N = fmt.Sprint(rapid.IntRange(-3, 2000).Draw(t, "n"))
		} else {
			n := bi(gi.Draw(t, "n"))
			total := mul(n, big.NewInt(int64(c.Len)))
			if n.Sign() > 0 && total.Cmp(big.NewInt(repeatMax)) > 0 && total.Cmp(pow2(31)) < 0 {
				n = mul(n, pow2(32)) // leave the band that would allocate up to a gigabyte
			}
			c.N = n.String()
		}
		return c
	})
}
