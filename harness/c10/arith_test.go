package c10

// Sub-checks "arith" (int x int operators and comparisons), "shift" (<< and >>) and
// "unary" (unary operators, str/repr/formatting, literal spellings, int(text, base)).

import (
	"fmt"
	"math"
	"math/big"
	"strings"
	"testing"

	"go.starlark.net/starlark"
	"go.starlark.net/syntax"
	"pgregory.net/rapid"
	"verif/harness/vk"
)

// ---------------------------------------------------------------- arith

type ArithCase struct {
	X      string `json:"x"`
	Y      string `json:"y"`
	SX     int    `json:"sx"` // literal spelling of x
	SY     int    `json:"sy"`
	Inline bool   `json:"inline"` // fallible operators get the literals inline instead of the names x, y
}

type binop struct {
	sym   string
	tok   syntax.Token
	aug   string // helper implementing the augmented assignment
	model func(x, y *big.Int) *big.Int
}

var ringOps = []binop{
	{"+", syntax.PLUS, "iadd", add},
	{"-", syntax.MINUS, "isub", sub},
	{"*", syntax.STAR, "imul", mul},
	{"&", syntax.AMP, "iand", func(x, y *big.Int) *big.Int { return new(big.Int).And(x, y) }},
	{"|", syntax.PIPE, "ior", func(x, y *big.Int) *big.Int { return new(big.Int).Or(x, y) }},
	{"^", syntax.CIRCUMFLEX, "ixor", func(x, y *big.Int) *big.Int { return new(big.Int).Xor(x, y) }},
}

type cmpop struct {
	sym string
	tok syntax.Token
	ok  func(c int) bool
}

var cmpOps = []cmpop{
	{"==", syntax.EQL, func(c int) bool { return c == 0 }},
	{"!=", syntax.NEQ, func(c int) bool { return c != 0 }},
	{"<", syntax.LT, func(c int) bool { return c < 0 }},
	{"<=", syntax.LE, func(c int) bool { return c <= 0 }},
	{">", syntax.GT, func(c int) bool { return c > 0 }},
	{">=", syntax.GE, func(c int) bool { return c >= 0 }},
}

// bitwise identities that tie & | ^ ~ to + and -, independent of big.Int's own bit operations:
// x + y == (x ^ y) + 2*(x & y), x | y == (x ^ y) + (x & y), ~x == -x - 1.
func bitLaws(x, y, and, or, xor *big.Int) error {
	if got := add(xor, mul(big.NewInt(2), and)); got.Cmp(add(x, y)) != 0 {
		return fmt.Errorf("(x^y) + 2*(x&y) = %s, want x+y = %s", got, add(x, y))
	}
	if got := add(xor, and); got.Cmp(or) != 0 {
		return fmt.Errorf("(x^y) + (x&y) = %s, but x|y = %s", got, or)
	}
	return nil
}

func checkArith(c ArithCase) error {
	x, okx := parseInt(c.X)
	y, oky := parseInt(c.Y)
	if !okx || !oky {
		return fmt.Errorf("malformed case")
	}
	var es errs
	e := newEv()
	lx, ly := spell(x, c.SX), spell(y, c.SY)

	// One file: literals bound to names, then every infallible operator in a single list.
	var sb strings.Builder
	fmt.Fprintf(&sb, "x = %s\ny = %s\nres = [", lx, ly)
	for _, op := range ringOps {
		fmt.Fprintf(&sb, "x %s y, y %s x, ", op.sym, op.sym)
	}
	for _, op := range cmpOps {
		fmt.Fprintf(&sb, "x %s y, ", op.sym)
	}
	sb.WriteString("]\n")
	if err := e.exec(sb.String()); err != nil {
		return fmt.Errorf("program failed: %v\n%s", err, short(sb.String()))
	}
	es.add(intIs("x = "+lx, e.env["x"], x))
	es.add(intIs("y = "+ly, e.env["y"], y))
	res, _ := e.env["res"].(*starlark.List)
	if res == nil || res.Len() != 2*len(ringOps)+len(cmpOps) {
		return fmt.Errorf("result list has unexpected shape: %v", e.env["res"])
	}
	X, Y := mkInt(x), mkInt(y)
	nt := interestingInt(x) || interestingInt(y)
	k := 0
	results := map[string]*big.Int{}
	for _, op := range ringOps {
		want := op.model(x, y)
		results[op.sym] = want
		nt = nt || interestingInt(want)
		vk.S.Class("op:" + op.sym)
		es.add(intIs(fmt.Sprintf("%s %s %s", lx, op.sym, ly), res.Index(k), want))
		es.add(intIs(fmt.Sprintf("%s %s %s", ly, op.sym, lx), res.Index(k+1), op.model(y, x)))
		k += 2
		// Go API and augmented assignment on operands built by the public constructors.
		v, err := starlark.Binary(op.tok, X, Y)
		es.add(wantInt(fmt.Sprintf("Binary(%s, %s, %s)", op.tok, x, y), v, err, want, false))
		v, err = e.call(op.aug, X, Y)
		es.add(wantInt(fmt.Sprintf("a=%s; a %s= %s", x, op.sym, y), v, err, want, false))
	}
	for _, op := range cmpOps {
		want := op.ok(x.Cmp(y))
		vk.S.Class("op:" + op.sym)
		es.add(wantBool(fmt.Sprintf("%s %s %s", lx, op.sym, ly), res.Index(k), nil, want))
		k++
		b, err := starlark.Compare(op.tok, X, Y)
		es.add(wantBool(fmt.Sprintf("Compare(%s, %s, %s)", op.tok, x, y), starlark.Bool(b), err, want))
	}
	es.add(bitLaws(x, y, results["&"], results["|"], results["^"]))
	// Int methods.
	es.add(intIs("Int.Add", X.Add(Y), results["+"]))
	es.add(intIs("Int.Sub", X.Sub(Y), results["-"]))
	es.add(intIs("Int.Mul", X.Mul(Y), results["*"]))
	es.add(intIs("Int.And", X.And(Y), results["&"]))
	es.add(intIs("Int.Or", X.Or(Y), results["|"]))
	es.add(intIs("Int.Xor", X.Xor(Y), results["^"]))
	if cmp, err := X.Cmp(Y, 10); err != nil || sign(cmp) != x.Cmp(y) {
		es.add(fmt.Errorf("Int(%s).Cmp(%s) = %d, %v; want %d", x, y, cmp, err, x.Cmp(y)))
	}

	// Fallible operators, one evaluation each.
	ox, oy := "x", "y"
	if c.Inline {
		ox, oy = lx, ly
	}
	divSrc, modSrc, quoSrc := ox+" // "+oy, ox+" % "+oy, ox+" / "+oy
	dv, derr := e.eval(divSrc)
	mv, merr := e.eval(modSrc)
	qv, qerr := e.eval(quoSrc)
	vk.S.Class("op://")
	vk.S.Class("op:%")
	vk.S.Class("op:/")
	if y.Sign() == 0 {
		es.add(wantFail(divSrc, dv, derr, "division by zero"))
		es.add(wantFail(modSrc, mv, merr, "modulo by zero"))
		es.add(wantFail(quoSrc, qv, qerr, "division by zero"))
		for _, aug := range []string{"ifloordiv", "imod", "idiv"} {
			v, err := e.call(aug, X, Y)
			es.add(wantFail(aug+" by zero", v, err, "division by zero"))
		}
		v, err := starlark.Binary(syntax.SLASHSLASH, X, Y)
		es.add(wantFail("Binary(//) by zero", v, err, "division by zero"))
		v, err = starlark.Binary(syntax.PERCENT, X, Y)
		es.add(wantFail("Binary(%) by zero", v, err, "division by zero"))
	} else {
		q, r := floorDivMod(x, y)
		nt = nt || interestingInt(q) || interestingInt(r)
		es.add(wantInt(divSrc, dv, derr, q, false))
		es.add(wantInt(modSrc, mv, merr, r, false))
		// The law of the property statement, on the implementation's own results.
		if di, ok := dv.(starlark.Int); ok && derr == nil {
			if mi, ok := mv.(starlark.Int); ok && merr == nil {
				if err := divLaw(x, y, di.BigInt(), mi.BigInt()); err != nil {
					es.add(fmt.Errorf("x=%s y=%s: %v", x, y, err))
				}
			}
		}
		es.add(intIs("Int.Div", X.Div(Y), q))
		es.add(intIs("Int.Mod", X.Mod(Y), r))
		v, err := e.call("ifloordiv", X, Y)
		es.add(wantInt(fmt.Sprintf("a=%s; a //= %s", x, y), v, err, q, false))
		v, err = e.call("imod", X, Y)
		es.add(wantInt(fmt.Sprintf("a=%s; a %%= %s", x, y), v, err, r, false))
		// x / y: both operands converted to float, then IEEE division.
		fx, ovx := intToFloat(x)
		fy, ovy := intToFloat(y)
		es.add(wantFloat(quoSrc, qv, qerr, fx/fy, ovx || ovy, false))
		v, err = e.call("idiv", X, Y)
		es.add(wantFloat(fmt.Sprintf("a=%s; a /= %s", x, y), v, err, fx/fy, ovx || ovy, false))
	}

	if nt {
		vk.S.Class("arith:nontrivial")
		vk.S.NonTrivial("arith|" + c.X + "|" + c.Y)
		vk.S.Sample("arith", "nontrivial", c)
	} else {
		vk.S.Class("arith:trivial")
	}
	vk.S.Class("arith:" + sizeClass(x) + "x" + sizeClass(y))
	return es.result()
}

func sign(c int) int {
	switch {
	case c < 0:
		return -1
	case c > 0:
		return 1
	}
	return 0
}

func sizeClass(x *big.Int) string {
	switch {
	case fitsI32(x):
		return "small"
	case fitsI64(x):
		return "i64"
	}
	return "big"
}

var subArith = vk.Register("arith", checkArith)

func TestPropArithGrid(t *testing.T) {
	pool := gridInts()
	setExhaustive(fmt.Sprintf("arith-grid-%dx%d", len(pool), len(pool)))
	vk.Enum(t, subArith, func(yield func(ArithCase) bool) {
		n := 0
		for i, x := range pool {
			for j, y := range pool {
				n++
				if !mine(n / 32) {
					continue
				}
				if !yield(ArithCase{X: x.String(), Y: y.String(), SX: i + j, SY: i + 3*j + 1, Inline: (i+j)%3 == 0}) {
					return
				}
			}
		}
	})
}

func TestPropArithRandom(t *testing.T) {
	g := genInt(false)
	vk.Rapid(t, subArith, vk.N(6000, 60000), func(t *rapid.T) ArithCase {
		c := ArithCase{X: g.Draw(t, "x"), SX: rapid.IntRange(0, 6).Draw(t, "sx"), SY: rapid.IntRange(0, 6).Draw(t, "sy"),
			Inline: rapid.Bool().Draw(t, "inline")}
		// y: independent, or related to x so that quotients and remainders hit boundaries
		switch rapid.IntRange(0, 5).Draw(t, "rel") {
		case 0:
			x := bi(c.X)
			d := bi(g.Draw(t, "d"))
			if d.Sign() == 0 {
				d.SetInt64(1)
			}
			q, _ := floorDivMod(x, d)
			c.Y = q.String() // x // y lands near d
		case 1:
			c.Y = neg(bi(c.X)).String()
		case 2:
			c.Y = addi(bi(c.X), int64(rapid.IntRange(-2, 2).Draw(t, "dy"))).String()
		default:
			c.Y = g.Draw(t, "y")
		}
		return c
	})
}

// ---------------------------------------------------------------- shift

type ShiftCase struct {
	X  string `json:"x"`
	N  string `json:"n"`
	SX int    `json:"sx"`
	SN int    `json:"sn"`
}

var maxShiftProbe = big.NewInt(1 << 20) // larger right-shift counts are answered from the bit length

func checkShift(c ShiftCase) error {
	x, okx := parseInt(c.X)
	n, okn := parseInt(c.N)
	if !okx || !okn {
		return fmt.Errorf("malformed case")
	}
	var es errs
	e := newEv()
	lx, ln := spell(x, c.SX), spell(n, c.SN)
	lsrc, rsrc := lx+" << "+ln, lx+" >> "+ln
	lv, lerr := e.eval(lsrc)
	rv, rerr := e.eval(rsrc)
	X, N := mkInt(x), mkInt(n)
	vk.S.Class("op:<<")
	vk.S.Class("op:>>")
	nt := interestingInt(x)
	switch {
	case n.Sign() < 0:
		es.add(wantFail(lsrc, lv, lerr, "negative shift count"))
		es.add(wantFail(rsrc, rv, rerr, "negative shift count"))
		v, err := e.call("ilsh", X, N)
		es.add(wantFail("a <<= negative", v, err, "negative shift count"))
		v, err = starlark.Binary(syntax.GTGT, X, N)
		es.add(wantFail("Binary(>>) negative", v, err, "negative shift count"))
		vk.S.Class("shift:negative-count")
	default:
		// left shift: exact product with 2^n, or (n >= 512) failure
		if n.Cmp(big.NewInt(4096)) <= 0 {
			want := mul(x, pow2(uint(n.Int64())))
			nt = nt || interestingInt(want)
			mayFail := n.Cmp(big.NewInt(512)) >= 0
			es.add(wantInt(lsrc, lv, lerr, want, mayFail))
			v, err := e.call("ilsh", X, N)
			es.add(wantInt("a="+c.X+"; a <<= "+c.N, v, err, want, mayFail))
			v, err = starlark.Binary(syntax.LTLT, X, N)
			es.add(wantInt("Binary(<<)", v, err, want, mayFail))
			es.add(intIs(fmt.Sprintf("Int(%s).Lsh(%s)", x, n), X.Lsh(uint(n.Int64())), want))
		} else if lerr == nil {
			// An answer for an enormous count cannot be checked cheaply; it would have to be x * 2^n.
			if li, ok := lv.(starlark.Int); !ok || (x.Sign() == 0) != (li.Sign() == 0) || (x.Sign() != 0 && li.BigInt().BitLen() < 4096) {
				es.add(fmt.Errorf("%s = %s, which is not x * 2^n", short(lsrc), short(fmt.Sprint(lv))))
			}
		} else {
			vk.S.Class("allowed-failure")
		}
		// right shift: floor(x / 2^n)
		var want *big.Int
		if n.Cmp(maxShiftProbe) <= 0 && n.Int64() <= int64(x.BitLen())+8 {
			want, _ = floorDivMod(x, pow2(uint(n.Int64())))
		} else if x.Sign() < 0 {
			want = big.NewInt(-1)
		} else {
			want = big.NewInt(0)
		}
		nt = nt || interestingInt(want)
		mayFail := n.Cmp(maxI32) > 0
		es.add(wantInt(rsrc, rv, rerr, want, mayFail))
		v, err := e.call("irsh", X, N)
		es.add(wantInt("a="+c.X+"; a >>= "+c.N, v, err, want, mayFail))
		v, err = starlark.Binary(syntax.GTGT, X, N)
		es.add(wantInt("Binary(>>)", v, err, want, mayFail))
		if n.Cmp(maxShiftProbe) <= 0 {
			es.add(intIs(fmt.Sprintf("Int(%s).Rsh(%s)", x, n), X.Rsh(uint(n.Int64())), want))
		}
		switch {
		case n.Cmp(big.NewInt(512)) >= 0:
			vk.S.Class("shift:count>=512")
		case n.Cmp(big.NewInt(500)) >= 0:
			vk.S.Class("shift:count-500..511")
		default:
			vk.S.Class("shift:count<500")
		}
	}
	if nt {
		vk.S.NonTrivial("shift|" + c.X + "|" + c.N)
		vk.S.Sample("shift", "nontrivial", c)
	}
	return es.result()
}

var subShift = vk.Register("shift", checkShift)

func shiftCounts() []*big.Int {
	var ns []*big.Int
	for _, v := range []int64{-(1 << 40), -(1 << 31) - 1, -(1 << 31), -2, -1, 0, 1, 2, 3, 7, 8, 29, 30, 31, 32, 33, 52, 53, 54, 62, 63, 64, 65,
		127, 128, 129, 200, 255, 256, 448, 449, 479, 480, 481, 509, 510, 511, 512, 513, 1000, 1023, 1024, 4096, 4097, 100000, 1<<31 - 1, 1 << 31, 1 << 32, 1<<53 + 1} {
		ns = append(ns, big.NewInt(v))
	}
	ns = append(ns, pow2(63), pow2(64), pow2(200))
	return ns
}

func TestPropShiftGrid(t *testing.T) {
	pool, counts := gridInts(), shiftCounts()
	setExhaustive(fmt.Sprintf("shift-grid-%dx%d", len(pool), len(counts)))
	vk.Enum(t, subShift, func(yield func(ShiftCase) bool) {
		k := 0
		for i, x := range pool {
			for j, n := range counts {
				k++
				if !mine(k / 32) {
					continue
				}
				if !yield(ShiftCase{X: x.String(), N: n.String(), SX: i + j, SN: j}) {
					return
				}
			}
		}
	})
}

func TestPropShiftRandom(t *testing.T) {
	g := genInt(false)
	vk.Rapid(t, subShift, vk.N(4000, 40000), func(t *rapid.T) ShiftCase {
		c := ShiftCase{X: g.Draw(t, "x"), SX: rapid.IntRange(0, 6).Draw(t, "sx"), SN: rapid.IntRange(0, 6).Draw(t, "sn")}
		switch rapid.IntRange(0, 5).Draw(t, "nk") {
		case 0:
			c.N = g.Draw(t, "n")
		case 1: // counts that bring the result to a boundary
			tgt := rapid.SampledFrom([]int{31, 32, 53, 63, 64, 511, 512}).Draw(t, "tgt")
			c.N = fmt.Sprint(abs(tgt - bi(c.X).BitLen() + rapid.IntRange(-1, 1).Draw(t, "off")))
		default:
			c.N = fmt.Sprint(rapid.IntRange(-1, 520).Draw(t, "n"))
		}
		return c
	})
}

func abs(i int) int {
	if i < 0 {
		return -i
	}
	return i
}

// ---------------------------------------------------------------- unary, formatting, parsing

type UnaryCase struct {
	X     string `json:"x"`
	SX    int    `json:"sx"`
	Bases []int  `json:"bases"` // bases for int(text, base); 0 and 2..36
	Form  int    `json:"form"`  // drives sign/prefix/case/leading-zero variants
}

const kLiteral64 = "C10-literal-octal-binary-64bit"

const digitChars = "0123456789abcdefghijklmnopqrstuvwxyz"

// parseModel implements the spec's int(string, base) for the structured strings the generator
// produces: optional sign, optional base prefix (accepted when base is 0 or matches), digits.
func parseModel(s string, base int) (*big.Int, bool) {
	negative := false
	if s != "" && (s[0] == '+' || s[0] == '-') {
		negative = s[0] == '-'
		s = s[1:]
	}
	pfx := 0
	if len(s) >= 2 && s[0] == '0' {
		switch s[1] {
		case 'x', 'X':
			pfx = 16
		case 'o', 'O':
			pfx = 8
		case 'b', 'B':
			pfx = 2
		}
	}
	switch {
	case pfx != 0 && (base == 0 || base == pfx):
		base = pfx
		s = s[2:]
	case base == 0:
		base = 10
		if len(s) > 1 && s[0] == '0' {
			return nil, false // like an integer literal: no leading zeros (the generator never sends all-zero strings longer than "0")
		}
	}
	if s == "" {
		return nil, false
	}
	z := new(big.Int)
	b := big.NewInt(int64(base))
	for i := 0; i < len(s); i++ {
		d := strings.IndexByte(digitChars, lower(s[i]))
		if d < 0 || d >= base {
			return nil, false
		}
		z.Mul(z, b).Add(z, big.NewInt(int64(d)))
	}
	if negative {
		z.Neg(z)
	}
	return z, true
}

func lower(c byte) byte {
	if 'A' <= c && c <= 'Z' {
		return c + 'a' - 'A'
	}
	return c
}

// digitsOf renders |x| in the base without using big.Int.Text (repeated division).
func digitsOf(x *big.Int, base int) string {
	a := new(big.Int).Abs(x)
	if a.Sign() == 0 {
		return "0"
	}
	// chunked: peel 6 digits at a time to keep it cheap for 512-bit values
	var out []byte
	b := big.NewInt(int64(base))
	r := new(big.Int)
	for a.Sign() != 0 {
		a.QuoRem(a, b, r)
		out = append(out, digitChars[r.Int64()])
	}
	for i, j := 0, len(out)-1; i < j; i, j = i+1, j-1 {
		out[i], out[j] = out[j], out[i]
	}
	return string(out)
}

func callBuiltin(e *ev, name string, args ...starlark.Value) (v starlark.Value, err error) {
	defer func() {
		if r := recover(); r != nil {
			e.th = &starlark.Thread{Name: "c10"}
			v, err = nil, &panicError{r}
		}
	}()
	return starlark.Call(e.th, starlark.Universe[name], starlark.Tuple(args), nil)
}

func quote(s string) string { return `"` + s + `"` } // the generated strings need no escaping

func checkUnary(c UnaryCase) error {
	x, ok := parseInt(c.X)
	if !ok {
		return fmt.Errorf("malformed case")
	}
	for _, b := range c.Bases {
		if b != 0 && (b < 2 || b > 36) {
			return fmt.Errorf("malformed case: base %d", b)
		}
	}
	var es errs
	e := newEv()
	lx := spell(x, c.SX)
	if err := e.exec("x = " + lx + "\n"); err != nil {
		return fmt.Errorf("x = %s failed: %v", short(lx), err)
	}
	es.add(intIs("x = "+lx, e.env["x"], x))
	X := mkInt(x)
	e.env["gx"] = X
	dec := digitsOf(x, 10)
	if x.Sign() < 0 {
		dec = "-" + dec
	}
	if dec != x.Text(10) {
		return fmt.Errorf("oracle self-check: digitsOf %s vs Text %s", dec, x.Text(10))
	}
	signed := func(digits string) string {
		if x.Sign() < 0 {
			return "-" + digits
		}
		return digits
	}

	// every literal spelling denotes the same value
	for sp := 0; sp < 7; sp++ {
		src := spellRaw(x, sp)
		v, err := e.eval(src)
		ferr := wantInt("literal "+src, v, err, x, false)
		if ferr != nil && err != nil && sp >= 3 && x.CmpAbs(maxI64) > 0 {
			// narrow: an octal or binary literal above MaxInt64 is refused by the scanner
			ferr = vk.Known(kLiteral64, ferr)
		}
		es.add(ferr)
	}
	vk.S.Class("op:literal")

	type intExp struct {
		src  string
		want *big.Int
	}
	var probes []probe
	ctxx := " with x = " + short(lx)
	absx := new(big.Int).Abs(x)
	for _, t := range []intExp{
		{"~x", sub(neg(x), big.NewInt(1))}, {"-x", neg(x)}, {"+x", x}, {"abs(x)", absx}, {"int(x)", x}, {"~gx", sub(neg(x), big.NewInt(1))},
		{"-gx", neg(x)}, {"abs(gx)", absx}, {"- - x", x}, {"~~x", x}, {"-(~x)", addi(x, 1)}, {"math.floor(x)", x}, {"math.ceil(x)", x},
		{"int(str(x))", x}, {"int(repr(x), 10)", x}, {"int('%d' % x)", x}, {"int('%x' % x, 16)", x}, {"int('%o' % x, 8)", x},
	} {
		probes = append(probes, pInt(t.src, ctxx, t.want))
	}
	for _, s := range []string{"~", "-", "+", "abs", "int"} {
		vk.S.Class("op:" + s + "x")
	}
	es.add(intIs("Int.Not", X.Not(), sub(neg(x), big.NewInt(1))))
	for _, tok := range []syntax.Token{syntax.MINUS, syntax.PLUS, syntax.TILDE} {
		v, err := starlark.Unary(tok, X)
		want := map[syntax.Token]*big.Int{syntax.MINUS: neg(x), syntax.PLUS: x, syntax.TILDE: sub(neg(x), big.NewInt(1))}[tok]
		es.add(wantInt(fmt.Sprintf("Unary(%s, %s)", tok, x), v, err, want, false))
	}

	for _, t := range []struct {
		src  string
		want bool
	}{{"bool(x)", x.Sign() != 0}, {"not x", x.Sign() == 0}, {"True if x else False", x.Sign() != 0}, {"x == gx", true}, {"x != gx", false},
		{"x <= gx and x >= gx", true}, {"x < gx or x > gx", false}, {"x in [gx]", true}, {"x in {gx: 1}", true}, {"x == x + 0", true}} {
		probes = append(probes, pBool(t.src, ctxx, t.want))
	}
	vk.S.Class("op:bool")
	if bool(X.Truth()) != (x.Sign() != 0) {
		es.add(fmt.Errorf("Int(%s).Truth() = %v", x, X.Truth()))
	}

	hexl := digitsOf(x, 16)
	for _, t := range []struct{ src, want string }{
		{"str(x)", dec}, {"repr(x)", dec}, {"'%d' % x", dec}, {"'%i' % x", dec}, {"'%s' % x", dec}, {"'%r' % x", dec},
		{"'%o' % x", signed(digitsOf(x, 8))}, {"'%x' % x", signed(hexl)}, {"'%X' % x", signed(strings.ToUpper(hexl))},
		{"'%d' % (x,)", dec}, {"'<%d|%x>' % (x, x)", "<" + dec + "|" + signed(hexl) + ">"}, {"'{}'.format(x)", dec}, {"'{0}{0}'.format(x)", dec + dec},
		{"str([x])", "[" + dec + "]"}, {"str((x,))", "(" + dec + ",)"}, {"str({x: x})", "{" + dec + ": " + dec + "}"}, {"str(gx)", dec}, {"'%x' % gx", signed(hexl)},
	} {
		probes = append(probes, pStr(t.src, ctxx, t.want))
	}
	for _, s := range []string{"str", "repr", "%d", "%i", "%o", "%x", "%X"} {
		vk.S.Class("op:" + s)
	}
	if X.String() != dec {
		es.add(fmt.Errorf("Int.String() = %s, want %s", short(X.String()), short(dec)))
	}
	for _, f := range []struct {
		verb string
		want string
	}{{"%d", dec}, {"%x", signed(hexl)}, {"%X", signed(strings.ToUpper(hexl))}, {"%o", signed(digitsOf(x, 8))}, {"%b", signed(digitsOf(x, 2))}, {"%v", dec}} {
		if got := fmt.Sprintf(f.verb, X); got != f.want {
			es.add(fmt.Errorf("fmt.Sprintf(%q, Int(%s)) = %s, want %s", f.verb, short(dec), short(got), short(f.want)))
		}
	}

	// int(text, base)
	for bi_, base := range c.Bases {
		form := c.Form
		_ = bi_
		eff := base
		if eff == 0 {
			eff = []int{10, 16, 8, 2}[form%4]
		}
		digits := digitsOf(x, eff)
		if form&4 != 0 {
			digits = strings.ToUpper(digits)
		}
		prefix := ""
		if base == 0 && eff != 10 || base == eff && (eff == 16 || eff == 8 || eff == 2) && form&8 != 0 {
			prefix = map[int]string{16: "0x", 8: "0o", 2: "0b"}[eff]
			if form&16 != 0 {
				prefix = strings.ToUpper(prefix)
			}
		}
		if base != 0 && form&32 != 0 {
			digits = "000" + digits // leading zeros are digits like any other when the base is explicit
		}
		sgn := ""
		if x.Sign() < 0 {
			sgn = "-"
		} else if form&64 != 0 {
			sgn = "+"
		}
		text := sgn + prefix + digits
		want, okm := parseModel(text, base)
		if !okm || want.Cmp(x) != 0 {
			// e.g. "0b1" in base 16 has another meaning than the generator intended: trust the model, not the intent
			if !okm {
				return fmt.Errorf("oracle self-check: model rejects generated text %q base %d", text, base)
			}
		}
		var src string
		switch {
		case base == 10 && form&128 != 0:
			src = "int(" + quote(text) + ")"
		case form&256 != 0:
			src = fmt.Sprintf("int(%s, base=%d)", quote(text), base)
		default:
			src = fmt.Sprintf("int(%s, %d)", quote(text), base)
		}
		probes = append(probes, pInt(src, "", want))
		vk.S.Class(fmt.Sprintf("parse:base%02d", base))
		if prefix != "" {
			vk.S.Class("parse:with-prefix")
		}

		// clearly invalid texts must be rejected, not given a value
		var bad []string
		d := digitsOf(absx, eff)
		if eff < 36 {
			bad = append(bad, sgn+prefix+d+string(digitChars[eff]), sgn+prefix+string(digitChars[eff])+d)
		}
		bad = append(bad, "", "+", "-", "--"+d, "+-"+d, "-+"+d, sgn+prefix+d+"-", sgn+prefix+"-"+d)
		if prefix != "" {
			bad = append(bad, sgn+prefix, prefix+sgn+d)
		}
		if base == 0 && x.Sign() != 0 {
			bad = append(bad, sgn+"0"+digitsOf(absx, 10))
		}
		if base != 0 {
			// a prefix of another base whose letter is not a digit of this base
			for _, p := range []struct {
				s string
				b int
			}{{"0x", 16}, {"0o", 8}, {"0b", 2}} {
				if p.b != base {
					bad = append(bad, sgn+p.s+d)
				}
			}
		}
		for _, t := range bad {
			if _, valid := parseModel(t, base); valid {
				continue // e.g. "0b11" in base 16, "0o7" in base 36
			}
			src := fmt.Sprintf("int(%s, %d)", quote(t), base)
			if (len(t)+base+form)%8 == 0 {
				v, err := e.eval(src)
				es.add(wantFail(src, v, err, "not a number in that base"))
				continue
			}
			v, err := callBuiltin(e, "int", starlark.String(t), starlark.MakeInt(base))
			es.add(wantFail(src+" (called through the Go API)", v, err, "not a number in that base"))
		}
		vk.S.Class("parse:invalid-rejected")
		// With automatic base detection a text of several zeros is either zero or rejected (the spec says "like an
		// integer literal", the implementation and Python 3 accept it): never another value, never a crash.
		if base == 0 && x.Sign() == 0 {
			for _, z := range []string{"00", "000", "-00", "+000", "0000000000000000000000"} {
				v, err := callBuiltin(e, "int", starlark.String(z), starlark.MakeInt(0))
				if pe, isPanic := err.(*panicError); isPanic {
					es.add(fmt.Errorf("int(%q, 0) panics: %v", z, pe))
				} else if err == nil {
					if i, ok := v.(starlark.Int); !ok || i.Sign() != 0 {
						es.add(fmt.Errorf("int(%q, 0) = %v, want 0 or an error", z, v))
					}
				}
				vk.S.Class("parse:all-zeros-base0")
			}
		}
	}

	e.run(probes, &es)

	if interestingInt(x) {
		vk.S.NonTrivial("unary|" + c.X)
		vk.S.Sample("unary", "nontrivial", c)
		vk.S.Class("unary:nontrivial")
	} else {
		vk.S.Class("unary:trivial")
	}
	return es.result()
}

var subUnary = vk.Register("unary", checkUnary)

func allBases() []int {
	bs := []int{0}
	for b := 2; b <= 36; b++ {
		bs = append(bs, b)
	}
	return bs
}

func TestPropUnaryGrid(t *testing.T) {
	pool := gridInts()
	// form bits: 1|2 spelling used when base is 0 (decimal, 0x, 0o, 0b); 4 upper-case digits; 8 prefix although the base is explicit;
	// 16 upper-case prefix; 32 leading zeros; 64 plus sign; 128 one-argument int(text) when base is 10; 256 base= keyword
	forms := []int{0, 1 + 4 + 8 + 16 + 64, 2 + 32 + 128 + 256, 3 + 8}
	if vk.Thorough() {
		forms = []int{0, 1 + 4 + 8 + 16 + 64, 2 + 32 + 128 + 256, 3 + 8, 1, 2 + 16, 3 + 16 + 64, 4 + 32, 8 + 16 + 32 + 256, 1 + 8 + 64 + 128}
	}
	setExhaustive(fmt.Sprintf("unary-grid-%d-values-x-36-bases-x-%d-forms", len(pool), len(forms)))
	vk.Enum(t, subUnary, func(yield func(UnaryCase) bool) {
		k := 0
		for i, x := range pool {
			for _, f := range forms {
				k++
				if !mine(k / 8) {
					continue
				}
				if !yield(UnaryCase{X: x.String(), SX: i, Bases: allBases(), Form: f}) {
					return
				}
			}
		}
	})
}

func TestPropUnaryRandom(t *testing.T) {
	g := genInt(true)
	vk.Rapid(t, subUnary, vk.N(1500, 15000), func(t *rapid.T) UnaryCase {
		return UnaryCase{X: g.Draw(t, "x"), SX: rapid.IntRange(0, 6).Draw(t, "sx"),
			Bases: rapid.SliceOfN(rapid.SampledFrom(allBases()), 1, 6).Draw(t, "bases"), Form: rapid.IntRange(0, 511).Draw(t, "form")}
	})
}

var _ = math.MaxInt32
