// C10: integer and numeric operations are exact.
//
// Every sub-check renders expressions as Starlark source (integer literals in a drawn
// decimal/hex/octal/binary spelling), evaluates them with starlark.ExecFileOptions /
// starlark.EvalOptions, and compares the printed decimal text (float results: the bit
// pattern) with an oracle computed with math/big.  The Go API (starlark.Binary, Int
// methods, NumberToInt, AsInt, ...) is exercised on the same operands.
//
// This file: TestMain, the check that tells which Int representation is active,
// value pools, literal rendering, evaluation helpers and the math/big oracles.
package c10

import (
	"bytes"
	"fmt"
	"math"
	"math/big"
	"os"
	"os/exec"
	"reflect"
	"runtime/debug"
	"sort"
	"strconv"
	"strings"
	"testing"

	starlarkmath "go.starlark.net/lib/math"
	"go.starlark.net/starlark"
	"go.starlark.net/syntax"
	"pgregory.net/rapid"
	"verif/harness/vk"
)

func TestMain(m *testing.M) {
	// The live heap is tiny; without this the collector runs hundreds of times per second.
	debug.SetGCPercent(1000)
	if os.Getenv("VERIF_C10_PROBE") != "" {
		// Child of checkRepresentation: the package initialisers have run (and have
		// printed their warning, if any, to stderr); nothing else to do.
		os.Exit(0)
	}
	vk.Describe("operators and numeric built-ins evaluated from rendered Starlark source (literal spelling drawn) and through the Go API, "+
		"compared with math/big (Int for ring/bit operations, floored division law, exact int/float comparison by integer scaling, "+
		"Float(53, nearest-even) for int->float, exact truncation for float->int, Text(base) for formatting). "+
		"Non-trivial = at least one operand or the exact result lies outside the int32 range, or within +-3 of one of +-2^31, +-2^32, +-2^53, "+
		"+-2^63, +-2^64, +-2^511, +-2^512, or is a float adjacent to (within 1 ulp of, but not equal to) an integer, a half k+0.5, or a "+
		"float at or above 2^53 in magnitude; distinct by canonical text of the case.",
		"an operation may fail only where the spec allows: division/modulo by zero (must fail), negative shift count (must fail), left shift count >= 512, "+
			"right shift count above 2^31-1, int too large to convert to float, int(non-finite float), and machine-int parameters of range/enumerate/repetition/indexing that cannot hold the operand",
		"NaN ordering/equality is not asserted (spec and implementation disagree; not a question of exactness); float % and // are asserted on finite operands per the spec formulas floor(x/y) and x-y*floor(x/y)",
		"math.round is asserted on floats and on ints up to 2^53 in magnitude only",
		"the second Int representation (no 4GB reservation) is exercised by an extra process under an address-space rlimit; int_generic.go (32-bit/non-POSIX) cannot be run here")
	checkRepresentation()
	vk.Main(m, "C10")
}

// ---------------------------------------------------------------- which Int representation is running?

// repFallbackByIdentity: with the address-space optimisation an int32 value is encoded in the
// pointer itself, so two Ints made from the same small number are identical words; in the fallback
// every MakeInt allocates a fresh big.Int.
func repFallbackByIdentity() bool {
	a, b := starlark.MakeInt(7), starlark.MakeInt(7)
	return a != b
}

// repFallbackByLayout: in the optimised representation consecutive small ints are consecutive addresses.
func repFallbackByLayout() bool {
	p0 := reflect.ValueOf(starlark.MakeInt(0)).Field(0).Pointer()
	p1 := reflect.ValueOf(starlark.MakeInt(1)).Field(0).Pointer()
	pm := reflect.ValueOf(starlark.MakeInt(-5)).Field(0).Pointer()
	return !(p1-p0 == 1 && p0-pm == 5)
}

// repWarningPrinted re-executes this binary (same rlimits, inherited) and looks for the
// warning that starlark's package initialiser logs when the reservation fails.
func repWarningPrinted() (bool, error) {
	exe, err := os.Executable()
	if err != nil {
		return false, err
	}
	cmd := exec.Command(exe, "-test.run=^$")
	cmd.Env = append(os.Environ(), "VERIF_C10_PROBE=1")
	var out bytes.Buffer
	cmd.Stdout, cmd.Stderr = &out, &out
	if err := cmd.Run(); err != nil {
		return false, fmt.Errorf("probe child: %v: %s", err, out.String())
	}
	return strings.Contains(out.String(), "Integer performance may suffer"), nil
}

var fallbackRep bool

func checkRepresentation() {
	want := os.Getenv("VERIF_INTREP") == "fallback"
	byID, byLayout := repFallbackByIdentity(), repFallbackByLayout()
	warned, werr := repWarningPrinted()
	fallbackRep = byID
	name := map[bool]string{false: "address-space optimised (int32 encoded in the pointer)", true: "fallback (every Int is a *big.Int; 4GB reservation failed)"}
	if byID != byLayout || (werr == nil && warned != byID) {
		fmt.Printf("C10: representation detectors disagree: identity=%v layout=%v warning=%v (%v)\n", byID, byLayout, warned, werr)
		os.Exit(2)
	}
	if werr != nil {
		vk.S.Note("representation probe child could not run (%v); relied on the two in-process detectors", werr)
	}
	if want && !byID {
		fmt.Printf("C10: VERIF_INTREP=fallback requested but the optimised Int representation is active " +
			"(the 4GB reservation succeeded: is the address-space rlimit in place?)\n")
		os.Exit(2)
	}
	if !want && byID {
		fmt.Printf("C10: WARNING: the fallback Int representation is active in a run that was meant to cover the optimised one\n")
		vk.S.Note("WARNING: run without VERIF_INTREP=fallback nevertheless used the fallback representation")
	}
	vk.S.Note("Int representation in this process (VERIF_INTREP=%q): %s; detectors: identity=%v layout=%v init-warning-in-child=%v",
		os.Getenv("VERIF_INTREP"), name[byID], byID, byLayout, warned)
	fmt.Printf("C10: Int representation: %s\n", name[byID])
}

// mine splits enumerations.  The fallback process runs unsharded; in the thorough tier it takes a
// fixed quarter of each grid (rotated by the seed) so that it stays inside the per-process budget.
func mine(i int) bool {
	if fallbackRep && vk.Thorough() && vk.NShards() == 1 {
		return i%4 == vk.Seed()%4
	}
	return vk.Mine(i)
}

func gridIsComplete() bool { return !(fallbackRep && vk.Thorough() && vk.NShards() == 1) }

// setExhaustive records a grid as exhaustively enumerated; the quarter-sampled grids of the
// fallback process in the thorough tier are recorded under their own name as not exhaustive.
func setExhaustive(name string) {
	if gridIsComplete() {
		vk.S.SetExhaustive(name, true)
	} else {
		vk.S.SetExhaustive(name+" [fallback representation: one quarter]", false)
	}
}

// ---------------------------------------------------------------- big helpers

func bi(s string) *big.Int {
	z, ok := new(big.Int).SetString(s, 10)
	if !ok {
		panic("bad integer in case: " + s)
	}
	return z
}

func parseInt(s string) (*big.Int, bool) { return new(big.Int).SetString(s, 10) }

func pow2(n uint) *big.Int              { return new(big.Int).Lsh(big.NewInt(1), n) }
func neg(x *big.Int) *big.Int           { return new(big.Int).Neg(x) }
func add(x, y *big.Int) *big.Int        { return new(big.Int).Add(x, y) }
func sub(x, y *big.Int) *big.Int        { return new(big.Int).Sub(x, y) }
func mul(x, y *big.Int) *big.Int        { return new(big.Int).Mul(x, y) }
func addi(x *big.Int, d int64) *big.Int { return new(big.Int).Add(x, big.NewInt(d)) }

var (
	minI32 = big.NewInt(math.MinInt32)
	maxI32 = big.NewInt(math.MaxInt32)
	minI64 = big.NewInt(math.MinInt64)
	maxI64 = big.NewInt(math.MaxInt64)
	maxU64 = new(big.Int).SetUint64(math.MaxUint64)
	two53  = pow2(53)
)

func fitsI32(x *big.Int) bool { return x.Cmp(minI32) >= 0 && x.Cmp(maxI32) <= 0 }
func fitsI64(x *big.Int) bool { return x.Cmp(minI64) >= 0 && x.Cmp(maxI64) <= 0 }
func fitsU64(x *big.Int) bool { return x.Sign() >= 0 && x.Cmp(maxU64) <= 0 }

var boundaryBits = []uint{31, 32, 53, 63, 64, 511, 512}

// nearBoundary: within +-3 of +-2^k for the listed k.
func nearBoundary(x *big.Int) bool {
	a := new(big.Int).Abs(x)
	n := a.BitLen()
	for _, k := range boundaryBits {
		if n < int(k) || n > int(k)+1 {
			continue
		}
		d := new(big.Int).Sub(a, pow2(k))
		if d.CmpAbs(big.NewInt(3)) <= 0 {
			return true
		}
	}
	return false
}

// interestingInt is the integer half of the non-triviality rule.
func interestingInt(x *big.Int) bool { return !fitsI32(x) || nearBoundary(x) }

// interestingFloat: adjacent to an integer, a half, or beyond 2^53.
func interestingFloat(f float64) bool {
	if math.IsNaN(f) || math.IsInf(f, 0) {
		return false
	}
	a := math.Abs(f)
	if a >= 1<<53 {
		return true
	}
	if a != math.Trunc(a) {
		if a-math.Trunc(a) == 0.5 {
			return true
		}
		if math.Nextafter(a, math.Inf(1)) == math.Ceil(a) || math.Nextafter(a, 0) == math.Floor(a) {
			return true
		}
	}
	return false
}

// floorDivMod: floored quotient and remainder (remainder has the sign of the divisor),
// computed from Euclidean division.  y != 0.
func floorDivMod(x, y *big.Int) (q, r *big.Int) {
	q, r = new(big.Int), new(big.Int)
	q.DivMod(x, y, r) // Euclidean: 0 <= r < |y|
	if y.Sign() < 0 && r.Sign() != 0 {
		r.Add(r, y)
		q.Sub(q, big.NewInt(1))
	}
	return
}

// divLaw verifies the defining property of floored division on claimed results.
func divLaw(x, y, q, r *big.Int) error {
	if got := add(mul(q, y), r); got.Cmp(x) != 0 {
		return fmt.Errorf("(x//y)*y + x%%y = %s, want x = %s", got, x)
	}
	if r.Sign() != 0 && r.Sign() != y.Sign() {
		return fmt.Errorf("x%%y = %s does not have the sign of the divisor %s", r, y)
	}
	if r.CmpAbs(y) >= 0 {
		return fmt.Errorf("|x%%y| = |%s| is not smaller than |y| = |%s|", r, y)
	}
	return nil
}

// intToFloat: nearest float64 (ties to even); overflow reports whether that is infinite.
func intToFloat(x *big.Int) (f float64, overflow bool) {
	bf := new(big.Float).SetPrec(53).SetMode(big.ToNearestEven).SetInt(x)
	f, _ = bf.Float64()
	return f, math.IsInf(f, 0)
}

// decompose a finite float as m * 2^e with m an integer of at most 53 bits.
func decompose(f float64) (m *big.Int, e int) {
	if f == 0 {
		return new(big.Int), 0
	}
	fr, exp := math.Frexp(f)
	return big.NewInt(int64(fr * (1 << 53))), exp - 53
}

// cmpIntFloat compares x with f exactly.  f must not be NaN.
func cmpIntFloat(x *big.Int, f float64) int {
	switch {
	case math.IsNaN(f):
		panic("cmpIntFloat(NaN)")
	case math.IsInf(f, 1):
		return -1
	case math.IsInf(f, -1):
		return +1
	}
	m, e := decompose(f)
	if e >= 0 {
		return x.Cmp(new(big.Int).Lsh(m, uint(e)))
	}
	return new(big.Int).Lsh(x, uint(-e)).Cmp(m)
}

// floatTrunc, floatFloor, floatCeil, floatRoundHalfAway: exact integer functions of a finite float.
func floatTrunc(f float64) *big.Int {
	m, e := decompose(f)
	if e >= 0 {
		return m.Lsh(m, uint(e))
	}
	return m.Quo(m, pow2(uint(-e))) // truncated
}

func floatFloor(f float64) *big.Int {
	m, e := decompose(f)
	if e >= 0 {
		return m.Lsh(m, uint(e))
	}
	q, _ := floorDivMod(m, pow2(uint(-e)))
	return q
}

func floatCeil(f float64) *big.Int { return neg(floatFloor(-f)) }

func floatRoundHalfAway(f float64) *big.Int {
	m, e := decompose(math.Abs(f))
	var r *big.Int
	if e >= 0 {
		r = m.Lsh(m, uint(e))
	} else {
		k := uint(-e)
		r, _ = floorDivMod(add(new(big.Int).Lsh(m, 1), pow2(k)), pow2(k+1))
	}
	if f < 0 {
		r.Neg(r)
	}
	return r
}

// floatIsInteger reports whether finite f has an integral value, and that value.
func floatIsInteger(f float64) (*big.Int, bool) {
	if math.IsNaN(f) || math.IsInf(f, 0) {
		return nil, false
	}
	t := floatTrunc(f)
	return t, cmpIntFloat(t, f) == 0
}

func ratOfFloat(f float64) *big.Rat {
	m, e := decompose(f)
	if e >= 0 {
		return new(big.Rat).SetInt(m.Lsh(m, uint(e)))
	}
	return new(big.Rat).SetFrac(m, pow2(uint(-e)))
}

// ---------------------------------------------------------------- rendering

// spell renders x as a Starlark integer literal; sp picks the spelling.  Octal and binary
// spellings of magnitudes above MaxInt64 are rejected by the scanner (finding
// C10-literal-octal-binary-64bit, asserted in the "unary" sub-check only), so everywhere else
// such values fall back to hex or decimal.
func spell(x *big.Int, sp int) string {
	sp = ((sp % 7) + 7) % 7
	if sp >= 3 && x.CmpAbs(maxI64) > 0 {
		sp -= 3 // 3,4 -> decimal, hex; 5,6 -> HEX, (octal ->) decimal
		if sp >= 3 {
			sp = 0
		}
	}
	return spellRaw(x, sp)
}

// spellRaw renders x in exactly the requested spelling.
func spellRaw(x *big.Int, sp int) string {
	a := new(big.Int).Abs(x)
	var s string
	switch ((sp % 7) + 7) % 7 {
	case 0:
		s = a.Text(10)
	case 1:
		s = "0x" + a.Text(16)
	case 2:
		s = "0X" + strings.ToUpper(a.Text(16))
	case 3:
		s = "0o" + a.Text(8)
	case 4:
		s = "0O" + a.Text(8)
	case 5:
		s = "0b" + a.Text(2)
	case 6:
		s = "0B" + a.Text(2)
	}
	if x.Sign() < 0 {
		return "(-" + s + ")"
	}
	return s
}

// floatSrc renders f as Starlark source.
func floatSrc(f float64, mode int) string {
	switch {
	case math.IsNaN(f):
		return `float("nan")`
	case math.IsInf(f, 1):
		return `float("+inf")`
	case math.IsInf(f, -1):
		return `float("-inf")`
	}
	a := math.Abs(f)
	var s string
	switch ((mode % 3) + 3) % 3 {
	case 0:
		s = strconv.FormatFloat(a, 'g', -1, 64)
		if !strings.ContainsAny(s, ".e") {
			s += ".0"
		}
	case 1:
		s = strconv.FormatFloat(a, 'e', -1, 64)
	case 2:
		s = `float("` + strconv.FormatFloat(a, 'g', -1, 64) + `")`
	}
	if math.Signbit(f) {
		return "(-" + s + ")"
	}
	return s
}

func sameFloat(a, b float64) bool {
	if math.IsNaN(a) || math.IsNaN(b) {
		return math.IsNaN(a) && math.IsNaN(b)
	}
	return math.Float64bits(a) == math.Float64bits(b)
}

func fbits(f float64) string { return fmt.Sprintf("%v (bits %#016x)", f, math.Float64bits(f)) }

// ---------------------------------------------------------------- evaluation

var fileOpts = &syntax.FileOptions{Set: true}

type ev struct {
	th  *starlark.Thread
	env starlark.StringDict
}

func newEv() *ev {
	return &ev{th: &starlark.Thread{Name: "c10"}, env: starlark.StringDict{"math": starlarkmath.Module}}
}

// A Go panic raised by the code under test is turned into a panicError so that the case can go on
// (and classify it); it is never accepted as a permitted failure.
type panicError struct{ v any }

func (p *panicError) Error() string { return fmt.Sprintf("panic: %v", p.v) }

func isPanic(err error) bool { _, ok := err.(*panicError); return ok }

func (e *ev) eval(src string) (v starlark.Value, err error) {
	defer func() {
		if r := recover(); r != nil {
			e.th = &starlark.Thread{Name: "c10"} // the old thread's stack is in an unknown state
			v, err = nil, &panicError{r}
		}
	}()
	return starlark.EvalOptions(fileOpts, e.th, "c10.star", src, e.env)
}

// exec runs a file and adds its globals to the environment of later evaluations.
func (e *ev) exec(src string) (err error) {
	defer func() {
		if r := recover(); r != nil {
			e.th = &starlark.Thread{Name: "c10"}
			err = &panicError{r}
		}
	}()
	g, err := starlark.ExecFileOptions(fileOpts, e.th, "c10.star", src, e.env)
	for k, v := range g {
		e.env[k] = v
	}
	return err
}

func (e *ev) call(fn string, args ...starlark.Value) (v starlark.Value, err error) {
	defer func() {
		if r := recover(); r != nil {
			e.th = &starlark.Thread{Name: "c10"}
			v, err = nil, &panicError{r}
		}
	}()
	return starlark.Call(e.th, helpers[fn], starlark.Tuple(args), nil)
}

// A probe is one expression with its verdict function.  Probes that must succeed are evaluated
// together as one list expression (one parse/compile instead of dozens); if that evaluation fails,
// or for probes that may or must fail, each is evaluated on its own so that the culprit is named.
type probe struct {
	src   string
	must  bool
	check func(v starlark.Value, err error) error
}

func (e *ev) run(ps []probe, es *errs) {
	var batch []int
	for i, p := range ps {
		if p.must {
			batch = append(batch, i)
		}
	}
	done := map[int]bool{}
	if len(batch) > 1 {
		var sb strings.Builder
		sb.WriteString("[")
		for _, i := range batch {
			sb.WriteString("(" + ps[i].src + "), ")
		}
		sb.WriteString("]")
		if v, err := e.eval(sb.String()); err == nil {
			if l, ok := v.(*starlark.List); ok && l.Len() == len(batch) {
				for k, i := range batch {
					es.add(ps[i].check(l.Index(k), nil))
					done[i] = true
				}
			}
		}
	}
	for i, p := range ps {
		if !done[i] {
			v, err := e.eval(p.src)
			es.add(p.check(v, err))
		}
	}
}

func pInt(src, ctx string, want *big.Int) probe {
	return probe{src, true, func(v starlark.Value, err error) error { return wantInt(src+ctx, v, err, want, false) }}
}
func pBool(src, ctx string, want bool) probe {
	return probe{src, true, func(v starlark.Value, err error) error { return wantBool(src+ctx, v, err, want) }}
}
func pStr(src, ctx string, want string) probe {
	return probe{src, true, func(v starlark.Value, err error) error { return wantStr(src+ctx, v, err, want) }}
}

// Functions compiled once; they route Go-constructed operands through the VM, including
// the augmented-assignment opcodes.
const helperSrc = `
def iadd(a, b):
    a += b
    return a
def isub(a, b):
    a -= b
    return a
def imul(a, b):
    a *= b
    return a
def ifloordiv(a, b):
    a //= b
    return a
def imod(a, b):
    a %= b
    return a
def iand(a, b):
    a &= b
    return a
def ior(a, b):
    a |= b
    return a
def ixor(a, b):
    a ^= b
    return a
def ilsh(a, b):
    a <<= b
    return a
def irsh(a, b):
    a >>= b
    return a
def idiv(a, b):
    a /= b
    return a
def loop(r):
    return [i for i in r]
def forloop(r):
    out = []
    for i in r:
        out.append(i)
    return out
`

var helpers starlark.StringDict

func init() {
	th := &starlark.Thread{Name: "helpers"}
	g, err := starlark.ExecFileOptions(fileOpts, th, "helpers.star", helperSrc, nil)
	if err != nil {
		panic(err)
	}
	helpers = g
}

// mkInt builds a Starlark Int through the narrowest public constructor that fits, so that
// MakeInt64, MakeUint64 and MakeBigInt are all exercised.
func mkInt(x *big.Int) starlark.Int {
	switch {
	case fitsI64(x):
		return starlark.MakeInt64(x.Int64())
	case fitsU64(x):
		return starlark.MakeUint64(x.Uint64())
	}
	return starlark.MakeBigInt(x)
}

// ---------------------------------------------------------------- error collection

// errs collects the failures of one case.  An unexpected failure wins over one that matches a
// catalogued finding, so that a known defect cannot mask a new one in the same case.
type errs struct {
	plain []error
	known []error
}

func (e *errs) add(err error) {
	if err == nil {
		return
	}
	if _, ok := err.(*vk.KnownErr); ok {
		e.known = append(e.known, err)
		return
	}
	e.plain = append(e.plain, err)
}

func (e *errs) result() error {
	if len(e.plain) > 0 {
		if len(e.plain) == 1 {
			return e.plain[0]
		}
		return fmt.Errorf("%v (and %d more failures in this case)", e.plain[0], len(e.plain)+len(e.known)-1)
	}
	if len(e.known) > 0 {
		return e.known[0]
	}
	return nil
}

// ---------------------------------------------------------------- result checkers

func short(s string) string {
	if len(s) > 300 {
		return s[:140] + "..." + s[len(s)-140:]
	}
	return s
}

// wantInt: the evaluation must have produced exactly the integer want (mayFail: or an error).
func wantInt(src string, v starlark.Value, err error, want *big.Int, mayFail bool) error {
	if err != nil {
		if mayFail && !isPanic(err) {
			vk.S.Class("allowed-failure")
			return nil
		}
		return fmt.Errorf("%s failed (%v), want %s", short(src), err, short(want.String()))
	}
	return intIs(src, v, want)
}

// intIs checks the value and the consistency of every accessor of the Int.
func intIs(src string, v starlark.Value, want *big.Int) error {
	i, ok := v.(starlark.Int)
	if !ok {
		return fmt.Errorf("%s = %v (%s), want int %s", short(src), v, v.Type(), short(want.String()))
	}
	if got := i.String(); got != want.Text(10) {
		return fmt.Errorf("%s = %s, want %s", short(src), short(got), short(want.String()))
	}
	if got := i.BigInt(); got.Cmp(want) != 0 {
		return fmt.Errorf("%s: BigInt() = %s although String() = %s", short(src), short(got.String()), short(want.String()))
	}
	// Canonical representation: a value in the int32 range must be held as a small int, which is what
	// AsInt32 observes; Int64/Uint64 must be exact or refuse.
	n32, err := starlark.AsInt32(i)
	if fitsI32(want) != (err == nil) || (err == nil && int64(n32) != want.Int64()) {
		return fmt.Errorf("%s = %s: AsInt32 gives %d, %v", short(src), short(want.String()), n32, err)
	}
	n64, ok64 := i.Int64()
	if ok64 != fitsI64(want) || (ok64 && n64 != want.Int64()) {
		return fmt.Errorf("%s = %s: Int64() gives %d, %v", short(src), short(want.String()), n64, ok64)
	}
	u64, oku := i.Uint64()
	if oku != fitsU64(want) || (oku && u64 != want.Uint64()) {
		return fmt.Errorf("%s = %s: Uint64() gives %d, %v", short(src), short(want.String()), u64, oku)
	}
	if i.Sign() != want.Sign() {
		return fmt.Errorf("%s = %s: Sign() gives %d", short(src), short(want.String()), i.Sign())
	}
	return nil
}

func wantBool(src string, v starlark.Value, err error, want bool) error {
	if err != nil {
		return fmt.Errorf("%s failed (%v), want %v", short(src), err, want)
	}
	b, ok := v.(starlark.Bool)
	if !ok || bool(b) != want {
		return fmt.Errorf("%s = %v, want %v", short(src), v, starlark.Bool(want))
	}
	return nil
}

func wantStr(src string, v starlark.Value, err error, want string) error {
	if err != nil {
		return fmt.Errorf("%s failed (%v), want %q", short(src), err, short(want))
	}
	s, ok := v.(starlark.String)
	if !ok || string(s) != want {
		return fmt.Errorf("%s = %s, want %q", short(src), short(fmt.Sprint(v)), short(want))
	}
	return nil
}

// wantFloat compares bit patterns (all NaNs alike).  anyZero accepts either sign of zero.
func wantFloat(src string, v starlark.Value, err error, want float64, mayFail, anyZero bool) error {
	if err != nil {
		if mayFail && !isPanic(err) {
			vk.S.Class("allowed-failure")
			return nil
		}
		return fmt.Errorf("%s failed (%v), want %s", short(src), err, fbits(want))
	}
	f, ok := v.(starlark.Float)
	if !ok {
		return fmt.Errorf("%s = %v (%s), want float %s", short(src), v, v.Type(), fbits(want))
	}
	if sameFloat(float64(f), want) || (anyZero && want == 0 && float64(f) == 0) {
		return nil
	}
	return fmt.Errorf("%s = %s, want %s", short(src), fbits(float64(f)), fbits(want))
}

func wantFail(src string, v starlark.Value, err error, why string) error {
	if err == nil {
		return fmt.Errorf("%s = %s, but it must fail (%s)", short(src), short(fmt.Sprint(v)), why)
	}
	if isPanic(err) {
		return fmt.Errorf("%s: %v (an error is required, not a Go panic)", short(src), err)
	}
	vk.S.Class("required-failure")
	return nil
}

// ---------------------------------------------------------------- pools

func sortUnique(xs []*big.Int) []*big.Int {
	sort.Slice(xs, func(i, j int) bool { return xs[i].Cmp(xs[j]) < 0 })
	out := xs[:0]
	for i, x := range xs {
		if i == 0 || x.Cmp(xs[i-1]) != 0 {
			out = append(out, x)
		}
	}
	return out
}

// Fixed "random-looking" magnitudes up to 2^200 for the enumerated grids (the random part of the
// domain is rapid's job).
var fixedMagnitudes = []string{
	"1000", "46340", "46341", "65535", "65536", "16777216", "1000000007", "3037000499", "3037000500",
	"1000000000000", "123456789012345678901234567890", "170141183460469231731687303715884105727",
	"1606938044258990275541962092341162602522202993782792835301375", // 2^200 - 1
	"515377520732011331036461129765621272702107522001",              // 3^100
	"1267650600228229401496703205376",                               // 2^100
}

// intGridPool: {0, +-1, +-2} U neighbourhoods of the boundaries U fixed magnitudes.
func intGridPool(radius int64, extraBits []uint) []*big.Int {
	var xs []*big.Int
	for d := int64(-2); d <= 2; d++ {
		xs = append(xs, big.NewInt(d))
	}
	bits := append(append([]uint{}, boundaryBits...), extraBits...)
	for _, k := range bits {
		for d := -radius; d <= radius; d++ {
			p := addi(pow2(k), d)
			xs = append(xs, p, neg(p))
		}
	}
	for _, s := range fixedMagnitudes {
		xs = append(xs, bi(s), neg(bi(s)))
	}
	return sortUnique(xs)
}

var thoroughExtraBits = []uint{7, 8, 15, 16, 24, 30, 52, 62, 65, 100, 127, 128, 200, 256}

func gridInts() []*big.Int {
	if vk.Thorough() {
		return intGridPool(3, thoroughExtraBits)
	}
	return intGridPool(3, nil)
}

// floatGridPool: signed zeros, subnormals, extreme normals, halves, neighbours of integers,
// 2^53/2^63/2^64 neighbourhoods, non-finite values.
func floatGridPool() []float64 {
	var fs []float64
	addn := func(f float64) { // f and its two neighbours
		fs = append(fs, f, math.Nextafter(f, math.Inf(1)), math.Nextafter(f, math.Inf(-1)))
	}
	base := []float64{0, 1, 2, 3, 0.5, 1.5, 2.5, 0.1, 1e-300, 1e300, 2147483647, 2147483648, 2147483647.5, 2147483648.5,
		4294967296, 4294967295.5, 1 << 52, 1<<52 + 0.5, 1 << 53, 1<<53 + 2, 1 << 62, 1 << 63, 1 << 64, 1e19, 1e30, 123456789.25,
		math.SmallestNonzeroFloat64, 0x1p-1022, math.MaxFloat64, 0x1p511, 0x1p512, 0x1p1023, 1e22, 1e23}
	for i, f := range base {
		if vk.Thorough() || i%3 == 1 || f == 1<<53 || f == 1<<63 || f == 2147483648 {
			addn(f)
			addn(-f)
		} else {
			fs = append(fs, f, -f)
		}
	}
	fs = append(fs, math.Inf(1), math.Inf(-1), math.NaN(), math.Copysign(0, -1))
	// unique by bits
	seen := map[uint64]bool{}
	out := fs[:0]
	for _, f := range fs {
		b := math.Float64bits(f)
		if math.IsNaN(f) {
			b = 0x7ff8000000000001
		}
		if !seen[b] {
			seen[b] = true
			out = append(out, f)
		}
	}
	return out
}

// ---------------------------------------------------------------- rapid generators

// genInt draws the decimal text of an integer: boundary neighbourhoods, small values and
// random magnitudes up to 2^200 (sometimes up to 2^1030 when huge is set).
func genInt(huge bool) *rapid.Generator[string] {
	return rapid.Custom(func(t *rapid.T) string {
		kind := rapid.IntRange(0, 9).Draw(t, "kind")
		var x *big.Int
		switch {
		case kind <= 2: // boundary +- delta
			bits := []uint{7, 8, 15, 16, 31, 31, 32, 32, 52, 53, 53, 62, 63, 63, 64, 64, 65, 127, 128, 200, 511, 512}
			if huge {
				bits = append(bits, 1023, 1024)
			}
			k := rapid.SampledFrom(bits).Draw(t, "bit")
			x = addi(pow2(k), int64(rapid.IntRange(-3, 3).Draw(t, "delta")))
		case kind <= 4: // small
			x = big.NewInt(int64(rapid.IntRange(-70000, 70000).Draw(t, "small")))
		case kind == 5: // int64-ish
			x = big.NewInt(rapid.Int64().Draw(t, "i64"))
		default: // random magnitude
			maxWords := 4 // 2^200 needs 4 words of 64 bits, top one masked
			n := rapid.IntRange(1, maxWords).Draw(t, "words")
			x = new(big.Int)
			for i := 0; i < n; i++ {
				w := rapid.Uint64().Draw(t, "w")
				x.Lsh(x, 64).Or(x, new(big.Int).SetUint64(w))
			}
			if n == 4 {
				x.And(x, sub(pow2(200), big.NewInt(1)))
			}
			x.Rsh(x, uint(rapid.IntRange(0, 63).Draw(t, "shr")))
		}
		if rapid.Bool().Draw(t, "neg") {
			x.Neg(x)
		}
		return x.String()
	})
}

// genFloat draws float bit patterns: pool members, neighbours of integers, halves, random bits.
func genFloat() *rapid.Generator[uint64] {
	pool := floatGridPool()
	return rapid.Custom(func(t *rapid.T) uint64 {
		var f float64
		switch rapid.IntRange(0, 5).Draw(t, "fkind") {
		case 0:
			f = rapid.SampledFrom(pool).Draw(t, "pool")
		case 1: // integer-valued or adjacent to one
			x := bi(genInt(true).Draw(t, "near"))
			f, _ = intToFloat(x)
			switch rapid.IntRange(0, 2).Draw(t, "adj") {
			case 1:
				f = math.Nextafter(f, math.Inf(1))
			case 2:
				f = math.Nextafter(f, math.Inf(-1))
			}
		case 2: // half
			f = float64(rapid.Int64Range(-(1<<52), 1<<52).Draw(t, "k")) + 0.5
		case 3: // small integer plus a fraction
			f = float64(rapid.IntRange(-100, 100).Draw(t, "i")) + rapid.SampledFrom([]float64{0, 0.25, 0.5, 0.75, 1e-9}).Draw(t, "frac")
		default:
			f = math.Float64frombits(rapid.Uint64().Draw(t, "bits"))
		}
		return math.Float64bits(f)
	})
}

func TestReplay(t *testing.T) { vk.Replay(t) }
