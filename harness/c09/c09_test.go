// C09: static rules and dialect options are enforced before and during execution.
package c09

import (
	"errors"
	"fmt"
	"sort"
	"strings"
	"testing"

	"go.starlark.net/resolve"
	"go.starlark.net/starlark"
	"go.starlark.net/syntax"
	"pgregory.net/rapid"
	"verif/harness/gen"
	"verif/harness/host"
	"verif/harness/vk"
)

func TestMain(m *testing.M) {
	vk.Describe("(plants) a base program that is legal under every option vector (defs, nested defs, lambdas with defaults, comprehensions, loops, conditionals, load) gets exactly one planted construct "+
		"from a catalogue of ~60 (undefined name, break/continue outside a loop, return/load in the wrong place, if/for/while at top level, while, set, rebinding of a global by =, def, +=, load, "+
		"duplicate/misordered parameters of def and lambda, duplicate/misordered arguments, 256 vs 255 positional/named arguments, augmented assignment to tuple/list, assignment to a non-lvalue, load of a private name) "+
		"at a random admissible slot (top level, function body, loop body, branch, nested def, lambda default, comprehension clause); the result is executed under all 2^6 FileOptions vectors. "+
		"An independent rule table says for each vector whether the plant is a violation: if so the program must be rejected with a syntax.Error/resolve.ErrorList positioned on the plant's line (column inside the plant) and no code may have run; "+
		"otherwise it must not be rejected statically. (recursion) call cycles over <= 4 functions through plain calls, lambdas, two closures of one def, sorted/min/max callbacks, and the same definition in a second Init of the compiled program (reached through a host built-in): "+
		"with recursion off the re-entering call fails and the function is not entered again; with recursion on the cycle proceeds. "+
		"Non-trivial = plant at nesting depth >= 2 or in a lambda default / comprehension clause; recursion cycle of length >= 2 through a non-plain edge; distinct by (program, plant, slot).",
		"the rule table (plant -> violating option vectors) is written from doc/spec.md and the FileOptions documentation",
		"only the first reported error's position is asserted; when a plant necessarily entails two violations either line is accepted")
	vk.Main(m, "C09")
}

// ---------------------------------------------------------------- base program with slots

type slot struct {
	id      int
	stmt    bool
	indent  int
	inFunc  bool
	inLoop  bool // inside a loop of the innermost function (or file)
	top     bool // directly in the file block (not nested in any statement)
	depth   int
	special string // "lambda-default", "comp-clause", ""
	lineNo  int    // filled at render time
}

type base struct {
	lines []string // with {{Sn}} lines and {{En}} tokens
	slots []*slot
	nfn   int
}

func (b *base) newSlot(s slot) string {
	s.id = len(b.slots)
	b.slots = append(b.slots, &s)
	if s.stmt {
		return fmt.Sprintf("{{S%d}}", s.id)
	}
	return fmt.Sprintf("{{E%d}}", s.id)
}

func (b *base) add(indent int, format string, args ...any) {
	b.lines = append(b.lines, strings.Repeat("    ", indent)+fmt.Sprintf(format, args...))
}

type bctx struct {
	indent int
	inFunc bool
	inLoop bool
	depth  int
}

func (b *base) eslot(c bctx, special string) string {
	return b.newSlot(slot{indent: c.indent, inFunc: c.inFunc, inLoop: c.inLoop, depth: c.depth, special: special})
}

func (b *base) sslot(c bctx) {
	b.lines = append(b.lines, b.newSlot(slot{stmt: true, indent: c.indent, inFunc: c.inFunc, inLoop: c.inLoop, depth: c.depth, top: !c.inFunc && c.depth == 0}))
}

// body generates statements of a function body.
func (b *base) body(t *rapid.T, c bctx, budget *int) {
	n := 1 + vk.Uniform(t, 3)
	for i := 0; i < n; i++ {
		b.sslot(c)
		if *budget <= 0 || c.depth > 4 {
			b.add(c.indent, "x = %s", b.eslot(c, ""))
			continue
		}
		*budget--
		switch vk.Uniform(t, 7) {
		case 0:
			b.add(c.indent, "x = a + %s", b.eslot(c, ""))
		case 1:
			b.add(c.indent, "for i in range(%s):", b.eslot(c, ""))
			c2 := c
			c2.indent++
			c2.depth++
			c2.inLoop = true
			b.body(t, c2, budget)
		case 2:
			b.add(c.indent, "if %s:", b.eslot(c, ""))
			c2 := c
			c2.indent++
			c2.depth++
			b.body(t, c2, budget)
			if vk.Chance(t, 0.5) {
				b.add(c.indent, "else:")
				b.body(t, c2, budget)
			}
		case 3:
			b.nfn++
			b.add(c.indent, "def g%d(a, b = %s, *args, k = 0, **kw):", b.nfn, b.eslot(c, "def-default"))
			c2 := bctx{indent: c.indent + 1, inFunc: true, depth: c.depth + 1}
			b.body(t, c2, budget)
			b.add(c.indent+1, "return a")
		case 4:
			// lambda: the default is evaluated in the enclosing block, the body in its own
			cl := bctx{indent: c.indent, inFunc: true, depth: c.depth + 1}
			b.add(c.indent, "y = lambda q, r = %s: q + %s", b.eslot(c, "lambda-default"), b.eslot(cl, "lambda-body"))
		case 5:
			cc := c
			cc.depth++
			b.add(c.indent, "z = [%s for j in range(%s) if %s for m in [j, %s]]", b.eslot(cc, "comp-body"), b.eslot(c, "comp-first"), b.eslot(cc, "comp-clause"), b.eslot(cc, "comp-clause"))
		case 6:
			cc := c
			cc.depth++
			b.add(c.indent, "w = {str(j): %s for j in [%s]}", b.eslot(cc, "comp-body"), b.eslot(c, ""))
		}
	}
	b.sslot(c)
}

func genBase(t *rapid.T) *base {
	b := &base{}
	b.add(0, "t(\"ran\", 0)")
	if vk.Chance(t, 0.5) {
		b.add(0, "load(\"a.star\", \"A_INT\", other = \"A_LIST\")")
	}
	top := bctx{}
	b.sslot(top)
	b.add(0, "G1 = %s", b.eslot(top, ""))
	budget := 3 + vk.Uniform(t, 8)
	nf := 1 + vk.Uniform(t, 3)
	for i := 0; i < nf; i++ {
		b.sslot(top)
		b.nfn++
		b.add(0, "def f%d(a, b = %s):", b.nfn, b.eslot(top, "def-default"))
		b.body(t, bctx{indent: 1, inFunc: true, depth: 1}, &budget)
		b.add(1, "return a")
	}
	b.sslot(top)
	b.add(0, "G2 = [%s for j in range(2)]", b.eslot(bctx{depth: 1}, "comp-body"))
	b.sslot(top)
	return b
}

// ---------------------------------------------------------------- plants

type plant struct {
	name     string
	stmt     bool
	lines    []string // statement plants: lines relative to the slot's indent ("    " for nested)
	expr     string   // expression plants
	where    func(s *slot) bool
	violates func(o gen.Opts) bool
	errLines func(o gen.Opts) []int // acceptable 0-based offsets within the plant's lines for the first error (nil: any of them)
}

func always(gen.Opts) bool { return true }
func never(gen.Opts) bool  { return false }
func anyExpr(s *slot) bool { return !s.stmt }
func anyStmt(s *slot) bool { return s.stmt }

func manyArgs(n int, named bool) string {
	var parts []string
	for i := 0; i < n; i++ {
		if named {
			parts = append(parts, fmt.Sprintf("a%d = 0", i))
		} else {
			parts = append(parts, "0")
		}
	}
	return "t(" + strings.Join(parts, ", ") + ")"
}

var plants = func() []plant {
	ps := []plant{
		// expression plants
		{name: "undefined-name", expr: "nosuch_name", where: anyExpr, violates: always},
		{name: "undefined-in-call", expr: "len(nosuch_fn(1))", where: anyExpr, violates: always},
		{name: "undefined-in-comprehension", expr: "[q for q in nosuch_seq]", where: anyExpr, violates: always},
		{name: "undefined-in-lambda", expr: "(lambda: nosuch_free)", where: anyExpr, violates: always},
		{name: "set-use", expr: "len(set([1]))", where: anyExpr, violates: func(o gen.Opts) bool { return !o.Set }},
		{name: "set-as-value", expr: "[set][0]", where: anyExpr, violates: func(o gen.Opts) bool { return !o.Set }},
		{name: "dup-named-arg", expr: "t(a = 1, a = 2)", where: anyExpr, violates: always},
		{name: "positional-after-named", expr: "t(a = 1, 2)", where: anyExpr, violates: always},
		{name: "positional-after-star", expr: "t(*[1], 2)", where: anyExpr, violates: always},
		{name: "positional-after-starstar", expr: "t(**{}, 2)", where: anyExpr, violates: always},
		{name: "named-after-star", expr: "t(*[1], a = 2)", where: anyExpr, violates: always},
		{name: "named-after-starstar", expr: "t(**{}, a = 2)", where: anyExpr, violates: always},
		{name: "two-star-args", expr: "t(*[1], *[2])", where: anyExpr, violates: always},
		{name: "two-starstar-args", expr: "t(**{}, **{})", where: anyExpr, violates: always},
		{name: "star-after-starstar", expr: "t(**{}, *[1])", where: anyExpr, violates: always},
		{name: "256-positional", expr: manyArgs(256, false), where: anyExpr, violates: always},
		{name: "255-positional", expr: manyArgs(255, false), where: anyExpr, violates: never},
		{name: "256-named", expr: manyArgs(256, true), where: anyExpr, violates: always},
		{name: "255-named", expr: manyArgs(255, true), where: anyExpr, violates: never},
		// *args and **kwargs operands do not count towards either limit
		{name: "255-positional-star-kw", expr: strings.TrimSuffix(manyArgs(255, false), ")") + ", *[], **{})", where: anyExpr, violates: never},
		{name: "254-positional-star", expr: strings.TrimSuffix(manyArgs(254, false), ")") + ", *[1])", where: anyExpr, violates: never},
		{name: "255-named-kw", expr: strings.TrimSuffix(manyArgs(255, true), ")") + ", **{})", where: anyExpr, violates: never},
		{name: "255-named-star-kw", expr: strings.TrimSuffix(manyArgs(255, true), ")") + ", *[], **{})", where: anyExpr, violates: never},
		{name: "255-and-255", expr: strings.TrimSuffix(manyArgs(255, false), ")") + ", " + strings.TrimPrefix(manyArgs(255, true), "t("), where: anyExpr, violates: never},
		{name: "256-positional-star", expr: strings.TrimSuffix(manyArgs(256, false), ")") + ", *[])", where: anyExpr, violates: always},
		{name: "256-named-kw", expr: strings.TrimSuffix(manyArgs(256, true), ")") + ", **{})", where: anyExpr, violates: always},
		{name: "lambda-dup-param", expr: "(lambda u, u: 0)", where: anyExpr, violates: always},
		{name: "lambda-required-after-optional", expr: "(lambda u = 1, v: 0)", where: anyExpr, violates: always},
		{name: "lambda-param-after-kwargs", expr: "(lambda **u, v: 0)", where: anyExpr, violates: always},
		{name: "lambda-bare-star", expr: "(lambda *, **u: 0)", where: anyExpr, violates: always},
		{name: "lambda-two-stars", expr: "(lambda *u, *v: 0)", where: anyExpr, violates: always},
		{name: "lambda-ok-kwonly", expr: "(lambda u, *, v = 1, **w: 0)", where: anyExpr, violates: never},
		{name: "ok-call-forms", expr: "len([t(\"x\", 1, *[], **{})])", where: anyExpr, violates: never},

		// statement plants
		{name: "break-outside-loop", stmt: true, lines: []string{"break"}, where: func(s *slot) bool { return s.stmt && !s.inLoop }, violates: always},
		{name: "continue-outside-loop", stmt: true, lines: []string{"continue"}, where: func(s *slot) bool { return s.stmt && !s.inLoop }, violates: always},
		{name: "break-in-comprehension-in-loop", stmt: true, lines: []string{"for i9 in [1]:", "    def inner9():", "        break", "    pass"},
			where: func(s *slot) bool { return s.stmt && s.inFunc }, violates: always, errLines: func(gen.Opts) []int { return []int{2} }},
		{name: "break-in-loop-ok", stmt: true, lines: []string{"break"}, where: func(s *slot) bool { return s.stmt && s.inLoop && s.inFunc }, violates: never},
		{name: "return-outside-function", stmt: true, lines: []string{"return 1"}, where: func(s *slot) bool { return s.stmt && s.top }, violates: always},
		{name: "load-in-function", stmt: true, lines: []string{"load(\"a.star\", zz9 = \"A_DICT\")"}, where: func(s *slot) bool { return s.stmt && s.inFunc }, violates: always},
		{name: "load-in-toplevel-if", stmt: true, lines: []string{"if G0:", "    load(\"a.star\", zz9 = \"A_DICT\")"}, where: func(s *slot) bool { return s.stmt && s.top }, violates: always,
			errLines: func(o gen.Opts) []int {
				if o.TopLevelControl {
					return []int{1}
				}
				return []int{0, 1}
			}},
		{name: "load-in-toplevel-else", stmt: true, lines: []string{"if G0:", "    pass", "else:", "    load(\"a.star\", zz9 = \"A_DICT\")"}, where: func(s *slot) bool { return s.stmt && s.top }, violates: always,
			errLines: func(o gen.Opts) []int {
				if o.TopLevelControl {
					return []int{3}
				}
				return []int{0, 3}
			}},
		{name: "load-in-toplevel-elif", stmt: true, lines: []string{"if G0:", "    pass", "elif G0:", "    load(\"a.star\", zz9 = \"A_DICT\")", "else:", "    pass"}, where: func(s *slot) bool { return s.stmt && s.top }, violates: always,
			errLines: func(o gen.Opts) []int {
				if o.TopLevelControl {
					return []int{3}
				}
				return []int{0, 2, 3}
			}},
		{name: "load-in-nested-else-in-for", stmt: true, lines: []string{"for i9 in [1]:", "    if G0:", "        pass", "    else:", "        load(\"a.star\", zz9 = \"A_DICT\")"}, where: func(s *slot) bool { return s.stmt && s.top }, violates: always,
			errLines: func(o gen.Opts) []int {
				if o.TopLevelControl {
					return []int{4}
				}
				return []int{0, 1, 4}
			}},
		{name: "load-after-toplevel-if-ok", stmt: true, lines: []string{"if G0:", "    pass", "else:", "    pass", "load(\"a.star\", zz9 = \"A_DICT\")"}, where: func(s *slot) bool { return s.stmt && s.top },
			violates: func(o gen.Opts) bool { return !o.TopLevelControl }, errLines: func(gen.Opts) []int { return []int{0} }},
		{name: "break-in-else-of-if-outside-loop", stmt: true, lines: []string{"if a:", "    pass", "else:", "    break"}, where: func(s *slot) bool { return s.stmt && s.inFunc && !s.inLoop }, violates: always,
			errLines: func(gen.Opts) []int { return []int{3} }},
		{name: "break-after-loop", stmt: true, lines: []string{"for i9 in [1]:", "    pass", "break"}, where: func(s *slot) bool { return s.stmt && s.inFunc && !s.inLoop }, violates: always,
			errLines: func(gen.Opts) []int { return []int{2} }},
		// after a while loop (when while is available) the loop context is over, as after a for loop
		{name: "break-after-while", stmt: true, lines: []string{"while False:", "    pass", "break"}, where: func(s *slot) bool { return s.stmt && s.inFunc && !s.inLoop }, violates: always,
			errLines: func(o gen.Opts) []int {
				if o.While {
					return []int{2}
				}
				return []int{0}
			}},
		{name: "continue-after-nested-while", stmt: true, lines: []string{"for i9 in [1]:", "    while False:", "        break", "continue"}, where: func(s *slot) bool { return s.stmt && s.inFunc && !s.inLoop }, violates: always,
			errLines: func(o gen.Opts) []int {
				if o.While {
					return []int{3}
				}
				return []int{1}
			}},
		{name: "break-after-toplevel-while", stmt: true, lines: []string{"while False:", "    pass", "break"}, where: func(s *slot) bool { return s.stmt && s.top }, violates: always,
			errLines: func(o gen.Opts) []int {
				if o.While && o.TopLevelControl {
					return []int{2}
				}
				return []int{0}
			}},
		{name: "return-in-toplevel-else", stmt: true, lines: []string{"if G0:", "    pass", "else:", "    return 1"}, where: func(s *slot) bool { return s.stmt && s.top }, violates: always,
			errLines: func(o gen.Opts) []int {
				if o.TopLevelControl {
					return []int{3}
				}
				return []int{0, 3}
			}},
		{name: "load-in-toplevel-for", stmt: true, lines: []string{"for i9 in [1]:", "    load(\"a.star\", zz9 = \"A_DICT\")"}, where: func(s *slot) bool { return s.stmt && s.top }, violates: always,
			errLines: func(o gen.Opts) []int {
				if o.TopLevelControl {
					return []int{1}
				}
				return []int{0, 1}
			}},
		{name: "load-private", stmt: true, lines: []string{"load(\"a.star\", \"_private\")"}, where: func(s *slot) bool { return s.stmt && s.top }, violates: always},
		{name: "toplevel-if", stmt: true, lines: []string{"if G0:", "    pass"}, where: func(s *slot) bool { return s.stmt && s.top }, violates: func(o gen.Opts) bool { return !o.TopLevelControl }},
		{name: "toplevel-for", stmt: true, lines: []string{"for i9 in [1]:", "    pass"}, where: func(s *slot) bool { return s.stmt && s.top }, violates: func(o gen.Opts) bool { return !o.TopLevelControl }},
		{name: "toplevel-while", stmt: true, lines: []string{"while False:", "    pass"}, where: func(s *slot) bool { return s.stmt && s.top },
			violates: func(o gen.Opts) bool { return !o.TopLevelControl || !o.While }},
		{name: "while-in-function", stmt: true, lines: []string{"while False:", "    pass"}, where: func(s *slot) bool { return s.stmt && s.inFunc }, violates: func(o gen.Opts) bool { return !o.While }},
		{name: "rebind-global-assign", stmt: true, lines: []string{"G0 = 2"}, where: func(s *slot) bool { return s.stmt && s.top }, violates: func(o gen.Opts) bool { return !o.GlobalReassign }},
		{name: "rebind-global-def", stmt: true, lines: []string{"def G0():", "    pass"}, where: func(s *slot) bool { return s.stmt && s.top }, violates: func(o gen.Opts) bool { return !o.GlobalReassign }},
		{name: "rebind-global-augmented", stmt: true, lines: []string{"G0 += 1"}, where: func(s *slot) bool { return s.stmt && s.top }, violates: func(o gen.Opts) bool { return !o.GlobalReassign }},
		{name: "rebind-global-load", stmt: true, lines: []string{"load(\"a.star\", G0 = \"A_DICT\")"}, where: func(s *slot) bool { return s.stmt && s.top }, violates: func(o gen.Opts) bool { return !o.GlobalReassign }},
		{name: "load-same-name-twice", stmt: true, lines: []string{"load(\"a.star\", zz8 = \"A_DICT\")", "load(\"a.star\", zz8 = \"A_INT\")"}, where: func(s *slot) bool { return s.stmt && s.top },
			violates: func(o gen.Opts) bool { return !o.GlobalReassign }, errLines: func(gen.Opts) []int { return []int{1} }},
		// point-of-use resolution under GlobalReassign: a use directly in the file block that precedes the first
		// binding of the name (and is not predeclared) is undefined - statically; without the option the name is a
		// global throughout the file and the use is only a dynamic error
		{name: "reassign-self-reference", stmt: true, lines: []string{"ubd7 = ubd7"}, where: func(s *slot) bool { return s.stmt && s.top }, violates: func(o gen.Opts) bool { return o.GlobalReassign }},
		{name: "reassign-self-in-expr", stmt: true, lines: []string{"ubd7 = [1] + ubd7"}, where: func(s *slot) bool { return s.stmt && s.top }, violates: func(o gen.Opts) bool { return o.GlobalReassign }},
		{name: "reassign-self-in-first-iterable", stmt: true, lines: []string{"ubd7 = [q for q in ubd7]"}, where: func(s *slot) bool { return s.stmt && s.top }, violates: func(o gen.Opts) bool { return o.GlobalReassign }},
		{name: "reassign-self-in-lambda-default", stmt: true, lines: []string{"ubd8, ubd7 = 1, (lambda a = ubd7: a)"}, where: func(s *slot) bool { return s.stmt && s.top }, violates: func(o gen.Opts) bool { return o.GlobalReassign }},
		{name: "reassign-self-in-index-target", stmt: true, lines: []string{"G1[ubd7], ubd7 = 1, 2"}, where: func(s *slot) bool { return s.stmt && s.top }, violates: func(o gen.Opts) bool { return o.GlobalReassign }},
		{name: "reassign-use-then-bind", stmt: true, lines: []string{"t(\"p\", ubd7)", "ubd7 = 1"}, where: func(s *slot) bool { return s.stmt && s.top },
			violates: func(o gen.Opts) bool { return o.GlobalReassign }, errLines: func(gen.Opts) []int { return []int{0} }},
		{name: "reassign-def-default-then-bind", stmt: true, lines: []string{"def fz7(a = ubd7):", "    return a", "ubd7 = 1"}, where: func(s *slot) bool { return s.stmt && s.top },
			violates: func(o gen.Opts) bool { return o.GlobalReassign }, errLines: func(gen.Opts) []int { return []int{0} }},
		{name: "reassign-use-in-function-then-bind-ok", stmt: true, lines: []string{"def fz7():", "    return ubd7", "ubd7 = 1"}, where: func(s *slot) bool { return s.stmt && s.top }, violates: never},
		{name: "reassign-use-in-later-clause-ok", stmt: true, lines: []string{"ubd7 = [q for q in [] if q in ubd7]"}, where: func(s *slot) bool { return s.stmt && s.top }, violates: never},
		{name: "reassign-bind-then-use-ok", stmt: true, lines: []string{"ubd7 = 1", "ubd7 = ubd7 + 1"}, where: func(s *slot) bool { return s.stmt && s.top }, violates: func(o gen.Opts) bool { return !o.GlobalReassign },
			errLines: func(gen.Opts) []int { return []int{1} }},
		{name: "rebind-local-ok", stmt: true, lines: []string{"a = 1", "a = 2", "a += 3"}, where: func(s *slot) bool { return s.stmt && s.inFunc }, violates: never},
		{name: "def-dup-param", stmt: true, lines: []string{"def bad9(u, u):", "    pass"}, where: anyStmt, violates: always},
		{name: "def-required-after-optional", stmt: true, lines: []string{"def bad9(u = 1, v):", "    pass"}, where: anyStmt, violates: always},
		{name: "def-param-after-kwargs", stmt: true, lines: []string{"def bad9(**u, v):", "    pass"}, where: anyStmt, violates: always},
		{name: "def-optional-after-kwargs", stmt: true, lines: []string{"def bad9(**u, v = 1):", "    pass"}, where: anyStmt, violates: always},
		{name: "def-star-after-kwargs", stmt: true, lines: []string{"def bad9(**u, *v):", "    pass"}, where: anyStmt, violates: always},
		{name: "def-two-kwargs", stmt: true, lines: []string{"def bad9(**u, **v):", "    pass"}, where: anyStmt, violates: always},
		{name: "def-bare-star-alone", stmt: true, lines: []string{"def bad9(u, *):", "    pass"}, where: anyStmt, violates: always},
		{name: "def-bare-star-kwargs", stmt: true, lines: []string{"def bad9(*, **u):", "    pass"}, where: anyStmt, violates: always},
		{name: "def-two-stars", stmt: true, lines: []string{"def bad9(*u, *v):", "    pass"}, where: anyStmt, violates: always},
		{name: "def-dup-varargs", stmt: true, lines: []string{"def bad9(u, *u):", "    pass"}, where: anyStmt, violates: always},
		{name: "def-ok-all-kinds", stmt: true, lines: []string{"def ok9(u, v = 1, *w, x, y = 2, **z):", "    pass"}, where: func(s *slot) bool { return s.stmt && s.inFunc }, violates: never},
		{name: "augmented-tuple", stmt: true, lines: []string{"pa, pb += 1"}, where: func(s *slot) bool { return s.stmt && s.inFunc }, violates: always},
		{name: "augmented-list", stmt: true, lines: []string{"[pa, pb] += [1]"}, where: func(s *slot) bool { return s.stmt && s.inFunc }, violates: always},
		{name: "assign-to-call", stmt: true, lines: []string{"len(\"\") = 1"}, where: anyStmt, violates: always},
		{name: "assign-to-literal", stmt: true, lines: []string{"1 = 2"}, where: anyStmt, violates: always},
		{name: "assign-to-binary", stmt: true, lines: []string{"pa + pb = 1"}, where: func(s *slot) bool { return s.stmt && s.inFunc }, violates: always},
		{name: "nothing", stmt: true, lines: []string{"pass"}, where: anyStmt, violates: never},
	}
	return ps
}()

type Case struct {
	Lines []string `json:"lines"` // base with slots
	Slots []slot2  `json:"slots"`
	Plant string   `json:"plant"`
	Slot  int      `json:"slot"`
}

// slot2 is the serialisable form of slot.
type slot2 struct {
	ID      int    `json:"id"`
	Stmt    bool   `json:"stmt,omitempty"`
	Indent  int    `json:"indent,omitempty"`
	InFunc  bool   `json:"in_func,omitempty"`
	InLoop  bool   `json:"in_loop,omitempty"`
	Top     bool   `json:"top,omitempty"`
	Depth   int    `json:"depth,omitempty"`
	Special string `json:"special,omitempty"`
}

const modA = "A_INT = 7\nA_LIST = [1, 2]\nA_DICT = {\"p\": 1}\n_private = 1\nt(\"module-ran\", 0)\n"

// render fills the slots; returns the source, the 1-based first line of the plant and its column span on single-line plants.
func render(c Case, p *plant) (src string, plantLine int, colStart, colEnd int) {
	var out []string
	for _, l := range c.Lines {
		if strings.HasPrefix(l, "{{S") {
			var id int
			fmt.Sscanf(l, "{{S%d}}", &id)
			if id == c.Slot && p.stmt {
				plantLine = len(out) + 1
				ind := strings.Repeat("    ", c.Slots[id].Indent)
				for _, pl := range p.lines {
					out = append(out, ind+pl)
				}
				colStart, colEnd = len(ind)+1, len(ind)+len(p.lines[0])+1
			}
			continue // unfilled statement slots vanish
		}
		for {
			i := strings.Index(l, "{{E")
			if i < 0 {
				break
			}
			j := strings.Index(l[i:], "}}") + i
			var id int
			fmt.Sscanf(l[i:j+2], "{{E%d}}", &id)
			fill := "0"
			if id == c.Slot && !p.stmt {
				fill = p.expr
				plantLine = len(out) + 1
				colStart, colEnd = i+1, i+len(fill)+1
			}
			l = l[:i] + fill + l[j+2:]
		}
		out = append(out, l)
	}
	// G0 is a global defined first so that rebinding plants have something to rebind
	src = "G0 = 1\n" + strings.Join(out, "\n") + "\n"
	plantLine++
	return
}

func optsOf(v int) gen.Opts {
	return gen.Opts{Set: v&1 != 0, While: v&2 != 0, TopLevelControl: v&4 != 0, Recursion: v&8 != 0, GlobalReassign: v&16 != 0, LoadBindsGlob: v&32 != 0}
}

func isStatic(err error) (syntax.Position, bool) {
	var se syntax.Error
	if errors.As(err, &se) {
		return se.Pos, true
	}
	var rl resolve.ErrorList
	if errors.As(err, &rl) {
		return rl[0].Pos, true
	}
	return syntax.Position{}, false
}

func checkPlant(c Case) error {
	var p *plant
	for i := range plants {
		if plants[i].name == c.Plant {
			p = &plants[i]
		}
	}
	if p == nil || c.Slot < 0 || c.Slot >= len(c.Slots) {
		return fmt.Errorf("malformed case")
	}
	src, plantLine, colStart, colEnd := render(c, p)
	if plantLine <= 1 {
		return fmt.Errorf("plant was not rendered (slot %d missing)", c.Slot)
	}
	sl := c.Slots[c.Slot]
	for v := 0; v < 64; v++ {
		o := optsOf(v)
		tr := &host.Trace{}
		pre, th := host.Env(tr, "c09")
		th.Load = func(_ *starlark.Thread, module string) (starlark.StringDict, error) {
			pre2, th2 := host.Env(tr, "load")
			return starlark.ExecFileOptions(o.FileOptions(), th2, module, modA, pre2)
		}
		th.SetMaxExecutionSteps(200000)
		_, err := starlark.ExecFileOptions(o.FileOptions(), th, "prog.star", src, pre)
		pos, static := isStatic(err)
		want := p.violates(o)
		key := fmt.Sprintf("plant %s at line %d (slot %+v) under %+v", p.name, plantLine, sl, o)
		if want {
			if !static {
				return fmt.Errorf("%s: expected a static rejection, got err=%v\n%s", key, err, numbered(src))
			}
			if len(tr.Events) != 0 {
				return fmt.Errorf("%s: code ran before the rejection: %v", key, tr.Events)
			}
			okLine := false
			var lines []int
			if p.errLines != nil {
				lines = p.errLines(o)
			} else if p.stmt {
				for i := range p.lines {
					lines = append(lines, i)
				}
			} else {
				lines = []int{0}
			}
			for _, off := range lines {
				if int(pos.Line) == plantLine+off {
					okLine = true
				}
			}
			if !okLine {
				return fmt.Errorf("%s: error reported at %s, expected on the plant (lines %d+%v): %v\n%s", key, pos, plantLine, lines, err, numbered(src))
			}
			if int(pos.Line) == plantLine && (len(p.lines) <= 1) && (int(pos.Col) < colStart || int(pos.Col) > colEnd) {
				return fmt.Errorf("%s: error column %d outside the plant's span [%d,%d]: %v", key, pos.Col, colStart, colEnd, err)
			}
		} else if static {
			return fmt.Errorf("%s: rule-abiding program rejected: %v\n%s", key, err, numbered(src))
		}
	}
	// The legacy way of choosing the dialect: package-level flags read when a file is parsed. A file keeps the
	// dialect it was parsed with, whatever the flags are set to (and whatever is parsed) afterwards.
	saved := [4]bool{resolve.AllowSet, resolve.AllowGlobalReassign, resolve.AllowRecursion, resolve.LoadBindsGlobally}
	defer func() {
		resolve.AllowSet, resolve.AllowGlobalReassign, resolve.AllowRecursion, resolve.LoadBindsGlobally = saved[0], saved[1], saved[2], saved[3]
	}()
	setLegacy := func(v int) gen.Opts {
		resolve.AllowSet, resolve.AllowGlobalReassign, resolve.AllowRecursion, resolve.LoadBindsGlobally = v&1 != 0, v&2 != 0, v&4 != 0, v&8 != 0
		return gen.Opts{Set: v&1 != 0, While: v&2 != 0, TopLevelControl: v&2 != 0, GlobalReassign: v&2 != 0, Recursion: v&4 != 0, LoadBindsGlob: v&8 != 0}
	}
	pre0, _ := host.Env(&host.Trace{}, "names")
	for v := 0; v < 16; v++ {
		o := setLegacy(v)
		f, perr := syntax.Parse("prog.star", src, 0)
		// another file is parsed under the complementary flags before the first one is resolved
		setLegacy(15 - v)
		syntax.Parse("decoy.star", "x = 1\n", 0)
		var err error
		if perr != nil {
			err = perr
		} else {
			_, err = starlark.FileProgram(f, pre0.Has)
		}
		_, static := isStatic(err)
		if err != nil && !static {
			return fmt.Errorf("plant %s: unexpected error kind from the legacy API: %v", p.name, err)
		}
		if want := p.violates(o); want != static {
			return fmt.Errorf("plant %s at line %d parsed under legacy flags %+v (flags changed to the complement before resolving): static rejection = %v, expected %v (err=%v)\n%s",
				p.name, plantLine, o, static, want, err, numbered(src))
		}
	}
	vk.S.Class("plant:" + p.name)
	if sl.Special != "" {
		vk.S.Class("slot:" + sl.Special)
	}
	if sl.Depth >= 2 || sl.Special == "lambda-default" || sl.Special == "comp-clause" || sl.Special == "lambda-body" || sl.Special == "comp-body" {
		vk.S.NonTrivial(fmt.Sprintf("%v|%s|%d", c.Lines, c.Plant, c.Slot))
		vk.S.Sample("plant", p.name, map[string]any{"plant": p.name, "line": plantLine, "src": src})
	}
	return nil
}

func numbered(src string) string {
	var sb strings.Builder
	for i, l := range strings.Split(src, "\n") {
		if len(l) > 160 {
			l = l[:160] + "..."
		}
		fmt.Fprintf(&sb, "%3d| %s\n", i+1, l)
	}
	return sb.String()
}

var subPlant = vk.Register("plant", checkPlant)

func genCase(t *rapid.T) Case {
	b := genBase(t)
	c := Case{Lines: b.lines}
	for _, s := range b.slots {
		c.Slots = append(c.Slots, slot2{s.id, s.stmt, s.indent, s.inFunc, s.inLoop, s.top, s.depth, s.special})
	}
	// pick a plant, then a compatible slot
	for try := 0; try < 20; try++ {
		p := &plants[vk.Uniform(t, len(plants))]
		var ok []int
		for _, s := range b.slots {
			if s.stmt == p.stmt && p.where(s) {
				ok = append(ok, s.id)
			}
		}
		if len(ok) > 0 {
			c.Plant = p.name
			c.Slot = ok[vk.Uniform(t, len(ok))]
			return c
		}
	}
	c.Plant, c.Slot = "nothing", 0
	for _, s := range b.slots {
		if s.stmt {
			c.Slot = s.id
			break
		}
	}
	return c
}

func TestPropPlants(t *testing.T) {
	vk.Rapid(t, subPlant, vk.N(1500, 12000), genCase)
}

// Every plant at least once at every kind of slot of one fixed rich base (exhaustive over catalogue x slots of that base).
func TestPropCatalogue(t *testing.T) {
	vk.S.SetExhaustive("catalogue-x-slots-of-fixed-base-x-64-option-vectors", true)
	lines := []string{
		"t(\"ran\", 0)", "load(\"a.star\", \"A_INT\", other = \"A_LIST\")", "{{S0}}", "G1 = {{E1}}", "{{S2}}",
		"def f1(a, b = {{E3}}):", "{{S4}}", "    x = a + {{E5}}", "    for i in range({{E6}}):", "{{S7}}",
		"        if {{E8}}:", "{{S9}}", "            y = lambda q, r = {{E10}}: q + {{E11}}",
		"            z = [{{E12}} for j in range({{E13}}) if {{E14}} for m in [j, {{E15}}]]",
		"            def g2(a, b = {{E16}}, *args, k = 0, **kw):", "{{S17}}", "                return a", "{{S18}}", "{{S19}}", "    return a", "{{S20}}",
		"G2 = [{{E21}} for j in range(2)]", "{{S22}}",
	}
	slots := []slot2{
		{0, true, 0, false, false, true, 0, ""}, {1, false, 0, false, false, false, 0, ""}, {2, true, 0, false, false, true, 0, ""},
		{3, false, 0, false, false, false, 0, "def-default"}, {4, true, 1, true, false, false, 1, ""}, {5, false, 1, true, false, false, 1, ""},
		{6, false, 1, true, false, false, 1, ""}, {7, true, 2, true, true, false, 2, ""}, {8, false, 2, true, true, false, 2, ""},
		{9, true, 3, true, true, false, 3, ""}, {10, false, 3, true, true, false, 3, "lambda-default"}, {11, false, 3, true, false, false, 4, "lambda-body"},
		{12, false, 3, true, true, false, 4, "comp-body"}, {13, false, 3, true, true, false, 3, "comp-first"}, {14, false, 3, true, true, false, 4, "comp-clause"},
		{15, false, 3, true, true, false, 4, "comp-clause"}, {16, false, 3, true, true, false, 3, "def-default"}, {17, true, 4, true, false, false, 4, ""},
		{18, true, 3, true, true, false, 3, ""}, {19, true, 2, true, true, false, 2, ""}, {20, true, 0, false, false, true, 0, ""},
		{21, false, 0, false, false, false, 1, "comp-body"}, {22, true, 0, false, false, true, 0, ""},
	}
	vk.Enum(t, subPlant, func(yield func(Case) bool) {
		i := 0
		for pi := range plants {
			p := &plants[pi]
			for _, s2 := range slots {
				s := slot{id: s2.ID, stmt: s2.Stmt, indent: s2.Indent, inFunc: s2.InFunc, inLoop: s2.InLoop, top: s2.Top, depth: s2.Depth, special: s2.Special}
				if s.stmt != p.stmt || !p.where(&s) {
					continue
				}
				i++
				if !vk.Mine(i) {
					continue
				}
				if !yield(Case{Lines: lines, Slots: slots, Plant: p.name, Slot: s.id}) {
					return
				}
			}
		}
	})
}

// ---------------------------------------------------------------- recursion

type RecCase struct {
	ViaCall bool     `json:"via_call,omitempty"` // f0 is entered by starlark.Call on a fresh thread (it is the bottom frame), not from <toplevel>
	N       int      `json:"n"`                  // number of functions (1..4)
	Back    int      `json:"back"`               // the last function calls back to function Back
	Edges   []string `json:"edges"`              // edge kind from function i to its successor: plain lambda twin sorted min max comp
	Depth   int      `json:"depth"`
}

func edgeExpr(kind, callee string) string {
	switch kind {
	case "lambda":
		return fmt.Sprintf("(lambda v: %s(v))(d - 1)", callee)
	case "sorted":
		return fmt.Sprintf("sorted([d - 1], key = %s)[0]", callee)
	case "min":
		return fmt.Sprintf("min([d - 1], key = %s)", callee)
	case "max":
		return fmt.Sprintf("max([d - 1], key = %s)", callee)
	case "comp":
		return fmt.Sprintf("[%s(v) for v in [d - 1]][0]", callee)
	case "peer":
		// the successor as defined by the *other* instance of this program (the host initialises the compiled
		// program twice; the two instances share their code)
		return fmt.Sprintf("peer(%q, d - 1)", callee)
	}
	return fmt.Sprintf("%s(d - 1)", callee)
}

// Function i with edge kind "twin" is a closure made twice from one def: instance A (named fI) calls
// instance B, which calls the successor; A and B share their code, so with recursion off B's call fails.
func recProgram(c RecCase) (string, []string, bool) {
	var sb strings.Builder
	for i := 0; i < c.N; i++ {
		succ := i + 1
		if i == c.N-1 {
			succ = c.Back
		}
		callee := fmt.Sprintf("f%d", succ)
		if c.Edges[i] == "twin" {
			fmt.Fprintf(&sb, "def mk%d(other):\n    def body%d(d):\n        t(\"enter\", %d)\n        if d <= 0:\n            return 0\n        if other != None:\n            return other(d)\n        return %s(d - 1)\n    return body%d\n", i, i, i, callee, i)
			fmt.Fprintf(&sb, "def f%d(d):\n    return mk%d(mk%d(None))(d)\n", i, i, i)
		} else {
			fmt.Fprintf(&sb, "def f%d(d):\n    t(\"enter\", %d)\n    if d <= 0:\n        return 0\n    return %s\n", i, i, edgeExpr(c.Edges[i], callee))
		}
	}
	if !c.ViaCall && !hasPeer(c) {
		fmt.Fprintf(&sb, "R = f0(%d)\n", c.Depth)
	}
	// model with recursion off: follow the path until active code would be re-entered
	var off []string
	active := map[string]bool{}
	i, d := 0, c.Depth
	failed := false
	for {
		code := fmt.Sprintf("f%d", i)
		if active[code] {
			failed = true
			break
		}
		active[code] = true
		if c.Edges[i] == "twin" {
			// fI -> bodyI(A): enter; then A calls B = same code -> fails (if d > 0)
			off = append(off, fmt.Sprintf("t:enter:%d", i))
			if d <= 0 {
				break
			}
			failed = true
			break
		}
		off = append(off, fmt.Sprintf("t:enter:%d", i))
		if d <= 0 {
			break
		}
		d--
		if i == c.N-1 {
			i = c.Back
		} else {
			i++
		}
	}
	return sb.String(), off, failed
}

func hasPeer(c RecCase) bool {
	for _, e := range c.Edges {
		if e == "peer" {
			return true
		}
	}
	return false
}

func checkRecursion(c RecCase) error {
	if c.N < 1 || c.N > 4 || len(c.Edges) != c.N || c.Back < 0 || c.Back >= c.N {
		return fmt.Errorf("malformed case")
	}
	src, offTrace, offFails := recProgram(c)
	run := func(rec bool) ([]string, error) {
		tr := &host.Trace{}
		pre, th := host.Env(tr, "c09rec")
		th.SetMaxExecutionSteps(1000000)
		if hasPeer(c) {
			// One compiled program, initialised twice; f0 of the first instance is called from Go.
			var inst [2]starlark.StringDict
			cur := 0
			pre["peer"] = starlark.NewBuiltin("peer", func(th *starlark.Thread, b *starlark.Builtin, args starlark.Tuple, kwargs []starlark.Tuple) (starlark.Value, error) {
				cur ^= 1
				defer func() { cur ^= 1 }()
				name, _ := starlark.AsString(args[0])
				return starlark.Call(th, inst[cur][name], args[1:], nil)
			})
			_, prog, err := starlark.SourceProgramOptions(&syntax.FileOptions{Recursion: rec}, "rec.star", src, pre.Has)
			if err != nil {
				return nil, err
			}
			for i := range inst {
				if inst[i], err = prog.Init(th, pre); err != nil {
					return tr.Events, err
				}
			}
			th2 := &starlark.Thread{Name: "c09call", Print: th.Print}
			th2.SetMaxExecutionSteps(1000000)
			_, err = starlark.Call(th2, inst[0]["f0"], starlark.Tuple{starlark.MakeInt(c.Depth)}, nil)
			return tr.Events, err
		}
		g, err := starlark.ExecFileOptions(&syntax.FileOptions{Recursion: rec}, th, "rec.star", src, pre)
		if err == nil && c.ViaCall {
			// the usual embedding pattern: load a module, then call one of its functions from Go
			th2 := &starlark.Thread{Name: "c09call", Print: th.Print}
			th2.SetMaxExecutionSteps(1000000)
			_, err = starlark.Call(th2, g["f0"], starlark.Tuple{starlark.MakeInt(c.Depth)}, nil)
		}
		return tr.Events, err
	}
	got, err := run(false)
	if offFails {
		if err == nil {
			return fmt.Errorf("recursion off: re-entry of active code did not fail (trace %v)\n%s", got, src)
		}
		if _, static := isStatic(err); static {
			return fmt.Errorf("recursion off: static error %v", err)
		}
	} else if err != nil {
		return fmt.Errorf("recursion off: no re-entry on this path but the run failed: %v\n%s", err, src)
	}
	if strings.Join(got, ",") != strings.Join(offTrace, ",") {
		return fmt.Errorf("recursion off: entered %v, expected %v (err=%v)\n%s", got, offTrace, err, src)
	}
	// recursion on: the cycle proceeds until the depth argument is exhausted
	got2, err2 := run(true)
	if err2 != nil {
		return fmt.Errorf("recursion on: run failed: %v\n%s", err2, src)
	}
	var on []string
	i, d := 0, c.Depth
	for {
		on = append(on, fmt.Sprintf("t:enter:%d", i))
		if c.Edges[i] == "twin" && d > 0 {
			on = append(on, fmt.Sprintf("t:enter:%d", i)) // instance B enters too (same depth)
		}
		if d <= 0 {
			break
		}
		d--
		if i == c.N-1 {
			i = c.Back
		} else {
			i++
		}
	}
	if c.Edges[i] == "twin" && d <= 0 {
		// at depth 0 instance A returns before calling B: already handled (no second enter)
	}
	if strings.Join(got2, ",") != strings.Join(on, ",") {
		return fmt.Errorf("recursion on: entered %v, expected %v\n%s", got2, on, src)
	}
	vk.S.Class(fmt.Sprintf("rec:n=%d", c.N))
	nonPlain := false
	for _, e := range c.Edges {
		vk.S.Class("edge:" + e)
		if e != "plain" {
			nonPlain = true
		}
	}
	if nonPlain && c.Depth >= 2 {
		vk.S.NonTrivial(fmt.Sprintf("%+v", c))
		vk.S.Sample("recursion", "cycle", map[string]any{"case": c, "src": src})
	}
	return nil
}

var subRec = vk.Register("recursion", checkRecursion)

var edgeKinds = []string{"plain", "lambda", "twin", "sorted", "min", "max", "comp", "peer"}

// All call graphs of the stated shape: n <= 4 functions, every back edge target, every edge-kind vector (thorough) or
// n <= 3 (quick), depth 2n+1.
func TestPropRecursion(t *testing.T) {
	maxN := 3
	if vk.Thorough() {
		maxN = 4
	}
	vk.S.SetExhaustive(fmt.Sprintf("recursion-cycles-n<=%d-all-edge-kind-vectors", maxN), true)
	vk.Enum(t, subRec, func(yield func(RecCase) bool) {
		idx := 0
		for n := 1; n <= maxN; n++ {
			total := 1
			for i := 0; i < n; i++ {
				total *= len(edgeKinds)
			}
			for back := 0; back < n; back++ {
				for v := 0; v < total; v++ {
					idx++
					if !vk.Mine(idx) {
						continue
					}
					edges := make([]string, n)
					x := v
					for i := 0; i < n; i++ {
						edges[i] = edgeKinds[x%len(edgeKinds)]
						x /= len(edgeKinds)
					}
					for _, depth := range []int{0, 1, 2*n + 1} {
						for _, via := range []bool{false, true} {
							if !yield(RecCase{N: n, Back: back, Edges: edges, Depth: depth, ViaCall: via}) {
								return
							}
						}
					}
				}
			}
		}
	})
}

func TestReplay(t *testing.T) { vk.Replay(t) }

var _ = sort.Strings
