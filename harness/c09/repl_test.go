package c09

// repl: the chunk-by-chunk entry point (ExecREPLChunk). A global defined in an earlier chunk is that global in
// every later chunk - also when it is named like a universal or predeclared name, and whatever the dialect
// options are (a user's own `set` is not the set type the Set option governs).

import (
	"fmt"
	"testing"

	"go.starlark.net/starlark"
	"go.starlark.net/syntax"
	"verif/harness/vk"
)

type ReplCase struct {
	Name string `json:"name"`
	Opts int    `json:"opts"`
	Form string `json:"form"` // def | assign
}

func checkRepl(c ReplCase) error {
	o := optsOf(c.Opts)
	opts := o.FileOptions()
	th := &starlark.Thread{Name: "c09-repl"}
	globals := starlark.StringDict{}
	chunk := func(src string) error {
		f, err := opts.Parse("<repl>", src, 0)
		if err != nil {
			return err
		}
		return starlark.ExecREPLChunk(f, th, globals)
	}
	first := fmt.Sprintf("def %s(x):\n    return (\"mine\", x)\n", c.Name)
	want := "(\"mine\", [1])"
	use := fmt.Sprintf("y = %s([1])\n", c.Name)
	if c.Form == "assign" {
		first = fmt.Sprintf("%s = (\"mine\",)\n", c.Name)
		use = fmt.Sprintf("y = %s + ([1],)\n", c.Name)
	}
	what := fmt.Sprintf("%+v under %+v", c, o)
	if err := chunk(first); err != nil {
		return fmt.Errorf("%s: the defining chunk is rejected: %v", what, err)
	}
	for i := 0; i < 2; i++ {
		if err := chunk(use); err != nil {
			return fmt.Errorf("%s: chunk %d using the session's global %s is rejected or fails: %v", what, i+2, c.Name, err)
		}
		if got := globals["y"].String(); got != want {
			return fmt.Errorf("%s: chunk %d: %s denotes something else than the session's global: y = %s, want %s", what, i+2, c.Name, got, want)
		}
	}
	// an expression chunk sees it too
	if err := chunk(fmt.Sprintf("z = [%s]\n", c.Name)); err != nil || globals["z"].(*starlark.List).Index(0).String() != globals[c.Name].String() {
		return fmt.Errorf("%s: a later chunk does not see the session's global (err=%v)", what, err)
	}
	vk.S.Class("repl:" + c.Form)
	vk.S.NonTrivial(fmt.Sprintf("%+v", c))
	return nil
}

var subRepl = vk.Register("repl", checkRepl)

func TestPropReplGlobals(t *testing.T) {
	vk.S.SetExhaustive("repl-session-global-named-like-a-universal-x-options", true)
	vk.Enum(t, subRepl, func(yield func(ReplCase) bool) {
		i := 0
		for _, name := range []string{"set", "len", "abs", "dict", "t", "rec", "print", "mine"} {
			for v := 0; v < 64; v++ {
				for _, form := range []string{"def", "assign"} {
					i++
					if vk.Mine(i) && !yield(ReplCase{name, v, form}) {
						return
					}
				}
			}
		}
	})
}

var _ = syntax.EQ
