// C05: frozen values and compiled programs are safe to share between threads.
//
// Every scenario runs in a child process built with the race detector
// (GORACE=halt_on_error): N goroutines, each with its own starlark.Thread,
// execute generated scripts over the values of one frozen module and
// initialise one shared *Program. A race report kills the child (exit 66),
// which the parent turns into a violation; in addition each thread's
// transcript must equal the transcript of the same script run alone.
package c05

import (
	"encoding/json"
	"errors"
	"fmt"
	"runtime/debug"
	"strings"
	"sync"
	"testing"
	"time"

	sjson "go.starlark.net/lib/json"
	"go.starlark.net/starlark"
	"go.starlark.net/starlarkstruct"
	"go.starlark.net/syntax"
	"pgregory.net/rapid"
	"verif/harness/gen"
	"verif/harness/host"
	"verif/harness/vk"
)

func TestMain(m *testing.M) {
	vk.Describe("a scenario = one frozen module (generated object graph: shared/nested/cyclic lists, dicts, sets, tuples, structs, records, functions with mutable defaults, closures, bound methods) "+
		"+ one compiled *Program (half of them fail at run time, so backtraces and position tables are built) + N in [2,8] goroutines, each with its own Thread and a generated script of 20-120 operations "+
		"on the shared values: len/index/slice/in, iteration (for, comprehension, list(), sorted, reversed, Go push iterators), ==/<, hash and use as dict key, str/repr/%r/format, json.encode, calls of shared closures (also failing ones), "+
		"storing shared values into the thread's own module globals (so its end-of-module Freeze re-freezes them), every mutator (must fail), Program.Init of the shared program and Backtrace() of its failure. "+
		"A start barrier maximises overlap. Oracle: the Go race detector reports nothing (child process, halt_on_error), and each thread's transcript equals the transcript of the same script run alone afterwards. "+
		"Non-trivial = >= 2 threads operate on the same mutable-typed frozen object with >= 1 iteration and >= 1 rejected mutation each, or >= 2 threads initialise/fail the same Program; distinct by scenario.",
		"the race detector sees only executed pairs of conflicting accesses; interleavings are those the Go scheduler produces on this machine",
		"schedule-dependent failures may not shrink; the scenario and the race report are the replay")
	vk.Main(m, "C05")
}

type Case struct {
	Module  gen.Module `json:"module"`
	Scripts []string   `json:"scripts"`
	Prog    string     `json:"prog"`
	GoOps   [][]string `json:"go_ops"` // per thread: Go-level operations
}

// ---------------------------------------------------------------- script generation

func genScript(t *rapid.T, m gen.Module, me int) string {
	var sb strings.Builder
	line := func(format string, args ...any) { fmt.Fprintf(&sb, format+"\n", args...) }
	line("r = []")
	line("def setitem(x): x[0] = 1")
	line("def setkey(x): x[\"race-key\"] = 1")
	line("def iadd(x): x += [1]")
	line("def ior(x): x |= {\"race-key\": 1}")
	line("def walk(x, d):")
	line("    n = 1")
	line("    if d > 0 and type(x) in (\"list\", \"tuple\", \"dict\", \"set\"):")
	line("        for e in x:")
	line("            n += walk(e, d - 1)")
	line("    return n")
	// poke descends into a shared value and attempts a mutation on everything it finds, including what is only reachable
	// as a dict key, a set element or a bound method's receiver; callables found on the way are called
	line("def callpoke(f, d):")
	line("    return poke(f(), d)") // what a shared function returns (a default, a captured variable) is shared too
	line("def poke(x, d):")
	line("    acc = []")
	line("    ty = type(x)")
	line("    if ty == \"list\":")
	line("        acc.append(attempt(x.append, \"poked\"))")
	line("        if d > 0:")
	line("            for e in x:")
	line("                acc.extend(poke(e, d - 1))")
	line("    elif ty == \"dict\":")
	line("        acc.append(attempt(x.setdefault, \"poked\", 1))")
	line("        if d > 0:")
	line("            for k, v in x.items():")
	line("                acc.extend(poke(k, d - 1))")
	line("                acc.extend(poke(v, d - 1))")
	line("    elif ty == \"set\":")
	line("        acc.append(attempt(x.add, \"poked\"))")
	line("        if d > 0:")
	line("            for e in x:")
	line("                acc.extend(poke(e, d - 1))")
	line("    elif ty == \"tuple\":")
	line("        if d > 0:")
	line("            for e in x:")
	line("                acc.extend(poke(e, d - 1))")
	line("    elif ty == \"function\" or ty == \"builtin_function_or_method\":")
	line("        acc.append(attempt(x, \"poked-arg\"))")
	line("        if d > 0:")
	line("            acc.append(attempt(callpoke, x, d - 1))")
	line("    elif ty == \"struct\":")
	line("        if d > 0:")
	line("            for n in dir(x):")
	line("                acc.extend(poke(getattr(x, n), d - 1))")
	line("    return acc")
	pick := func(kinds ...string) string {
		var c []string
		for _, v := range m.Vars {
			for _, k := range kinds {
				if v.Kind == k {
					c = append(c, v.Name)
				}
			}
		}
		if len(c) == 0 {
			return ""
		}
		return c[vk.Uniform(t, len(c))]
	}
	anyVar := func() string {
		if len(m.Vars) == 0 {
			return "HOSTLIST"
		}
		return m.Vars[vk.Uniform(t, len(m.Vars))].Name
	}
	n := 10 + vk.Uniform(t, 40)
	stored := 0
	for i := 0; i < n; i++ {
		x := anyVar()
		switch vk.Uniform(t, 29) {
		case 0:
			line("r.append(attempt(lambda: str(%s)))", x)
		case 1:
			line("r.append(attempt(lambda: repr(%s) + \"%%r\" %% (%s,)))", x, x)
		case 2:
			line("r.append(attempt(lambda: walk(%s, 2)))", x)
		case 3:
			line("r.append(attempt(lambda: [e for e in %s]))", x)
		case 4:
			line("r.append(attempt(lambda: len(%s)))", x)
		case 5:
			line("r.append(attempt(lambda: sorted(%s)))", x)
		case 6:
			line("r.append(attempt(lambda: %s == %s))", x, anyVar())
		case 7:
			line("r.append(attempt(lambda: hash(str(%s))))", x)
		case 8:
			line("r.append(attempt(lambda: {%s: 1}))", x)
		case 9:
			line("r.append(attempt(lambda: json.encode(%s)))", x)
		case 10:
			if f := pick("func"); f != "" {
				line("r.append(attempt(%s))", f)
				line("r.append(attempt(lambda: %s()))", f)
				line("r.append(attempt(%s, 1, 2, 3, 4, 5))", f) // a failing call: binds too many arguments
			}
		case 11:
			if l := pick("list"); l != "" {
				line("r.append(attempt(%s.append, 1))", l)
				line("r.append(attempt(setitem, %s))", l)
				line("r.append(attempt(iadd, %s))", l)
				line("r.append(attempt(%s.pop))", l)
				line("r.append(attempt(%s.clear))", l)
			}
		case 12:
			if d := pick("dict"); d != "" {
				line("r.append(attempt(setkey, %s))", d)
				line("r.append(attempt(ior, %s))", d)
				line("r.append(attempt(%s.update, [(1, 2)]))", d)
				line("r.append(attempt(%s.popitem))", d)
				line("r.append(attempt(lambda: list(%s.items())))", d)
			}
		case 13:
			if s := pick("set"); s != "" {
				line("r.append(attempt(%s.add, \"race\"))", s)
				line("r.append(attempt(%s.pop))", s)
				line("r.append(attempt(lambda: %s | %s))", s, s)
			}
		case 14:
			if rc := pick("rec"); rc != "" {
				line("def setf%d(): %s.a = 1", i, rc)
				line("r.append(attempt(setf%d))", i)
				line("r.append(attempt(lambda: %s.a))", rc)
			}
		case 15:
			// store shared values in this module's globals: the end-of-module Freeze visits them again
			stored++
			line("keep_%d = [%s, {\"k\": %s}, (%s,)]", i, x, anyVar(), anyVar())
		case 16:
			line("r.append(attempt(lambda: %s[0]))", x)
			line("r.append(attempt(lambda: %s[::-1]))", x)
		case 17:
			line("r.append(attempt(lambda: 1 in %s))", x)
		case 18:
			line("r.append(attempt(lambda: list(reversed(%s)) + list(enumerate(%s))))", x, x)
		case 19:
			line("r.append(attempt(lambda: %s < %s))", x, anyVar())
		case 20:
			line("r.append(attempt(lambda: \"{}\".format(%s)))", x)
		case 21:
			line("r.append(attempt(lambda: dir(%s)))", x)
		case 22, 23:
			// values derived from shared ones, extended with a thread-specific element: must not write into shared storage
			if tv := pick("tuple"); tv != "" {
				line("r.append(attempt(lambda: %s[:1] + (%d,)))", tv, 1000+me)
				line("r.append(attempt(lambda: (%s[:1] + (%d, %d)) + %s[1:]))", tv, 2000+me, me, tv)
				line("r.append(attempt(lambda: %s * 1 + (%d,)))", tv, 3000+me)
				line("r.append(attempt(lambda: %s))", tv)
			}
			if lv := pick("list"); lv != "" {
				line("r.append(attempt(lambda: %s[:1] + [%d]))", lv, 4000+me)
				line("r.append(attempt(lambda: (%s * 1) + [%d]))", lv, 5000+me)
				line("r.append(attempt(lambda: sorted(%s[:2] + [%d], key = lambda e: 0)))", lv, 6000+me)
				line("r.append(attempt(lambda: len(%s)))", lv)
			}
		case 27, 28:
			line("r.append(attempt(lambda: poke(%s, 3)))", x)
		case 25, 26:
			// closures made now by a shared factory capture variables of the shared (frozen) module; calling them
			// reads those variables, storing them in this module's globals re-freezes them when the module ends
			if f := pick("factory"); f != "" {
				line("r.append(attempt(lambda: str(%s())))", f)
				line("def callmade%d():", i)
				line("    c = %s(%d)", f, me)
				line("    if type(c) == \"list\":")
				line("        return [g() for g in c]")
				line("    return c()")
				line("r.append(attempt(callmade%d))", i)
				line("made_%d = %s([%d])", i, f, me)
				line("r.append(attempt(callmade%d))", i)
			}
		case 24:
			line("r.append(attempt(lambda: json.encode([\"thread-%d\", \"%s\", {\"key-%d\": \"v\"}]) + json.encode_indent({\"t\": \"%d\"})))", me, x, me, me)
		}
	}
	return sb.String()
}

var goOpKinds = []string{"elements", "hash", "freeze", "init-prog", "string", "equal", "saved-seq"}

const progOK = "def pf(n):\n    return [i * n for i in range(5)]\nP = pf(3)\nQ = {str(i): SHARED for i in range(3)}\n"
const progFail = "def deep(n):\n    if n == 0:\n        return [1][n + 3]\n    return deep2(n - 1)\ndef deep2(n):\n    return [deep(n) for _ in [0]][0]\n\n\n\nP = deep2(5)\n"

func genCase(t *rapid.T) Case {
	c := Case{Module: gen.GenModule(t, true)}
	n := 2 + vk.Uniform(t, 5)
	for i := 0; i < n; i++ {
		c.Scripts = append(c.Scripts, genScript(t, c.Module, i))
		var ops []string
		for j := 0; j < 3+vk.Uniform(t, 10); j++ {
			ops = append(ops, goOpKinds[vk.Uniform(t, len(goOpKinds))])
		}
		c.GoOps = append(c.GoOps, ops)
	}
	if vk.Chance(t, 0.5) {
		c.Prog = progFail
	} else {
		c.Prog = progOK
	}
	return c
}

// ---------------------------------------------------------------- execution (child side)

type shared struct {
	globals starlark.StringDict
	prog    *starlark.Program
	names   []string
	// seqs are Go push iterators (List.Elements, Dict.Entries, starlark.Elements ...) that a host built-in took from
	// values of the module while it was still executing; the threads range over them after the module is frozen.
	seqs []func() int
}

func buildShared(c Case) (*shared, error) {
	tr := &host.Trace{}
	pre, th := host.Env(tr, "shared")
	pre["HOSTLIST"] = starlark.NewList([]starlark.Value{starlark.MakeInt(1)})
	sh := &shared{}
	count1 := func(seq func(func(starlark.Value) bool)) func() int {
		return func() int {
			n := 0
			for range seq {
				n++
			}
			for range seq {
				break
			}
			return n
		}
	}
	count2 := func(seq func(func(starlark.Value, starlark.Value) bool)) func() int {
		return func() int {
			n := 0
			for range seq {
				n++
			}
			return n
		}
	}
	pre["keepseq"] = starlark.NewBuiltin("keepseq", func(_ *starlark.Thread, _ *starlark.Builtin, args starlark.Tuple, _ []starlark.Tuple) (starlark.Value, error) {
		for _, a := range args {
			switch x := a.(type) {
			case *starlark.List:
				sh.seqs = append(sh.seqs, count1(x.Elements()), count1(starlark.Elements(x)))
			case *starlark.Dict:
				// (starlark.Elements(dict) falls back to a one-shot iterator taken when it is called: not shareable, not saved)
				sh.seqs = append(sh.seqs, count2(x.Entries()), count2(starlark.Entries(x)))
			case *starlark.Set:
				sh.seqs = append(sh.seqs, count1(x.Elements()), count1(starlark.Elements(x)))
			case starlark.Tuple:
				sh.seqs = append(sh.seqs, count1(x.Elements()))
			}
		}
		return starlark.None, nil
	})
	src := c.Module.Src
	for _, v := range c.Module.Vars {
		switch v.Kind {
		case "list", "dict", "set", "tuple":
			src += "keepseq(" + v.Name + ")\n"
		}
	}
	g, err := starlark.ExecFileOptions(&syntax.FileOptions{Set: c.Module.Set}, th, "shared.star", src, pre)
	if err != nil {
		if _, ok := err.(*starlark.EvalError); !ok {
			return nil, fmt.Errorf("shared module invalid: %v", err)
		}
	}
	sh.globals = g
	isPre := func(name string) bool { return name == "SHARED" }
	_, prog, err := starlark.SourceProgramOptions(&syntax.FileOptions{}, "prog.star", c.Prog, isPre)
	if err != nil {
		return nil, fmt.Errorf("shared program invalid: %v", err)
	}
	sh.prog = prog
	sh.names = g.Keys()
	return sh, nil
}

func threadEnv(sh *shared) (starlark.StringDict, *starlark.Thread) {
	th := &starlark.Thread{Name: "worker"}
	th.SetMaxExecutionSteps(200000)
	pre := starlark.StringDict{
		"json":     sjson.Module,
		"struct":   starlark.NewBuiltin("struct", starlarkstruct.Make),
		"HOSTLIST": starlark.NewList(nil),
		"attempt": starlark.NewBuiltin("attempt", func(t *starlark.Thread, b *starlark.Builtin, args starlark.Tuple, kwargs []starlark.Tuple) (starlark.Value, error) {
			if len(args) == 0 {
				return nil, fmt.Errorf("attempt: missing callable")
			}
			v, err := starlark.Call(t, args[0], args[1:], nil)
			if err != nil {
				return starlark.String("ERR"), nil
			}
			return starlark.String("ok:" + v.String()), nil
		}),
	}
	for k, v := range sh.globals {
		pre[k] = v
	}
	return pre, th
}

func runThread(sh *shared, script string, ops []string) string {
	var sb strings.Builder
	pre, th := threadEnv(sh)
	g, err := starlark.ExecFileOptions(&syntax.FileOptions{Set: true, Recursion: true}, th, "script.star", script, pre)
	if err != nil {
		sb.WriteString("script error: " + err.Error() + "\n")
	}
	if r, ok := g["r"]; ok {
		sb.WriteString(r.String())
	}
	for _, op := range ops {
		for _, name := range sh.names {
			v := sh.globals[name]
			switch op {
			case "elements":
				if it, ok := v.(starlark.Iterable); ok {
					n := 0
					for e := range starlark.Elements(it) {
						_ = e
						n++
						if n > 2 {
							break
						}
					}
					fmt.Fprintf(&sb, "|el:%d", n)
				}
				if d, ok := v.(*starlark.Dict); ok {
					for k, x := range d.Entries() {
						_, _ = k, x
						break
					}
				}
			case "hash":
				h, err := v.Hash()
				fmt.Fprintf(&sb, "|h:%d:%v", h, err != nil)
			case "freeze":
				v.Freeze()
			case "string":
				fmt.Fprintf(&sb, "|s:%d", len(v.String()))
			case "equal":
				eq, err := starlark.Equal(v, sh.globals[sh.names[0]])
				fmt.Fprintf(&sb, "|eq:%v:%v", eq, err != nil)
			}
		}
		if op == "saved-seq" {
			for _, f := range sh.seqs {
				fmt.Fprintf(&sb, "|sq:%d", f())
			}
		}
		if op == "init-prog" {
			th2 := &starlark.Thread{Name: "init"}
			shv := starlark.Value(starlark.None)
			if len(sh.names) > 0 {
				shv = sh.globals[sh.names[0]]
			}
			g, err := sh.prog.Init(th2, starlark.StringDict{"SHARED": shv})
			if err != nil {
				var ee *starlark.EvalError
				if errors.As(err, &ee) {
					sb.WriteString("|init-fail:" + ee.Backtrace())
				} else {
					sb.WriteString("|init-err:" + err.Error())
				}
			} else {
				sb.WriteString("|init-ok:" + g["P"].String())
			}
		}
	}
	return sb.String()
}

type reply struct {
	OK      bool   `json:"ok"`
	Explain string `json:"explain"`
	Threads int    `json:"threads"`
}

func runCase(c Case) reply {
	sh, err := buildShared(c)
	if err != nil {
		return reply{false, err.Error(), 0}
	}
	n := len(c.Scripts)
	res := make([]string, n)
	var wg sync.WaitGroup
	start := make(chan struct{})
	for i := 0; i < n; i++ {
		wg.Add(1)
		go func(i int) {
			defer wg.Done()
			<-start
			res[i] = runThread(sh, c.Scripts[i], c.GoOps[i])
		}(i)
	}
	close(start)
	wg.Wait()
	// afterwards: each script alone
	for i := 0; i < n; i++ {
		solo := runThread(sh, c.Scripts[i], c.GoOps[i])
		if solo != res[i] {
			return reply{false, fmt.Sprintf("thread %d observed different results when running concurrently: %s", i, firstDiff(res[i], solo)), n}
		}
	}
	return reply{true, "", n}
}

func firstDiff(a, b string) string {
	i := 0
	for i < len(a) && i < len(b) && a[i] == b[i] {
		i++
	}
	lo := max(0, i-60)
	return fmt.Sprintf("at byte %d: concurrent %q vs solo %q", i, clip(a[lo:]), clip(b[lo:]))
}

func clip(s string) string {
	if len(s) > 160 {
		return s[:160] + "..."
	}
	return s
}

func TestWorker(t *testing.T) {
	if vk.WorkerKind() != "c05" {
		t.Skip("not a worker")
	}
	debug.SetMaxStack(96 << 20) // a runaway recursion (cyclic struct printing, C02's finding) dies quickly
	vk.Serve(func(req json.RawMessage) any {
		var c Case
		if err := json.Unmarshal(req, &c); err != nil {
			return reply{false, "bad request: " + err.Error(), 0}
		}
		return runCase(c)
	})
}

// ---------------------------------------------------------------- parent side

var worker = func() *vk.Worker {
	w := vk.NewWorker("c05")
	w.Env = []string{"GORACE=halt_on_error=1 exitcode=66"}
	return w
}()

func checkScenario(c Case) error {
	if len(c.Scripts) < 2 || len(c.GoOps) != len(c.Scripts) {
		return fmt.Errorf("malformed case")
	}
	var rep reply
	err := worker.Do(c, &rep, 300*time.Second)
	if err != nil {
		var d *vk.Death
		if errors.As(err, &d) {
			if d.Kind == "timeout" {
				vk.S.Timeout()
				return nil
			}
			if d.Kind == "stack-overflow" {
				// str() of a struct that is part of a cycle recurses without bound: a catalogued C02 finding, not a race
				vk.S.Class("excluded:cyclic-struct-stack-overflow")
				vk.S.Discard()
				return nil
			}
			if strings.Contains(d.Detail, "DATA RACE") {
				return fmt.Errorf("data race reported by the Go race detector:\n%s", d.Detail)
			}
			return fmt.Errorf("worker died (%s): %s", d.Kind, d.Detail)
		}
		return err
	}
	if !rep.OK {
		if strings.HasPrefix(rep.Explain, "shared module invalid") || strings.HasPrefix(rep.Explain, "shared program invalid") {
			return fmt.Errorf("harness: %s", rep.Explain)
		}
		return fmt.Errorf("%s", rep.Explain)
	}
	vk.S.Class(fmt.Sprintf("threads:%d", rep.Threads))
	if c.Prog == progFail {
		vk.S.Class("shared-program:fails")
	} else {
		vk.S.Class("shared-program:ok")
	}
	iter, mut := 0, 0
	for _, s := range c.Scripts {
		if strings.Contains(s, "for e in") || strings.Contains(s, "walk(") || strings.Contains(s, "sorted(") {
			iter++
		}
		if strings.Contains(s, ".append, 1") || strings.Contains(s, "setkey") || strings.Contains(s, ".add,") {
			mut++
		}
	}
	if iter >= 2 && mut >= 2 {
		vk.S.NonTrivial(fmt.Sprintf("%v", c.Scripts))
		vk.S.Sample("scenario", "nt", map[string]any{"module": c.Module.Src, "threads": len(c.Scripts), "script0": c.Scripts[0], "go_ops0": c.GoOps[0]})
	}
	return nil
}

var subScenario = vk.Register("scenario", checkScenario)

func TestPropScenarios(t *testing.T) {
	defer worker.Recycle()
	vk.Rapid(t, subScenario, vk.N(90, 1200), genCase)
}

func TestReplay(t *testing.T) {
	defer worker.Recycle()
	vk.Replay(t)
}

var _ = time.Second
