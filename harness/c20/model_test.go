package c20

// The reference model: an object graph of message / list / map nodes with explicit sharing, plus
// wrapper groups that share one frozen flag.  It is written from the package documentation of
// lib/proto ("alias it directly", "shallow copy", "makes a copy" for repeated and map fields,
// frozen default values of unset composite fields) and the protobuf data model; scalar acceptance
// comes from specScalar.

import (
	"errors"
	"fmt"
	"math/big"
	"sort"
	"strings"
	"unicode/utf8"

	"google.golang.org/protobuf/reflect/protoreflect"
)

type flagT struct{ frozen bool }

type mMsg struct {
	id          int
	md          protoreflect.MessageDescriptor
	known       map[protoreflect.FieldNumber]*mSlot
	sharedAlias bool // stored somewhere by reference (message assignment)
	sharedCopy  bool // shared by a shallow copy Message(m)
	everCopy    bool // was at some time inside a region shared by a shallow copy
	everAlias   bool // was at some time inside a region shared by a message stored by reference
}

type mSlot struct {
	sc   string
	msg  *mMsg
	list *mList
	mp   *mMap
}

type mElem struct {
	sc  string
	msg *mMsg
}

type mList struct {
	id         int
	elems      []mElem
	immutable  bool // the frozen empty default of an unset repeated field
	sharedCopy bool
	everCopy   bool
	everAlias  bool
}

type mMap struct {
	id         int
	vals       map[string]mElem
	immutable  bool
	sharedCopy bool
	everCopy   bool
	everAlias  bool
}

var errModel = errors.New("model: operation must fail")

func mfail(format string, args ...any) error {
	return fmt.Errorf("%w: %s", errModel, fmt.Sprintf(format, args...))
}

// ---------------------------------------------------------------- handles and world

type handle struct {
	kind byte // 'm' message, 'l' repeated view, 'p' map view
	// real side (shared between a world and its clone)
	real interface {
		String() string
		Freeze()
	}
	// model side
	msg  *mMsg
	list *mList
	mp   *mMap
	flag *flagT
	fd   protoreflect.FieldDescriptor // views of repeated/map fields: the field (element types)
	// frozen bookkeeping
	frozenStr   string // String() of the real value when it became frozen
	frozenCanon string // model render at that time
	captured    bool
	origin      string // how the handle was made (diagnostics)
}

type world struct {
	vars   [4]*handle
	views  []*handle
	ghosts []*handle // frozen handles that were dropped from vars/views; still watched
	nextID int
	marked []any // every node that was ever stored by reference or shared by a shallow copy
}

func (w *world) markAlias(m *mMsg) {
	if !m.sharedAlias && !m.sharedCopy {
		w.marked = append(w.marked, m)
	}
	m.sharedAlias = true
}

func (w *world) markCopy(n any) {
	switch n := n.(type) {
	case *mMsg:
		if !n.sharedAlias && !n.sharedCopy {
			w.marked = append(w.marked, n)
		}
		n.sharedCopy = true
	case *mList:
		if !n.sharedCopy {
			w.marked = append(w.marked, n)
		}
		n.sharedCopy = true
	case *mMap:
		if !n.sharedCopy {
			w.marked = append(w.marked, n)
		}
		n.sharedCopy = true
	}
}

// taint records, on every node currently inside a shared region, that it was there: a view handle
// keeps such a node reachable by both wrapper groups after an assignment has detached it from the
// region (m.mst = {...} leaves earlier views of m.mst on the old storage).
func (w *world) taint() {
	for _, x := range w.marked {
		xv := newVisitor()
		var c, a bool
		switch x := x.(type) {
		case *mMsg:
			xv.msg(x)
			c, a = x.sharedCopy, x.sharedAlias
		case *mList:
			xv.list(x)
			c = x.sharedCopy
		case *mMap:
			xv.mapn(x)
			c = x.sharedCopy
		}
		for n := range xv.msgs {
			n.everCopy, n.everAlias = n.everCopy || c, n.everAlias || a
		}
		for n := range xv.lists {
			n.everCopy, n.everAlias = n.everCopy || c, n.everAlias || a
		}
		for n := range xv.maps {
			n.everCopy, n.everAlias = n.everCopy || c, n.everAlias || a
		}
	}
}

const maxViews = 8

func (w *world) all() []*handle {
	var hs []*handle
	for _, h := range w.vars {
		if h != nil {
			hs = append(hs, h)
		}
	}
	return append(hs, w.views...)
}

func (w *world) watched() []*handle { return append(w.all(), w.ghosts...) }

func (w *world) id() int { w.nextID++; return w.nextID }

func (w *world) newMsg(md protoreflect.MessageDescriptor) *mMsg {
	return &mMsg{id: w.id(), md: md, known: map[protoreflect.FieldNumber]*mSlot{}}
}
func (w *world) newList() *mList { return &mList{id: w.id()} }
func (w *world) newMap() *mMap   { return &mMap{id: w.id(), vals: map[string]mElem{}} }

// clone copies the model side of the world, preserving sharing; real values are shared.
func (w *world) clone() *world {
	c := &world{nextID: w.nextID}
	msgs := map[*mMsg]*mMsg{}
	lists := map[*mList]*mList{}
	maps := map[*mMap]*mMap{}
	flags := map[*flagT]*flagT{}
	var cm func(*mMsg) *mMsg
	ce := func(e mElem) mElem {
		if e.msg != nil {
			return mElem{msg: cm(e.msg)}
		}
		return e
	}
	cl := func(l *mList) *mList {
		if l == nil {
			return nil
		}
		if n, ok := lists[l]; ok {
			return n
		}
		n := &mList{id: l.id, immutable: l.immutable, sharedCopy: l.sharedCopy, everCopy: l.everCopy, everAlias: l.everAlias}
		lists[l] = n
		for _, e := range l.elems {
			n.elems = append(n.elems, ce(e))
		}
		return n
	}
	cp := func(m *mMap) *mMap {
		if m == nil {
			return nil
		}
		if n, ok := maps[m]; ok {
			return n
		}
		n := &mMap{id: m.id, immutable: m.immutable, sharedCopy: m.sharedCopy, everCopy: m.everCopy, everAlias: m.everAlias, vals: map[string]mElem{}}
		maps[m] = n
		for k, e := range m.vals {
			n.vals[k] = ce(e)
		}
		return n
	}
	cm = func(m *mMsg) *mMsg {
		if m == nil {
			return nil
		}
		if n, ok := msgs[m]; ok {
			return n
		}
		n := &mMsg{id: m.id, md: m.md, known: map[protoreflect.FieldNumber]*mSlot{}, sharedAlias: m.sharedAlias, sharedCopy: m.sharedCopy, everCopy: m.everCopy, everAlias: m.everAlias}
		msgs[m] = n
		for num, s := range m.known {
			n.known[num] = &mSlot{sc: s.sc, msg: cm(s.msg), list: cl(s.list), mp: cp(s.mp)}
		}
		return n
	}
	ch := func(h *handle) *handle {
		if h == nil {
			return nil
		}
		f, ok := flags[h.flag]
		if !ok {
			f = &flagT{h.flag.frozen}
			flags[h.flag] = f
		}
		n := *h
		n.flag, n.msg, n.list, n.mp = f, cm(h.msg), cl(h.list), cp(h.mp)
		return &n
	}
	for i, h := range w.vars {
		c.vars[i] = ch(h)
	}
	for _, h := range w.views {
		c.views = append(c.views, ch(h))
	}
	for _, h := range w.ghosts {
		c.ghosts = append(c.ghosts, ch(h))
	}
	for _, n := range w.marked {
		switch n := n.(type) {
		case *mMsg:
			c.marked = append(c.marked, cm(n))
		case *mList:
			c.marked = append(c.marked, cl(n))
		case *mMap:
			c.marked = append(c.marked, cp(n))
		}
	}
	return c
}

// ---------------------------------------------------------------- field helpers

func isMsgKind(fd protoreflect.FieldDescriptor) bool {
	return fd.Kind() == protoreflect.MessageKind || fd.Kind() == protoreflect.GroupKind
}

func hasPresence(fd protoreflect.FieldDescriptor) bool {
	return fd.HasPresence() || fd.IsExtension()
}

// isSet: does the field count as populated (proto.has, String, marshal, shallow copy).
func isSet(fd protoreflect.FieldDescriptor, s *mSlot) bool {
	switch {
	case s == nil:
		return false
	case fd.IsList():
		return s.list != nil && len(s.list.elems) > 0
	case fd.IsMap():
		return s.mp != nil && len(s.mp.vals) > 0
	case isMsgKind(fd):
		return s.msg != nil
	case hasPresence(fd):
		return true
	}
	return !isZeroCanon(s.sc)
}

// fieldsOf lists the fields of a message type in declaration order, then its extensions by number.
func fieldsOf(md protoreflect.MessageDescriptor) []protoreflect.FieldDescriptor {
	var fds []protoreflect.FieldDescriptor
	for i := 0; i < md.Fields().Len(); i++ {
		fds = append(fds, md.Fields().Get(i))
	}
	if md == mdP2 {
		var xs []protoreflect.FieldDescriptor
		for _, x := range exts {
			xs = append(xs, x)
		}
		sort.Slice(xs, func(i, j int) bool { return xs[i].Number() < xs[j].Number() })
		fds = append(fds, xs...)
	}
	return fds
}

func lessKey(a, b string) bool {
	if a[0] != b[0] {
		return a[0] < b[0]
	}
	switch a[0] {
	case cInt:
		x, _ := new(big.Int).SetString(a[2:], 10)
		y, _ := new(big.Int).SetString(b[2:], 10)
		return x.Cmp(y) < 0
	case cBool:
		return a == "o:false" && b == "o:true"
	}
	return a < b // hex of the bytes: same order as the bytes
}

func sortedKeys(m map[string]mElem) []string {
	ks := make([]string, 0, len(m))
	for k := range m {
		ks = append(ks, k)
	}
	sort.Slice(ks, func(i, j int) bool { return lessKey(ks[i], ks[j]) })
	return ks
}

// ---------------------------------------------------------------- rendering (the observable content)

func renderElem(sb *strings.Builder, e mElem) {
	if e.msg != nil {
		renderMsg(sb, e.msg)
	} else {
		sb.WriteString(e.sc)
	}
}

func renderList(sb *strings.Builder, l *mList) {
	sb.WriteByte('[')
	if l != nil {
		for i, e := range l.elems {
			if i > 0 {
				sb.WriteByte(',')
			}
			renderElem(sb, e)
		}
	}
	sb.WriteByte(']')
}

func renderMap(sb *strings.Builder, m *mMap) {
	sb.WriteByte('{')
	if m != nil {
		for i, k := range sortedKeys(m.vals) {
			if i > 0 {
				sb.WriteByte(',')
			}
			sb.WriteString(k)
			sb.WriteString("=>")
			renderElem(sb, m.vals[k])
		}
	}
	sb.WriteByte('}')
}

func renderMsg(sb *strings.Builder, m *mMsg) {
	sb.WriteString(string(m.md.FullName()))
	sb.WriteByte('(')
	for _, fd := range fieldsOf(m.md) {
		s := m.known[fd.Number()]
		set := isSet(fd, s)
		sb.WriteString(string(fd.Name()))
		sb.WriteByte('=')
		if set {
			sb.WriteByte('!')
		}
		switch {
		case fd.IsList():
			if set {
				renderList(sb, s.list)
			} else {
				sb.WriteString("[]")
			}
		case fd.IsMap():
			if set {
				renderMap(sb, s.mp)
			} else {
				sb.WriteString("{}")
			}
		case isMsgKind(fd):
			if set {
				renderMsg(sb, s.msg)
			} else {
				sb.WriteByte('-')
			}
		default:
			if set {
				sb.WriteString(s.sc)
			} else {
				sb.WriteString(defaultCanon(fd))
			}
		}
		sb.WriteByte(';')
	}
	sb.WriteByte(')')
}

func (h *handle) render() string {
	var sb strings.Builder
	switch h.kind {
	case 'm':
		renderMsg(&sb, h.msg)
	case 'l':
		renderList(&sb, h.list)
	case 'p':
		renderMap(&sb, h.mp)
	}
	return sb.String()
}

func (w *world) renderAll() string {
	var sb strings.Builder
	for i, h := range w.watched() {
		fmt.Fprintf(&sb, "#%d:%s\n", i, h.render())
	}
	return sb.String()
}

// ---------------------------------------------------------------- graph queries

type visitor struct {
	msgs  map[*mMsg]bool
	lists map[*mList]bool
	maps  map[*mMap]bool
}

func newVisitor() *visitor {
	return &visitor{map[*mMsg]bool{}, map[*mList]bool{}, map[*mMap]bool{}}
}

func (v *visitor) elem(e mElem) {
	if e.msg != nil {
		v.msg(e.msg)
	}
}
func (v *visitor) list(l *mList) {
	if l == nil || v.lists[l] {
		return
	}
	v.lists[l] = true
	for _, e := range l.elems {
		v.elem(e)
	}
}
func (v *visitor) mapn(m *mMap) {
	if m == nil || v.maps[m] {
		return
	}
	v.maps[m] = true
	for _, e := range m.vals {
		v.elem(e)
	}
}
func (v *visitor) msg(m *mMsg) {
	if m == nil || v.msgs[m] {
		return
	}
	v.msgs[m] = true
	for _, s := range m.known {
		v.msg(s.msg)
		v.list(s.list)
		v.mapn(s.mp)
	}
}

func (v *visitor) handle(h *handle) {
	v.msg(h.msg)
	v.list(h.list)
	v.mapn(h.mp)
}

// msgsIn collects the message nodes referenced (directly or through lists/maps/handles) by a value.
func msgsIn(d dyn, out *[]*mMsg) {
	switch d.c {
	case cMsg:
		*out = append(*out, d.msg)
	case cSeq:
		for _, e := range d.elems {
			msgsIn(e, out)
		}
	case cDict:
		for _, p := range d.pairs {
			msgsIn(p[0], out)
			msgsIn(p[1], out)
		}
	case cListH:
		for _, e := range d.list.elems {
			if e.msg != nil {
				*out = append(*out, e.msg)
			}
		}
	case cMapH:
		for _, e := range d.mp.vals {
			if e.msg != nil {
				*out = append(*out, e.msg)
			}
		}
	}
}

// wouldCycle: storing d into one of the written nodes would make the graph cyclic.
func wouldCycle(written []any, d dyn) bool {
	var ms []*mMsg
	msgsIn(d, &ms)
	for _, m := range ms {
		v := newVisitor()
		v.msg(m)
		for _, t := range written {
			switch t := t.(type) {
			case *mMsg:
				if v.msgs[t] {
					return true
				}
			case *mList:
				if v.lists[t] {
					return true
				}
			case *mMap:
				if v.maps[t] {
					return true
				}
			}
		}
	}
	return false
}

// writtenNodes: the nodes an operation through handle h writes to: the handle's own node, and
// for an assignment to a repeated field the field's existing list (it is refilled in place).
func writtenNodes(h *handle, fd protoreflect.FieldDescriptor, whole bool) []any {
	switch h.kind {
	case 'm':
		out := []any{h.msg}
		if fd != nil && fd.IsList() && whole && !fd.IsExtension() {
			if s := h.msg.known[fd.Number()]; s != nil && s.list != nil {
				out = append(out, s.list)
			}
		}
		return out
	case 'l':
		return []any{h.list}
	}
	return []any{h.mp}
}

// treeSize is the size of the expanded (unshared) content tree, capped.
func treeSize(h *handle) int {
	memoM := map[*mMsg]int{}
	var sm func(*mMsg) int
	se := func(e mElem) int {
		if e.msg != nil {
			return sm(e.msg)
		}
		return 1
	}
	sm = func(m *mMsg) int {
		if n, ok := memoM[m]; ok {
			return n
		}
		memoM[m] = 1 << 20 // a cycle would be astronomically large
		n := 1
		for _, s := range m.known {
			switch {
			case s.msg != nil:
				n += sm(s.msg)
			case s.list != nil:
				for _, e := range s.list.elems {
					n += se(e)
				}
			case s.mp != nil:
				for _, e := range s.mp.vals {
					n += se(e)
				}
			default:
				n++
			}
			if n > 1<<20 {
				n = 1 << 20
			}
		}
		memoM[m] = n
		return n
	}
	n := 0
	switch h.kind {
	case 'm':
		n = sm(h.msg)
	case 'l':
		for _, e := range h.list.elems {
			n += se(e)
		}
	case 'p':
		for _, e := range h.mp.vals {
			n += se(e)
		}
	}
	return n
}

// problems of a content tree that legitimately make marshalling fail.
func marshalObstacles(m *mMsg) (missingRequired, badUTF8, hasExt bool) {
	seen := map[*mMsg]bool{}
	var walk func(*mMsg)
	we := func(fd protoreflect.FieldDescriptor, e mElem) {
		if e.msg != nil {
			walk(e.msg)
		} else if fd.Kind() == protoreflect.StringKind && isProto3(fd) && !utf8.ValidString(dynOfCanon(e.sc).s) {
			badUTF8 = true
		}
	}
	walk = func(m *mMsg) {
		if seen[m] {
			return
		}
		seen[m] = true
		for _, fd := range fieldsOf(m.md) {
			s := m.known[fd.Number()]
			set := isSet(fd, s)
			if !set {
				if fd.Cardinality() == protoreflect.Required {
					missingRequired = true
				}
				continue
			}
			if fd.IsExtension() {
				hasExt = true
			}
			switch {
			case fd.IsList():
				for _, e := range s.list.elems {
					we(fd, e)
				}
			case fd.IsMap():
				for k, e := range s.mp.vals {
					we(fd.MapKey(), mElem{sc: k})
					we(fd.MapValue(), e)
				}
			case s.msg != nil:
				walk(s.msg)
			default:
				we(fd, mElem{sc: s.sc})
			}
		}
	}
	walk(m)
	return
}

// ---------------------------------------------------------------- conversions and assignment

type mctx struct {
	w       *world
	lenient bool                             // the real operation succeeded: "either" values count as accepted
	ideal   bool                             // validate completely before changing anything (vs. the clear-then-fill order)
	either  func(what string, accepted bool) // told about every "either" decision (statistics)
}

func elemDyn(e mElem) dyn {
	if e.msg != nil {
		return dyn{c: cMsg, msg: e.msg}
	}
	return dynOfCanon(e.sc)
}

// iterate returns a pull function over the elements a Starlark iteration of d yields.
func iterate(d dyn) (next func() (dyn, bool), ok bool) {
	i := 0
	switch d.c {
	case cSeq:
		return func() (dyn, bool) {
			if i < len(d.elems) {
				i++
				return d.elems[i-1], true
			}
			return dyn{}, false
		}, true
	case cDict:
		return func() (dyn, bool) {
			if i < len(d.pairs) {
				i++
				return d.pairs[i-1][0], true
			}
			return dyn{}, false
		}, true
	case cListH: // live view: the length is re-read at every step
		return func() (dyn, bool) {
			if i < len(d.list.elems) {
				i++
				return elemDyn(d.list.elems[i-1]), true
			}
			return dyn{}, false
		}, true
	case cMapH: // keys in sorted order, fixed when the iteration starts
		ks := sortedKeys(d.mp.vals)
		return func() (dyn, bool) {
			if i < len(ks) {
				i++
				return dynOfCanon(ks[i-1]), true
			}
			return dyn{}, false
		}, true
	}
	return nil, false
}

func (c *mctx) convertElem(fd protoreflect.FieldDescriptor, d dyn) (mElem, error) {
	if isMsgKind(fd) {
		switch d.c {
		case cMsg:
			if d.msg.md != fd.Message() {
				return mElem{}, mfail("message of type %s for a %s slot", d.msg.md.FullName(), fd.Message().FullName())
			}
			c.w.markAlias(d.msg) // stored by reference
			return mElem{msg: d.msg}, nil
		case cDict:
			n := c.w.newMsg(fd.Message())
			if err := c.setFields(n, d.pairs); err != nil {
				return mElem{}, err
			}
			return mElem{msg: n}, nil
		}
		return mElem{}, mfail("class %c value for a message slot", d.c)
	}
	canon, v := specScalar(fd, d)
	if v == either && c.either != nil {
		c.either(fmt.Sprintf("%s<-%c", fd.Kind(), d.c), c.lenient)
	}
	if v == accept || (v == either && c.lenient) {
		return mElem{sc: canon}, nil
	}
	return mElem{}, mfail("class %c value not storable in %s", d.c, fd.Kind())
}

func (c *mctx) setFields(n *mMsg, pairs [][2]dyn) error {
	for _, p := range pairs {
		if p[0].c != cStr {
			return mfail("field name of class %c", p[0].c)
		}
		fd := n.md.Fields().ByName(protoreflect.Name(p[0].s))
		if fd == nil {
			return mfail("no field %q", p[0].s)
		}
		if err := c.setField(n, fd, p[1]); err != nil {
			return err
		}
	}
	return nil
}

// setField is msg.field = d for any field shape.
func (c *mctx) setField(n *mMsg, fd protoreflect.FieldDescriptor, d dyn) error {
	num := fd.Number()
	if d.c == cNone {
		delete(n.known, num)
		return nil
	}
	switch {
	case fd.IsList():
		next, ok := iterate(d)
		if !ok {
			return mfail("non-iterable class %c for repeated field", d.c)
		}
		if c.ideal {
			var els []mElem
			for x, more := next(); more; x, more = next() {
				e, err := c.convertElem(fd, x)
				if err != nil {
					return err
				}
				els = append(els, e)
			}
			s := n.known[num]
			if s == nil || s.list == nil {
				s = &mSlot{list: c.w.newList()}
				n.known[num] = s
			}
			s.list.elems = els
			return nil
		}
		s := n.known[num]
		if s == nil || s.list == nil {
			s = &mSlot{list: c.w.newList()}
			n.known[num] = s
		}
		s.list.elems = nil
		for x, more := next(); more; x, more = next() {
			e, err := c.convertElem(fd, x)
			if err != nil {
				return err
			}
			s.list.elems = append(s.list.elems, e)
		}
		return nil

	case fd.IsMap():
		if d.c != cDict && d.c != cMapH {
			return mfail("non-mapping class %c for map field", d.c)
		}
		next, _ := iterate(d)
		get := func(k dyn) dyn {
			if d.c == cDict {
				for _, p := range d.pairs {
					if sameDictKey(p[0], k) {
						return p[1]
					}
				}
				return dyn{c: cNone}
			}
			return elemDyn(d.mp.vals[mapKeyCanonOf(k)])
		}
		var keys []dyn
		for k, more := next(); more; k, more = next() {
			keys = append(keys, k)
		}
		fill := func(m *mMap) error {
			for _, k := range keys {
				kc, err := c.convertElem(fd.MapKey(), k)
				if err != nil {
					return err
				}
				vc, err := c.convertElem(fd.MapValue(), get(k))
				if err != nil {
					return err
				}
				m.vals[kc.sc] = vc
			}
			return nil
		}
		m := c.w.newMap()
		if c.ideal {
			if err := fill(m); err != nil {
				return err
			}
			n.known[num] = &mSlot{mp: m}
			return nil
		}
		n.known[num] = &mSlot{mp: m}
		return fill(m)

	case isMsgKind(fd):
		e, err := c.convertElem(fd, d)
		if err != nil {
			return err
		}
		n.known[num] = &mSlot{msg: e.msg}
		return nil
	}
	e, err := c.convertElem(fd, d)
	if err != nil {
		return err
	}
	n.known[num] = &mSlot{sc: e.sc}
	return nil
}

// sameDictKey: Starlark dict key equality for the key classes used in cases.
func sameDictKey(a, b dyn) bool { return dictKeyID(a) == dictKeyID(b) }

func dictKeyID(d dyn) string {
	switch d.c {
	case cInt:
		return "n:" + d.i.String()
	case cFloat:
		if d.f == float64(int64(d.f)) && d.f > -1e15 && d.f < 1e15 {
			return "n:" + big.NewInt(int64(d.f)).String() // 1.0 == 1 as a dict key
		}
		return canonFloat(d.f)
	case cBool:
		return canonBool(d.o)
	case cStr:
		return canonStr(d.s)
	case cBytes:
		return canonBytes(d.s)
	case cEnum:
		return canonEnum(d.s, d.num)
	case cNone:
		return "none"
	case cMsg:
		return fmt.Sprintf("m:%d", d.msg.id)
	}
	return fmt.Sprintf("?%c", d.c)
}

// mapKeyCanonOf: the canonical form of a key that came out of a MapField (already valid).
func mapKeyCanonOf(d dyn) string {
	switch d.c {
	case cInt:
		return canonInt(d.i)
	case cBool:
		return canonBool(d.o)
	case cStr:
		return canonStr(d.s)
	}
	return "?"
}

// shallowCopy is Message(src): a new message whose populated fields share src's values.
func (c *mctx) shallowCopy(md protoreflect.MessageDescriptor, src *mMsg) (*mMsg, error) {
	if src.md != md {
		return nil, mfail("copy of %s as %s", src.md.FullName(), md.FullName())
	}
	n := c.w.newMsg(md)
	for _, fd := range fieldsOf(md) {
		s := src.known[fd.Number()]
		if !isSet(fd, s) {
			continue
		}
		n.known[fd.Number()] = &mSlot{sc: s.sc, msg: s.msg, list: s.list, mp: s.mp}
		if s.msg != nil {
			c.w.markCopy(s.msg)
		}
		if s.list != nil {
			c.w.markCopy(s.list)
		}
		if s.mp != nil {
			c.w.markCopy(s.mp)
		}
	}
	return n, nil
}

// normalizedCopy is what unmarshal(marshal(m)) must produce: the same content, nothing shared,
// unpopulated fields absent.
func (w *world) normalizedCopy(m *mMsg, stripExt bool) *mMsg {
	n := w.newMsg(m.md)
	ce := func(e mElem) mElem {
		if e.msg != nil {
			return mElem{msg: w.normalizedCopy(e.msg, stripExt)}
		}
		return e
	}
	for _, fd := range fieldsOf(m.md) {
		s := m.known[fd.Number()]
		if !isSet(fd, s) || (stripExt && fd.IsExtension()) {
			continue
		}
		switch {
		case fd.IsList():
			l := w.newList()
			for _, e := range s.list.elems {
				l.elems = append(l.elems, ce(e))
			}
			n.known[fd.Number()] = &mSlot{list: l}
		case fd.IsMap():
			mp := w.newMap()
			for k, e := range s.mp.vals {
				mp.vals[k] = ce(e)
			}
			n.known[fd.Number()] = &mSlot{mp: mp}
		case s.msg != nil:
			n.known[fd.Number()] = &mSlot{msg: w.normalizedCopy(s.msg, stripExt)}
		default:
			n.known[fd.Number()] = &mSlot{sc: s.sc}
		}
	}
	return n
}

// viewOf is h.field for composite fields: an aliasing wrapper in h's group when the field is
// populated, otherwise a fresh frozen default.
func (w *world) viewOf(h *handle, fd protoreflect.FieldDescriptor) *handle {
	s := h.msg.known[fd.Number()]
	set := isSet(fd, s)
	switch {
	case fd.IsList():
		if set {
			return &handle{kind: 'l', list: s.list, flag: h.flag, fd: fd}
		}
		return &handle{kind: 'l', list: &mList{id: w.id(), immutable: true}, flag: &flagT{true}, fd: fd}
	case fd.IsMap():
		if set {
			return &handle{kind: 'p', mp: s.mp, flag: h.flag, fd: fd}
		}
		return &handle{kind: 'p', mp: &mMap{id: w.id(), immutable: true, vals: map[string]mElem{}}, flag: &flagT{true}, fd: fd}
	default:
		if set {
			return &handle{kind: 'm', msg: s.msg, flag: h.flag}
		}
		return &handle{kind: 'm', msg: w.newMsg(fd.Message()), flag: &flagT{true}}
	}
}
