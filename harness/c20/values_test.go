package c20

// Values as they appear in (JSON) cases, their Starlark form, their model form (dyn), and the
// acceptance rule of a field kind: which Starlark values a field of each kind must store, must
// refuse, or may do either with (where the package documentation is silent).

import (
	"encoding/hex"
	"fmt"
	"math"
	"math/big"
	"strconv"
	"strings"
	"unicode/utf8"

	"go.starlark.net/starlark"
	"google.golang.org/protobuf/reflect/protoreflect"
)

// Val is a JSON-serialisable description of a Starlark value.
type Val struct {
	T string `json:"t"`           // int float str bytes bool none enumval list tuple dict msg handle fielddesc func enumtype
	I string `json:"i,omitempty"` // int: decimal; float: nan, +inf, -inf, or strconv 'g' form
	B []byte `json:"b,omitempty"` // str / bytes payload (arbitrary bytes)
	O bool   `json:"o,omitempty"` // bool payload
	E string `json:"e,omitempty"` // enumval: "Color.GREEN"; msg: message type name (All, Leaf, T, P2)
	L []Val  `json:"l,omitempty"` // list/tuple elements; dict and msg: alternating key, value
	H int    `json:"h,omitempty"` // handle selector
}

func vInt(s string) Val   { return Val{T: "int", I: s} }
func vI(i int64) Val      { return Val{T: "int", I: strconv.FormatInt(i, 10)} }
func vStr(s string) Val   { return Val{T: "str", B: []byte(s)} }
func vBytes(s string) Val { return Val{T: "bytes", B: []byte(s)} }
func vBool(b bool) Val    { return Val{T: "bool", O: b} }
func vFloat(s string) Val { return Val{T: "float", I: s} }
func vEnum(s string) Val  { return Val{T: "enumval", E: s} }
func vList(l ...Val) Val  { return Val{T: "list", L: l} }
func vTuple(l ...Val) Val { return Val{T: "tuple", L: l} }
func vDict(l ...Val) Val  { return Val{T: "dict", L: l} }
func vMsg(typ string, kv ...Val) Val {
	return Val{T: "msg", E: typ, L: kv}
}
func vHandle(h int) Val { return Val{T: "handle", H: h} }

var vNone = Val{T: "none"}

func (v Val) String() string {
	switch v.T {
	case "int", "float":
		return v.T + "(" + v.I + ")"
	case "str":
		return fmt.Sprintf("%q", string(v.B))
	case "bytes":
		return fmt.Sprintf("b%q", string(v.B))
	case "bool":
		return fmt.Sprint(v.O)
	case "enumval":
		return v.E
	case "list", "tuple", "dict":
		var parts []string
		for _, x := range v.L {
			parts = append(parts, x.String())
		}
		return v.T + "[" + strings.Join(parts, ",") + "]"
	case "msg":
		var parts []string
		for _, x := range v.L {
			parts = append(parts, x.String())
		}
		return v.E + "(" + strings.Join(parts, ",") + ")"
	case "handle":
		return fmt.Sprintf("h%d", v.H)
	}
	return v.T
}

func parseFloat(s string) float64 {
	switch s {
	case "nan":
		return math.NaN()
	case "+inf":
		return math.Inf(1)
	case "-inf":
		return math.Inf(-1)
	}
	f, err := strconv.ParseFloat(s, 64)
	if err != nil {
		panic("bad float in case: " + s)
	}
	return f
}

func fmtFloat(f float64) string {
	switch {
	case math.IsNaN(f):
		return "nan"
	case math.IsInf(f, 1):
		return "+inf"
	case math.IsInf(f, -1):
		return "-inf"
	}
	return strconv.FormatFloat(f, 'g', -1, 64)
}

// ---------------------------------------------------------------- dyn: the model's view of a Starlark value

// dyn classes.
const (
	cInt   = 'i'
	cFloat = 'f'
	cBool  = 'o'
	cStr   = 's'
	cBytes = 'b'
	cEnum  = 'e'
	cNone  = 'n'
	cMsg   = 'm'
	cSeq   = 'L' // list, tuple: iterable, not a mapping
	cDict  = 'D' // dict: iterable (keys) and mapping
	cListH = 'R' // RepeatedField handle
	cMapH  = 'M' // MapField handle
	cOther = 'x'
)

type dyn struct {
	c     byte
	i     *big.Int
	f     float64
	s     string // str/bytes payload; enum: full name of the enum type
	o     bool
	num   int32 // enum number
	msg   *mMsg
	elems []dyn    // cSeq
	pairs [][2]dyn // cDict (deduplicated, insertion order)
	list  *mList   // cListH
	mp    *mMap    // cMapH
}

// scalar canon <-> dyn.  Canonical forms: i:<dec>  f:<16 hex digits|nan>  o:true|false  s:<hex>  b:<hex>
// e:<enum full name>:<number>
func canonInt(i *big.Int) string { return "i:" + i.String() }
func canonFloat(f float64) string {
	if math.IsNaN(f) {
		return "f:nan"
	}
	return fmt.Sprintf("f:%016x", math.Float64bits(f))
}
func canonBool(b bool) string    { return fmt.Sprintf("o:%v", b) }
func canonStr(s string) string   { return "s:" + hex.EncodeToString([]byte(s)) }
func canonBytes(s string) string { return "b:" + hex.EncodeToString([]byte(s)) }
func canonEnum(enum string, n int32) string {
	return fmt.Sprintf("e:%s:%d", enum, n)
}

func dynOfCanon(c string) dyn {
	body := c[2:]
	switch c[0] {
	case cInt:
		i, ok := new(big.Int).SetString(body, 10)
		if !ok {
			panic("bad canon " + c)
		}
		return dyn{c: cInt, i: i}
	case cFloat:
		if body == "nan" {
			return dyn{c: cFloat, f: math.NaN()}
		}
		u, err := strconv.ParseUint(body, 16, 64)
		if err != nil {
			panic("bad canon " + c)
		}
		return dyn{c: cFloat, f: math.Float64frombits(u)}
	case cBool:
		return dyn{c: cBool, o: body == "true"}
	case cStr, cBytes:
		b, err := hex.DecodeString(body)
		if err != nil {
			panic("bad canon " + c)
		}
		return dyn{c: c[0], s: string(b)}
	case cEnum:
		k := strings.LastIndexByte(body, ':')
		n, err := strconv.ParseInt(body[k+1:], 10, 32)
		if err != nil {
			panic("bad canon " + c)
		}
		return dyn{c: cEnum, s: body[:k], num: int32(n)}
	}
	panic("bad canon " + c)
}

// ---------------------------------------------------------------- acceptance rule

type verdict int

const (
	reject verdict = iota
	accept
	either // the documentation does not decide; if accepted, the stored value must be the canon given
)

var (
	minI32 = big.NewInt(math.MinInt32)
	maxI32 = big.NewInt(math.MaxInt32)
	maxU32 = big.NewInt(math.MaxUint32)
	minI64 = big.NewInt(math.MinInt64)
	maxI64 = big.NewInt(math.MaxInt64)
	maxU64 = new(big.Int).SetUint64(math.MaxUint64)
	zero   = big.NewInt(0)
)

func intRange(k protoreflect.Kind) (lo, hi *big.Int, ok bool) {
	switch k {
	case protoreflect.Int32Kind, protoreflect.Sint32Kind, protoreflect.Sfixed32Kind:
		return minI32, maxI32, true
	case protoreflect.Uint32Kind, protoreflect.Fixed32Kind:
		return zero, maxU32, true
	case protoreflect.Int64Kind, protoreflect.Sint64Kind, protoreflect.Sfixed64Kind:
		return minI64, maxI64, true
	case protoreflect.Uint64Kind, protoreflect.Fixed64Kind:
		return zero, maxU64, true
	}
	return nil, nil, false
}

func bigToFloat64(i *big.Int) float64 {
	f, _ := new(big.Float).SetPrec(4096).SetInt(i).Float64() // nearest even; +-Inf on overflow
	return f
}

func isProto3(fd protoreflect.FieldDescriptor) bool {
	return fd.ParentFile().Syntax() == protoreflect.Proto3
}

// specScalar decides what storing d into a slot of fd's (non-message) kind must do.
// It is written from the field kinds' definitions, not from toProto.
func specScalar(fd protoreflect.FieldDescriptor, d dyn) (string, verdict) {
	k := fd.Kind()
	if lo, hi, ok := intRange(k); ok {
		// An int field stores exactly the Starlark ints of its range; bool and float are not ints.
		if d.c == cInt && d.i.Cmp(lo) >= 0 && d.i.Cmp(hi) <= 0 {
			return canonInt(d.i), accept
		}
		return "", reject
	}
	switch k {
	case protoreflect.BoolKind:
		if d.c == cBool {
			return canonBool(d.o), accept
		}
	case protoreflect.DoubleKind:
		switch d.c {
		case cFloat:
			return canonFloat(d.f), accept
		case cInt: // int for a float field: undocumented leniency
			return canonFloat(bigToFloat64(d.i)), either
		}
	case protoreflect.FloatKind:
		switch d.c {
		case cFloat:
			r := float64(float32(d.f))
			if math.IsInf(r, 0) && !math.IsInf(d.f, 0) {
				return canonFloat(r), either // finite value beyond the float32 range
			}
			return canonFloat(r), accept // rounding to the field's precision is inherent
		case cInt:
			return canonFloat(float64(float32(bigToFloat64(d.i)))), either
		}
	case protoreflect.StringKind:
		switch d.c {
		case cStr:
			if !utf8.ValidString(d.s) && isProto3(fd) {
				return canonStr(d.s), either // not a valid proto3 string value
			}
			return canonStr(d.s), accept
		case cBytes:
			return canonStr(d.s), either
		}
	case protoreflect.BytesKind:
		switch d.c {
		case cBytes:
			return canonBytes(d.s), accept
		case cStr:
			return canonBytes(d.s), either
		}
	case protoreflect.EnumKind:
		ed := fd.Enum()
		switch d.c {
		case cInt:
			if d.i.Cmp(minI32) >= 0 && d.i.Cmp(maxI32) <= 0 {
				if v := ed.Values().ByNumber(protoreflect.EnumNumber(d.i.Int64())); v != nil {
					return canonEnum(string(ed.FullName()), int32(v.Number())), accept
				}
			}
		case cStr:
			if v := ed.Values().ByName(protoreflect.Name(d.s)); v != nil {
				return canonEnum(string(ed.FullName()), int32(v.Number())), accept
			}
		case cEnum:
			if d.s == string(ed.FullName()) {
				return canonEnum(d.s, d.num), accept
			}
		}
	}
	return "", reject
}

// defaultCanon is the value an unset scalar field reads as.
func defaultCanon(fd protoreflect.FieldDescriptor) string {
	k := fd.Kind()
	if _, _, ok := intRange(k); ok {
		switch k {
		case protoreflect.Uint32Kind, protoreflect.Fixed32Kind, protoreflect.Uint64Kind, protoreflect.Fixed64Kind:
			return canonInt(new(big.Int).SetUint64(fd.Default().Uint()))
		}
		return canonInt(big.NewInt(fd.Default().Int()))
	}
	switch k {
	case protoreflect.BoolKind:
		return canonBool(fd.Default().Bool())
	case protoreflect.FloatKind, protoreflect.DoubleKind:
		return canonFloat(fd.Default().Float())
	case protoreflect.StringKind:
		return canonStr(fd.Default().String())
	case protoreflect.BytesKind:
		return canonBytes(string(fd.Default().Bytes()))
	case protoreflect.EnumKind:
		return canonEnum(string(fd.Enum().FullName()), int32(fd.Default().Enum()))
	}
	panic("defaultCanon: " + k.String())
}

// isZeroCanon reports whether a stored scalar equals the proto3 zero value (implicit presence).
func isZeroCanon(c string) bool {
	switch c[0] {
	case cInt:
		return c == "i:0"
	case cFloat:
		return c == "f:0000000000000000"
	case cBool:
		return c == "o:false"
	case cStr, cBytes:
		return len(c) == 2
	case cEnum:
		return strings.HasSuffix(c, ":0")
	}
	return false
}

// ---------------------------------------------------------------- Val -> Starlark

func enumValue(name string) (starlark.Value, bool) {
	k := strings.IndexByte(name, '.')
	if k < 0 {
		return nil, false
	}
	var ctor starlark.Value
	switch name[:k] {
	case "Color":
		ctor = enumCtor(edColor)
	case "Other":
		ctor = enumCtor(edOther)
	case "LeafColor":
		ctor = enumCtor(edLeafC)
	case "E2":
		ctor = enumCtor(edE2)
	default:
		return nil, false
	}
	v, err := ctor.(starlark.HasAttrs).Attr(name[k+1:])
	if err != nil || v == nil {
		return nil, false
	}
	return v, true
}

func enumByName(name string) protoreflect.EnumDescriptor {
	switch name {
	case "Color":
		return edColor
	case "Other":
		return edOther
	case "LeafColor":
		return edLeafC
	case "E2":
		return edE2
	}
	return nil
}

func msgDescByName(name string) protoreflect.MessageDescriptor {
	switch name {
	case "All":
		return mdAll
	case "Leaf":
		return mdLeaf
	case "T":
		return mdT
	case "P2":
		return mdP2
	case "G":
		return mdP2.Messages().ByName("G")
	case "RG":
		return mdP2.Messages().ByName("RG")
	}
	return nil
}

// errUnbuildable marks a case value that cannot be materialised (e.g. unhashable dict key).
type errUnbuildable struct{ why string }

func (e errUnbuildable) Error() string { return "unbuildable value: " + e.why }
