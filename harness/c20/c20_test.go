// C20: protocol messages stay well-typed, lossless and respect freezing.
//
// One interpreter (engine_test.go) runs a case — a list of operations on a pool of <= 4 message
// variables plus views — against lib/proto and against a reference model (model_test.go: an object
// graph with explicit sharing and wrapper groups with one frozen flag each).  Two generators feed it:
//
//	grid      exhaustive: field kind x position x value (TestPropGrid), short cases on message All / P2
//	history   rapid state machine on the recursive message T (TestPropHistory)
//	lossless  rapid: uniformly random 32/64-bit ints, strings, bytes, floats at every position of All, then
//	          two chained binary/text round trips (TestPropLossless)
//
// Descriptors are built in schema_test.go with descriptorpb + protodesc.
package c20

import (
	"fmt"
	"math/big"
	"strings"
	"testing"

	"pgregory.net/rapid"
	"verif/harness/vk"
)

func TestMain(m *testing.M) {
	vk.Describe("grid: every field kind (15 scalar kinds, enum, message) x position (attribute, constructor keyword, constructor dict, "+
		"nested dict, r[i]=, append, whole-list assignment, list in constructor, map value (new key / overwrite), whole-map assignment, map key, "+
		"map key in whole-map assignment, proto.set_field on singular and repeated fields, unsupported extend/insert/+=, proto2 fields with "+
		"defaults/groups/required, proto2 extensions through set_field) x ~60 values (min-1, min, max, max+1 of every integer width, 0, bool, "+
		"integral and non-integral floats, NaN, +-inf, strings incl. invalid UTF-8 and enum names, bytes, None, list, tuple, dict, messages of the "+
		"right and of a foreign type, enum values of the right and of a foreign enum, descriptors, a function). "+
		"lossless: uniformly random 32/64-bit integers, strings, bytes, floats written to singular/repeated/map-value/map-key positions and carried through two round trips. "+
		"history: rapid-generated sequences of construct (kwargs/dict/copy)/assign/alias/view/element/freeze/mutate/marshal-unmarshal operations. "+
		"After every step: the operation returned or failed (a recovered Go panic is a violation); every handle is read back completely through the "+
		"Starlark API with a type+range check of every value, and again from the wrapped protoreflect message, and must equal the model; a failed "+
		"step changed nothing; the printed form of every frozen handle equals the one captured when it was frozen; binary and text round trips "+
		"reproduce the model. Non-trivial = a history with a freeze followed by a mutation attempt through a different handle that shares the flag "+
		"or the content of a frozen one, or a grid case with a range-boundary value at a repeated/map position; distinct by canonical case string.",
		"model of sharing written from the package documentation: message assignment aliases, Message(m) is a shallow copy, repeated/map assignment copies, unset composite fields read as frozen defaults",
		"where the documentation is silent the check accepts either outcome but requires the natural stored value: int for float/double fields, string for bytes, bytes for string, invalid UTF-8 in a proto3 string, finite double beyond the float32 range for a float field",
		"operations that would make a message contain itself are skipped (the package documents that cycles are not defended against; printing one overflows the stack)",
		"undocumented methods (extend, insert, +=, update, pop, clear) must fail without changing anything; if one succeeds the case is cut there and a note is recorded",
		"enum fields: only declared numbers/names/values of the same enum are storable (the Starlark representation is the EnumValueDescriptor)",
		"marshal of a message with a missing required field may fail; unknown enum numbers arriving by unmarshal are not generated")
	vk.Main(m, "C20")
}

func checkCase(sub string) func(Case) error {
	return func(c Case) error {
		e, err := run(c)
		classify := func(outcome string) {
			if c.Pos != "" {
				vk.S.Class("grid:pos:" + c.Pos)
				vk.S.Class("grid:kind:" + c.Kind)
				vk.S.Class("grid:" + outcome)
			} else {
				vk.S.Class(sub + ":" + outcome)
				vk.S.ClassN(sub+":steps-executed", e.steps)
			}
			for k := range e.classes {
				vk.S.Class(sub + ":" + k)
			}
			for k, n := range e.counts {
				vk.S.ClassN(sub+":"+k, n)
			}
		}
		if err != nil {
			classify("violation")
			return err
		}
		nt := false
		if c.Pos != "" {
			nt = c.Bound && repeatedOrMapPos[c.Pos]
		} else {
			if e.froze {
				vk.S.Class(sub + ":has-freeze")
			}
			nt = e.crossMutate
		}
		if nt {
			vk.S.Class(sub + ":non-trivial")
			vk.S.NonTrivial(caseKey(c))
		}
		if v := e.verdict(); v != nil {
			classify("known-finding")
			vk.S.Sample(sub, "known-finding", c)
			return v
		}
		classify("clean")
		if nt {
			vk.S.Sample(sub, "non-trivial", c)
		}
		return nil
	}
}

func caseKey(c Case) string {
	var sb strings.Builder
	for _, o := range c.Ops {
		sb.WriteString(o.String())
		sb.WriteByte(';')
	}
	return sb.String()
}

var (
	subGrid     = vk.Register("grid", checkCase("grid"))
	subHistory  = vk.Register("history", checkCase("history"))
	subLossless = vk.Register("lossless", checkCase("lossless"))
)

// ---------------------------------------------------------------- grid

type namedVal struct {
	name string
	v    Val
}

var universe = []namedVal{
	{"0", vI(0)}, {"1", vI(1)}, {"-1", vI(-1)}, {"-2", vI(-2)}, {"3", vI(3)}, {"5", vI(5)},
	{"i32min-1", vInt("-2147483649")}, {"i32min", vInt("-2147483648")}, {"i32max", vInt("2147483647")}, {"i32max+1", vInt("2147483648")},
	{"u32max", vInt("4294967295")}, {"u32max+1", vInt("4294967296")},
	{"i64min-1", vInt("-9223372036854775809")}, {"i64min", vInt("-9223372036854775808")},
	{"i64max", vInt("9223372036854775807")}, {"i64max+1", vInt("9223372036854775808")},
	{"u64max", vInt("18446744073709551615")}, {"u64max+1", vInt("18446744073709551616")},
	{"2^100", vInt("1267650600228229401496703205376")}, {"-2^100", vInt("-1267650600228229401496703205376")},
	{"True", vBool(true)}, {"False", vBool(false)},
	{"0.0", vFloat("0")}, {"1.0", vFloat("1")}, {"1.5", vFloat("1.5")}, {"-0.0", vFloat("-0")}, {"0.1", vFloat("0.1")},
	{"nan", vFloat("nan")}, {"+inf", vFloat("+inf")}, {"-inf", vFloat("-inf")},
	{"f32max", vFloat("3.4028234663852886e+38")}, {"1e39", vFloat("1e39")}, {"2^31.0", vFloat("2147483648")}, {"-1e100", vFloat("-1e100")},
	{"str-empty", vStr("")}, {"str-abc", vStr("abc")}, {"str-utf8", vStr("héllo 世")}, {"str-invalid-utf8", vStr("\xff\xfeab")},
	{"str-nul", vStr("a\x00b")}, {"str-RED", vStr("RED")}, {"str-BIG", vStr("BIG")}, {"str-NOPE", vStr("NOPE")}, {"str-B", vStr("B")},
	{"bytes-empty", vBytes("")}, {"bytes-ab", vBytes("ab")}, {"bytes-ff00", vBytes("\xff\x00")},
	{"None", vNone},
	{"list-1", vList(vI(1))}, {"list-empty", vList()}, {"tuple-1", vTuple(vI(1))},
	{"dict-empty", vDict()}, {"dict-f_int32", vDict(vStr("f_int32"), vI(7))}, {"dict-bad-value", vDict(vStr("f_int32"), vStr("x"))},
	{"dict-no-field", vDict(vStr("nope"), vI(1))}, {"dict-x", vDict(vStr("x"), vI(1))}, {"dict-int-key", vDict(vI(1), vI(1))},
	{"msg-All", vMsg("All", vStr("f_int32"), vI(3))}, {"msg-Leaf", vMsg("Leaf", vStr("x"), vI(1))}, {"msg-P2", vMsg("P2", vStr("req"), vI(4))},
	{"Color.GREEN", vEnum("Color.GREEN")}, {"Color.BIG", vEnum("Color.BIG")}, {"Color.SMALL", vEnum("Color.SMALL")},
	{"Other.Y", vEnum("Other.Y")}, {"Other.Z", vEnum("Other.Z")}, {"E2.B", vEnum("E2.B")},
	{"LeafColor.TEAL", vEnum("LeafColor.TEAL")}, {"LeafColor.ODD", vEnum("LeafColor.ODD")}, {"LeafColor.NAVY", vEnum("LeafColor.NAVY")},
	{"fielddesc", Val{T: "fielddesc"}}, {"func", Val{T: "func"}}, {"enumtype", Val{T: "enumtype"}}, {"msgtype", Val{T: "msgtype"}},
}

var repeatedOrMapPos = map[string]bool{"elem": true, "append": true, "listassign": true, "listkw": true, "mapval": true, "mapval-ow": true,
	"mapassign": true, "mapkey": true, "mapkeyassign": true, "set_field_rep": true, "p2": false}

// boundaries of a kind among the universe names.
func isBoundary(kind, name string) bool {
	b := map[string][]string{
		"int32": {"i32min-1", "i32min", "i32max", "i32max+1"}, "sint32": {"i32min-1", "i32min", "i32max", "i32max+1"},
		"sfixed32": {"i32min-1", "i32min", "i32max", "i32max+1"},
		"uint32":   {"-1", "0", "u32max", "u32max+1"}, "fixed32": {"-1", "0", "u32max", "u32max+1"},
		"int64": {"i64min-1", "i64min", "i64max", "i64max+1"}, "sint64": {"i64min-1", "i64min", "i64max", "i64max+1"},
		"sfixed64": {"i64min-1", "i64min", "i64max", "i64max+1"},
		"uint64":   {"-1", "0", "u64max", "u64max+1"}, "fixed64": {"-1", "0", "u64max", "u64max+1"},
		"float": {"f32max", "1e39", "+inf", "-inf", "nan"}, "double": {"+inf", "-inf", "nan", "-1e100"},
		"enum":   {"i32max", "i32min", "i32max+1", "i32min-1", "Color.BIG", "Color.SMALL"},
		"string": {"str-empty", "str-invalid-utf8"}, "bytes": {"bytes-empty", "bytes-ff00"}, "bool": {"0", "1"},
	}
	for _, n := range b[kind] {
		if n == name {
			return true
		}
	}
	return false
}

func baseline(kind string) (b0, b1 Val) {
	switch kind {
	case "float", "double":
		return vFloat("1.5"), vFloat("2.5")
	case "bool":
		return vBool(true), vBool(true)
	case "string":
		return vStr("b0"), vStr("b1")
	case "bytes":
		return vBytes("b0"), vBytes("b1")
	case "enum":
		return vEnum("Color.GREEN"), vEnum("Color.BLUE")
	case "msg":
		return vDict(vStr("f_int32"), vI(1)), vDict(vStr("f_int32"), vI(2))
	}
	return vI(1), vI(2)
}

func baselineKey(kind string) Val {
	switch kind {
	case "bool":
		return vBool(true)
	case "string":
		return vStr("a")
	}
	return vI(1)
}

var gridPositions = []string{"attr", "attr-vm", "kwarg", "dictarg", "subdict", "elem", "append", "listassign", "listkw", "mapval", "mapval-ow",
	"mapassign", "set_field", "set_field_rep", "extend", "insert", "iadd", "iaddf", "proto3opt"}

func pv(v Val) *Val { return &v }

// gridCase builds the operations of one grid point (nil if the position does not apply).
func gridCase(kind, pos string, nv namedVal) *Case {
	b0, b1 := baseline(kind)
	v := nv.v
	f, r, mv, mk := "f_"+kind, "r_"+kind, "mv_"+kind, "mk_"+kind
	newAll := func(kv ...Val) Op { return Op{Op: "new", M: "All", V: pv(vDict(kv...))} }
	var ops []Op
	switch pos {
	case "attr":
		ops = []Op{newAll(vStr(f), b0), {Op: "set", F: f, V: pv(v)}}
	case "attr-vm":
		ops = []Op{newAll(vStr(f), b0), {Op: "set", F: f, V: pv(v), Star: true}}
	case "kwarg":
		ops = []Op{newAll(vStr(f), v)}
	case "dictarg":
		ops = []Op{{Op: "new", M: "All", V: pv(vDict(vStr(f), v)), Star: true}}
	case "subdict":
		ops = []Op{newAll(), {Op: "set", F: "f_msg", V: pv(vDict(vStr(f), v))}}
	case "elem":
		ops = []Op{newAll(vStr(r), vList(b0, b1)), {Op: "view", F: r}, {Op: "setidx", F: r, I: 1, V: pv(v)}, {Op: "setidx", F: r, I: -2, V: pv(v)}}
	case "append":
		ops = []Op{newAll(vStr(r), vList(b0, b1)), {Op: "view", F: r}, {Op: "append", F: r, V: pv(v)}, {Op: "append", F: r, V: pv(v), Star: true}}
	case "listassign":
		ops = []Op{newAll(vStr(r), vList(b0)), {Op: "set", F: r, V: pv(vList(b1, v))}, {Op: "set", F: r, V: pv(vTuple(v)), Star: true}}
	case "listkw":
		ops = []Op{newAll(vStr(r), vList(b0, v))}
	case "mapval":
		ops = []Op{newAll(vStr(mv), vDict(vStr("a"), b0)), {Op: "view", F: mv}, {Op: "setkey", F: mv, K: pv(vStr("k")), V: pv(v)}}
	case "mapval-ow":
		ops = []Op{newAll(vStr(mv), vDict(vStr("a"), b0)), {Op: "view", F: mv}, {Op: "setkey", F: mv, K: pv(vStr("a")), V: pv(v), Star: true}}
	case "mapassign":
		ops = []Op{newAll(vStr(mv), vDict(vStr("a"), b0)), {Op: "set", F: mv, V: pv(vDict(vStr("b"), b1, vStr("k"), v))}}
	case "mapkey":
		ops = []Op{newAll(vStr(mk), vDict(baselineKey(kind), vI(1))), {Op: "view", F: mk}, {Op: "setkey", F: mk, K: pv(v), V: pv(vI(7))},
			{Op: "elem", F: mk, K: pv(v)}}
	case "mapkeyassign":
		ops = []Op{newAll(vStr(mk), vDict(baselineKey(kind), vI(1))), {Op: "set", F: mk, V: pv(vDict(v, vI(7)))}}
	case "set_field":
		ops = []Op{newAll(vStr(f), b0), {Op: "setf", F: f, V: pv(v)}}
	case "set_field_rep":
		ops = []Op{newAll(vStr(r), vList(b0)), {Op: "setf", F: r, V: pv(vList(b1, v)), Star: true}}
	case "extend", "insert":
		ops = []Op{newAll(vStr(r), vList(b0, b1)), {Op: "view", F: r}, {Op: "bad", F: pos, V: pv(vList(v))}}
		if pos == "insert" {
			ops[2].V = pv(v)
		}
	case "iadd":
		ops = []Op{newAll(vStr(r), vList(b0, b1)), {Op: "view", F: r}, {Op: "bad", F: "iadd", V: pv(vList(v))}}
	case "iaddf":
		ops = []Op{newAll(vStr(r), vList(b0, b1)), {Op: "bad", F: "iadd__" + r, V: pv(vList(v))}}
	case "proto3opt":
		if kind != "int32" && kind != "string" {
			return nil
		}
		o := "o_" + kind
		z := vI(0)
		if kind == "string" {
			z = vStr("")
		}
		ops = []Op{newAll(), {Op: "set", F: o, V: pv(v)}, {Op: "set", F: o, V: pv(z), Star: true}, {Op: "rt"}, {Op: "set", F: o, V: pv(vNone)}}
	default:
		return nil
	}
	return &Case{Ops: ops, Kind: kind, Pos: pos, Value: nv.name, Bound: isBoundary(kind, nv.name)}
}

var p2Fields = []string{"req", "oi", "os", "ob", "oe", "od", "obl", "ou", "oz", "g", "rg", "rec", "of", "ri", "plain_e", "plain_s"}
var p2Exts = []string{"ext_i32", "ext_s", "ext_ru", "ext_m", "ext_e", "ext_b"}

func TestPropGrid(t *testing.T) {
	vk.S.SetExhaustive("grid", true)
	vk.Enum(t, subGrid, func(yield func(Case) bool) {
		n := 0
		emit := func(c *Case) bool {
			if c == nil {
				return true
			}
			n++
			if !vk.Mine(n) {
				return true
			}
			return yield(*c)
		}
		for _, kind := range allKinds {
			for _, pos := range gridPositions {
				for _, nv := range universe {
					if !emit(gridCase(kind, pos, nv)) {
						return
					}
				}
			}
		}
		for _, k := range scalarKinds {
			if !k.Key {
				continue
			}
			for _, pos := range []string{"mapkey", "mapkeyassign"} {
				for _, nv := range universe {
					if !emit(gridCase(k.Name, pos, nv)) {
						return
					}
				}
			}
		}
		// proto2: defaults, required, groups, closed enum; extensions through set_field.
		for _, f := range p2Fields {
			for _, nv := range universe {
				for _, star := range []bool{false, true} {
					c := &Case{Kind: "p2." + f, Pos: "p2", Value: nv.name, Ops: []Op{
						{Op: "new", M: "P2", V: pv(vDict(vStr("req"), vI(1), vStr("oi"), vI(0)))},
						{Op: "set", F: f, V: pv(nv.v), Star: star},
						{Op: "set", F: f, V: pv(vNone)}}}
					if !emit(c) {
						return
					}
				}
			}
		}
		for _, f := range p2Exts {
			for _, nv := range universe {
				c := &Case{Kind: "p2." + f, Pos: "p2ext", Value: nv.name, Ops: []Op{
					{Op: "new", M: "P2", V: pv(vDict(vStr("req"), vI(1)))},
					{Op: "setf", F: f, V: pv(nv.v)},
					{Op: "setf", F: f, V: pv(vI(1)), Star: true}}}
				if !emit(c) {
					return
				}
				// the same write (and a clear) through proto.set_field once the message is frozen
				fz := &Case{Kind: "p2." + f, Pos: "p2ext-frozen", Value: nv.name, Ops: []Op{
					{Op: "new", M: "P2", V: pv(vDict(vStr("req"), vI(1)))},
					{Op: "setf", F: f, V: pv(vI(1)), Star: true},
					{Op: "freeze"},
					{Op: "setf", F: f, V: pv(nv.v)},
					{Op: "setf", F: "oi", V: pv(vI(3))},
					{Op: "set", F: "oi", V: pv(vI(4))}}}
				if !emit(fz) {
					return
				}
			}
		}
	})
}

// ---------------------------------------------------------------- history generator

var (
	tScalars = []string{"i", "u", "z", "s", "b", "e", "d", "o", "w"}
	tMsgs    = []string{"sub", "sub", "leaf"}
	tLists   = []string{"ri", "rs", "rt", "rt", "re", "ru"}
	tMaps    = []string{"msi", "mis", "mst", "mst", "mbb", "mue"}
)

func pickStr(t *rapid.T, xs []string) string { return xs[vk.Uniform(t, len(xs))] }

func pickVal(t *rapid.T, xs ...Val) Val { return xs[vk.Uniform(t, len(xs))] }

// genScalar draws a value for a scalar slot named by T's field (or element/key/value of it).
func genScalar(t *rapid.T, kind string, pInvalid float64) Val {
	invalid := vk.Chance(t, pInvalid)
	switch kind {
	case "int32":
		if invalid {
			return pickVal(t, vInt("2147483648"), vInt("-2147483649"), vBool(true), vFloat("1"), vStr("1"), vNone)
		}
		return pickVal(t, vInt("2147483647"), vInt("-2147483648"), vI(0), vI(1), vI(-1), vI(int64(vk.Uniform(t, 1000))-500))
	case "uint32":
		if invalid {
			return pickVal(t, vInt("4294967296"), vI(-1), vBool(false), vFloat("2.5"), vBytes("1"))
		}
		return pickVal(t, vInt("4294967295"), vI(0), vI(1), vI(int64(vk.Uniform(t, 1000))))
	case "int64":
		if invalid {
			return pickVal(t, vInt("9223372036854775808"), vInt("-9223372036854775809"), vBool(true), vFloat("0"), vStr(""))
		}
		return pickVal(t, vInt("9223372036854775807"), vInt("-9223372036854775808"), vI(0), vI(-1), vInt("4294967296"), vI(int64(vk.Uniform(t, 1000))-500))
	case "uint64":
		if invalid {
			return pickVal(t, vInt("18446744073709551616"), vI(-1), vBool(true), vFloat("1"), vNone)
		}
		return pickVal(t, vInt("18446744073709551615"), vInt("9223372036854775808"), vI(0), vI(1), vI(int64(vk.Uniform(t, 1000))))
	case "string":
		if invalid {
			return pickVal(t, vI(1), vBool(true), vList(vStr("a")), vEnum("Color.RED"))
		}
		return pickVal(t, vStr(""), vStr("a"), vStr("b"), vStr("hé"), vStr("a\x00z"), vStr(fmt.Sprintf("s%d", vk.Uniform(t, 50))))
	case "bytes":
		if invalid {
			return pickVal(t, vI(1), vBool(true), vList(), vFloat("1"))
		}
		return pickVal(t, vBytes(""), vBytes("a"), vBytes("\xff\x00\x80"), vBytes(fmt.Sprintf("b%d", vk.Uniform(t, 50))))
	case "enum":
		if invalid {
			return pickVal(t, vI(3), vStr("NOPE"), vEnum("Other.Y"), vEnum("Other.Z"), vEnum("LeafColor.TEAL"), vEnum("LeafColor.ODD"), vInt("2147483648"), vBool(true), vFloat("1"))
		}
		return pickVal(t, vI(0), vI(1), vI(5), vI(-2), vInt("2147483647"), vInt("-2147483648"), vStr("GREEN"), vStr("BIG"), vEnum("Color.BLUE"),
			vEnum("Color.SMALL"), vEnum("Color.RED"))
	case "double":
		if invalid {
			return pickVal(t, vStr("1"), vBool(true), vBytes(""), vNone)
		}
		return pickVal(t, vFloat("0"), vFloat("-0"), vFloat("1.5"), vFloat("nan"), vFloat("+inf"), vFloat("-1e300"), vFloat("5e-324"))
	case "bool":
		if invalid {
			return pickVal(t, vI(0), vI(1), vStr("True"), vFloat("1"))
		}
		return vBool(vk.Chance(t, 0.5))
	}
	panic("genScalar " + kind)
}

var tKinds = map[string]string{"i": "int32", "u": "uint64", "z": "int64", "s": "string", "b": "bytes", "e": "enum", "d": "double", "o": "bool",
	"w": "uint32", "ri": "int64", "rs": "string", "re": "enum", "ru": "uint32", "x": "int32"}

// element kind / key kind / value kind of T's composite fields
var tElem = map[string]string{"ri": "int64", "rs": "string", "re": "enum", "ru": "uint32", "rt": "msg"}
var tMapKV = map[string][2]string{"msi": {"string", "int32"}, "mis": {"int64", "string"}, "mst": {"string", "msg"}, "mbb": {"bool", "bytes"},
	"mue": {"uint64", "enum"}}

func genKey(t *rapid.T, kind string, pInvalid float64) Val {
	if vk.Chance(t, pInvalid) {
		return genScalar(t, kind, 1)
	}
	switch kind {
	case "string":
		return pickVal(t, vStr("a"), vStr("b"), vStr("c"), vStr(""))
	case "int64":
		return pickVal(t, vI(0), vI(1), vI(-1), vInt("9223372036854775807"), vInt("-9223372036854775808"))
	case "uint64":
		return pickVal(t, vI(0), vI(1), vInt("18446744073709551615"))
	case "bool":
		return vBool(vk.Chance(t, 0.5))
	}
	return genScalar(t, kind, 0)
}

func genHandleRef(t *rapid.T) Val { return vHandle(vk.Uniform(t, 12)) }

// genMsgDict: keyword arguments / dict for a message of type T (or Leaf).
func genMsgDict(t *rapid.T, leaf bool, depth int, pInvalid float64) Val {
	var kv []Val
	if leaf {
		if vk.Chance(t, 0.7) {
			kv = append(kv, vStr("x"), genScalar(t, "int32", pInvalid))
		}
		if vk.Chance(t, 0.4) {
			kv = append(kv, vStr("s"), genScalar(t, "string", pInvalid))
		}
		return vDict(kv...)
	}
	n := vk.Uniform(t, 4)
	used := map[string]bool{}
	for i := 0; i < n; i++ {
		var f string
		switch vk.Uniform(t, 4) {
		case 0:
			f = pickStr(t, tScalars)
		case 1:
			f = pickStr(t, tMsgs)
		case 2:
			f = pickStr(t, tLists)
		default:
			f = pickStr(t, tMaps)
		}
		if used[f] {
			continue
		}
		used[f] = true
		kv = append(kv, vStr(f), genFieldVal(t, f, depth+1, pInvalid))
	}
	return vDict(kv...)
}

// genMsgVal: a value for a message slot of type T (leaf=false) or Leaf.
func genMsgVal(t *rapid.T, leaf bool, depth int, pInvalid float64) Val {
	if vk.Chance(t, pInvalid) {
		return pickVal(t, vI(1), vStr("x"), vList(), vMsg("All"), vBool(true))
	}
	r := vk.Uniform(t, 10)
	switch {
	case r < 4 && depth < 3:
		return genMsgDict(t, leaf, depth, pInvalid)
	case r < 8:
		return genHandleRef(t)
	case r < 9:
		if leaf {
			return vMsg("Leaf", vStr("x"), vI(int64(vk.Uniform(t, 9))))
		}
		return vMsg("T", vStr("i"), vI(int64(vk.Uniform(t, 9))))
	}
	return vDict()
}

func genElem(t *rapid.T, f string, depth int, pInvalid float64) Val {
	if k := tElem[f]; k != "msg" {
		return genScalar(t, k, pInvalid)
	}
	return genMsgVal(t, false, depth, pInvalid)
}

// genFieldVal draws a value to assign to field f of T as a whole.
func genFieldVal(t *rapid.T, f string, depth int, pInvalid float64) Val {
	if k, ok := tKinds[f]; ok && tElem[f] == "" {
		if vk.Chance(t, 0.06) {
			return vNone
		}
		return genScalar(t, k, pInvalid)
	}
	switch f {
	case "sub":
		if vk.Chance(t, 0.08) {
			return vNone
		}
		return genMsgVal(t, false, depth, pInvalid)
	case "leaf":
		if vk.Chance(t, 0.08) {
			return vNone
		}
		return genMsgVal(t, true, depth, pInvalid)
	}
	if _, ok := tElem[f]; ok {
		r := vk.Uniform(t, 20)
		switch {
		case r == 0:
			return vNone
		case r < 5:
			return genHandleRef(t)
		case r == 5:
			return pickVal(t, vI(1), vStr("ab"), vBytes("ab"), vBool(true))
		}
		n := vk.Uniform(t, 4)
		var els []Val
		for i := 0; i < n; i++ {
			p := 0.0
			if vk.Chance(t, pInvalid) {
				p = 1
			}
			els = append(els, genElem(t, f, depth, p))
		}
		if r == 6 {
			return vTuple(els...)
		}
		return vList(els...)
	}
	kv := tMapKV[f]
	r := vk.Uniform(t, 20)
	switch {
	case r == 0:
		return vNone
	case r < 5:
		return genHandleRef(t)
	case r == 5:
		return pickVal(t, vI(1), vList(vStr("a")), vStr("ab"))
	}
	n := vk.Uniform(t, 4)
	var els []Val
	for i := 0; i < n; i++ {
		pk, pvv := 0.0, 0.0
		if vk.Chance(t, pInvalid) {
			if vk.Chance(t, 0.5) {
				pk = 1
			} else {
				pvv = 1
			}
		}
		var v Val
		if kv[1] == "msg" {
			v = genMsgVal(t, false, depth, pvv)
		} else {
			v = genScalar(t, kv[1], pvv)
		}
		els = append(els, genKey(t, kv[0], pk), v)
	}
	return vDict(els...)
}

func anyField(t *rapid.T) string {
	switch vk.Uniform(t, 8) {
	case 0, 1:
		return pickStr(t, tScalars)
	case 2, 3:
		return pickStr(t, tMsgs)
	case 4, 5:
		return pickStr(t, tLists)
	default:
		return pickStr(t, tMaps)
	}
}

func compositeField(t *rapid.T) string {
	switch vk.Uniform(t, 3) {
	case 0:
		return pickStr(t, tMsgs)
	case 1:
		return pickStr(t, tLists)
	}
	return pickStr(t, tMaps)
}

// genOps draws one operation; writes through a view are usually preceded by taking that view.
func genOps(t *rapid.T, pInvalid float64) []Op {
	o := genOp(t, pInvalid)
	switch o.Op {
	case "setidx", "append", "setkey":
		if vk.Chance(t, 0.65) {
			v := Op{Op: "view", A: vk.Uniform(t, 12), F: o.F, Star: vk.Chance(t, 0.5)}
			o.A = recent
			return []Op{v, o}
		}
	}
	return []Op{o}
}

func genOp(t *rapid.T, pInvalid float64) Op {
	sel := func() int { return vk.Uniform(t, 12) }
	r := vk.Uniform(t, 100)
	switch {
	case r < 8:
		return Op{Op: "new", B: vk.Uniform(t, 4), V: pv(genMsgDict(t, false, 0, pInvalid)), Star: vk.Chance(t, 0.3)}
	case r < 16:
		return Op{Op: "copy", A: sel(), B: vk.Uniform(t, 4)}
	case r < 38:
		f := anyField(t)
		if vk.Chance(t, 0.05) {
			return Op{Op: "set", A: sel(), F: pickStr(t, []string{"x", "nope"}), V: pv(vI(1)), Star: vk.Chance(t, 0.5)}
		}
		return Op{Op: "set", A: sel(), F: f, V: pv(genFieldVal(t, f, 0, pInvalid)), Star: vk.Chance(t, 0.5)}
	case r < 42:
		f := anyField(t)
		o := Op{Op: "setf", A: sel(), F: f, V: pv(genFieldVal(t, f, 0, pInvalid)), Star: vk.Chance(t, 0.5)}
		if vk.Chance(t, 0.1) {
			o.M, o.F, o.V = "Leaf", "x", pv(vI(1))
		}
		return o
	case r < 56:
		return Op{Op: "view", A: sel(), F: compositeField(t), Star: vk.Chance(t, 0.5)}
	case r < 61:
		if vk.Chance(t, 0.5) {
			return Op{Op: "elem", A: sel(), F: pickStr(t, tLists), I: vk.Uniform(t, 5) - 2, Star: vk.Chance(t, 0.5)}
		}
		f := pickStr(t, tMaps)
		if vk.Chance(t, 0.5) {
			// through dict(m.f): an ordinary dict lookup, so only keys of the field's own key type (no conversion happens)
			return Op{Op: "elem", A: sel(), F: f, K: pv(genKey(t, tMapKV[f][0], 0)), Star: true, I: vk.Uniform(t, 3)}
		}
		return Op{Op: "elem", A: sel(), F: f, K: pv(genKey(t, tMapKV[f][0], pInvalid))}
	case r < 67:
		f := pickStr(t, tLists)
		return Op{Op: "setidx", A: sel(), F: f, I: vk.Uniform(t, 4) - 2, V: pv(genElem(t, f, 1, pInvalid))}
	case r < 75:
		f := pickStr(t, tLists)
		return Op{Op: "append", A: sel(), F: f, V: pv(genElem(t, f, 1, pInvalid)), Star: vk.Chance(t, 0.5)}
	case r < 84:
		f := pickStr(t, tMaps)
		kv := tMapKV[f]
		var v Val
		if kv[1] == "msg" {
			v = genMsgVal(t, false, 1, pInvalid)
		} else {
			v = genScalar(t, kv[1], pInvalid)
		}
		return Op{Op: "setkey", A: sel(), F: f, K: pv(genKey(t, kv[0], pInvalid)), V: pv(v), Star: vk.Chance(t, 0.5)}
	case r < 87:
		return Op{Op: "freeze", A: sel()}
	case r < 96:
		return Op{Op: "rt", A: sel(), B: vk.Uniform(t, 4), I: vk.Uniform(t, 2), Star: vk.Chance(t, 0.5)}
	default:
		f := pickStr(t, []string{"extend", "insert", "iadd", "update", "pop", "clear", "itermut", "itermut", "iadd__ri", "iadd__msi"})
		o := Op{Op: "bad", A: sel(), F: f, V: pv(vList(vI(1))), I: 0}
		if f == "itermut" {
			lf := pickStr(t, tLists)
			o.V = pv(genElem(t, lf, 2, 0))
			o.K = pv(vStr("a"))
		}
		return o
	}
}

// genScenario scripts the aliasing patterns the property names (copy, view, assignee, element,
// default value) with drawn participants, so that they occur often; everything else is left to
// the surrounding random operations.
func genScenario(t *rapid.T) []Op {
	a, b := vk.Uniform(t, 6), vk.Uniform(t, 6)
	last := recent
	scalarSet := func() Op {
		f := pickStr(t, []string{"i", "s", "u", "x"})
		k := tKinds[f]
		return Op{Op: "set", A: last, F: f, V: pv(genScalar(t, k, 0)), Star: vk.Chance(t, 0.5)}
	}
	freeze := func(cands ...int) Op { return Op{Op: "freeze", A: cands[vk.Uniform(t, len(cands))]} }
	var ops []Op
	switch vk.Uniform(t, 9) {
	case 8: // a value of a map-of-messages field taken out of dict(m.mst) before or after the freeze, written afterwards
		ops = []Op{{Op: "view", A: a, F: "mst"}, freeze(a), {Op: "elem", A: last, F: "mst", K: pv(vStr("a")), Star: true, I: vk.Uniform(t, 3)}, scalarSet()}
		if vk.Chance(t, 0.5) {
			ops[1], ops[2] = ops[2], ops[1]
		}
	case 7: // an element of a repeated message field, picked out of an iteration before the message is frozen, written afterwards
		ops = []Op{{Op: "view", A: a, F: "rt"}, {Op: "elem", A: last, F: "rt", I: vk.Uniform(t, 3) - 1, Star: true}, freeze(a), scalarSet()}
	case 0: // o.sub = m.sub, freeze one side, write through the other side's view
		f := pickStr(t, []string{"sub", "sub", "leaf"})
		ops = []Op{{Op: "view", A: a, F: f}, {Op: "set", A: b, F: f, V: pv(vHandle(last)), Star: true}, freeze(a, b, last),
			{Op: "view", A: pickInt(t, a, b), F: f}, scalarSet()}
	case 1: // c = M(m), freeze m (before or after), write through a view of c
		slot := vk.Uniform(t, 4)
		f := compositeField(t)
		ops = []Op{{Op: "copy", A: a, B: slot}, freeze(a), {Op: "view", A: vk.Uniform(t, 6), F: f}}
		if vk.Chance(t, 0.5) {
			ops[0], ops[1] = ops[1], ops[0]
		}
		switch {
		case tElem[f] != "":
			ops = append(ops, Op{Op: "append", A: last, F: f, V: pv(genElem(t, f, 2, 0))})
		case f == "sub" || f == "leaf":
			ops = append(ops, scalarSet())
		default:
			kv := tMapKV[f]
			v := vDict()
			if kv[1] != "msg" {
				v = genScalar(t, kv[1], 0)
			}
			ops = append(ops, Op{Op: "setkey", A: last, F: f, K: pv(genKey(t, kv[0], 0)), V: pv(v)})
		}
	case 2: // repeated messages: b.rt = a.rt copies the list but shares the elements
		ops = []Op{{Op: "view", A: a, F: "rt"}, {Op: "set", A: b, F: "rt", V: pv(vHandle(last))}, freeze(a, b),
			{Op: "view", A: pickInt(t, a, b), F: "rt"}, {Op: "elem", A: last, F: "rt", I: vk.Uniform(t, 3) - 1, Star: vk.Chance(t, 0.5)}, scalarSet()}
	case 3: // map of messages
		ops = []Op{{Op: "view", A: a, F: "mst"}, {Op: "set", A: b, F: "mst", V: pv(vHandle(last))}, freeze(a, b),
			{Op: "view", A: pickInt(t, a, b), F: "mst"}, {Op: "elem", A: last, F: "mst", K: pv(vStr("a")), Star: vk.Chance(t, 0.5), I: vk.Uniform(t, 3)}, scalarSet()}
	case 4: // the frozen default of an unset message field, assigned elsewhere
		ops = []Op{{Op: "set", A: a, F: "sub", V: pv(vNone)}, {Op: "view", A: a, F: "sub"}, {Op: "set", A: b, F: "sub", V: pv(vHandle(last))},
			{Op: "view", A: b, F: "sub"}, scalarSet()}
	case 5: // a repeated/map field assigned from its own view
		f := pickStr(t, append(append([]string{}, tLists...), tMaps...))
		ops = []Op{{Op: "view", A: a, F: f}, {Op: "set", A: a, F: f, V: pv(vHandle(last)), Star: vk.Chance(t, 0.5)}}
	default: // freeze, then try every kind of write through views taken before
		ops = []Op{{Op: "view", A: a, F: "ri"}, {Op: "view", A: a, F: "msi"}, {Op: "view", A: a, F: "sub"}, freeze(a, last, last+1, last+2),
			{Op: "append", A: last + 2, F: "ri", V: pv(vI(1))}, {Op: "setidx", A: last + 2, F: "ri", I: 0, V: pv(vI(2))},
			{Op: "setkey", A: last + 1, F: "msi", K: pv(vStr("z")), V: pv(vI(3))}, {Op: "set", A: last, F: "i", V: pv(vI(4))},
			{Op: "set", A: a, F: "i", V: pv(vI(5))}, {Op: "setf", A: a, F: "s", V: pv(vStr("q"))}}
	}
	return ops
}

func pickInt(t *rapid.T, xs ...int) int { return xs[vk.Uniform(t, len(xs))] }

func TestPropHistory(t *testing.T) {
	maxOps := vk.N(30, 60)
	vk.Rapid(t, subHistory, vk.N(2000, 6000), func(t *rapid.T) Case {
		pInvalid := []float64{0, 0.05, 0.15, 0.3}[vk.Uniform(t, 4)]
		var ops []Op
		// Start with material to alias: one or two populated variables.
		for i := 0; i < 1+vk.Uniform(t, 2); i++ {
			ops = append(ops, Op{Op: "new", B: i, V: pv(vDict(
				vStr("i"), vI(int64(i+1)),
				vStr("sub"), vDict(vStr("i"), vI(7), vStr("ri"), vList(vI(1), vI(2))),
				vStr("ri"), vList(vI(int64(10+i)), vI(20)),
				vStr("rt"), vList(vDict(vStr("s"), vStr("e0")), vDict()),
				vStr("msi"), vDict(vStr("a"), vI(1)),
				vStr("mst"), vDict(vStr("a"), vDict(vStr("i"), vI(3))),
				vStr("rs"), vList(vStr("x")), vStr("re"), vList(vI(1)), vStr("ru"), vList(vI(7)),
				vStr("mis"), vDict(vI(1), vStr("one")), vStr("mbb"), vDict(vBool(true), vBytes("t")), vStr("mue"), vDict(vI(0), vStr("BLUE"))))})
		}
		n := 3 + vk.Uniform(t, maxOps)
		for len(ops) < n {
			if vk.Chance(t, 0.12) {
				ops = append(ops, genScenario(t)...)
			} else {
				ops = append(ops, genOps(t, pInvalid)...)
			}
		}
		return Case{Ops: ops}
	})
}

// ---------------------------------------------------------------- lossless: random wide values at every position

// bits draws an n-bit unsigned integer uniformly (fair bits).
func bits(t *rapid.T, n int) *big.Int {
	x := new(big.Int)
	for i := 0; i < n; i += 16 {
		w := 16
		if n-i < 16 {
			w = n - i
		}
		x.Lsh(x, uint(w))
		x.Or(x, big.NewInt(int64(vk.Uniform(t, 1<<w))))
	}
	return x
}

// Deeply nested messages (a chain of sub-messages 50-400 levels deep carrying boundary values in its leaf) survive
// marshal/unmarshal in binary and text form like any other message.
func TestPropDeepChains(t *testing.T) {
	vk.S.SetExhaustive("sub-message-chains-50-400-deep-round-trip", true)
	vk.Enum(t, subLossless, func(yield func(Case) bool) {
		i := 0
		for _, depth := range []int{50, 99, 100, 101, 150, 400} {
			i++
			if !vk.Mine(i) {
				continue
			}
			v := vDict(vStr("i"), vInt("-2147483648"), vStr("u"), vInt("18446744073709551615"), vStr("s"), vStr("leaf"))
			for d := 0; d < depth; d++ {
				v = vDict(vStr("i"), vI(int64(d)), vStr("sub"), v)
			}
			c := Case{Kind: "deep-chain", Pos: fmt.Sprint(depth), Ops: []Op{{Op: "new", V: pv(v)}, {Op: "rt"}, {Op: "rt", Star: true}}}
			if !yield(c) {
				return
			}
		}
	})
}

func TestPropLossless(t *testing.T) {
	str := rapid.StringN(0, 12, 40)
	byt := rapid.SliceOfN(rapid.Byte(), 0, 12)
	vk.Rapid(t, subLossless, vk.N(250, 1500), func(t *rapid.T) Case {
		signed := func(n int) Val {
			x := bits(t, n)
			x.Sub(x, new(big.Int).Lsh(big.NewInt(1), uint(n-1)))
			return vInt(x.String())
		}
		unsigned := func(n int) Val { return vInt(bits(t, n).String()) }
		val := func(kind string) Val {
			switch kind {
			case "int32", "sint32", "sfixed32":
				return signed(32)
			case "uint32", "fixed32":
				return unsigned(32)
			case "int64", "sint64", "sfixed64":
				return signed(64)
			case "uint64", "fixed64":
				return unsigned(64)
			case "string":
				return vStr(str.Draw(t, "s"))
			case "bytes":
				return vBytes(string(byt.Draw(t, "b")))
			case "double":
				return vFloat(fmtFloat(rapid.Float64().Draw(t, "f")))
			case "float":
				return vFloat(fmtFloat(float64(rapid.Float32().Draw(t, "f"))))
			case "bool":
				return vBool(vk.Chance(t, 0.5))
			}
			return pickVal(t, vI(0), vI(1), vI(5), vI(-2), vInt("2147483647"), vInt("-2147483648"), vStr("GREEN"), vEnum("Color.BIG"))
		}
		kinds := []string{"int32", "sint32", "sfixed32", "uint32", "fixed32", "int64", "sint64", "sfixed64", "uint64", "fixed64", "string", "bytes",
			"double", "float", "bool", "enum"}
		var kw []Val
		var later []Op
		for _, k := range kinds {
			if vk.Chance(t, 0.35) {
				continue
			}
			kw = append(kw, vStr("f_"+k), val(k), vStr("r_"+k), vList(val(k), val(k)), vStr("mv_"+k), vDict(vStr("a"), val(k), vStr("b"), val(k)))
			key := k != "bytes" && k != "double" && k != "float" && k != "enum"
			if key {
				kw = append(kw, vStr("mk_"+k), vDict(val(k), vI(1), val(k), vI(2)))
			}
			switch vk.Uniform(t, 5) {
			case 0:
				later = append(later, Op{Op: "set", F: "f_" + k, V: pv(val(k)), Star: vk.Chance(t, 0.5)})
			case 1:
				later = append(later, Op{Op: "view", F: "r_" + k}, Op{Op: "setidx", A: recent, F: "r_" + k, I: vk.Uniform(t, 2), V: pv(val(k))},
					Op{Op: "append", A: recent, F: "r_" + k, V: pv(val(k))})
			case 2:
				later = append(later, Op{Op: "view", F: "mv_" + k}, Op{Op: "setkey", A: recent, F: "mv_" + k, K: pv(vStr("c")), V: pv(val(k))})
			case 3:
				if key {
					kv := val(k)
					later = append(later, Op{Op: "view", F: "mk_" + k}, Op{Op: "setkey", A: recent, F: "mk_" + k, K: pv(kv), V: pv(vI(3))},
						Op{Op: "elem", A: recent, F: "mk_" + k, K: pv(kv)})
				}
			}
		}
		ops := []Op{{Op: "new", M: "All", V: pv(vDict(kw...)), Star: vk.Chance(t, 0.5)}}
		ops = append(ops, later...)
		ops = append(ops, Op{Op: "rt", A: 0, B: 1, I: 1, Star: vk.Chance(t, 0.5)}, Op{Op: "rt", A: 1, B: 2, I: 1, Star: vk.Chance(t, 0.5)})
		return Case{Ops: ops}
	})
}

func TestReplay(t *testing.T) { vk.Replay(t) }
