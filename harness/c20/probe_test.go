package c20

import (
	"fmt"
	"testing"

	sproto "go.starlark.net/lib/proto"
	"go.starlark.net/starlark"
)

func run(src string) {
	defer func() {
		if r := recover(); r != nil {
			fmt.Println("   PANIC:", r)
		}
	}()
	th := newThread()
	th.Print = func(_ *starlark.Thread, s string) { fmt.Println("   " + s) }
	_, err := starlark.ExecFile(th, "p.star", src, starlark.StringDict{"proto": sproto.Module})
	if err != nil {
		fmt.Println("   err:", err)
	}
}

func TestProbe(t *testing.T) {
	pre := `
f3 = proto.file("c20/all.proto")
f2 = proto.file("c20/p2.proto")
All = f3.All
P2 = f2.P2
`
	for _, s := range []string{
		`p = P2(); print(p, p.oi, p.os, p.ob, p.oe, p.od, p.obl, p.ou, p.oz, p.g, p.rg, p.plain_e, p.of)`,
		`p = P2(); p.g = {"gx": 3}; print(p); print(proto.marshal_text(p)); p.req=1; print(proto.marshal(p))`,
		`p = P2(); print(proto.marshal(p))`,
		`p = P2(req=1); proto.set_field(p, f2.ext_i32, 5); print(p, proto.get_field(p, f2.ext_i32)); proto.set_field(p, f2.ext_ru, [1,2]); print(p)`,
		`p = P2(req=1); proto.set_field(p, f2.ext_m, {"req": 2}); print(p, proto.marshal_text(p))`,
		`p = P2(req=1); proto.set_field(p, f2.ext_e, 7); print(p)`,
		`p = P2(req=1); proto.set_field(p, f2.ext_b, "abc"); print(p)`,
		`p = P2(req=1); proto.set_field(p, f2.ext_s, b"abc"); print(p)`,
		`p = P2(req=1); print(proto.get_field(p, f2.ext_ru), proto.get_field(p, f2.ext_m), proto.get_field(p, f2.ext_s))`,
		`p = P2(req=1); p.rg = [{"rx": 1}, {}]; print(p, proto.marshal_text(p))`,
		`p = P2(req=1); p.oe = 3; print(p)`,
		`p = P2(req=1, oi=0, os=""); print(p, proto.has(p, "oi"), proto.has(p, "os")); p.oi = None; print(p, p.oi)`,
		`m = All(f_string="é"); m.f_string = b"ab"; print(m)`,
		`m = All(); m.f_float = 1e39; print(m.f_float); m.f_float = 0.1; print(m.f_float); m.f_double = 1 << 2000; print(m.f_double); m.f_float = 1<<200; print(m.f_float)`,
		`m = All(); m.o_int32 = 0; print(m, proto.has(m, "o_int32")); m.o_int32 = None; print(m)`,
		`m = All(); m.mk_bool = {True: 1}; m.mk_int64 = {1<<62: 2, -5: 3}; m.mk_uint64 = {(1<<64)-1: 2}; print(m, proto.marshal_text(m))`,
		`m = All(); m.mk_bool = {1: 1}`,
		`m = All(f_enum=5); print(m.f_enum, m.f_enum.number, m.f_enum.name); m.f_enum = f3.Other.Z; print(m)`,
		`m = All(f_enum="BIG"); print(m, proto.marshal_text(m)); m.f_enum = f3.Color("NEG"); print(m); m.f_enum = 3`,
		`m = All(r_int32=[1,2]); m.r_int32[5] = 1`,
		`m = All(r_int32=[1,2]); m.r_int32[-1] = 7; print(m); m.r_int32.extend([1])`,
		`m = All(r_int32=[1,2]); m.r_int32 += [1]`,
		`m = All(r_int32=[1,2]); m.r_int32.insert(0, 1)`,
		`m = All(r_msg=[{}, All(f_int32=1)]); print(m); m.r_msg[0].f_int32 = 5; print(m); x = m.r_msg[0]; x.f_bool = True; print(m)`,
		`m = All(mv_msg={"a": {}}); m.mv_msg["a"].f_int32 = 5; print(m)`,
		`m = All(f_string="\x80abc"); print(m)`,
		`m = All(f_bytes="abc", r_bytes=[b"x", "y"]); print(m, proto.marshal_text(m))`,
		`m = All(f_msg = All()); print(m, proto.has(m, "f_msg"), proto.marshal(m)); m2 = proto.unmarshal(All, proto.marshal(m)); print(m2, proto.has(m2, "f_msg"))`,
		`m = All(f_float = float("nan"), f_double=-0.0); print(m, proto.marshal_text(m)); print(proto.unmarshal_text(All, proto.marshal_text(m)))`,
		`m = All(mv_int32 = {"a": 1}); m.mv_int32 = {"b": 2, "c": "x"}`,
		`m = All(mv_int32 = {"a": 1}); v = m.mv_int32; m.mv_int32 = {"b": 2}; print(v, m); v["z"] = 9; print(v, m)`,
		`m = All(r_int32 = [1]); v = m.r_int32; m.r_int32 = [2, 3]; print(v, m); v.append(9); print(v, m); m.r_int32 = None; v.append(10); print(v, m)`,
		`m = All(); m.f_msg = m; print("cyc set")`,
		`m = All(f_int32=True)`,
		`m = All(f_int32=1.0)`,
		`m = All(f_bool=1)`,
		`m = All(f_msg=f3.Leaf())`,
		`m = All(f_leaf={"x": 1, "nope": 2})`,
		`m = All(f_leaf={"x": 1, 2: 2})`,
		`m = All(nope=1)`,
		`m = All(f_int32=1); m.nope = 1`,
		`m = All(f_int32=1); proto.set_field(m, f3.Leaf.x, 1)`,
		`m = All(f_int32=1); proto.set_field(m, "f_int32", 1)`,
		`m = All(f_int32=1); proto.set_field(m, All.f_int32, None); print(m); proto.set_field(m, All.r_int32, (1,2)); print(m); proto.set_field(m, All.mv_bool, {"a": True}); print(m)`,
		`m = All(r_enum=["RED", 1, f3.Color.BIG]); print(m, list(m.r_enum), proto.marshal_text(m))`,
		`m = All(mv_enum={"a": "NEG"}); print(m, m.mv_enum["a"], proto.marshal_text(m))`,
		`m = All(r_string=["a"]); 
for x in m.r_string:
    m.r_string.append("b")
    if len(m.r_string) > 5: break
print(m)`,
		`m = All(f_msg={"f_int32": 1}); s = m.f_msg; s.freeze() if hasattr(s, "freeze") else None; print(dir(s)[:3])`,
	} {
		fmt.Println(">>", s)
		run(pre + s)
	}
}
