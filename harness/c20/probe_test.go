package c20

import (
	"fmt"
	"testing"

	sproto "go.starlark.net/lib/proto"
	"go.starlark.net/starlark"
)

func runSrc(src string) {
	defer func() {
		if r := recover(); r != nil {
			fmt.Println("   PANIC:", r)
		}
	}()
	th := newThread()
	th.Print = func(_ *starlark.Thread, s string) { fmt.Println("   " + s) }
	_, err := starlark.ExecFile(th, "p.star", src, starlark.StringDict{"proto": sproto.Module})
	if err != nil {
		fmt.Println("   err:", err)
	}
}

func TestProbe(t *testing.T) {
	pre := `
f3 = proto.file("c20/all.proto")
f2 = proto.file("c20/p2.proto")
All = f3.All
P2 = f2.P2
`
	for _, s := range []string{
		`p = P2(req=1); proto.set_field(p, f2.ext_i32, 5); t = proto.marshal_text(p); print(t); print(proto.unmarshal_text(P2, t))`,
		`p = P2(req=1); proto.set_field(p, f2.ext_i32, 5); t = proto.marshal(p); q = proto.unmarshal(P2, t); print(q, proto.has(q, f2.ext_i32), proto.marshal(q) == t)`,
		`p = P2(req=1); proto.set_field(p, f2.ext_i32, None)`,
		`p = P2(req=1); proto.set_field(p, f2.ext_m, None)`,
		`p = P2(req=1); proto.set_field(p, f2.ext_ru, None)`,
		`p = P2(req=1); proto.set_field(p, f2.ext_ru, [])`,
		`m = All(mk_string={"a": 1}); print(m.mk_string[b"a"])`,
		`m = All(mk_string={"a": 1}); print(b"a" in m.mk_string)`,
		`m = All(mk_string={"a": 1}); print(m.mk_string.get(b"a"))`,
	} {
		fmt.Println(">>", s)
		runSrc(pre + s)
	}
}
