package c20

// Descriptors of the messages under test, built with descriptorpb + protodesc (no protoc, no
// generated code), the descriptor pool handed to lib/proto, and the Starlark helper functions that
// drive the library through the VM.

import (
	"fmt"
	"sort"
	"strings"

	sproto "go.starlark.net/lib/proto"
	"go.starlark.net/starlark"
	"go.starlark.net/syntax"
	gproto "google.golang.org/protobuf/proto"
	"google.golang.org/protobuf/reflect/protodesc"
	"google.golang.org/protobuf/reflect/protoreflect"
	"google.golang.org/protobuf/reflect/protoregistry"
	"google.golang.org/protobuf/types/descriptorpb"
)

type fdType = descriptorpb.FieldDescriptorProto_Type

const (
	tInt32    = descriptorpb.FieldDescriptorProto_TYPE_INT32
	tInt64    = descriptorpb.FieldDescriptorProto_TYPE_INT64
	tUint32   = descriptorpb.FieldDescriptorProto_TYPE_UINT32
	tUint64   = descriptorpb.FieldDescriptorProto_TYPE_UINT64
	tSint32   = descriptorpb.FieldDescriptorProto_TYPE_SINT32
	tSint64   = descriptorpb.FieldDescriptorProto_TYPE_SINT64
	tFixed32  = descriptorpb.FieldDescriptorProto_TYPE_FIXED32
	tFixed64  = descriptorpb.FieldDescriptorProto_TYPE_FIXED64
	tSfixed32 = descriptorpb.FieldDescriptorProto_TYPE_SFIXED32
	tSfixed64 = descriptorpb.FieldDescriptorProto_TYPE_SFIXED64
	tFloat    = descriptorpb.FieldDescriptorProto_TYPE_FLOAT
	tDouble   = descriptorpb.FieldDescriptorProto_TYPE_DOUBLE
	tBool     = descriptorpb.FieldDescriptorProto_TYPE_BOOL
	tString   = descriptorpb.FieldDescriptorProto_TYPE_STRING
	tBytes    = descriptorpb.FieldDescriptorProto_TYPE_BYTES
	tEnum     = descriptorpb.FieldDescriptorProto_TYPE_ENUM
	tMessage  = descriptorpb.FieldDescriptorProto_TYPE_MESSAGE
	tGroup    = descriptorpb.FieldDescriptorProto_TYPE_GROUP

	lOpt = descriptorpb.FieldDescriptorProto_LABEL_OPTIONAL
	lReq = descriptorpb.FieldDescriptorProto_LABEL_REQUIRED
	lRep = descriptorpb.FieldDescriptorProto_LABEL_REPEATED
)

type kindInfo struct {
	Name string
	Typ  fdType
	Key  bool // legal as a map key
}

// The 15 scalar kinds, in the order of the property text.
var scalarKinds = []kindInfo{
	{"int32", tInt32, true}, {"int64", tInt64, true}, {"uint32", tUint32, true}, {"uint64", tUint64, true},
	{"sint32", tSint32, true}, {"sint64", tSint64, true}, {"fixed32", tFixed32, true}, {"fixed64", tFixed64, true},
	{"sfixed32", tSfixed32, true}, {"sfixed64", tSfixed64, true}, {"float", tFloat, false}, {"double", tDouble, false},
	{"bool", tBool, true}, {"string", tString, true}, {"bytes", tBytes, false},
}

// allKinds = scalar kinds + enum + msg (the kind names used by the grid).
var allKinds []string

func init() {
	for _, k := range scalarKinds {
		allKinds = append(allKinds, k.Name)
	}
	allKinds = append(allKinds, "enum", "msg")
}

func sp(s string) *string { return &s }
func ip(i int32) *int32   { return &i }

func field(name string, num int32, label descriptorpb.FieldDescriptorProto_Label, typ fdType, typeName string) *descriptorpb.FieldDescriptorProto {
	f := &descriptorpb.FieldDescriptorProto{Name: sp(name), Number: ip(num), Label: label.Enum(), Type: typ.Enum(), JsonName: sp(jsonName(name))}
	if typeName != "" {
		f.TypeName = sp(typeName)
	}
	return f
}

func jsonName(s string) string {
	var b strings.Builder
	up := false
	for _, r := range s {
		if r == '_' {
			up = true
			continue
		}
		if up && r >= 'a' && r <= 'z' {
			r -= 'a' - 'A'
		}
		up = false
		b.WriteRune(r)
	}
	return b.String()
}

func camel(s string) string {
	var b strings.Builder
	up := true
	for _, r := range s {
		if r == '_' {
			up = true
			continue
		}
		if up && r >= 'a' && r <= 'z' {
			r -= 'a' - 'A'
		}
		up = false
		b.WriteRune(r)
	}
	return b.String()
}

// addMap adds a map<key, val> field to msg (nested *Entry message with map_entry option).
func addMap(msg *descriptorpb.DescriptorProto, full string, name string, num int32, kt fdType, vt fdType, vtName string) {
	entry := camel(name) + "Entry"
	msg.NestedType = append(msg.NestedType, &descriptorpb.DescriptorProto{
		Name: sp(entry),
		Field: []*descriptorpb.FieldDescriptorProto{
			field("key", 1, lOpt, kt, ""),
			field("value", 2, lOpt, vt, vtName),
		},
		Options: &descriptorpb.MessageOptions{MapEntry: gproto.Bool(true)},
	})
	msg.Field = append(msg.Field, field(name, num, lRep, tMessage, full+"."+entry))
}

func enumProto(name string, vals ...any) *descriptorpb.EnumDescriptorProto {
	e := &descriptorpb.EnumDescriptorProto{Name: sp(name)}
	for i := 0; i < len(vals); i += 2 {
		e.Value = append(e.Value, &descriptorpb.EnumValueDescriptorProto{Name: sp(vals[i].(string)), Number: ip(int32(vals[i+1].(int)))})
	}
	return e
}

// Declared numbers of the enums (the model's knowledge of them).
var (
	colorVals = []any{"RED", 0, "GREEN", 1, "BLUE", 5, "NEG", -2, "BIG", 2147483647, "SMALL", -2147483648}
	otherVals = []any{"X", 0, "Y", 1, "Z", 5}
	e2Vals    = []any{"A", 1, "B", 2, "C", 7}
)

func proto3File() *descriptorpb.FileDescriptorProto {
	all := &descriptorpb.DescriptorProto{Name: sp("All")}
	typeNameOf := func(k string) (fdType, string) {
		switch k {
		case "enum":
			return tEnum, ".c20.Color"
		case "msg":
			return tMessage, ".c20.All"
		}
		for _, s := range scalarKinds {
			if s.Name == k {
				return s.Typ, ""
			}
		}
		panic(k)
	}
	for i, k := range allKinds {
		typ, tn := typeNameOf(k)
		all.Field = append(all.Field, field("f_"+k, int32(1+i), lOpt, typ, tn))
	}
	all.Field = append(all.Field, field("f_leaf", 19, lOpt, tMessage, ".c20.Leaf"))
	for i, k := range allKinds {
		typ, tn := typeNameOf(k)
		all.Field = append(all.Field, field("r_"+k, int32(21+i), lRep, typ, tn))
	}
	for i, k := range allKinds {
		typ, tn := typeNameOf(k)
		addMap(all, ".c20.All", "mv_"+k, int32(41+i), tString, typ, tn)
	}
	n := int32(61)
	for _, k := range scalarKinds {
		if k.Key {
			addMap(all, ".c20.All", "mk_"+k.Name, n, k.Typ, tInt32, "")
			n++
		}
	}
	// proto3 optional (explicit presence) fields.
	for i, nm := range []string{"o_int32", "o_string"} {
		f := field(nm, int32(81+i), lOpt, []fdType{tInt32, tString}[i], "")
		f.Proto3Optional = gproto.Bool(true)
		f.OneofIndex = ip(int32(i))
		all.Field = append(all.Field, f)
		all.OneofDecl = append(all.OneofDecl, &descriptorpb.OneofDescriptorProto{Name: sp("_" + nm)})
	}

	// Leaf.Color: a second enum type with the same simple name as the file-level Color, other members and numbers
	leaf := &descriptorpb.DescriptorProto{Name: sp("Leaf"), Field: []*descriptorpb.FieldDescriptorProto{
		field("x", 1, lOpt, tInt32, ""), field("s", 2, lOpt, tString, ""),
	}, EnumType: []*descriptorpb.EnumDescriptorProto{enumProto("Color", "NAVY", 0, "TEAL", 5, "ODD", 7)}}

	// T: the message type of the state machine (recursive, with views of every shape).
	t := &descriptorpb.DescriptorProto{Name: sp("T")}
	t.Field = append(t.Field,
		field("i", 1, lOpt, tInt32, ""),
		field("u", 2, lOpt, tUint64, ""),
		field("z", 3, lOpt, tSint64, ""),
		field("s", 4, lOpt, tString, ""),
		field("b", 5, lOpt, tBytes, ""),
		field("e", 6, lOpt, tEnum, ".c20.Color"),
		field("d", 7, lOpt, tDouble, ""),
		field("o", 8, lOpt, tBool, ""),
		field("w", 9, lOpt, tFixed32, ""),
		field("sub", 10, lOpt, tMessage, ".c20.T"),
		field("leaf", 11, lOpt, tMessage, ".c20.Leaf"),
		field("ri", 12, lRep, tInt64, ""),
		field("rs", 13, lRep, tString, ""),
		field("rt", 14, lRep, tMessage, ".c20.T"),
		field("re", 15, lRep, tEnum, ".c20.Color"),
		field("ru", 16, lRep, tUint32, ""),
	)
	addMap(t, ".c20.T", "msi", 17, tString, tInt32, "")
	addMap(t, ".c20.T", "mis", 18, tInt64, tString, "")
	addMap(t, ".c20.T", "mst", 19, tString, tMessage, ".c20.T")
	addMap(t, ".c20.T", "mbb", 20, tBool, tBytes, "")
	addMap(t, ".c20.T", "mue", 21, tUint64, tEnum, ".c20.Color")

	return &descriptorpb.FileDescriptorProto{
		Name: sp("c20/all.proto"), Package: sp("c20"), Syntax: sp("proto3"),
		MessageType: []*descriptorpb.DescriptorProto{all, leaf, t},
		EnumType:    []*descriptorpb.EnumDescriptorProto{enumProto("Color", colorVals...), enumProto("Other", otherVals...)},
	}
}

func proto2File() *descriptorpb.FileDescriptorProto {
	def := func(f *descriptorpb.FieldDescriptorProto, d string) *descriptorpb.FieldDescriptorProto {
		f.DefaultValue = sp(d)
		return f
	}
	p2 := &descriptorpb.DescriptorProto{Name: sp("P2")}
	p2.Field = append(p2.Field,
		field("req", 1, lReq, tInt32, ""),
		def(field("oi", 2, lOpt, tInt32, ""), "7"),
		def(field("os", 3, lOpt, tString, ""), "hi"),
		def(field("ob", 4, lOpt, tBytes, ""), "\\001\\376"),
		def(field("oe", 5, lOpt, tEnum, ".c20p2.E2"), "B"),
		def(field("od", 6, lOpt, tDouble, ""), "1.5"),
		def(field("obl", 7, lOpt, tBool, ""), "true"),
		def(field("ou", 8, lOpt, tUint64, ""), "18446744073709551615"),
		def(field("oz", 9, lOpt, tSint64, ""), "-9223372036854775808"),
		field("g", 10, lOpt, tGroup, ".c20p2.P2.G"),
		field("rg", 11, lRep, tGroup, ".c20p2.P2.RG"),
		field("rec", 12, lOpt, tMessage, ".c20p2.P2"),
		field("of", 13, lOpt, tFloat, ""),
		field("ri", 14, lRep, tSint32, ""),
		field("plain_e", 15, lOpt, tEnum, ".c20p2.E2"),
		field("plain_s", 16, lOpt, tString, ""),
	)
	p2.NestedType = append(p2.NestedType,
		&descriptorpb.DescriptorProto{Name: sp("G"), Field: []*descriptorpb.FieldDescriptorProto{
			field("gx", 1, lOpt, tInt32, ""), field("gs", 2, lOpt, tString, "")}},
		&descriptorpb.DescriptorProto{Name: sp("RG"), Field: []*descriptorpb.FieldDescriptorProto{
			field("rx", 1, lOpt, tInt32, "")}},
	)
	p2.ExtensionRange = []*descriptorpb.DescriptorProto_ExtensionRange{{Start: ip(100), End: ip(200)}}
	ext := func(name string, num int32, label descriptorpb.FieldDescriptorProto_Label, typ fdType, tn string) *descriptorpb.FieldDescriptorProto {
		f := field(name, num, label, typ, tn)
		f.Extendee = sp(".c20p2.P2")
		return f
	}
	return &descriptorpb.FileDescriptorProto{
		Name: sp("c20/p2.proto"), Package: sp("c20p2"), Syntax: sp("proto2"),
		MessageType: []*descriptorpb.DescriptorProto{p2},
		EnumType:    []*descriptorpb.EnumDescriptorProto{enumProto("E2", e2Vals...)},
		Extension: []*descriptorpb.FieldDescriptorProto{
			ext("ext_i32", 100, lOpt, tInt32, ""),
			ext("ext_s", 101, lOpt, tString, ""),
			ext("ext_ru", 102, lRep, tUint64, ""),
			ext("ext_m", 103, lOpt, tMessage, ".c20p2.P2"),
			ext("ext_e", 104, lOpt, tEnum, ".c20p2.E2"),
			ext("ext_b", 105, lOpt, tBytes, ""),
		},
	}
}

// ---------------------------------------------------------------- pool and Starlark-side handles

var (
	pool    *protoregistry.Files
	thread  *starlark.Thread
	file3   starlark.Value // proto.file("c20/all.proto")
	file2   starlark.Value
	mdAll   protoreflect.MessageDescriptor
	mdLeaf  protoreflect.MessageDescriptor
	mdT     protoreflect.MessageDescriptor
	mdP2    protoreflect.MessageDescriptor
	edColor protoreflect.EnumDescriptor
	edOther protoreflect.EnumDescriptor
	edLeafC protoreflect.EnumDescriptor
	edE2    protoreflect.EnumDescriptor
	exts    = map[string]protoreflect.ExtensionDescriptor{}
	helpers starlark.StringDict
	member  = sproto.Module.Members
)

func init() {
	var err error
	pool, err = protodesc.NewFiles(&descriptorpb.FileDescriptorSet{File: []*descriptorpb.FileDescriptorProto{proto3File(), proto2File()}})
	if err != nil {
		panic(fmt.Sprintf("descriptor construction: %v", err))
	}
	thread = newThread()
	file3 = mustCall(member["file"], starlark.String("c20/all.proto"))
	file2 = mustCall(member["file"], starlark.String("c20/p2.proto"))
	f3, _ := pool.FindFileByPath("c20/all.proto")
	f2, _ := pool.FindFileByPath("c20/p2.proto")
	mdAll = f3.Messages().ByName("All")
	mdLeaf = f3.Messages().ByName("Leaf")
	mdT = f3.Messages().ByName("T")
	mdP2 = f2.Messages().ByName("P2")
	edColor = f3.Enums().ByName("Color")
	edOther = f3.Enums().ByName("Other")
	edLeafC = mdLeaf.Enums().ByName("Color")
	edE2 = f2.Enums().ByName("E2")
	for i := 0; i < f2.Extensions().Len(); i++ {
		x := f2.Extensions().Get(i)
		exts[string(x.Name())] = x
	}
	buildHelpers()
}

func newThread() *starlark.Thread {
	th := &starlark.Thread{Name: "c20", Print: func(*starlark.Thread, string) {}}
	sproto.SetPool(th, pool)
	return th
}

func mustCall(fn starlark.Value, args ...starlark.Value) starlark.Value {
	v, err := starlark.Call(thread, fn, starlark.Tuple(args), nil)
	if err != nil {
		panic(err)
	}
	return v
}

func attrOf(v starlark.Value, name string) starlark.Value {
	x, err := v.(starlark.HasAttrs).Attr(name)
	if err != nil || x == nil {
		panic(fmt.Sprintf("no attribute %s on %s (%v)", name, v.Type(), err))
	}
	return x
}

// msgCtor returns the Starlark MessageDescriptor value (callable) for a message descriptor,
// reached through the module API: proto.file(path).Name[.Nested].
func msgCtor(md protoreflect.MessageDescriptor) starlark.Value {
	var path []string
	var d protoreflect.Descriptor = md
	for {
		if _, ok := d.(protoreflect.FileDescriptor); ok {
			break
		}
		path = append([]string{string(d.Name())}, path...)
		d = d.Parent()
	}
	var v starlark.Value = file3
	if d.(protoreflect.FileDescriptor).Path() == "c20/p2.proto" {
		v = file2
	}
	for _, p := range path {
		v = attrOf(v, p)
	}
	return v
}

func enumCtor(ed protoreflect.EnumDescriptor) starlark.Value {
	if ed == edE2 {
		return attrOf(file2, "E2")
	}
	if ed == edLeafC {
		return attrOf(attrOf(file3, "Leaf"), "Color")
	}
	return attrOf(file3, string(ed.Name()))
}

// fieldDescValue returns the Starlark FieldDescriptor for a field (through the Starlark API).
func fieldDescValue(fd protoreflect.FieldDescriptor) starlark.Value {
	if fd.IsExtension() {
		return attrOf(file2, string(fd.Name()))
	}
	return attrOf(msgCtor(fd.ContainingMessage()), string(fd.Name()))
}

// ---------------------------------------------------------------- helper functions executed by the VM

func buildHelpers() {
	var sb strings.Builder
	sb.WriteString(`
def setidx(r, i, v): r[i] = v
def getidx(r, i): return r[i]
def setkey(m, k, v): m[k] = v
def getkey(m, k): return m[k]
def haskey(m, k): return k in m
def append(r, v): r.append(v)
def extend(r, v): r.extend(v)
def insert(r, i, v): r.insert(i, v)
def iadd(r, v):
    r += v
    return r
def update(m, v): m.update(v)
def pop(m, k): return m.pop(k)
def clear(x): x.clear()
def aslist(r): return [x for x in r]
def iteridx(r, i): return [x for x in r][i]
def itemsget(r, k): return dict(r)[k]
def itemsget2(r, k): return {kk: vv for kk, vv in dict(r).items()}[k]
def updget(r, k):
    d = {}
    d.update(r)
    return d[k]
def listidx(r, i): return list(r)[i]
def foridx(r, i):
    n = len(r)
    if i < 0: i += n
    k = 0
    for x in r:
        if k == i: return x
        k += 1
    return [][i]
def length(x): return len(x)
def set_field(m, f, v): proto.set_field(m, f, v)
def get_field(m, f): return proto.get_field(m, f)
def has(m, f): return proto.has(m, f)
def itermut(r, v):
    n = 0
    for x in r:
        r.append(v)
        n += 1
        if n > 3: break
def itermutmap(m, k, v):
    n = 0
    for x in m:
        m[k] = v
        n += 1
        if n > 3: break
`)
	names := map[string]bool{}
	for _, md := range []protoreflect.MessageDescriptor{mdAll, mdLeaf, mdT, mdP2, mdP2.Messages().ByName("G"), mdP2.Messages().ByName("RG")} {
		for i := 0; i < md.Fields().Len(); i++ {
			names[string(md.Fields().Get(i).Name())] = true
		}
	}
	var sorted []string
	for n := range names {
		sorted = append(sorted, n)
	}
	sort.Strings(sorted)
	for _, n := range sorted {
		fmt.Fprintf(&sb, "def set__%s(m, v): m.%s = v\n", n, n)
		fmt.Fprintf(&sb, "def get__%s(m): return m.%s\n", n, n)
		fmt.Fprintf(&sb, "def iadd__%s(m, v): m.%s += v\n", n, n)
	}
	g, err := starlark.ExecFileOptions(&syntax.FileOptions{}, newThread(), "helpers.star", sb.String(),
		starlark.StringDict{"proto": sproto.Module})
	if err != nil {
		panic(err)
	}
	helpers = g
}
