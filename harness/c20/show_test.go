package c20

import (
	"encoding/json"
	"fmt"
	"os"
	"testing"
)

// TestShow prints the operations of the replay files named in VERIF_SHOW (debugging aid).
func TestShow(t *testing.T) {
	path := os.Getenv("VERIF_SHOW")
	if path == "" {
		t.Skip("no VERIF_SHOW")
	}
	b, err := os.ReadFile(path)
	if err != nil {
		t.Fatal(err)
	}
	var rf struct {
		Sub  string `json:"sub"`
		Case Case   `json:"case"`
	}
	if err := json.Unmarshal(b, &rf); err != nil {
		t.Fatal(err)
	}
	for i, o := range rf.Case.Ops {
		fmt.Printf("%2d %s\n", i, o)
	}
	_, err = run(rf.Case)
	fmt.Println("result:", err)
}

// knownCases are the minimal reproductions of the catalogued findings (replays/C20/known-*.json are
// written from them by TestWriteKnown when VERIF_WRITE_KNOWN names a directory).
var knownCases = map[string]Case{
	"known-bytes-into-string-panic": {Ops: []Op{
		{Op: "new", M: "All", V: pv(vDict(vStr("f_string"), vStr("b0")))},
		{Op: "set", F: "f_string", V: pv(vBytes("ab")), Star: true}}},
	"known-extension-list-or-clear-panic": {Ops: []Op{
		{Op: "new", M: "P2", V: pv(vDict(vStr("req"), vI(1)))},
		{Op: "setf", F: "ext_i32", V: pv(vNone)}}},
	"known-assign-clears-before-validating": {Ops: []Op{
		{Op: "new", M: "All", V: pv(vDict(vStr("r_int32"), vList(vI(7), vI(8), vI(9))))},
		{Op: "set", F: "r_int32", V: pv(vList(vI(1), vStr("x"))), Star: true}}},
	"known-assign-own-view-empties-field": {Ops: []Op{
		{Op: "new", M: "All", V: pv(vDict(vStr("r_int32"), vList(vI(7), vI(8), vI(9))))},
		{Op: "view", F: "r_int32"},
		{Op: "set", F: "r_int32", V: pv(vHandle(1)), Star: true}}},
	"known-frozen-shallow-copy": {Ops: []Op{
		{Op: "new", V: pv(vDict(vStr("ri"), vList(vI(1))))},
		{Op: "freeze", A: 0},
		{Op: "copy", A: 0, B: 1},
		{Op: "view", A: 1, F: "ri"},
		{Op: "append", F: "ri", V: pv(vI(5)), Star: true}}},
	"known-frozen-message-alias": {Ops: []Op{
		{Op: "new", V: pv(vDict(vStr("sub"), vDict(vStr("i"), vI(1))))},
		{Op: "new", B: 1, V: pv(vDict())},
		{Op: "view", A: 0, F: "sub"},
		{Op: "set", A: 1, F: "sub", V: pv(vHandle(2)), Star: true},
		{Op: "freeze", A: 0},
		{Op: "view", A: 1, F: "sub"},
		{Op: "set", A: 3, F: "i", V: pv(vI(5)), Star: true}}},
	"known-invalid-utf8-string-accepted": {Ops: []Op{
		{Op: "new", M: "All", V: pv(vDict(vStr("f_string"), vStr("\xff")))}}},
	"known-extension-lost-on-unmarshal": {Ops: []Op{
		{Op: "new", M: "P2", V: pv(vDict(vStr("req"), vI(1)))},
		{Op: "setf", F: "ext_i32", V: pv(vI(5))}}},
}

func TestWriteKnown(t *testing.T) {
	dir := os.Getenv("VERIF_WRITE_KNOWN")
	if dir == "" {
		t.Skip("no VERIF_WRITE_KNOWN")
	}
	for name, c := range knownCases {
		e, err := run(c)
		if err == nil {
			err = e.verdict()
		}
		if err == nil {
			t.Errorf("%s does not fail", name)
			continue
		}
		raw, _ := json.Marshal(c)
		b, _ := json.MarshalIndent(map[string]any{"property": "C20", "sub": "history", "explain": err.Error(), "case": json.RawMessage(raw)}, "", " ")
		if err := os.WriteFile(dir+"/"+name+".json", append(b, '\n'), 0o644); err != nil {
			t.Fatal(err)
		}
		fmt.Printf("%s: %s\n", name, err)
	}
}
