package c20

// The interpreter of cases: every operation is applied to the real library (through starlark.Call
// on module members and VM-executed helper functions, or the Go interfaces HasSetField / SetKey /
// Freeze) and to the model; outcomes and the complete observable content of every live handle are
// compared after every step, and the printed form of every frozen handle is watched.

import (
	"errors"
	"fmt"
	"math/big"
	"strings"

	sproto "go.starlark.net/lib/proto"
	"go.starlark.net/starlark"
	"google.golang.org/protobuf/reflect/protoreflect"
	"verif/harness/vk"
)

type Op struct {
	Op   string `json:"op"`
	A    int    `json:"a,omitempty"` // target handle selector
	B    int    `json:"b,omitempty"` // variable slot for results
	F    string `json:"f,omitempty"` // field name / unsupported-method name
	M    string `json:"m,omitempty"` // message type name (default T)
	V    *Val   `json:"v,omitempty"`
	K    *Val   `json:"k,omitempty"`
	I    int    `json:"i,omitempty"`
	Star bool   `json:"star,omitempty"` // alternative route (VM helper / dict argument / text format)
}

type Case struct {
	Ops []Op `json:"ops"`
	// grid coordinates (empty for histories)
	Kind  string `json:"kind,omitempty"`
	Pos   string `json:"pos,omitempty"`
	Value string `json:"value,omitempty"`
	Bound bool   `json:"bound,omitempty"` // the value is a range boundary (min-1, min, max, max+1)
}

func (o Op) String() string {
	var sb strings.Builder
	fmt.Fprintf(&sb, "%s(a=%d", o.Op, o.A)
	if o.B != 0 {
		fmt.Fprintf(&sb, " b=%d", o.B)
	}
	if o.F != "" {
		fmt.Fprintf(&sb, " f=%s", o.F)
	}
	if o.M != "" {
		fmt.Fprintf(&sb, " m=%s", o.M)
	}
	if o.K != nil {
		fmt.Fprintf(&sb, " k=%s", o.K)
	}
	if o.V != nil {
		fmt.Fprintf(&sb, " v=%s", o.V)
	}
	if o.I != 0 {
		fmt.Fprintf(&sb, " i=%d", o.I)
	}
	if o.Star {
		sb.WriteString(" star")
	}
	sb.WriteByte(')')
	return sb.String()
}

type engine struct {
	w     *world
	th    *starlark.Thread
	rd    *reader
	known []string // "id\x00detail" of catalogued defects met on the way
	// classification
	froze       bool
	crossNow    bool // the current step's mutating handle shares flag or content with another, frozen handle
	crossMutate bool // after a freeze, a mutation was attempted through another handle that shares content or flag with a frozen one
	classes     map[string]bool
	counts      map[string]int
	steps       int
}

func newEngine() *engine {
	th := newThread()
	return &engine{w: &world{}, th: th, rd: &reader{th: th}, classes: map[string]bool{}, counts: map[string]int{}}
}

func (e *engine) call(fn starlark.Value, args ...starlark.Value) (starlark.Value, error) {
	return starlark.Call(e.th, fn, starlark.Tuple(args), nil)
}

func (e *engine) noteKnown(id, detail string) {
	e.known = append(e.known, id+"\x00"+detail)
	e.classes["known:"+id] = true
}

func protect(f func() (starlark.Value, error)) (v starlark.Value, err error, pan string) {
	defer func() {
		if r := recover(); r != nil {
			pan = fmt.Sprint(r)
			if pan == "" {
				pan = "(empty panic)"
			}
		}
	}()
	v, err = f()
	return
}

// ---------------------------------------------------------------- building values

var bigOK = func(s string) *big.Int {
	i, ok := new(big.Int).SetString(s, 10)
	if !ok {
		panic("bad int in case: " + s)
	}
	return i
}

// recent: selectors >= recent count handles from the newest one backwards.
const recent = 100

func selIndex(sel, n int) int {
	if sel < 0 {
		sel = -sel
	}
	if sel >= recent {
		return n - 1 - (sel-recent)%n
	}
	return sel % n
}

func (e *engine) handleAt(sel int) *handle {
	all := e.w.all()
	if len(all) == 0 {
		return nil
	}
	return all[selIndex(sel, len(all))]
}

func (e *engine) buildReal(v Val) (starlark.Value, error) {
	switch v.T {
	case "int":
		return starlark.MakeBigInt(bigOK(v.I)), nil
	case "float":
		return starlark.Float(parseFloat(v.I)), nil
	case "str":
		return starlark.String(v.B), nil
	case "bytes":
		return starlark.Bytes(v.B), nil
	case "bool":
		return starlark.Bool(v.O), nil
	case "none":
		return starlark.None, nil
	case "enumval":
		x, ok := enumValue(v.E)
		if !ok {
			return nil, errUnbuildable{"enum value " + v.E}
		}
		return x, nil
	case "list", "tuple":
		var elems []starlark.Value
		for _, x := range v.L {
			y, err := e.buildReal(x)
			if err != nil {
				return nil, err
			}
			elems = append(elems, y)
		}
		if v.T == "tuple" {
			return starlark.Tuple(elems), nil
		}
		return starlark.NewList(elems), nil
	case "dict":
		d := starlark.NewDict(len(v.L) / 2)
		for i := 0; i+1 < len(v.L); i += 2 {
			k, err := e.buildReal(v.L[i])
			if err != nil {
				return nil, err
			}
			x, err := e.buildReal(v.L[i+1])
			if err != nil {
				return nil, err
			}
			if err := d.SetKey(k, x); err != nil {
				return nil, errUnbuildable{err.Error()}
			}
		}
		return d, nil
	case "msg":
		md := msgDescByName(v.E)
		if md == nil {
			return nil, errUnbuildable{"message type " + v.E}
		}
		var kwargs []starlark.Tuple
		for i := 0; i+1 < len(v.L); i += 2 {
			if v.L[i].T != "str" {
				return nil, errUnbuildable{"keyword of type " + v.L[i].T}
			}
			x, err := e.buildReal(v.L[i+1])
			if err != nil {
				return nil, err
			}
			kwargs = append(kwargs, starlark.Tuple{starlark.String(v.L[i].B), x})
		}
		m, err, pan := protect(func() (starlark.Value, error) { return starlark.Call(e.th, msgCtor(md), nil, kwargs) })
		if err != nil || pan != "" {
			return nil, errUnbuildable{fmt.Sprintf("message value: %v %s", err, pan)}
		}
		return m, nil
	case "handle":
		h := e.handleAt(v.H)
		if h == nil {
			return nil, errUnbuildable{"no handle"}
		}
		return h.real.(starlark.Value), nil
	case "fielddesc":
		return fieldDescValue(mdAll.Fields().ByName("f_int32")), nil
	case "func":
		return helpers["length"], nil
	case "enumtype":
		return enumCtor(edColor), nil
	case "msgtype":
		return msgCtor(mdLeaf), nil
	}
	return nil, errUnbuildable{"value type " + v.T}
}

// buildDyn is the model-side counterpart of buildReal (per world, because it creates nodes and
// refers to the world's handles).
func (w *world) buildDyn(v Val) (dyn, error) {
	switch v.T {
	case "int":
		return dyn{c: cInt, i: bigOK(v.I)}, nil
	case "float":
		return dyn{c: cFloat, f: parseFloat(v.I)}, nil
	case "str":
		return dyn{c: cStr, s: string(v.B)}, nil
	case "bytes":
		return dyn{c: cBytes, s: string(v.B)}, nil
	case "bool":
		return dyn{c: cBool, o: v.O}, nil
	case "none":
		return dyn{c: cNone}, nil
	case "enumval":
		k := strings.IndexByte(v.E, '.')
		if k < 0 {
			return dyn{}, errUnbuildable{"enum value " + v.E}
		}
		ed := enumByName(v.E[:k])
		if ed == nil {
			return dyn{}, errUnbuildable{"enum value " + v.E}
		}
		ev := ed.Values().ByName(protoreflect.Name(v.E[k+1:]))
		if ev == nil {
			return dyn{}, errUnbuildable{"enum value " + v.E}
		}
		return dyn{c: cEnum, s: string(ed.FullName()), num: int32(ev.Number())}, nil
	case "list", "tuple":
		d := dyn{c: cSeq}
		for _, x := range v.L {
			y, err := w.buildDyn(x)
			if err != nil {
				return dyn{}, err
			}
			d.elems = append(d.elems, y)
		}
		return d, nil
	case "dict":
		d := dyn{c: cDict}
		for i := 0; i+1 < len(v.L); i += 2 {
			k, err := w.buildDyn(v.L[i])
			if err != nil {
				return dyn{}, err
			}
			x, err := w.buildDyn(v.L[i+1])
			if err != nil {
				return dyn{}, err
			}
			if k.c == cSeq || k.c == cDict || k.c == cListH || k.c == cMapH {
				return dyn{}, errUnbuildable{"unhashable key"}
			}
			dup := false
			for j := range d.pairs {
				if sameDictKey(d.pairs[j][0], k) {
					d.pairs[j][1] = x
					dup = true
				}
			}
			if !dup {
				d.pairs = append(d.pairs, [2]dyn{k, x})
			}
		}
		return d, nil
	case "msg":
		md := msgDescByName(v.E)
		if md == nil {
			return dyn{}, errUnbuildable{"message type " + v.E}
		}
		kw, err := w.buildDyn(Val{T: "dict", L: v.L})
		if err != nil {
			return dyn{}, err
		}
		n := w.newMsg(md)
		c := &mctx{w: w, lenient: true, ideal: true}
		if err := c.setFields(n, kw.pairs); err != nil {
			return dyn{}, errUnbuildable{"message value: " + err.Error()}
		}
		return dyn{c: cMsg, msg: n}, nil
	case "handle":
		all := w.all()
		if len(all) == 0 {
			return dyn{}, errUnbuildable{"no handle"}
		}
		h := all[selIndex(v.H, len(all))]
		switch h.kind {
		case 'm':
			return dyn{c: cMsg, msg: h.msg}, nil
		case 'l':
			return dyn{c: cListH, list: h.list}, nil
		default:
			return dyn{c: cMapH, mp: h.mp}, nil
		}
	case "fielddesc", "func", "enumtype", "msgtype":
		return dyn{c: cOther}, nil
	}
	return dyn{}, errUnbuildable{"value type " + v.T}
}

// ---------------------------------------------------------------- handle selection

// pick chooses among the handles of the given kinds; the result is an index into w.all().
func (e *engine) pick(sel int, kinds string) (int, *handle) { return e.pickPref(sel, kinds, "") }

// pickPref prefers handles that fit field name pref: views of that field, or messages whose type
// has such a field.
func (e *engine) pickPref(sel int, kinds string, pref string) (int, *handle) {
	all := e.w.all()
	var idx, fit []int
	for i, h := range all {
		if strings.IndexByte(kinds, h.kind) >= 0 {
			idx = append(idx, i)
			if pref != "" && ((h.kind == 'm' && fieldByName(h.msg.md, pref) != nil) || (h.kind != 'm' && string(h.fd.Name()) == pref)) {
				fit = append(fit, i)
			}
		}
	}
	if len(fit) > 0 {
		idx = fit
	}
	if len(idx) == 0 {
		return -1, nil
	}
	if sel < 0 {
		sel = -sel
	}
	if sel >= recent { // recent+k: the k-th most recently created fitting handle
		i := idx[len(idx)-1-(sel-recent)%len(idx)]
		return i, all[i]
	}
	i := idx[sel%len(idx)]
	return i, all[i]
}

func (w *world) retire(h *handle) {
	if h != nil && h.flag.frozen {
		w.ghosts = append(w.ghosts, h)
		if len(w.ghosts) > 12 {
			w.ghosts = w.ghosts[1:]
		}
	}
}

func (w *world) setVar(slot int, h *handle) {
	if slot < 0 {
		slot = -slot
	}
	slot %= len(w.vars)
	w.retire(w.vars[slot])
	w.vars[slot] = h
}

func (w *world) addView(h *handle) {
	if len(w.views) >= maxViews {
		w.retire(w.views[0])
		w.views = append([]*handle{}, w.views[1:]...)
	}
	w.views = append(w.views, h)
}

// ---------------------------------------------------------------- one step

type prepared struct {
	real      func() (starlark.Value, error)
	model     func(w *world, c *mctx) (*handle, error) // returns the model side of a new handle, if any
	place     func(h *handle)
	risky     bool // list/map assignment: the model is run in both validation orders
	mutIdx    int  // index (in w.all()) of the handle through which existing content may change; -1 if none
	unsupp    bool // a method the types do not document: must fail cleanly (or the case stops)
	result    func(res starlark.Value) error
	storeFD   protoreflect.FieldDescriptor // destination of V (for the catalogued-panic predicates)
	storeKey  bool                         // K goes to storeFD.MapKey(), V to storeFD.MapValue()
	elemOnly  bool                         // V is stored as one element of storeFD (not as the whole field)
	valDyn    func(w *world) (dyn, dyn)    // V and K as the model sees them
	extension bool
}

var errSkip = errors.New("skip")

func normIndex(i, n int) (int, bool) {
	if i < 0 {
		i += n
	}
	return i, i >= 0 && i < n
}

func fieldByName(md protoreflect.MessageDescriptor, name string) protoreflect.FieldDescriptor {
	return md.Fields().ByName(protoreflect.Name(name))
}

func (e *engine) prepare(op Op) (*prepared, error) {
	p := &prepared{mutIdx: -1}
	var rv, rk starlark.Value
	var err error
	if op.V != nil {
		if rv, err = e.buildReal(*op.V); err != nil {
			return nil, err
		}
		if _, err = e.w.buildDyn(*op.V); err != nil { // value must be constructible on both sides
			return nil, err
		}
	}
	if op.K != nil {
		if rk, err = e.buildReal(*op.K); err != nil {
			return nil, err
		}
		if _, err = e.w.buildDyn(*op.K); err != nil {
			return nil, err
		}
	}
	dynV := func(w *world) dyn {
		if op.V == nil {
			return dyn{c: cNone}
		}
		d, err := w.buildDyn(*op.V)
		if err != nil {
			panic("value stopped being buildable: " + err.Error())
		}
		return d
	}
	dynK := func(w *world) dyn {
		if op.K == nil {
			return dyn{c: cNone}
		}
		d, err := w.buildDyn(*op.K)
		if err != nil {
			panic("key stopped being buildable: " + err.Error())
		}
		return d
	}
	p.valDyn = func(w *world) (dyn, dyn) { return dynV(w), dynK(w) }
	mdOf := func(def protoreflect.MessageDescriptor) protoreflect.MessageDescriptor {
		if op.M != "" {
			if md := msgDescByName(op.M); md != nil {
				return md
			}
		}
		return def
	}

	switch op.Op {
	case "new":
		md := mdOf(mdT)
		if op.V == nil || op.V.T != "dict" {
			return nil, errSkip
		}
		strKeys := true
		for i := 0; i+1 < len(op.V.L); i += 2 {
			if op.V.L[i].T != "str" {
				strKeys = false
			}
		}
		p.real = func() (starlark.Value, error) {
			if op.Star || !strKeys {
				return e.call(msgCtor(md), rv)
			}
			var kwargs []starlark.Tuple
			for _, it := range rv.(*starlark.Dict).Items() {
				kwargs = append(kwargs, it)
			}
			return starlark.Call(e.th, msgCtor(md), nil, kwargs)
		}
		p.model = func(w *world, c *mctx) (*handle, error) {
			n := w.newMsg(md)
			if err := c.setFields(n, dynV(w).pairs); err != nil {
				return nil, err
			}
			return &handle{kind: 'm', msg: n, flag: &flagT{}, origin: "new"}, nil
		}
		p.place = func(h *handle) { e.w.setVar(op.B, h) }

	case "copy":
		si, src := e.pick(op.A, "m")
		if src == nil {
			return nil, errSkip
		}
		md := mdOf(src.msg.md)
		p.real = func() (starlark.Value, error) { return e.call(msgCtor(md), src.real.(starlark.Value)) }
		p.model = func(w *world, c *mctx) (*handle, error) {
			n, err := c.shallowCopy(md, w.all()[si].msg)
			if err != nil {
				return nil, err
			}
			return &handle{kind: 'm', msg: n, flag: &flagT{}, origin: "copy"}, nil
		}
		p.place = func(h *handle) { e.w.setVar(op.B, h) }

	case "set", "setf":
		ti, tgt := e.pickPref(op.A, "m", op.F)
		if tgt == nil || op.V == nil {
			return nil, errSkip
		}
		var fd protoreflect.FieldDescriptor
		if op.Op == "set" {
			fd = fieldByName(tgt.msg.md, op.F)
		} else {
			owner := mdOf(tgt.msg.md)
			if fd = fieldByName(owner, op.F); fd == nil {
				if x, ok := exts[op.F]; ok {
					fd = x
				}
			}
			if fd == nil {
				return nil, errSkip
			}
		}
		if fd != nil && wouldCycle(writtenNodes(tgt, fd, true), dynV(e.w)) {
			return nil, errSkip
		}
		p.mutIdx = ti
		p.storeFD = fd
		p.risky = fd != nil && (fd.IsList() || fd.IsMap())
		p.extension = fd != nil && fd.IsExtension()
		if op.Op == "set" {
			p.real = func() (starlark.Value, error) {
				if h, ok := helpers["set__"+op.F]; ok && op.Star {
					return e.call(h, tgt.real.(starlark.Value), rv)
				}
				return nil, tgt.real.(starlark.HasSetField).SetField(op.F, rv)
			}
		} else {
			fv := fieldDescValue(fd)
			p.real = func() (starlark.Value, error) {
				if op.Star {
					return e.call(helpers["set_field"], tgt.real.(starlark.Value), fv, rv)
				}
				return e.call(member["set_field"], tgt.real.(starlark.Value), fv, rv)
			}
		}
		p.model = func(w *world, c *mctx) (*handle, error) {
			t := w.all()[ti]
			if fd == nil {
				return nil, mfail("no field %q", op.F)
			}
			if t.flag.frozen {
				return nil, mfail("message is frozen")
			}
			if fd.ContainingMessage() != t.msg.md {
				return nil, mfail("field of another message type")
			}
			return nil, c.setField(t.msg, fd, dynV(w))
		}

	case "view":
		ti, tgt := e.pickPref(op.A, "m", op.F)
		if tgt == nil {
			return nil, errSkip
		}
		fd := fieldByName(tgt.msg.md, op.F)
		if fd == nil || !(fd.IsList() || fd.IsMap() || isMsgKind(fd)) {
			return nil, errSkip
		}
		p.real = func() (starlark.Value, error) {
			if op.Star {
				return e.call(helpers["get__"+op.F], tgt.real.(starlark.Value))
			}
			return tgt.real.(starlark.HasAttrs).Attr(op.F)
		}
		p.model = func(w *world, c *mctx) (*handle, error) {
			h := w.viewOf(w.all()[ti], fd)
			h.origin = "view ." + op.F
			return h, nil
		}
		p.place = func(h *handle) { e.w.addView(h) }

	case "elem":
		ti, tgt := e.pickPref(op.A, "lp", op.F)
		if tgt == nil {
			return nil, errSkip
		}
		if tgt.kind == 'l' {
			p.real = func() (starlark.Value, error) {
				// the element by index, or (Star) picked out of an iteration over the repeated field
				h := "getidx"
				if op.Star {
					h = []string{"iteridx", "listidx", "foridx"}[(op.I+3)%3]
				}
				return e.call(helpers[h], tgt.real.(starlark.Value), starlark.MakeInt(op.I))
			}
			var want mElem
			p.model = func(w *world, c *mctx) (*handle, error) {
				t := w.all()[ti]
				i, ok := normIndex(op.I, len(t.list.elems))
				if !ok {
					return nil, mfail("index out of range")
				}
				want = t.list.elems[i]
				if want.msg != nil {
					return &handle{kind: 'm', msg: want.msg, flag: t.flag, origin: "element"}, nil
				}
				return nil, nil
			}
			p.result = func(res starlark.Value) error {
				if want.msg != nil {
					return nil
				}
				got, err := realCanon(tgt.fd, res)
				if err != nil || got != want.sc {
					return fmt.Errorf("element reads %v (%v), model %s", res, err, want.sc)
				}
				return nil
			}
		} else {
			if op.K == nil {
				return nil, errSkip
			}
			p.real = func() (starlark.Value, error) {
				// the value by key, or (Star) out of a dict made from the map field's items
				h := "getkey"
				if op.Star {
					h = []string{"itemsget", "itemsget2", "updget"}[(op.I+3)%3]
				}
				return e.call(helpers[h], tgt.real.(starlark.Value), rk)
			}
			p.storeFD, p.storeKey = tgt.fd, true // the key goes through the same conversion as in an assignment
			var want mElem
			p.model = func(w *world, c *mctx) (*handle, error) {
				t := w.all()[ti]
				kc, err := c.convertElem(t.fd.MapKey(), dynK(w))
				if err != nil {
					return nil, err
				}
				x, ok := t.mp.vals[kc.sc]
				if !ok {
					return nil, mfail("missing key")
				}
				want = x
				if want.msg != nil {
					return &handle{kind: 'm', msg: want.msg, flag: t.flag, origin: "map value"}, nil
				}
				return nil, nil
			}
			p.result = func(res starlark.Value) error {
				if want.msg != nil {
					return nil
				}
				got, err := realCanon(tgt.fd.MapValue(), res)
				if err != nil || got != want.sc {
					return fmt.Errorf("map entry reads %v (%v), model %s", res, err, want.sc)
				}
				return nil
			}
		}
		p.place = func(h *handle) { e.w.addView(h) }

	case "setidx", "append":
		ti, tgt := e.pickPref(op.A, "l", op.F)
		if tgt == nil || op.V == nil {
			return nil, errSkip
		}
		if wouldCycle(writtenNodes(tgt, nil, false), dynV(e.w)) {
			return nil, errSkip
		}
		p.mutIdx = ti
		p.storeFD, p.elemOnly = tgt.fd, true
		if op.Op == "setidx" {
			p.real = func() (starlark.Value, error) {
				return e.call(helpers["setidx"], tgt.real.(starlark.Value), starlark.MakeInt(op.I), rv)
			}
		} else {
			p.real = func() (starlark.Value, error) {
				if op.Star {
					return e.call(helpers["append"], tgt.real.(starlark.Value), rv)
				}
				fn, err := tgt.real.(starlark.HasAttrs).Attr("append")
				if err != nil || fn == nil {
					return nil, fmt.Errorf("no append method: %v", err)
				}
				return e.call(fn, rv)
			}
		}
		p.model = func(w *world, c *mctx) (*handle, error) {
			t := w.all()[ti]
			i := 0
			if op.Op == "setidx" {
				var ok bool
				if i, ok = normIndex(op.I, len(t.list.elems)); !ok {
					return nil, mfail("index out of range")
				}
			}
			if t.flag.frozen || t.list.immutable {
				return nil, mfail("repeated field is frozen")
			}
			el, err := c.convertElem(t.fd, dynV(w))
			if err != nil {
				return nil, err
			}
			if op.Op == "setidx" {
				t.list.elems[i] = el
			} else {
				t.list.elems = append(t.list.elems, el)
			}
			return nil, nil
		}

	case "setkey":
		ti, tgt := e.pickPref(op.A, "p", op.F)
		if tgt == nil || op.V == nil || op.K == nil {
			return nil, errSkip
		}
		if wouldCycle(writtenNodes(tgt, nil, false), dynV(e.w)) {
			return nil, errSkip
		}
		p.mutIdx = ti
		p.storeFD, p.storeKey = tgt.fd, true
		p.real = func() (starlark.Value, error) {
			if op.Star {
				return e.call(helpers["setkey"], tgt.real.(starlark.Value), rk, rv)
			}
			return nil, tgt.real.(starlark.HasSetKey).SetKey(rk, rv)
		}
		p.model = func(w *world, c *mctx) (*handle, error) {
			t := w.all()[ti]
			if t.flag.frozen || t.mp.immutable {
				return nil, mfail("map field is frozen")
			}
			kc, err := c.convertElem(t.fd.MapKey(), dynK(w))
			if err != nil {
				return nil, err
			}
			vc, err := c.convertElem(t.fd.MapValue(), dynV(w))
			if err != nil {
				return nil, err
			}
			t.mp.vals[kc.sc] = vc
			return nil, nil
		}

	case "freeze":
		ti, tgt := e.pick(op.A, "mlp")
		if tgt == nil {
			return nil, errSkip
		}
		p.real = func() (starlark.Value, error) { tgt.real.Freeze(); return nil, nil }
		p.model = func(w *world, c *mctx) (*handle, error) { w.all()[ti].flag.frozen = true; return nil, nil }

	case "bad":
		// Methods and operators the view types do not have, and mutation during iteration.
		kinds := "lp"
		if strings.HasPrefix(op.F, "iadd__") {
			kinds = "m"
		}
		ti, tgt := e.pick(op.A, kinds)
		if tgt == nil || op.V == nil {
			return nil, errSkip
		}
		if op.F == "itermut" && tgt.kind == 'p' {
			if op.K == nil {
				return nil, errSkip
			}
		}
		h, ok := helpers[op.F]
		if !ok {
			return nil, errSkip
		}
		if wouldCycle(writtenNodes(tgt, nil, false), dynV(e.w)) {
			return nil, errSkip
		}
		p.mutIdx = ti
		p.unsupp = op.F != "itermut"
		p.real = func() (starlark.Value, error) {
			t := tgt.real.(starlark.Value)
			switch op.F {
			case "insert":
				return e.call(h, t, starlark.MakeInt(op.I), rv)
			case "pop":
				return e.call(h, t, rv)
			case "clear":
				return e.call(h, t)
			case "itermut":
				if tgt.kind == 'p' {
					return e.call(helpers["itermutmap"], t, rk, rv)
				}
			}
			return e.call(h, t, rv)
		}
		p.model = func(w *world, c *mctx) (*handle, error) {
			t := w.all()[ti]
			if op.F == "itermut" {
				n := 0
				if t.kind == 'l' {
					n = len(t.list.elems)
				} else {
					n = len(t.mp.vals)
				}
				if n == 0 {
					return nil, nil // the loop body never runs
				}
			}
			return nil, mfail("unsupported operation %s", op.F)
		}

	case "rt":
		return nil, errSkip // handled by roundTrip
	default:
		return nil, errSkip
	}
	return p, nil
}

// anyStore reports whether storing d into fd (whole field unless elemOnly) reaches a scalar slot
// for which pred holds.
func anyStore(fd protoreflect.FieldDescriptor, d dyn, whole bool, pred func(protoreflect.FieldDescriptor, dyn) bool) bool {
	if fd == nil {
		return false
	}
	if whole && fd.IsList() {
		next, ok := iterate(d)
		if !ok {
			return false
		}
		for x, more := next(); more; x, more = next() {
			if anyStore(fd, x, false, pred) {
				return true
			}
		}
		return false
	}
	if whole && fd.IsMap() {
		switch d.c {
		case cDict:
			for _, p := range d.pairs {
				if anyStore(fd.MapKey(), p[0], false, pred) || anyStore(fd.MapValue(), p[1], false, pred) {
					return true
				}
			}
		case cMapH:
			for k, v := range d.mp.vals {
				if anyStore(fd.MapKey(), dynOfCanon(k), false, pred) || anyStore(fd.MapValue(), elemDyn(v), false, pred) {
					return true
				}
			}
		}
		return false
	}
	if isMsgKind(fd) {
		if d.c == cDict {
			for _, p := range d.pairs {
				if p[0].c == cStr {
					if f := fd.Message().Fields().ByName(protoreflect.Name(p[0].s)); f != nil && anyStore(f, p[1], true, pred) {
						return true
					}
				}
			}
		}
		return false
	}
	return pred(fd, d)
}

func bytesIntoString(fd protoreflect.FieldDescriptor, d dyn) bool {
	return fd.Kind() == protoreflect.StringKind && d.c == cBytes
}

// cataloguedPanic recognises the host panics that are registered findings.
func (e *engine) cataloguedPanic(op Op, p *prepared) string {
	v, k := p.valDyn(e.w)
	if p.storeFD != nil {
		hit := false
		if p.storeKey {
			hit = anyStore(p.storeFD.MapKey(), k, false, bytesIntoString) || anyStore(p.storeFD.MapValue(), v, false, bytesIntoString)
		} else {
			hit = anyStore(p.storeFD, v, !p.elemOnly, bytesIntoString)
		}
		if hit {
			return "C20-bytes-into-string-panic"
		}
	}
	if op.Op == "new" {
		md := mdT
		if op.M != "" && msgDescByName(op.M) != nil {
			md = msgDescByName(op.M)
		}
		for _, pr := range v.pairs {
			if pr[0].c == cStr {
				if f := md.Fields().ByName(protoreflect.Name(pr[0].s)); f != nil && anyStore(f, pr[1], true, bytesIntoString) {
					return "C20-bytes-into-string-panic"
				}
			}
		}
	}
	if op.Op == "setf" && p.extension && (p.storeFD.IsList() || v.c == cNone) {
		return "C20-extension-list-or-clear-panic"
	}
	return ""
}

type violation struct{ msg string }

func (v *violation) Error() string { return v.msg }

func bad(format string, args ...any) error { return &violation{fmt.Sprintf(format, args...)} }

// step applies one operation to both sides and checks everything.  stop=true ends the case early
// without failure.
func (e *engine) step(i int, op Op) (stop bool, err error) {
	if op.Op == "rt" {
		return false, e.roundTrip(i, op)
	}
	p, err := e.prepare(op)
	if err != nil {
		if err == errSkip {
			e.classes["step:skipped"] = true
			return false, nil
		}
		var u errUnbuildable
		if errors.As(err, &u) {
			e.classes["step:unbuildable"] = true
			return false, nil
		}
		return false, err
	}
	e.steps++
	where := fmt.Sprintf("step %d %s", i, op)
	var mut *handle
	var mutated []any
	if p.mutIdx >= 0 {
		mut = e.w.all()[p.mutIdx]
		e.noteCross(mut)
		mutated = writtenNodes(mut, p.storeFD, !p.elemOnly)
	}
	if op.Op == "freeze" {
		e.froze = true
	}

	e.w.taint()
	res, rerr, pan := protect(p.real)
	if pan != "" {
		e.th = newThread()
		e.rd.th = e.th
	}
	ok := pan == "" && rerr == nil
	var w2 *world
	var mut2 *handle
	var mutated2 []any
	if p.risky {
		w2 = e.w.clone()
		if p.mutIdx >= 0 {
			mut2 = w2.all()[p.mutIdx]
			mutated2 = writtenNodes(mut2, p.storeFD, !p.elemOnly)
		}
	}
	panID := ""
	if pan != "" {
		if panID = e.cataloguedPanic(op, p); panID == "" {
			return false, bad("%s: host panic: %s", where, pan)
		}
	}
	var nh *handle
	var merr error
	if panID == "C20-extension-list-or-clear-panic" {
		// The panic happens before anything is touched: nothing may have changed.
		w2 = nil
	} else {
		// (A bytes-into-string panic happens where a rejection would: the model runs with bytes rejected.)
		nh, merr = p.model(e.w, &mctx{w: e.w, lenient: ok, either: func(what string, accepted bool) {
			if pan == "" {
				e.classes[fmt.Sprintf("undocumented:%s:accepted=%v", what, accepted)] = true
			}
		}})
		if w2 != nil {
			nh2, merr2 := p.model(w2, &mctx{w: w2, lenient: ok, ideal: true})
			if (rerr == nil) != (merr == nil) && (rerr == nil) == (merr2 == nil) {
				// Only the validate-everything-first order explains the outcome (a value that contains a live
				// view of the field being assigned reads differently once the field has been cleared).
				e.w, w2 = w2, nil
				nh, merr, mut, mutated = nh2, merr2, mut2, mutated2
			}
		}
	}
	switch {
	case pan != "":
		e.noteKnown(panID, fmt.Sprintf("%s: host panic: %s", where, pan))
	case p.unsupp && rerr == nil:
		e.classes["step:unsupported-op-succeeded"] = true
		vk.S.Note("operation %s succeeded; the case was cut there", op.F)
		return true, nil
	case rerr == nil && merr != nil:
		return false, bad("%s: accepted, but %v", where, merr)
	case rerr != nil && merr == nil:
		return false, bad("%s: failed with %q, but the operation is valid", where, rerr)
	}
	switch {
	case pan != "":
		e.counts["op:"+op.Op+":panic(known)"]++
	case rerr != nil:
		e.counts["op:"+op.Op+":error"]++
		if mut != nil && (mut.flag.frozen) {
			e.counts["mutation-through-frozen-handle:refused"]++
		}
	default:
		e.counts["op:"+op.Op+":ok"]++
		if mut != nil && e.crossNow {
			e.counts["mutation-through-handle-sharing-with-frozen:accepted"]++
		}
	}
	if nh != nil && ok {
		v, isv := res.(starlark.Value)
		if !isv || v == nil {
			return false, bad("%s: returned no value", where)
		}
		nh.real = v
		p.place(nh)
	}
	if p.result != nil && ok {
		if err := p.result(res); err != nil {
			return false, bad("%s: %v", where, err)
		}
	}

	// Content of every handle against the model.
	if err := e.compare(e.w); err != nil {
		if w2 == nil {
			return false, bad("%s: %v", where, err)
		}
		if err2 := e.compare(w2); err2 != nil {
			return false, bad("%s: %v", where, err)
		}
		e.w = w2 // validate-then-assign order: also fine
		mut, mutated = mut2, mutated2
	} else if w2 != nil {
		if a, b := e.w.renderAll(), w2.renderAll(); a != b {
			shape := "a failed assignment to a repeated/map field left it cleared or partly filled"
			if rerr == nil {
				shape = "assigning a repeated field's own view back to it (m.r = m.r) emptied the field"
			}
			e.noteKnown("C20-assign-clears-before-validating", fmt.Sprintf("%s: %s: %s", where, shape, firstDiff(b, a)))
		}
	}
	e.w.taint()
	if err := e.checkFrozen(where, mut, mutated); err != nil {
		return false, err
	}
	for _, h := range e.w.all() {
		if treeSize(h) > 1500 {
			e.classes["step:size-cap"] = true
			return true, nil
		}
	}
	return false, nil
}

// noteCross records the non-triviality criterion: after a freeze, a mutation attempt through a
// handle other than a frozen one's own wrapper that shares its flag or reaches its content.
func (e *engine) noteCross(mut *handle) {
	e.crossNow = false
	if !e.froze {
		return
	}
	for _, h := range e.w.watched() {
		if h == mut || !h.flag.frozen {
			continue
		}
		if h.flag == mut.flag {
			e.crossNow = true
			break
		}
		v := newVisitor()
		v.handle(h)
		if (mut.msg != nil && v.msgs[mut.msg]) || (mut.list != nil && v.lists[mut.list]) || (mut.mp != nil && v.maps[mut.mp]) {
			e.crossNow = true
			break
		}
	}
	if e.crossNow {
		e.crossMutate = true
	}
}

func firstDiff(want, got string) string {
	i := 0
	for i < len(want) && i < len(got) && want[i] == got[i] {
		i++
	}
	lo := i - 70
	if lo < 0 {
		lo = 0
	}
	cut := func(s string) string {
		hi := i + 70
		if hi > len(s) {
			hi = len(s)
		}
		if lo > len(s) {
			return ""
		}
		return s[lo:hi]
	}
	return fmt.Sprintf("expected ...%s... got ...%s...", cut(want), cut(got))
}

// compare reads every watched handle back and compares it with the model's content.
func (e *engine) compare(w *world) error {
	for i, h := range w.watched() {
		e.rd.nodes = 0
		got, err := e.rd.readHandle(h)
		if err != nil {
			return fmt.Errorf("handle %d (%s) is not well-typed: %v", i, h.origin, err)
		}
		if want := h.render(); got != want {
			return fmt.Errorf("handle %d (%s) content differs from the model: %s", i, h.origin, firstDiff(want, got))
		}
		if h.kind == 'm' {
			var sb strings.Builder
			prMsg(&sb, h.real.(*sproto.Message).Message().ProtoReflect())
			if sb.String() != got {
				return fmt.Errorf("handle %d (%s): Starlark view and wrapped message disagree: %s", i, h.origin, firstDiff(sb.String(), got))
			}
		}
	}
	return nil
}

// classify explains a change of frozen handle h's content: a written node must be visible from h
// and lie inside a region that is shared between wrapper groups, i.e. at or below a node that was
// stored by reference (message assignment) or shared by a shallow copy.
func (w *world) classify(h *handle, mutated []any) string {
	in := func(v *visitor, n any) bool {
		switch n := n.(type) {
		case *mMsg:
			return v.msgs[n]
		case *mList:
			return v.lists[n]
		case *mMap:
			return v.maps[n]
		}
		return false
	}
	hv := newVisitor()
	hv.handle(h)
	var visible []any
	for _, n := range mutated {
		if in(hv, n) {
			visible = append(visible, n)
		}
	}
	if len(visible) == 0 {
		return ""
	}
	byCopy, byAlias := false, false
	for _, n := range visible {
		switch n := n.(type) {
		case *mMsg:
			byCopy, byAlias = byCopy || n.everCopy, byAlias || n.everAlias
		case *mList:
			byCopy, byAlias = byCopy || n.everCopy, byAlias || n.everAlias
		case *mMap:
			byCopy, byAlias = byCopy || n.everCopy, byAlias || n.everAlias
		}
	}
	for _, x := range w.marked {
		xv := newVisitor()
		var c, a bool
		switch x := x.(type) {
		case *mMsg:
			xv.msg(x)
			c, a = x.sharedCopy, x.sharedAlias
		case *mList:
			xv.list(x)
			c = x.sharedCopy
		case *mMap:
			xv.mapn(x)
			c = x.sharedCopy
		}
		for _, n := range visible {
			if in(xv, n) {
				byCopy = byCopy || c
				byAlias = byAlias || a
			}
		}
	}
	switch {
	case byCopy:
		return "C20-frozen-shallow-copy"
	case byAlias:
		return "C20-frozen-message-alias"
	}
	return ""
}

// checkFrozen: the printed form (and content) of every frozen handle must be what it was when it
// became frozen.
func (e *engine) checkFrozen(where string, mut *handle, mutated []any) error {
	for i, h := range e.w.watched() {
		if !h.flag.frozen {
			continue
		}
		s := h.real.String()
		cur := h.render()
		if !h.captured {
			h.captured, h.frozenStr, h.frozenCanon = true, s, cur
			continue
		}
		if s == h.frozenStr && cur == h.frozenCanon {
			continue
		}
		id := ""
		if mut != nil && mut.flag != h.flag && !mut.flag.frozen && cur != h.frozenCanon {
			id = e.w.classify(h, mutated)
		}
		if id == "" {
			return bad("%s: frozen handle %d (%s) changed: printed %s, now %s", where, i, h.origin, h.frozenStr, s)
		}
		e.noteKnown(id, fmt.Sprintf("%s: frozen handle %d (%s) changed through a handle of another wrapper group: printed %s, now %s",
			where, i, h.origin, h.frozenStr, s))
		h.frozenStr, h.frozenCanon = s, cur
	}
	return nil
}

// roundTrip: unmarshal(marshal(m)) in binary or text form reproduces the content.
func (e *engine) roundTrip(i int, op Op) error {
	_, tgt := e.pick(op.A, "m")
	if tgt == nil {
		return nil
	}
	e.steps++
	form, mar, unmar := "binary", "marshal", "unmarshal"
	if op.Star {
		form, mar, unmar = "text", "marshal_text", "unmarshal_text"
	}
	where := fmt.Sprintf("step %d %s round trip of handle (%s)", i, form, tgt.origin)
	missing, badUTF8, hasExt := marshalObstacles(tgt.msg)
	obstacle := func(stage string, err error, pan string) error {
		switch {
		case pan != "":
			return bad("%s: %s: host panic: %s", where, stage, pan)
		case badUTF8:
			e.noteKnown("C20-invalid-utf8-string-accepted", fmt.Sprintf("%s: %s failed (%v): a proto3 string field was allowed to hold invalid UTF-8", where, stage, err))
			return nil
		case missing:
			e.classes["rt:missing-required"] = true
			return nil
		case hasExt && stage == unmar && op.Star:
			e.noteKnown("C20-extension-lost-on-unmarshal", fmt.Sprintf("%s: %s failed (%v): the text form of a message with an extension field set by proto.set_field cannot be read back", where, stage, err))
			return nil
		}
		return bad("%s: %s failed: %v", where, stage, err)
	}
	data, err, pan := protect(func() (starlark.Value, error) { return e.call(member[mar], tgt.real.(starlark.Value)) })
	if err != nil || pan != "" {
		return obstacle(mar, err, pan)
	}
	switch d := data.(type) {
	case starlark.Bytes:
		if op.Star {
			return bad("%s: marshal_text returned bytes", where)
		}
	case starlark.String:
		if !op.Star {
			return bad("%s: marshal returned a string", where)
		}
	default:
		return bad("%s: %s returned %s", where, mar, d.Type())
	}
	back, err, pan := protect(func() (starlark.Value, error) { return e.call(member[unmar], msgCtor(tgt.msg.md), data) })
	if err != nil || pan != "" {
		return obstacle(unmar, err, pan)
	}
	want := e.w.normalizedCopy(tgt.msg, false)
	nh := &handle{kind: 'm', msg: want, flag: &flagT{}, origin: "unmarshal"}
	v, ok := back.(starlark.Value)
	if !ok {
		return bad("%s: no value", where)
	}
	nh.real = v
	e.rd.nodes = 0
	got, err := e.rd.readHandle(nh)
	if err != nil {
		return bad("%s: result is not well-typed: %v", where, err)
	}
	if w := nh.render(); got != w {
		stripped := &handle{kind: 'm', msg: e.w.normalizedCopy(tgt.msg, true)}
		if hasExt && !op.Star && got == stripped.render() {
			e.noteKnown("C20-extension-lost-on-unmarshal", fmt.Sprintf("%s: extension fields set by proto.set_field are absent (proto.has false, default value) after unmarshal(marshal(m)): %s", where, firstDiff(w, got)))
			nh.msg = stripped.msg
		} else {
			return bad("%s: content changed: %s", where, firstDiff(w, got))
		}
	}
	e.classes["rt:"+form] = true
	if op.I == 1 {
		e.w.setVar(op.B, nh)
	}
	return nil
}

// run interprets a whole case.
func run(c Case) (*engine, error) {
	e := newEngine()
	for i, op := range c.Ops {
		stop, err := e.step(i, op)
		if err != nil {
			return e, err
		}
		if stop {
			return e, nil
		}
	}
	// Final: every variable survives both wire forms.
	for slot, h := range e.w.vars {
		if h == nil {
			continue
		}
		all := e.w.all()
		for idx, x := range all {
			if x != h {
				continue
			}
			// pick() selects among message handles only: translate.
			k := 0
			for _, y := range all[:idx] {
				if y.kind == 'm' {
					k++
				}
			}
			for _, text := range []bool{false, true} {
				if err := e.roundTrip(len(c.Ops)+slot, Op{Op: "rt", A: k, Star: text}); err != nil {
					return e, err
				}
			}
		}
	}
	return e, nil
}

func (e *engine) verdict() error {
	if len(e.known) == 0 {
		return nil
	}
	parts := strings.SplitN(e.known[0], "\x00", 2)
	var all []string
	for _, k := range e.known {
		all = append(all, k[strings.IndexByte(k, 0)+1:])
	}
	return vk.Known(parts[0], errors.New(strings.Join(all, " | ")))
}
